//! C13 monitor (Level B, real dispatch): after every SUCCESSFUL configuration instruction (full
//! configure, interest-only, e-mode configure, e-mode clone) the bank must satisfy the coherence
//! invariant, recomputed independently from the raw account bytes.
use crate::fam_admin::{gen_entries, gen_opt, Cfg};
use crate::mon::Report;
use crate::rng::Rng;
use crate::scen::Scen;
use crate::world::ix;
use anchor_lang::prelude::Pubkey;
use anchor_lang::{InstructionData, ToAccountMetas};
use fixed::types::I80F48;
use marginfi_type_crate::types::{Bank, BankOperationalState, EmodeEntry, RiskTier};
use solana_program::instruction::Instruction;

const ONE: i128 = 1 << 48;

fn w(v: marginfi_type_crate::types::WrappedI80F48) -> i128 {
    I80F48::from(v).to_bits()
}

/// independent coherence predicate; returns the first violated clause
/// the coherence predicate plus the leverage clause: every e-mode entry's implied leverage l/(l-w) against THIS bank's
/// liability weights stays within the group's caps (exact rational arithmetic, with a 1e-6 relative margin for the
/// program's fixed-point rounding exactly at the cap)
fn incoherent_with_caps(b: &Bank, g: &marginfi_type_crate::types::MarginfiGroup) -> Option<String> {
    if let Some(w) = incoherent(b) {
        return Some(w);
    }
    use num_bigint::BigInt;
    let (li, lm) = (w(b.config.liability_weight_init), w(b.config.liability_weight_maint));
    // cap = v * 100 / u32::MAX
    let caps = [(g.emode_max_init_leverage as u64, li, true), (g.emode_max_maint_leverage as u64, lm, false)];
    for e in b.emode.emode_config.entries.iter().filter(|e| e.collateral_bank_emode_tag != 0) {
        for (cap_raw, l, init) in caps {
            if cap_raw == 0 {
                continue;
            }
            let wv = if init { w(e.asset_weight_init) } else { w(e.asset_weight_maint) };
            if wv >= l {
                return Some(format!("emode-entry-vs-liability-weights: entry tag {} weight {} not below liability weight {}", e.collateral_bank_emode_tag, wv, l));
            }
            // l/(l-w) > cap*(1+1e-6)  <=>  l * u32max * 10^6 > cap_raw*100*(l-w)*(10^6+1)
            let lhs = BigInt::from(l) * BigInt::from(u32::MAX) * BigInt::from(1_000_000u64);
            let rhs = BigInt::from(cap_raw) * BigInt::from(100u64) * BigInt::from(l - wv) * BigInt::from(1_000_001u64);
            if lhs > rhs {
                return Some(format!(
                    "emode-leverage-cap: entry tag {} ({} weight {}) against liability weight {} implies leverage above the group's cap ({} %)",
                    e.collateral_bank_emode_tag, if init { "init" } else { "maint" }, wv, l, (cap_raw as f64) * 100.0 / (u32::MAX as f64) * 100.0
                ));
            }
        }
    }
    None
}

fn incoherent(b: &Bank) -> Option<String> {
    let c = &b.config;
    let (ai, am, li, lm) = (w(c.asset_weight_init), w(c.asset_weight_maint), w(c.liability_weight_init), w(c.liability_weight_maint));
    if !(0 <= ai && ai <= ONE) {
        return Some(format!("asset init weight {} outside [0,1]", ai));
    }
    if !(ai <= am && am <= 2 * ONE) {
        return Some(format!("asset maint weight {} not in [init {}, 2]", am, ai));
    }
    if !(ONE <= lm && lm <= li) {
        return Some(format!("liability weights maint {} init {} violate 1 <= maint <= init", lm, li));
    }
    if c.risk_tier == RiskTier::Isolated && (ai != 0 || am != 0) {
        return Some("isolated bank with non-zero asset weights".into());
    }
    if c.oracle_max_age < 10 {
        return Some(format!("oracle max age {} below the minimum", c.oracle_max_age));
    }
    for e in b.emode.emode_config.entries.iter() {
        if e.collateral_bank_emode_tag == 0 {
            continue;
        }
        let (ei, em) = (w(e.asset_weight_init), w(e.asset_weight_maint));
        if !(0 <= ei && ei <= em) {
            return Some(format!("emode-entry: entry tag {} has init {} maint {} (need 0 <= init <= maint)", e.collateral_bank_emode_tag, ei, em));
        }
        if !(ei < li && em < lm) {
            return Some(format!(
                "emode-entry-vs-liability-weights: entry tag {} weights ({}, {}) not below the bank's liability weights ({}, {}) — implied leverage unbounded",
                e.collateral_bank_emode_tag, ei, em, li, lm
            ));
        }
    }
    None
}

fn emode_ix(group: Pubkey, admin: Pubkey, bank: Pubkey, tag: u16, entries: [EmodeEntry; 10]) -> Instruction {
    Instruction {
        program_id: marginfi::ID,
        accounts: marginfi::accounts::LendingPoolConfigureBankEmode { group, emode_admin: admin, bank }.to_account_metas(None),
        data: marginfi::instruction::LendingPoolConfigureBankEmode { emode_tag: tag, entries }.data(),
    }
}

fn clone_emode_ix(group: Pubkey, signer: Pubkey, from: Pubkey, to: Pubkey) -> Instruction {
    Instruction {
        program_id: marginfi::ID,
        accounts: marginfi::accounts::LendingPoolCloneEmode { group, signer, copy_from_bank: from, copy_to_bank: to }.to_account_metas(None),
        data: marginfi::instruction::LendingPoolCloneEmode {}.data(),
    }
}

pub fn run(rng: &mut Rng, n: usize, rep: &mut Report) {
    run_with(rng, n, rep, &mut None)
}

/// family `cfgix`: one line per REAL lending_pool_configure_bank executed by this monitor (unfrozen and frozen banks,
/// with whatever e-mode entries the bank holds at that moment): `adm.ixcfg <cfg> flags maxInit maxMaint <opt> <entries>`
pub fn gen(rng: &mut Rng, n: usize, out: &mut Vec<String>) {
    let mut guard = 0;
    while out.len() < n && guard < 400 {
        guard += 1;
        let mut scratch = Report::default();
        let mut part: Option<Vec<String>> = Some(vec![]);
        run_with(rng, 60, &mut scratch, &mut part);
        out.extend(part.unwrap());
    }
    out.truncate(n);
}

fn entries_line(b: &Bank) -> String {
    b.emode.emode_config.entries.iter().map(|e| format!("{} {} {} {}", e.collateral_bank_emode_tag, e.flags, w(e.asset_weight_init), w(e.asset_weight_maint))).collect::<Vec<_>>().join(" ")
}

pub fn run_with(rng: &mut Rng, n: usize, rep: &mut Report, lines: &mut Option<Vec<String>>) {
    let mut cells = 0;
    // add-pool validation: the initial configuration of a NEW bank is only checked by BankConfig::validate
    {
        use marginfi::state::bank_config::BankConfigImpl;
        let mut cfg = crate::world::fixtures::bank_config_fixed(I80F48::from_num(1));
        cfg.operational_state = BankOperationalState::KilledByBankruptcy;
        if cfg.validate().is_ok() {
            rep.fail("add-pool-accepts-killed-initial-state: BankConfig::validate() (the only check lending_pool_add_bank* applies to the initial configuration) accepts operational_state = KilledByBankruptcy, so an admin can create a bank that is already in the killed state".to_string());
        }
        rep.bump("cases");
    }
    while cells < n {
        let mut s = Scen::build(rng);
        let h0 = s.banks[0];
        let h1 = s.banks[1];
        // ---- the REAL lending_pool_add_bank through dispatch (the bank account and its three vaults are really `init`ed):
        //      whatever initial configuration it accepts must be coherent by the independent predicate
        for _ in 0..6 {
            add_bank_probe(&s, rng, rep);
            cells += 1;
        }
        for _ in 0..25 {
            // full configure with random (mostly valid, sometimes boundary) options
            // sometimes the bank is frozen for this round (state edit; lifted again below)
            if rng.chance(1, 6) {
                let mut b = s.w.bank(&h0.bank);
                b.flags |= marginfi_type_crate::constants::FREEZE_SETTINGS;
                s.w.set_bank(&h0.bank, &b);
            }
            let pre = s.w.bank(&h0.bank);
            let og = gen_opt(rng, &Cfg::from_bank(&pre));
            let r = s.w.exec(&ix::configure_bank(&h0, s.admin, og.opt.clone()));
            if let Some(v) = lines.as_mut() {
                let g = s.w.group(&s.group);
                let head = format!("adm.ixcfg {} {} {} {} {} {}", Cfg::from_bank(&pre).line(), pre.flags, g.emode_max_init_leverage, g.emode_max_maint_leverage, og.line, entries_line(&pre));
                match &r {
                    Ok(()) => {
                        let post = s.w.bank(&h0.bank);
                        v.push(format!("{} => ok {} {}", head, Cfg::from_bank(&post).line(), post.flags));
                    }
                    Err(e) => {
                        if let Some(c) = e.code() {
                            v.push(format!("{} => err {}", head, c));
                        }
                    }
                }
            }
            cells += 1;
            rep.bump("cases");
            if r.is_ok() {
                rep.bump("configure_ok");
                let post = s.w.bank(&h0.bank);
                if post.flags & marginfi_type_crate::constants::FREEZE_SETTINGS != 0 {
                    // unfreeze for the next rounds (test fixture, not an instruction)
                    let mut b = post;
                    b.flags &= !marginfi_type_crate::constants::FREEZE_SETTINGS;
                    s.w.set_bank(&h0.bank, &b);
                }
                if let Some(why) = incoherent_with_caps(&post, &s.w.group(&s.group)) {
                    rep.fail(format!("configure_bank accepted an incoherent configuration: {}; opt [{}]", why, og.line));
                }
                if (post.config.operational_state == BankOperationalState::KilledByBankruptcy) != (pre.config.operational_state == BankOperationalState::KilledByBankruptcy) {
                    rep.fail("configure_bank moved a bank across the killed state".to_string());
                }
            }
            // e-mode configure on bank 0 against its current liability weights
            let cur = Cfg::from_bank(&s.w.bank(&h0.bank));
            let (settings, _line) = gen_entries(rng, cur.l_init, cur.l_maint);
            let r = s.w.exec(&emode_ix(s.group, s.admin, h0.bank, 1 + rng.below(5) as u16, settings.emode_config.entries));
            cells += 1;
            rep.bump("cases");
            if r.is_ok() {
                rep.bump("emode_ok");
                if let Some(why) = incoherent_with_caps(&s.w.bank(&h0.bank), &s.w.group(&s.group)) {
                    rep.fail(format!("configure_bank_emode accepted an incoherent configuration: {}", why));
                }
                emode_flag_invariant(&s.w.bank(&h0.bank), "lending_pool_configure_bank_emode", rep);
            }
            // clone bank 0's e-mode onto bank 1 (which has its own liability weights)
            if rng.chance(1, 2) {
                // give bank 1 different (lower) liability weights through the real configure
                let lm = ONE + rng.below(ONE as u64 / 4) as i128;
                let li = lm + rng.below(ONE as u64 / 4) as i128;
                let _ = s.w.exec(&ix::configure_bank(
                    &h1,
                    s.admin,
                    marginfi_type_crate::types::BankConfigOpt {
                        liability_weight_init: Some(I80F48::from_bits(li).into()),
                        liability_weight_maint: Some(I80F48::from_bits(lm).into()),
                        ..Default::default()
                    },
                ));
            }
            let r = s.w.exec(&clone_emode_ix(s.group, s.admin, h0.bank, h1.bank));
            cells += 1;
            rep.bump("cases");
            if r.is_ok() {
                rep.bump("clone_ok");
                if let Some(why) = incoherent_with_caps(&s.w.bank(&h1.bank), &s.w.group(&s.group)) {
                    rep.fail(format!("clone-emode-unvalidated: lending_pool_clone_emode left the destination bank with an incoherent configuration: {}", why));
                }
                let (src, dst) = (s.w.bank(&h0.bank), s.w.bank(&h1.bank));
                if src.emode.emode_tag != dst.emode.emode_tag || bytemuck::bytes_of(&src.emode.emode_config) != bytemuck::bytes_of(&dst.emode.emode_config) {
                    rep.fail("lending_pool_clone_emode left the destination with a tag / entries that differ from the source's".to_string());
                }
                emode_flag_invariant(&dst, "lending_pool_clone_emode", rep);
            }
        }
        // ---- directed: cloning high-weight entries onto a bank with LOWER liability weights must be refused whatever the history
        //      of the two banks' e-mode settings is: destination never configured, configured earlier, configured in the very
        //      same second as the source (two configure instructions in one transaction), already a clone of an older version
        for variant in 0..4u64 {
            let mut w2 = s.w.clone();
            let opt = |li: i128, lm: i128| marginfi_type_crate::types::BankConfigOpt {
                liability_weight_init: Some(I80F48::from_bits(li).into()),
                liability_weight_maint: Some(I80F48::from_bits(lm).into()),
                ..Default::default()
            };
            let entry = |tag: u16, wi: i128, wm: i128| {
                let mut es = [EmodeEntry { collateral_bank_emode_tag: 0, flags: 0, pad0: [0; 5], asset_weight_init: I80F48::ZERO.into(), asset_weight_maint: I80F48::ZERO.into() }; 10];
                es[9] = EmodeEntry { collateral_bank_emode_tag: tag, flags: 0, pad0: [0; 5], asset_weight_init: I80F48::from_bits(wi).into(), asset_weight_maint: I80F48::from_bits(wm).into() };
                es
            };
            // clean slate for both banks' e-mode (fixture), then everything through the real instructions
            for h in [h0, h1] {
                let mut b = w2.bank(&h.bank);
                b.emode = bytemuck::Zeroable::zeroed();
                b.flags &= !marginfi_type_crate::constants::FREEZE_SETTINGS;
                w2.set_bank(&h.bank, &b);
            }
            let hi = ONE + rng.below(ONE as u64 / 50) as i128; // the copied entry: 1.00 .. 1.02 (init), a little more (maint)
            let ok_src = w2.exec(&ix::configure_bank(&h0, s.admin, opt(ONE * 13 / 10, ONE * 12 / 10))).is_ok()
                && w2.exec(&ix::configure_bank(&h1, s.admin, opt(ONE + ONE / 20, ONE))).is_ok();
            if !ok_src { continue; }
            match variant {
                0 => {} // destination never configured (timestamp 0)
                1 => { let _ = w2.exec(&emode_ix(s.group, s.admin, h1.bank, 2, entry(3, ONE / 2, ONE * 6 / 10))); w2.advance(1 + rng.below(100_000) as i64); }
                2 => { let _ = w2.exec(&emode_ix(s.group, s.admin, h1.bank, 2, entry(3, ONE / 2, ONE * 6 / 10))); } // same second as the source below
                _ => {
                    // destination is a clone of an OLDER, harmless version of the source's settings, source re-configured in the same second
                    let _ = w2.exec(&emode_ix(s.group, s.admin, h0.bank, 1, entry(3, ONE / 2, ONE * 6 / 10)));
                    let _ = w2.exec(&clone_emode_ix(s.group, s.admin, h0.bank, h1.bank));
                }
            }
            if w2.exec(&emode_ix(s.group, s.admin, h0.bank, 1, entry(3, hi, hi + ONE / 40))).is_err() { rep.bump("clone_probe_source_refused"); continue; }
            let r = w2.exec(&clone_emode_ix(s.group, s.admin, h0.bank, h1.bank));
            cells += 1;
            rep.bump("cases");
            rep.bump("clone_probes");
            if r.is_ok() {
                let why = incoherent_with_caps(&w2.bank(&h1.bank), &w2.group(&s.group)).unwrap_or_else(|| "(no incoherence found by the independent predicate)".into());
                let (src, dst) = (w2.bank(&h0.bank), w2.bank(&h1.bank));
                rep.fail(format!(
                    "clone-emode-unvalidated: lending_pool_clone_emode copied an entry of weight ({}, {}) onto a bank whose own liability weights are ({}, {}) [history variant {}: destination e-mode timestamp before the clone vs source {}]: {}",
                    hi, hi + ONE / 40, w(dst.config.liability_weight_init), w(dst.config.liability_weight_maint), variant, src.emode.timestamp, why
                ));
            }
        }
        // ---- directed: a bank that HOLDS a valid high-weight e-mode entry must not be allowed to lower its liability weights
        //      under it (full configure re-validates the stored entries against the NEW weights)
        for _ in 0..4 {
            let mut w2 = s.w.clone();
            // roomy liability weights first, then the entry, through the real instructions
            let ok1 = w2.exec(&ix::configure_bank(&h0, s.admin, marginfi_type_crate::types::BankConfigOpt {
                liability_weight_init: Some(I80F48::from_num(1.5).into()),
                liability_weight_maint: Some(I80F48::from_num(1.4).into()),
                ..Default::default()
            })).is_ok();
            let wi = ONE * 80 / 100 + rng.below(ONE as u64 * 45 / 100) as i128; // 0.80 .. 1.25
            let wm = wi + rng.below(ONE as u64 / 50) as i128;
            let mut entries = [EmodeEntry { collateral_bank_emode_tag: 0, flags: 0, pad0: [0; 5], asset_weight_init: I80F48::ZERO.into(), asset_weight_maint: I80F48::ZERO.into() }; 10];
            entries[0] = EmodeEntry { collateral_bank_emode_tag: 9, flags: 0, pad0: [0; 5], asset_weight_init: I80F48::from_bits(wi).into(), asset_weight_maint: I80F48::from_bits(wm).into() };
            let ok2 = w2.exec(&emode_ix(s.group, s.admin, h0.bank, 3, entries)).is_ok();
            if !(ok1 && ok2) {
                rep.bump("directed_setup_refused");
                continue;
            }
            // now ask for liability weights around the entry's weights / around the leverage cap
            let lm = (wm + rng.range(-(ONE as i64 / 20), ONE as i64 / 10) as i128).max(ONE);
            let li = lm + rng.below(ONE as u64 / 20) as i128;
            let r = w2.exec(&ix::configure_bank(&h0, s.admin, marginfi_type_crate::types::BankConfigOpt {
                liability_weight_init: Some(I80F48::from_bits(li).into()),
                liability_weight_maint: Some(I80F48::from_bits(lm).into()),
                ..Default::default()
            }));
            cells += 1;
            rep.bump("cases");
            rep.bump(if r.is_ok() { "directed_lower_ok" } else { "directed_lower_refused" });
            if r.is_ok() {
                if let Some(why) = incoherent_with_caps(&w2.bank(&h0.bank), &w2.group(&s.group)) {
                    rep.fail(format!("configure_bank lowered the liability weights under a stored e-mode entry: {} (entry {} / {}, new liability weights {} / {})", why, wi, wm, li, lm));
                }
            }
        }
        // ---- directed: FRACTIONAL group leverage caps (set through the real marginfi_group_configure) and an e-mode entry
        //      whose implied leverage lies within half a unit on either side of the cap
        for _ in 0..4 {
            let mut w2 = s.w.clone();
            let g0 = w2.group(&s.group);
            let ci = 2.0 + rng.below(30) as f64 + *rng.pick(&[0.25f64, 0.5, 0.75, 0.9, 0.51, 0.0]);
            let cm = ci + 1.0 + rng.below(20) as f64 + *rng.pick(&[0.25f64, 0.5, 0.75, 0.6, 0.0]);
            if cm > 100.0 {
                continue;
            }
            let okg = w2.exec(&ix::group_configure(
                s.group, g0.admin, g0.admin, g0.emode_admin, g0.delegate_curve_admin, g0.delegate_limit_admin, g0.delegate_emissions_admin,
                g0.metadata_admin, g0.risk_admin, Some(I80F48::from_num(ci).into()), Some(I80F48::from_num(cm).into()),
            )).is_ok();
            if !okg {
                rep.bump("frac_cap_group_refused");
                continue;
            }
            // liability weights 1.2 / 1.1 on bank 0 (roomy), then an entry at leverage cap + delta on the init side
            let _ = w2.exec(&ix::configure_bank(&h0, s.admin, marginfi_type_crate::types::BankConfigOpt {
                liability_weight_init: Some(I80F48::from_num(1.2).into()),
                liability_weight_maint: Some(I80F48::from_num(1.1).into()),
                ..Default::default()
            }));
            let delta = *rng.pick(&[-0.4f64, -0.1, 0.05, 0.2, 0.45, 0.3]);
            let lev = (ci + delta).max(1.01);
            let wi = 1.2 * (1.0 - 1.0 / lev);
            let wm_cap = 1.1 * (1.0 - 1.0 / (cm - 0.6).max(1.01));
            let wm = wi.max(wm_cap.min(1.09)).min(1.09);
            let mut entries = [EmodeEntry { collateral_bank_emode_tag: 0, flags: 0, pad0: [0; 5], asset_weight_init: I80F48::ZERO.into(), asset_weight_maint: I80F48::ZERO.into() }; 10];
            entries[0] = EmodeEntry { collateral_bank_emode_tag: 4, flags: 0, pad0: [0; 5], asset_weight_init: I80F48::from_num(wi).into(), asset_weight_maint: I80F48::from_num(wm).into() };
            let r = w2.exec(&emode_ix(s.group, s.admin, h0.bank, 2, entries));
            cells += 1;
            rep.bump("cases");
            rep.bump(if r.is_ok() { "frac_cap_entry_ok" } else { "frac_cap_entry_refused" });
            if r.is_ok() {
                if let Some(why) = incoherent_with_caps(&w2.bank(&h0.bank), &w2.group(&s.group)) {
                    rep.fail(format!("configure_bank_emode accepted an entry beyond a fractional group cap: {} (caps {} / {}, entry leverage {:.3})", why, ci, cm, lev));
                }
            }
        }
        // ---- staked-settings propagation (real edit_staked_settings + the permissionless propagate_staked_settings):
        //      whatever ends up in the bank must be a coherent configuration
        {
            use marginfi_type_crate::types::{StakedSettings, WrappedI80F48};
            let oracle = s.w.new_key();
            // the settings account is created by the REAL init_staked_settings (a PDA of the group, really `init`ed); first a few
            // probes on copies of the world: whatever initial settings it accepts must be coherent, only the group admin may
            // create them, only at the group's PDA, only once
            let (key, _) = Pubkey::find_program_address(&[marginfi_type_crate::constants::STAKED_SETTINGS_SEED.as_bytes(), s.group.as_ref()], &marginfi::ID);
            let init_ix = |group: Pubkey, admin: Pubkey, at: Pubkey, wi: i128, wm: i128, tier: RiskTier, age: u16| Instruction {
                program_id: marginfi::ID,
                accounts: marginfi::accounts::InitStakedSettings { marginfi_group: group, admin, fee_payer: admin, staked_settings: at, system_program: solana_program::system_program::ID }.to_account_metas(None),
                data: marginfi::instruction::InitStakedSettings { settings: marginfi::instructions::marginfi_group::StakedSettingsConfig {
                    oracle, asset_weight_init: I80F48::from_bits(wi).into(), asset_weight_maint: I80F48::from_bits(wm).into(),
                    deposit_limit: 1_000_000_000_000, total_asset_value_init_limit: 0, oracle_max_age: age, risk_tier: tier } }.data(),
            };
            for _ in 0..8 {
                let mut w2 = s.w.clone();
                let pick_w = |rng: &mut Rng| -> i128 { match rng.below(6) { 0 => 0, 1 => ONE as i128, 2 => 2 * ONE as i128 + rng.range(-2, 2) as i128, 3 => rng.range(-3, 3) as i128, 4 => ONE as i128 + rng.range(-2, 2) as i128, _ => rng.below(3 * ONE as u64) as i128 } };
                let (wi, wm) = (pick_w(rng), pick_w(rng));
                let tier = if rng.chance(1, 4) { RiskTier::Isolated } else { RiskTier::Collateral };
                let who = match rng.below(4) { 0 => w2.add_wallet(1_000_000_000), _ => s.admin };
                let at = if rng.chance(1, 6) { w2.new_key() } else { key };
                let before = w2.accounts.clone();
                let r = w2.exec(&init_ix(s.group, who, at, wi, wm, tier, 60));
                cells += 1;
                rep.bump("cases");
                rep.bump("staked_init_probes");
                match r {
                    Err(_) => { if w2.accounts != before { rep.fail("C08 a refused init_staked_settings changed the store".to_string()); } }
                    Ok(()) => {
                        rep.bump("staked_init_ok");
                        if who != s.admin { rep.fail("C08 init_staked_settings succeeded for a signer who is not the group admin".to_string()); }
                        if at != key { rep.fail("C08 init_staked_settings created the settings somewhere else than at the group's PDA".to_string()); }
                        let st: StakedSettings = w2.read_zc(&at);
                        let (gi, gm) = (w(st.asset_weight_init), w(st.asset_weight_maint));
                        let one = ONE as i128;
                        if !(0 <= gi && gi <= one && gi <= gm && gm <= 2 * one) || (st.risk_tier == RiskTier::Isolated && (gi != 0 || gm != 0)) {
                            rep.fail(format!("init_staked_settings accepted incoherent initial settings: weights ({}, {}), tier isolated {}", gi, gm, st.risk_tier == RiskTier::Isolated));
                        }
                        if gi != wi || gm != wm || st.marginfi_group != s.group || st.key != at || st.oracle != oracle {
                            rep.fail("init_staked_settings stored something else than the settings given (weights / group / key / oracle)".to_string());
                        }
                        // once only
                        let before2 = w2.accounts.clone();
                        if w2.exec(&init_ix(s.group, s.admin, at, 0, 0, RiskTier::Collateral, 60)).is_ok() { rep.fail("C08 init_staked_settings succeeded a second time on the same group".to_string()); }
                        else if w2.accounts != before2 { rep.fail("C08 a refused second init_staked_settings changed the store".to_string()); }
                    }
                }
            }
            if s.w.exec(&init_ix(s.group, s.admin, key, (ONE as i128) * 8 / 10, (ONE as i128) * 9 / 10, RiskTier::Collateral, 60)).is_err() {
                rep.fail("init_staked_settings refused plain valid settings (0.8 / 0.9, collateral tier) from the group admin".to_string());
                // fall back to a fabricated account so that the rest of the block still runs
                let mut st: StakedSettings = bytemuck::Zeroable::zeroed();
                st.key = key;
                st.marginfi_group = s.group;
                st.oracle = oracle;
                st.asset_weight_init = I80F48::from_num(0.8).into();
                st.asset_weight_maint = I80F48::from_num(0.9).into();
                st.deposit_limit = 1_000_000_000_000;
                st.oracle_max_age = 60;
                st.risk_tier = RiskTier::Collateral;
                s.w.put_zc(key, &st);
            }
            // bank 1 becomes a staked-collateral bank that already uses the settings' oracle (so that propagation does not
            // re-validate the oracle accounts, which would need a stake pool)
            let mut bk = s.w.bank(&h1.bank);
            bk.config.asset_tag = marginfi_type_crate::constants::ASSET_TAG_STAKED;
            bk.config.oracle_keys[0] = oracle;
            s.w.set_bank(&h1.bank, &bk);
            for _ in 0..12 {
                let wgt = |rng: &mut Rng| -> Option<WrappedI80F48> {
                    match rng.below(6) {
                        0 => None,
                        1 => Some(I80F48::from_bits(rng.below(ONE as u64 + 2) as i128).into()),
                        2 => Some(I80F48::from_bits((ONE as i128) + rng.range(-2, 2) as i128).into()),
                        3 => Some(I80F48::from_bits(2 * (ONE as i128) + rng.range(-2, 2) as i128).into()),
                        4 => Some(I80F48::from_bits(rng.range(-3, 3) as i128).into()),
                        _ => Some(I80F48::from_bits(rng.below(3 * ONE as u64) as i128).into()),
                    }
                };
                let edit = marginfi::instructions::marginfi_group::StakedSettingsEditConfig {
                    oracle: None,
                    asset_weight_init: wgt(rng),
                    asset_weight_maint: wgt(rng),
                    deposit_limit: if rng.chance(1, 2) { Some(rng.u64_mixed()) } else { None },
                    total_asset_value_init_limit: if rng.chance(1, 2) { Some(rng.u64_mixed()) } else { None },
                    oracle_max_age: match rng.below(4) { 0 => None, 1 => Some(rng.below(12) as u16), 2 => Some(*rng.pick(&[0u16, 9, 10, 11, 60, u16::MAX])), _ => Some(rng.below(700) as u16) },
                    risk_tier: match rng.below(4) { 0 => Some(RiskTier::Isolated), 1 => Some(RiskTier::Collateral), _ => None },
                };
                let e_ix = Instruction {
                    program_id: marginfi::ID,
                    accounts: marginfi::accounts::EditStakedSettings { marginfi_group: s.group, admin: s.admin, staked_settings: key }.to_account_metas(None),
                    data: marginfi::instruction::EditStakedSettings { settings: edit }.data(),
                };
                let r1 = s.w.exec(&e_ix);
                rep.bump(if r1.is_ok() { "staked_edit_ok" } else { "staked_edit_refused" });
                let p_ix = Instruction {
                    program_id: marginfi::ID,
                    accounts: marginfi::accounts::PropagateStakedSettings { marginfi_group: s.group, staked_settings: key, bank: h1.bank }.to_account_metas(None),
                    data: marginfi::instruction::PropagateStakedSettings {}.data(),
                };
                let before = s.w.accounts.clone();
                let r2 = s.w.exec(&p_ix);
                cells += 1;
                rep.bump("cases");
                match r2 {
                    Ok(()) => {
                        rep.bump("staked_propagate_ok");
                        if let Some(why) = incoherent(&s.w.bank(&h1.bank)) {
                            rep.fail(format!("propagate_staked_settings left the bank with an incoherent configuration: {}", why));
                        }
                    }
                    Err(_) => {
                        rep.bump("staked_propagate_refused");
                        if s.w.accounts != before {
                            rep.fail("a refused propagate_staked_settings changed the account store".to_string());
                        }
                    }
                }
            }
        }
        rep.sample("configure / emode / clone rounds".to_string());
    }
}


/// one `lending_pool_add_bank` on a clone of the world with a generated initial configuration (mostly valid, each clause of
/// the property violated in turn: weights out of range / out of order, isolated with weights, oracle age below the minimum,
/// a killed initial state, non-standard asset tags)
fn add_bank_probe(s: &Scen, rng: &mut Rng, rep: &mut Report) {
    use marginfi::utils::{find_bank_vault_authority_pda, find_bank_vault_pda};
    let mut w2 = s.w.clone();
    let mut cfg = crate::world::fixtures::bank_config_fixed(I80F48::from_num(1 + rng.below(100)));
    // a valid configuration (boundaries included), then at most one clause violated
    let inr = |rng: &mut Rng, lo: i128, hi: i128| -> i128 { match rng.below(4) { 0 => lo, 1 => hi, _ => lo + (rng.below((hi - lo).max(1) as u64) as i128) } };
    let mut ai = inr(rng, 0, ONE);
    let mut am = inr(rng, ai, 2 * ONE);
    let mut lm = inr(rng, ONE, 2 * ONE);
    let mut li = inr(rng, lm, lm + ONE);
    match rng.below(14) {
        0 => ai = -1,
        1 => ai = ONE + 1,
        2 => am = ai - 1,
        3 => am = 2 * ONE + 1,
        4 => lm = ONE - 1,
        5 => li = lm - 1,
        _ => {}
    }
    cfg.asset_weight_init = I80F48::from_bits(ai).into();
    cfg.asset_weight_maint = I80F48::from_bits(am).into();
    cfg.liability_weight_maint = I80F48::from_bits(lm).into();
    cfg.liability_weight_init = I80F48::from_bits(li).into();
    if rng.chance(1, 5) {
        cfg.risk_tier = RiskTier::Isolated;
        if rng.chance(2, 3) {
            cfg.asset_weight_init = I80F48::ZERO.into();
            cfg.asset_weight_maint = I80F48::ZERO.into();
        }
    }
    cfg.oracle_max_age = *rng.pick(&[60u16, 60, 60, 10, 600, 9, 0]);
    cfg.operational_state = *rng.pick(&[BankOperationalState::Operational, BankOperationalState::Operational, BankOperationalState::Operational, BankOperationalState::Paused, BankOperationalState::ReduceOnly, BankOperationalState::KilledByBankruptcy]);
    cfg.asset_tag = *rng.pick(&[0u8, 0, 0, 0, 1, 1, 2, 3]);
    let compact: marginfi_type_crate::types::BankConfigCompact = cfg.into();
    let mint = s.banks[rng.below(s.banks.len() as u64) as usize].mint;
    let token_program = w2.token_program_of(&mint);
    // a third of the probes go through lending_pool_add_bank_with_seed (the bank is a PDA of group, mint and a seed)
    let with_seed: Option<u64> = if rng.chance(1, 3) { Some(rng.next()) } else { None };
    let bank = match with_seed {
        Some(sd) => Pubkey::find_program_address(&[s.group.as_ref(), mint.as_ref(), &sd.to_le_bytes()], &marginfi::ID).0,
        None => w2.new_key(),
    };
    let (fs_key, _) = crate::world::fixtures::fee_state_pda();
    let fee_wallet = w2.fee_state(&fs_key).global_fee_wallet;
    let vt = |t| find_bank_vault_pda(&bank, t).0;
    let va = |t| find_bank_vault_authority_pda(&bank, t).0;
    use marginfi::state::bank::BankVaultType as T;
    // who signs as "admin": the group admin, or somebody else (another role of the group, a stranger) — only the admin may
    let gr0 = w2.group(&s.group);
    let (who, signer) = match rng.below(8) { 0 => ("risk admin", gr0.risk_admin), 1 => ("stranger", w2.add_wallet(1_000_000_000)), 2 => ("curve admin", gr0.delegate_curve_admin), _ => ("group admin", s.admin) };
    let is_admin = signer == gr0.admin;
    let ixn = match with_seed {
        None => Instruction {
            program_id: marginfi::ID,
            accounts: marginfi::accounts::LendingPoolAddBank {
                marginfi_group: s.group, admin: signer, fee_payer: s.admin, fee_state: fs_key, global_fee_wallet: fee_wallet, bank_mint: mint, bank,
                liquidity_vault_authority: va(T::Liquidity), liquidity_vault: vt(T::Liquidity),
                insurance_vault_authority: va(T::Insurance), insurance_vault: vt(T::Insurance),
                fee_vault_authority: va(T::Fee), fee_vault: vt(T::Fee),
                token_program, system_program: solana_program::system_program::ID,
            }.to_account_metas(None),
            data: marginfi::instruction::LendingPoolAddBank { bank_config: compact }.data(),
        },
        Some(sd) => Instruction {
            program_id: marginfi::ID,
            accounts: marginfi::accounts::LendingPoolAddBankWithSeed {
                marginfi_group: s.group, admin: signer, fee_payer: s.admin, fee_state: fs_key, global_fee_wallet: fee_wallet, bank_mint: mint, bank,
                liquidity_vault_authority: va(T::Liquidity), liquidity_vault: vt(T::Liquidity),
                insurance_vault_authority: va(T::Insurance), insurance_vault: vt(T::Insurance),
                fee_vault_authority: va(T::Fee), fee_vault: vt(T::Fee),
                token_program, system_program: solana_program::system_program::ID,
            }.to_account_metas(None),
            data: marginfi::instruction::LendingPoolAddBankWithSeed { bank_config: compact, bank_seed: sd }.data(),
        },
    };
    if with_seed.is_some() { rep.bump("add_bank_with_seed"); }
    let banks_before = w2.group(&s.group).banks;
    let r = w2.exec(&ixn);
    rep.bump("cases");
    match r {
        Err(e) => rep.bump(&format!("add_bank_rej_{}", e.code().map(|c| c.to_string()).unwrap_or_else(|| format!("{}", e)))),
        Ok(()) => {
            rep.bump("add_bank_ok");
            if !is_admin {
                rep.fail(format!("C08 lending_pool_add_bank signed by the {} (not the group admin) was ACCEPTED", who));
            }
            let b = w2.bank(&bank);
            let desc = format!("weights asset ({}, {}) liability ({}, {}), tier {:?}, oracle age {}, state {:?}, tag {}",
                w(b.config.asset_weight_init), w(b.config.asset_weight_maint), w(b.config.liability_weight_init), w(b.config.liability_weight_maint),
                b.config.risk_tier as u8, b.config.oracle_max_age, b.config.operational_state as u8, b.config.asset_tag);
            if let Some(why) = incoherent(&b) {
                rep.fail(format!("lending_pool_add_bank accepted an incoherent initial configuration: {}: {}", why, desc));
            }
            if b.config.operational_state == BankOperationalState::KilledByBankruptcy {
                rep.fail(format!("add-pool-accepts-killed-initial-state: the real lending_pool_add_bank created a bank in the KilledByBankruptcy state: {}", desc));
            }
            if !(b.config.asset_tag == 0 || b.config.asset_tag == 1) {
                rep.fail(format!("lending_pool_add_bank created a bank with asset tag {} (only default / SOL banks can be added through it): {}", b.config.asset_tag, desc));
            }
            if b.group != s.group || b.mint != mint || b.liquidity_vault != vt(T::Liquidity) || b.insurance_vault != vt(T::Insurance) || b.fee_vault != vt(T::Fee) {
                rep.fail(format!("lending_pool_add_bank bound the new bank to other accounts than the ones it was given / derived: {}", desc));
            }
            if bits_of(b.asset_share_value) != ONE || bits_of(b.liability_share_value) != ONE || bits_of(b.total_asset_shares) != 0 || bits_of(b.total_liability_shares) != 0 {
                rep.fail(format!("a freshly added bank does not start with share values 1 and empty totals: {}", desc));
            }
            if w2.group(&s.group).banks != banks_before + 1 {
                rep.fail(format!("lending_pool_add_bank did not count the new bank in the group: {}", desc));
            }
        }
    }
}

fn bits_of(v: marginfi_type_crate::types::WrappedI80F48) -> i128 {
    I80F48::from(v).to_bits()
}


/// EMODE_ON is the program's own summary of "this bank has e-mode entries" (set and cleared by update_emode_enabled); every
/// instruction that writes entries must leave it in step with them — code that consults the flag instead of the entries
/// (or the other way round) otherwise values the same bank differently
fn emode_flag_invariant(b: &Bank, ixn: &str, rep: &mut Report) {
    let has = b.emode.emode_config.entries.iter().any(|e| e.collateral_bank_emode_tag != 0);
    let on = b.emode.flags & marginfi_type_crate::types::EMODE_ON != 0;
    if has != on {
        rep.fail(format!("C04 {} left EMODE_ON {} on a bank that {} e-mode entries: the flag and the entries disagree, so collateral is valued with or without the e-mode weights depending on which of the two a check consults", ixn, if on { "set" } else { "clear" }, if has { "holds" } else { "holds no" }));
    }
}
