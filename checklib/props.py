"""Per-property configuration of ./check: theorem module is always Mfi.Props.<id>;
families = correspondence families (harness `gen <fam>`) with quick-tier op counts;
monitor = number of monitor cases in the quick tier (harness `monitor <id>`)."""

PROPS = {
    "C15": {
        "families": {"panic": 20000, "fx": 6000},
        "monitor": 20000,
        "assumptions": [
            "Solana clock is non-negative, non-decreasing and below 2^62 (saturating i64 arithmetic is then exact)",
            "a failing instruction leaves the fee state unchanged (runtime atomicity)",
            "the four pause instructions are the only writers of FeeState.panic_state (table check in C08/C12)",
        ],
    },
}

_NOTE = ("Trusted: Lean kernel; axioms propext/Classical.choice/Quot.sound only (audited per theorem on every run); the "
         "translator and the correspondence harness; the reading of the English property as the theorem statements in "
         "Mfi/Props. Theorems speak about the Lean model; the model is tied to /repo on every run by regenerated tables "
         "and by diffing model vs real code on generated operations. ")

MANIFEST_TEXT = {
    "C15": {
        "text": "Machine-checked Lean 4 theorems over ALL histories of pause / admin-unpause / permissionless-unpause / propagate with arbitrary non-decreasing timing (induction over op lists, no bound): each successful pause extends the paused-until time by <= 1800 s, paused-until <= now + 3600 in every reachable state, <= 2 consecutive and <= 3 daily pauses, counter resets >= 86400 s apart, an expired pause never gates (stale or fresh cache), unpause total while flagged. The model's step functions are diffed against the real PanicState/PanicStateCache code on ~20k generated steps per run, and the same bounds are monitored on the real code.",
        "design_ref": "DESIGN.md §4 C15",
        "note": _NOTE + "Modelled not verified: Clock sysvar monotonicity, transaction atomicity; instruction bodies of panic_pause/unpause are mirrored call-for-call in the harness (fam_panic.rs).",
        "technique": "Lean 4 proof: inductive invariant over operation histories + model/implementation correspondence check",
    },
}
