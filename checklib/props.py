"""Per-property configuration of ./check: theorem module is always Mfi.Props.<id>;
families = correspondence families (harness `gen <fam>`) with quick-tier op counts;
monitor = number of monitor cases in the quick tier (harness `monitor <id>`)."""

PROPS = {
    "C09": {
        "families": {"oracle": 18000, "health": 8000},
        "tagged_monitors": {"ORA": 20000},
        "assumptions": [
            "modelled adapters: Fixed, Pyth push, Switchboard pull; the staked / Kamino / Drift / Solend variants load the same adapters and re-scale price and confidence by an exchange rate (their arithmetic is C20's model and family); their account-binding checks (reserve / spot-market / stake-pool keys) are read, not modelled",
            "Pyth's own get_price_no_older_than_with_custom_verification_level and the PriceUpdateV2 / PullFeedAccountData byte layouts are the real SDK crates, executed in the harness; the model carries their decision (verification level, publish_time + max_age >= now)",
            "off mainnet the owner check also accepts the mock Pyth program id (cfg live!); the harness builds the program without the mainnet feature, both ids are treated as 'owner ok'",
            "which price type and bias each requirement uses (initial/equity: time-weighted; maintenance: real-time; assets low, liabilities high) is part of the valuation model diffed by the `health` family through the real pulse_health instruction",
        ],
    },
    "C10": {
        "families": {"tx": 12000},
        "br_monitor": 3000,
        "tagged_monitors": {"TXS": 20000},
        "assumptions": [
            "the Instructions sysvar lists exactly the top-level instructions of the transaction and the runtime executes them in order, atomically (Solana runtime; reproduced by the harness: real sysvar serialization, snapshot/rollback)",
            "programs on the allowed list (compute budget, Kamino, Drift, Jupiter, Titan, associated token) do not CPI into marginfi on the account in receivership; validate_instructions only sees top-level instructions (the source says so itself); start and end themselves are proved non-CPI (stack height + sysvar program id)",
            "everything a handler checks besides the transaction shape (health, signer, balances) is an arbitrary oracle in the transaction theorems; the numeric end-of-bracket conditions (health not worse, not positive, premium <= max(5%, configured)) are checked through real dispatch by the bracket monitor using the program's own pulse_health valuation before/after, and are part of the risk-engine model of C04/C05",
            "Anchor dispatches an instruction to the handler named by its 8-byte discriminator and enforces #[derive(Accounts)] constraints before the handler body",
        ],
    },
    "C11": {
        "families": {"tx": 12000},
        "br_monitor": 3000,
        "tagged_monitors": {"TXS": 20000},
        "assumptions": [
            "same runtime assumptions as C10 (Instructions sysvar, in-order atomic execution, Anchor dispatch)",
            "the initial-margin check run by end_flashloan is the risk engine of C04 (an oracle here); that it is RUN, last, after the flag is cleared, is a theorem over the regenerated handler skeleton",
        ],
    },
    "C19": {
        "families": {"fees": 2400, "wrapper": 12000},
        "monitor": 150,
        "assumptions": [
            "the three transfers of collect_bank_fees and the emission payouts are SPL / Token-2022 CPIs executed by the real token programs in the harness; the Lean model carries their amounts, the monitor checks vault and destination deltas (destination + withheld transfer fee = amount sent)",
            "who signs and which accounts are bound (has_one / seeds / Signer) is decided over the tables the translator regenerates from the #[derive(Accounts)] structs and handler bodies; that the seeds and the ATA derivation name the right keys is checked dynamically by substituting accounts through real dispatch",
            "the emissions history theorem models position changes as arbitrary non-negative share updates; closing a position abandons its sub-token outstanding rewards (the pool equation then holds with <=), which the history model does not include",
            "setup_emissions / update_emissions_parameters (funding) are modelled as `fund`; their role binding is C08/C12",
        ],
    },
    "C16": {
        "families": {"account": 12000, "wrapper": 12000},
        "ix_monitor": 8000,
        "assumptions": [
            "bank keys are compared as the byte-wise order of Pubkeys (the harness maps naturals monotonically onto keys)",
            "liability share values are >= 1 (they start at 1 and accrual is monotone: C06), used by the one-side theorem",
            "transfer_to_new_account (slot array moved wholesale, old account disabled, second transfer refused) is covered by reading and by the table theorems of C08 only; it needs an `init` account and is not dispatched natively",
        ],
    },
    "C12": {
        "families": {"admin": 20000},
        "monitor": 900,
        "assumptions": [
            "the model carries the configuration record and the flag word; that the admin instructions do not touch anything else (shares, share values, vault keys, e-mode, oracle keys, fee buckets) is checked byte-for-byte on the real Bank through real dispatch by the C12 monitor against per-role field masks",
            "role binding of each instruction is C08's table theorem admin_ix_role; the deleverage bracket (start/end) obeys C10's theorems with the risk admin as receiver",
        ],
    },
    "C13": {
        "families": {"admin": 20000, "curve": 6000},
        "monitor": 1500,
        "assumptions": [
            "the consequence 'initial health >= 0 implies maintenance health >= 0' is proved on the risk model in C04 (init_implies_maint) from the coherence invariant established here",
            "staked-settings propagation applies StakedSettings::validate (same weight clauses) — covered by the admin family only for the shared clauses",
        ],
    },
    "C08": {
        "families": {"signer": 3000},
        "br_monitor": 1500,
        "monitor": 900,
        "ix_monitor": 3000,
        "assumptions": [
            "the MEANING of Anchor constraints (Signer = signature present, has_one = stored key equality, seeds = PDA check, AccountLoader = owner + discriminator check) is Anchor's; it is exercised by real dispatch in the C08 monitor, not proved",
            "oracle account binding is covered by C09; integration (Kamino/Drift/Solend) and init instructions are covered by the table theorems only (they cannot be dispatched natively)",
        ],
    },
    "C14": {
        "families": {"bankstate": 64, "panic": 12000},
        "monitor": 600,
        "assumptions": [
            "Anchor evaluates every `constraint = …` of a #[derive(Accounts)] struct before the handler runs and aborts on the first failure (validated by real dispatch in the C14 monitor)",
            "the set of fund-moving / position-changing instructions is the list `fundMoving` written out in Mfi/Props/C14.lean; theorem every_struct_with_mut_account_is_classified shows that every other struct with a mutable marginfi account is a bracket/flag/emissions-accounting instruction",
            "reduce-only collateral counting zero for initial health is part of the risk-engine model (C04)",
        ],
    },
    "C06": {
        "ix_monitor": 8000,
        "families": {"bank": 12000, "curve": 12000},
        "assumptions": [
            "bank totals and share values non-negative (BankOk; invariants of C02/C07)",
            "the call order inside a handler is its source order (the skeleton translator orders calls by position in the function body; no closures reorder them)",
            "conservation of value across an accrual (debt increase = deposit increase + fees within the allowance) is checked by the instruction-level monitor C01/C06 with exact big integers and the derived allowance; its Lean proof is the subject of C01's accrual lemma",
        ],
    },
    "C02": {
        "ix_monitor": 6000,
        "families": {"wrapper": 20000, "bank": 6000},
        "monitor": 20000,
        "assumptions": [
            "every instruction that changes a position goes through BankAccountWrapper (deposit, repay, withdraw, borrow, liquidation legs, bankruptcy repay, withdraw_all, repay_all, close_balance); purge / transfer-to-new-account are covered at instruction level only (see DESIGN §4 C02)",
            "amounts submitted by instructions are unsigned (u64 arguments)",
        ],
    },
    "C03": {
        "families": {"wrapper": 20000, "tokenfee": 10000, "fx": 4000},
        "monitor": 20000,
        "assumptions": [
            "share values positive, position shares non-negative at the start of a history (preserved: theorems inc_nonneg/dec_nonneg)",
            "token legs move exactly the booked amount (SPL Token) or, inbound with a Token-2022 transfer fee, at least the booked amount (theorem prefee_covers; the fee formula itself is diffed against the real TransferFee::calculate_fee)",
            "prices and share values unchanged within a history, as the property states (no accrual between operations)",
        ],
    },
    "C17": {
        "ix_monitor": 6000,
        "families": {"wrapper": 20000, "bank": 12000, "fx": 4000},
        "monitor": 20000,
        "assumptions": [
            "theorems are about the share-accounting layer (BankAccountWrapper / BankImpl) that every deposit/borrow/withdraw handler goes through; the handlers' own call order is tied by the generated skeletons and instruction-level runs (see evidence 'families')",
            "asset share value positive and total shares non-negative for the capacity theorem (invariants of C02/C06)",
        ],
    },
    "C20": {
        "families": {"integr": 42000, "fx": 6000},
        "monitor": 20000,
        "assumptions": [
            "supplies/cumulative interest are the unsigned values the venue accounts hold (non-negative); total liquidity and collateral supply positive for the round-trip theorems",
            "Kamino/Solend/Drift program behaviour itself is out of scope (mocks' math is what marginfi uses)",
        ],
    },
    "C18": {
        "families": {"curve": 20000, "fx": 6000},
        "monitor": 20000,
        "assumptions": [
            "the u32 fields of InterestRateConfig hold values in [0, 2^32-1] (hypothesis WF of the theorems; a fact of the Rust types)",
            "utilisation passed to the public calculator is non-negative and below 2^60 (beyond that base*ur overflows whatever the curve; the private curve function is covered for ALL bit patterns by the theorems)",
        ],
    },
    "C15": {
        "families": {"panic": 20000, "fx": 6000},
        "monitor": 20000,
        "assumptions": [
            "Solana clock is non-negative, non-decreasing and below 2^62 (saturating i64 arithmetic is then exact)",
            "a failing instruction leaves the fee state unchanged (runtime atomicity)",
            "the four pause instructions are the only writers of FeeState.panic_state (table check in C08/C12)",
        ],
    },
}

_NOTE = ("Trusted: Lean kernel; axioms propext/Classical.choice/Quot.sound only (audited per theorem on every run); the "
         "translator and the correspondence harness; the reading of the English property as the theorem statements in "
         "Mfi/Props. Theorems speak about the Lean model; the model is tied to /repo on every run by regenerated tables "
         "and by diffing model vs real code on generated operations. ")

MANIFEST_TEXT = {
    "C09": {
        "text": "Machine-checked Lean 4 theorems on the oracle/valuation model: pyth_loaded_iff / swb_loaded_iff / fixed_loaded_iff (a feed loads exactly when the account is the configured one, owned by the expected program, a PriceUpdateV2 / pull feed, fully verified and not older than the bank's maximum age; otherwise a specific error; default age 60 s), pyth_fresh_iff (staleness boundary exact); confGate_spec + biased_price_spec + low_le_price_le_high (a biased price is the reported price of the same type minus/plus a confidence interval that is >= 0 and at most 5% of the price, the price is >= 0, low <= price <= high, low >= 0; intervals above max-confidence x price fail); failed_oracle_debt_fails, failed_oracle_collateral_worth_nothing, failed_oracle_collateral_blocks_assessment and bad_debt_oracle_blocks_everything (if the oracle of any position carrying a debt fails to load, the initial check, the liquidation pre-condition and the bankruptcy assessment ALL fail, for every portfolio: induction over the position list); by decide over regenerated skeletons: classic liquidation checks asset and liability price > 0 before any balance moves and the four withdraw handlers check price > 0 before their operation. `oracle` family: the REAL try_from_bank + get_price_of_type on account bytes built like on-chain Pyth/Switchboard accounts (prices, exponents, confidences, std-devs across their integer ranges, publish times at the staleness boundary, wrong key/owner/discriminator/verification) 18k/run; `health` family: the real risk engine through pulse_health; ORA monitor: exact big-integer predicates on everything the real adapters accept. One genuine defect found and repaired (fix: 70e4be75, Switchboard from_num wrap).",
        "design_ref": "DESIGN.md §4 C09",
        "note": _NOTE + "One genuine defect found by this check was repaired (fix: 70e4be75).",
        "technique": "Lean 4 proof: iff-characterisations of the loaders + arithmetic spec of the confidence gate/bias + list induction for failure propagation + decide over source-generated skeletons; correspondence check on real adapters and on the real risk engine via pulse_health; exact-arithmetic acceptance monitor",
    },
    "C10": {
        "text": "Machine-checked Lean 4 theorems on the transaction-shape model: valid_spec / bracket_shape (an accepted validate_instructions means: the running start is the unique start instruction of the transaction, everything before it is compute-budget or whitelisted, the LAST instruction is this program's matching end, only allowed programs appear and of this program only start/end/record-init/withdraw/repay (+integration withdraws), at top level, start not last); over EVERY transaction and EVERY behaviour of the non-structural checks: receivership_never_survives (no account is in receivership after a successful transaction), bracket_closed_by_matching_end (the last instruction is the matching end FOR THE SAME ACCOUNT and it executed), one_receivership_at_a_time; by decide over tables regenerated from the source: only start_receivership sets and only end_receivership clears the flag (scan of every function), account transfer refuses accounts in receivership / flash loan before copying the flag word, end_receivership has no early success return and clears flag and receiver after the health comparison, start evaluates the maintenance-health precondition before setting the flag, constraints (flag clear at start / set at end, receiver and risk-admin signatures). `tx` family: the REAL validate_instructions on generated transaction shapes with the real sysvar serialization (12k/run). Bracket monitor: real multi-instruction transactions through real dispatch (brackets + mutations, empty brackets, wrong ends, forbidden instructions, foreign programs): flags never survive, committed brackets have the demanded shape, start only when unhealthy, maintenance health no worse and not positive, premium <= 5%, rejected transactions leave the store unchanged.",
        "design_ref": "DESIGN.md §4 C10",
        "note": _NOTE,
        "technique": "Lean 4 proof: list-induction spec of the introspection loops + invariant induction over whole transactions with arbitrary oracles + decide over source-generated flag-writer/skeleton/constraint tables; correspondence check on real validate_instructions; real-transaction bracket monitor",
    },
    "C11": {
        "text": "Machine-checked Lean 4 theorems: start_requires_matching_end (check_flashloan_can_start accepts only at top level, only when the named index lies LATER in the transaction, holds this program's end_flashloan for the SAME account, and the account is not disabled / frozen / in receivership / already in a flash loan), start_not_via_cpi; over EVERY transaction and EVERY behaviour of the other checks: flashloan_never_survives (no account is flagged in-flash-loan after a successful transaction: invariant 'a set flag has its end still ahead'), end_enforces_health (every executed end_flashloan ran the initial-margin check, on an account that is not disabled/frozen/in receivership, and cleared the flag); by decide over regenerated tables: only start/end_flashloan write the flag, end clears the flag and then runs the health check as its last step, both need the authority's signature, the health check is skipped only inside check_account_init_health on the flag, liquidation / receivership / bankruptcy assessments refuse an account in a flash loan. `tx` family: the REAL check_flashloan_can_start on generated shapes (incl. short data panic, missing accounts, CPI). Bracket monitor: real flash-loan transactions through real dispatch with right/wrong end indices, nesting, missing ends, over-borrows repaid or not.",
        "design_ref": "DESIGN.md §4 C11",
        "note": _NOTE,
        "technique": "Lean 4 proof: spec theorem of the start check + invariant induction over whole transactions with arbitrary oracles + decide over source-generated tables; correspondence check on real check_flashloan_can_start; real-transaction bracket monitor",
    },
    "C19": {
        "text": "Machine-checked Lean 4 theorems: collect_exact (each of the three transfers is the whole-token part of min(bucket, liquidity still available), buckets fall by exactly what moved, total <= vault; with enough liquidity each bucket keeps exactly its fractional part); calc_emissions closed form R*floor(T*floor48(amount/10^d)/YEAR) hence zero at zero time/size/rate, monotone in each, never above the exact proportional amount; a claim moves a non-negative credit <= emissions_remaining from the pool to the position and nothing else; settle pays exactly the whole-token part; over EVERY history of claims, withdrawals, re-funding, user activity and new positions on any number of positions: remaining >= 0 and remaining + sum(outstanding) + paid = funded, so payouts never exceed funding (induction); by decide over tables regenerated from the source: only handle_bankruptcy/withdraw_insurance sign as the insurance-vault authority and only the two fee withdrawals as the fee-vault authority (scan of every function under instructions/), collect signs as the liquidity authority only and checks the fee ATA first, draw-downs need the group admin's signature, the permissionless sweep is bound to bank.fees_destination_account which only the admin sets, emission payouts need an authorised signer or pass the destination check first. `fees` family: the REAL collect instruction through real dispatch (SPL/Token-2022/transfer-fee mints) vs the model on generated buckets/liquidity; `wrapper` family: real claim/settle vs model; the C19 monitor substitutes every destination/vault/signer through real dispatch (all must be refused, store unchanged) and checks the pool equation and vault balance after every emissions step.",
        "design_ref": "DESIGN.md §4 C19",
        "note": _NOTE,
        "technique": "Lean 4 proof: arithmetic spec theorems + invariant induction over emission histories + decide over source-generated signer/constraint tables; correspondence check incl. real-dispatch fee collection; real-dispatch substitution monitor",
    },
    "C16": {
        "text": "Machine-checked Lean 4 theorems on the position-array model: find_or_create returns the bank's existing slot or opens exactly one fresh empty slot with the bank's tag and preserves 'distinct active slots have distinct banks' (array length fixed at 16); a 9th integration position is refused; sort_balances yields keys non-increasing along the array, is a permutation and is idempotent; an accepted validate_asset_tags never lets staked and default-class positions mix; a successful balance increase never leaves >= 1 share on both sides (debt residue after a flip <= 2 ulps); can_be_closed characterisation; by decide over regenerated skeletons: the five user handlers test ACCOUNT_DISABLED before any share move and every position-changing handler sorts after its last wrapper operation. Model diffed against the real find_or_create / sort_balances / validate_asset_tags / can_be_closed (12k arrays/run incl. panics); the instruction-level monitor re-checks uniqueness, one-sidedness and ordering on the real account bytes after every real instruction.",
        "design_ref": "DESIGN.md §4 C16",
        "note": _NOTE,
        "technique": "Lean 4 proof: list invariants (Pairwise/Perm of a stable merge sort, index-wise uniqueness) + wrapper step theorem + decide over source-generated skeletons; correspondence check; real-dispatch structural monitor",
    },
    "C12": {
        "text": "Machine-checked Lean 4 theorems on the configuration model: on a frozen bank configure_bank changes only the two limits and keeps every flag (nobody can lift the freeze through it), interest-only does nothing, limits-only changes only the two limits; unfrozen: interest-only changes only interest_rate_config, limits-only only the three limits; Bank::configure changes only bits 2,3,5 of the 64-bit flag word and the emissions flag update replaces exactly bits 0,1 for EVERY 64-bit word (bit-level theorems over all flag words, not samples) and refuses any other bit; over EVERY history of deleverage withdrawals the exact whole-dollar sum since the last window reset never exceeds a non-zero daily limit (induction over arbitrary histories). Model diffed against the real Bank::configure / override_emissions_flag / update_withdrawn_equity (20k cases/run); the C12 monitor checks byte-level frames of the real instructions per role through real dispatch.",
        "design_ref": "DESIGN.md §4 C12",
        "note": _NOTE + "Two genuine defects found by this check were repaired (fix: 227a8aa7, 5468ffdc).",
        "technique": "Lean 4 proof: frame theorems + bit-level (testBit) theorems over all 64-bit flag words + history induction; correspondence check; real-dispatch byte frames",
    },
    "C13": {
        "text": "Machine-checked Lean 4 theorems: everything BankConfig::validate accepts is coherent (0<=aInit<=1, aInit<=aMaint<=2, 1<=lMaint<=lInit, isolated => zero asset weights, oracle age >= minimum, curve valid); everything Bank::configure accepts is coherent and can neither enter nor leave the killed state (iff theorem); the frozen path cannot touch the state; every non-empty e-mode entry accepted against a bank's liability weights has 0<=init<=maint, init<lInit, maint<lMaint and implied leverage within the group caps. Model diffed against the real validate/configure/validate_entries_with_liability_weights on 20k generated valid+invalid configurations per run; the C13 monitor re-checks the coherence predicate on the raw bank bytes after every successful configure / e-mode configure / e-mode clone through real dispatch. init=>maint health consequence: see C04.",
        "design_ref": "DESIGN.md §4 C13",
        "note": _NOTE + "Two genuine defects repaired (fix: c4018eda, 94a358f9); one recorded finding C13-F2 (add-pool accepts a killed initial state).",
        "technique": "Lean 4 proof: validation-completeness theorems on the configuration model; correspondence check; real-dispatch invariant monitor",
    },
    "C08": {
        "text": "Machine-checked Lean 4 theorems by decide over the account-constraint table REGENERATED from all 78 #[derive(Accounts)] structs on every run: the 15 account-operating user instructions carry both signer-rule constraints against a Signer (receivership admits third parties only for withdraw/repay/integration withdraws); 4 more are bound by has_one = authority; every other struct with a mutable margin account is a named special case; 31 administrative instructions carry has_one = <the specific role> with the role a Signer; every existing bank / margin account is has_one-bound to the instruction's group (named permissionless cranks excepted); every vault is seeds- or has_one-bound to the bank, vault authorities and the fee state are PDAs. The signer rule itself is characterised by an iff theorem. The C08 monitor replays (instruction x 7 signer identities x frozen x receivership), single-account substitutions (foreign group/bank/account/vault/authority) and admin instructions x roles through REAL DISPATCH against an independent specification; rejected instructions must leave the store byte-identical. The receivership clause ('strictly inside an active receivership') is exercised by real [start .. end] transactions (incl. empty brackets) after each of which a stranger's withdraw/repay must be refused; that the flag cannot survive a transaction is C10's theorem receivership_never_survives.",
        "design_ref": "DESIGN.md §4 C08",
        "note": _NOTE,
        "technique": "Lean 4 proof: decide over the source-generated constraint table + signer-rule characterisation; real-dispatch authorization matrix",
    },
    "C14": {
        "text": "Machine-checked Lean 4 theorems: (a) on the model of validate_bank_state, diffed exhaustively (all 16 cells) against the real function: killed banks refuse every kind, deposit/borrow kind refuses paused and reduce-only, withdraw/repay/liquidate/bankruptcy kind refuses paused only; (b) by decide over tables REGENERATED from the Rust source on every run: each handler calls validate_bank_state with the required kind before any share-moving call (13 handlers incl. integrations), every one of the 23 fund-moving/position-changing instruction structs carries the !is_protocol_paused constraint on its group, and every other struct with a mutable marginfi account is classified as a non-moving bracket/flag instruction; (c) the cached pause gate is closed while a propagated pause is in force and open from start+1800 on without any update. The C14 monitor replays the (instruction x bank state) and (instruction x pause timing incl. the exact expiry second, propagated or not) matrices through real dispatch.",
        "design_ref": "DESIGN.md §4 C14",
        "note": _NOTE + "One genuine defect found and repaired (fix: 7b45cc41).",
        "technique": "Lean 4 proof: decide over source-generated constraint/skeleton tables + model theorems; exhaustive correspondence; real-dispatch matrix replay",
    },
    "C06": {
        "text": "Machine-checked Lean 4 theorems: for every bank state and every accepted rate configuration a successful accrue_interest never decreases either share value, leaves share totals untouched, never decreases a fee bucket, adds zero program fees when disabled for the group, sets last_update = now, is a no-op at dt = 0 (and hence when repeated at the same time), and only moves last_update when either side is empty. 'Applied first' is a theorem (by decide) over handler skeletons REGENERATED from the Rust source on every run: accrue_interest precedes every share-moving call in deposit/withdraw/borrow/repay/close_balance/handle_bankruptcy and both banks' accruals precede every position change in liquidate. The accrual model is diffed against the real Bank::accrue_interest (~12k cases/run); after every successful real instruction (real dispatch) last_update = clock, monotonicity and fee non-negativity are monitored.",
        "design_ref": "DESIGN.md §4 C06",
        "note": _NOTE + "Value conservation across an accrual is currently established by the exact-arithmetic monitor with a derived allowance (DESIGN §4 C01), not yet by a Lean theorem; stated as partial.",
        "technique": "Lean 4 proof: function theorems on the accrual model + decide over source-generated handler skeletons; model/implementation correspondence check",
    },
    "C02": {
        "text": "Machine-checked Lean 4 invariant over ALL histories (induction over arbitrary op lists, any number of positions): bank.total_asset_shares = sum of position asset shares + dustA, likewise liabilities, dust >= 0, all shares >= 0; every increase/decrease changes a bank total by exactly the change of the one position it touches (delta-equality theorems); dust grows only in withdraw_all / repay_all / close_balance by the abandoned other-side shares whose value the code checked to be below ZERO_AMOUNT_THRESHOLD; corollary: the close_bank tolerance test forces every position in the bank below the threshold. Model diffed against the real wrapper on ~26k steps/run; the same sum identity is monitored on a real Bank with several real Balances over random histories.",
        "design_ref": "DESIGN.md §4 C02",
        "note": _NOTE,
        "technique": "Lean 4 proof: inductive ledger invariant over operation histories with ghost dust counters; model/implementation correspondence check",
    },
    "C03": {
        "text": "Machine-checked Lean 4 theorems in exact integer arithmetic (2^-96 token units): any successful balance increase by delta raises the position's net value by at most delta (deposit/repay/liquidation credit never credit more than paid); any successful decrease by delta lowers it by more than delta - (asv+lsv)*2^-48; withdraw_all pays floor() <= exact deposit value, repay_all charges ceil() > exact debt - 1 ulp; shares stay non-negative; hence for EVERY sequence of deposits/withdrawals/borrows/repayments (induction over arbitrary op lists, any amounts/timestamps, failed ops skipped) wallet + net position value grows by less than n*(asv+lsv)*2^-48 tokens; Token-2022: pre_fee(post) - fee(pre_fee) >= post for every bps in [0,10000], cap and amount. Model diffed against the real BankAccountWrapper and fee functions (~30k ops/run); same inequalities monitored with big integers on the real structs.",
        "design_ref": "DESIGN.md §4 C03",
        "note": _NOTE,
        "technique": "Lean 4 proof: per-operation value bounds + potential-function induction over operation histories; model/implementation correspondence check",
    },
    "C17": {
        "text": "Machine-checked Lean 4 theorems over all bank states, positions, amounts and limits: a successful non-bypass balance increase that mints deposit shares leaves floor(total deposits) strictly below an active deposit limit; likewise debt below the borrow limit; every successful non-bypass decrease (withdraw, borrow, withdraw-all) leaves total deposits >= total debt; the two liquidation bypass modes are the only paths that skip the caps (kernel-checked witness); depositing any amount up to get_remaining_deposit_capacity computed on the same bank state can never fail with BankAssetCapacityExceeded (one-unit safety margin proved sufficient). Model diffed against the real BankAccountWrapper/BankImpl code on ~32k generated operation steps per run (all error codes and panics compared), same predicates monitored on the real structs.",
        "design_ref": "DESIGN.md §4 C17",
        "note": _NOTE,
        "technique": "Lean 4 proof: step theorems extracted from the monadic wrapper model (spec-extraction lemmas) + floor arithmetic; model/implementation correspondence check",
    },
    "C20": {
        "text": "Machine-checked Lean 4 theorems for all supplies, amounts, prices, decimals: Kamino/Solend liquidity->collateral->liquidity and collateral->liquidity->collateral round trips never gain; Drift withdraw(increment(a)) <= a and decrement(a) >= increment(a); adjust_u64/i64/i128 return exactly floor(price*ratio), are monotone in price and ratio, and return None exactly when the product leaves I80F48 or the floor leaves the target integer type (iff theorem) — never a wrapped value; Drift price adjustment is exactly floor(p*cum/10^10); staleness predicates. The statement 'adjusted price <= price x EXACT rate' is proved FALSE for Kamino/Solend by a kernel-checked witness and kept as a partial theorem relative to the ratio actually used (known finding C20-F1, replayed on the real functions every run). Model diffed against the real functions on ~42k generated inputs per run incl. overflow cliffs.",
        "design_ref": "DESIGN.md §4 C20",
        "note": _NOTE + "Known finding C20-F1 is reported, not suppressed silently; any excess beyond the denominator-truncation bound is reported as a new violation.",
        "technique": "Lean 4 proof: integer floor/truncation algebra (Int.ediv lemmas) + model/implementation correspondence check",
    },
    "C18": {
        "text": "Machine-checked Lean 4 theorems for EVERY configuration accepted by validate_seven_point (any number of points, any u32 values; proof by induction over the point list) and EVERY utilisation bit pattern: the base rate is defined, lies in [rate(zero), rate(hundred)], equals each configured point's rate at its utilisation, equals the zero/hundred rates at <=0 / >=100 %, is monotone in utilisation, is clamped outside [0,1]; borrow rate >= base with non-negative fees, lending rate <= base on [0,1]; the legacy curve is defined and within [0,max] for every utilisation. lerp's unchecked -,/,+ are proved in range on every call site. Model diffed against the real validate / calc_interest_rate / accrual functions on ~20k generated configs per run (ok, None and panic outcomes compared) and the same predicates are monitored on the real calculator.",
        "design_ref": "DESIGN.md §4 C18",
        "note": _NOTE + "Two genuine defects found by this check were repaired in /repo (fix: commits f4ec21f5, 9e609245; see known_findings.json); the theorems are stated at full strength about the repaired code.",
        "technique": "Lean 4 proof: structural induction over the curve's point list + fixed-point bound lemmas; model/implementation correspondence check",
    },
    "C15": {
        "text": "Machine-checked Lean 4 theorems over ALL histories of pause / admin-unpause / permissionless-unpause / propagate with arbitrary non-decreasing timing (induction over op lists, no bound): each successful pause extends the paused-until time by <= 1800 s, paused-until <= now + 3600 in every reachable state, <= 2 consecutive and <= 3 daily pauses, counter resets >= 86400 s apart, an expired pause never gates (stale or fresh cache), unpause total while flagged. The model's step functions are diffed against the real PanicState/PanicStateCache code on ~20k generated steps per run, and the same bounds are monitored on the real code.",
        "design_ref": "DESIGN.md §4 C15",
        "note": _NOTE + "Modelled not verified: Clock sysvar monotonicity, transaction atomicity; instruction bodies of panic_pause/unpause are mirrored call-for-call in the harness (fam_panic.rs).",
        "technique": "Lean 4 proof: inductive invariant over operation histories + model/implementation correspondence check",
    },
}
