"""Turning a model/implementation disagreement into a property-level failing input.

The Lean model is the independent statement of what the property demands (the theorems in Props/ are about
it); when the implementation deviates from it on a concrete input, these functions decide whether that
input is one on which the PROPERTY fails (as opposed to a harmless difference) and say so in words."""


def _nums(s):
    parts = s.split()
    if not parts or parts[0] != "ok":
        return None
    try:
        return [int(x) for x in parts[1:]]
    except ValueError:
        return None


def c04_health(op, impl, model):
    """risk.pulse: [a_init l_init a_maint l_maint a_eq l_eq mrgn liq bkr ierr eidx flags]"""
    if not op.startswith("risk.pulse"):
        return None
    i, m = _nums(impl), _nums(model)
    if not i or not m or len(i) < 12 or len(m) < 12:
        return None
    if i[6] == 0 and (m[6] == 6009 or m[0] < m[1]):
        return (f"C04 the initial-margin gate PASSES a portfolio whose independently computed initial health is negative "
                f"(gate: assets {i[0]} >= liabilities {i[1]}; recomputed: assets {m[0]} < liabilities {m[1]}): {op}")
    if i[6] == 6009 and m[6] == 0 and m[0] - m[1] > (1 << 20):
        return (f"C04 the initial-margin gate REJECTS a portfolio whose independently computed initial health is positive "
                f"(recomputed: assets {m[0]} >= liabilities {m[1]}): {op}")
    if m[6] in (0, 6009) and i[6] in (0, 6009) and i[0] < m[0] and i[9] != 0 and m[9] == 0:
        return (f"C04 the engine discards a collateral price that the bank's own freshness / authenticity rule accepts (internal error {i[9]}) and "
                f"values the account's assets at {i[0]} instead of {m[0]} bits: every borrow or withdrawal that leaves liabilities between the two "
                f"is rejected for insufficient health although the independently computed initial health is positive: {op}")
    if i[6] == 0 and m[6] not in (0, 6009, 6029):
        return (f"C04 the initial-margin gate PASSES a portfolio whose initial health cannot be established from the presented oracle "
                f"data (independent evaluation fails with error {m[6]}: a debt price is stale / unauthentic / too uncertain): {op}")
    if i[6] == 0 and m[6] == 6029:
        return f"C04 the gate passes a portfolio in which an isolated-tier debt is not the only debt: {op}"
    return None


def c13_health(op, impl, model):
    """risk.pulse: the liquidation buffer. Collateral counted toward the INITIAL requirement with more weight than the exact
    evaluation gives (e-mode entries reconciled entry-wise to the minimum over the debt banks, bank weights, init-limit discount)
    while the maintenance side is not raised with it: borrowing to that limit leaves the account liquidatable at once."""
    if not op.startswith("risk.pulse"):
        return None
    i, m = _nums(impl), _nums(model)
    if not i or not m or len(i) < 12 or len(m) < 12:
        return None
    if i[6] in (0, 6009) and m[6] in (0, 6009) and i[9] == m[9] and i[0] > m[0] and i[2] <= m[2] and i[1] == m[1]:
        return (f"C13 collateral counts {i[0]} bits toward the initial requirement where the exact evaluation (e-mode entries reconciled to the "
                f"entry-wise minimum over the banks borrowed from, initial weight never above maintenance weight) gives {m[0]}, with the "
                f"maintenance value not raised ({i[2]} vs {m[2]}): an account that borrows up to this initial limit "
                f"{'fails' if m[0] < m[1] <= i[0] else 'can fail'} the maintenance check at equal prices — no liquidation buffer: {op}")
    return None


def c05_health(op, impl, model):
    if not op.startswith("risk.pulse"):
        return None
    i, m = _nums(impl), _nums(model)
    if not i or not m or len(i) < 12 or len(m) < 12:
        return None
    # liq verdict: 0 = liquidatable, 6068 = healthy
    if i[7] == 0 and m[7] == 6068:
        return (f"C05 the liquidation pre-condition holds for an account whose independently computed maintenance health is positive "
                f"(recomputed assets {m[2]} > liabilities {m[3]}): {op}")
    return None


def c07_health(op, impl, model):
    if not op.startswith("risk.pulse"):
        return None
    i, m = _nums(impl), _nums(model)
    if not i or not m or len(i) < 12 or len(m) < 12:
        return None
    if i[8] == 0 and m[8] == 6013:
        return (f"C07 the bankruptcy assessment passes for an account that is not bankrupt by independent recomputation "
                f"(equity assets {m[4]}, liabilities {m[5]}): {op}")
    return None


def c07_soc(op, impl, model):
    """b.soc <bank> <loss>  =>  ok <new asset share value> <kill>"""
    if not op.startswith("b.soc"):
        return None
    i = _nums(impl)
    if i and len(i) >= 2 and i[-2] == 0 and i[-1] == 0:
        return (f"C07 socialize_loss leaves the depositors' share value at zero without shutting the bank "
                f"(a bank whose deposits are fully consumed must be permanently shut): {op}")
    if i and len(i) >= 2 and i[-2] < 0:
        return f"C07 socialize_loss leaves a negative share value: {op}"
    return None


def c09_health(op, impl, model):
    """an assessment that the model says must FAIL on an unusable oracle (stale / unauthentic / wrong account /
    confidence too wide) completes in the implementation"""
    if not op.startswith("risk.pulse"):
        return None
    i, m = _nums(impl), _nums(model)
    if not i or not m or len(i) < 12 or len(m) < 12:
        return None
    verdicts = {0, 6009, 6013, 6068, 6029}
    names = {6: "initial-margin check", 7: "liquidation pre-condition", 8: "bankruptcy assessment"}
    for k in (8, 7, 6):
        if i[k] in verdicts and m[k] not in verdicts:
            return (f"C09 the {names[k]} completes (verdict {i[k]}) although a price it needs is unusable "
                    f"(independent evaluation fails with error {m[k]}): {op}")
    return None


def emode_dupes(pid):
    def f(op, impl, model):
        """adm.emode lInit lMaint maxInitLev maxMaintLev <10 entries x (tag flags init maint)> => ok | err"""
        if not op.startswith("adm.emode") or not impl.startswith("ok"):
            return None
        try:
            a = [int(x) for x in op.split()[1:]]
        except ValueError:
            return None
        ent = a[4:]
        tags = [ent[k] for k in range(0, len(ent) - 3, 4) if ent[k] != 0]
        if len(tags) != len(set(tags)):
            return (f"{pid} an e-mode configuration with a duplicated collateral tag {sorted(t for t in set(tags) if tags.count(t) > 1)} is ACCEPTED "
                    f"(the intersection of borrowed banks' configurations counts a tag once per entry, so a doubled tag survives "
                    f"without being common to all of them and collateral is valued with an e-mode weight it is not entitled to): {op}")
        return None
    return f


def emode_leverage(pid):
    def f(op, impl, model):
        """adm.emode lInit lMaint maxInitLev maxMaintLev <10 entries x (tag flags init maint)>: accepted by the implementation, refused by
        the exact rule; the rule is re-evaluated here with exact rationals to name the entry"""
        if not op.startswith("adm.emode") or not impl.startswith("ok") or not model.startswith("err"):
            return None
        try:
            a = [int(x) for x in op.split()[1:]]
        except ValueError:
            return None
        li, lm, ci, cm = a[0], a[1], a[2], a[3]
        ent = a[4:]
        U32 = 4294967295
        for k in range(0, len(ent) - 3, 4):
            tag, _, wi, wm = ent[k:k + 4]
            if tag == 0:
                continue
            for (w, l, cap, what) in ((wi, li, ci, "initial"), (wm, lm, cm, "maintenance")):
                if w >= l:
                    return (f"{pid} an e-mode entry (tag {tag}) whose {what} weight {w} is not below the bank's liability weight {l} is ACCEPTED: the implied "
                            f"leverage is unbounded: {op}")
                # leverage l/(l-w) above cap*100/U32 (with a 1e-6 relative allowance for the fixed-point evaluation)
                if cap > 0 and l * U32 * 1000000 > cap * 100 * (l - w) * 1000001:
                    return (f"{pid} an e-mode entry (tag {tag}) is ACCEPTED whose {what} weight {w} against the bank's liability weight {l} implies a leverage of "
                            f"{l / (l - w):.4f}x, above the group's cap of {cap * 100 / U32:.4f}x: {op}")
        return (f"{pid} an e-mode configuration the exact validation refuses ({model}) is ACCEPTED: {op}")
    return f


def accepted_invalid_curve(pid):
    def f(op, impl, model):
        """adm.ixir / adm.ixcfg: the REAL instruction stored a configuration that the (modelled, diffed) validation rejects"""
        if not (op.startswith("adm.ixir") or op.startswith("adm.ixcfg")):
            return None
        if impl.startswith("ok") and model.startswith("err"):
            what = "lending_pool_configure_bank_interest_only" if op.startswith("adm.ixir") else "lending_pool_configure_bank"
            return (f"{pid} {what} ACCEPTED and stored a configuration that validation rejects ({model}): an accepted interest / bank "
                    f"configuration is no longer guaranteed to be usable (curve defined, bounded, monotone; weights coherent): {op}")
        return None
    return f


def c16_foc(op, impl, model):
    """acct.foc <16 slots x 5> bank tag now  =>  ok <16 slots x 5: active bank tag a l> <slot bank> <slot tag>"""
    if not op.startswith("acct.foc"):
        return None
    i = _nums(impl)
    if not i or len(i) < 82:
        return None
    slots = [i[k * 5:k * 5 + 5] for k in range(16)]
    active = [x for x in slots if x[0] == 1]
    integ = [x for x in active if x[2] in (3, 4, 5)]  # ASSET_TAG_KAMINO / DRIFT / SOLEND
    if len(integ) > 8:
        return f"C16 an account holds {len(integ)} integration positions (Kamino/Drift/Solend) after a successful find_or_create (limit 8): {op}"
    banks = [x[1] for x in active]
    if len(set(banks)) != len(banks):
        return f"C16 two active positions for one bank after a successful find_or_create: {op}"
    tags = {x[2] for x in active}
    if 2 in tags and (tags & {0, 3, 4, 5}):
        pass  # mixing is judged by validate_asset_tags (acct.tags), not by find_or_create
    return None


def ixf_tokens(pid):
    """ix.dep / ix.rep / ix.wd / ix.bor  =>  ok <bank> <lastUpdate> <has pos> <position x7> <tokens moved>:
    the SAME booking (bank and position bit for bit) for a different number of tokens moved"""
    def f(op, impl, model):
        kind = op.split(" ", 1)[0]
        if kind not in ("ix.dep", "ix.rep", "ix.wd", "ix.bor"):
            return None
        i, m = _nums(impl), _nums(model)
        if not i or not m or len(i) != len(m) or i[:-1] != m[:-1]:
            return None
        ti, tm = i[-1], m[-1]
        if kind in ("ix.dep", "ix.rep") and ti < tm:
            return (f"{pid} a {'deposit' if kind == 'ix.dep' else 'repayment'} booked exactly the credit the exact accounting books for {tm} tokens sent "
                    f"(what the vault must receive after the mint's transfer fee), but only {ti} tokens were collected: the user is credited more than was paid in "
                    f"and the vault falls short of the claims: {op}")
        if kind in ("ix.wd", "ix.bor") and ti > tm:
            return (f"{pid} a {'withdrawal' if kind == 'ix.wd' else 'borrow'} debited exactly what the exact accounting debits for {tm} tokens, "
                    f"but {ti} tokens were paid out: {op}")
        return None
    return f


def c05_liq(op, impl, model):
    """liq.amounts <seized> <asset price> <debt price> <asset decimals> <debt decimals> => ok <liquidator side> <liquidatee relief> <whole fee> <fee fraction>"""
    if not op.startswith("liq.amounts"):
        return None
    i, m = _nums(impl), _nums(model)
    if not i or not m or len(i) != 4 or len(m) != 4 or i == m:
        return None
    a = op.split()
    return (f"C05 seizing {a[1]} units of a {a[4]}-decimals collateral (price bits {a[2]}) against a {a[5]}-decimals debt (price bits {a[3]}): the liquidator's side is "
            f"{i[0]} and the liquidatee's relief {i[1]} (insurance {i[2]} whole + {i[3]} fraction), but 97.5 % / 95 % of the seized value converted at the debt price "
            f"is {m[0]} / {m[1]} (insurance {m[2]} + {m[3]}) [I80F48 bits]")


def value_scaling(pid):
    """liq.value / liq.amount: calc_value / calc_amount for one bank's decimals"""
    def f(op, impl, model):
        if not (op.startswith("liq.value") or op.startswith("liq.amount ")):
            return None
        i, m = _nums(impl), _nums(model)
        if not i or not m or i == m:
            return None
        return (f"{pid} the valuation primitive {'calc_value' if op.startswith('liq.value') else 'calc_amount'} returns {i[0]} where the exact "
                f"amount x price / 10^decimals (rounded down) is {m[0]}: {op}")
    return f


def c17_limits(op, impl, model):
    """an operation the exact accounting refuses for a cap / utilisation reason goes through in the implementation"""
    kind = op.split(" ", 1)[0]
    if kind == "ix.dep" and impl.startswith("ok") and model.startswith("ok"):
        i, m = _nums(impl), _nums(model)
        if i and m and len(i) == len(m) and i[:-1] == m[:-1] and i[-1] > m[-1]:
            return (f"C17 a deposit (clamped to the bank's remaining capacity) credited exactly what the capacity admits - the booking equals the exact "
                    f"accounting's, which collects {m[-1]} tokens for it - but {i[-1]} tokens were pulled from the depositor: the transfer is sized from "
                    f"the requested amount, not from the remaining capacity: {op}")
    if not (impl.startswith("ok") and model.startswith("err ")):
        return None
    code = model.split()[1]
    if kind in ("w.dep", "ix.dep") and code == "6003":
        return (f"C17 a deposit SUCCEEDED that brings the bank's total deposits to or above its deposit limit (as the limit applies to this bank's balance units; "
                f"the exact accounting refuses it with BankAssetCapacityExceeded): {op}")
    if kind in ("w.bor", "ix.bor") and code == "6027":
        return f"C17 a borrow SUCCEEDED that brings the bank's total debt to or above its borrow limit (BankLiabilityCapacityExceeded expected): {op}"
    if kind in ("w.bor", "ix.bor", "w.wd", "ix.wd", "w.wdall") and code == "6026":
        return f"C17 a {'borrow' if 'bor' in kind else 'withdrawal'} SUCCEEDED that leaves the bank's total deposits below its total debt (IllegalUtilizationRatio expected): {op}"
    return None


def c20_fail_closed(op, impl, model):
    """an integration conversion returns a value where the exact arithmetic leaves the integer type (or divides by zero)"""
    if not op.startswith("ig.") or not impl.startswith("some") or model.strip() != "none":
        return None
    a = op.split()
    if a[0] == "ig.dwd" and len(a) == 4:
        d, cum, scaled = int(a[1]), int(a[2]), int(a[3])
        if 0 <= d <= 19:
            exact = scaled * cum // (10 ** (19 - d))
            if exact > 18446744073709551615:
                return (f"C20 Drift get_withdraw_token_amount({scaled} scaled units, cumulative interest {cum}, {d} decimals) returned {impl.split()[1]} although the exact "
                        f"token amount {exact} does not fit a u64: a wrapped value instead of an error")
            return None
    return (f"C20 an integration conversion returned {impl} where the exact arithmetic overflows its integer type or divides by zero "
            f"(it must report an error, not a wrapped value): {op}")


def c03_conversion(op, impl, model):
    """ig.l2c x liq col / ig.c2l c liq col (scaled supplies as I80F48 bits): a venue conversion that credits / pays more than the exact
    ratio gives (deposits are booked in collateral units: a deposit must never be credited more collateral than the tokens buy)"""
    a = op.split()
    if a[0] not in ("ig.l2c", "ig.c2l") or len(a) != 4 or not impl.startswith("some"):
        return None
    try:
        x, l, k, v = int(a[1]), int(a[2]), int(a[3]), int(impl.split()[1])
    except ValueError:
        return None
    if a[0] == "ig.l2c" and l > 0:
        exact = x * k // l
        if v > exact:
            why = "the exact intermediate product leaves the number type: such a deposit must be refused" if model.strip() == "none" else "rounded in the user's favour"
            return (f"C03 a venue deposit of {x} tokens is credited {v} collateral units where the exact conversion at this exchange rate gives {exact}: "
                    f"the user is credited more than was paid in ({why}): {op}")
    if a[0] == "ig.c2l" and k > 0:
        exact = x * l // k
        if v > exact:
            return f"C03 a venue withdrawal of {x} collateral units announces {v} tokens where the exact conversion gives {exact}: more is paid out than is debited: {op}"
    return None


def c05_conditions(op, impl, model):
    """risk.postliq <k> <pre health> <portfolio> / risk.preliq <k> <portfolio>: the liquidation conditions themselves"""
    if op.startswith("risk.postliq"):
        if impl.startswith("ok") and model.startswith("err 6072"):
            pre = op.split()[2]
            return (f"C05 the post-liquidation condition ACCEPTS a liquidation after which maintenance health, by exact evaluation of the portfolio, is not "
                    f"strictly better than before ({pre} bits; the implementation's own figure for afterwards: {impl.split()[1]} bits — it values the "
                    f"portfolio differently from the exact evaluation): {op[:400]}")
        if impl.startswith("ok") and model.startswith("err 6071"):
            return f"C05 the post-liquidation condition accepts an account that is POSITIVE at maintenance level afterwards: {op[:400]}"
        if impl.startswith("ok") and model.startswith("err"):
            return f"C05 the post-liquidation condition accepts where the exact evaluation refuses ({model}): {op[:400]}"
    if op.startswith("risk.preliq"):
        if impl.startswith("ok") and model.startswith("err 6068"):
            return f"C05 the pre-liquidation condition holds for an account that is healthy at maintenance level: {op[:400]}"
        if impl.startswith("ok") and model.startswith("err"):
            return f"C05 the pre-liquidation condition holds where the exact evaluation refuses ({model}): {op[:400]}"
    return None


def bracket_conditions(pid):
    """risk.start / risk.endliq / risk.enddelev: the real start / end instructions accept what the exact evaluation refuses"""
    def f(op, impl, model):
        kind = op.split(" ", 1)[0]
        if kind not in ("risk.start", "risk.endliq", "risk.enddelev") or not impl.startswith("ok") or not model.startswith("err"):
            return None
        code = model.split()[1]
        if kind == "risk.start" and code == "6068" and pid == "C10":
            return f"C10 start_liquidation ACCEPTED an account that is healthy at maintenance level by exact evaluation of its portfolio (a third party takes control of a healthy account): {op[:400]}"
        if kind == "risk.endliq" and pid == "C10":
            why = {"6068": "the account is POSITIVE at maintenance level at the end", "6072": "maintenance health is WORSE than at the start",
                   "6090": "the value seized exceeds the value repaid by more than the maximum premium"}.get(code)
            if why:
                return f"C10 end_liquidation ACCEPTED although {why} (exact evaluation: {model}): {op[:400]}"
        if kind == "risk.enddelev" and code == "6072":
            return f"{pid} end_deleverage ACCEPTED although maintenance health is worse than at the start of the bracket: {op[:400]}"
        return None
    return f


def c10_health(op, impl, model):
    """risk.pulse: the engine's liquidation verdict (what start_liquidation tests) vs the exact evaluation"""
    if not op.startswith("risk.pulse"):
        return None
    i, m = _nums(impl), _nums(model)
    if not i or not m or len(i) < 12 or len(m) < 12:
        return None
    if i[7] == 0 and m[7] == 6068:
        return (f"C10 the engine finds an account liquidatable (maintenance assets {i[2]} vs liabilities {i[3]}) that is healthy at maintenance level by exact evaluation "
                f"(assets {m[2]} > liabilities {m[3]}): a third party could take control of a healthy account: {op[:400]}")
    if i[7] == 6068 and m[7] == 0 and i[2] > i[3] and m[2] <= m[3]:
        return None
    return None


def c11_health(op, impl, model):
    """the initial-margin check that end_flashloan runs, against the exact evaluation"""
    if not op.startswith("risk.pulse"):
        return None
    i, m = _nums(impl), _nums(model)
    if not i or not m or len(i) < 12 or len(m) < 12:
        return None
    if i[6] == 0 and (m[6] == 6009 or m[0] < m[1]):
        return (f"C11 the initial-margin check that ends a flash loan PASSES a portfolio whose exactly computed initial health is negative "
                f"(engine: assets {i[0]} >= liabilities {i[1]}; exact: assets {m[0]} < liabilities {m[1]}): {op[:400]}")
    if i[6] == 0 and m[6] not in (0, 6009, 6029):
        return (f"C11 the initial-margin check that ends a flash loan PASSES a portfolio whose initial health cannot be established from the presented "
                f"oracle data (exact evaluation fails with error {m[6]}: a DEBT price is stale / unauthentic / too uncertain and the debt was counted "
                f"as nothing): whatever was borrowed inside the bracket from that bank stays unbacked: {op[:400]}")
    if i[6] == 0 and m[6] == 6029:
        return f"C11 the check that ends a flash loan passes a portfolio in which an isolated-tier debt is not the only debt: {op[:400]}"
    return None


def c02_closebank(op, impl, model):
    if op.startswith("ix.closebank") and impl.strip() == "ok" and model.startswith("err"):
        a = op.split()
        return (f"C02 lending_pool_close_bank CLOSED a bank whose books are not empty within the dust tolerance (deposit shares {a[3]}, debt shares {a[4]}, "
                f"unclaimed emissions {a[14]}, position counters {a[15]}/{a[16]}, flags {a[10]}; 0.0001 unit = 28147497671 bits): accounts may still hold more than dust in it: {op}")
    return None


def c19_emissions(op, impl, model):
    """w.* wrapper ops: <bank 16> <position 6> ..  =>  ok <bank 16> <position 6> [..]: same books except the emissions pool / credit"""
    if not op.startswith("w."):
        return None
    i, m = _nums(impl), _nums(model)
    if not i or not m or len(i) != len(m) or len(i) < 22:
        return None
    diff = [k for k in range(len(i)) if i[k] != m[k]]
    if not diff or not set(diff) <= {13, 20, 22}:
        return None
    try:
        pre = [int(x) for x in op.split()[1:]]
    except ValueError:
        return None
    ci, cm = pre[13] - i[13], pre[13] - m[13]
    return (f"C19 emission rewards credited to the position are {ci} bits where rate x time x position size gives {cm} bits "
            f"(pool before {pre[13]}, after {i[13]}; position's unclaimed rewards {i[20]} vs {m[20]}): not in proportion to the position's size: {op[:300]}")


def c19_close_with_emissions(op, impl, model):
    """w.wdall / w.repall / w.close <bank 16> <position 6> ..: a position is closed while a whole emission token (or more) is still unclaimed"""
    kind = op.split(" ", 1)[0]
    if kind not in ("w.wdall", "w.repall", "w.close") or not impl.startswith("ok"):
        return None
    try:
        a = [int(x) for x in op.split()[1:]]
    except ValueError:
        return None
    if len(a) < 22:
        return None
    emis = a[20]
    if emis >= (1 << 48) and model.startswith("err"):
        return (f"C19 a position holding {emis} bits (>= one whole token) of unclaimed emission rewards was closed by {kind}: the rewards were taken from the "
                f"funded remainder when they accrued and are now paid to nobody ({model} expected): {op[:300]}")
    return None


def c16_tags(op, impl, model):
    """acct.tags <16 slots x 5> <bank tag> ..: validate_asset_tags"""
    if op.startswith("acct.tags") and impl.strip() == "ok" and model.startswith("err 6047"):
        return (f"C16 validate_asset_tags ACCEPTS a bank whose class does not go with the account's positions (staked-collateral positions and "
                f"default-class positions would be mixed; AssetTagMismatch expected): {op[:500]}")
    return None


def c20_venue_value(op, impl, model):
    """ig.[ksd](pyth|swb): the exchange-rate-adjusted price out of the real adapter vs price x (truncated) exchange rate"""
    kind = op.split(" ", 1)[0]
    if kind not in ("ig.kpyth", "ig.kswb", "ig.spyth", "ig.sswb", "ig.dpyth", "ig.dswb"):
        return None
    def val(x):
        t = x.split()
        return int(t[1]) if len(t) == 2 and t[0] in ("some", "ok") else None
    vi, vm = val(impl), val(model)
    if vi is None:
        return None
    if vm is None:
        return f"C20 a venue-adjusted price ({vi}) is produced where the exact re-scaling overflows / is undefined (must fail closed): {op}"
    if vi > vm >= 0:
        venue = {"k": "Kamino", "s": "Solend", "d": "Drift"}[kind[3]]
        return (f"C20 the {venue} exchange-rate-adjusted price out of the oracle adapter is {vi} where the reported price times the venue's exchange rate gives {vm}: "
                f"the adjusted price exceeds price x exchange rate: {op}")
    return None


def tf_mint(pid):
    """tf.mint kind olderBps olderMax newerEpoch newerBps newerMax epoch amount => pre post nonzero withheld"""
    def f(op, impl, model):
        if not op.startswith("tf.mint"):
            return None
        try:
            a = [0] + [int(x) for x in op.split()[1:]]
        except ValueError:
            return None
        a = a[1:]
        it, mt = impl.split(), model.split()
        if not a or len(a) < 8 or len(it) < 7 or len(mt) < 7:
            return None
        if it[-2:] != mt[-2:]:
            return None  # the token program's own arithmetic differs from the model: a model problem, not a finding
        cfg = (f"Token-2022 mint with older fee {a[1]} bps (cap {a[2]}), newer fee {a[4]} bps (cap {a[5]}) from epoch {a[3]}; "
               f"epoch {a[6]}, amount {a[7]}")
        if it[0:2] != mt[0:2]:
            return (f"{pid} calculate_pre_fee_spl_deposit_amount returns {' '.join(it[0:2])} where the fee the token program withholds in this epoch "
                    f"requires {' '.join(mt[0:2])}: a transfer sized this way delivers an amount other than the one booked "
                    f"(vault short / emissions credited beyond what arrived): {cfg}")
        if it[2:4] != mt[2:4]:
            return (f"{pid} calculate_post_fee_spl_deposit_amount returns {' '.join(it[2:4])} where the token program delivers {' '.join(mt[2:4])} "
                    f"after its fee of this epoch: {cfg}")
        if it[4] != mt[4]:
            return f"{pid} nonzero_fee says {it[4]} where the fee in force in this epoch says {mt[4]}: {cfg}"
        return None
    return f


def venue_v4(pid):
    """ig.v4 venue kind x y z p conf ema emaConf maxConf => rt ; rt-low ; tw ; tw-high"""
    def f(op, impl, model):
        if not op.startswith("ig.v4"):
            return None
        names = ["real-time price", "real-time low-biased price", "time-weighted price", "time-weighted high-biased price"]
        a = op.split()
        venue = {"0": "Kamino", "1": "Solend", "2": "Drift"}.get(a[1], "?")
        kind = "Pyth" if a[2] == "1" else "Switchboard"
        if impl.strip() == model.strip():
            return None
        ii, mm = [x.strip() for x in impl.split(";")], [x.strip() for x in model.split(";")]
        if len(ii) == 4 and len(mm) == 4:
            for k in range(4):
                if ii[k] != mm[k]:
                    return (f"{pid} the {venue} / {kind} arm of the price adapter hands out a {names[k]} of [{ii[k]}] where re-scaling EVERY component of the feed "
                            f"(price, confidence, time-weighted price, its confidence) by the venue's exchange rate gives [{mm[k]}]: venue-backed collateral is "
                            f"valued with a confidence band that does not match its price: {op}")
        if impl.startswith("ok") or ";" in impl:
            return (f"{pid} the {venue} / {kind} arm produces a feed [{impl[:200]}] where the exact re-scaling fails / gives [{model[:200]}]: {op}")
        return None
    return f


def wrapper_free_value(pid):
    """w.<op> <bank 16> <position 6> now amount => ok <bank 16> <position 6>: the SAME amount moved, but the implementation debits
    fewer deposit shares / books fewer debt shares (outgoing) or credits more deposit shares / clears more debt shares (incoming)
    than the exact accounting: value out of nothing, at the expense of the bank's other users"""
    def f(op, impl, model):
        kind = op.split(" ", 1)[0]
        out_ops = ("w.wd", "w.bor", "w.wdcap")
        in_ops = ("w.dep", "w.rep", "w.depcap")
        if kind not in out_ops + in_ops:
            return None
        i, m = _nums(impl), _nums(model)
        if not i or not m or len(i) < 22 or len(m) < 22:
            return None
        a = op.split()
        amount = a[-1]
        (isa, isl, ia, il) = (i[2], i[3], i[18], i[19])
        (msa, msl, ma, ml) = (m[2], m[3], m[18], m[19])
        if kind in out_ops and (ia > ma or il < ml):
            return (f"{pid} {kind} of {amount} (2^-48 tokens): the position keeps {ia} deposit shares / owes {il} debt shares where the exact accounting leaves "
                    f"{ma} / {ml}; the same tokens leave the vault, so the difference is paid by the bank's other users (share values {i[0]}, {i[1]}): {op[:300]}")
        if kind in in_ops and (ia > ma or il < ml):
            return (f"{pid} {kind} of {amount} (2^-48 tokens): the position is credited {ia} deposit shares / left with {il} debt shares where the exact accounting gives "
                    f"{ma} / {ml} for the same tokens paid in: {op[:300]}")
        if kind in out_ops + in_ops and (isa != msa or isl != msl) and ia == ma and il == ml:
            return (f"{pid} {kind} of {amount}: the bank totals move to ({isa}, {isl}) where the exact accounting gives ({msa}, {msl}) although the position is booked "
                    f"identically: totals and positions drift apart: {op[:300]}")
        return None
    return f


def wrapper_ledger(pid):
    """w.<dep|rep|wd|bor|depcap|wdcap> <bank 16> <position 6> now amount => ok <bank 16> <position 6>: whatever the exact accounting says,
    the operation must move the bank's share totals by exactly what it moves the position's shares (C02's ledger clause)"""
    def f(op, impl, model):
        kind = op.split(" ", 1)[0]
        if kind not in ("w.dep", "w.rep", "w.wd", "w.bor", "w.depcap", "w.wdcap") or not impl.startswith("ok"):
            return None
        i = _nums(impl)
        try:
            a = [int(x) for x in op.split()[1:]]
        except ValueError:
            return None
        if not i or len(i) < 22 or len(a) < 22:
            return None
        (sa0, sl0, pa0, pl0) = (a[2], a[3], a[18], a[19])
        (sa1, sl1, pa1, pl1) = (i[2], i[3], i[18], i[19])
        if (sa1 - sa0) != (pa1 - pa0) or (sl1 - sl0) != (pl1 - pl0):
            return (f"{pid} {kind}: the bank's share totals move by ({sa1 - sa0}, {sl1 - sl0}) while the position's shares move by ({pa1 - pa0}, {pl1 - pl0}): "
                    f"a bank total no longer changes by exactly the change of the position (asset tag {a[10] if len(a) > 10 else '?'}, mint decimals {a[11] if len(a) > 11 else '?'}, deposit limit {a[7]}): {op[:300]}")
        return None
    return f


def venue_booking(pid):
    """vn.kdep .. now expected pre post / vn.kwd .. : accepted by the implementation where the model (what the handler must
    make of the venue's answer) refuses, or a different booking"""
    def f(op, impl, model):
        if not (op.startswith("vn.kdep") or op.startswith("vn.kwd")):
            return None
        what = "kamino_deposit" if op.startswith("vn.kdep") else "kamino_withdraw"
        a = op.split()
        if impl.startswith("ok") and model.startswith("err"):
            tail = a[-4:] if what == "kamino_deposit" else a[-8:]
            names = "now expected obligation-before obligation-after" if what == "kamino_deposit" else "now amount all expected obligation-before obligation-after vault-before vault-after"
            return (f"{pid} {what} ACCEPTS a venue answer that its own after-the-fact checks must refuse ({model}): {names} = {' '.join(tail)}")
        if impl.startswith("ok") and model.startswith("ok") and impl != model:
            return (f"{pid} {what} books or pays something else than the collateral that moved in the bank's obligation / the tokens that arrived: "
                    f"implementation [{impl[:300]}] vs exact [{model[:300]}]")
        return None
    return f


def c06_accrual(op, impl, model):
    """b.accrue <bank 16> ..  =>  ok <bank 16> <last_update> ..: same share values, different fee buckets"""
    if not op.startswith("b.accrue"):
        return None
    if impl.startswith("ok") and model.startswith("err 6062"):
        return (f"C06 an accrual SUCCEEDS where an intermediate product of the exact computation leaves the number type (the original refuses it with a math "
                f"error): what is booked is a wrapped / saturated figure, so the increase in total debt no longer equals the increase in total deposits plus "
                f"the fees booked: {op[:300]}")
    i, m = _nums(impl), _nums(model)
    if not i or not m or len(i) != len(m) or len(i) < 16:
        return None
    if i[0:4] != m[0:4]:
        return None   # the share values / totals themselves differ: not this rule
    names = {4: "insurance", 5: "group", 6: "program"}
    diffs = [(names[k], i[k], m[k]) for k in (4, 5, 6) if i[k] != m[k]]
    if not diffs:
        return None
    what = "; ".join(f"{n} fees outstanding {a} where the borrowers' charge implies {b}" for (n, a, b) in diffs)
    return (f"C06 an accrual moves the share values exactly as the rates demand (deposit share value {i[0]}, debt share value {i[1]}) but books {what}: "
            f"the increase in total debt no longer equals the increase in total deposits plus the fees booked: {op[:300]}")


def world_rule(pid):
    """wd.<dep|wd|bor|rep|close> <whole context> amount flag  =>  ok <16 slots x 7> <bank 16> last_update tokens <window 3> | err code:
    the whole real instruction against the whole-instruction model (Mfi/Model/World.lean). An instruction that goes through
    where the exact evaluation refuses it for a reason THIS property is about is a failing input of this property; so is a
    post-state that differs in the component this property is about."""
    REFUSALS = {
        "C14": {6080: "while the protocol-wide pause is in force", 6016: "on a paused bank", 6017: "on a reduce-only bank (deposit / borrow)",
                6084: "on a bank killed by bankruptcy"},
        "C08": {6042: "for a signer who is not entitled (not the authority / not the group admin of a frozen account / no receivership)",
                6103: "for the authority of a FROZEN account", 6093: "with an account or a bank of another group",
                6094: "through a vault that is not the bank's liquidity vault", 6200: "on a bank that is not one of the program's own (integration tag)"},
        "C16": {6035: "on a disabled account (or a deposit / borrow on an account in receivership)", 6047: "mixing staked-collateral and default-class positions",
                6010: "opening a 17th position", 6040: "leaving a deposit and a debt in one bank"},
        "C04": {6009: "although the recomputed initial health of the post-state is negative", 6029: "although an isolated-tier debt is not the account's only debt"},
        "C17": {6003: "beyond the deposit limit", 6027: "beyond the borrow limit", 6026: "leaving total debt above total deposits"},
        "C12": {6101: "beyond the configured daily deleverage withdrawal limit"},
        "C10": {6090: "of zero-weight collateral from an account in receivership", 6057: "from an account in receivership at a non-positive price",
                6035: "(a deposit / borrow) on an account in receivership"},
        "C01": {6094: "through a vault that is not the bank's liquidity vault"},
        "C09": {6057: "from an account in receivership at a zero or negative (or undefined) collateral price"},
    }
    NAMES = {"wd.dep": "deposit", "wd.wd": "withdrawal", "wd.bor": "borrow", "wd.rep": "repayment", "wd.close": "balance closure"}
    def f(op, impl, model):
        kind = op.split(" ", 1)[0]
        if kind not in NAMES:
            return None
        args = op.split()
        ctx = f"now={args[1]} paused={args[5]} account-flags={args[13]} signer={args[126] if len(args) > 126 else '?'} amount={args[-2]} flag={args[-1]}"
        if impl.startswith("ok") and model.startswith("err"):
            code = int(model.split()[1])
            why = REFUSALS.get(pid, {}).get(code)
            if why:
                return f"{pid} a {NAMES[kind]} went through {why} (the exact evaluation of the whole instruction answers {code}); {ctx}: {op}"
            return None
        i, m = _nums(impl), _nums(model)
        if not i or not m or len(i) != len(m) or len(i) != 16 * 7 + 16 + 1 + 1 + 3:
            return None
        slots_i, slots_m = i[:112], m[:112]
        bank_i, bank_m = i[112:129], m[112:129]
        tok_i, tok_m = i[129], m[129]
        win_i, win_m = i[130:], m[130:]
        if pid == "C16":
            keys = [slots_i[k * 7 + 1] for k in range(16) if slots_i[k * 7] == 1]
            if any(keys[k] < keys[k + 1] for k in range(len(keys) - 1)):
                return f"C16 after a successful {NAMES[kind]} the active positions are not in descending bank-key order (keys by rank: {keys}); {ctx}: {op}"
            if len(set(keys)) != len(keys):
                return f"C16 after a successful {NAMES[kind]} two active positions name one bank (keys by rank: {keys}); {ctx}: {op}"
            if slots_i != slots_m:
                return f"C16 a successful {NAMES[kind]} leaves a slot array that differs from the exact evaluation's; {ctx}: {op}"
        if pid == "C02" and (slots_i != slots_m or bank_i[2:4] != bank_m[2:4]) :
            # the share ledger: position shares vs bank totals
            di = [slots_i[k * 7 + 3] for k in range(16)], bank_i[2:4]
            return f"C02 a successful {NAMES[kind]} books position shares / bank share totals that differ from the exact accounting (totals {bank_i[2:4]} vs {bank_m[2:4]}); {ctx}: {op}"
        if pid in ("C01", "C03") and slots_i == slots_m and bank_i == bank_m and tok_i != tok_m:
            worse = (kind in ("wd.dep", "wd.rep") and tok_i < tok_m) or (kind in ("wd.wd", "wd.bor") and tok_i > tok_m)
            if worse:
                return f"{pid} a {NAMES[kind]} books exactly what the exact accounting books for {tok_m} tokens but moves {tok_i}; {ctx}: {op}"
        if pid in ("C01", "C03") and tok_i == tok_m and slots_i != slots_m:
            # the same tokens moved, another booking: compare the position in the bank operated on (bank key = args[127])
            bkey = int(args[127])
            def shares(sl):
                for k in range(16):
                    if sl[k * 7] == 1 and sl[k * 7 + 1] == bkey:
                        return sl[k * 7 + 3], sl[k * 7 + 4]
                return 0, 0
            (ai, li), (am, lm) = shares(slots_i), shares(slots_m)
            if (ai > am and li <= lm) or (li < lm and ai >= am):
                return (f"{pid} a {NAMES[kind]} that moves the same {tok_i} tokens as the exact accounting leaves the position with deposit / debt shares "
                        f"({ai}, {li}) where the exact accounting books ({am}, {lm}): value is credited that was not paid for; {ctx}: {op}")
        if pid == "C06" and (bank_i[0:2] != bank_m[0:2] or bank_i[16] != bank_m[16]):
            return f"C06 a successful {NAMES[kind]} leaves share values / accrual clock {bank_i[0:2]} @ {bank_i[16]} where an accrual to the current time first gives {bank_m[0:2]} @ {bank_m[16]}; {ctx}: {op}"
        if pid == "C12" and win_i != win_m:
            return f"C12 a deleverage withdrawal leaves the daily window at {win_i}, the exact metering gives {win_m}; {ctx}: {op}"
        if pid == "C17" and bank_i[2:4] != bank_m[2:4]:
            return None
        return None
    return f


def world_rule2(pid):
    """wd.liq / wd.bkr: the whole liquidation / bankruptcy instruction against the whole-instruction model: an instruction
    that goes through where the exact evaluation refuses it for a reason this property is about."""
    LIQ = {
        "C05": {6068: "of an account whose maintenance health is not negative", 6066: "against a bank in which the account owes nothing",
                6067: "against a bank in which the account holds a deposit", 6065: "seizing more than the collateral held",
                6069: "exhausting the liability", 6070: "flipping the repaid debt into a deposit", 6071: "leaving the account positive at maintenance level",
                6072: "without improving the account's health", 6009: "leaving the LIQUIDATOR initially unhealthy", 6012: "of amount zero",
                6057: "at a non-positive collateral price", 6058: "at a non-positive debt price"},
        "C14": {6080: "while the protocol-wide pause is in force", 6016: "touching a paused bank", 6084: "touching a bank killed by bankruptcy"},
        "C09": {6057: "sized at a zero or negative collateral price", 6058: "sized at a zero or negative debt price"},
        "C08": {6042: "for a signer not entitled to act for the liquidator", 6103: "for the authority of a frozen liquidator account", 6093: "with an account or bank of another group"},
        "C10": {6089: "while one of the two accounts is in receivership"},
        "C11": {6037: "of an account that is inside a flash loan"},
        "C16": {6047: "mixing staked-collateral and default-class positions"},
    }
    BKR = {
        "C07": {6013: "of an account that is not bankrupt", 6014: "on a balance that is no bad debt", 6042: "by a signer who may not settle bad debt on this bank"},
        "C14": {6080: "while the protocol-wide pause is in force", 6016: "on a paused bank", 6084: "on a bank killed by bankruptcy"},
        "C08": {6042: "by a signer who may not settle bad debt on this bank", 6093: "with an account or bank of another group"},
        "C10": {6085: "of an account in receivership"},
        "C11": {6037: "of an account inside a flash loan"},
    }
    def f(op, impl, model):
        kind = op.split(" ", 1)[0]
        if kind not in ("wd.liq", "wd.bkr"):
            return None
        table, name = (LIQ, "liquidation") if kind == "wd.liq" else (BKR, "bankruptcy settlement")
        if impl.startswith("ok") and model.startswith("err"):
            code = int(model.split()[1])
            why = table.get(pid, {}).get(code)
            if why:
                return f"{pid} a {name} went through {why} (the exact evaluation of the whole instruction answers {code}): {op}"
            return None
        i, m = _nums(impl), _nums(model)
        if i and m and len(i) == len(m) and i != m:
            if kind == "wd.bkr" and pid in ("C07", "C01", "C02", "C06"):
                return f"{pid} a {name} leaves books / position / insurance draw that differ from the exact settlement at the accrued share values: {op}"
            if kind == "wd.liq" and pid in ("C05", "C01", "C02", "C06", "C03"):
                return f"{pid} a {name} leaves positions / books / insurance fee that differ from the exact accounting (97.5 % / 95 % at the biased prices, accrued share values): {op}"
        return None
    return f


def c19_collect(pid):
    """fee.collect feeI feeG feeP vault  =>  ok feeI' feeG' feeP' toInsurance toGroup toProgram: each fee bucket must fall by exactly
    the whole tokens moved to its destination, and nothing may be moved that was not owed or that the vault does not hold"""
    def f(op, impl, model):
        if not op.startswith("fee.collect"):
            return None
        a = [int(x) for x in op.split()[1:]]
        i = _nums(impl)
        if not i or len(i) != 6 or len(a) != 4:
            return None
        one = 1 << 48
        names = ["insurance", "group", "program"]
        for k in range(3):
            if a[k] - i[k] != i[3 + k] * one:
                return (f"{pid} collect_bank_fees reduced the {names[k]} fee bucket by {a[k] - i[k]} (x2^-48 token) while {i[3 + k]} whole tokens "
                        f"were moved to its destination: the bucket and the money no longer agree (buckets {a[:3]} -> {i[:3]}, vault {a[3]}): {op}")
        if sum(i[3:]) > a[3]:
            return f"{pid} collect_bank_fees moved {sum(i[3:])} tokens out of a vault holding {a[3]}: {op}"
        return None
    return f


def world_rule3(pid):
    """wd.accrue / wd.collect / wd.xfer / wd.startfl / wd.startliq / wd.endliq: the whole real instruction (inside real transactions
    where its meaning depends on them) against the whole-instruction model: an instruction that goes through where the exact
    evaluation refuses it for a reason this property is about, or that the harness itself flags from the property text."""
    T = {
        "wd.accrue": ("accrual crank", {
            "C06": {6093: "on a bank of another group (the accrual then runs with that group's fee settings)"},
            "C08": {6093: "on a bank of another group"},
            "C19": {6093: "on a bank of another group (fees are booked at that group's rates)"}}),
        "wd.collect": ("fee collection", {
            "C14": {6080: "while the protocol-wide pause is in force"},
            "C08": {6093: "on a bank of another group"},
            "C19": {6093: "on a bank of another group", 6045: "into a token account that is not the global fee wallet's for the bank's mint"},
            "C01": {6045: "into a token account that is not the global fee wallet's for the bank's mint"}}),
        "wd.xfer": ("account transfer", {
            "C14": {6080: "while the protocol-wide pause is in force"},
            "C08": {6042: "for a signer who is not entitled", 6103: "for the authority of a frozen account", 6093: "with an account of another group"},
            "C16": {6037: "of an account inside a flash loan", 6089: "of an account in receivership", 6079: "of an account that was transferred already",
                    6045: "with a fee wallet that is not the global one"},
            "C11": {6037: "of an account inside a flash loan"}, "C10": {6089: "of an account in receivership"}}),
        "wd.startfl": ("flash-loan start", {
            "C11": {6038: "without a later end_flashloan of this program for the same account (or on an account already in a flash loan)",
                    6035: "on a disabled account", 6089: "on an account in receivership", 6103: "on a frozen account", 6042: "for a signer who is not the authority"},
            "C08": {6042: "for a signer who is not the authority"}, "C10": {6089: "on an account in receivership"}}),
        "wd.startliq": ("liquidation start", {
            "C10": {6068: "of an account that is healthy at maintenance level", 6085: "of an account already in receivership / in a flash loan / disabled",
                    6086: "that is not the first instruction", 6087: "next to another start", 6088: "without an end as the last instruction",
                    6089: "next to an instruction that is neither start, end, withdraw nor repay", 6095: "with a liquidation record that is not the account's"},
            "C08": {6095: "with a liquidation record that is not the account's"}, "C11": {6085: "of an account inside a flash loan"}}),
        "wd.endliq": ("liquidation end", {
            "C10": {6072: "leaving the account less healthy than the start found it", 6068: "leaving the account healthy (assets were worth five dollars or more)",
                    6090: "with a seizure above the repaid value times the maximum premium", 6085: "of an account that is not in receivership",
                    6095: "with a liquidation record that is not the account's", 6096: "signed by someone else than the receiver the record names"},
            "C08": {6096: "signed by someone else than the receiver the record names", 6095: "with a liquidation record that is not the account's",
                    6099: "with a wallet that is not the fee state's"}}),
        "wd.closeacct": ("account closure", {
            "C16": {6043: "of an account that is not empty, or is disabled / in a flash loan / in receivership", 6103: "of a frozen account"},
            "C08": {6042: "for a signer who is not the account's authority", 6103: "of a frozen account"},
            "C11": {6043: "of an account inside a flash loan"}, "C10": {6043: "of an account in receivership"}}),
        "wd.startdelev": ("forced-deleverage start", {
            "C10": {6085: "of an account already in receivership / in a flash loan / disabled", 6086: "that is not the first instruction",
                    6087: "next to another start", 6088: "without an end_deleverage as the last instruction",
                    6089: "next to an instruction that is neither its start, its end, withdraw nor repay", 2001: "with a record / group / risk admin that is not the account's"},
            "C08": {2001: "with a record / group / risk admin that is not the account's"},
            "C12": {2001: "for a signer who is not the group's risk admin (or with a foreign record / group)"},
            "C11": {6085: "of an account inside a flash loan"}}),
        "wd.enddelev": ("forced-deleverage end", {
            "C10": {6072: "leaving the account less healthy than the start found it", 6085: "of an account that is not in receivership",
                    2001: "with a record / group / risk admin that is not the account's", 6042: "although the record names another receiver than the risk admin"},
            "C08": {2001: "with a record / group / risk admin that is not the account's", 6042: "although the record names another receiver than the risk admin"},
            "C12": {2001: "for a signer who is not the group's risk admin (or with a foreign record / group)", 6042: "although the record names another receiver than the risk admin"}}),
    }
    def f(op, impl, model):
        kind = op.split(" ", 1)[0]
        if kind not in T:
            return None
        name, table = T[kind]
        if impl.startswith("ok closed-although-not-empty") and pid == "C16":
            return f"C16 an account that still holds a deposit or a debt of one share or more was CLOSED: {op[:400]}"
        if impl.startswith("ok closed-for-someone-else-than-the-authority") and pid in ("C08", "C16"):
            return f"{pid} an account was closed for a signer who is not its authority: {op[:400]}"
        if impl.startswith("ok accepted-for-someone-else-than-the-risk-admin") and pid in ("C10", "C08", "C12"):
            return f"{pid} a {name} went through for someone else than the group's risk admin (signer / receiver named by the record): {op[:400]}"
        if impl.startswith("ok accepted-with-foreign-group") and pid in ("C06", "C08", "C19"):
            return f"{pid} the permissionless {name} went through on a bank that belongs to ANOTHER group than the one passed: the bank is run under foreign settings: {op[:400]}"
        if impl.startswith("ok accepted-with-foreign-record") and pid in ("C10", "C08"):
            return f"{pid} a {name} went through with a liquidation record that is NOT the account's own: control over the account is recorded elsewhere: {op[:400]}"
        if impl.startswith("ok accepted-for-someone-else-than-the-receiver") and pid in ("C10", "C08"):
            return f"{pid} a {name} went through signed by someone else than the receiver the account's record names: {op[:400]}"
        if impl.startswith("ok accepted-for-someone-else-than-the-authority") and pid in ("C11", "C08"):
            return f"{pid} a {name} went through signed by someone else than the account's authority: {op[:400]}"
        if impl.startswith("ok accepted-with-wrong-fee-ata") and pid in ("C19", "C01"):
            return f"{pid} fee collection went through with a program-fee destination that is not the global fee wallet's token account for the bank's mint: {op[:400]}"
        if impl.startswith("ok") and model.startswith("err"):
            code = int(model.split()[1])
            why = table.get(pid, {}).get(code)
            if why:
                return f"{pid} a {name} went through {why} (the exact evaluation of the whole instruction answers {code}): {op[:600]}"
        if impl.startswith("ok") and model.startswith("ok") and impl != model:
            if kind == "wd.collect" and pid in ("C19", "C01"):
                return f"C19 fee collection moves / books {impl.split()[-3:]} where the buckets and the vault give {model.split()[-3:]}: {op[:400]}" if pid == "C19" else \
                       f"C01 fee collection leaves books that differ from the exact evaluation (the vault pays {impl.split()[-3:]}, the buckets give {model.split()[-3:]}): {op[:400]}"
            if kind == "wd.accrue" and pid == "C06":
                return f"C06 the accrual crank leaves books that differ from an accrual to the current time: {op[:400]}"
            if kind == "wd.startliq" and pid == "C10":
                return f"C10 the liquidation start records {impl.split()[1:]} where the exact evaluation gives {model.split()[1:]}: {op[:400]}"
            if kind in ("wd.startdelev", "wd.enddelev") and pid in ("C10", "C12"):
                return f"{pid} the {name} leaves flags / receiver / snapshot {impl.split()[1:]} where the exact evaluation gives {model.split()[1:]}: {op[:400]}"
            if kind == "wd.endliq" and pid == "C10":
                return f"C10 the liquidation end leaves account flags {impl.split()[1:]} where the exact evaluation gives {model.split()[1:]}: {op[:400]}"
            if kind == "wd.startfl" and pid == "C11":
                return f"C11 the flash-loan start leaves account flags {impl.split()[1:]} where the exact evaluation gives {model.split()[1:]}: {op[:400]}"
            if kind == "wd.xfer" and pid == "C16":
                return f"C16 the transfer leaves accounts that differ from the exact evaluation: {op[:400]}"
        return None
    return f


WITNESS = {
    "C04": [c04_health, emode_dupes("C04"), venue_v4("C04"), world_rule("C04")],
    "C13": [emode_dupes("C13"), emode_leverage("C13"), accepted_invalid_curve("C13"), c13_health],
    "C18": [accepted_invalid_curve("C18")],
    "C12": [accepted_invalid_curve("C12"), bracket_conditions("C12"), world_rule("C12"), world_rule3("C12")],
    "C05": [c05_health, c05_liq, value_scaling("C05"), c05_conditions, venue_v4("C05"), world_rule2("C05")],
    "C07": [c07_health, c07_soc, world_rule2("C07")],
    "C09": [c09_health, venue_v4("C09"), world_rule("C09"), world_rule2("C09")],
    "C16": [c16_foc, c16_tags, world_rule("C16"), world_rule2("C16"), world_rule3("C16")],
    "C03": [c03_conversion, ixf_tokens("C03"), tf_mint("C03"), venue_booking("C03"), wrapper_free_value("C03"), world_rule("C03"), world_rule2("C03")],
    "C17": [c17_limits, world_rule("C17")],
    "C06": [c06_accrual, world_rule("C06"), world_rule2("C06"), world_rule3("C06")],
    "C19": [c19_close_with_emissions, c19_emissions, tf_mint("C19"), c19_collect("C19"), world_rule3("C19")],
    "C02": [c02_closebank, wrapper_ledger("C02"), venue_booking("C02"), wrapper_free_value("C02"), world_rule("C02"), world_rule2("C02")],
    "C11": [c11_health, world_rule2("C11"), world_rule3("C11")],
    "C10": [bracket_conditions("C10"), c10_health, world_rule("C10"), world_rule2("C10"), world_rule3("C10")],
    "C20": [c20_venue_value, c20_fail_closed, venue_booking("C20"), venue_v4("C20")],
    "C01": [c19_collect("C01"), ixf_tokens("C01"), tf_mint("C01"), venue_booking("C01"), wrapper_free_value("C01"), world_rule("C01"), world_rule2("C01"), world_rule3("C01")],

    "C08": [world_rule("C08"), world_rule2("C08"), world_rule3("C08")],
    "C14": [world_rule("C14"), world_rule2("C14"), world_rule3("C14")],}


def witnesses(pid, disagreements):
    out = []
    for (op, impl, model) in disagreements:
        for f in WITNESS.get(pid, []):
            w = f(op, impl, model)
            if w:
                out.append(w)
    return out
