import Mfi.Props.C02
import Mfi.Props.C03
import Mfi.Props.C06
import Mfi.Props.C14
import Mfi.Props.C15
import Mfi.Props.C17
import Mfi.Props.C18
import Mfi.Props.C20
