import Mfi.Fx
import Mfi.Model.Panic
