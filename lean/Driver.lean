import Mfi.Driver.FxD
import Mfi.Driver.PanicD
import Mfi.Driver.InterestD
import Mfi.Driver.IntegrD
import Mfi.Driver.BankD
import Mfi.Driver.TokenD
import Mfi.Driver.GateD
import Mfi.Driver.AuthD
import Mfi.Driver.AdminD
import Mfi.Driver.AccountD
import Mfi.Driver.TxD
import Mfi.Driver.RiskD
import Mfi.Driver.TransferD
import Mfi.Driver.IxD
import Mfi.Driver.VenueD
import Mfi.Driver.WorldD
open Mfi.Driver

def handlers : List (String → List Int → Option String) := [fxOp, panicOp, irOp, igOp, bankOp, tokOp, gateOp, authOp, adminOp, acctOp, txOp, riskOp, liqOp, xferOp, ixOp, liqIxOp, bkrIxOp, closeBankOp, venueOp, venueIxOp, venueV4Op, worldXferOp, worldRecvOp, worldDelevOp, worldOp, worldLiqOp]

def stepLine (line : String) : String :=
  match line.trimAscii.toString.splitOn " " with
  | op :: rest =>
    match ints rest with
    | none => "bad-args"
    | some args =>
      match handlers.findSome? (fun h => h op args) with
      | some out => out
      | none => "bad-op"
  | [] => "bad-op"

partial def loop (h : IO.FS.Stream) (out : IO.FS.Stream) : IO Unit := do
  let line ← h.getLine
  if line.isEmpty then return ()
  out.putStrLn (stepLine line)
  loop h out

def main : IO Unit := do
  let stdin ← IO.getStdin
  let stdout ← IO.getStdout
  loop stdin stdout
