/-
  I80F48 (crate `fixed` 1.28) on integer bit patterns.
  A value is an `Int` b with MIN ≤ b ≤ MAX; it denotes b / 2^48.
  Checked operations return `none` exactly where `fixed` returns `None`.
  No imports: this file is part of the natively linked driver.
-/
namespace Mfi

namespace Fx

def ONE : Int := 281474976710656            -- 2^48
def MIN : Int := -170141183460469231731687303715884105728   -- -(2^127)
def MAX : Int := 170141183460469231731687303715884105727    -- 2^127 - 1
def U64MAX : Int := 18446744073709551615
def U128MAX : Int := 340282366920938463463374607431768211455

def inRange (b : Int) : Bool := decide (MIN ≤ b) && decide (b ≤ MAX)

def chk (r : Int) : Option Int := if inRange r then some r else none

/-- `checked_add` -/
def add? (a b : Int) : Option Int := chk (a + b)
/-- `checked_sub` -/
def sub? (a b : Int) : Option Int := chk (a - b)
/-- `checked_mul`: floor of the exact product (arithmetic shift right by 48). -/
def mul? (a b : Int) : Option Int := chk ((a * b) / ONE)
/-- `checked_div`: truncation toward zero of (a·2^48)/b; `None` on b = 0 or overflow. -/
def div? (a b : Int) : Option Int :=
  if b = 0 then none else chk (Int.tdiv (a * ONE) b)

/-- wrapping into the 128-bit two's-complement range (what unchecked `*`, `/`, `to_num`,
    `from_num` do on chain, where `debug_assert!` is compiled out). -/
def wrap (r : Int) : Int :=
  let m := r % (2 ^ 128)
  if m > MAX then m - 2 ^ 128 else m

/-- integer part rounding toward −∞, as bits (`floor`); cannot overflow. -/
def floor (a : Int) : Int := (a / ONE) * ONE
/-- `checked_ceil` -/
def ceil? (a : Int) : Option Int := chk (-((-a) / ONE) * ONE)
/-- `frac` : a − floor a, always in [0,1) -/
def frac (a : Int) : Int := a % ONE
/-- `int` = floor for two's complement fixed -/
def int (a : Int) : Int := floor a

/-- `I80F48::from_num(u64)` / small ints: exact -/
def ofInt (n : Int) : Int := n * ONE
/-- `checked_from_num(n)` for an integer n -/
def ofInt? (n : Int) : Option Int := chk (n * ONE)

/-- `checked_to_num::<u64>()`: truncates toward −∞ (floor) then range check.
    In `fixed`, to_num of a negative value into an unsigned type overflows. -/
def toU64? (a : Int) : Option Int :=
  let n := a / ONE
  if 0 ≤ n ∧ n ≤ U64MAX then some n else none

def toI64? (a : Int) : Option Int :=
  let n := a / ONE
  if -9223372036854775808 ≤ n ∧ n ≤ 9223372036854775807 then some n else none

def isNeg (a : Int) : Bool := decide (a < 0)
def abs (a : Int) : Int := if a < 0 then -a else a

/-- the powers of ten as I80F48 bit patterns, 10^0 .. 10^23: what the program's scaling table `EXP_10_I80F48` is FOR.
    The model computes them itself (it does not read the program's table), so a wrong row of that table is a
    disagreement with the implementation on the decimals it serves. -/
def POW10FX : List Int := (List.range 24).map fun i => 10 ^ i * ONE

end Fx
end Mfi
