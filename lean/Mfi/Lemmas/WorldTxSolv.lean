/-
  Solvency over every sequence of TRANSACTIONS of the world state machine: the ghost ledgers (vault, allowance, write-offs) ride
  along committed transactions — whole instructions move them as in `WorldSolvH`, flash-loan and liquidation starts / ends do not
  touch any bank — and a rolled-back transaction moves nothing. Inside a flash loan the health checks are skipped; the books and
  the vault are not.
-/
import Mfi.Lemmas.WorldSolvH
import Mfi.Lemmas.WorldRecvL
import Mfi.Lemmas.WorldShape

namespace Mfi.World
open Mfi Mfi.Fx Mfi.Bank Mfi.Account Mfi.Gen Mfi.SolvL

/-- instruction `i` of a transaction with its effects on the ghost ledgers -/
def WState.stepInE (w : WState) (tx : List TOp) (i : Nat) (t : TOp) : Option (WState × List Eff) :=
  match t with
  | .ix op => (w.step? op).map fun _ => w.stepE op
  | _ => (w.stepIn tx i t).map fun w' => (w', [])

def WState.runFromE (tx : List TOp) : Nat → List TOp → WState → List Eff → Option (WState × List Eff)
  | _, [], w, es => some (w, es)
  | i, op :: rest, w, es =>
    match w.stepInE tx i op with
    | some (w', e) => WState.runFromE tx (i + 1) rest w' (es ++ e)
    | none => none

/-- a transaction on state and ledgers: committed with all its effects, or rolled back with none -/
def WState.runTxE (w : WState) (g : Ghost) (tx : List TOp) : WState × Ghost :=
  match WState.runFromE tx 0 tx w [] with
  | some (w', es) => (w', g.apply es)
  | none => (w, g)

def WState.runTxsE (w : WState) (g : Ghost) : List (List TOp) → WState × Ghost
  | [] => (w, g)
  | tx :: rest => WState.runTxsE (w.runTxE g tx).1 (w.runTxE g tx).2 rest

theorem apply_append (g : Ghost) (a b : List Eff) : g.apply (a ++ b) = (g.apply a).apply b := by
  unfold Ghost.apply; rw [List.foldl_append]

/-- replacing an account by one with the same slot array keeps the solvency invariant -/
theorem setAcct_sinv {w : WState} {ai : Nat} {a a' : AcctV} (hi : SInv w) (ha : w.accts[ai]? = some a) (hs : a'.slots = a.slots) :
    SInv { w with accts := w.accts.set ai a' } := by
  refine ⟨setAcct_inv hi.led ha hs, ?_, hi.dust, hi.banks⟩
  intro i x hx
  simp only at hx
  rw [List.getElem?_set] at hx
  split at hx
  · split at hx
    · injection hx with hx; subst hx; rw [hs]; exact hi.slots ai a ha
    · cases hx
  · exact hi.slots i x hx

/-- the account-only instructions of a transaction (flash-loan and liquidation starts / ends) touch no bank and keep the invariant -/
theorem stepIn_acct_only {tx : List TOp} {i : Nat} {t : TOp} {w w' : WState} (hne : ∀ op, t ≠ .ix op)
    (h : w.stepIn tx i t = some w') (hi : SInv w) : SInv w' ∧ w'.banks = w.banks := by
  cases t with
  | ix op => exact absurd rfl (hne op)
  | startFlash ai signer endIdx =>
    simp only [WState.stepIn] at h
    split at h
    · rename_i a ha
      split at h
      · injection h with h; subst h; exact ⟨setAcct_sinv hi ha rfl, rfl⟩
      · cases h
    · cases h
  | endFlash ai signer =>
    simp only [WState.stepIn] at h
    split at h
    · rename_i a ha
      split at h
      · injection h with h; subst h; exact ⟨setAcct_sinv hi ha rfl, rfl⟩
      · cases h
    · cases h
  | startLiq ai receiver recordOk =>
    simp only [WState.stepIn] at h
    split at h
    · rename_i a ha
      split at h
      · injection h with h; subst h; exact ⟨setAcct_sinv hi ha rfl, rfl⟩
      · cases h
    · cases h
  | endLiq ai signer recordOk walletOk feeMax =>
    simp only [WState.stepIn] at h
    split at h
    · rename_i a ha
      split at h
      · injection h with h; subst h; exact ⟨setAcct_sinv hi ha rfl, rfl⟩
      · cases h
    · cases h
  | startDelev ai signer recordOk =>
    simp only [WState.stepIn] at h
    split at h
    · rename_i a ha
      split at h
      · injection h with h; subst h; exact ⟨setAcct_sinv hi ha rfl, rfl⟩
      · cases h
    · cases h
  | endDelev ai signer recordOk =>
    simp only [WState.stepIn] at h
    split at h
    · rename_i a ha
      split at h
      · injection h with h; subst h; exact ⟨setAcct_sinv hi ha rfl, rfl⟩
      · cases h
    · cases h

/-- instructions inside transactions carry unsigned arguments -/
def TOp.Ok : TOp → Prop
  | .ix op => op.Ok
  | _ => True

/-- what one accepted instruction of a transaction does: the invariant is kept, every bank keeps its place and key, no potential
    falls, no debt share value falls -/
def Good (w : WState) (g : Ghost) (w' : WState) (g' : Ghost) : Prop :=
  SInv w' ∧ ∀ (j : Nat) (x : WBank), w.banks[j]? = some x →
    ∃ x', w'.banks[j]? = some x' ∧ x'.v.key = x.v.key ∧ pot g x ≤ pot g' x' ∧ x.v.books.lsv ≤ x'.v.books.lsv

theorem good_refl {w : WState} {g : Ghost} (hi : SInv w) : Good w g w g :=
  ⟨hi, fun _ x hx => ⟨x, hx, rfl, Int.le_refl _, Int.le_refl _⟩⟩

theorem good_trans {w1 w2 w3 : WState} {g1 g2 g3 : Ghost} (h12 : Good w1 g1 w2 g2) (h23 : Good w2 g2 w3 g3) : Good w1 g1 w3 g3 := by
  refine ⟨h23.1, ?_⟩
  intro j x hx
  obtain ⟨x2, hx2, k2, p2, l2⟩ := h12.2 j x hx
  obtain ⟨x3, hx3, k3, p3, l3⟩ := h23.2 j x2 hx2
  exact ⟨x3, hx3, by rw [k3, k2], Int.le_trans p2 p3, Int.le_trans l2 l3⟩

theorem stepInE_good {tx : List TOp} {i : Nat} {t : TOp} {w w' : WState} {e : List Eff} (g : Ghost)
    (h : w.stepInE tx i t = some (w', e)) (hi : SInv w) (hok : t.Ok) : Good w g w' (g.apply e) := by
  cases t with
  | ix op =>
    simp only [WState.stepInE] at h
    cases hs : w.step? op with
    | none => rw [hs] at h; cases h
    | some w1 =>
      rw [hs] at h
      simp only [Option.map_some, Option.some.injEq] at h
      have e1 : (w.stepE op).1 = w' := by rw [h]
      have e2 : (w.stepE op).2 = e := by rw [h]
      obtain ⟨hinv, hpot⟩ := stepE_sound w g op hi hok
      rw [e1] at hinv
      refine ⟨hinv, ?_⟩
      intro j x hx
      obtain ⟨x', hx', hk⟩ := stepE_bank w op j x hx
      rw [e1] at hx'
      have := hpot j x x' hx (by rw [e1]; exact hx')
      rw [e2] at this
      exact ⟨x', hx', hk, this.1, this.2⟩
  | startFlash ai signer endIdx =>
    simp only [WState.stepInE] at h
    cases hs : w.stepIn tx i (.startFlash ai signer endIdx) with
    | none => rw [hs] at h; cases h
    | some w1 =>
      rw [hs] at h
      simp only [Option.map_some, Option.some.injEq, Prod.mk.injEq] at h
      obtain ⟨h1, h2⟩ := h
      subst h1; subst h2
      obtain ⟨hinv, hb⟩ := stepIn_acct_only (fun op => by simp) hs hi
      exact ⟨hinv, fun j x hx => ⟨x, by rw [hb]; exact hx, rfl, Int.le_refl _, Int.le_refl _⟩⟩
  | endFlash ai signer =>
    simp only [WState.stepInE] at h
    cases hs : w.stepIn tx i (.endFlash ai signer) with
    | none => rw [hs] at h; cases h
    | some w1 =>
      rw [hs] at h
      simp only [Option.map_some, Option.some.injEq, Prod.mk.injEq] at h
      obtain ⟨h1, h2⟩ := h
      subst h1; subst h2
      obtain ⟨hinv, hb⟩ := stepIn_acct_only (fun op => by simp) hs hi
      exact ⟨hinv, fun j x hx => ⟨x, by rw [hb]; exact hx, rfl, Int.le_refl _, Int.le_refl _⟩⟩
  | startLiq ai receiver recordOk =>
    simp only [WState.stepInE] at h
    cases hs : w.stepIn tx i (.startLiq ai receiver recordOk) with
    | none => rw [hs] at h; cases h
    | some w1 =>
      rw [hs] at h
      simp only [Option.map_some, Option.some.injEq, Prod.mk.injEq] at h
      obtain ⟨h1, h2⟩ := h
      subst h1; subst h2
      obtain ⟨hinv, hb⟩ := stepIn_acct_only (fun op => by simp) hs hi
      exact ⟨hinv, fun j x hx => ⟨x, by rw [hb]; exact hx, rfl, Int.le_refl _, Int.le_refl _⟩⟩
  | endLiq ai signer recordOk walletOk feeMax =>
    simp only [WState.stepInE] at h
    cases hs : w.stepIn tx i (.endLiq ai signer recordOk walletOk feeMax) with
    | none => rw [hs] at h; cases h
    | some w1 =>
      rw [hs] at h
      simp only [Option.map_some, Option.some.injEq, Prod.mk.injEq] at h
      obtain ⟨h1, h2⟩ := h
      subst h1; subst h2
      obtain ⟨hinv, hb⟩ := stepIn_acct_only (fun op => by simp) hs hi
      exact ⟨hinv, fun j x hx => ⟨x, by rw [hb]; exact hx, rfl, Int.le_refl _, Int.le_refl _⟩⟩
  | startDelev ai signer recordOk =>
    simp only [WState.stepInE] at h
    cases hs : w.stepIn tx i (.startDelev ai signer recordOk) with
    | none => rw [hs] at h; cases h
    | some w1 =>
      rw [hs] at h
      simp only [Option.map_some, Option.some.injEq, Prod.mk.injEq] at h
      obtain ⟨h1, h2⟩ := h
      subst h1; subst h2
      obtain ⟨hinv, hb⟩ := stepIn_acct_only (fun op => by simp) hs hi
      exact ⟨hinv, fun j x hx => ⟨x, by rw [hb]; exact hx, rfl, Int.le_refl _, Int.le_refl _⟩⟩
  | endDelev ai signer recordOk =>
    simp only [WState.stepInE] at h
    cases hs : w.stepIn tx i (.endDelev ai signer recordOk) with
    | none => rw [hs] at h; cases h
    | some w1 =>
      rw [hs] at h
      simp only [Option.map_some, Option.some.injEq, Prod.mk.injEq] at h
      obtain ⟨h1, h2⟩ := h
      subst h1; subst h2
      obtain ⟨hinv, hb⟩ := stepIn_acct_only (fun op => by simp) hs hi
      exact ⟨hinv, fun j x hx => ⟨x, by rw [hb]; exact hx, rfl, Int.le_refl _, Int.le_refl _⟩⟩

theorem runFromE_good (tx : List TOp) : ∀ (rest : List TOp) (i : Nat) (w w' : WState) (es es' : List Eff) (g : Ghost),
    WState.runFromE tx i rest w es = some (w', es') → SInv w → (∀ t ∈ rest, t.Ok) →
    ∃ e, es' = es ++ e ∧ Good w (g.apply es) w' (g.apply es') := by
  intro rest
  induction rest with
  | nil =>
    intro i w w' es es' g h hi _
    simp only [WState.runFromE] at h
    injection h with h; injection h with h1 h2; subst h1; subst h2
    exact ⟨[], by simp, good_refl hi⟩
  | cons op rest ih =>
    intro i w w' es es' g h hi hok
    simp only [WState.runFromE] at h
    split at h
    · rename_i w1 e1 hs
      have hg1 := stepInE_good (g.apply es) hs hi (hok op (List.mem_cons_self ..))
      rw [← apply_append] at hg1
      obtain ⟨e, he, hg2⟩ := ih (i + 1) w1 w' (es ++ e1) es' g h hg1.1 (fun t ht => hok t (List.mem_cons_of_mem _ ht))
      exact ⟨e1 ++ e, by rw [he, List.append_assoc], good_trans hg1 hg2⟩
    · cases h

/-- **one transaction**, committed or rolled back -/
theorem runTxE_good (w : WState) (g : Ghost) (tx : List TOp) (hi : SInv w) (hok : ∀ t ∈ tx, t.Ok) :
    Good w g (w.runTxE g tx).1 (w.runTxE g tx).2 := by
  unfold WState.runTxE
  cases h : WState.runFromE tx 0 tx w [] with
  | none => exact good_refl hi
  | some r =>
    obtain ⟨w', es⟩ := r
    obtain ⟨e, he, hg⟩ := runFromE_good tx tx 0 w w' [] es g h hi hok
    simpa [Ghost.apply] using hg

/-- **every sequence of transactions** -/
theorem runTxsE_good : ∀ (txs : List (List TOp)) (w : WState) (g : Ghost), SInv w → (∀ tx ∈ txs, ∀ t ∈ tx, t.Ok) →
    Good w g (w.runTxsE g txs).1 (w.runTxsE g txs).2 := by
  intro txs
  induction txs with
  | nil => intro w g hi _; exact good_refl hi
  | cons tx rest ih =>
    intro w g hi hok
    simp only [WState.runTxsE]
    have h1 := runTxE_good w g tx hi (hok tx (List.mem_cons_self ..))
    exact good_trans h1 (ih _ _ h1.1 (fun t ht => hok t (List.mem_cons_of_mem _ ht)))

/-- the ledger-instrumented transaction is the transaction -/
theorem runFromE_fst (tx : List TOp) : ∀ (rest : List TOp) (i : Nat) (w : WState) (es : List Eff),
    (WState.runFromE tx i rest w es).map (·.1) = WState.runFrom tx i rest w := by
  intro rest
  induction rest with
  | nil => intro i w es; rfl
  | cons op rest ih =>
    intro i w es
    simp only [WState.runFromE, WState.runFrom]
    cases op with
    | ix o =>
      simp only [WState.stepInE, WState.stepIn]
      cases hs : w.step? o with
      | none => rfl
      | some w1 =>
        simp only [Option.map_some]
        have : (w.stepE o).1 = w1 := by rw [stepE_fst, ← step?_some hs]
        rw [← this]
        exact ih (i + 1) _ _
    | startFlash ai signer endIdx =>
      simp only [WState.stepInE]
      cases hs : w.stepIn tx i (.startFlash ai signer endIdx) with
      | none => rfl
      | some w1 => exact ih (i + 1) _ _
    | endFlash ai signer =>
      simp only [WState.stepInE]
      cases hs : w.stepIn tx i (.endFlash ai signer) with
      | none => rfl
      | some w1 => exact ih (i + 1) _ _
    | startLiq ai receiver recordOk =>
      simp only [WState.stepInE]
      cases hs : w.stepIn tx i (.startLiq ai receiver recordOk) with
      | none => rfl
      | some w1 => exact ih (i + 1) _ _
    | endLiq ai signer recordOk walletOk feeMax =>
      simp only [WState.stepInE]
      cases hs : w.stepIn tx i (.endLiq ai signer recordOk walletOk feeMax) with
      | none => rfl
      | some w1 => exact ih (i + 1) _ _
    | startDelev ai signer recordOk =>
      simp only [WState.stepInE]
      cases hs : w.stepIn tx i (.startDelev ai signer recordOk) with
      | none => rfl
      | some w1 => exact ih (i + 1) _ _
    | endDelev ai signer recordOk =>
      simp only [WState.stepInE]
      cases hs : w.stepIn tx i (.endDelev ai signer recordOk) with
      | none => rfl
      | some w1 => exact ih (i + 1) _ _

theorem runTxE_fst (w : WState) (g : Ghost) (tx : List TOp) : (w.runTxE g tx).1 = (w.runTx tx).getD w := by
  unfold WState.runTxE WState.runTx
  rw [← runFromE_fst tx tx 0 w []]
  cases WState.runFromE tx 0 tx w [] with
  | none => rfl
  | some r => rfl

/-! ### the solvency invariant holds at every position of a committed transaction -/

theorem stepIn_sinv {tx : List TOp} {i : Nat} {t : TOp} {w w' : WState} (h : w.stepIn tx i t = some w') (hi : SInv w) (hok : t.Ok) : SInv w' := by
  cases t with
  | ix op =>
    simp only [WState.stepIn] at h
    have e : w' = (w.stepE op).1 := by rw [stepE_fst]; exact step?_some h
    rw [e]
    exact (stepE_sound w ⟨fun _ => 0, fun _ => 0, fun _ => 0⟩ op hi hok).1
  | startFlash ai signer endIdx => exact (stepIn_acct_only (fun op => by simp) h hi).1
  | endFlash ai signer => exact (stepIn_acct_only (fun op => by simp) h hi).1
  | startLiq ai receiver recordOk => exact (stepIn_acct_only (fun op => by simp) h hi).1
  | endLiq ai signer recordOk walletOk feeMax => exact (stepIn_acct_only (fun op => by simp) h hi).1
  | startDelev ai signer recordOk => exact (stepIn_acct_only (fun op => by simp) h hi).1
  | endDelev ai signer recordOk => exact (stepIn_acct_only (fun op => by simp) h hi).1

/-- every instruction of a committed transaction was accepted on the state the transaction had reached before it, and that state
    satisfies the invariant -/
theorem runFrom_at_sinv (tx : List TOp) (w0 : WState) : ∀ (rest : List TOp) (i : Nat) (w w' : WState), tx.drop i = rest →
    w0.before tx i = some w → WState.runFrom tx i rest w = some w' → SInv w → (∀ t ∈ rest, t.Ok) →
    ∀ (j : Nat) (t : TOp), i ≤ j → tx[j]? = some t →
      ∃ (wj wj' : WState), w0.before tx j = some wj ∧ SInv wj ∧ wj.stepIn tx j t = some wj' := by
  intro rest
  induction rest with
  | nil =>
    intro i w w' hd _ h hi _ j t hij hj
    have hlen : tx.length ≤ i := by
      rcases Nat.lt_or_ge i tx.length with h1 | h1
      · have : (tx.drop i).length = tx.length - i := List.length_drop
        rw [hd] at this; simp at this; omega
      · exact h1
    have : j < tx.length := by
      rcases Nat.lt_or_ge j tx.length with h1 | h1
      · exact h1
      · rw [List.getElem?_eq_none h1] at hj; cases hj
    omega
  | cons op rest ih =>
    intro i w w' hd hbef h hi hok j t hij hj
    obtain ⟨hti, hd'⟩ := drop_cons_facts hd
    simp only [WState.runFrom] at h
    split at h
    · rename_i w1 h1
      rcases Nat.lt_or_ge i j with hlt | hge
      · have hlt' : i < tx.length := by
          rcases Nat.lt_or_ge i tx.length with h2 | h2
          · exact h2
          · rw [List.getElem?_eq_none h2] at hti; cases hti
        have htake : tx.take (i + 1) = tx.take i ++ [op] := by
          rw [List.take_succ, hti]; rfl
        have hbef1 : w0.before tx (i + 1) = some w1 := by
          unfold WState.before at hbef ⊢
          rw [htake]
          apply runFrom_snoc tx (tx.take i) 0 w0 w w1 op hbef
          have : (tx.take i).length = i := by simp [List.length_take]; omega
          rw [this, Nat.zero_add]; exact h1
        exact ih (i + 1) w1 w' hd' hbef1 h (stepIn_sinv h1 hi (hok op (List.mem_cons_self ..)))
          (fun t ht => hok t (List.mem_cons_of_mem _ ht)) j t (by omega) hj
      · have : j = i := by omega
        subst this
        rw [hti] at hj
        injection hj with hj
        subst hj
        exact ⟨w, w1, hbef, hi, h1⟩
    · cases h

/-! ### the shape of every slot array runs through transactions too -/

theorem setAcct_shape {w : WState} {ai : Nat} {a a' : AcctV} (hw : WShape w) (ha : w.accts[ai]? = some a) (hs : a'.slots = a.slots) :
    WShape { w with accts := w.accts.set ai a' } := by
  intro x hx
  simp only at hx
  rcases List.mem_or_eq_of_mem_set hx with hx | hx
  · exact hw x hx
  · rw [hx, hs]; exact hw a (List.mem_of_getElem? ha)

theorem stepIn_shape {tx : List TOp} {i : Nat} {t : TOp} {w w' : WState} (h : w.stepIn tx i t = some w') (hw : WShape w) : WShape w' := by
  cases t with
  | ix op =>
    simp only [WState.stepIn] at h
    rw [step?_some h]; exact step_shape w op hw
  | startFlash ai signer endIdx =>
    simp only [WState.stepIn] at h
    split at h
    · rename_i a ha
      split at h
      · injection h with h; subst h; exact setAcct_shape hw ha rfl
      · cases h
    · cases h
  | endFlash ai signer =>
    simp only [WState.stepIn] at h
    split at h
    · rename_i a ha
      split at h
      · injection h with h; subst h; exact setAcct_shape hw ha rfl
      · cases h
    · cases h
  | startLiq ai receiver recordOk =>
    simp only [WState.stepIn] at h
    split at h
    · rename_i a ha
      split at h
      · injection h with h; subst h; exact setAcct_shape hw ha rfl
      · cases h
    · cases h
  | endLiq ai signer recordOk walletOk feeMax =>
    simp only [WState.stepIn] at h
    split at h
    · rename_i a ha
      split at h
      · injection h with h; subst h; exact setAcct_shape hw ha rfl
      · cases h
    · cases h
  | startDelev ai signer recordOk =>
    simp only [WState.stepIn] at h
    split at h
    · rename_i a ha
      split at h
      · injection h with h; subst h; exact setAcct_shape hw ha rfl
      · cases h
    · cases h
  | endDelev ai signer recordOk =>
    simp only [WState.stepIn] at h
    split at h
    · rename_i a ha
      split at h
      · injection h with h; subst h; exact setAcct_shape hw ha rfl
      · cases h
    · cases h

theorem runFrom_shape (tx : List TOp) : ∀ (rest : List TOp) (i : Nat) (w w' : WState),
    WState.runFrom tx i rest w = some w' → WShape w → WShape w' := by
  intro rest
  induction rest with
  | nil => intro i w w' h hi; simp only [WState.runFrom] at h; injection h with h; subst h; exact hi
  | cons op rest ih =>
    intro i w w' h hi
    simp only [WState.runFrom] at h
    split at h
    · rename_i w1 h1; exact ih (i + 1) w1 w' h (stepIn_shape h1 hi)
    · cases h

theorem runTxs_shape : ∀ (txs : List (List TOp)) (w : WState), WShape w → WShape (w.runTxs txs) := by
  intro txs
  induction txs with
  | nil => intro w h; exact h
  | cons tx rest ih =>
    intro w hi
    simp only [WState.runTxs]
    apply ih
    cases hr : w.runTx tx with
    | none => exact hi
    | some w1 => exact runFrom_shape tx tx 0 w w1 hr hi

end Mfi.World
