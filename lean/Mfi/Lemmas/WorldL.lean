/-
  Specification-extraction lemmas for the whole-instruction model (`Mfi/Model/World.lean`): what a successful
  `World.deposit / withdraw / borrow / repay / closeBalance` went through, stage by stage. The property theorems of
  C02 C04 C06 C08 C10 C12 C14 C16 C17 about whole instructions are corollaries of these.
-/
import Mfi.Model.World
import Mfi.Lemmas.ResL
namespace Mfi.World
open Mfi Mfi.Fx Mfi.Gen Mfi.Gen.Acc

set_option linter.unusedSimpArgs false

theorem runChecks_ok {env : Env} : ∀ {l : List (Chk × Nat)}, runChecks env l = .ok () → ∀ p ∈ l, evalChk env p.1 = some true
  | [], _, p, hp => by cases hp
  | (c, e) :: rest, h, p, hp => by
    unfold runChecks at h
    split at h
    · rename_i ht
      rcases List.mem_cons.1 hp with rfl | hp
      · exact ht
      · exact runChecks_ok h p hp
    · cases h
    · cases h

/-- the first check of the list fails ⇒ that error, exactly -/
theorem runChecks_head_fails {env : Env} {c : Chk} {e : Nat} {rest : List (Chk × Nat)} (h : evalChk env c = some false) :
    runChecks env ((c, e) :: rest) = .error (.err e) := by
  simp [runChecks, h]

/-- what the account checks shared by the five user instructions establish (regenerated table, interpreted) -/
structure Entitled (c : Ctx) (allowReceivership : Bool) : Prop where
  notPaused : c.g.paused = false
  acctGroup : c.a.group = c.g.key
  notFrozen : Auth.notFrozenForAuthority (acctView c.a.authority c.a.flags) c.signer = true
  signer : Auth.isSignerAuthorized (acctView c.a.authority c.a.flags) c.g.admin c.signer allowReceivership = true
  bankGroup : c.b.group = c.g.key
  ownTag : tagIs .marginfi c.b.books.assetTag = true

theorem borrow_checks {c : Ctx} (h : runChecks c.env (checks .LendingAccountBorrow) = .ok ()) :
    Entitled c false ∧ c.b.liquidityVault = c.vaultKey ∧ hasFlag c.b.books.flags TOKENLESS_REPAYMENTS_ALLOWED = false := by
  have h' := runChecks_ok h
  simp only [checks, List.forall_mem_cons, List.not_mem_nil, false_imp_iff, implies_true, and_true] at h'
  simp [evalChk, Ctx.env, flBit, flagsOf, AccV.key] at h'
  obtain ⟨a, b, c1, d, e, f, g, i⟩ := h'
  exact ⟨⟨a, b, c1, d, e, g⟩, f, i⟩

theorem deposit_checks {c : Ctx} (h : runChecks c.env (checks .LendingAccountDeposit) = .ok ()) :
    Entitled c false ∧ c.b.liquidityVault = c.vaultKey ∧ hasFlag c.b.books.flags TOKENLESS_REPAYMENTS_ALLOWED = false := by
  have h' := runChecks_ok h
  simp only [checks, List.forall_mem_cons, List.not_mem_nil, false_imp_iff, implies_true, and_true] at h'
  simp [evalChk, Ctx.env, flBit, flagsOf, AccV.key] at h'
  obtain ⟨a, b, c1, d, e, f, g, i⟩ := h'
  exact ⟨⟨a, b, c1, d, e, g⟩, f, i⟩

theorem withdraw_checks {c : Ctx} (h : runChecks c.env (checks .LendingAccountWithdraw) = .ok ()) :
    Entitled c true ∧ c.b.liquidityVault = c.vaultKey ∧
    (hasFlag c.a.flags ACCOUNT_IN_RECEIVERSHIP = false ∨ c.b.weightInitZero = false) := by
  have h' := runChecks_ok h
  simp only [checks, List.forall_mem_cons, List.not_mem_nil, false_imp_iff, implies_true, and_true] at h'
  simp [evalChk, Ctx.env, flBit, flagsOf, AccV.key] at h'
  obtain ⟨a, b, c1, d, e, f, g, i⟩ := h'
  exact ⟨⟨a, b, c1, d, e, g⟩, f, i⟩

theorem repay_checks {c : Ctx} (h : runChecks c.env (checks .LendingAccountRepay) = .ok ()) :
    Entitled c true ∧ c.b.liquidityVault = c.vaultKey := by
  have h' := runChecks_ok h
  simp only [checks, List.forall_mem_cons, List.not_mem_nil, false_imp_iff, implies_true, and_true] at h'
  simp [evalChk, Ctx.env, flBit, flagsOf, AccV.key] at h'
  obtain ⟨a, b, c1, d, e, f, g⟩ := h'
  exact ⟨⟨a, b, c1, d, e, g⟩, f⟩

theorem close_checks {c : Ctx} (h : runChecks c.env (checks .LendingAccountCloseBalance) = .ok ()) :
    Entitled c false := by
  have h' := runChecks_ok h
  simp only [checks, List.forall_mem_cons, List.not_mem_nil, false_imp_iff, implies_true, and_true] at h'
  simp [evalChk, Ctx.env, flBit, flagsOf, AccV.key] at h'
  obtain ⟨a, b, c1, d, e, g⟩ := h'
  exact ⟨a, b, c1, d, e, g⟩

/-- the protocol pause is the FIRST check of all five: a paused group answers `ProtocolPaused`, whatever else is wrong -/
theorem paused_first (c : Ctx) (hp : c.g.paused = true) :
    ∀ s ∈ [S.LendingAccountDeposit, .LendingAccountWithdraw, .LendingAccountBorrow, .LendingAccountRepay, .LendingAccountCloseBalance],
      runChecks c.env (checks s) = .error (.err E.ProtocolPaused) := by
  intro s hs
  simp only [List.mem_cons, List.not_mem_nil, or_false] at hs
  rcases hs with rfl | rfl | rfl | rfl | rfl <;>
    simp [checks, runChecks, evalChk, Ctx.env, hp, E.ProtocolPaused]

theorem bankState_ok {c : Ctx} {k : Gate.Kind} (h : bankState c k = .ok ()) :
    ∃ s, Gate.OpState.ofInt c.b.opState = some s ∧ Gate.validateBankState s k = none := by
  unfold bankState at h
  split at h
  · cases h
  · rename_i s hs
    split at h
    · rename_i hv; exact ⟨s, hs, hv⟩
    · cases h

/-! ### stage-by-stage extraction -/

theorem balAt_ok {slots : List Account.Slot} {i : Nat} {x : Bank.Balance} (h : balAt slots i = .ok x) :
    ∃ s, slots[i]? = some s ∧ x = toBal s := by
  unfold balAt at h
  split at h
  · rename_i s hs; injection h with h; exact ⟨s, hs, h.symm⟩
  · cases h

/-- a successful `World.borrow` -/
structure BorrowOk (c : Ctx) (amount : Int) (o : Out) : Prop where
  checks : Entitled c false ∧ c.b.liquidityVault = c.vaultKey ∧ hasFlag c.b.books.flags TOKENLESS_REPAYMENTS_ALLOWED = false
  flags : flag c ACCOUNT_DISABLED = false ∧ flag c ACCOUNT_IN_RECEIVERSHIP = false
  core : ∃ b slots i x x', Bank.accrueInterest c.b.books c.b.ir c.now = .ok b ∧
      Account.validateAssetTags c.a.slots b.assetTag = .ok () ∧
      bankState c .failsIfPausedOrReduceState = .ok () ∧
      Account.findOrCreate c.a.slots c.b.key b.assetTag c.now = .ok (slots, i) ∧
      slots[i]? = some x ∧
      borrowCore c.ixEnv b (toBal x) amount = .ok (o.books, x', o.tokens) ∧
      o.slots = writeSlot c slots i x'
  health : initHealth c o.slots o.books = .ok ()
  window : o.window = c.g.window

theorem borrow_ok {c : Ctx} {amount : Int} {o : Out} (h : borrow c amount = .ok o) : BorrowOk c amount o := by
  unfold borrow at h
  obtain ⟨_, hc, h⟩ := Res.bind_ok h
  obtain ⟨_, hf, h⟩ := Res.bind_ok h
  obtain ⟨b, hb, h⟩ := Res.bind_ok h
  obtain ⟨_, ht, h⟩ := Res.bind_ok h
  obtain ⟨_, hs, h⟩ := Res.bind_ok h
  obtain ⟨⟨slots, i⟩, hfc, h⟩ := Res.bind_ok h
  dsimp only at h
  obtain ⟨x, hx, h⟩ := Res.bind_ok h
  obtain ⟨⟨b', x', tok⟩, hcore, h⟩ := Res.bind_ok h
  dsimp only at h
  obtain ⟨_, hh, h⟩ := Res.bind_ok h
  injection h with h
  subst h
  have hf' := Bank.chk_ok hf
  simp only [Bool.and_eq_true, Bool.not_eq_true'] at hf'
  have hx' : ∃ s, slots[i]? = some s ∧ x = toBal s := balAt_ok hx
  obtain ⟨s, hs', rfl⟩ := hx'
  exact ⟨borrow_checks hc, hf', ⟨b, slots, i, s, x', hb, ht, hs, hfc, hs', hcore, rfl⟩, hh, rfl⟩

/-- a successful `World.withdraw` -/
structure WithdrawOk (c : Ctx) (amount : Int) (all : Bool) (o : Out) : Prop where
  checks : Entitled c true ∧ c.b.liquidityVault = c.vaultKey ∧
    (hasFlag c.a.flags ACCOUNT_IN_RECEIVERSHIP = false ∨ c.b.weightInitZero = false)
  flags : flag c ACCOUNT_DISABLED = false
  state : bankState c .failsInPausedState = .ok ()
  core : ∃ price b i s x' pre, withdrawPrice c = .ok price ∧
      Bank.accrueInterest c.b.books c.b.ir c.now = .ok b ∧ findSlot c = .ok (i, s) ∧
      withdrawCore c b (toBal s) amount all = .ok (o.books, x', pre) ∧
      o.tokens = withdrawPays c o.books pre ∧
      withdrawWindow c price o.books o.tokens = .ok o.window ∧
      o.slots = writeSlot c c.a.slots i x'
  health : withdrawHealth c o.slots o.books = .ok ()

theorem withdraw_ok {c : Ctx} {amount : Int} {all : Bool} {o : Out} (h : withdraw c amount all = .ok o) :
    WithdrawOk c amount all o := by
  unfold withdraw at h
  obtain ⟨_, hc, h⟩ := Res.bind_ok h
  obtain ⟨_, hf, h⟩ := Res.bind_ok h
  obtain ⟨_, hs, h⟩ := Res.bind_ok h
  obtain ⟨price, hp, h⟩ := Res.bind_ok h
  obtain ⟨b, hb, h⟩ := Res.bind_ok h
  obtain ⟨⟨i, s⟩, hfs, h⟩ := Res.bind_ok h
  dsimp only at h
  obtain ⟨⟨b', x', pre⟩, hcore, h⟩ := Res.bind_ok h
  dsimp only at h
  obtain ⟨w, hw, h⟩ := Res.bind_ok h
  obtain ⟨_, hh, h⟩ := Res.bind_ok h
  injection h with h
  subst h
  have hf' := Bank.chk_ok hf
  simp only [Bool.not_eq_true'] at hf'
  exact ⟨withdraw_checks hc, hf', hs, ⟨price, b, i, s, x', pre, hp, hb, hfs, hcore, rfl, hw, rfl⟩, hh⟩

/-- in receivership a withdrawal is priced, and the price is positive -/
theorem withdrawPrice_pos {c : Ctx} {p : Int} (hr : flag c ACCOUNT_IN_RECEIVERSHIP = true) (h : withdrawPrice c = .ok p) : 0 < p := by
  unfold withdrawPrice at h
  rw [if_pos hr] at h
  unfold receivershipPrice at h
  split at h
  · cases h
  · obtain ⟨q, _, h⟩ := Res.bind_ok h
    split at h
    · rename_i hpos; injection h with h; subst h; exact hpos
    · cases h

/-- a successful `World.deposit` -/
structure DepositOk (c : Ctx) (amount : Int) (upTo : Bool) (o : Out) : Prop where
  checks : Entitled c false ∧ c.b.liquidityVault = c.vaultKey ∧ hasFlag c.b.books.flags TOKENLESS_REPAYMENTS_ALLOWED = false
  tags : Account.validateAssetTags c.a.slots c.b.books.assetTag = .ok ()
  state : bankState c .failsIfPausedOrReduceState = .ok ()
  flags : flag c ACCOUNT_DISABLED = false ∧ flag c ACCOUNT_IN_RECEIVERSHIP = false
  core : ∃ b amt, Bank.accrueInterest c.b.books c.b.ir c.now = .ok b ∧ Ix.depositAmt b amount upTo = .ok amt ∧
      (if amt = 0 then o.slots = c.a.slots ∧ o.books = b ∧ o.tokens = 0
       else ∃ slots i s x', Account.findOrCreate c.a.slots c.b.key b.assetTag c.now = .ok (slots, i) ∧ slots[i]? = some s ∧
              Ix.depositCore c.ixEnv b (some (toBal s)) amt = .ok (o.books, x', o.tokens) ∧
              o.slots = writeSlot c slots i (x'.getD (toBal s)))
  window : o.window = c.g.window

theorem deposit_ok {c : Ctx} {amount : Int} {upTo : Bool} {o : Out} (h : deposit c amount upTo = .ok o) :
    DepositOk c amount upTo o := by
  unfold deposit at h
  obtain ⟨_, hc, h⟩ := Res.bind_ok h
  obtain ⟨_, ht, h⟩ := Res.bind_ok h
  obtain ⟨_, hs, h⟩ := Res.bind_ok h
  obtain ⟨_, hf, h⟩ := Res.bind_ok h
  obtain ⟨b, hb, h⟩ := Res.bind_ok h
  obtain ⟨amt, ha, h⟩ := Res.bind_ok h
  have hf' := Bank.chk_ok hf
  simp only [Bool.and_eq_true, Bool.not_eq_true'] at hf'
  split at h
  · rename_i h0
    injection h with h
    subst h
    exact ⟨deposit_checks hc, ht, hs, hf', ⟨b, amt, hb, ha, by simp [h0]⟩, rfl⟩
  · rename_i h0
    obtain ⟨⟨slots, i⟩, hfc, h⟩ := Res.bind_ok h
    dsimp only at h
    obtain ⟨x, hx, h⟩ := Res.bind_ok h
    obtain ⟨⟨b', x', tok⟩, hcore, h⟩ := Res.bind_ok h
    injection h with h
    subst h
    have hx' : ∃ s, slots[i]? = some s ∧ x = toBal s := balAt_ok hx
    obtain ⟨s, hs', rfl⟩ := hx'
    exact ⟨deposit_checks hc, ht, hs, hf', ⟨b, amt, hb, ha, by simp only [h0, if_false]; exact ⟨slots, i, s, x', hfc, hs', hcore, rfl⟩⟩, rfl⟩

/-- a successful `World.repay` -/
structure RepayOk (c : Ctx) (amount : Int) (all : Bool) (o : Out) : Prop where
  checks : Entitled c true ∧ c.b.liquidityVault = c.vaultKey
  flags : flag c ACCOUNT_DISABLED = false
  state : bankState c .failsInPausedState = .ok ()
  core : ∃ b i s b' x' post, Bank.accrueInterest c.b.books c.b.ir c.now = .ok b ∧ findSlot c = .ok (i, s) ∧
      repayCore c b (toBal s) amount all = .ok (b', x', post) ∧
      repayTokens c b' post all = .ok o.tokens ∧
      o.books = { b' with flags := repayFlags b' } ∧
      o.slots = writeSlot c c.a.slots i x'
  window : o.window = c.g.window

theorem repay_ok {c : Ctx} {amount : Int} {all : Bool} {o : Out} (h : repay c amount all = .ok o) : RepayOk c amount all o := by
  unfold repay at h
  obtain ⟨_, hc, h⟩ := Res.bind_ok h
  obtain ⟨_, hf, h⟩ := Res.bind_ok h
  obtain ⟨_, hs, h⟩ := Res.bind_ok h
  obtain ⟨b, hb, h⟩ := Res.bind_ok h
  obtain ⟨⟨i, s⟩, hfs, h⟩ := Res.bind_ok h
  dsimp only at h
  obtain ⟨⟨b', x', post⟩, hcore, h⟩ := Res.bind_ok h
  dsimp only at h
  obtain ⟨tok, htok, h⟩ := Res.bind_ok h
  injection h with h
  subst h
  have hf' := Bank.chk_ok hf
  simp only [Bool.not_eq_true'] at hf'
  exact ⟨repay_checks hc, hf', hs, ⟨b, i, s, b', x', post, hb, hfs, hcore, htok, rfl, rfl⟩, rfl⟩

/-- a successful `World.closeBalance` -/
structure CloseOk (c : Ctx) (o : Out) : Prop where
  checks : Entitled c false
  flags : flag c ACCOUNT_DISABLED = false
  core : ∃ b i s x', Bank.accrueInterest c.b.books c.b.ir c.now = .ok b ∧ findSlot c = .ok (i, s) ∧
      Bank.closeBalanceOp b (toBal s) c.now = .ok (o.books, x') ∧ o.slots = writeSlot c c.a.slots i x'
  rest : o.tokens = 0 ∧ o.window = c.g.window

theorem close_ok {c : Ctx} {o : Out} (h : closeBalance c = .ok o) : CloseOk c o := by
  unfold closeBalance at h
  obtain ⟨_, hc, h⟩ := Res.bind_ok h
  obtain ⟨_, hf, h⟩ := Res.bind_ok h
  obtain ⟨b, hb, h⟩ := Res.bind_ok h
  obtain ⟨⟨i, s⟩, hfs, h⟩ := Res.bind_ok h
  dsimp only at h
  obtain ⟨⟨b', x'⟩, hcore, h⟩ := Res.bind_ok h
  injection h with h
  subst h
  have hf' := Bank.chk_ok hf
  simp only [Bool.not_eq_true'] at hf'
  exact ⟨close_checks hc, hf', ⟨b, i, s, x', hb, hfs, hcore, rfl⟩, rfl, rfl⟩

end Mfi.World
