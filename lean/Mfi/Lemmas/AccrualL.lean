/-
  Accrual conservation (shared by C01 and C06): closed forms of the two per-period payment functions, the fee split, and
  `accrual_conserves` — what an accrual credits to depositors and books as fees is less than what it charges the
  borrowers, up to an explicit allowance. Pure integer inequalities through every floor of
  `calc_interest_rate_accrual_state_changes`. (Moved out of Props/C01.lean so that C06 can state the clause too; the
  property files re-state the theorem and prove it from here.)
-/
import Mfi.Model.Bank
import Mfi.Lemmas.FxL
import Mfi.Lemmas.ResL
import Mfi.Lemmas.BankL
import Mfi.Props.C18
import Mathlib.Tactic.Linarith
import Mathlib.Tactic.Ring
import Mathlib.Tactic.Positivity

namespace Mfi.AccrualL
open Mfi Mfi.Fx Mfi.Bank Mfi.Interest Mfi.Gen

def YEAR : Int := 31536000
theorem SPY_eq : SECONDS_PER_YEAR = YEAR * ONE := by decide

/-- the arithmetic core of accrual conservation (pure integer inequalities) -/
theorem accrual_core (S Y sa sl asv lsv ta tl dt L B base ur irA irL dA dL f1 f2 f3 a1 a2 a3 p1 p2 p3 : Int)
    (hS : 0 < S) (hY : 0 < Y) (hsa : 0 ≤ sa) (hsl : 0 ≤ sl) (hta : 0 < ta) (htl : 0 < tl) (hdt : 0 ≤ dt)
    (hirA : 0 ≤ irA) (hirL : 0 ≤ irL) (hbase : 0 ≤ base)
    (F1 : sa * asv ≤ (ta + 1) * S)
    (F2 : tl * S ≤ sl * lsv)
    (F3 : dA * S ≤ asv * irA)
    (F4 : lsv * irL ≤ (dL + 1) * S)
    (F5 : irA * Y ≤ L * dt)
    (F6 : B * dt < (irL + 1) * Y)
    (G1 : p1 * Y ≤ a1 * dt) (G2 : p2 * Y ≤ a2 * dt) (G3 : p3 * Y ≤ a3 * dt)
    (H1 : a1 * S ≤ tl * f1) (H2 : a2 * S ≤ tl * f2) (H3 : a3 * S ≤ tl * f3)
    (F8a : L * S ≤ base * ur) (F8b : ur * ta ≤ tl * S)
    (F9 : f1 + f2 + f3 + base ≤ B) :
    sa * dA + S * (p1 + p2 + p3) < sl * dL + irA + tl + sl := by
  have a1' : sa * dA * S ≤ (ta + 1) * irA * S := by
    have h1 : sa * (dA * S) ≤ sa * (asv * irA) := Int.mul_le_mul_of_nonneg_left F3 hsa
    have h2 : (sa * asv) * irA ≤ ((ta + 1) * S) * irA := Int.mul_le_mul_of_nonneg_right F1 hirA
    linarith only [h1, h2]
  have ha : sa * dA ≤ (ta + 1) * irA := le_of_mul_le_mul_right a1' hS
  have b1' : tl * irL * S ≤ (sl * dL + sl) * S := by
    have h1 : (tl * S) * irL ≤ (sl * lsv) * irL := Int.mul_le_mul_of_nonneg_right F2 hirL
    have h2 : sl * (lsv * irL) ≤ sl * ((dL + 1) * S) := Int.mul_le_mul_of_nonneg_left F4 hsl
    linarith only [h1, h2]
  have hb : tl * irL ≤ sl * dL + sl := le_of_mul_le_mul_right b1' hS
  have c0 : L * ta * S ≤ base * tl * S := by
    have h1 : (L * S) * ta ≤ (base * ur) * ta := Int.mul_le_mul_of_nonneg_right F8a (le_of_lt hta)
    have h2 : base * (ur * ta) ≤ base * (tl * S) := Int.mul_le_mul_of_nonneg_left F8b hbase
    linarith only [h1, h2]
  have hc0 : L * ta ≤ base * tl := le_of_mul_le_mul_right c0 hS
  have c1 : ta * (irA * Y) ≤ ta * (L * dt) := Int.mul_le_mul_of_nonneg_left F5 (le_of_lt hta)
  have c2 : S * (p1 * Y) ≤ dt * (tl * f1) := by
    have k1 : S * (p1 * Y) ≤ S * (a1 * dt) := Int.mul_le_mul_of_nonneg_left G1 (le_of_lt hS)
    have k2 : dt * (a1 * S) ≤ dt * (tl * f1) := Int.mul_le_mul_of_nonneg_left H1 hdt
    linarith only [k1, k2]
  have c3 : S * (p2 * Y) ≤ dt * (tl * f2) := by
    have k1 : S * (p2 * Y) ≤ S * (a2 * dt) := Int.mul_le_mul_of_nonneg_left G2 (le_of_lt hS)
    have k2 : dt * (a2 * S) ≤ dt * (tl * f2) := Int.mul_le_mul_of_nonneg_left H2 hdt
    linarith only [k1, k2]
  have c4 : S * (p3 * Y) ≤ dt * (tl * f3) := by
    have k1 : S * (p3 * Y) ≤ S * (a3 * dt) := Int.mul_le_mul_of_nonneg_left G3 (le_of_lt hS)
    have k2 : dt * (a3 * S) ≤ dt * (tl * f3) := Int.mul_le_mul_of_nonneg_left H3 hdt
    linarith only [k1, k2]
  have c5 : dt * (L * ta) ≤ dt * (base * tl) := Int.mul_le_mul_of_nonneg_left hc0 hdt
  have c6 : tl * dt * (f1 + f2 + f3 + base) ≤ tl * dt * B := Int.mul_le_mul_of_nonneg_left F9 (by positivity)
  have c7 : tl * (B * dt) < tl * ((irL + 1) * Y) := Int.mul_lt_mul_of_pos_left F6 htl
  have hc : (ta * irA + S * (p1 + p2 + p3)) * Y < (tl * irL + tl) * Y := by linarith only [c1, c2, c3, c4, c5, c6, c7]
  have hc' : ta * irA + S * (p1 + p2 + p3) < tl * irL + tl := lt_of_mul_lt_mul_right hc (le_of_lt hY)
  linarith only [ha, hb, hc']

/-! ### closed forms of the two per-period functions -/

/-- `calc_accrued_interest_payment_per_period`: v ↦ v + ⌊v·⌊apr·dt/year⌋⌋ -/
theorem accrued_closed {apr dt v r : Int} (hapr : 0 ≤ apr) (hdt : 0 ≤ dt)
    (h : accruedPerPeriod apr dt v = some r) : r = v + v * (apr * dt / YEAR) / ONE := by
  unfold accruedPerPeriod at h
  obtain ⟨a, h1, h⟩ := Mfi.opt_bind_some h
  obtain ⟨irp, h2, h⟩ := Mfi.opt_bind_some h
  obtain ⟨f, h3, h⟩ := Mfi.opt_bind_some h
  obtain ⟨ea, _, _⟩ := mul?_some h1
  obtain ⟨_, ei, _, _⟩ := div?_some h2
  obtain ⟨ef, _, _⟩ := add?_some h3
  obtain ⟨ev, _, _⟩ := mul?_some h
  have hONE := ONE_pos
  have ea' : a = apr * dt := by
    rw [ea]; unfold ofInt
    rw [← Int.mul_assoc]; exact Int.mul_ediv_cancel _ (by omega)
  have han : 0 ≤ a := by rw [ea']; exact Int.mul_nonneg hapr hdt
  have ei' : irp = apr * dt / YEAR := by
    rw [ei, tdiv_nonneg (Int.mul_nonneg han (by omega)), SPY_eq, ea']
    exact Int.mul_ediv_mul_of_pos_left _ _ hONE
  rw [ev, ef, ei', Int.mul_add, Int.add_comm (v * ONE), Int.add_mul_ediv_right _ _ (by omega : ONE ≠ 0), Int.add_comm]

/-- `calc_interest_payment_for_period`: ⌊⌊v·apr⌋·dt/year⌋ -/
theorem payment_closed {apr dt v p : Int} (hapr : 0 ≤ apr) (hdt : 0 ≤ dt) (hv : 0 ≤ v)
    (h : paymentForPeriod apr dt v = some p) : p = v * apr / ONE * dt / YEAR := by
  unfold paymentForPeriod at h
  split at h
  · rename_i h0
    injection h with h
    subst h0; subst h
    simp
  · obtain ⟨a, h1, h⟩ := Mfi.opt_bind_some h
    obtain ⟨c, h2, h⟩ := Mfi.opt_bind_some h
    obtain ⟨ea, _, _⟩ := mul?_some h1
    obtain ⟨ec, _, _⟩ := mul?_some h2
    obtain ⟨_, ep, _, _⟩ := div?_some h
    have hONE := ONE_pos
    have han : 0 ≤ a := by rw [ea]; exact Int.ediv_nonneg (Int.mul_nonneg hv hapr) (by omega)
    have ec' : c = a * dt := by
      rw [ec]; unfold ofInt
      rw [← Int.mul_assoc]; exact Int.mul_ediv_cancel _ (by omega)
    have hcn : 0 ≤ c := by rw [ec']; exact Int.mul_nonneg han hdt
    rw [ep, tdiv_nonneg (Int.mul_nonneg hcn (by omega)), SPY_eq, ec', ea]
    exact Int.mul_ediv_mul_of_pos_left _ _ hONE


theorem ediv_add_le (a b : Int) : a / ONE + b / ONE ≤ (a + b) / ONE := by
  have hONE := ONE_pos
  apply Int.le_ediv_of_mul_le hONE
  have h1 := Int.ediv_mul_le a (by omega : ONE ≠ 0)
  have h2 := Int.ediv_mul_le b (by omega : ONE ≠ 0)
  rw [Int.add_mul]; omega

theorem feeRate_closed {base rate fixed f : Int} (h : calcFeeRate base rate fixed = .ok f) :
    f = base * rate / ONE + fixed := by
  unfold calcFeeRate at h
  split at h
  · rename_i h0
    injection h with h
    subst h0; subst h
    simp
  · obtain ⟨m, hm, h⟩ := Mfi.Props.C18.bind_ok h
    have e1 := (mul?_some (Mfi.Props.C18.ofOpt_ok hm)).1
    have e2 := (add?_some (Mfi.Props.C18.ofOpt_ok h)).1
    rw [e2, e1]

/-- fee configuration is not negative (InterestRateConfig::validate / the fee state) -/
def FeesOk (c : IrCalc) : Prop :=
  0 ≤ c.insRate ∧ 0 ≤ c.grpRate ∧ 0 ≤ c.progRate ∧ 0 ≤ c.insFixed ∧ 0 ≤ c.grpFixed ∧ 0 ≤ c.progFixed

/-- the three fee rates together never exceed the spread between the borrowing and the base rate -/
theorem fees_le_spread {c : IrCalc} {ur : Int} {r : Rates} (h : calcInterestRate c ur = .ok r) (hb : 0 ≤ r.base) :
    r.groupFee + r.insuranceFee + r.protocolFee + r.base ≤ r.borrowing := by
  obtain ⟨feeIr, feeFixed, onePlus, b1, _, _, hfi, hff, hop, hb1, hbo, hg, hi, hp, _⟩ := Mfi.Props.C18.calc_spec h
  have eg := feeRate_closed hg
  have ei := feeRate_closed hi
  have ep := feeRate_closed hp
  have e1 := (add?_some hop).1
  have e2 := (mul?_some hb1).1
  have e3 := (add?_some hbo).1
  have hONE := ONE_pos
  have eb1 : b1 = r.base + r.base * feeIr / ONE := by
    rw [e2, e1, Int.mul_add, Int.mul_comm r.base ONE, Int.add_comm, Int.add_mul_ediv_left _ _ (by omega : ONE ≠ 0), Int.add_comm]
  have s1 := ediv_add_le (r.base * c.grpRate) (r.base * c.insRate)
  have s2 := ediv_add_le (r.base * c.grpRate + r.base * c.insRate) (r.base * (if c.addProgramFees then c.progRate else 0))
  have esum : r.base * c.grpRate + r.base * c.insRate + r.base * (if c.addProgramFees then c.progRate else 0) = r.base * feeIr := by
    rw [hfi]; ring
  rw [esum] at s2
  rw [eg, ei, ep, e3, eb1, hff]
  omega

/-- **accrual_conserves**: what an accrual adds to the depositors' claims and to the three fee buckets is
    less than what it adds to the borrowers' debt, plus an allowance made of one ulp of rate on the total
    debt (`tl`), one ulp of share value per debt share (`sl`) and the per-period lending rate (`irA`):
      sa·Δasv + Δfees·2^48  <  sl·Δlsv + ⌊lending·dt/year⌋ + tl + sl        (units of 2^-96 token). -/
theorem accrual_conserves {dt sa sl asv lsv : Int} {c : IrCalc} {ch : StateChanges}
    (hsa : 0 ≤ sa) (hsl : 0 ≤ sl) (hasv : 0 ≤ asv) (hlsv : 0 ≤ lsv) (hdt : 0 ≤ dt)
    (hta : 0 < sa * asv / ONE) (htl : 0 < sl * lsv / ONE) (hfees : FeesOk c)
    (hbase : ∀ r, calcInterestRate c (sl * lsv / ONE * ONE / (sa * asv / ONE)) = .ok r → 0 ≤ r.base)
    (h : accrualStateChanges dt (sa * asv / ONE) (sl * lsv / ONE) c asv lsv = .ok ch) :
    ∃ r, calcInterestRate c (sl * lsv / ONE * ONE / (sa * asv / ONE)) = .ok r ∧
      sa * (ch.newAsv - asv) + (ch.insuranceFees + ch.groupFees + ch.protocolFees) * ONE <
        sl * (ch.newLsv - lsv) + r.lending * dt / YEAR + sl * lsv / ONE + sl := by
  have hONE := ONE_pos
  have hY : (0 : Int) < YEAR := by decide
  unfold accrualStateChanges at h
  obtain ⟨ur, hur, h⟩ := Res.bind_ok h
  obtain ⟨r, hr, h⟩ := Res.bind_ok h
  obtain ⟨na, hna, h⟩ := Res.bind_ok h
  obtain ⟨nl, hnl, h⟩ := Res.bind_ok h
  obtain ⟨ins, hins, h⟩ := Res.bind_ok h
  obtain ⟨grp, hgrp, h⟩ := Res.bind_ok h
  obtain ⟨prot, hprot, h⟩ := Res.bind_ok h
  injection h with h
  subst h
  dsimp only
  set ta := sa * asv / ONE with eta
  set tl := sl * lsv / ONE with etl
  obtain ⟨_, eur, _, _⟩ := div?_some (Res.ofOpt_ok hur)
  rw [tdiv_nonneg (Int.mul_nonneg (le_of_lt htl) (by omega))] at eur
  subst eur
  obtain ⟨_, _, _, _, _, hl, _, _, _, _, _, _, _, _, l0, b0, g0, i0, p0⟩ := Mfi.Props.C18.calc_spec hr
  have eL := (mul?_some hl).1
  have hb := hbase r hr
  have ena := accrued_closed l0 hdt (Res.ofOpt_ok hna)
  have enl := accrued_closed b0 hdt (Res.ofOpt_ok hnl)
  have eins := payment_closed i0 hdt (le_of_lt htl) (Res.ofOpt_ok hins)
  have egrp := payment_closed g0 hdt (le_of_lt htl) (Res.ofOpt_ok hgrp)
  have eprot := payment_closed p0 hdt (le_of_lt htl) (Res.ofOpt_ok hprot)
  refine ⟨r, hr, ?_⟩
  -- name the intermediate quantities
  set irA := r.lending * dt / YEAR with eirA
  set irL := r.borrowing * dt / YEAR with eirL
  have hirA : 0 ≤ irA := Int.ediv_nonneg (Int.mul_nonneg l0 hdt) (by omega)
  have hirL : 0 ≤ irL := Int.ediv_nonneg (Int.mul_nonneg b0 hdt) (by omega)
  have core := accrual_core ONE YEAR sa sl asv lsv ta tl dt r.lending r.borrowing r.base (tl * ONE / ta) irA irL
    (asv * irA / ONE) (lsv * irL / ONE) r.groupFee r.insuranceFee r.protocolFee
    (tl * r.groupFee / ONE) (tl * r.insuranceFee / ONE) (tl * r.protocolFee / ONE)
    (tl * r.groupFee / ONE * dt / YEAR) (tl * r.insuranceFee / ONE * dt / YEAR) (tl * r.protocolFee / ONE * dt / YEAR)
    hONE hY hsa hsl hta htl hdt hirA hirL hb
    (by rw [eta]; exact le_of_lt (Int.lt_ediv_add_one_mul_self _ hONE))
    (by rw [etl]; exact Int.ediv_mul_le _ (by omega))
    (Int.ediv_mul_le _ (by omega))
    (le_of_lt (Int.lt_ediv_add_one_mul_self _ hONE))
    (by rw [eirA]; exact Int.ediv_mul_le _ (by omega))
    (by rw [eirL]; exact Int.lt_ediv_add_one_mul_self _ hY)
    (Int.ediv_mul_le _ (by omega)) (Int.ediv_mul_le _ (by omega)) (Int.ediv_mul_le _ (by omega))
    (Int.ediv_mul_le _ (by omega)) (Int.ediv_mul_le _ (by omega)) (Int.ediv_mul_le _ (by omega))
    (by rw [eL]; exact Int.ediv_mul_le _ (by omega))
    (Int.ediv_mul_le _ (by omega))
    (fees_le_spread hr hb)
  rw [ena, enl, eins, egrp, eprot]
  have e1 : asv + asv * irA / ONE - asv = asv * irA / ONE := by omega
  have e2 : lsv + lsv * irL / ONE - lsv = lsv * irL / ONE := by omega
  rw [e1, e2]
  linarith only [core]


/-! ### the slack -/


end Mfi.AccrualL
