/- Lemmas about the transaction-shape model (Mfi/Model/Tx.lean). -/
import Mfi.Model.Tx
import Mfi.Lemmas.ResL

namespace Mfi.Tx
open Mfi Mfi.Gen

theorem guard_ok {b : Bool} {c : Nat} (h : guard b c = .ok ()) : b = true := by
  unfold guard at h
  split at h
  · assumption
  · cases h

/-! ### validate_ix_first -/

theorem firstLoop_true {d : Nat} {wl : List (Nat × Nat)} :
    ∀ {l : List Ix}, firstLoop d wl true l = .ok () → ∀ y ∈ l, isStartOf d y = false := by
  intro l
  induction l with
  | nil => intro _ y hy; cases hy
  | cons ix rest ih =>
    intro h y hy
    unfold firstLoop at h
    by_cases hc : ix.prog = COMPUTE
    · simp only [hc, ↓reduceIte] at h
      rcases List.mem_cons.mp hy with rfl | hy
      · simp [isStartOf, hc, COMPUTE, MRGN]
      · exact ih h y hy
    · simp only [hc, ↓reduceIte] at h
      cases hd : ix.disc with
      | none => simp only [hd] at h; cases h
      | some x =>
        simp only [hd, ↓reduceIte] at h
        by_cases hs : ix.prog = MRGN ∧ x = d
        · simp only [hs, and_self, ↓reduceIte] at h; cases h
        · simp only [hs, ↓reduceIte] at h
          rcases List.mem_cons.mp hy with rfl | hy
          · simp only [isStartOf, hd, Bool.and_eq_false_imp, beq_iff_eq, Option.some.injEq]
            intro hp
            simp only [beq_eq_false_iff_ne, ne_eq]
            intro hx
            exact hs ⟨hp, Option.some.inj hx⟩
          · exact ih h y hy

/-- **the start is unique**: when `validate_ix_first` accepts, at most one instruction of the transaction
    is this program's start instruction -/
theorem firstLoop_unique {d : Nat} {wl : List (Nat × Nat)} :
    ∀ {l : List Ix}, firstLoop d wl false l = .ok () →
      ∀ i j (hi : i < l.length) (hj : j < l.length), isStartOf d l[i] = true → isStartOf d l[j] = true → i = j := by
  intro l
  induction l with
  | nil => intro _ i j hi; simp at hi
  | cons ix rest ih =>
    intro h i j hi hj si sj
    unfold firstLoop at h
    have shift : ∀ {k : Nat} (hk : k + 1 < (ix :: rest).length), (ix :: rest)[k + 1] = rest[k]'(by simpa using hk) := by
      intro k hk; rfl
    by_cases hc : ix.prog = COMPUTE
    · simp only [hc, ↓reduceIte] at h
      have h0 : isStartOf d ix = false := by simp [isStartOf, hc, COMPUTE, MRGN]
      cases i with
      | zero => simp only [List.getElem_cons_zero] at si; rw [h0] at si; cases si
      | succ i =>
        cases j with
        | zero => simp only [List.getElem_cons_zero] at sj; rw [h0] at sj; cases sj
        | succ j =>
          simp only [List.getElem_cons_succ] at si sj
          have := ih h i j (by simpa using hi) (by simpa using hj) si sj
          omega
    · simp only [hc, ↓reduceIte] at h
      cases hd : ix.disc with
      | none => simp only [hd] at h; cases h
      | some x =>
        simp only [hd, Bool.false_eq_true, ↓reduceIte] at h
        by_cases hs : ix.prog = MRGN ∧ x = d
        · simp only [hs, and_self, ↓reduceIte] at h
          have hrest := firstLoop_true h
          cases i with
          | zero =>
            cases j with
            | zero => rfl
            | succ j =>
              simp only [List.getElem_cons_succ] at sj
              have := hrest _ (List.getElem_mem (by simpa using hj))
              rw [this] at sj; cases sj
          | succ i =>
            simp only [List.getElem_cons_succ] at si
            have := hrest _ (List.getElem_mem (by simpa using hi))
            rw [this] at si; cases si
        · simp only [hs, ↓reduceIte] at h
          have h0 : isStartOf d ix = false := by
            simp only [isStartOf, hd, Bool.and_eq_false_imp, beq_iff_eq, Option.some.injEq]
            intro hp
            simp only [beq_eq_false_iff_ne, ne_eq]
            intro hx
            exact hs ⟨hp, Option.some.inj hx⟩
          split at h
          · cases i with
            | zero => simp only [List.getElem_cons_zero] at si; rw [h0] at si; cases si
            | succ i =>
              cases j with
              | zero => simp only [List.getElem_cons_zero] at sj; rw [h0] at sj; cases sj
              | succ j =>
                simp only [List.getElem_cons_succ] at si sj
                have := ih h i j (by simpa using hi) (by simpa using hj) si sj
                omega
          · cases h

/-- everything before the start is a compute-budget instruction or on the whitelist -/
theorem firstLoop_prefix {d : Nat} {wl : List (Nat × Nat)} :
    ∀ {l : List Ix}, firstLoop d wl false l = .ok () →
      ∃ k, ∃ hk : k < l.length, isStartOf d l[k] = true ∧
        ∀ j (hj : j < k), l[j].prog = COMPUTE ∨ ∃ x, l[j].disc = some x ∧ wl.contains (l[j].prog, x) = true := by
  intro l
  induction l with
  | nil => intro h; unfold firstLoop at h; cases h
  | cons ix rest ih =>
    intro h
    unfold firstLoop at h
    by_cases hc : ix.prog = COMPUTE
    · simp only [hc, ↓reduceIte] at h
      obtain ⟨k, hk, hs, hp⟩ := ih h
      refine ⟨k + 1, by simpa using hk, by simpa using hs, ?_⟩
      intro j hj
      cases j with
      | zero => exact Or.inl hc
      | succ j => simpa using hp j (by omega)
    · simp only [hc, ↓reduceIte] at h
      cases hd : ix.disc with
      | none => simp only [hd] at h; cases h
      | some x =>
        simp only [hd, Bool.false_eq_true, ↓reduceIte] at h
        by_cases hs : ix.prog = MRGN ∧ x = d
        · refine ⟨0, by simp, ?_, fun j hj => by omega⟩
          simp [isStartOf, hd, hs.1, hs.2]
        · simp only [hs, ↓reduceIte] at h
          split at h
          · rename_i hw
            obtain ⟨k, hk, hs', hp⟩ := ih h
            refine ⟨k + 1, by simpa using hk, by simpa using hs', ?_⟩
            intro j hj
            cases j with
            | zero => exact Or.inr ⟨x, hd, hw⟩
            | succ j => simpa using hp j (by omega)
          · cases h

/-! ### validate_ixes_exclusive, validate_ix_last, program list -/

theorem exclusive_all {al : List Nat} :
    ∀ {l : List Ix}, exclusiveLoop al l = .ok () → ∀ y ∈ l, y.prog = MRGN → ∃ x, y.disc = some x ∧ al.contains x = true := by
  intro l
  induction l with
  | nil => intro _ y hy; cases hy
  | cons ix rest ih =>
    intro h y hy hp
    unfold exclusiveLoop at h
    by_cases hm : ix.prog = MRGN
    · simp only [hm, ↓reduceIte] at h
      cases hd : ix.disc with
      | none => simp only [hd] at h; cases h
      | some x =>
        simp only [hd] at h
        split at h
        · rename_i hc
          rcases List.mem_cons.mp hy with rfl | hy
          · exact ⟨x, hd, hc⟩
          · exact ih h y hy hp
        · cases h
    · simp only [hm, ↓reduceIte] at h
      rcases List.mem_cons.mp hy with rfl | hy
      · exact absurd hp hm
      · exact ih h y hy hp

theorem programs_all : ∀ {l : List Ix}, programsAllowed l = .ok () → ∀ y ∈ l, TxL.allowedPrograms.contains y.prog = true := by
  intro l
  induction l with
  | nil => intro _ y hy; cases hy
  | cons ix rest ih =>
    intro h y hy
    unfold programsAllowed at h
    split at h
    · rename_i hc
      rcases List.mem_cons.mp hy with rfl | hy
      · exact hc
      · exact ih h y hy
    · cases h

theorem last_spec {l : List Ix} {e : Nat} (h : validateLast l e = .ok ()) :
    ∃ x, l.getLast? = some x ∧ x.prog = MRGN ∧ x.disc = some e := by
  unfold validateLast at h
  cases hl : l.getLast? with
  | none => simp only [hl] at h; cases h
  | some x =>
    simp only [hl] at h
    cases hd : x.disc with
    | none => simp only [hd] at h; cases h
    | some y =>
      simp only [hd] at h
      split at h
      · cases h
      · rename_i hp
        split at h
        · cases h
        · rename_i hy
          exact ⟨x, rfl, by simpa using hp, by simp at hy; rw [hd, hy]⟩

end Mfi.Tx

namespace Mfi.Tx
open Mfi Mfi.Gen

/-! ### what one instruction does to the receivership flag -/

theorem upd_apply (st : State) (a : Nat) (f : Flags) (b : Nat) : (upd st a f) b = if b = a then f else st b := rfl

/-- a start instruction for account `a` at index `i` that passed `validate_instructions` -/
def Started (ixs : List Ix) (i a : Nat) : Prop :=
  ∃ ix, ixs[i]? = some ix ∧ ix.prog = MRGN ∧ ix.acct0 = some a ∧
    ((ix.disc = some D_START_LIQ ∧ validateInstructions ixs i 1 D_START_LIQ D_END_LIQ = .ok ()) ∨
     (ix.disc = some D_START_DELEV ∧ validateInstructions ixs i 1 D_START_DELEV D_END_DELEV = .ok ()))

/-- the receivership flag of `b` after an instruction is set only if it was set before or this
    instruction is a validated start for `b` -/
theorem exec_recv {ixs : List Ix} {orc : Nat → Bool} {k : Nat} {ix : Ix} {st st' : State}
    (hk : ixs[k]? = some ix) (h : exec ixs orc k ix st = .ok st') (b : Nat) (hb : (st' b).recv = true) :
    (st b).recv = true ∨ Started ixs k b := by
  unfold exec at h
  split at h
  · injection h with h; subst h; exact Or.inl hb
  · rename_i hp
    have hp : ix.prog = MRGN := by simpa using hp
    cases hd : ix.disc with
    | none => simp only [hd] at h; cases h
    | some d =>
      simp only [hd] at h
      split at h
      · cases ha : ix.acct0 with
        | none => simp only [ha] at h; cases h
        | some a =>
          simp only [ha] at h
          unfold execBracket at h
          dsimp only at h
          split at h
          · rename_i hs
            obtain ⟨_, _, h⟩ := Res.bind_ok h
            obtain ⟨_, _, h⟩ := Res.bind_ok h
            obtain ⟨_, hv, h⟩ := Res.bind_ok h
            injection h with h; subst h
            rw [upd_apply] at hb
            split at hb
            · rename_i hba
              subst hba
              right
              refine ⟨ix, hk, hp, ha, ?_⟩
              rcases hs with hs | hs
              · subst hs; left; exact ⟨hd, by simpa using hv⟩
              · subst hs; right; exact ⟨hd, by simpa [D_START_DELEV, D_START_LIQ] using hv⟩
            · exact Or.inl hb
          · split at h
            · obtain ⟨_, _, h⟩ := Res.bind_ok h
              obtain ⟨_, _, h⟩ := Res.bind_ok h
              injection h with h; subst h
              rw [upd_apply] at hb
              split at hb
              · cases hb
              · exact Or.inl hb
            · split at h
              · obtain ⟨_, _, h⟩ := Res.bind_ok h
                obtain ⟨_, _, h⟩ := Res.bind_ok h
                injection h with h; subst h
                rw [upd_apply] at hb
                split at hb
                · rename_i hba; subst hba; exact Or.inl hb
                · exact Or.inl hb
              · split at h
                · obtain ⟨_, _, h⟩ := Res.bind_ok h
                  obtain ⟨_, _, h⟩ := Res.bind_ok h
                  obtain ⟨_, _, h⟩ := Res.bind_ok h
                  obtain ⟨_, _, h⟩ := Res.bind_ok h
                  injection h with h; subst h
                  rw [upd_apply] at hb
                  split at hb
                  · rename_i hba; subst hba; exact Or.inl hb
                  · exact Or.inl hb
                · obtain ⟨_, _, h⟩ := Res.bind_ok h
                  obtain ⟨_, hr, h⟩ := Res.bind_ok h
                  obtain ⟨_, _, h⟩ := Res.bind_ok h
                  injection h with h; subst h
                  have hr := guard_ok hr
                  rw [upd_apply] at hb
                  split at hb
                  · rename_i hba; subst hba; exact Or.inl hb
                  · rw [upd_apply] at hb
                    split at hb
                    · simp only [Bool.not_eq_eq_eq_not, Bool.not_true] at hr
                      rw [hr] at hb; cases hb
                    · exact Or.inl hb
      · split at h
        · cases ha : ix.acct0 with
          | none => simp only [ha] at h; injection h with h; subst h; exact Or.inl hb
          | some a =>
            simp only [ha] at h
            injection h with h; subst h
            rw [upd_apply] at hb
            split at hb
            · rename_i hba; subst hba; exact Or.inl hb
            · exact Or.inl hb
        · cases h

/-- a successful end instruction for account `b`: the flag was set, is cleared, nothing else moves -/
theorem exec_end {ixs : List Ix} {orc : Nat → Bool} {k : Nat} {ix : Ix} {st st' : State} {e b : Nat}
    (hp : ix.prog = MRGN) (hd : ix.disc = some e) (he : e = D_END_LIQ ∨ e = D_END_DELEV) (ha : ix.acct0 = some b)
    (h : exec ixs orc k ix st = .ok st') :
    (st b).recv = true ∧ (st' b).recv = false ∧ ∀ a, a ≠ b → st' a = st a := by
  unfold exec at h
  have hbr : isBracketDisc e = true := by rcases he with rfl | rfl <;> decide
  have hns : ¬ (e = D_START_LIQ ∨ e = D_START_DELEV) := by rcases he with rfl | rfl <;> decide
  simp only [hp, ne_eq, not_true_eq_false, ↓reduceIte, hd, hbr, ha] at h
  unfold execBracket at h
  dsimp only at h
  simp only [hns, ↓reduceIte, he] at h
  obtain ⟨_, hg, h⟩ := Res.bind_ok h
  obtain ⟨_, _, h⟩ := Res.bind_ok h
  injection h with h; subst h
  have hg := guard_ok hg
  simp only [Bool.and_eq_true, Bool.not_eq_eq_eq_not, Bool.not_true] at hg
  refine ⟨hg.1.1, by simp [upd_apply], ?_⟩
  intro a hab
  simp [upd_apply, hab]

/-- an end instruction without its account cannot succeed -/
theorem exec_end_acct {ixs : List Ix} {orc : Nat → Bool} {k : Nat} {ix : Ix} {st st' : State} {e : Nat}
    (hp : ix.prog = MRGN) (hd : ix.disc = some e) (he : e = D_END_LIQ ∨ e = D_END_DELEV)
    (h : exec ixs orc k ix st = .ok st') : ∃ b, ix.acct0 = some b := by
  unfold exec at h
  have hbr : isBracketDisc e = true := by rcases he with rfl | rfl <;> decide
  simp only [hp, ne_eq, not_true_eq_false, ↓reduceIte, hd, hbr] at h
  cases ha : ix.acct0 with
  | none => simp only [ha] at h; cases h
  | some b => exact ⟨b, rfl⟩

end Mfi.Tx

namespace Mfi.Tx
open Mfi Mfi.Gen

/-! ### flash loans -/

/-- instruction `e` of the transaction is this program's end_flashloan for account `b` -/
def EndAt (ixs : List Ix) (e b : Nat) : Prop :=
  ∃ x, ixs[e]? = some x ∧ x.prog = MRGN ∧ x.disc = some D_END_FLASH ∧ x.acct0 = some b

/-- everything an accepted `check_flashloan_can_start` guarantees -/
theorem canStart_spec {ixs : List Ix} {cur e key : Nat} {f : Flags}
    (h : canStartFlashloan ixs cur 1 e key f = .ok ()) :
    cur < e ∧ EndAt ixs e key ∧ (∃ c, ixs[cur]? = some c ∧ c.prog = MRGN) ∧
    f.disabled = false ∧ f.flash = false ∧ f.recv = false ∧ f.frozen = false := by
  unfold canStartFlashloan at h
  cases hc : ixs[cur]? with
  | none => simp only [hc] at h; cases h
  | some c =>
    simp only [hc] at h
    split at h
    · cases h
    · rename_i hp
      split at h
      · cases h
      · rename_i hlt
        simp only [ne_eq, not_true_eq_false, ↓reduceIte] at h
        cases he : ixs[e]? with
        | none => simp only [he] at h; cases h
        | some x =>
          simp only [he] at h
          cases hd : x.disc with
          | none => simp only [hd] at h; cases h
          | some d =>
            simp only [hd] at h
            split at h
            · cases h
            · rename_i hde
              split at h
              · cases h
              · rename_i hxp
                cases ha : x.acct0 with
                | none => simp only [ha] at h; cases h
                | some k =>
                  simp only [ha] at h
                  split at h
                  · cases h
                  · rename_i hk
                    split at h
                    · cases h
                    · split at h
                      · cases h
                      · split at h
                        · cases h
                        · split at h
                          · cases h
                          · rename_i h1 h2 h3 h4
                            have hk' : k = key := by simpa using hk
                            have hd' : d = D_END_FLASH := by simpa using hde
                            subst hk'; subst hd'
                            refine ⟨by simpa using hlt, ⟨x, he, by simpa using hxp, hd, ha⟩, ⟨c, rfl, by simpa using hp⟩,
                              by simpa using h1, by simpa using h2, by simpa using h3, by simpa using h4⟩

/-- the flash-loan flag of `b` after an instruction is set only if it was set before and this instruction
    is not `b`'s end_flashloan, or this instruction is a start that names a later end_flashloan of `b` -/
theorem exec_flash {ixs : List Ix} {orc : Nat → Bool} {k : Nat} {ix : Ix} {st st' : State}
    (h : exec ixs orc k ix st = .ok st') (b : Nat) (hb : (st' b).flash = true) :
    ((st b).flash = true ∧ ¬ (ix.prog = MRGN ∧ ix.disc = some D_END_FLASH ∧ ix.acct0 = some b)) ∨
    (∃ e, k < e ∧ EndAt ixs e b) := by
  unfold exec at h
  split at h
  · rename_i hp
    injection h with h; subst h
    exact Or.inl ⟨hb, fun hh => hp (by simpa using hh.1)⟩
  · cases hd : ix.disc with
    | none => simp only [hd] at h; cases h
    | some d =>
      simp only [hd] at h
      split at h
      · cases ha : ix.acct0 with
        | none => simp only [ha] at h; cases h
        | some a =>
          simp only [ha] at h
          unfold execBracket at h
          dsimp only at h
          split at h
          · rename_i hs
            obtain ⟨_, _, h⟩ := Res.bind_ok h
            obtain ⟨_, _, h⟩ := Res.bind_ok h
            obtain ⟨_, _, h⟩ := Res.bind_ok h
            injection h with h; subst h
            have hne : d ≠ D_END_FLASH := by rcases hs with rfl | rfl <;> decide
            left
            rw [upd_apply] at hb
            refine ⟨?_, fun hh => hne (by have := hh.2.1; simpa using this)⟩
            split at hb
            · rename_i hba; subst hba; exact hb
            · exact hb
          · split at h
            · rename_i hs
              obtain ⟨_, _, h⟩ := Res.bind_ok h
              obtain ⟨_, _, h⟩ := Res.bind_ok h
              injection h with h; subst h
              have hne : d ≠ D_END_FLASH := by rcases hs with rfl | rfl <;> decide
              left
              rw [upd_apply] at hb
              refine ⟨?_, fun hh => hne (by have := hh.2.1; simpa using this)⟩
              split at hb
              · rename_i hba; subst hba; exact hb
              · exact hb
            · split at h
              · rename_i hs
                obtain ⟨_, hcs, h⟩ := Res.bind_ok h
                obtain ⟨_, _, h⟩ := Res.bind_ok h
                injection h with h; subst h
                rw [upd_apply] at hb
                split at hb
                · rename_i hba; subst hba
                  right
                  obtain ⟨hlt, hend, _⟩ := canStart_spec hcs
                  exact ⟨ix.arg, hlt, hend⟩
                · left
                  refine ⟨hb, fun hh => ?_⟩
                  have := hh.2.1
                  rw [hs] at this
                  exact absurd (Option.some.inj this) (by decide)
              · split at h
                · obtain ⟨_, _, h⟩ := Res.bind_ok h
                  obtain ⟨_, _, h⟩ := Res.bind_ok h
                  obtain ⟨_, _, h⟩ := Res.bind_ok h
                  obtain ⟨_, _, h⟩ := Res.bind_ok h
                  injection h with h; subst h
                  rw [upd_apply] at hb
                  split at hb
                  · cases hb
                  · rename_i hba
                    left
                    refine ⟨hb, fun hh => hba ?_⟩
                    have := hh.2.2
                    exact (Option.some.inj this).symm
                · rename_i n1 n2 n3 n4
                  obtain ⟨_, hfl, h⟩ := Res.bind_ok h
                  obtain ⟨_, _, h⟩ := Res.bind_ok h
                  obtain ⟨_, _, h⟩ := Res.bind_ok h
                  injection h with h; subst h
                  have hfl := guard_ok hfl
                  simp only [Bool.not_eq_eq_eq_not, Bool.not_true] at hfl
                  rw [upd_apply] at hb
                  left
                  refine ⟨?_, fun hh => n4 (by have := hh.2.1; simpa using this)⟩
                  split at hb
                  · rename_i hba; subst hba; exact hb
                  · rw [upd_apply] at hb
                    split at hb
                    · rw [hfl] at hb; cases hb
                    · exact hb
      · rename_i hnb
        have hne : d ≠ D_END_FLASH := by
          intro hh; subst hh
          exact hnb (by decide)
        split at h
        · left
          refine ⟨?_, fun hh => hne (by have := hh.2.1; simpa using this)⟩
          cases ha : ix.acct0 with
          | none => simp only [ha] at h; injection h with h; subst h; exact hb
          | some a =>
            simp only [ha] at h
            injection h with h; subst h
            rw [upd_apply] at hb
            split at hb
            · rename_i hba; subst hba; exact hb
            · exact hb
        · cases h

end Mfi.Tx
