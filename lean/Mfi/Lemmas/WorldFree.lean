/-
  No free value at the level of WHOLE instructions (Mfi/Model/World.lean): what a successful `World.deposit / withdraw / borrow /
  repay` does to the net value of the position it operates on — at the share values the instruction itself accrued to — against
  the tokens it takes from or pays to the signer. The wrapper-level bounds of Mfi/Lemmas/FreeL.lean lifted through the stages of
  the handlers (clamp to the deposit capacity, slot search, Token-2022 pre-fee amount, origination fee, complete withdrawal /
  repayment, token-less repayment, completed-deleverage pay-out).
-/
import Mfi.Lemmas.WorldSolv

namespace Mfi.World
open Mfi Mfi.Fx Mfi.Bank Mfi.Account Mfi.Gen Mfi.SolvL Mfi.FreeL

/-- **deposit**: the position's net value (at the accrued share values) rises by no more than the tokens that reached the vault,
    hence by no more than the tokens the signer paid -/
theorem deposit_free {c : Ctx} {amount : Int} {upTo : Bool} {o : Out} (h : deposit c amount upTo = .ok o) (hp : Pre c) (ha : 0 ≤ amount) :
    ∃ (b : Bank), accrueInterest c.b.books c.b.ir c.now = .ok b ∧
      ((o.tokens = 0 ∧ o.slots = c.a.slots) ∨
       ∃ (slots : List Slot) (i : Nat) (s : Slot) (x' : Balance), findOrCreate c.a.slots c.b.key b.assetTag c.now = .ok (slots, i) ∧
          slots[i]? = some s ∧ o.slots = writeSlot c slots i x' ∧
          netValue o.books x' - netValue b (toBal s) ≤ received c.ixEnv o.tokens * ONE * ONE) := by
  have hok := deposit_ok h
  obtain ⟨b, amt, hb1, hamt, hcore⟩ := hok.core
  obtain ⟨_, hsv, m1, _, _, _⟩ := accrue_solv hb1 hp.sv hp.sa hp.sl hp.cfg.fees hp.cfg.base
  have hlive : 0 < c.b.books.asv := hp.live (live_of_state hok.state)
  have hamt0 : 0 ≤ amt := by
    obtain ⟨h1, h2⟩ := Mfi.Props.C17.deposit_up_to_limit_amount hamt
    cases upTo with
    | true =>
      obtain ⟨cap, hcap, e, _, _⟩ := h1 rfl
      have := capacity_nonneg hcap
      omega
    | false => rw [h2 rfl]; exact ha
  refine ⟨b, hb1, ?_⟩
  split at hcore
  · obtain ⟨hs, _, ht⟩ := hcore
    exact Or.inl ⟨ht, hs⟩
  · obtain ⟨slots, i, s, x', hfc, hs, hd, hsl⟩ := hcore
    right
    unfold Ix.depositCore at hd
    obtain ⟨r, hr, hd⟩ := Res.bind_ok hd
    obtain ⟨pre, hpre, hd⟩ := Res.bind_ok hd
    injection hd with hd; injection hd with hb' hx; injection hx with hx htok
    have hr' : increaseBalance b (toBal s) c.ixEnv.now (Fx.ofInt amt) .depositOnly = .ok (r.1, r.2) := by simpa using hr
    have hnn := AllNN_get (AllNN_findOrCreate hfc hp.slots) hs
    have hd0 : 0 ≤ Fx.ofInt amt := Int.mul_nonneg hamt0 (le_of_lt ONE_pos)
    have hgain := increase_no_gain hr' hd0 (by omega) hsv.lsv (by simpa [toBal] using hnn.2)
    have hcov := received_covers (e := c.ixEnv) hp.cfg.tf hamt0 hpre
    have hx' : (x'.getD (toBal s)) = r.2 := by rw [← hx]; rfl
    refine ⟨slots, i, s, r.2, hfc, hs, by rw [hsl, hx'], ?_⟩
    rw [← hb', ← htok]
    have e1 : Fx.ofInt amt * ONE = amt * ONE * ONE := rfl
    have e2 : amt * ONE * ONE ≤ received c.ixEnv pre * ONE * ONE := by
      have := Int.mul_le_mul_of_nonneg_right hcov (Int.mul_nonneg (le_of_lt ONE_pos) (le_of_lt ONE_pos))
      linarith only [this]
    rw [e1] at hgain
    omega

/-- **borrow**: the position's net value falls by more than the tokens paid out (plus the origination fee), short of it by
    less than one unit of each share value -/
theorem borrow_free {c : Ctx} {amount : Int} {o : Out} (h : borrow c amount = .ok o) (hp : Pre c) (ha : 0 ≤ amount) :
    ∃ (b : Bank) (slots : List Slot) (i : Nat) (s : Slot) (x' : Balance), accrueInterest c.b.books c.b.ir c.now = .ok b ∧
      findOrCreate c.a.slots c.b.key b.assetTag c.now = .ok (slots, i) ∧ slots[i]? = some s ∧ o.slots = writeSlot c slots i x' ∧
      o.tokens * ONE * ONE - (b.asv + b.lsv) < netValue b (toBal s) - netValue o.books x' := by
  obtain ⟨b, slots, i, s, x', hb1, _, hstate, hfc, hs, hcore, hsl⟩ := (borrow_ok h).core
  obtain ⟨_, hsv, m1, _, _, _⟩ := accrue_solv hb1 hp.sv hp.sa hp.sl hp.cfg.fees hp.cfg.base
  have hlive : 0 < c.b.books.asv := hp.live (live_of_state hstate)
  have hnn := AllNN_get (AllNN_findOrCreate hfc hp.slots) hs
  refine ⟨b, slots, i, s, x', hb1, hfc, hs, hsl, ?_⟩
  have hONE := ONE_pos
  unfold borrowCore at hcore
  obtain ⟨pre, hpre, hcore⟩ := Res.bind_ok hcore
  have hpre0 := prefee_nonneg (e := c.ixEnv) hp.cfg.tf ha hpre
  have hofpre : 0 ≤ Fx.ofInt pre := Int.mul_nonneg hpre0 (le_of_lt hONE)
  -- the fee buckets are not part of a position's value: only the share values matter
  have nv : ∀ (b1 b2 : Bank), b2.asv = b1.asv → b2.lsv = b1.lsv → netValue b2 x' = netValue b1 x' := by
    intro b1 b2 e1 e2; unfold netValue; rw [e1, e2]
  split at hcore
  · obtain ⟨fee, hfee, hcore⟩ := Res.bind_ok hcore
    obtain ⟨_, _, hcore⟩ := Res.bind_ok hcore
    obtain ⟨tot, htot, hcore⟩ := Res.bind_ok hcore
    obtain ⟨⟨b2, x2⟩, hd, hcore⟩ := Res.bind_ok hcore
    dsimp only at hcore
    obtain ⟨efee, _, _⟩ := mul?_some (math_ok hfee)
    have hfee0 : 0 ≤ fee := by rw [efee]; exact Int.ediv_nonneg (Int.mul_nonneg hofpre hp.cfg.orig) (le_of_lt hONE)
    have etot : tot = Fx.ofInt pre + fee := by
      unfold Interest.addP at htot
      split at htot
      · injection htot with htot; exact htot.symm
      · cases htot
    have htot0 : 0 ≤ tot := by omega
    have hgain := decrease_bounded_gain hd htot0 (by omega) hsv.lsv (by simpa [toBal] using hnn.1)
    have e1 : tot * ONE = pre * ONE * ONE + fee * ONE := by rw [etot]; unfold Fx.ofInt; ring
    have hfeeONE : 0 ≤ fee * ONE := Int.mul_nonneg hfee0 (le_of_lt hONE)
    have hfr := dec_frame hd
    have key : ∀ (bb : Bank), bb.asv = b2.asv → bb.lsv = b2.lsv →
        pre * ONE * ONE - (b.asv + b.lsv) < netValue b (toBal s) - netValue bb x2 := by
      intro bb e1' e2'
      have : netValue bb x2 = netValue b2 x2 := by unfold netValue; rw [e1', e2']
      rw [this]; omega
    split at hcore
    · injection hcore with hcore; injection hcore with h1 h2; injection h2 with h2 h3
      rw [← h1, ← h2, ← h3]
      exact key _ rfl rfl
    · split at hcore
      · obtain ⟨pf, _, hcore⟩ := Res.bind_ok hcore
        injection hcore with hcore; injection hcore with h1 h2; injection h2 with h2 h3
        rw [← h1, ← h2, ← h3]
        exact key _ rfl rfl
      · injection hcore with hcore; injection hcore with h1 h2; injection h2 with h2 h3
        rw [← h1, ← h2, ← h3]
        exact key _ rfl rfl
  · obtain ⟨⟨b2, x2⟩, hd, hcore⟩ := Res.bind_ok hcore
    injection hcore with hcore; injection hcore with h1 h2; injection h2 with h2 h3
    rw [← h1, ← h2, ← h3]
    have hgain := decrease_bounded_gain hd hofpre (by omega) hsv.lsv (by simpa [toBal] using hnn.1)
    have e1 : Fx.ofInt pre * ONE = pre * ONE * ONE := rfl
    rw [e1] at hgain
    exact hgain

/-- **withdraw**: a partial withdrawal lowers the position's net value by more than the tokens that leave the vault, short of it
    by less than one unit of each share value; a complete one pays no more than the exact value of the closed deposit -/
theorem withdraw_free {c : Ctx} {amount : Int} {all : Bool} {o : Out} (h : withdraw c amount all = .ok o) (hp : Pre c) (ha : 0 ≤ amount) :
    ∃ (b : Bank) (i : Nat) (s : Slot) (x' : Balance), accrueInterest c.b.books c.b.ir c.now = .ok b ∧ findSlot c = .ok (i, s) ∧
      o.slots = writeSlot c c.a.slots i x' ∧
      (if all then o.tokens * ONE * ONE ≤ s.a * b.asv ∧ x'.a = 0 ∧ x'.l = 0
       else o.tokens * ONE * ONE - (b.asv + b.lsv) < netValue b (toBal s) - netValue o.books x') := by
  have hok := withdraw_ok h
  obtain ⟨price, b, i, s, x', pre, _, hb1, hfs, hcore, htok, _, hsl⟩ := hok.core
  obtain ⟨_, hsv, m1, _, _, _⟩ := accrue_solv hb1 hp.sv hp.sa hp.sl hp.cfg.fees hp.cfg.base
  have hlive : 0 < c.b.books.asv := hp.live (live_of_state hok.state)
  obtain ⟨hs, hact, hbank⟩ := findSlot_ok hfs
  have hnn := AllNN_get hp.slots hs
  have hle : o.tokens ≤ pre := by
    rw [htok]; unfold withdrawPays; split
    · exact Int.min_le_left _ _
    · exact Int.le_refl _
  have hle2 : o.tokens * ONE * ONE ≤ pre * ONE * ONE := by
    have := Int.mul_le_mul_of_nonneg_right hle (Int.mul_nonneg (le_of_lt ONE_pos) (le_of_lt ONE_pos))
    linarith only [this]
  refine ⟨b, i, s, x', hb1, hfs, hsl, ?_⟩
  unfold withdrawCore at hcore
  cases all with
  | true =>
    simp only [if_true] at hcore ⊢
    obtain ⟨r1, r2, r3, _, _⟩ := withdraw_all_rounds_down hcore hsv.asv (by simpa [toBal] using hnn.1)
    simp only [toBal] at r1
    exact ⟨Int.le_trans hle2 r1, r2, r3⟩
  | false =>
    simp only [Bool.false_eq_true, if_false] at hcore ⊢
    obtain ⟨p, hpre, hcore⟩ := Res.bind_ok hcore
    obtain ⟨⟨b2, x2⟩, hd, hcore⟩ := Res.bind_ok hcore
    injection hcore with hcore; injection hcore with hb' hx; injection hx with hx hpp; subst hb'; subst hx; subst hpp
    have hp0 := prefee_nonneg (e := c.ixEnv) hp.cfg.tf ha hpre
    have hofp : 0 ≤ Fx.ofInt p := Int.mul_nonneg hp0 (le_of_lt ONE_pos)
    have hgain := decrease_bounded_gain hd hofp (by omega) hsv.lsv (by simpa [toBal] using hnn.1)
    have e1 : Fx.ofInt p * ONE = p * ONE * ONE := rfl
    rw [e1] at hgain
    show o.tokens * ONE * ONE - (b.asv + b.lsv) < netValue b (toBal s) - netValue o.books x2
    omega

/-- **repay**: a partial repayment raises the position's net value by no more than the tokens that reached the vault; a complete
    one charges at least the exact value of the closed debt less one ulp — except the risk admin's token-less repayment on a bank
    flagged for it (the sanctioned write-off) -/
theorem repay_free {c : Ctx} {amount : Int} {all : Bool} {o : Out} (h : repay c amount all = .ok o) (hp : Pre c) (ha : 0 ≤ amount) :
    ∃ (b : Bank) (i : Nat) (s : Slot) (x' : Balance), accrueInterest c.b.books c.b.ir c.now = .ok b ∧ findSlot c = .ok (i, s) ∧
      o.slots = writeSlot c c.a.slots i x' ∧
      (if all then x'.a = 0 ∧ x'.l = 0 ∧ (tokenless c true = false → s.l * b.lsv - ONE < received c.ixEnv o.tokens * ONE * ONE)
       else netValue o.books x' - netValue b (toBal s) ≤ received c.ixEnv o.tokens * ONE * ONE) := by
  have hok := repay_ok h
  obtain ⟨b, i, s, b', x', post, hb1, hfs, hcore, htok, hbooks, hsl⟩ := hok.core
  have hok6 : Mfi.Props.C06.BankOk c.b.books := ⟨hp.sv.asv, le_of_lt hp.sv.lsv, hp.sa, hp.sl⟩
  have hflags : b.flags = c.b.books.flags := (Mfi.Props.C06.accrue_spec hb1 hok6).2.2.2.2.2.2.2.2.2.2.2
  obtain ⟨_, hsv, m1, _, _, _⟩ := accrue_solv hb1 hp.sv hp.sa hp.sl hp.cfg.fees hp.cfg.base
  have hlive : 0 < c.b.books.asv := hp.live (live_of_state hok.state)
  obtain ⟨hs, hact, hbank⟩ := findSlot_ok hfs
  have hnn := AllNN_get hp.slots hs
  refine ⟨b, i, s, x', hb1, hfs, hsl, ?_⟩
  unfold repayCore at hcore
  cases all with
  | true =>
    simp only [if_true] at hcore ⊢
    obtain ⟨r1, r2, r3, _⟩ := repay_all_rounds_up hcore
    obtain ⟨_, _, _, _, _, f6, p0, _⟩ := repayAll_frame hcore
    refine ⟨r2, r3, ?_⟩
    intro hnt
    unfold repayTokens at htok
    have hcond : ¬ (c.signer == c.g.riskAdmin && hasFlag b'.flags TOKENLESS_REPAYMENTS_ALLOWED && true) = true := by
      rw [f6, hflags]
      unfold tokenless at hnt
      simp only [hnt, Bool.false_eq_true, not_false_eq_true]
    rw [if_neg hcond] at htok
    have hcov := received_covers (e := c.ixEnv) hp.cfg.tf p0 htok
    have e2 : post * ONE * ONE ≤ received c.ixEnv o.tokens * ONE * ONE := by
      have := Int.mul_le_mul_of_nonneg_right hcov (Int.mul_nonneg (le_of_lt ONE_pos) (le_of_lt ONE_pos))
      linarith only [this]
    simp only [toBal] at r1
    omega
  | false =>
    simp only [Bool.false_eq_true, if_false] at hcore ⊢
    obtain ⟨⟨b2, x2⟩, hd, hcore⟩ := Res.bind_ok hcore
    injection hcore with hcore; injection hcore with hb' hx; injection hx with hx hpp; subst hb'; subst hx; subst hpp
    have hofa : 0 ≤ Fx.ofInt amount := Int.mul_nonneg ha (le_of_lt ONE_pos)
    have hgain := increase_no_gain hd hofa (by omega) hsv.lsv (by simpa [toBal] using hnn.2)
    unfold repayTokens at htok
    simp only [Bool.and_false, Bool.false_eq_true, if_false] at htok
    have hcov := received_covers (e := c.ixEnv) hp.cfg.tf ha htok
    have e2 : amount * ONE * ONE ≤ received c.ixEnv o.tokens * ONE * ONE := by
      have := Int.mul_le_mul_of_nonneg_right hcov (Int.mul_nonneg (le_of_lt ONE_pos) (le_of_lt ONE_pos))
      linarith only [this]
    have e1 : Fx.ofInt amount * ONE = amount * ONE * ONE := rfl
    rw [e1] at hgain
    have : netValue o.books x2 = netValue b2 x2 := by rw [hbooks]; rfl
    rw [this]
    omega

end Mfi.World
