/-
  Solvency step lemmas: what each bank operation does to  claims = deposits − loans + uncollected fees  (scale 2^96 per
  token), with the rounding allowance DERIVED from the magnitudes involved. Moved out of Props/C01.lean so that the
  world-level solvency proof (Mfi/Lemmas/WorldSolv.lean) can use them; Props/C01.lean restates every one of them.
-/
import Mfi.Model.Bank
import Mfi.Lemmas.FxL
import Mfi.Lemmas.ResL
import Mfi.Lemmas.BankL
import Mfi.Props.C06
import Mfi.Props.C19
import Mfi.Props.C07
import Mfi.Props.C18
import Mathlib.Tactic.Linarith
import Mathlib.Tactic.Ring
import Mathlib.Tactic.Positivity
import Mfi.Lemmas.AccrualL

namespace Mfi.SolvL
open Mfi Mfi.Fx Mfi.Bank Mfi.Interest Mfi.Gen Mfi.AccrualL

/-- what the bank owes net of what it is owed, plus uncollected fees, at scale 2^96 per token -/
def claims (b : Bank) : Int := b.sa * b.asv - b.sl * b.lsv + (b.feeI + b.feeG + b.feeP) * ONE

/-- vault tokens minus claims (scale 2^96): the property says this stays ≥ −(sum of allowances) -/
def slack (v : Int) (b : Bank) : Int := v * ONE * ONE - claims b

/-- the per-period lending rate of an accrual (0 when nothing accrues) -/
def lendingPerPeriod (b : Bank) (ir : IrCalc) (now : Int) : Int :=
  match calcInterestRate ir (b.sl * b.lsv / ONE * ONE / (b.sa * b.asv / ONE)) with
  | .ok r => r.lending * (now - b.lastUpdate) / YEAR
  | .error _ => 0

/-- rounding allowance of one accrual, derived from the magnitudes involved -/
def accrueAllowance (b : Bank) (ir : IrCalc) (now : Int) : Int :=
  b.sl * b.lsv / ONE + b.sl + lendingPerPeriod b ir now

/-- the curve gives a non-negative base rate (true of every validated configuration: C18) -/
def BaseOk (ir : IrCalc) : Prop := ∀ ur r, calcInterestRate ir ur = .ok r → 0 ≤ r.base

/-- **accrue_step**: an accrual raises the claims by less than its allowance (the vault does not move). -/
theorem accrue_step {b b' : Bank} {ir : IrCalc} {now : Int} (h : accrueInterest b ir now = .ok b')
    (hb : Mfi.Props.C06.BankOk b) (hfees : FeesOk ir) (hbase : BaseOk ir) :
    claims b' ≤ claims b + accrueAllowance b ir now := by
  obtain ⟨hasv, hlsv, hsa, hsl⟩ := hb
  have hONE := ONE_pos
  have hallow0 : 0 ≤ accrueAllowance b ir now ∨ True := Or.inr trivial
  unfold accrueInterest at h
  dsimp only at h
  split at h
  · cases h
  · rename_i hrange
    have hdt0 : 0 ≤ now - b.lastUpdate := by omega
    have hA0 : 0 ≤ accrueAllowance b ir now := by
      unfold accrueAllowance lendingPerPeriod
      have t1 : 0 ≤ b.sl * b.lsv / ONE := Int.ediv_nonneg (Int.mul_nonneg hsl hlsv) (by omega)
      cases hc : calcInterestRate ir (b.sl * b.lsv / ONE * ONE / (b.sa * b.asv / ONE)) with
      | error e => simp only; omega
      | ok r =>
        simp only
        obtain ⟨_, _, _, _, _, _, _, _, _, _, _, _, _, _, l0, _⟩ := Mfi.Props.C18.calc_spec hc
        have : 0 ≤ r.lending * (now - b.lastUpdate) / YEAR := Int.ediv_nonneg (Int.mul_nonneg l0 hdt0) (by decide)
        omega
    split at h
    · injection h with h
      subst h
      omega
    · rename_i hd0
      obtain ⟨ta, hta, h⟩ := Res.bind_ok h
      obtain ⟨tl, htl, h⟩ := Res.bind_ok h
      have eta := (mul?_some (math_ok hta)).1
      have etl := (mul?_some (math_ok htl)).1
      split at h
      · injection h with h
        subst h
        have : claims { b with lastUpdate := now } = claims b := rfl
        omega
      · rename_i hnz
        unfold accrueCore at h
        obtain ⟨ch, hch, h⟩ := Res.bind_ok h
        obtain ⟨d, _, h⟩ := Res.bind_ok h
        obtain ⟨acc, _, h⟩ := Res.bind_ok h
        have hch' : accrualStateChanges (now - b.lastUpdate) ta tl ir b.asv b.lsv = .ok ch := by
          unfold stateChangesOrErr at hch
          cases hx : accrualStateChanges (now - b.lastUpdate) ta tl ir b.asv b.lsv with
          | ok c => rw [hx] at hch; injection hch with hch; rw [hch]
          | error e => rw [hx] at hch; cases e <;> cases hch
        have hta0 : 0 ≤ ta := by rw [eta]; exact Int.ediv_nonneg (Int.mul_nonneg hsa hasv) (by omega)
        have htl0 : 0 ≤ tl := by rw [etl]; exact Int.ediv_nonneg (Int.mul_nonneg hsl hlsv) (by omega)
        have hne : ¬ (ta = 0) ∧ ¬ (tl = 0) := by
          constructor
          · intro h0; exact hnz (Or.inl h0)
          · intro h0; exact hnz (Or.inr h0)
        have htapos : 0 < b.sa * b.asv / ONE := by rw [← eta]; omega
        have htlpos : 0 < b.sl * b.lsv / ONE := by rw [← etl]; omega
        rw [eta, etl] at hch'
        obtain ⟨r, hr, hcons⟩ := accrual_conserves hsa hsl hasv hlsv hdt0 htapos htlpos hfees
          (fun r hr => hbase _ r hr) hch'
        obtain ⟨_, _, f1, f2, f3, _⟩ := Mfi.Props.C06.state_changes_spec hch' hdt0 (le_of_lt htlpos) hasv hlsv
        have e := Mfi.Props.C06.applyFees_spec h f1 f2 f3
        rw [e]
        unfold claims accrueAllowance lendingPerPeriod
        rw [hr]
        simp only
        have x1 : b.sa * ch.newAsv = b.sa * b.asv + b.sa * (ch.newAsv - b.asv) := by ring
        have x2 : b.sl * ch.newLsv = b.sl * b.lsv + b.sl * (ch.newLsv - b.lsv) := by ring
        have x3 : (b.feeI + ch.insuranceFees + (b.feeG + ch.groupFees) + (b.feeP + ch.protocolFees)) * ONE =
            (b.feeI + b.feeG + b.feeP) * ONE + (ch.insuranceFees + ch.groupFees + ch.protocolFees) * ONE := by ring
        rw [x1, x2, x3]
        linarith only [hcons]


/-! ### deposits, repayments, withdrawals, borrows -/

theorem shares_le {v sv s : Int} (hv : 0 ≤ v) (hsv : 0 < sv) (h : div? v sv = some s) :
    0 ≤ s ∧ s * sv ≤ v * ONE ∧ v * ONE < s * sv + sv := by
  obtain ⟨_, e, _, _⟩ := div?_some h
  have hONE := ONE_pos
  rw [tdiv_nonneg (Int.mul_nonneg hv (by omega))] at e
  have h1 : s * sv ≤ v * ONE := by rw [e]; exact Int.ediv_mul_le _ (by omega)
  have h2 : v * ONE < (s + 1) * sv := by rw [e]; exact Int.lt_ediv_add_one_mul_self _ hsv
  have h3 : (s + 1) * sv = s * sv + sv := by rw [Int.add_mul, Int.one_mul]
  exact ⟨by rw [e]; exact Int.ediv_nonneg (Int.mul_nonneg hv (by omega)) (by omega), h1, by omega⟩

/-- **increase_step** (deposit, repay, the liquidator's side of a seizure): the claims rise by at most the
    amount credited (×2^48). With the vault receiving at least that amount the slack does not fall. -/
theorem increase_step {b b' : Bank} {x x' : Balance} {now delta : Int} {t : IncType}
    (h : increaseBalance b x now delta t = .ok (b', x')) (hasv : 0 ≤ b.asv) (hlsv : 0 ≤ b.lsv)
    (hd : 0 ≤ delta) (hl : 0 ≤ x.l) : claims b' ≤ claims b + delta * ONE := by
  obtain ⟨b1, x1, curL, d, aInc, lDec, b2, b3, hc, hcl, hsub, _, _, hai, hb2, hld, hb3, _, _, _, _, _, ⟨lc, bc, hb'⟩⟩ :=
    (increase_spec h).ex
  obtain ⟨⟨r, eb1⟩, ⟨e, ex1⟩⟩ := claim_frame hc
  obtain ⟨eb2, _, _⟩ := changeAsset_frame hb2
  obtain ⟨eb3, _, _⟩ := changeLiab_frame hb3
  have hONE := ONE_pos
  have ed := (sub?_some hsub).1
  have ecur : curL = x.l * b.lsv / ONE := by
    unfold liabAmount at hcl
    rw [ex1, eb1] at hcl
    exact (mul?_some (math_ok hcl)).1
  have hcur0 : 0 ≤ curL := by rw [ecur]; exact Int.ediv_nonneg (Int.mul_nonneg hl hlsv) (by omega)
  -- asset shares credited
  have hA : aInc * b.asv ≤ max d 0 * ONE := by
    unfold assetShares at hai
    rw [eb1] at hai
    simp only at hai
    split at hai
    · rename_i h0
      injection hai with hai
      rw [← hai, h0]
      have : 0 ≤ max d 0 := Int.le_max_right _ _
      have := Int.mul_nonneg this (by omega : (0 : Int) ≤ ONE)
      omega
    · rename_i h0
      exact (shares_le (Int.le_max_right _ _) (by omega) (math_ok hai)).2.1
  -- liability shares removed
  have hmin0 : 0 ≤ min curL delta := Int.le_min.mpr ⟨hcur0, hd⟩
  have hL : lDec * b.lsv ≤ min curL delta * ONE := by
    unfold liabShares at hld
    rw [eb2, eb1] at hld
    simp only at hld
    have hne := (div?_some (math_ok hld)).1
    exact (shares_le hmin0 (by omega) (math_ok hld)).2.1
  have hsum : max d 0 + min curL delta = delta := by
    rw [ed]
    rcases Int.le_total curL delta with hle | hle
    · rw [Int.max_eq_left (by omega), Int.min_eq_left hle]; omega
    · rw [Int.max_eq_right (by omega), Int.min_eq_right hle]; omega
  have hc' : claims b' = claims b + aInc * b.asv + lDec * b.lsv := by
    rw [hb', eb3, eb2, eb1]
    unfold claims
    simp only
    ring
  have : (max d 0 + min curL delta) * ONE = max d 0 * ONE + min curL delta * ONE := Int.add_mul _ _ _
  rw [hsum] at this
  omega

/-- **decrease_step** (withdraw, borrow, the liquidatee's side of a seizure): the claims fall by the amount
    debited (×2^48), short of it by less than one unit of each share value (the two share conversions round
    down). With the vault paying at most that amount, the slack falls by less than asv + lsv. -/
theorem decrease_step {b b' : Bank} {x x' : Balance} {now delta : Int} {t : DecType}
    (h : decreaseBalance b x now delta t = .ok (b', x')) (hasv : 0 ≤ b.asv) (hlsv : 0 ≤ b.lsv)
    (hd : 0 ≤ delta) (ha : 0 ≤ x.a) : claims b' < claims b - delta * ONE + b.asv + b.lsv + 1 := by
  obtain ⟨b1, x1, curA, d, aDec, lInc, b2, b3, hc, hca, hsub, _, _, hai, hb2, hli, hb3, _, _, _, _, _, _, ⟨lc, bc, hb'⟩⟩ :=
    (decrease_spec h).ex
  obtain ⟨⟨r, eb1⟩, ⟨e, ex1⟩⟩ := claim_frame hc
  obtain ⟨eb2, _, _⟩ := changeAsset_frame hb2
  obtain ⟨eb3, _, _⟩ := changeLiab_frame hb3
  have hONE := ONE_pos
  have ed := (sub?_some hsub).1
  have ecur : curA = x.a * b.asv / ONE := by
    unfold assetAmount at hca
    rw [ex1, eb1] at hca
    exact (mul?_some (math_ok hca)).1
  have hcur0 : 0 ≤ curA := by rw [ecur]; exact Int.ediv_nonneg (Int.mul_nonneg ha hasv) (by omega)
  have hmin0 : 0 ≤ min curA delta := Int.le_min.mpr ⟨hcur0, hd⟩
  have hA : min curA delta * ONE < aDec * b.asv + b.asv + 1 := by
    unfold assetShares at hai
    rw [eb1] at hai
    simp only at hai
    split at hai
    · rename_i h0
      injection hai with hai
      have hc0 : curA = 0 := by rw [ecur, h0]; simp
      have : min curA delta = 0 := by rw [hc0]; exact Int.min_eq_left hd
      rw [this, ← hai, h0]; omega
    · rename_i h0
      have := (shares_le hmin0 (by omega) (math_ok hai)).2.2
      omega
  have hL : max d 0 * ONE < lInc * b.lsv + b.lsv := by
    unfold liabShares at hli
    rw [eb2, eb1] at hli
    simp only at hli
    have hne := (div?_some (math_ok hli)).1
    exact (shares_le (Int.le_max_right _ _) (by omega) (math_ok hli)).2.2
  have hsum : min curA delta + max d 0 = delta := by
    rw [ed]
    rcases Int.le_total curA delta with hle | hle
    · rw [Int.max_eq_left (by omega), Int.min_eq_left hle]; omega
    · rw [Int.max_eq_right (by omega), Int.min_eq_right hle]; omega
  have hc' : claims b' = claims b - aDec * b.asv - lInc * b.lsv := by
    rw [hb', eb3, eb2, eb1]
    unfold claims
    simp only
    ring
  have : (min curA delta + max d 0) * ONE = min curA delta * ONE + max d 0 * ONE := Int.add_mul _ _ _
  rw [hsum] at this
  omega

/-- **withdraw_all_step**: a full withdrawal removes the whole deposit from the claims, pays out its value
    rounded down to whole tokens and books the fraction as insurance fees: the slack does not fall. -/
theorem withdraw_all_step {b b' : Bank} {x x' : Balance} {now amt : Int}
    (h : withdrawAll b x now = .ok (b', x', amt)) (hasv : 0 ≤ b.asv) (ha : 0 ≤ x.a) :
    claims b' ≤ claims b - amt * ONE * ONE := by
  have hONE := ONE_pos
  unfold withdrawAll at h
  obtain ⟨⟨b1, x1⟩, hc, h⟩ := Res.bind_ok h
  dsimp only at h
  obtain ⟨curA, hcurA, h⟩ := Res.bind_ok h
  obtain ⟨_, _, h⟩ := Res.bind_ok h
  obtain ⟨_, _, h⟩ := Res.bind_ok h
  obtain ⟨_, _, h⟩ := Res.bind_ok h
  obtain ⟨_, _, h⟩ := Res.bind_ok h
  obtain ⟨b2, hb2, h⟩ := Res.bind_ok h
  obtain ⟨_, _, h⟩ := Res.bind_ok h
  obtain ⟨dust, hdust, h⟩ := Res.bind_ok h
  obtain ⟨f, hf, h⟩ := Res.bind_ok h
  obtain ⟨amt', hamt, h⟩ := Res.bind_ok h
  injection h with h
  injection h with hb h2
  injection h2 with _ h3
  subst h3
  obtain ⟨⟨r, eb1⟩, ⟨e, ex1⟩⟩ := claim_frame hc
  obtain ⟨eb2, _, _⟩ := changeAsset_frame hb2
  have ecur : curA = x.a * b.asv / ONE := by
    unfold assetAmount at hcurA
    rw [ex1, eb1] at hcurA
    exact (mul?_some (math_ok hcurA)).1
  have ed := (sub?_some (math_ok hdust)).1
  have ef := (add?_some (math_ok hf)).1
  have eamt : amt' = Fx.floor curA / ONE := (Mfi.Props.C19.toU64?_some (math_ok hamt)).1
  have hfl : Fx.floor curA = amt' * ONE := by
    rw [eamt]; unfold Fx.floor
    rw [Int.mul_ediv_cancel _ (by omega)]
  have hle : curA * ONE ≤ x.a * b.asv := by rw [ecur]; exact Int.ediv_mul_le _ (by omega)
  have hfi : b2.feeI = b.feeI := by rw [eb2, eb1]
  rw [hfi] at ef
  rw [← hb, eb2, eb1]
  unfold claims
  simp only
  rw [ef, ed, hfl, ex1]
  simp only
  have e1 : (b.sa + -x.a) * b.asv = b.sa * b.asv - x.a * b.asv := by ring
  have e2 : (curA - amt' * ONE + b.feeI + b.feeG + b.feeP) * ONE = (b.feeI + b.feeG + b.feeP) * ONE + curA * ONE - amt' * ONE * ONE := by ring
  rw [e1, e2]
  omega

/-- **repay_all_step**: a full repayment removes the whole debt from what the bank is owed, charges its value
    rounded UP to whole tokens and books the excess as insurance fees: the slack falls by less than one
    ulp (2^48 at scale 2^96). -/
theorem repay_all_step {b b' : Bank} {x x' : Balance} {now amt : Int}
    (h : repayAll b x now = .ok (b', x', amt)) :
    claims b' < claims b + amt * ONE * ONE + ONE := by
  have hONE := ONE_pos
  unfold repayAll at h
  obtain ⟨⟨b1, x1⟩, hc, h⟩ := Res.bind_ok h
  dsimp only at h
  obtain ⟨curL, hcurL, h⟩ := Res.bind_ok h
  obtain ⟨_, _, h⟩ := Res.bind_ok h
  obtain ⟨_, _, h⟩ := Res.bind_ok h
  obtain ⟨_, _, h⟩ := Res.bind_ok h
  obtain ⟨_, _, h⟩ := Res.bind_ok h
  obtain ⟨b2, hb2, h⟩ := Res.bind_ok h
  obtain ⟨spl, hspl, h⟩ := Res.bind_ok h
  obtain ⟨dust, hdust, h⟩ := Res.bind_ok h
  obtain ⟨f, hf, h⟩ := Res.bind_ok h
  obtain ⟨amt', hamt, h⟩ := Res.bind_ok h
  injection h with h
  injection h with hb h2
  injection h2 with _ h3
  subst h3
  obtain ⟨⟨r, eb1⟩, ⟨e, ex1⟩⟩ := claim_frame hc
  obtain ⟨eb2, _, _⟩ := changeLiab_frame hb2
  have ecur : curL = x.l * b.lsv / ONE := by
    unfold liabAmount at hcurL
    rw [ex1, eb1] at hcurL
    exact (mul?_some (math_ok hcurL)).1
  have ed := (sub?_some (math_ok hdust)).1
  have ef := (add?_some (math_ok hf)).1
  obtain ⟨k, ek, _, _⟩ := Mfi.Props.C07.ceil_spec (math_ok hspl)
  have eamt : amt' = spl / ONE := (Mfi.Props.C19.toU64?_some (math_ok hamt)).1
  have hspl' : spl = amt' * ONE := by
    rw [eamt, ek, Int.mul_ediv_cancel _ (by omega)]
  have hlt : x.l * b.lsv < (curL + 1) * ONE := by rw [ecur]; exact Int.lt_ediv_add_one_mul_self _ hONE
  have hfi : b2.feeI = b.feeI := by rw [eb2, eb1]
  rw [hfi] at ef
  rw [← hb, eb2, eb1]
  unfold claims
  simp only
  rw [ef, ed, hspl', ex1]
  simp only
  have e1 : (b.sl + -x.l) * b.lsv = b.sl * b.lsv - x.l * b.lsv := by ring
  have e2 : (amt' * ONE - curL + b.feeI + b.feeG + b.feeP) * ONE = (b.feeI + b.feeG + b.feeP) * ONE + amt' * ONE * ONE - curL * ONE := by ring
  have e3 : (curL + 1) * ONE = curL * ONE + ONE := by ring
  rw [e1, e2]
  omega


/-- **collect_step**: fee collection moves whole tokens out of the vault and reduces the buckets by exactly
    the same amounts: the slack is unchanged. -/
theorem collect_step {b : Bank} {v : Int} {c : Collected} (h : collectFees b.feeI b.feeG b.feeP v = .ok c) :
    slack (v - (c.toInsurance + c.toGroup + c.toProgram)) { b with feeI := c.feeI, feeG := c.feeG, feeP := c.feeP } = slack v b := by
  obtain ⟨_, _, _, e4, e5, e6, _⟩ := Mfi.Props.C19.collect_exact h
  unfold slack claims
  simp only
  rw [e4, e5, e6]
  ring

/-- **bankruptcy_step**: unless the bank is wiped out (the sanctioned exception), a settlement raises the
    claims by at most the covered part of the bad debt, which the insurance transfer (rounded up) pays
    into the vault: the slack does not fall. -/
theorem bankruptcy_step {b : Bank} {bal : Balance} {avail now : Int} {o : BankruptcyOut}
    (h : settleBankruptcy b bal avail now = .ok o) (ha : 0 ≤ avail) (hsa : 0 ≤ b.sa) (hasv : 0 ≤ b.asv)
    (hlsv : 0 ≤ b.lsv) (hl : 0 ≤ bal.l) (hnk : o.kill = false) :
    claims o.bank ≤ claims b + o.coveredUp * ONE * ONE := by
  obtain ⟨hb, hbad, _, esoc, hsoc0, _, hup, _, _, b1, hs, hi⟩ := Mfi.Props.C07.settle_spec h ha
  have hONE := ONE_pos
  obtain ⟨eb1, hcase⟩ := Mfi.Props.C07.socialize_spec hs hsoc0 hsa hasv
  rcases hcase with ⟨_, _, hk⟩ | ⟨_, _, h0, _, _, hle, _⟩
  · rw [hnk] at hk; cases hk
  · have hb1 : b1.lsv = b.lsv ∧ b1.sa = b.sa ∧ b1.sl = b.sl ∧ b1.feeI = b.feeI ∧ b1.feeG = b.feeG ∧ b1.feeP = b.feeP := by
      rw [eb1]; exact ⟨rfl, rfl, rfl, rfl, rfl, rfl⟩
    have hbadn : 0 ≤ o.badDebt := by
      have : (0 : Int) ≤ ZERO_AMOUNT_THRESHOLD := by decide
      omega
    have hstep := increase_step hi h0 (by rw [hb1.1]; exact hlsv) hbadn hl
    have tl : b.sa * b.asv / ONE * ONE ≤ b.sa * b.asv := Int.ediv_mul_le _ (by omega)
    have hc1 : claims b1 ≤ claims b - o.socialized * ONE := by
      unfold claims
      rw [hb1.1, hb1.2.1, hb1.2.2.1, hb1.2.2.2.1, hb1.2.2.2.2.1, hb1.2.2.2.2.2]
      have e : (b.sa * b.asv / ONE - o.socialized) * ONE = b.sa * b.asv / ONE * ONE - o.socialized * ONE := Int.sub_mul _ _ _
      omega
    have e2 : (o.badDebt - o.covered) * ONE = o.badDebt * ONE - o.covered * ONE := Int.sub_mul _ _ _
    have e3 : o.covered * ONE ≤ o.coveredUp * ONE * ONE := Int.mul_le_mul_of_nonneg_right hup (by omega)
    rw [esoc] at hc1
    omega

/-- **liquidation_fee_step** (debt bank of a classic liquidation): the liquidator's position is debited L1, the
    liquidatee's credited L2 ≤ L1, the whole-token part of the fee L1 − L2 leaves the vault for the insurance
    vault and the fraction goes to the outstanding insurance fees: the slack falls by less than
    asv + lsv + 1. Pure arithmetic over the two step bounds. -/
theorem liquidation_fee_step {c0 c1 c2 l1 l2 asv lsv whole fracp : Int}
    (hdec : c1 < c0 - l1 * ONE + asv + lsv + 1) (hinc : c2 ≤ c1 + l2 * ONE) (hfee : l1 - l2 = whole * ONE + fracp) :
    -(whole * ONE * ONE) - (c2 + fracp * ONE - c0) > -(asv + lsv + 1) := by
  have e : (l1 - l2) * ONE = (whole * ONE + fracp) * ONE := by rw [hfee]
  have e1 : (l1 - l2) * ONE = l1 * ONE - l2 * ONE := Int.sub_mul _ _ _
  have e2 : (whole * ONE + fracp) * ONE = whole * ONE * ONE + fracp * ONE := Int.add_mul _ _ _
  omega

/-- **borrow_fee_step**: a borrow of `amt` tokens with origination fee `fee` debits amt·2^48 + fee, adds `fee`
    to the fee buckets and pays `amt` tokens: the slack falls by less than asv + lsv + 1. -/
theorem borrow_fee_step {c0 c1 amt fee asv lsv : Int}
    (hdec : c1 < c0 - (amt * ONE + fee) * ONE + asv + lsv + 1) :
    -(amt * ONE * ONE) - (c1 + fee * ONE - c0) > -(asv + lsv + 1) := by
  have e : (amt * ONE + fee) * ONE = amt * ONE * ONE + fee * ONE := Int.add_mul _ _ _
  omega


end Mfi.SolvL
