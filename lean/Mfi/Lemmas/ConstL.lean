/-
  The program's constant tables against what they stand for (the tables are regenerated from the real crates on
  every run by `mfi-harness dump-consts`; the models do not read them).
-/
import Mfi.Fx
import Mfi.Gen.Consts

namespace Mfi.ConstL
open Mfi Mfi.Fx

/-- **the scaling table is the powers of ten**: row i of `EXP_10_I80F48` (type-crate/src/constants.rs) is exactly
    10^i as an I80F48, for all 24 rows — every valuation, liquidation amount, emission and venue conversion divides or
    multiplies by a row of it chosen by a bank's decimals. -/
theorem exp10_table_exact : Mfi.Gen.EXP_10_I80F48 = POW10FX := by decide

theorem exp10_table_len : Mfi.Gen.MAX_EXP_10_I80F48 = 24 ∧ POW10FX.length = 24 := by decide

/-- the Drift-side integer table `EXP_10` is the powers of ten as well -/
theorem exp10_int_table_exact : Mfi.Gen.EXP_10 = (List.range Mfi.Gen.EXP_10.length).map fun i => (10 : Int) ^ i := by decide

end Mfi.ConstL
