/- Helper lemmas about the I80F48 model (Mfi/Fx.lean). Mathlib tactic modules allowed here. -/
import Mfi.Fx
import Mathlib.Tactic.Linarith
import Mathlib.Tactic.Positivity

namespace Mfi.Fx

theorem ONE_pos : (0 : Int) < ONE := by decide
theorem ONE_eq : ONE = 281474976710656 := rfl
theorem MIN_eq : MIN = -170141183460469231731687303715884105728 := rfl
theorem MAX_eq : MAX = 170141183460469231731687303715884105727 := rfl

theorem inRange_iff (b : Int) : inRange b = true ↔ MIN ≤ b ∧ b ≤ MAX := by
  simp [inRange]

theorem chk_some {r : Int} (h : MIN ≤ r ∧ r ≤ MAX) : chk r = some r := by
  simp [chk, (inRange_iff r).2 h]

theorem chk_eq_some {r c : Int} (h : chk r = some c) : c = r ∧ MIN ≤ r ∧ r ≤ MAX := by
  unfold chk at h
  split at h
  · rename_i hr
    exact ⟨by injection h with h; exact h.symm, (inRange_iff r).1 hr⟩
  · cases h

theorem wrap_id {r : Int} (h0 : MIN ≤ r) (h1 : r ≤ MAX) : wrap r = r := by
  unfold wrap
  simp only [MIN_eq, MAX_eq] at *
  by_cases hr : 0 ≤ r
  · have : r % 2 ^ 128 = r := Int.emod_eq_of_lt hr (by norm_num; omega)
    simp only [this]
    split <;> omega
  · have h2 : r % 2 ^ 128 = r + 2 ^ 128 := by
      have : (r + 2 ^ 128) % 2 ^ 128 = r + 2 ^ 128 := Int.emod_eq_of_lt (by norm_num; omega) (by norm_num; omega)
      rw [← this]; simp
    simp only [h2]
    split <;> norm_num at * <;> omega

theorem tdiv_nonneg {a b : Int} (ha : 0 ≤ a) : Int.tdiv a b = a / b :=
  Int.tdiv_eq_ediv_of_nonneg ha

theorem mul?_some {a b c : Int} (h : mul? a b = some c) : c = a * b / ONE ∧ MIN ≤ c ∧ c ≤ MAX := by
  have := chk_eq_some h
  exact ⟨this.1, this.1 ▸ this.2.1, this.1 ▸ this.2.2⟩

theorem mul?_eq {a b : Int} (h0 : MIN ≤ a * b / ONE) (h1 : a * b / ONE ≤ MAX) :
    mul? a b = some (a * b / ONE) := chk_some ⟨h0, h1⟩

theorem add?_some {a b c : Int} (h : add? a b = some c) : c = a + b ∧ MIN ≤ c ∧ c ≤ MAX := by
  have := chk_eq_some h
  exact ⟨this.1, this.1 ▸ this.2.1, this.1 ▸ this.2.2⟩

theorem add?_eq {a b : Int} (h0 : MIN ≤ a + b) (h1 : a + b ≤ MAX) : add? a b = some (a + b) :=
  chk_some ⟨h0, h1⟩

theorem sub?_some {a b c : Int} (h : sub? a b = some c) : c = a - b ∧ MIN ≤ c ∧ c ≤ MAX := by
  have := chk_eq_some h
  exact ⟨this.1, this.1 ▸ this.2.1, this.1 ▸ this.2.2⟩

theorem div?_some {a b c : Int} (h : div? a b = some c) :
    b ≠ 0 ∧ c = Int.tdiv (a * ONE) b ∧ MIN ≤ c ∧ c ≤ MAX := by
  unfold div? at h
  split at h
  · cases h
  · rename_i hb
    have := chk_eq_some h
    exact ⟨hb, this.1, this.1 ▸ this.2.1, this.1 ▸ this.2.2⟩

/-- floor-product bounds -/
theorem mulfloor_le (x : Int) : x / ONE * ONE ≤ x := Int.ediv_mul_le x (by decide)
theorem mulfloor_gt (x : Int) : x < (x / ONE + 1) * ONE := Int.lt_ediv_add_one_mul_self x ONE_pos

/-- 0 ≤ d, 0 ≤ p ≤ 1 ⇒ 0 ≤ ⌊d·p⌋ ≤ d -/
theorem frac_mul_bounds {d p : Int} (hd : 0 ≤ d) (hp0 : 0 ≤ p) (hp1 : p ≤ ONE) :
    0 ≤ d * p / ONE ∧ d * p / ONE ≤ d := by
  constructor
  · exact Int.ediv_nonneg (mul_nonneg hd hp0) (le_of_lt ONE_pos)
  · have h1 : d * p ≤ d * ONE := mul_le_mul_of_nonneg_left hp1 hd
    calc d * p / ONE ≤ d * ONE / ONE := Int.ediv_le_ediv ONE_pos h1
      _ = d := Int.mul_ediv_cancel d (by decide)

/-- 0 ≤ off ≤ dx, 0 < dx ⇒ 0 ≤ ⌊off·2^48/dx⌋ ≤ 2^48 -/
theorem prop_bounds {off dx : Int} (h0 : 0 ≤ off) (h1 : off ≤ dx) (hdx : 0 < dx) :
    0 ≤ off * ONE / dx ∧ off * ONE / dx ≤ ONE := by
  constructor
  · exact Int.ediv_nonneg (mul_nonneg h0 (le_of_lt ONE_pos)) (le_of_lt hdx)
  · have : off * ONE ≤ ONE * dx := by
      have := mul_le_mul_of_nonneg_right h1 (le_of_lt ONE_pos)
      linarith
    calc off * ONE / dx ≤ ONE * dx / dx := Int.ediv_le_ediv hdx this
      _ = ONE := Int.mul_ediv_cancel ONE (ne_of_gt hdx)

theorem prop_full {dx : Int} (hdx : 0 < dx) : dx * ONE / dx = ONE := by
  rw [mul_comm]; exact Int.mul_ediv_cancel ONE (ne_of_gt hdx)

theorem ediv_mono_num {a b c : Int} (hc : 0 < c) (h : a ≤ b) : a / c ≤ b / c := Int.ediv_le_ediv hc h

end Mfi.Fx
