/-
  Per-operation delta equalities of the wrapper operations (shared by the single-bank ledger of C02 and by the
  whole-instruction ledger of Mfi/Lemmas/WorldLedger.lean); re-exported under their names in Mfi/Props/C02.lean.
-/
import Mfi.Model.Bank
import Mfi.Lemmas.FxL
import Mfi.Lemmas.ResL
import Mfi.Lemmas.BankL

namespace Mfi.DeltaL
open Mfi Mfi.Fx Mfi.Bank Mfi.Gen

/-! ### per-operation delta equality -/

/-- **increase: same delta on both books** -/
theorem increase_delta_eq {b0 b' : Bank} {x0 x' : Balance} {now delta : Int} {t : IncType}
    (h : increaseBalance b0 x0 now delta t = .ok (b', x')) :
    b'.sa - b0.sa = x'.a - x0.a ∧ b'.sl - b0.sl = x'.l - x0.l := by
  obtain ⟨b1, x1, _, _, aInc, lDec, b2, b3, hc, _, _, _, _, _, hb2, _, hb3, _, _, _, _, hx', ⟨lc, bc, hb'⟩⟩ :=
    (increase_spec h).ex
  obtain ⟨⟨r, hb1⟩, ⟨e, hx1⟩⟩ := claim_frame hc
  obtain ⟨e2, _, _⟩ := changeAsset_frame hb2
  obtain ⟨e3, _, _⟩ := changeLiab_frame hb3
  rw [hb', e3, e2, hb1, hx', hx1]
  simp only
  omega

/-- **decrease: same delta on both books** -/
theorem decrease_delta_eq {b0 b' : Bank} {x0 x' : Balance} {now delta : Int} {t : DecType}
    (h : decreaseBalance b0 x0 now delta t = .ok (b', x')) :
    b'.sa - b0.sa = x'.a - x0.a ∧ b'.sl - b0.sl = x'.l - x0.l := by
  obtain ⟨b1, x1, _, _, aDec, lInc, b2, b3, hc, _, _, _, _, _, hb2, _, hb3, _, _, _, _, _, hx', ⟨lc, bc, hb'⟩⟩ :=
    (decrease_spec h).ex
  obtain ⟨⟨r, hb1⟩, ⟨e, hx1⟩⟩ := claim_frame hc
  obtain ⟨e2, _, _⟩ := changeAsset_frame hb2
  obtain ⟨e3, _, _⟩ := changeLiab_frame hb3
  rw [hb', e3, e2, hb1, hx', hx1]
  simp only
  omega

/-- **withdraw_all**: the bank's deposit total falls by exactly the position's deposit shares; the
    position's (dust) liability shares are abandoned: the bank's debt total is unchanged. -/
theorem withdraw_all_delta {b0 b' : Bank} {x0 x' : Balance} {now amt : Int}
    (h : withdrawAll b0 x0 now = .ok (b', x', amt)) :
    b'.sa = b0.sa - x0.a ∧ b'.sl = b0.sl ∧ x'.a = 0 ∧ x'.l = 0 ∧
    b'.asv = b0.asv ∧ b'.lsv = b0.lsv := by
  unfold withdrawAll at h
  obtain ⟨⟨b1, x1⟩, hc, h⟩ := Res.bind_ok h
  dsimp only at h
  obtain ⟨curA, _, h⟩ := Res.bind_ok h
  obtain ⟨curL, _, h⟩ := Res.bind_ok h
  obtain ⟨_, _, h⟩ := Res.bind_ok h
  obtain ⟨_, _, h⟩ := Res.bind_ok h
  obtain ⟨bal', hclose, h⟩ := Res.bind_ok h
  obtain ⟨b2, hb2, h⟩ := Res.bind_ok h
  obtain ⟨_, _, h⟩ := Res.bind_ok h
  obtain ⟨dust, _, h⟩ := Res.bind_ok h
  obtain ⟨f, _, h⟩ := Res.bind_ok h
  obtain ⟨amt', _, h⟩ := Res.bind_ok h
  injection h with h
  injection h with h1 h2
  injection h2 with h2 h3
  obtain ⟨⟨r, hb1⟩, ⟨e, hx1⟩⟩ := claim_frame hc
  obtain ⟨e2, _, _⟩ := changeAsset_frame hb2
  have hclosed : bal' = emptyDeactivated := by
    unfold closeBalance at hclose
    split at hclose
    · cases hclose
    · injection hclose with hclose; exact hclose.symm
  rw [← h1, ← h2, hclosed, e2, hb1, hx1]
  simp [emptyDeactivated] <;> omega

/-- **repay_all** -/
theorem repay_all_delta {b0 b' : Bank} {x0 x' : Balance} {now amt : Int}
    (h : repayAll b0 x0 now = .ok (b', x', amt)) :
    b'.sl = b0.sl - x0.l ∧ b'.sa = b0.sa ∧ x'.a = 0 ∧ x'.l = 0 ∧
    b'.asv = b0.asv ∧ b'.lsv = b0.lsv := by
  unfold repayAll at h
  obtain ⟨⟨b1, x1⟩, hc, h⟩ := Res.bind_ok h
  dsimp only at h
  obtain ⟨curL, _, h⟩ := Res.bind_ok h
  obtain ⟨curA, _, h⟩ := Res.bind_ok h
  obtain ⟨_, _, h⟩ := Res.bind_ok h
  obtain ⟨_, _, h⟩ := Res.bind_ok h
  obtain ⟨bal', hclose, h⟩ := Res.bind_ok h
  obtain ⟨b2, hb2, h⟩ := Res.bind_ok h
  obtain ⟨spl, _, h⟩ := Res.bind_ok h
  obtain ⟨dust, _, h⟩ := Res.bind_ok h
  obtain ⟨f, _, h⟩ := Res.bind_ok h
  obtain ⟨amt', _, h⟩ := Res.bind_ok h
  injection h with h
  injection h with h1 h2
  injection h2 with h2 h3
  obtain ⟨⟨r, hb1⟩, ⟨e, hx1⟩⟩ := claim_frame hc
  obtain ⟨e2, _, _⟩ := changeLiab_frame hb2
  have hclosed : bal' = emptyDeactivated := by
    unfold closeBalance at hclose
    split at hclose
    · cases hclose
    · injection hclose with hclose; exact hclose.symm
  rw [← h1, ← h2, hclosed, e2, hb1, hx1]
  simp [emptyDeactivated] <;> omega

/-- **close_balance**: bank totals untouched, both (dust) sides of the position abandoned; the code
    checked that each side is worth less than ZERO_AMOUNT_THRESHOLD. -/
theorem close_balance_delta {b0 b' : Bank} {x0 x' : Balance} {now : Int}
    (h : closeBalanceOp b0 x0 now = .ok (b', x')) :
    b'.sa = b0.sa ∧ b'.sl = b0.sl ∧ x'.a = 0 ∧ x'.l = 0 ∧ b'.asv = b0.asv ∧ b'.lsv = b0.lsv ∧
    (∃ curA curL, assetAmount b0 x0.a = .ok curA ∧ liabAmount b0 x0.l = .ok curL ∧
      isZeroTol curA ZERO_AMOUNT_THRESHOLD = true ∧ isZeroTol curL ZERO_AMOUNT_THRESHOLD = true) := by
  unfold closeBalanceOp at h
  obtain ⟨⟨b1, x1⟩, hc, h⟩ := Res.bind_ok h
  dsimp only at h
  obtain ⟨curL, hcl, h⟩ := Res.bind_ok h
  obtain ⟨curA, hca, h⟩ := Res.bind_ok h
  obtain ⟨_, hz1, h⟩ := Res.bind_ok h
  obtain ⟨_, hz2, h⟩ := Res.bind_ok h
  obtain ⟨bal', hclose, h⟩ := Res.bind_ok h
  injection h with h
  injection h with h1 h2
  obtain ⟨⟨r, hb1⟩, ⟨e, hx1⟩⟩ := claim_frame hc
  have hclosed : bal' = emptyDeactivated := by
    unfold closeBalance at hclose
    split at hclose
    · cases hclose
    · injection hclose with hclose; exact hclose.symm
  refine ⟨by rw [← h1, hb1], by rw [← h1, hb1], by rw [← h2, hclosed]; rfl, by rw [← h2, hclosed]; rfl,
    by rw [← h1, hb1], by rw [← h1, hb1], curA, curL, ?_, ?_, chk_ok hz2, chk_ok hz1⟩
  · unfold assetAmount at hca ⊢; rw [hx1, hb1] at hca; exact hca
  · unfold liabAmount at hcl ⊢; rw [hx1, hb1] at hcl; exact hcl

end Mfi.DeltaL
