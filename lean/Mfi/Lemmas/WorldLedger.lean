import Mfi.Lemmas.WorldPos
import Mfi.Lemmas.BankL
import Mfi.Lemmas.DeltaL
namespace Mfi.World
open Mfi Mfi.Gen Mfi.Account Mfi.Bank

theorem inc_active {b0 b' : Bank} {x0 x' : Balance} {now delta : Int} {t : IncType}
    (h : increaseBalance b0 x0 now delta t = .ok (b', x')) : x'.active = x0.active := by
  obtain ⟨b1, x1, _, _, aInc, lDec, b2, b3, hc, _, _, _, _, _, _, _, _, _, _, _, _, hx', _⟩ := (increase_spec h).ex
  obtain ⟨_, ⟨e, hx1⟩⟩ := claim_frame hc
  rw [hx', hx1]

theorem dec_active {b0 b' : Bank} {x0 x' : Balance} {now delta : Int} {t : DecType}
    (h : decreaseBalance b0 x0 now delta t = .ok (b', x')) : x'.active = x0.active := by
  obtain ⟨b1, x1, _, _, aDec, lInc, b2, b3, hc, _, _, _, _, _, _, _, _, _, _, _, _, _, hx', _⟩ := (decrease_spec h).ex
  obtain ⟨_, ⟨e, hx1⟩⟩ := claim_frame hc
  rw [hx', hx1]

theorem applyFees_totals {b b' : Bank} {ch : Interest.StateChanges} (h : applyFees b ch = .ok b') : b'.sa = b.sa ∧ b'.sl = b.sl := by
  unfold applyFees at h
  obtain ⟨g, _, h⟩ := Res.bind_ok h
  obtain ⟨i, _, h⟩ := Res.bind_ok h
  obtain ⟨p, _, h⟩ := Res.bind_ok h
  injection h with h; subst h; exact ⟨rfl, rfl⟩

/-- accrual moves share values, fee buckets and the clock — never the share totals -/
theorem accrue_totals {b b' : Bank} {ir : Interest.IrCalc} {now : Int} (h : accrueInterest b ir now = .ok b') :
    b'.sa = b.sa ∧ b'.sl = b.sl := by
  unfold accrueInterest at h
  dsimp only at h
  split at h
  · cases h
  · split at h
    · injection h with h; subst h; exact ⟨rfl, rfl⟩
    · obtain ⟨ta, _, h⟩ := Res.bind_ok h
      obtain ⟨tl, _, h⟩ := Res.bind_ok h
      split at h
      · injection h with h; subst h; exact ⟨rfl, rfl⟩
      · unfold accrueCore at h
        obtain ⟨ch, _, h⟩ := Res.bind_ok h
        obtain ⟨d, _, h⟩ := Res.bind_ok h
        obtain ⟨acc, _, h⟩ := Res.bind_ok h
        have := applyFees_totals h
        exact this

/-- writing the touched slot back and sorting: the touched bank's sums move by exactly the slot's change, every other
    bank's sums stay -/
theorem write_pos {c : Ctx} {l : List Slot} {i : Nat} {s : Slot} {x' : Balance} (hs : l[i]? = some s)
    (ha : s.active = true) (hb : s.bank = c.b.key) (hx : x'.active = true ∨ (x'.a = 0 ∧ x'.l = 0)) :
    posA c.b.key (writeSlot c l i x') = posA c.b.key l - s.a + x'.a ∧
    posL c.b.key (writeSlot c l i x') = posL c.b.key l - s.l + x'.l ∧
    ∀ k, k ≠ c.b.key → posA k (writeSlot c l i x') = posA k l ∧ posL k (writeSlot c l i x') = posL k l := by
  unfold writeSlot
  refine ⟨?_, ?_, ?_⟩
  · rw [posA_sort, posA_set _ l i s _ hs]
    have h1 : ctrA c.b.key s = s.a := by simp [ctrA, ha, hb]
    have h2 : ctrA c.b.key (ofBal c.b.key x') = x'.a := by
      rcases hx with hx | hx
      · simp [ctrA, ofBal, hx]
      · by_cases hact : x'.active = true <;> simp [ctrA, ofBal, hact, hx.1]
    rw [h1, h2]
  · rw [posL_sort, posL_set _ l i s _ hs]
    have h1 : ctrL c.b.key s = s.l := by simp [ctrL, ha, hb]
    have h2 : ctrL c.b.key (ofBal c.b.key x') = x'.l := by
      rcases hx with hx | hx
      · simp [ctrL, ofBal, hx]
      · by_cases hact : x'.active = true <;> simp [ctrL, ofBal, hact, hx.2]
    rw [h1, h2]
  · intro k hk
    have h1 : ctrA k s = 0 ∧ ctrL k s = 0 := by
      have : (s.bank == k) = false := by simp [hb]; omega
      simp [ctrA, ctrL, this]
    have h2 : ctrA k (ofBal c.b.key x') = 0 ∧ ctrL k (ofBal c.b.key x') = 0 := by
      by_cases hact : x'.active = true
      · have : (c.b.key == k) = false := by simp; omega
        simp [ctrA, ctrL, ofBal, hact, this]
      · simp [ctrA, ctrL, ofBal, hact]
    rw [posA_sort, posL_sort, posA_set _ l i s _ hs, posL_set _ l i s _ hs, h1.1, h1.2, h2.1, h2.2]
    omega

theorem findSlot_ok {c : Ctx} {i : Nat} {s : Slot} (h : findSlot c = .ok (i, s)) :
    c.a.slots[i]? = some s ∧ s.active = true ∧ s.bank = c.b.key := by
  unfold findSlot at h
  split at h
  · cases h
  · rename_i j hj
    split at h
    · rename_i s' hs'
      injection h with h; injection h with h1 h2; subst h1; subst h2
      unfold findIdx at hj
      rw [List.findIdx?_eq_some_iff_getElem] at hj
      obtain ⟨hk, hp, _⟩ := hj
      simp only [Bool.and_eq_true, beq_iff_eq] at hp
      have : s' = c.a.slots[j] := by
        have := hs'; simp [hk] at this; exact this.symm
      subst this
      exact ⟨hs', hp.1, hp.2⟩
    · cases h

theorem slotOf_found {c : Ctx} {i : Nat} {s : Slot} (h : findSlot c = .ok (i, s)) : slotOf c.a c.b.key = s := by
  unfold findSlot at h
  unfold slotOf
  split at h
  · cases h
  · rename_i j hj
    rw [hj]
    split at h
    · rename_i s' hs'
      injection h with h; injection h with h1 h2; subst h1; subst h2
      simp [hs']
    · cases h

/-- **the ledger step of a whole instruction**: in the bank operated on, the share totals move by exactly what the
    account's positions in that bank move, plus the shares a closure abandons (`dA`, `dL`); the account's positions in every
    OTHER bank are what they were — find_or_create, the write-back and the sort included -/
structure LedgerStep (c : Ctx) (o : Out) (dA dL : Int) : Prop where
  assets : o.books.sa - c.b.books.sa = posA c.b.key o.slots - posA c.b.key c.a.slots + dA
  liabs : o.books.sl - c.b.books.sl = posL c.b.key o.slots - posL c.b.key c.a.slots + dL
  others : ∀ k, k ≠ c.b.key → posA k o.slots = posA k c.a.slots ∧ posL k o.slots = posL k c.a.slots

theorem borrowCore_delta {e : Ix.Env} {b b' : Bank} {x x' : Balance} {amount t : Int}
    (h : borrowCore e b x amount = .ok (b', x', t)) :
    b'.sa - b.sa = x'.a - x.a ∧ b'.sl - b.sl = x'.l - x.l ∧ x'.active = x.active := by
  unfold borrowCore at h
  obtain ⟨pre, _, h⟩ := Res.bind_ok h
  split at h
  · obtain ⟨fee, _, h⟩ := Res.bind_ok h
    obtain ⟨_, _, h⟩ := Res.bind_ok h
    obtain ⟨tot, _, h⟩ := Res.bind_ok h
    obtain ⟨⟨b2, x2⟩, hd, h⟩ := Res.bind_ok h
    dsimp only at h
    have hs := DeltaL.decrease_delta_eq hd
    have ha := dec_active hd
    split at h
    · injection h with h; injection h with hb hx; injection hx with hx _; subst hb; subst hx; exact ⟨hs.1, hs.2, ha⟩
    · split at h
      · obtain ⟨pf, _, h⟩ := Res.bind_ok h
        injection h with h; injection h with hb hx; injection hx with hx _; subst hb; subst hx; exact ⟨hs.1, hs.2, ha⟩
      · injection h with h; injection h with hb hx; injection hx with hx _; subst hb; subst hx; exact ⟨hs.1, hs.2, ha⟩
  · obtain ⟨⟨b2, x2⟩, hd, h⟩ := Res.bind_ok h
    injection h with h; injection h with hb hx; injection hx with hx _; subst hb; subst hx
    exact ⟨(DeltaL.decrease_delta_eq hd).1, (DeltaL.decrease_delta_eq hd).2, dec_active hd⟩

theorem borrow_ledger {c : Ctx} {amt : Int} {o : Out} (h : borrow c amt = .ok o) : LedgerStep c o 0 0 := by
  obtain ⟨b, slots, i, s, x', hb, _, _, hfc, hs, hcore, hsl⟩ := (borrow_ok h).core
  obtain ⟨hpos, s', hs', hact, hbank⟩ := findOrCreate_pos hfc
  have : s' = s := by rw [hs] at hs'; injection hs' with hs'; exact hs'.symm
  subst this
  obtain ⟨d1, d2, d3⟩ := borrowCore_delta hcore
  obtain ⟨t1, t2⟩ := accrue_totals hb
  have hx : x'.active = true ∨ (x'.a = 0 ∧ x'.l = 0) := Or.inl (by rw [d3]; simpa [toBal] using hact)
  obtain ⟨w1, w2, w3⟩ := write_pos (c := c) (x' := x') hs hact hbank hx
  refine ⟨?_, ?_, ?_⟩
  · rw [hsl, w1, (hpos c.b.key).1]; simp only [toBal] at d1; omega
  · rw [hsl, w2, (hpos c.b.key).2]; simp only [toBal] at d2; omega
  · intro k hk; rw [hsl, (w3 k hk).1, (w3 k hk).2, (hpos k).1, (hpos k).2]; exact ⟨rfl, rfl⟩

theorem deposit_ledger {c : Ctx} {amt : Int} {up : Bool} {o : Out} (h : deposit c amt up = .ok o) : LedgerStep c o 0 0 := by
  obtain ⟨b, a, hb, _, hcore⟩ := (deposit_ok h).core
  obtain ⟨t1, t2⟩ := accrue_totals hb
  split at hcore
  · obtain ⟨hs, hbk, _⟩ := hcore
    exact ⟨by rw [hs, hbk]; omega, by rw [hs, hbk]; omega, fun k _ => by rw [hs]; exact ⟨rfl, rfl⟩⟩
  · obtain ⟨slots, i, s, x', hfc, hs, hd, hsl⟩ := hcore
    obtain ⟨hpos, s', hs', hact, hbank⟩ := findOrCreate_pos hfc
    have : s' = s := by rw [hs] at hs'; injection hs' with hs'; exact hs'.symm
    subst this
    unfold Ix.depositCore at hd
    obtain ⟨r, hr, hd⟩ := Res.bind_ok hd
    obtain ⟨pre, _, hd⟩ := Res.bind_ok hd
    injection hd with hd; injection hd with hb' hx; injection hx with hx _
    have hr' : increaseBalance b (toBal s') c.ixEnv.now (Fx.ofInt a) .depositOnly = .ok (r.1, r.2) := by simpa using hr
    obtain ⟨d1, d2⟩ := DeltaL.increase_delta_eq hr'
    have d3 := inc_active hr'
    have hx' : (x'.getD (toBal s')) = r.2 := by rw [← hx]; rfl
    have hxa : r.2.active = true ∨ (r.2.a = 0 ∧ r.2.l = 0) := Or.inl (by rw [d3]; simpa [toBal] using hact)
    obtain ⟨w1, w2, w3⟩ := write_pos (c := c) (x' := r.2) hs hact hbank hxa
    rw [hx'] at hsl
    refine ⟨?_, ?_, ?_⟩
    · rw [hsl, w1, (hpos c.b.key).1, ← hb']; simp only [toBal] at d1; omega
    · rw [hsl, w2, (hpos c.b.key).2, ← hb']; simp only [toBal] at d2; omega
    · intro k hk; rw [hsl, (w3 k hk).1, (w3 k hk).2, (hpos k).1, (hpos k).2]; exact ⟨rfl, rfl⟩

/-- a withdrawal: a complete one abandons the position's (dust) debt shares in the bank's debt total -/
theorem withdraw_ledger {c : Ctx} {amt : Int} {all : Bool} {o : Out} (h : withdraw c amt all = .ok o) :
    LedgerStep c o 0 (if all then (slotOf c.a c.b.key).l else 0) := by
  obtain ⟨price, b, i, s, x', pre, _, hb, hfs, hcore, _, _, hsl⟩ := (withdraw_ok h).core
  obtain ⟨hs, hact, hbank⟩ := findSlot_ok hfs
  obtain ⟨t1, t2⟩ := accrue_totals hb
  rw [slotOf_found hfs]
  unfold withdrawCore at hcore
  cases all with
  | true =>
    simp only [if_true] at hcore ⊢
    obtain ⟨e1, e2, e3, e4, _, _⟩ := DeltaL.withdraw_all_delta hcore
    obtain ⟨w1, w2, w3⟩ := write_pos (c := c) (x' := x') hs hact hbank (Or.inr ⟨e3, e4⟩)
    refine ⟨?_, ?_, ?_⟩
    · rw [hsl, w1, e1, e3]; simp only [toBal]; omega
    · rw [hsl, w2, e2, e4]; omega
    · intro k hk; rw [hsl]; exact w3 k hk
  | false =>
    simp only [Bool.false_eq_true, if_false] at hcore ⊢
    obtain ⟨p, _, hcore⟩ := Res.bind_ok hcore
    obtain ⟨⟨b2, x2⟩, hd, hcore⟩ := Res.bind_ok hcore
    injection hcore with hcore; injection hcore with hb' hx; injection hx with hx _; subst hb'; subst hx
    obtain ⟨d1, d2⟩ := DeltaL.decrease_delta_eq hd
    have d3 := dec_active hd
    obtain ⟨w1, w2, w3⟩ := write_pos (c := c) (x' := x2) hs hact hbank (Or.inl (by rw [d3]; simpa [toBal] using hact))
    refine ⟨?_, ?_, ?_⟩
    · rw [hsl, w1]; simp only [toBal] at d1; omega
    · rw [hsl, w2]; simp only [toBal] at d2; omega
    · intro k hk; rw [hsl]; exact w3 k hk

/-- a repayment: a complete one abandons the position's (dust) deposit shares in the bank's deposit total -/
theorem repay_ledger {c : Ctx} {amt : Int} {all : Bool} {o : Out} (h : repay c amt all = .ok o) :
    LedgerStep c o (if all then (slotOf c.a c.b.key).a else 0) 0 := by
  obtain ⟨b, i, s, b', x', post, hb, hfs, hcore, _, hbooks, hsl⟩ := (repay_ok h).core
  obtain ⟨hs, hact, hbank⟩ := findSlot_ok hfs
  obtain ⟨t1, t2⟩ := accrue_totals hb
  rw [slotOf_found hfs]
  have hsa : o.books.sa = b'.sa := by rw [hbooks]
  have hsl' : o.books.sl = b'.sl := by rw [hbooks]
  unfold repayCore at hcore
  cases all with
  | true =>
    simp only [if_true] at hcore ⊢
    obtain ⟨e1, e2, e3, e4, _, _⟩ := DeltaL.repay_all_delta hcore
    obtain ⟨w1, w2, w3⟩ := write_pos (c := c) (x' := x') hs hact hbank (Or.inr ⟨e3, e4⟩)
    refine ⟨?_, ?_, ?_⟩
    · rw [hsl, w1, hsa, e2, e3]; omega
    · rw [hsl, w2, hsl', e1, e4]; simp only [toBal]; omega
    · intro k hk; rw [hsl]; exact w3 k hk
  | false =>
    simp only [Bool.false_eq_true, if_false] at hcore ⊢
    obtain ⟨⟨b2, x2⟩, hd, hcore⟩ := Res.bind_ok hcore
    injection hcore with hcore; injection hcore with hb' hx; injection hx with hx _; subst hb'; subst hx
    obtain ⟨d1, d2⟩ := DeltaL.increase_delta_eq hd
    have d3 := inc_active hd
    obtain ⟨w1, w2, w3⟩ := write_pos (c := c) (x' := x2) hs hact hbank (Or.inl (by rw [d3]; simpa [toBal] using hact))
    refine ⟨?_, ?_, ?_⟩
    · rw [hsl, w1, hsa]; simp only [toBal] at d1; dsimp only; omega
    · rw [hsl, w2, hsl']; simp only [toBal] at d2; dsimp only; omega
    · intro k hk; rw [hsl]; exact w3 k hk

/-- a balance closure abandons both (dust) sides of the position -/
theorem close_ledger {c : Ctx} {o : Out} (h : closeBalance c = .ok o) :
    LedgerStep c o (slotOf c.a c.b.key).a (slotOf c.a c.b.key).l := by
  obtain ⟨b, i, s, x', hb, hfs, hcore, hsl⟩ := (close_ok h).core
  obtain ⟨hs, hact, hbank⟩ := findSlot_ok hfs
  obtain ⟨t1, t2⟩ := accrue_totals hb
  rw [slotOf_found hfs]
  obtain ⟨e1, e2, e3, e4, _⟩ := DeltaL.close_balance_delta hcore
  obtain ⟨w1, w2, w3⟩ := write_pos (c := c) (x' := x') hs hact hbank (Or.inr ⟨e3, e4⟩)
  refine ⟨?_, ?_, ?_⟩
  · rw [hsl, w1, e1, e3]; omega
  · rw [hsl, w2, e2, e4]; omega
  · intro k hk; rw [hsl]; exact w3 k hk

/-! ### the ledger over every history of whole instructions -/

theorem sum_map_set {α : Type} (f : α → Int) : ∀ (l : List α) (i : Nat) (a a' : α), l[i]? = some a →
    ((l.set i a').map f).sum = (l.map f).sum - f a + f a'
  | [], i, a, a', h => by simp at h
  | x :: l, 0, a, a', h => by
    simp only [List.getElem?_cons_zero, Option.some.injEq] at h
    subst h
    simp only [List.set_cons_zero, List.map_cons, List.sum_cons]; omega
  | x :: l, i + 1, a, a', h => by
    simp only [List.getElem?_cons_succ] at h
    simp only [List.set_cons_succ, List.map_cons, List.sum_cons, sum_map_set f l i a a' h]; omega

/-- the world-level ledger: distinct banks carry distinct keys, and for every bank the share totals are the sum over ALL
    accounts of the shares their slot arrays hold in that bank, plus the abandoned dust recorded for it -/
structure WInv (w : WState) : Prop where
  keys : ∀ (i j : Nat) (bi bj : WBank), w.banks[i]? = some bi → w.banks[j]? = some bj → i ≠ j → bi.v.key ≠ bj.v.key
  ledgerA : ∀ (j : Nat) (b : WBank), w.banks[j]? = some b →
    b.v.books.sa = (w.accts.map fun a => posA b.v.key a.slots).sum + w.dustA b.v.key
  ledgerL : ∀ (j : Nat) (b : WBank), w.banks[j]? = some b →
    b.v.books.sl = (w.accts.map fun a => posL b.v.key a.slots).sum + w.dustL b.v.key

theorem commit_inv {w : WState} {ai bi : Nat} {a : AcctV} {b : WBank} {o : Out} {dA dL : Int} {signer vault : Nat} {va : Int}
    (hi : WInv w) (ha : w.accts[ai]? = some a) (hb : w.banks[bi]? = some b)
    (hs : LedgerStep (w.ctx a b signer vault va) o dA dL) : WInv (w.commit ai bi a b o dA dL) := by
  obtain ⟨hk, hA, hL⟩ := hi
  obtain ⟨sA, sL, sO⟩ := hs
  simp only [WState.ctx] at sA sL sO
  have hlen : bi < w.banks.length := by
    rcases Nat.lt_or_ge bi w.banks.length with h | h
    · exact h
    · rw [List.getElem?_eq_none h] at hb; cases hb
  have getb : ∀ j, (w.banks.set bi { b with v := { b.v with books := o.books } })[j]? =
      if bi = j then some { b with v := { b.v with books := o.books } } else w.banks[j]? := by
    intro j
    rw [List.getElem?_set]
    by_cases hj : bi = j
    · subst hj; simp [hlen]
    · simp [hj]
  refine ⟨?_, ?_, ?_⟩
  · intro i j x y hx hy hij
    simp only [WState.commit] at hx hy
    rw [getb] at hx hy
    by_cases h1 : bi = i <;> by_cases h2 : bi = j
    · omega
    · simp only [h1, if_true] at hx; simp only [h2, if_false] at hy
      injection hx with hx; subst hx
      exact hk i j b y (by rw [← h1]; exact hb) hy hij
    · simp only [h1, if_false] at hx; simp only [h2, if_true] at hy
      injection hy with hy; subst hy
      exact hk i j x b hx (by rw [← h2]; exact hb) hij
    · simp only [h1, if_false] at hx; simp only [h2, if_false] at hy
      exact hk i j x y hx hy hij
  · intro j x hx
    simp only [WState.commit] at hx ⊢
    rw [getb] at hx
    by_cases h1 : bi = j
    · simp only [h1, if_true] at hx
      injection hx with hx; subst hx
      simp only
      rw [sum_map_set (fun a => posA b.v.key a.slots) w.accts ai a _ ha]
      have := hA bi b hb
      simp only [bump, if_true]
      omega
    · simp only [h1, if_false] at hx
      have hne : x.v.key ≠ b.v.key := hk j bi x b hx hb (by omega)
      rw [sum_map_set (fun a => posA x.v.key a.slots) w.accts ai a _ ha]
      have := hA j x hx
      have := (sO x.v.key hne).1
      simp only [bump, hne, if_false]
      omega
  · intro j x hx
    simp only [WState.commit] at hx ⊢
    rw [getb] at hx
    by_cases h1 : bi = j
    · simp only [h1, if_true] at hx
      injection hx with hx; subst hx
      simp only
      rw [sum_map_set (fun a => posL b.v.key a.slots) w.accts ai a _ ha]
      have := hL bi b hb
      simp only [bump, if_true]
      omega
    · simp only [h1, if_false] at hx
      have hne : x.v.key ≠ b.v.key := hk j bi x b hx hb (by omega)
      rw [sum_map_set (fun a => posL x.v.key a.slots) w.accts ai a _ ha]
      have := hL j x hx
      have := (sO x.v.key hne).2
      simp only [bump, hne, if_false]
      omega

theorem step_inv (w : WState) (op : WOp) (hi : WInv w) : WInv (w.step op) := by
  cases op with
  | tick dt => exact ⟨hi.keys, hi.ledgerA, hi.ledgerL⟩
  | deposit ai bi signer amount upTo =>
    simp only [WState.step]
    split
    · rename_i a b ha hb
      split
      · rename_i o ho
        exact commit_inv hi ha hb (deposit_ledger ho)
      · exact hi
    · exact hi
  | borrow ai bi signer amount =>
    simp only [WState.step]
    split
    · rename_i a b ha hb
      split
      · rename_i o ho
        exact commit_inv hi ha hb (borrow_ledger ho)
      · exact hi
    · exact hi
  | withdraw ai bi signer amount all vault =>
    simp only [WState.step]
    split
    · rename_i a b ha hb
      split
      · rename_i o ho
        exact commit_inv hi ha hb (withdraw_ledger ho)
      · exact hi
    · exact hi
  | repay ai bi signer amount all =>
    simp only [WState.step]
    split
    · rename_i a b ha hb
      split
      · rename_i o ho
        exact commit_inv hi ha hb (repay_ledger ho)
      · exact hi
    · exact hi
  | close ai bi signer =>
    simp only [WState.step]
    split
    · rename_i a b ha hb
      split
      · rename_i o ho
        exact commit_inv hi ha hb (close_ledger ho)
      · exact hi
    · exact hi

theorem run_inv (ops : List WOp) : ∀ (w : WState), WInv w → WInv (w.run ops) := by
  induction ops with
  | nil => intro w h; exact h
  | cons op rest ih => intro w h; exact ih _ (step_inv w op h)

end Mfi.World
