import Mfi.Lemmas.WorldPos
import Mfi.Lemmas.BankL
import Mfi.Lemmas.DeltaL
namespace Mfi.World
open Mfi Mfi.Gen Mfi.Account Mfi.Bank

theorem inc_active {b0 b' : Bank} {x0 x' : Balance} {now delta : Int} {t : IncType}
    (h : increaseBalance b0 x0 now delta t = .ok (b', x')) : x'.active = x0.active := by
  obtain ⟨b1, x1, _, _, aInc, lDec, b2, b3, hc, _, _, _, _, _, _, _, _, _, _, _, _, hx', _⟩ := (increase_spec h).ex
  obtain ⟨_, ⟨e, hx1⟩⟩ := claim_frame hc
  rw [hx', hx1]

theorem dec_active {b0 b' : Bank} {x0 x' : Balance} {now delta : Int} {t : DecType}
    (h : decreaseBalance b0 x0 now delta t = .ok (b', x')) : x'.active = x0.active := by
  obtain ⟨b1, x1, _, _, aDec, lInc, b2, b3, hc, _, _, _, _, _, _, _, _, _, _, _, _, _, hx', _⟩ := (decrease_spec h).ex
  obtain ⟨_, ⟨e, hx1⟩⟩ := claim_frame hc
  rw [hx', hx1]

theorem applyFees_totals {b b' : Bank} {ch : Interest.StateChanges} (h : applyFees b ch = .ok b') : b'.sa = b.sa ∧ b'.sl = b.sl := by
  unfold applyFees at h
  obtain ⟨g, _, h⟩ := Res.bind_ok h
  obtain ⟨i, _, h⟩ := Res.bind_ok h
  obtain ⟨p, _, h⟩ := Res.bind_ok h
  injection h with h; subst h; exact ⟨rfl, rfl⟩

/-- accrual moves share values, fee buckets and the clock — never the share totals -/
theorem accrue_totals {b b' : Bank} {ir : Interest.IrCalc} {now : Int} (h : accrueInterest b ir now = .ok b') :
    b'.sa = b.sa ∧ b'.sl = b.sl := by
  unfold accrueInterest at h
  dsimp only at h
  split at h
  · cases h
  · split at h
    · injection h with h; subst h; exact ⟨rfl, rfl⟩
    · obtain ⟨ta, _, h⟩ := Res.bind_ok h
      obtain ⟨tl, _, h⟩ := Res.bind_ok h
      split at h
      · injection h with h; subst h; exact ⟨rfl, rfl⟩
      · unfold accrueCore at h
        obtain ⟨ch, _, h⟩ := Res.bind_ok h
        obtain ⟨d, _, h⟩ := Res.bind_ok h
        obtain ⟨acc, _, h⟩ := Res.bind_ok h
        have := applyFees_totals h
        exact this

/-- … nor the two limits -/
theorem accrue_limits {b b' : Bank} {ir : Interest.IrCalc} {now : Int} (h : accrueInterest b ir now = .ok b') :
    b'.depositLimit = b.depositLimit ∧ b'.borrowLimit = b.borrowLimit := by
  unfold accrueInterest at h
  dsimp only at h
  split at h
  · cases h
  · split at h
    · injection h with h; subst h; exact ⟨rfl, rfl⟩
    · obtain ⟨ta, _, h⟩ := Res.bind_ok h
      obtain ⟨tl, _, h⟩ := Res.bind_ok h
      split at h
      · injection h with h; subst h; exact ⟨rfl, rfl⟩
      · unfold accrueCore at h
        obtain ⟨ch, _, h⟩ := Res.bind_ok h
        obtain ⟨d, _, h⟩ := Res.bind_ok h
        obtain ⟨acc, _, h⟩ := Res.bind_ok h
        unfold applyFees at h
        obtain ⟨g, _, h⟩ := Res.bind_ok h
        obtain ⟨i, _, h⟩ := Res.bind_ok h
        obtain ⟨p, _, h⟩ := Res.bind_ok h
        injection h with h; subst h; exact ⟨rfl, rfl⟩

/-- writing the touched slot back and sorting: the touched bank's sums move by exactly the slot's change, every other
    bank's sums stay -/
theorem write_pos {c : Ctx} {l : List Slot} {i : Nat} {s : Slot} {x' : Balance} (hs : l[i]? = some s)
    (ha : s.active = true) (hb : s.bank = c.b.key) (hx : x'.active = true ∨ (x'.a = 0 ∧ x'.l = 0)) :
    posA c.b.key (writeSlot c l i x') = posA c.b.key l - s.a + x'.a ∧
    posL c.b.key (writeSlot c l i x') = posL c.b.key l - s.l + x'.l ∧
    ∀ k, k ≠ c.b.key → posA k (writeSlot c l i x') = posA k l ∧ posL k (writeSlot c l i x') = posL k l := by
  unfold writeSlot
  refine ⟨?_, ?_, ?_⟩
  · rw [posA_sort, posA_set _ l i s _ hs]
    have h1 : ctrA c.b.key s = s.a := by simp [ctrA, ha, hb]
    have h2 : ctrA c.b.key (ofBal c.b.key x') = x'.a := by
      rcases hx with hx | hx
      · simp [ctrA, ofBal, hx]
      · by_cases hact : x'.active = true <;> simp [ctrA, ofBal, hact, hx.1]
    rw [h1, h2]
  · rw [posL_sort, posL_set _ l i s _ hs]
    have h1 : ctrL c.b.key s = s.l := by simp [ctrL, ha, hb]
    have h2 : ctrL c.b.key (ofBal c.b.key x') = x'.l := by
      rcases hx with hx | hx
      · simp [ctrL, ofBal, hx]
      · by_cases hact : x'.active = true <;> simp [ctrL, ofBal, hact, hx.2]
    rw [h1, h2]
  · intro k hk
    have h1 : ctrA k s = 0 ∧ ctrL k s = 0 := by
      have : (s.bank == k) = false := by simp [hb]; omega
      simp [ctrA, ctrL, this]
    have h2 : ctrA k (ofBal c.b.key x') = 0 ∧ ctrL k (ofBal c.b.key x') = 0 := by
      by_cases hact : x'.active = true
      · have : (c.b.key == k) = false := by simp; omega
        simp [ctrA, ctrL, ofBal, hact, this]
      · simp [ctrA, ctrL, ofBal, hact]
    rw [posA_sort, posL_sort, posA_set _ l i s _ hs, posL_set _ l i s _ hs, h1.1, h1.2, h2.1, h2.2]
    omega

theorem findSlot_ok {c : Ctx} {i : Nat} {s : Slot} (h : findSlot c = .ok (i, s)) :
    c.a.slots[i]? = some s ∧ s.active = true ∧ s.bank = c.b.key := by
  unfold findSlot at h
  split at h
  · cases h
  · rename_i j hj
    split at h
    · rename_i s' hs'
      injection h with h; injection h with h1 h2; subst h1; subst h2
      unfold findIdx at hj
      rw [List.findIdx?_eq_some_iff_getElem] at hj
      obtain ⟨hk, hp, _⟩ := hj
      simp only [Bool.and_eq_true, beq_iff_eq] at hp
      have : s' = c.a.slots[j] := by
        have := hs'; simp [hk] at this; exact this.symm
      subst this
      exact ⟨hs', hp.1, hp.2⟩
    · cases h

theorem slotOf_found {c : Ctx} {i : Nat} {s : Slot} (h : findSlot c = .ok (i, s)) : slotOf c.a c.b.key = s := by
  unfold findSlot at h
  unfold slotOf
  split at h
  · cases h
  · rename_i j hj
    rw [hj]
    split at h
    · rename_i s' hs'
      injection h with h; injection h with h1 h2; subst h1; subst h2
      simp [hs']
    · cases h

/-- **the ledger step of a whole instruction**: in the bank operated on, the share totals move by exactly what the
    account's positions in that bank move, plus the shares a closure abandons (`dA`, `dL`); the account's positions in every
    OTHER bank are what they were — find_or_create, the write-back and the sort included -/
structure LedgerStepG (key : Nat) (slots0 slots1 : List Slot) (b0 b1 : Bank) (dA dL : Int) : Prop where
  assets : b1.sa - b0.sa = posA key slots1 - posA key slots0 + dA
  liabs : b1.sl - b0.sl = posL key slots1 - posL key slots0 + dL
  others : ∀ k, k ≠ key → posA k slots1 = posA k slots0 ∧ posL k slots1 = posL k slots0

abbrev LedgerStep (c : Ctx) (o : Out) (dA dL : Int) : Prop := LedgerStepG c.b.key c.a.slots o.slots c.b.books o.books dA dL

theorem borrowCore_delta {e : Ix.Env} {b b' : Bank} {x x' : Balance} {amount t : Int}
    (h : borrowCore e b x amount = .ok (b', x', t)) :
    b'.sa - b.sa = x'.a - x.a ∧ b'.sl - b.sl = x'.l - x.l ∧ x'.active = x.active := by
  unfold borrowCore at h
  obtain ⟨pre, _, h⟩ := Res.bind_ok h
  split at h
  · obtain ⟨fee, _, h⟩ := Res.bind_ok h
    obtain ⟨_, _, h⟩ := Res.bind_ok h
    obtain ⟨tot, _, h⟩ := Res.bind_ok h
    obtain ⟨⟨b2, x2⟩, hd, h⟩ := Res.bind_ok h
    dsimp only at h
    have hs := DeltaL.decrease_delta_eq hd
    have ha := dec_active hd
    split at h
    · injection h with h; injection h with hb hx; injection hx with hx _; subst hb; subst hx; exact ⟨hs.1, hs.2, ha⟩
    · split at h
      · obtain ⟨pf, _, h⟩ := Res.bind_ok h
        injection h with h; injection h with hb hx; injection hx with hx _; subst hb; subst hx; exact ⟨hs.1, hs.2, ha⟩
      · injection h with h; injection h with hb hx; injection hx with hx _; subst hb; subst hx; exact ⟨hs.1, hs.2, ha⟩
  · obtain ⟨⟨b2, x2⟩, hd, h⟩ := Res.bind_ok h
    injection h with h; injection h with hb hx; injection hx with hx _; subst hb; subst hx
    exact ⟨(DeltaL.decrease_delta_eq hd).1, (DeltaL.decrease_delta_eq hd).2, dec_active hd⟩

theorem borrow_ledger {c : Ctx} {amt : Int} {o : Out} (h : borrow c amt = .ok o) : LedgerStep c o 0 0 := by
  obtain ⟨b, slots, i, s, x', hb, _, _, hfc, hs, hcore, hsl⟩ := (borrow_ok h).core
  obtain ⟨hpos, s', hs', hact, hbank⟩ := findOrCreate_pos hfc
  have : s' = s := by rw [hs] at hs'; injection hs' with hs'; exact hs'.symm
  subst this
  obtain ⟨d1, d2, d3⟩ := borrowCore_delta hcore
  obtain ⟨t1, t2⟩ := accrue_totals hb
  have hx : x'.active = true ∨ (x'.a = 0 ∧ x'.l = 0) := Or.inl (by rw [d3]; simpa [toBal] using hact)
  obtain ⟨w1, w2, w3⟩ := write_pos (c := c) (x' := x') hs hact hbank hx
  refine ⟨?_, ?_, ?_⟩
  · rw [hsl, w1, (hpos c.b.key).1]; simp only [toBal] at d1; omega
  · rw [hsl, w2, (hpos c.b.key).2]; simp only [toBal] at d2; omega
  · intro k hk; rw [hsl, (w3 k hk).1, (w3 k hk).2, (hpos k).1, (hpos k).2]; exact ⟨rfl, rfl⟩

theorem deposit_ledger {c : Ctx} {amt : Int} {up : Bool} {o : Out} (h : deposit c amt up = .ok o) : LedgerStep c o 0 0 := by
  obtain ⟨b, a, hb, _, hcore⟩ := (deposit_ok h).core
  obtain ⟨t1, t2⟩ := accrue_totals hb
  split at hcore
  · obtain ⟨hs, hbk, _⟩ := hcore
    exact ⟨by rw [hs, hbk]; omega, by rw [hs, hbk]; omega, fun k _ => by rw [hs]; exact ⟨rfl, rfl⟩⟩
  · obtain ⟨slots, i, s, x', hfc, hs, hd, hsl⟩ := hcore
    obtain ⟨hpos, s', hs', hact, hbank⟩ := findOrCreate_pos hfc
    have : s' = s := by rw [hs] at hs'; injection hs' with hs'; exact hs'.symm
    subst this
    unfold Ix.depositCore at hd
    obtain ⟨r, hr, hd⟩ := Res.bind_ok hd
    obtain ⟨pre, _, hd⟩ := Res.bind_ok hd
    injection hd with hd; injection hd with hb' hx; injection hx with hx _
    have hr' : increaseBalance b (toBal s') c.ixEnv.now (Fx.ofInt a) .depositOnly = .ok (r.1, r.2) := by simpa using hr
    obtain ⟨d1, d2⟩ := DeltaL.increase_delta_eq hr'
    have d3 := inc_active hr'
    have hx' : (x'.getD (toBal s')) = r.2 := by rw [← hx]; rfl
    have hxa : r.2.active = true ∨ (r.2.a = 0 ∧ r.2.l = 0) := Or.inl (by rw [d3]; simpa [toBal] using hact)
    obtain ⟨w1, w2, w3⟩ := write_pos (c := c) (x' := r.2) hs hact hbank hxa
    rw [hx'] at hsl
    refine ⟨?_, ?_, ?_⟩
    · rw [hsl, w1, (hpos c.b.key).1, ← hb']; simp only [toBal] at d1; omega
    · rw [hsl, w2, (hpos c.b.key).2, ← hb']; simp only [toBal] at d2; omega
    · intro k hk; rw [hsl, (w3 k hk).1, (w3 k hk).2, (hpos k).1, (hpos k).2]; exact ⟨rfl, rfl⟩

/-- a withdrawal: a complete one abandons the position's (dust) debt shares in the bank's debt total -/
theorem withdraw_ledger {c : Ctx} {amt : Int} {all : Bool} {o : Out} (h : withdraw c amt all = .ok o) :
    LedgerStep c o 0 (if all then (slotOf c.a c.b.key).l else 0) := by
  obtain ⟨price, b, i, s, x', pre, _, hb, hfs, hcore, _, _, hsl⟩ := (withdraw_ok h).core
  obtain ⟨hs, hact, hbank⟩ := findSlot_ok hfs
  obtain ⟨t1, t2⟩ := accrue_totals hb
  rw [slotOf_found hfs]
  unfold withdrawCore at hcore
  cases all with
  | true =>
    simp only [if_true] at hcore ⊢
    obtain ⟨e1, e2, e3, e4, _, _⟩ := DeltaL.withdraw_all_delta hcore
    obtain ⟨w1, w2, w3⟩ := write_pos (c := c) (x' := x') hs hact hbank (Or.inr ⟨e3, e4⟩)
    refine ⟨?_, ?_, ?_⟩
    · rw [hsl, w1, e1, e3]; simp only [toBal]; omega
    · rw [hsl, w2, e2, e4]; omega
    · intro k hk; rw [hsl]; exact w3 k hk
  | false =>
    simp only [Bool.false_eq_true, if_false] at hcore ⊢
    obtain ⟨p, _, hcore⟩ := Res.bind_ok hcore
    obtain ⟨⟨b2, x2⟩, hd, hcore⟩ := Res.bind_ok hcore
    injection hcore with hcore; injection hcore with hb' hx; injection hx with hx _; subst hb'; subst hx
    obtain ⟨d1, d2⟩ := DeltaL.decrease_delta_eq hd
    have d3 := dec_active hd
    obtain ⟨w1, w2, w3⟩ := write_pos (c := c) (x' := x2) hs hact hbank (Or.inl (by rw [d3]; simpa [toBal] using hact))
    refine ⟨?_, ?_, ?_⟩
    · rw [hsl, w1]; simp only [toBal] at d1; omega
    · rw [hsl, w2]; simp only [toBal] at d2; omega
    · intro k hk; rw [hsl]; exact w3 k hk

/-- a repayment: a complete one abandons the position's (dust) deposit shares in the bank's deposit total -/
theorem repay_ledger {c : Ctx} {amt : Int} {all : Bool} {o : Out} (h : repay c amt all = .ok o) :
    LedgerStep c o (if all then (slotOf c.a c.b.key).a else 0) 0 := by
  obtain ⟨b, i, s, b', x', post, hb, hfs, hcore, _, hbooks, hsl⟩ := (repay_ok h).core
  obtain ⟨hs, hact, hbank⟩ := findSlot_ok hfs
  obtain ⟨t1, t2⟩ := accrue_totals hb
  rw [slotOf_found hfs]
  have hsa : o.books.sa = b'.sa := by rw [hbooks]
  have hsl' : o.books.sl = b'.sl := by rw [hbooks]
  unfold repayCore at hcore
  cases all with
  | true =>
    simp only [if_true] at hcore ⊢
    obtain ⟨e1, e2, e3, e4, _, _⟩ := DeltaL.repay_all_delta hcore
    obtain ⟨w1, w2, w3⟩ := write_pos (c := c) (x' := x') hs hact hbank (Or.inr ⟨e3, e4⟩)
    refine ⟨?_, ?_, ?_⟩
    · rw [hsl, w1, hsa, e2, e3]; omega
    · rw [hsl, w2, hsl', e1, e4]; simp only [toBal]; omega
    · intro k hk; rw [hsl]; exact w3 k hk
  | false =>
    simp only [Bool.false_eq_true, if_false] at hcore ⊢
    obtain ⟨⟨b2, x2⟩, hd, hcore⟩ := Res.bind_ok hcore
    injection hcore with hcore; injection hcore with hb' hx; injection hx with hx _; subst hb'; subst hx
    obtain ⟨d1, d2⟩ := DeltaL.increase_delta_eq hd
    have d3 := inc_active hd
    obtain ⟨w1, w2, w3⟩ := write_pos (c := c) (x' := x2) hs hact hbank (Or.inl (by rw [d3]; simpa [toBal] using hact))
    refine ⟨?_, ?_, ?_⟩
    · rw [hsl, w1, hsa]; simp only [toBal] at d1; dsimp only; omega
    · rw [hsl, w2, hsl']; simp only [toBal] at d2; dsimp only; omega
    · intro k hk; rw [hsl]; exact w3 k hk

/-- a balance closure abandons both (dust) sides of the position -/
theorem close_ledger {c : Ctx} {o : Out} (h : closeBalance c = .ok o) :
    LedgerStep c o (slotOf c.a c.b.key).a (slotOf c.a c.b.key).l := by
  obtain ⟨b, i, s, x', hb, hfs, hcore, hsl⟩ := (close_ok h).core
  obtain ⟨hs, hact, hbank⟩ := findSlot_ok hfs
  obtain ⟨t1, t2⟩ := accrue_totals hb
  rw [slotOf_found hfs]
  obtain ⟨e1, e2, e3, e4, _⟩ := DeltaL.close_balance_delta hcore
  obtain ⟨w1, w2, w3⟩ := write_pos (c := c) (x' := x') hs hact hbank (Or.inr ⟨e3, e4⟩)
  refine ⟨?_, ?_, ?_⟩
  · rw [hsl, w1, e1, e3]; omega
  · rw [hsl, w2, e2, e4]; omega
  · intro k hk; rw [hsl]; exact w3 k hk

/-! ### the ledger over every history of whole instructions -/

theorem sum_map_set {α : Type} (f : α → Int) : ∀ (l : List α) (i : Nat) (a a' : α), l[i]? = some a →
    ((l.set i a').map f).sum = (l.map f).sum - f a + f a'
  | [], i, a, a', h => by simp at h
  | x :: l, 0, a, a', h => by
    simp only [List.getElem?_cons_zero, Option.some.injEq] at h
    subst h
    simp only [List.set_cons_zero, List.map_cons, List.sum_cons]; omega
  | x :: l, i + 1, a, a', h => by
    simp only [List.getElem?_cons_succ] at h
    simp only [List.set_cons_succ, List.map_cons, List.sum_cons, sum_map_set f l i a a' h]; omega

/-- the world-level ledger: distinct banks carry distinct keys, and for every bank the share totals are the sum over ALL
    accounts of the shares their slot arrays hold in that bank, plus the abandoned dust recorded for it -/
structure WInv (w : WState) : Prop where
  keys : ∀ (i j : Nat) (bi bj : WBank), w.banks[i]? = some bi → w.banks[j]? = some bj → i ≠ j → bi.v.key ≠ bj.v.key
  ledgerA : ∀ (j : Nat) (b : WBank), w.banks[j]? = some b →
    b.v.books.sa = (w.accts.map fun a => posA b.v.key a.slots).sum + w.dustA b.v.key
  ledgerL : ∀ (j : Nat) (b : WBank), w.banks[j]? = some b →
    b.v.books.sl = (w.accts.map fun a => posL b.v.key a.slots).sum + w.dustL b.v.key

theorem commit_inv {w : WState} {ai bi : Nat} {a : AcctV} {b : WBank} {slots : List Slot} {flags : Nat} {books : Bank} {opState : Int}
    {window : Admin.Window} {dA dL : Int}
    (hi : WInv w) (ha : w.accts[ai]? = some a) (hb : w.banks[bi]? = some b)
    (hs : LedgerStepG b.v.key a.slots slots b.v.books books dA dL) : WInv (w.commit ai bi a b slots flags books opState window dA dL) := by
  obtain ⟨hk, hA, hL⟩ := hi
  obtain ⟨sA, sL, sO⟩ := hs
  have hlen : bi < w.banks.length := by
    rcases Nat.lt_or_ge bi w.banks.length with h | h
    · exact h
    · rw [List.getElem?_eq_none h] at hb; cases hb
  have getb : ∀ j, (w.banks.set bi { b with v := { b.v with books := books, opState := opState } })[j]? =
      if bi = j then some { b with v := { b.v with books := books, opState := opState } } else w.banks[j]? := by
    intro j
    rw [List.getElem?_set]
    by_cases hj : bi = j
    · subst hj; simp [hlen]
    · simp [hj]
  refine ⟨?_, ?_, ?_⟩
  · intro i j x y hx hy hij
    simp only [WState.commit] at hx hy
    rw [getb] at hx hy
    by_cases h1 : bi = i <;> by_cases h2 : bi = j
    · omega
    · simp only [h1, if_true] at hx; simp only [h2, if_false] at hy
      injection hx with hx; subst hx
      exact hk i j b y (by rw [← h1]; exact hb) hy hij
    · simp only [h1, if_false] at hx; simp only [h2, if_true] at hy
      injection hy with hy; subst hy
      exact hk i j x b hx (by rw [← h2]; exact hb) hij
    · simp only [h1, if_false] at hx; simp only [h2, if_false] at hy
      exact hk i j x y hx hy hij
  · intro j x hx
    simp only [WState.commit] at hx ⊢
    rw [getb] at hx
    by_cases h1 : bi = j
    · simp only [h1, if_true] at hx
      injection hx with hx; subst hx
      simp only
      rw [sum_map_set (fun a => posA b.v.key a.slots) w.accts ai a _ ha]
      have := hA bi b hb
      simp only [bump, if_true]
      omega
    · simp only [h1, if_false] at hx
      have hne : x.v.key ≠ b.v.key := hk j bi x b hx hb (by omega)
      rw [sum_map_set (fun a => posA x.v.key a.slots) w.accts ai a _ ha]
      have := hA j x hx
      have := (sO x.v.key hne).1
      simp only [bump, hne, if_false]
      omega
  · intro j x hx
    simp only [WState.commit] at hx ⊢
    rw [getb] at hx
    by_cases h1 : bi = j
    · simp only [h1, if_true] at hx
      injection hx with hx; subst hx
      simp only
      rw [sum_map_set (fun a => posL b.v.key a.slots) w.accts ai a _ ha]
      have := hL bi b hb
      simp only [bump, if_true]
      omega
    · simp only [h1, if_false] at hx
      have hne : x.v.key ≠ b.v.key := hk j bi x b hx hb (by omega)
      rw [sum_map_set (fun a => posL x.v.key a.slots) w.accts ai a _ ha]
      have := hL j x hx
      have := (sO x.v.key hne).2
      simp only [bump, hne, if_false]
      omega

/-- writing a slot back in place (no sort): same accounting as `write_pos`, for any bank key -/
theorem set_pos {key : Nat} {l : List Slot} {i : Nat} {s : Slot} {x' : Balance} (hs : l[i]? = some s)
    (ha : s.active = true) (hb : s.bank = key) (hx : x'.active = true ∨ (x'.a = 0 ∧ x'.l = 0)) :
    posA key (l.set i (ofBal key x')) = posA key l - s.a + x'.a ∧
    posL key (l.set i (ofBal key x')) = posL key l - s.l + x'.l ∧
    ∀ k, k ≠ key → posA k (l.set i (ofBal key x')) = posA k l ∧ posL k (l.set i (ofBal key x')) = posL k l := by
  refine ⟨?_, ?_, ?_⟩
  · rw [posA_set _ l i s _ hs]
    have h1 : ctrA key s = s.a := by simp [ctrA, ha, hb]
    have h2 : ctrA key (ofBal key x') = x'.a := by
      rcases hx with hx | hx
      · simp [ctrA, ofBal, hx]
      · by_cases hact : x'.active = true <;> simp [ctrA, ofBal, hact, hx.1]
    rw [h1, h2]
  · rw [posL_set _ l i s _ hs]
    have h1 : ctrL key s = s.l := by simp [ctrL, ha, hb]
    have h2 : ctrL key (ofBal key x') = x'.l := by
      rcases hx with hx | hx
      · simp [ctrL, ofBal, hx]
      · by_cases hact : x'.active = true <;> simp [ctrL, ofBal, hact, hx.2]
    rw [h1, h2]
  · intro k hk
    have h1 : ctrA k s = 0 ∧ ctrL k s = 0 := by
      have : (s.bank == k) = false := by simp [hb]; omega
      simp [ctrA, ctrL, this]
    have h2 : ctrA k (ofBal key x') = 0 ∧ ctrL k (ofBal key x') = 0 := by
      by_cases hact : x'.active = true
      · have : (key == k) = false := by simp; omega
        simp [ctrA, ctrL, ofBal, hact, this]
      · simp [ctrA, ctrL, ofBal, hact]
    rw [posA_set _ l i s _ hs, posL_set _ l i s _ hs, h1.1, h1.2, h2.1, h2.2]
    omega

theorem findIdx_slot {l : List Slot} {key i : Nat} (h : findIdx l key = some i) :
    ∃ s, l[i]? = some s ∧ s.active = true ∧ s.bank = key := by
  unfold findIdx at h
  rw [List.findIdx?_eq_some_iff_getElem] at h
  obtain ⟨hk, hp, _⟩ := h
  simp only [Bool.and_eq_true, beq_iff_eq] at hp
  exact ⟨l[i], by simp [hk], hp.1, hp.2⟩

theorem socializeLoss_totals {b b' : Bank} {loss : Int} {k : Bool} (h : socializeLoss b loss = .ok (b', k)) :
    b'.sa = b.sa ∧ b'.sl = b.sl := by
  unfold socializeLoss at h
  obtain ⟨total, _, h⟩ := Res.bind_ok h
  split at h
  · injection h with h; injection h with h1 _; subst h1; exact ⟨rfl, rfl⟩
  · obtain ⟨diff, _, h⟩ := Res.bind_ok h
    obtain ⟨nsv, _, h⟩ := Res.bind_ok h
    injection h with h; injection h with h1 _; subst h1; exact ⟨rfl, rfl⟩

/-- what a successful `World.bankruptcy` went through (the part the ledger needs) -/
theorem bankruptcy_core {c : Ctx} {available : Int} {o : BkrOut} (h : bankruptcy c available = .ok o) :
    ∃ b i x st, accrueInterest c.b.books c.b.ir c.now = .ok b ∧ findIdx c.a.slots c.b.key = some i ∧
      balAt c.a.slots i = .ok x ∧ settleBankruptcy b x available c.now = .ok st ∧
      o.books = st.bank ∧ o.slots = c.a.slots.set i (ofBal c.b.key st.bal) := by
  unfold bankruptcy at h
  obtain ⟨_, _, h⟩ := Res.bind_ok h
  obtain ⟨_, _, h⟩ := Res.bind_ok h
  obtain ⟨_, _, h⟩ := Res.bind_ok h
  obtain ⟨ps, _, h⟩ := Res.bind_ok h
  obtain ⟨eq, _, h⟩ := Res.bind_ok h
  obtain ⟨b, hb, h⟩ := Res.bind_ok h
  split at h
  · cases h
  · rename_i i hi
    obtain ⟨x, hx, h⟩ := Res.bind_ok h
    obtain ⟨st, hst, h⟩ := Res.bind_ok h
    injection h with h
    subst h
    exact ⟨b, i, x, st, hb, hi, hx, hst, rfl, rfl⟩

/-- a bankruptcy settlement moves the bank's debt total by exactly what the bankrupt position's debt moves (the loss
    socialisation touches the deposit share value only), abandons nothing, and leaves the account's other positions alone -/
theorem bankruptcy_ledger {c : Ctx} {available : Int} {o : BkrOut} (h : bankruptcy c available = .ok o) :
    LedgerStepG c.b.key c.a.slots o.slots c.b.books o.books 0 0 := by
  obtain ⟨b, i, x, st, hb, hi, hx, hst, hbooks, hslots⟩ := bankruptcy_core h
  obtain ⟨s, hs, hact, hbank⟩ := findIdx_slot hi
  obtain ⟨s', hs', rfl⟩ := balAt_ok hx
  have : s' = s := by rw [hs] at hs'; injection hs' with hs'; exact hs'.symm
  subst this
  obtain ⟨t1, t2⟩ := accrue_totals hb
  unfold settleBankruptcy at hst
  obtain ⟨badDebt, _, hst⟩ := Res.bind_ok hst
  obtain ⟨_, _, hst⟩ := Res.bind_ok hst
  obtain ⟨rest, _, hst⟩ := Res.bind_ok hst
  obtain ⟨up, _, hst⟩ := Res.bind_ok hst
  obtain ⟨cu, _, hst⟩ := Res.bind_ok hst
  obtain ⟨⟨b1, kill⟩, hsoc, hst⟩ := Res.bind_ok hst
  dsimp only at hst
  obtain ⟨⟨b2, bal2⟩, hinc, hst⟩ := Res.bind_ok hst
  injection hst with hst
  subst hst
  obtain ⟨u1, u2⟩ := socializeLoss_totals hsoc
  obtain ⟨d1, d2⟩ := DeltaL.increase_delta_eq hinc
  have d3 := inc_active hinc
  obtain ⟨w1, w2, w3⟩ := set_pos (key := c.b.key) (x' := bal2) hs hact hbank (Or.inl (by rw [d3]; simpa [toBal] using hact))
  refine ⟨?_, ?_, ?_⟩
  · rw [hslots, hbooks, w1]; simp only [toBal] at d1; dsimp only; omega
  · rw [hslots, hbooks, w2]; simp only [toBal] at d2; dsimp only; omega
  · intro k hk; rw [hslots]; exact w3 k hk

/-! ### liquidation: two accounts, two banks -/

/-- what a successful `World.liquidate` did to the two slot arrays and the two books -/
theorem liquidate_core {c : LiqCtx} {amount : Int} {o : LiqOutW} (h : liquidate c amount = .ok o) :
    c.ab.key ≠ c.lb.key ∧
    ∃ (a l : Bank) (aLq aFin : Int) (lq1 : List Slot) (i1 : Nat) (s1 : Slot) (r1 : Bank × Balance) (i2 : Nat) (s2 : Slot) (r2 : Bank × Balance)
      (lq3 : List Slot) (i3 : Nat) (s3 : Slot) (r3 : Bank × Balance) (i4 : Nat) (s4 : Slot) (r4 : Bank × Balance) (f : Int),
      accrueInterest c.ab.books c.ab.ir c.now = .ok a ∧ accrueInterest c.lb.books c.lb.ir c.now = .ok l ∧
      findOrCreate c.lq.slots c.lb.key l.assetTag c.now = .ok (lq1, i1) ∧ lq1[i1]? = some s1 ∧
      decreaseBalance l (toBal s1) c.now aLq .bypassBorrowLimit = .ok r1 ∧
      findIdx (sortBalances c.le.slots) c.ab.key = some i2 ∧ (sortBalances c.le.slots)[i2]? = some s2 ∧
      decreaseBalance a (toBal s2) c.now (Fx.ofInt amount) .bypassBorrowLimit = .ok r2 ∧
      findOrCreate (lq1.set i1 (ofBal c.lb.key r1.2)) c.ab.key r2.1.assetTag c.now = .ok (lq3, i3) ∧ lq3[i3]? = some s3 ∧
      increaseBalance r2.1 (toBal s3) c.now (Fx.ofInt amount) .bypassDepositLimit = .ok r3 ∧
      findIdx ((sortBalances c.le.slots).set i2 (ofBal c.ab.key r2.2)) c.lb.key = some i4 ∧
      ((sortBalances c.le.slots).set i2 (ofBal c.ab.key r2.2))[i4]? = some s4 ∧
      increaseBalance r1.1 (toBal s4) c.now aFin .repayOnly = .ok r4 ∧
      o.lqSlots = sortBalances (lq3.set i3 (ofBal c.ab.key r3.2)) ∧
      o.leSlots = ((sortBalances c.le.slots).set i2 (ofBal c.ab.key r2.2)).set i4 (ofBal c.lb.key r4.2) ∧
      o.assetBooks = r3.1 ∧ o.liabBooks = { r4.1 with feeI := f } := by
  unfold liquidate at h
  obtain ⟨_, _, h⟩ := Res.bind_ok h
  obtain ⟨_, _, h⟩ := Res.bind_ok h
  obtain ⟨_, hdiff, h⟩ := Res.bind_ok h
  obtain ⟨_, _, h⟩ := Res.bind_ok h
  obtain ⟨_, _, h⟩ := Res.bind_ok h
  obtain ⟨_, _, h⟩ := Res.bind_ok h
  obtain ⟨_, _, h⟩ := Res.bind_ok h
  obtain ⟨_, _, h⟩ := Res.bind_ok h
  obtain ⟨_, _, h⟩ := Res.bind_ok h
  obtain ⟨a, ha, h⟩ := Res.bind_ok h
  obtain ⟨l, hl, h⟩ := Res.bind_ok h
  obtain ⟨_, _, h⟩ := Res.bind_ok h
  obtain ⟨ps, _, h⟩ := Res.bind_ok h
  obtain ⟨pre, _, h⟩ := Res.bind_ok h
  obtain ⟨ap, _, h⟩ := Res.bind_ok h
  obtain ⟨_, _, h⟩ := Res.bind_ok h
  obtain ⟨lp, _, h⟩ := Res.bind_ok h
  obtain ⟨_, _, h⟩ := Res.bind_ok h
  obtain ⟨⟨aLq, aFin, aFee⟩, _, h⟩ := Res.bind_ok h
  dsimp only at h
  obtain ⟨⟨lq1, i1⟩, hf1, h⟩ := Res.bind_ok h
  dsimp only at h
  obtain ⟨x1, hx1, h⟩ := Res.bind_ok h
  obtain ⟨r1, hr1, h⟩ := Res.bind_ok h
  obtain ⟨i2, hi2, h⟩ := Res.bind_ok h
  obtain ⟨x2, hx2, h⟩ := Res.bind_ok h
  obtain ⟨preA, _, h⟩ := Res.bind_ok h
  obtain ⟨_, _, h⟩ := Res.bind_ok h
  obtain ⟨r2, hr2, h⟩ := Res.bind_ok h
  obtain ⟨⟨lq3, i3⟩, hf3, h⟩ := Res.bind_ok h
  dsimp only at h
  obtain ⟨x3, hx3, h⟩ := Res.bind_ok h
  obtain ⟨r3, hr3, h⟩ := Res.bind_ok h
  obtain ⟨fw, _, h⟩ := Res.bind_ok h
  obtain ⟨i4, hi4, h⟩ := Res.bind_ok h
  obtain ⟨x4, hx4, h⟩ := Res.bind_ok h
  obtain ⟨r4, hr4, h⟩ := Res.bind_ok h
  obtain ⟨f, _, h⟩ := Res.bind_ok h
  obtain ⟨ps', _, h⟩ := Res.bind_ok h
  obtain ⟨lp', _, h⟩ := Res.bind_ok h
  obtain ⟨post, _, h⟩ := Res.bind_ok h
  obtain ⟨_, _, h⟩ := Res.bind_ok h
  injection h with h
  subst h
  obtain ⟨s1, hs1, rfl⟩ := balAt_ok hx1
  obtain ⟨s2, hs2, rfl⟩ := balAt_ok hx2
  obtain ⟨s3, hs3, rfl⟩ := balAt_ok hx3
  obtain ⟨s4, hs4, rfl⟩ := balAt_ok hx4
  have hi2' : findIdx (sortBalances c.le.slots) c.ab.key = some i2 := by
    split at hi2
    · rename_i j hj; injection hi2 with hi2; subst hi2; exact hj
    · cases hi2
  have hi4' : findIdx ((sortBalances c.le.slots).set i2 (ofBal c.ab.key r2.2)) c.lb.key = some i4 := by
    split at hi4
    · rename_i j hj; injection hi4 with hi4; subst hi4; exact hj
    · cases hi4
  refine ⟨by simpa using chk_ok hdiff, a, l, aLq, aFin, lq1, i1, s1, r1, i2, s2, r2, lq3, i3, s3, r3, i4, s4, r4, f,
    ha, hl, hf1, hs1, hr1, hi2', hs2, hr2, hf3, hs3, hr3, hi4', hs4, hr4, rfl, rfl, rfl, rfl⟩

/-- **the ledger step of a liquidation**: each of the two banks' share totals moves by exactly what the TWO accounts' slot
    arrays gain or lose in that bank; nothing is abandoned; neither account's holdings in any third bank change -/
structure LedgerStep2 (c : LiqCtx) (o : LiqOutW) : Prop where
  ne : c.ab.key ≠ c.lb.key
  aA : o.assetBooks.sa - c.ab.books.sa = (posA c.ab.key o.lqSlots - posA c.ab.key c.lq.slots) + (posA c.ab.key o.leSlots - posA c.ab.key c.le.slots)
  aL : o.assetBooks.sl - c.ab.books.sl = (posL c.ab.key o.lqSlots - posL c.ab.key c.lq.slots) + (posL c.ab.key o.leSlots - posL c.ab.key c.le.slots)
  lA : o.liabBooks.sa - c.lb.books.sa = (posA c.lb.key o.lqSlots - posA c.lb.key c.lq.slots) + (posA c.lb.key o.leSlots - posA c.lb.key c.le.slots)
  lL : o.liabBooks.sl - c.lb.books.sl = (posL c.lb.key o.lqSlots - posL c.lb.key c.lq.slots) + (posL c.lb.key o.leSlots - posL c.lb.key c.le.slots)
  others : ∀ k, k ≠ c.ab.key → k ≠ c.lb.key →
    posA k o.lqSlots = posA k c.lq.slots ∧ posL k o.lqSlots = posL k c.lq.slots ∧
    posA k o.leSlots = posA k c.le.slots ∧ posL k o.leSlots = posL k c.le.slots

theorem liquidate_ledger {c : LiqCtx} {amount : Int} {o : LiqOutW} (h : liquidate c amount = .ok o) : LedgerStep2 c o := by
  obtain ⟨hne, a, l, aLq, aFin, lq1, i1, s1, r1, i2, s2, r2, lq3, i3, s3, r3, i4, s4, r4, f,
    ha, hl, hf1, hs1, hr1, hi2, hs2, hr2, hf3, hs3, hr3, hi4, hs4, hr4, hoq, hoe, hoa, hol⟩ := liquidate_core h
  obtain ⟨ta1, ta2⟩ := accrue_totals ha
  obtain ⟨tl1, tl2⟩ := accrue_totals hl
  -- move 1: liquidator, debt bank
  obtain ⟨p1, s1', hs1', act1, bk1⟩ := findOrCreate_pos hf1
  have e1 : s1' = s1 := by rw [hs1] at hs1'; injection hs1' with hs1'; exact hs1'.symm
  subst e1
  obtain ⟨d1a, d1l⟩ := DeltaL.decrease_delta_eq hr1
  have a1 := dec_active hr1
  obtain ⟨w1a, w1l, w1o⟩ := set_pos (key := c.lb.key) (x' := r1.2) hs1 act1 bk1 (Or.inl (by rw [a1]; simpa [toBal] using act1))
  -- move 2: liquidatee, collateral bank
  obtain ⟨s2', hs2', act2, bk2⟩ := findIdx_slot hi2
  have e2 : s2' = s2 := by rw [hs2] at hs2'; injection hs2' with hs2'; exact hs2'.symm
  subst e2
  obtain ⟨d2a, d2l⟩ := DeltaL.decrease_delta_eq hr2
  have a2 := dec_active hr2
  obtain ⟨w2a, w2l, w2o⟩ := set_pos (key := c.ab.key) (x' := r2.2) hs2 act2 bk2 (Or.inl (by rw [a2]; simpa [toBal] using act2))
  -- move 3: liquidator, collateral bank
  obtain ⟨p3, s3', hs3', act3, bk3⟩ := findOrCreate_pos hf3
  have e3 : s3' = s3 := by rw [hs3] at hs3'; injection hs3' with hs3'; exact hs3'.symm
  subst e3
  obtain ⟨d3a, d3l⟩ := DeltaL.increase_delta_eq hr3
  have a3 := inc_active hr3
  obtain ⟨w3a, w3l, w3o⟩ := set_pos (key := c.ab.key) (x' := r3.2) hs3 act3 bk3 (Or.inl (by rw [a3]; simpa [toBal] using act3))
  -- move 4: liquidatee, debt bank
  obtain ⟨s4', hs4', act4, bk4⟩ := findIdx_slot hi4
  have e4 : s4' = s4 := by rw [hs4] at hs4'; injection hs4' with hs4'; exact hs4'.symm
  subst e4
  obtain ⟨d4a, d4l⟩ := DeltaL.increase_delta_eq hr4
  have a4 := inc_active hr4
  obtain ⟨w4a, w4l, w4o⟩ := set_pos (key := c.lb.key) (x' := r4.2) hs4 act4 bk4 (Or.inl (by rw [a4]; simpa [toBal] using act4))
  have hne' : c.lb.key ≠ c.ab.key := fun e => hne e.symm
  simp only [toBal] at d1a d1l d2a d2l d3a d3l d4a d4l
  refine ⟨hne, ?_, ?_, ?_, ?_, ?_⟩
  · -- collateral bank, deposit shares
    rw [hoq, hoe, hoa, posA_sort, w3a, (p3 c.ab.key).1, (w1o c.ab.key hne).1, (p1 c.ab.key).1,
      (w4o c.ab.key hne).1, w2a, posA_sort]
    omega
  · rw [hoq, hoe, hoa, posL_sort, w3l, (p3 c.ab.key).2, (w1o c.ab.key hne).2, (p1 c.ab.key).2,
      (w4o c.ab.key hne).2, w2l, posL_sort]
    omega
  · -- debt bank
    rw [hoq, hoe, hol, posA_sort, (w3o c.lb.key hne').1, (p3 c.lb.key).1, w1a, (p1 c.lb.key).1,
      w4a, (w2o c.lb.key hne').1, posA_sort]
    dsimp only
    omega
  · rw [hoq, hoe, hol, posL_sort, (w3o c.lb.key hne').2, (p3 c.lb.key).2, w1l, (p1 c.lb.key).2,
      w4l, (w2o c.lb.key hne').2, posL_sort]
    dsimp only
    omega
  · intro k hka hkl
    refine ⟨?_, ?_, ?_, ?_⟩
    · rw [hoq, posA_sort, (w3o k hka).1, (p3 k).1, (w1o k hkl).1, (p1 k).1]
    · rw [hoq, posL_sort, (w3o k hka).2, (p3 k).2, (w1o k hkl).2, (p1 k).2]
    · rw [hoe, (w4o k hkl).1, (w2o k hka).1, posA_sort]
    · rw [hoe, (w4o k hkl).2, (w2o k hka).2, posL_sort]

theorem commit2_inv {w : WState} {qi ei abi lbi : Nat} {lq le : AcctV} {ab lb : WBank} {o : LiqOutW} {signer : Nat}
    (hi : WInv w) (hqe : qi ≠ ei) (hbl : abi ≠ lbi)
    (hq : w.accts[qi]? = some lq) (he : w.accts[ei]? = some le) (hab : w.banks[abi]? = some ab) (hlb : w.banks[lbi]? = some lb)
    (hs : LedgerStep2 (w.liqCtx lq le ab lb signer) o) : WInv (w.commit2 qi ei abi lbi lq le ab lb o) := by
  obtain ⟨hk, hA, hL⟩ := hi
  obtain ⟨hne, sAA, sAL, sLA, sLL, sO⟩ := hs
  simp only [WState.liqCtx] at hne sAA sAL sLA sLL sO
  have lenA : abi < w.banks.length := by
    rcases Nat.lt_or_ge abi w.banks.length with h | h
    · exact h
    · rw [List.getElem?_eq_none h] at hab; cases hab
  have lenL : lbi < w.banks.length := by
    rcases Nat.lt_or_ge lbi w.banks.length with h | h
    · exact h
    · rw [List.getElem?_eq_none h] at hlb; cases hlb
  have getb : ∀ j, ((w.banks.set abi { ab with v := { ab.v with books := o.assetBooks } }).set lbi { lb with v := { lb.v with books := o.liabBooks } })[j]? =
      if lbi = j then some { lb with v := { lb.v with books := o.liabBooks } }
      else if abi = j then some { ab with v := { ab.v with books := o.assetBooks } } else w.banks[j]? := by
    intro j
    rw [List.getElem?_set, List.getElem?_set]
    by_cases h1 : lbi = j
    · subst h1; simp [lenL]
    · by_cases h2 : abi = j
      · subst h2; simp [h1, lenA]
      · simp [h1, h2]
  have he' : (w.accts.set qi { lq with slots := o.lqSlots })[ei]? = some le := by
    rw [List.getElem?_set]; simp [hqe, he]
  have sumf : ∀ f : AcctV → Int,
      (((w.accts.set qi { lq with slots := o.lqSlots }).set ei { le with slots := o.leSlots }).map f).sum =
      (w.accts.map f).sum - f lq + f { lq with slots := o.lqSlots } - f le + f { le with slots := o.leSlots } := by
    intro f
    rw [sum_map_set f _ ei le _ he', sum_map_set f w.accts qi lq _ hq]
  have keyAL : ab.v.key ≠ lb.v.key := hne
  refine ⟨?_, ?_, ?_⟩
  · intro i j x y hx hy hij
    simp only [WState.commit2] at hx hy
    rw [getb] at hx hy
    have keyOf : ∀ (m : Nat) (z : WBank),
        (if lbi = m then some { lb with v := { lb.v with books := o.liabBooks } }
         else if abi = m then some { ab with v := { ab.v with books := o.assetBooks } } else w.banks[m]?) = some z →
        ∃ z0, w.banks[m]? = some z0 ∧ z.v.key = z0.v.key := by
      intro m z hz
      by_cases h1 : lbi = m
      · simp only [h1, if_true] at hz; injection hz with hz; subst hz; exact ⟨lb, by rw [← h1]; exact hlb, rfl⟩
      · by_cases h2 : abi = m
        · simp only [h1, h2, if_true, if_false] at hz; injection hz with hz; subst hz; exact ⟨ab, by rw [← h2]; exact hab, rfl⟩
        · simp only [h1, h2, if_false] at hz; exact ⟨z, hz, rfl⟩
    obtain ⟨x0, hx0, ex⟩ := keyOf i x hx
    obtain ⟨y0, hy0, ey⟩ := keyOf j y hy
    rw [ex, ey]
    exact hk i j x0 y0 hx0 hy0 hij
  · intro j x hx
    simp only [WState.commit2] at hx ⊢
    rw [getb] at hx
    rw [sumf]
    by_cases h1 : lbi = j
    · simp only [h1, if_true] at hx
      injection hx with hx; subst hx
      have := hA lbi lb hlb
      dsimp only
      omega
    · by_cases h2 : abi = j
      · simp only [h1, h2, if_true, if_false] at hx
        injection hx with hx; subst hx
        have := hA abi ab hab
        dsimp only
        omega
      · simp only [h1, h2, if_false] at hx
        have hna : x.v.key ≠ ab.v.key := hk j abi x ab hx hab (by omega)
        have hnl : x.v.key ≠ lb.v.key := hk j lbi x lb hx hlb (by omega)
        have := hA j x hx
        obtain ⟨o1, _, o3, _⟩ := sO x.v.key hna hnl
        dsimp only
        omega
  · intro j x hx
    simp only [WState.commit2] at hx ⊢
    rw [getb] at hx
    rw [sumf]
    by_cases h1 : lbi = j
    · simp only [h1, if_true] at hx
      injection hx with hx; subst hx
      have := hL lbi lb hlb
      dsimp only
      omega
    · by_cases h2 : abi = j
      · simp only [h1, h2, if_true, if_false] at hx
        injection hx with hx; subst hx
        have := hL abi ab hab
        dsimp only
        omega
      · simp only [h1, h2, if_false] at hx
        have hna : x.v.key ≠ ab.v.key := hk j abi x ab hx hab (by omega)
        have hnl : x.v.key ≠ lb.v.key := hk j lbi x lb hx hlb (by omega)
        have := hL j x hx
        obtain ⟨_, o2, _, o4⟩ := sO x.v.key hna hnl
        dsimp only
        omega

/-- an instruction on a bank alone that leaves its share totals as they were keeps the ledger -/
theorem commitB_inv {w : WState} {bi : Nat} {b : WBank} {books : Bank} (hi : WInv w) (hb : w.banks[bi]? = some b)
    (hsa : books.sa = b.v.books.sa) (hsl : books.sl = b.v.books.sl) : WInv (w.commitB bi b books) := by
  obtain ⟨hk, hA, hL⟩ := hi
  have hlen : bi < w.banks.length := by
    rcases Nat.lt_or_ge bi w.banks.length with h | h
    · exact h
    · rw [List.getElem?_eq_none h] at hb; cases hb
  have getb : ∀ j, (w.banks.set bi { b with v := { b.v with books := books } })[j]? =
      if bi = j then some { b with v := { b.v with books := books } } else w.banks[j]? := by
    intro j
    rw [List.getElem?_set]
    by_cases hj : bi = j
    · subst hj; simp [hlen]
    · simp [hj]
  refine ⟨?_, ?_, ?_⟩
  · intro i j x y hx hy hij
    simp only [WState.commitB] at hx hy
    rw [getb] at hx hy
    by_cases h1 : bi = i <;> by_cases h2 : bi = j
    · omega
    · simp only [h1, if_true] at hx; simp only [h2, if_false] at hy
      injection hx with hx; subst hx
      exact hk i j b y (by rw [← h1]; exact hb) hy hij
    · simp only [h1, if_false] at hx; simp only [h2, if_true] at hy
      injection hy with hy; subst hy
      exact hk i j x b hx (by rw [← h2]; exact hb) hij
    · simp only [h1, if_false] at hx; simp only [h2, if_false] at hy
      exact hk i j x y hx hy hij
  · intro j x hx
    simp only [WState.commitB] at hx ⊢
    rw [getb] at hx
    by_cases h1 : bi = j
    · simp only [h1, if_true] at hx
      injection hx with hx; subst hx
      have := hA bi b hb
      simp only
      omega
    · simp only [h1, if_false] at hx
      exact hA j x hx
  · intro j x hx
    simp only [WState.commitB] at hx ⊢
    rw [getb] at hx
    by_cases h1 : bi = j
    · simp only [h1, if_true] at hx
      injection hx with hx; subst hx
      have := hL bi b hb
      simp only
      omega
    · simp only [h1, if_false] at hx
      exact hL j x hx

theorem accrueIx_ok {c : Ctx} {books : Bank} (h : accrueIx c = .ok books) : accrueInterest c.b.books c.b.ir c.now = .ok books := by
  unfold accrueIx at h
  obtain ⟨_, _, h⟩ := Res.bind_ok h
  exact h

theorem collectFeesIx_ok {c : Ctx} {ok : Bool} {o : CollectOut} (h : collectFeesIx c ok = .ok o) :
    ok = true ∧ ∃ r, collectFees c.b.books.feeI c.b.books.feeG c.b.books.feeP c.vaultAmount = .ok r ∧
      o.books = { c.b.books with feeI := r.feeI, feeG := r.feeG, feeP := r.feeP } ∧
      o.toInsurance = r.toInsurance ∧ o.toGroup = r.toGroup ∧ o.toProgram = r.toProgram := by
  unfold collectFeesIx at h
  obtain ⟨_, _, h⟩ := Res.bind_ok h
  obtain ⟨_, hk, h⟩ := Res.bind_ok h
  obtain ⟨r, hr, h⟩ := Res.bind_ok h
  injection h with h
  subst h
  exact ⟨chk_ok hk, r, hr, rfl, rfl, rfl, rfl⟩

/-- what a successful transfer does to the two slot arrays: the new account holds the old one's positions, the old one none -/
theorem transferIx_ok {g : GroupV} {a o n : AcctV} {signer newKey newAuth : Nat} {ok : Bool}
    (h : transferIx g a signer newKey newAuth ok = .ok (o, n)) :
    o.slots = Transfer.zeroedSlots ∧ n.slots = a.slots ∧ o.key = a.key ∧ n.key = newKey := by
  unfold transferIx at h
  cases ht : Transfer.transfer (toMAcct a) a.key g.key g.admin 1 g.paused signer newKey newAuth (if ok = true then 1 else 2) 0 with
  | error e => rw [ht] at h; cases h
  | ok r =>
    rw [ht] at h
    obtain ⟨ro, rn⟩ := r
    have h' : (ofMAcct a.key ro, ofMAcct newKey rn) = (o, n) := by
      have : (Except.ok (ro, rn) : Res _).map (fun (p : Transfer.MAcct × Transfer.MAcct) => (ofMAcct a.key p.1, ofMAcct newKey p.2)) = .ok (o, n) := h
      injection this
    injection h' with h1 h2
    generalize (if ok = true then 1 else 2) = fw at ht
    unfold Transfer.transfer at ht
    split at ht; · cases ht
    split at ht; · cases ht
    split at ht; · cases ht
    split at ht; · cases ht
    split at ht; · cases ht
    split at ht; · cases ht
    split at ht; · cases ht
    split at ht; · cases ht
    injection ht with ht
    injection ht with e1 e2
    subst e1; subst e2; subst h1; subst h2
    exact ⟨rfl, rfl, rfl, rfl⟩

theorem pos_zeroed (k : Nat) : posA k Transfer.zeroedSlots = 0 ∧ posL k Transfer.zeroedSlots = 0 := by
  constructor <;> simp [posA, posL, Transfer.zeroedSlots, Account.emptySlot, List.replicate, List.filter]

theorem sum_map_set_append {α : Type} (f : α → Int) (l : List α) (i : Nat) (a a' n : α) (h : l[i]? = some a) :
    ((l.set i a' ++ [n]).map f).sum = (l.map f).sum - f a + f a' + f n := by
  rw [List.map_append, List.sum_append, sum_map_set f l i a a' h]
  simp

theorem step_inv (w : WState) (op : WOp) (hi : WInv w) : WInv (w.step op) := by
  cases op with
  | tick dt => exact ⟨hi.keys, hi.ledgerA, hi.ledgerL⟩
  | transfer ai signer newKey newAuth ok =>
    simp only [WState.step]
    split
    · exact hi
    · split
      · rename_i a ha
        split
        · rename_i o n ho
          obtain ⟨e1, e2, _, _⟩ := transferIx_ok ho
          refine ⟨hi.keys, ?_, ?_⟩
          · intro j b hb
            simp only
            rw [sum_map_set_append (fun x => posA b.v.key x.slots) w.accts ai a o n ha, e1, e2, (pos_zeroed b.v.key).1]
            have := hi.ledgerA j b hb
            omega
          · intro j b hb
            simp only
            rw [sum_map_set_append (fun x => posL b.v.key x.slots) w.accts ai a o n ha, e1, e2, (pos_zeroed b.v.key).2]
            have := hi.ledgerL j b hb
            omega
        · exact hi
      · exact hi
  | accrue bi =>
    simp only [WState.step]
    split
    · rename_i b hb
      split
      · rename_i books ho
        obtain ⟨t1, t2⟩ := accrue_totals (accrueIx_ok ho)
        exact commitB_inv hi hb t1 t2
      · exact hi
    · exact hi
  | collect bi ok vault =>
    simp only [WState.step]
    split
    · rename_i b hb
      split
      · rename_i o ho
        obtain ⟨_, r, _, hbk, _⟩ := collectFeesIx_ok ho
        exact commitB_inv hi hb (by rw [hbk]; rfl) (by rw [hbk]; rfl)
      · exact hi
    · exact hi
  | deposit ai bi signer amount upTo =>
    simp only [WState.step]
    split
    · rename_i a b ha hb
      split
      · rename_i o ho
        exact commit_inv hi ha hb (deposit_ledger ho)
      · exact hi
    · exact hi
  | borrow ai bi signer amount =>
    simp only [WState.step]
    split
    · rename_i a b ha hb
      split
      · rename_i o ho
        exact commit_inv hi ha hb (borrow_ledger ho)
      · exact hi
    · exact hi
  | withdraw ai bi signer amount all vault =>
    simp only [WState.step]
    split
    · rename_i a b ha hb
      split
      · rename_i o ho
        exact commit_inv hi ha hb (withdraw_ledger ho)
      · exact hi
    · exact hi
  | repay ai bi signer amount all =>
    simp only [WState.step]
    split
    · rename_i a b ha hb
      split
      · rename_i o ho
        exact commit_inv hi ha hb (repay_ledger ho)
      · exact hi
    · exact hi
  | close ai bi signer =>
    simp only [WState.step]
    split
    · rename_i a b ha hb
      split
      · rename_i o ho
        exact commit_inv hi ha hb (close_ledger ho)
      · exact hi
    · exact hi
  | bankruptcy ai bi signer available =>
    simp only [WState.step]
    split
    · rename_i a b ha hb
      split
      · rename_i o ho
        exact commit_inv hi ha hb (bankruptcy_ledger ho)
      · exact hi
    · exact hi
  | liquidate qi ei abi lbi signer amount =>
    simp only [WState.step]
    split
    · exact hi
    · rename_i hne
      split
      · rename_i lq le ab lb hq he hab hlb
        split
        · rename_i o ho
          exact commit2_inv hi (by omega) (by omega) hq he hab hlb (liquidate_ledger ho)
        · exact hi
      · exact hi

theorem run_inv (ops : List WOp) : ∀ (w : WState), WInv w → WInv (w.run ops) := by
  induction ops with
  | nil => intro w h; exact h
  | cons op rest ih => intro w h; exact ih _ (step_inv w op h)

end Mfi.World
