/- Lemmas to peel `do` blocks in the Res (= Except Fail) monad. -/
import Mfi.Model.Res
import Mfi.Model.Bank

namespace Mfi

theorem Res.bind_ok {α β : Type} {x : Res α} {f : α → Res β} {b : β} (h : (x >>= f) = .ok b) :
    ∃ a, x = .ok a ∧ f a = .ok b := by
  cases x with
  | error e => cases h
  | ok a => exact ⟨a, rfl, h⟩

theorem Res.ofOpt_ok {α : Type} {o : Option α} {a : α} (h : Res.ofOpt o = .ok a) : o = some a := by
  cases o with
  | none => cases h
  | some b => injection h with h; rw [h]

theorem Res.pure_ok {α : Type} {a b : α} (h : (pure a : Res α) = .ok b) : a = b := by
  injection h

theorem opt_bind_some {α β : Type} {x : Option α} {f : α → Option β} {b : β} (h : (x >>= f) = some b) :
    ∃ a, x = some a ∧ f a = some b := by
  cases x with
  | none => cases h
  | some a => exact ⟨a, rfl, h⟩

namespace Bank

theorem math_ok {α : Type} {o : Option α} {a : α} (h : math o = .ok a) : o = some a := Res.ofOpt_ok h

theorem chk_ok {b : Bool} {c : Nat} (h : chk b c = .ok ()) : b = true := by
  unfold chk at h
  split at h
  · assumption
  · cases h

end Bank
end Mfi
