/- Decidable queries over the generated account-constraint table (Mfi/Gen/Constraints.lean). -/
import Mfi.Gen.Constraints
namespace Mfi.Gen.Acc

def fieldOf (s : S) (f : F) : Option Field := (fields s).find? (·.name == f)

/-- the struct carries `constraint = !<group>.load()?.is_protocol_paused()` on the group account `g` -/
def hasNotPaused (s : S) (g : F) : Bool :=
  match fieldOf s g with
  | some fld => fld.ty == .loader .group && fld.cons.contains (.notPaused g)
  | none => false

def hasCons (s : S) (f : F) (c : C) : Bool :=
  match fieldOf s f with
  | some fld => fld.cons.contains c
  | none => false

def hasOneOf (s : S) (f target : F) : Bool :=
  match fieldOf s f with
  | some fld => fld.hasOne.contains target
  | none => false

def isSigner (s : S) (f : F) : Bool :=
  match fieldOf s f with
  | some fld => fld.ty == .signer
  | none => false

def isMutField (s : S) (f : F) : Bool :=
  match fieldOf s f with
  | some fld => fld.isMut
  | none => false

end Mfi.Gen.Acc
