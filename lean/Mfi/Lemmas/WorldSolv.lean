/-
  Solvency at the level of WHOLE instructions: what a successful `World.deposit / withdraw / borrow / repay / closeBalance /
  bankruptcy / liquidate` does to the books' claims (deposits − loans + uncollected fees, scale 2^96 per token) in terms of
  the tokens the instruction moves into or out of the liquidity vault, with the rounding allowance derived from the
  magnitudes involved (the step lemmas of Mfi/Lemmas/SolvL.lean lifted through the stages of each handler), and the
  facts about the books and the slot array that the next instruction's argument needs again (share values, fee buckets and
  position shares stay non-negative).
-/
import Mfi.Model.World
import Mfi.Lemmas.WorldL
import Mfi.Lemmas.WorldPos
import Mfi.Lemmas.WorldLedger
import Mfi.Lemmas.SolvL
import Mfi.Lemmas.DeltaL
import Mfi.Lemmas.FreeL
import Mfi.Props.C05
import Mfi.Props.C17
import Mathlib.Tactic.Positivity
import Mathlib.Tactic.Linarith
import Mathlib.Tactic.Ring

namespace Mfi.World
open Mfi Mfi.Fx Mfi.Bank Mfi.Account Mfi.Gen Mfi.SolvL

/-! ### what is carried along: books and slots -/

/-- share values and fee buckets of a bank's books as every instruction finds and leaves them -/
structure SvFee (b : Bank) : Prop where
  asv : 0 ≤ b.asv
  lsv : 0 < b.lsv
  feeI : 0 ≤ b.feeI
  feeG : 0 ≤ b.feeG
  feeP : 0 ≤ b.feeP

/-- every slot of an array holds non-negative shares on both sides -/
def AllNN (l : List Slot) : Prop := ∀ s ∈ l, 0 ≤ s.a ∧ 0 ≤ s.l

/-- the static configuration the solvency argument relies on (none of the modelled instructions changes it) -/
structure CfgOk (v : BankV) (progFeeRate : Int) : Prop where
  fees : AccrualL.FeesOk v.ir
  base : BaseOk v.ir
  tf : 0 ≤ v.tfBps ∧ v.tfBps ≤ 10000 ∧ 0 ≤ v.tfMax
  orig : 0 ≤ v.origFee
  prog : 0 ≤ progFeeRate ∧ progFeeRate ≤ ONE

theorem AllNN_sort {l : List Slot} (h : AllNN l) : AllNN (sortBalances l) :=
  fun s hs => h s ((List.mergeSort_perm l _).mem_iff.mp hs)

theorem AllNN_set {l : List Slot} {i : Nat} {s : Slot} (h : AllNN l) (hs : 0 ≤ s.a ∧ 0 ≤ s.l) : AllNN (l.set i s) := by
  intro x hx
  rcases List.mem_or_eq_of_mem_set hx with h1 | h1
  · exact h x h1
  · subst h1; exact hs

theorem AllNN_get {l : List Slot} {i : Nat} {s : Slot} (h : AllNN l) (hs : l[i]? = some s) : 0 ≤ s.a ∧ 0 ≤ s.l :=
  h s (List.mem_of_getElem? hs)

theorem AllNN_findOrCreate {l l' : List Slot} {bank : Nat} {tag now : Int} {i : Nat}
    (h : findOrCreate l bank tag now = .ok (l', i)) (hl : AllNN l) : AllNN l' := by
  unfold findOrCreate at h
  split at h
  · injection h with h; injection h with h1 _; subst h1; exact hl
  · split at h
    · cases h
    · split at h
      · cases h
      · injection h with h; injection h with h1 _; subst h1
        exact AllNN_set hl ⟨Int.le_refl _, Int.le_refl _⟩

theorem ofBal_nn {k : Nat} {x : Balance} (h : 0 ≤ x.a ∧ 0 ≤ x.l) : 0 ≤ (ofBal k x).a ∧ 0 ≤ (ofBal k x).l := h

theorem AllNN_write {c : Ctx} {l : List Slot} {i : Nat} {x : Balance} (h : AllNN l) (hx : 0 ≤ x.a ∧ 0 ≤ x.l) :
    AllNN (writeSlot c l i x) := AllNN_sort (AllNN_set h (ofBal_nn hx))

/-! ### the stages -/

/-- accrual: claims rise by less than the allowance, share values do not fall, fee buckets do not fall -/
theorem accrue_solv {b b' : Bank} {ir : Interest.IrCalc} {now : Int} (h : accrueInterest b ir now = .ok b')
    (hb : SvFee b) (hsa : 0 ≤ b.sa) (hsl : 0 ≤ b.sl) (hf : AccrualL.FeesOk ir) (hbase : BaseOk ir) :
    claims b' ≤ claims b + accrueAllowance b ir now ∧ SvFee b' ∧ b.asv ≤ b'.asv ∧ b.lsv ≤ b'.lsv ∧ b'.sa = b.sa ∧ b'.sl = b.sl := by
  have hok : Mfi.Props.C06.BankOk b := ⟨hb.asv, le_of_lt hb.lsv, hsa, hsl⟩
  obtain ⟨m1, m2, e1, e2, f1, f2, f3, _⟩ := Mfi.Props.C06.accrue_spec h hok
  refine ⟨accrue_step h hok hf hbase, ⟨?_, ?_, ?_, ?_, ?_⟩, m1, m2, e1, e2⟩
  · have := hb.asv; omega
  · have := hb.lsv; omega
  · have := hb.feeI; omega
  · have := hb.feeG; omega
  · have := hb.feeP; omega

/-- share values and fee buckets are untouched by a balance increase -/
theorem inc_frame {b b' : Bank} {x x' : Balance} {now delta : Int} {t : IncType}
    (h : increaseBalance b x now delta t = .ok (b', x')) :
    b'.asv = b.asv ∧ b'.lsv = b.lsv ∧ b'.feeI = b.feeI ∧ b'.feeG = b.feeG ∧ b'.feeP = b.feeP := by
  obtain ⟨b1, x1, _, _, _, _, b2, b3, hc, _, _, _, _, _, hb2, _, hb3, _, _, _, _, _, ⟨lc, bc, hb'⟩⟩ := (increase_spec h).ex
  obtain ⟨⟨r, hb1⟩, _⟩ := claim_frame hc
  obtain ⟨e2, _, _⟩ := changeAsset_frame hb2
  obtain ⟨e3, _, _⟩ := changeLiab_frame hb3
  refine ⟨?_, ?_, ?_, ?_, ?_⟩ <;> rw [hb', e3, e2, hb1]

theorem dec_frame {b b' : Bank} {x x' : Balance} {now delta : Int} {t : DecType}
    (h : decreaseBalance b x now delta t = .ok (b', x')) :
    b'.asv = b.asv ∧ b'.lsv = b.lsv ∧ b'.feeI = b.feeI ∧ b'.feeG = b.feeG ∧ b'.feeP = b.feeP := by
  obtain ⟨b1, x1, _, _, _, _, b2, b3, hc, _, _, _, _, _, hb2, _, hb3, _, _, _, _, _, _, ⟨lc, bc, hb'⟩⟩ := (decrease_spec h).ex
  obtain ⟨⟨r, hb1⟩, _⟩ := claim_frame hc
  obtain ⟨e2, _, _⟩ := changeAsset_frame hb2
  obtain ⟨e3, _, _⟩ := changeLiab_frame hb3
  refine ⟨?_, ?_, ?_, ?_, ?_⟩ <;> rw [hb', e3, e2, hb1]

theorem SvFee_of_frame {b b' : Bank} (hb : SvFee b)
    (h : b'.asv = b.asv ∧ b'.lsv = b.lsv ∧ b'.feeI = b.feeI ∧ b'.feeG = b.feeG ∧ b'.feeP = b.feeP) : SvFee b' := by
  obtain ⟨h1, h2, h3, h4, h5⟩ := h
  exact ⟨by rw [h1]; exact hb.asv, by rw [h2]; exact hb.lsv, by rw [h3]; exact hb.feeI, by rw [h4]; exact hb.feeG, by rw [h5]; exact hb.feeP⟩

/-- what the liquidity vault receives of `tokens` sent to it: the amount less the mint's transfer fee -/
def received (e : Ix.Env) (tokens : Int) : Int := tokens - (Token.fee e.tfBps e.tfMax tokens).getD 0

/-- the token program's fee on a pre-fee amount computed by `calculate_pre_fee_amount` is always defined -/
theorem fee_defined {bps maxFee post pre : Int} (hb0 : 0 ≤ bps) (hb1 : bps ≤ 10000) (hp : 0 ≤ post)
    (h : Token.preFee bps maxFee post = some pre) : ∃ f, Token.fee bps maxFee pre = some f := by
  unfold Token.fee
  by_cases h0 : bps = 0
  · exact ⟨0, by simp [h0]⟩
  · by_cases hpre : pre = 0
    · exact ⟨0, by simp [hpre]⟩
    · simp only [h0, hpre, or_self, if_false]
      -- pre is a u64: every non-trivial branch of preFee ends in chkU64
      have hu : 0 ≤ pre ∧ pre ≤ U64MAX := by
        unfold Token.preFee at h
        simp only [h0, if_false] at h
        split at h
        · injection h with h; omega
        · split at h
          · exact (Mfi.FreeL.chkU64_some h).1 ▸ ⟨(Mfi.FreeL.chkU64_some h).2.1, (Mfi.FreeL.chkU64_some h).2.2⟩
          · split at h
            · cases h
            · split at h
              · exact (Mfi.FreeL.chkU64_some h).1 ▸ ⟨(Mfi.FreeL.chkU64_some h).2.1, (Mfi.FreeL.chkU64_some h).2.2⟩
              · exact (Mfi.FreeL.chkU64_some h).1 ▸ ⟨(Mfi.FreeL.chkU64_some h).2.1, (Mfi.FreeL.chkU64_some h).2.2⟩
      have hraw : 0 ≤ (pre * bps + 10000 - 1) / 10000 ∧ (pre * bps + 10000 - 1) / 10000 ≤ U64MAX := by
        have hpb : 0 ≤ pre * bps := Int.mul_nonneg hu.1 hb0
        have hle : pre * bps ≤ pre * 10000 := Int.mul_le_mul_of_nonneg_left hb1 hu.1
        constructor
        · exact Int.ediv_nonneg (by omega) (by decide)
        · have : (pre * bps + 10000 - 1) / 10000 ≤ (pre * 10000 + 10000 - 1) / 10000 := Int.ediv_le_ediv (by decide) (by omega)
          have e : (pre * 10000 + 10000 - 1) / 10000 = pre := by omega
          omega
      unfold Token.chkU64
      simp only [hraw.1, hraw.2, and_self, if_true, Option.map_some]
      exact ⟨_, rfl⟩

/-- the vault receives at least the amount a deposit or repayment is credited with -/
theorem received_covers {e : Ix.Env} {post pre : Int} (htf : 0 ≤ e.tfBps ∧ e.tfBps ≤ 10000 ∧ 0 ≤ e.tfMax) (hp : 0 ≤ post)
    (h : Ix.preFeeAmt e post = .ok pre) : post ≤ received e pre := by
  unfold Ix.preFeeAmt at h
  split at h
  · rename_i x hx
    injection h with h; subst h
    obtain ⟨f, hf⟩ := fee_defined htf.1 htf.2.1 hp hx
    unfold received
    rw [hf]
    exact Mfi.FreeL.prefee_covers htf.1 htf.2.1 htf.2.2 hp hx hf
  · cases h

/-! ### the five user instructions -/

theorem capacity_nonneg {b : Bank} {c : Int} (h : remainingDepositCapacity b = .ok c) : 0 ≤ c := by
  unfold remainingDepositCapacity at h
  by_cases hact : depositLimitActive b = true
  · simp only [hact, Bool.not_true, Bool.false_eq_true, ↓reduceIte] at h
    obtain ⟨cur, hcur, h⟩ := Res.bind_ok h
    obtain ⟨lim, hlim, h⟩ := Res.bind_ok h
    by_cases hge : cur ≥ lim
    · simp only [hge, ↓reduceIte] at h
      injection h with h
      omega
    · simp only [hge, ↓reduceIte] at h
      obtain ⟨r1, h1, h⟩ := Res.bind_ok h
      obtain ⟨r2, h2, h⟩ := Res.bind_ok h
      exact (Mfi.Props.C19.toU64?_some (math_ok h)).2.1
  · simp only [hact, Bool.not_false, ↓reduceIte] at h
    injection h with h
    subst h
    decide

/-- a bank that passed `validate_bank_state` is not the killed one -/
theorem live_of_state {c : Ctx} {k : Gate.Kind} (h : bankState c k = .ok ()) : c.b.opState ≠ 3 := by
  obtain ⟨s, hs, hv⟩ := bankState_ok h
  intro h3
  rw [h3] at hs
  have : s = .killedByBankruptcy := by
    have : Gate.OpState.ofInt 3 = some .killedByBankruptcy := by decide
    rw [this] at hs; injection hs with hs; exact hs.symm
  subst this
  simp [Gate.validateBankState] at hv

/-- what the solvency argument gets out of a successful instruction on one bank: the claims bound in terms of the tokens
    that entered the liquidity vault (`inflow`, negative = paid out) and an allowance, and the facts the next instruction
    needs again -/
structure Solv (c : Ctx) (o : Out) (inflow allow : Int) : Prop where
  claims : claims o.books ≤ claims c.b.books + inflow * ONE * ONE + allow
  sv : SvFee o.books
  asvMono : c.b.books.asv ≤ o.books.asv
  lsvMono : c.b.books.lsv ≤ o.books.lsv
  slots : AllNN o.slots

/-- hypotheses shared by all instructions on one (account, bank) pair -/
structure Pre (c : Ctx) : Prop where
  sv : SvFee c.b.books
  sa : 0 ≤ c.b.books.sa
  sl : 0 ≤ c.b.books.sl
  cfg : CfgOk c.b c.g.progFeeRate
  slots : AllNN c.a.slots
  live : c.b.opState ≠ 3 → 0 < c.b.books.asv

theorem received_zero (e : Ix.Env) : received e 0 = 0 := by
  unfold received Token.fee
  simp

theorem deposit_solv {c : Ctx} {amount : Int} {upTo : Bool} {o : Out} (h : deposit c amount upTo = .ok o)
    (hp : Pre c) (ha : 0 ≤ amount) :
    Solv c o (received c.ixEnv o.tokens) (accrueAllowance c.b.books c.b.ir c.now) := by
  have hok := deposit_ok h
  obtain ⟨b, amt, hb1, hamt, hcore⟩ := hok.core
  obtain ⟨hcl, hsv, m1, m2, _, _⟩ := accrue_solv hb1 hp.sv hp.sa hp.sl hp.cfg.fees hp.cfg.base
  have hlive : 0 < c.b.books.asv := hp.live (live_of_state hok.state)
  have hamt0 : 0 ≤ amt := by
    obtain ⟨h1, h2⟩ := Mfi.Props.C17.deposit_up_to_limit_amount hamt
    cases upTo with
    | true =>
      obtain ⟨cap, hcap, e, _, _⟩ := h1 rfl
      have := capacity_nonneg hcap
      omega
    | false => rw [h2 rfl]; exact ha
  split at hcore
  · obtain ⟨hs, hbk, ht⟩ := hcore
    refine ⟨?_, by rw [hbk]; exact hsv, by rw [hbk]; exact m1, by rw [hbk]; exact m2, by rw [hs]; exact hp.slots⟩
    rw [hbk, ht, received_zero]; omega
  · obtain ⟨slots, i, s, x', hfc, hs, hd, hsl⟩ := hcore
    unfold Ix.depositCore at hd
    obtain ⟨r, hr, hd⟩ := Res.bind_ok hd
    obtain ⟨pre, hpre, hd⟩ := Res.bind_ok hd
    injection hd with hd; injection hd with hb' hx; injection hx with hx htok
    have hr' : increaseBalance b (toBal s) c.ixEnv.now (Fx.ofInt amt) .depositOnly = .ok (r.1, r.2) := by simpa using hr
    have hnn := AllNN_get (AllNN_findOrCreate hfc hp.slots) hs
    have hd0 : 0 ≤ Fx.ofInt amt := Int.mul_nonneg hamt0 (le_of_lt ONE_pos)
    have hst := increase_step hr' hsv.asv (le_of_lt hsv.lsv) hd0 (by simpa [toBal] using hnn.2)
    have hfr := inc_frame hr'
    have hx2 := Mfi.FreeL.inc_nonneg hr' hd0 (by omega) hsv.lsv (by simpa [toBal] using hnn.1) (by simpa [toBal] using hnn.2)
    have hcov := received_covers (e := c.ixEnv) hp.cfg.tf hamt0 hpre
    have hx' : (x'.getD (toBal s)) = r.2 := by rw [← hx]; rfl
    refine ⟨?_, by rw [← hb']; exact SvFee_of_frame hsv hfr, by rw [← hb', hfr.1]; exact m1, by rw [← hb', hfr.2.1]; exact m2, ?_⟩
    · rw [← hb', ← htok]
      have e1 : Fx.ofInt amt * ONE = amt * ONE * ONE := rfl
      have e2 : amt * ONE * ONE ≤ received c.ixEnv pre * ONE * ONE := by
        have := Int.mul_le_mul_of_nonneg_right hcov (Int.mul_nonneg (le_of_lt ONE_pos) (le_of_lt ONE_pos))
        linarith only [this]
      rw [e1] at hst
      omega
    · rw [hsl, hx']
      exact AllNN_write (AllNN_findOrCreate hfc hp.slots) hx2

theorem prefee_nonneg {e : Ix.Env} {post pre : Int} (htf : 0 ≤ e.tfBps ∧ e.tfBps ≤ 10000 ∧ 0 ≤ e.tfMax) (hp : 0 ≤ post)
    (h : Ix.preFeeAmt e post = .ok pre) : 0 ≤ pre := by
  have hcov := received_covers htf hp h
  unfold Ix.preFeeAmt at h
  split at h
  · rename_i x hx
    injection h with h; subst h
    obtain ⟨f, hf⟩ := fee_defined htf.1 htf.2.1 hp hx
    -- the fee is never negative
    have hf0 : 0 ≤ f := by
      unfold Token.fee at hf
      split at hf
      · injection hf with hf; omega
      · cases hc : Token.chkU64 ((x * e.tfBps + 10000 - 1) / 10000) with
        | none => rw [hc] at hf; cases hf
        | some raw =>
          rw [hc] at hf
          simp only [Option.map_some] at hf
          injection hf with hf
          have := (Mfi.FreeL.chkU64_some hc)
          have h1 : 0 ≤ raw := by omega
          have h2 := htf.2.2
          omega
    unfold received at hcov
    rw [hf] at hcov
    simp only [Option.getD_some] at hcov
    omega
  · cases h

theorem satAdd_le {a b : Int} (ha : 0 ≤ a) (hb : 0 ≤ b) : 0 ≤ Ix.satAdd a b ∧ Ix.satAdd a b ≤ a + b := by
  unfold Ix.satAdd
  have h1 := MAX_eq
  have h2 := MIN_eq
  dsimp only
  split
  · omega
  · split
    · omega
    · omega

theorem satSub_eq {a b : Int} (hb : 0 ≤ b) (hba : b ≤ a) (ha : a ≤ Fx.MAX) : Ix.satSub a b = a - b := by
  unfold Ix.satSub
  have h2 := MIN_eq
  dsimp only
  split
  · omega
  · split
    · omega
    · rfl

/-- the booking of a borrow: position debited by amount + origination fee, the fee added to the fee buckets, `t` tokens
    paid out of the vault -/
theorem borrowCore_solv {e : Ix.Env} {b b' : Bank} {x x' : Balance} {amount t : Int}
    (h : borrowCore e b x amount = .ok (b', x', t)) (hb : SvFee b) (hasv : 0 < b.asv) (hx : 0 ≤ x.a ∧ 0 ≤ x.l) (ha : 0 ≤ amount)
    (htf : 0 ≤ e.tfBps ∧ e.tfBps ≤ 10000 ∧ 0 ≤ e.tfMax) (horig : 0 ≤ e.origFee) (hprog : 0 ≤ e.progFeeRate ∧ e.progFeeRate ≤ ONE) :
    claims b' < claims b - t * ONE * ONE + b.asv + b.lsv + 1 ∧ SvFee b' ∧ b'.asv = b.asv ∧ b'.lsv = b.lsv ∧ 0 ≤ x'.a ∧ 0 ≤ x'.l := by
  have hONE := ONE_pos
  unfold borrowCore at h
  obtain ⟨pre, hpre, h⟩ := Res.bind_ok h
  have hpre0 := prefee_nonneg htf ha hpre
  have hofpre : 0 ≤ Fx.ofInt pre := Int.mul_nonneg hpre0 (le_of_lt hONE)
  split at h
  · obtain ⟨fee, hfee, h⟩ := Res.bind_ok h
    obtain ⟨_, _, h⟩ := Res.bind_ok h
    obtain ⟨tot, htot, h⟩ := Res.bind_ok h
    obtain ⟨⟨b2, x2⟩, hd, h⟩ := Res.bind_ok h
    dsimp only at h
    obtain ⟨efee, _, hfeeMax⟩ := mul?_some (math_ok hfee)
    have hfee0 : 0 ≤ fee := by rw [efee]; exact Int.ediv_nonneg (Int.mul_nonneg hofpre horig) (le_of_lt hONE)
    have etot : tot = Fx.ofInt pre + fee := by
      unfold Interest.addP at htot
      split at htot
      · injection htot with htot; exact htot.symm
      · cases htot
    have htot0 : 0 ≤ tot := by omega
    have hst := decrease_step hd hb.asv (le_of_lt hb.lsv) htot0 hx.1
    have hfr := dec_frame hd
    have hnn := Mfi.FreeL.dec_nonneg hd htot0 hasv hb.lsv hx.1 hx.2
    have hsv2 := SvFee_of_frame hb hfr
    have e1 : tot * ONE = pre * ONE * ONE + fee * ONE := by rw [etot]; unfold Fx.ofInt; ring
    split at h
    · rename_i hf0
      injection h with h; injection h with h1 h2; injection h2 with h2 h3
      subst h1; subst h2; subst h3
      rw [hf0] at e1
      exact ⟨by omega, hsv2, hfr.1, hfr.2.1, hnn.1, hnn.2⟩
    · split at h
      · obtain ⟨pf, hpf, h⟩ := Res.bind_ok h
        injection h with h; injection h with h1 h2; injection h2 with h2 h3
        subst h1; subst h2; subst h3
        obtain ⟨epf, _, _⟩ := mul?_some (math_ok hpf)
        obtain ⟨p0, p1⟩ := frac_mul_bounds hfee0 hprog.1 hprog.2
        rw [← epf] at p0 p1
        have es := satSub_eq p0 p1 hfeeMax
        obtain ⟨g0, g1⟩ := satAdd_le hsv2.feeG (by rw [es]; omega : 0 ≤ Ix.satSub fee pf)
        obtain ⟨q0, q1⟩ := satAdd_le hsv2.feeP p0
        rw [es] at g1
        refine ⟨?_, ⟨hsv2.asv, hsv2.lsv, hsv2.feeI, g0, q0⟩, hfr.1, hfr.2.1, hnn.1, hnn.2⟩
        unfold claims at hst ⊢
        simp only
        have : (b2.feeI + Ix.satAdd b2.feeG (fee - pf) + Ix.satAdd b2.feeP pf) * ONE ≤ (b2.feeI + b2.feeG + b2.feeP) * ONE + fee * ONE := by
          have : b2.feeI + Ix.satAdd b2.feeG (fee - pf) + Ix.satAdd b2.feeP pf ≤ b2.feeI + b2.feeG + b2.feeP + fee := by omega
          have := Int.mul_le_mul_of_nonneg_right this (le_of_lt hONE)
          linarith only [this]
        rw [es]
        omega
      · injection h with h; injection h with h1 h2; injection h2 with h2 h3
        subst h1; subst h2; subst h3
        obtain ⟨g0, g1⟩ := satAdd_le hsv2.feeG hfee0
        refine ⟨?_, ⟨hsv2.asv, hsv2.lsv, hsv2.feeI, g0, hsv2.feeP⟩, hfr.1, hfr.2.1, hnn.1, hnn.2⟩
        unfold claims at hst ⊢
        simp only
        have : (b2.feeI + Ix.satAdd b2.feeG fee + b2.feeP) * ONE ≤ (b2.feeI + b2.feeG + b2.feeP) * ONE + fee * ONE := by
          have : b2.feeI + Ix.satAdd b2.feeG fee + b2.feeP ≤ b2.feeI + b2.feeG + b2.feeP + fee := by omega
          have := Int.mul_le_mul_of_nonneg_right this (le_of_lt hONE)
          linarith only [this]
        omega
  · obtain ⟨⟨b2, x2⟩, hd, h⟩ := Res.bind_ok h
    injection h with h; injection h with h1 h2; injection h2 with h2 h3
    subst h1; subst h2; subst h3
    have hst := decrease_step hd hb.asv (le_of_lt hb.lsv) hofpre hx.1
    have hfr := dec_frame hd
    have hnn := Mfi.FreeL.dec_nonneg hd hofpre hasv hb.lsv hx.1 hx.2
    have e1 : Fx.ofInt pre * ONE = pre * ONE * ONE := rfl
    rw [e1] at hst
    exact ⟨hst, SvFee_of_frame hb hfr, hfr.1, hfr.2.1, hnn.1, hnn.2⟩

theorem borrow_solv {c : Ctx} {amount : Int} {o : Out} (h : borrow c amount = .ok o) (hp : Pre c) (ha : 0 ≤ amount) :
    Solv c o (-o.tokens) (accrueAllowance c.b.books c.b.ir c.now + (o.books.asv + o.books.lsv + 1)) := by
  obtain ⟨b, slots, i, s, x', hb1, _, hstate, hfc, hs, hcore, hsl⟩ := (borrow_ok h).core
  obtain ⟨hcl, hsv, m1, m2, _, _⟩ := accrue_solv hb1 hp.sv hp.sa hp.sl hp.cfg.fees hp.cfg.base
  have hlive : 0 < c.b.books.asv := hp.live (live_of_state hstate)
  have hnn := AllNN_get (AllNN_findOrCreate hfc hp.slots) hs
  obtain ⟨hst, hsv', e1, e2, n1, n2⟩ := borrowCore_solv hcore hsv (by omega) (by simpa [toBal] using hnn) ha hp.cfg.tf hp.cfg.orig hp.cfg.prog
  refine ⟨?_, hsv', by rw [e1]; exact m1, by rw [e2]; exact m2, by rw [hsl]; exact AllNN_write (AllNN_findOrCreate hfc hp.slots) ⟨n1, n2⟩⟩
  rw [e1, e2]
  have : -o.tokens * ONE * ONE = -(o.tokens * ONE * ONE) := by ring
  omega

theorem withdrawAll_frame {b b' : Bank} {x x' : Balance} {now amt : Int} (h : withdrawAll b x now = .ok (b', x', amt)) :
    b'.asv = b.asv ∧ b'.lsv = b.lsv ∧ b.feeI ≤ b'.feeI ∧ b'.feeG = b.feeG ∧ b'.feeP = b.feeP ∧ b'.flags = b.flags := by
  have hONE := ONE_pos
  unfold withdrawAll at h
  obtain ⟨⟨b1, x1⟩, hc, h⟩ := Res.bind_ok h
  dsimp only at h
  obtain ⟨curA, hcurA, h⟩ := Res.bind_ok h
  obtain ⟨_, _, h⟩ := Res.bind_ok h
  obtain ⟨_, _, h⟩ := Res.bind_ok h
  obtain ⟨_, _, h⟩ := Res.bind_ok h
  obtain ⟨_, _, h⟩ := Res.bind_ok h
  obtain ⟨b2, hb2, h⟩ := Res.bind_ok h
  obtain ⟨_, _, h⟩ := Res.bind_ok h
  obtain ⟨dust, hdust, h⟩ := Res.bind_ok h
  obtain ⟨f, hf, h⟩ := Res.bind_ok h
  obtain ⟨amt', hamt, h⟩ := Res.bind_ok h
  injection h with h
  injection h with hb _
  obtain ⟨⟨r, eb1⟩, _⟩ := claim_frame hc
  obtain ⟨eb2, _, _⟩ := changeAsset_frame hb2
  have ed := (sub?_some (math_ok hdust)).1
  have ef := (add?_some (math_ok hf)).1
  have hfl : Fx.floor curA ≤ curA := mulfloor_le curA
  have hfi : b2.feeI = b.feeI := by rw [eb2, eb1]
  rw [← hb]
  refine ⟨by rw [eb2, eb1], by rw [eb2, eb1], ?_, by rw [eb2, eb1], by rw [eb2, eb1], by rw [eb2, eb1]⟩
  simp only
  omega

theorem repayAll_frame {b b' : Bank} {x x' : Balance} {now amt : Int} (h : repayAll b x now = .ok (b', x', amt)) :
    b'.asv = b.asv ∧ b'.lsv = b.lsv ∧ b.feeI ≤ b'.feeI ∧ b'.feeG = b.feeG ∧ b'.feeP = b.feeP ∧ b'.flags = b.flags ∧
    0 ≤ amt ∧ amt * ONE * ONE < x.l * b.lsv + ONE * ONE := by
  have hONE := ONE_pos
  unfold repayAll at h
  obtain ⟨⟨b1, x1⟩, hc, h⟩ := Res.bind_ok h
  dsimp only at h
  obtain ⟨curL, hcurL, h⟩ := Res.bind_ok h
  obtain ⟨_, _, h⟩ := Res.bind_ok h
  obtain ⟨_, _, h⟩ := Res.bind_ok h
  obtain ⟨_, _, h⟩ := Res.bind_ok h
  obtain ⟨_, _, h⟩ := Res.bind_ok h
  obtain ⟨b2, hb2, h⟩ := Res.bind_ok h
  obtain ⟨spl, hspl, h⟩ := Res.bind_ok h
  obtain ⟨dust, hdust, h⟩ := Res.bind_ok h
  obtain ⟨f, hf, h⟩ := Res.bind_ok h
  obtain ⟨amt', hamt, h⟩ := Res.bind_ok h
  injection h with h
  injection h with hb h2
  injection h2 with _ h3
  subst h3
  obtain ⟨⟨r, eb1⟩, ⟨e, ex1⟩⟩ := claim_frame hc
  obtain ⟨eb2, _, _⟩ := changeLiab_frame hb2
  have ed := (sub?_some (math_ok hdust)).1
  have ef := (add?_some (math_ok hf)).1
  obtain ⟨k, ek, k1, k2⟩ := Mfi.Props.C07.ceil_spec (math_ok hspl)
  obtain ⟨eamt, a0, _⟩ := Mfi.Props.C19.toU64?_some (math_ok hamt)
  have hfi : b2.feeI = b.feeI := by rw [eb2, eb1]
  have ecur : curL = x.l * b.lsv / ONE := by
    unfold liabAmount at hcurL
    rw [ex1, eb1] at hcurL
    exact (mul?_some (math_ok hcurL)).1
  have hspl' : spl = amt' * ONE := by rw [eamt, ek, Int.mul_ediv_cancel _ (by omega)]
  have hle : curL * ONE ≤ x.l * b.lsv := by rw [ecur]; exact Int.ediv_mul_le _ (by omega)
  rw [← hb]
  refine ⟨by rw [eb2, eb1], by rw [eb2, eb1], ?_, by rw [eb2, eb1], by rw [eb2, eb1], by rw [eb2, eb1], a0, ?_⟩
  · simp only; omega
  · have h1 : amt' * ONE < curL + ONE := by omega
    have h2 : amt' * ONE * ONE < (curL + ONE) * ONE := Int.mul_lt_mul_of_pos_right h1 hONE
    have h3 : (curL + ONE) * ONE = curL * ONE + ONE * ONE := Int.add_mul _ _ _
    omega

theorem withdraw_solv {c : Ctx} {amount : Int} {all : Bool} {o : Out} (h : withdraw c amount all = .ok o) (hp : Pre c) (ha : 0 ≤ amount) :
    Solv c o (-o.tokens) (accrueAllowance c.b.books c.b.ir c.now + (o.books.asv + o.books.lsv + 1)) := by
  have hok := withdraw_ok h
  obtain ⟨price, b, i, s, x', pre, _, hb1, hfs, hcore, htok, _, hsl⟩ := hok.core
  obtain ⟨hcl, hsv, m1, m2, _, _⟩ := accrue_solv hb1 hp.sv hp.sa hp.sl hp.cfg.fees hp.cfg.base
  have hlive : 0 < c.b.books.asv := hp.live (live_of_state hok.state)
  obtain ⟨hs, hact, hbank⟩ := findSlot_ok hfs
  have hnn := AllNN_get hp.slots hs
  have hle : o.tokens ≤ pre := by
    rw [htok]; unfold withdrawPays; split
    · exact Int.min_le_left _ _
    · exact Int.le_refl _
  have hle2 : o.tokens * ONE * ONE ≤ pre * ONE * ONE := by
    have := Int.mul_le_mul_of_nonneg_right hle (Int.mul_nonneg (le_of_lt ONE_pos) (le_of_lt ONE_pos))
    linarith only [this]
  have hneg : -o.tokens * ONE * ONE = -(o.tokens * ONE * ONE) := by ring
  unfold withdrawCore at hcore
  cases all with
  | true =>
    simp only [if_true] at hcore
    have hst := withdraw_all_step hcore hsv.asv (by simpa [toBal] using hnn.1)
    obtain ⟨f1, f2, f3, f4, f5, _⟩ := withdrawAll_frame hcore
    obtain ⟨_, _, z1, z2, _, _⟩ := DeltaL.withdraw_all_delta hcore
    have hsv' : SvFee o.books := ⟨by rw [f1]; exact hsv.asv, by rw [f2]; exact hsv.lsv, by have := hsv.feeI; omega, by rw [f4]; exact hsv.feeG, by rw [f5]; exact hsv.feeP⟩
    refine ⟨?_, hsv', by rw [f1]; exact m1, by rw [f2]; exact m2, by rw [hsl]; exact AllNN_write hp.slots ⟨by omega, by omega⟩⟩
    have := hsv'.asv; have := hsv'.lsv
    omega
  | false =>
    simp only [Bool.false_eq_true, if_false] at hcore
    obtain ⟨p, hpre, hcore⟩ := Res.bind_ok hcore
    obtain ⟨⟨b2, x2⟩, hd, hcore⟩ := Res.bind_ok hcore
    injection hcore with hcore; injection hcore with hb' hx; injection hx with hx hpp; subst hb'; subst hx; subst hpp
    have hp0 := prefee_nonneg (e := c.ixEnv) hp.cfg.tf ha hpre
    have hofp : 0 ≤ Fx.ofInt p := Int.mul_nonneg hp0 (le_of_lt ONE_pos)
    have hst := decrease_step hd hsv.asv (le_of_lt hsv.lsv) hofp (by simpa [toBal] using hnn.1)
    have hfr := dec_frame hd
    have hx2 := Mfi.FreeL.dec_nonneg hd hofp (by omega) hsv.lsv (by simpa [toBal] using hnn.1) (by simpa [toBal] using hnn.2)
    have e1 : Fx.ofInt p * ONE = p * ONE * ONE := rfl
    rw [e1] at hst
    refine ⟨?_, SvFee_of_frame hsv hfr, by rw [hfr.1]; exact m1, by rw [hfr.2.1]; exact m2, by rw [hsl]; exact AllNN_write hp.slots hx2⟩
    rw [hfr.1, hfr.2.1]
    omega

/-- the risk admin's token-less full repayment on a bank flagged for it (the sanctioned write-off of a sunset bank) -/
def tokenless (c : Ctx) (all : Bool) : Bool :=
  c.signer == c.g.riskAdmin && hasFlag c.b.books.flags TOKENLESS_REPAYMENTS_ALLOWED && all

theorem repay_solv {c : Ctx} {amount : Int} {all : Bool} {o : Out} (h : repay c amount all = .ok o) (hp : Pre c) (ha : 0 ≤ amount) :
    Solv c o (received c.ixEnv o.tokens)
      (accrueAllowance c.b.books c.b.ir c.now + (if all then ONE else 0) +
        (if tokenless c all then (slotOf c.a c.b.key).l * o.books.lsv + ONE * ONE else 0)) := by
  have hok := repay_ok h
  obtain ⟨b, i, s, b', x', post, hb1, hfs, hcore, htok, hbooks, hsl⟩ := hok.core
  have hok6 : Mfi.Props.C06.BankOk c.b.books := ⟨hp.sv.asv, le_of_lt hp.sv.lsv, hp.sa, hp.sl⟩
  have hflags : b.flags = c.b.books.flags := (Mfi.Props.C06.accrue_spec hb1 hok6).2.2.2.2.2.2.2.2.2.2.2
  obtain ⟨hcl, hsv, m1, m2, _, _⟩ := accrue_solv hb1 hp.sv hp.sa hp.sl hp.cfg.fees hp.cfg.base
  have hlive : 0 < c.b.books.asv := hp.live (live_of_state hok.state)
  obtain ⟨hs, hact, hbank⟩ := findSlot_ok hfs
  have hnn := AllNN_get hp.slots hs
  have hcb : claims o.books = claims b' := by rw [hbooks]; rfl
  rw [slotOf_found hfs]
  unfold repayCore at hcore
  cases all with
  | true =>
    simp only [if_true] at hcore ⊢
    have hst := repay_all_step hcore
    obtain ⟨f1, f2, f3, f4, f5, f6, p0, pbound⟩ := repayAll_frame hcore
    obtain ⟨_, _, z1, z2, _, _⟩ := DeltaL.repay_all_delta hcore
    have hsv' : SvFee o.books := by
      rw [hbooks]
      exact ⟨by simp only; rw [f1]; exact hsv.asv, by simp only; rw [f2]; exact hsv.lsv, by simp only; have := hsv.feeI; omega,
        by simp only; rw [f4]; exact hsv.feeG, by simp only; rw [f5]; exact hsv.feeP⟩
    have elsv : o.books.lsv = b.lsv := by rw [hbooks]; exact f2
    have easv : o.books.asv = b.asv := by rw [hbooks]; exact f1
    refine ⟨?_, hsv', by rw [easv]; exact m1, by rw [elsv]; exact m2, by rw [hsl]; exact AllNN_write hp.slots ⟨by omega, by omega⟩⟩
    rw [hcb, elsv]
    unfold repayTokens at htok
    by_cases htl : tokenless c true = true
    · have hcond : (c.signer == c.g.riskAdmin && hasFlag b'.flags TOKENLESS_REPAYMENTS_ALLOWED && true) = true := by
        rw [f6, hflags]; exact htl
      rw [if_pos hcond] at htok
      injection htok with htok
      rw [← htok, received_zero, if_pos htl]
      simp only [toBal] at pbound
      omega
    · have hcond : ¬ (c.signer == c.g.riskAdmin && hasFlag b'.flags TOKENLESS_REPAYMENTS_ALLOWED && true) = true := by
        rw [f6, hflags]; exact htl
      rw [if_neg hcond] at htok
      have hcov := received_covers (e := c.ixEnv) hp.cfg.tf p0 htok
      have e2 : post * ONE * ONE ≤ received c.ixEnv o.tokens * ONE * ONE := by
        have := Int.mul_le_mul_of_nonneg_right hcov (Int.mul_nonneg (le_of_lt ONE_pos) (le_of_lt ONE_pos))
        linarith only [this]
      rw [if_neg htl]
      omega
  | false =>
    simp only [Bool.false_eq_true, if_false] at hcore ⊢
    obtain ⟨⟨b2, x2⟩, hd, hcore⟩ := Res.bind_ok hcore
    injection hcore with hcore; injection hcore with hb' hx; injection hx with hx hpp; subst hb'; subst hx; subst hpp
    have hofa : 0 ≤ Fx.ofInt amount := Int.mul_nonneg ha (le_of_lt ONE_pos)
    have hst := increase_step hd hsv.asv (le_of_lt hsv.lsv) hofa (by simpa [toBal] using hnn.2)
    have hfr := inc_frame hd
    have hx2 := Mfi.FreeL.inc_nonneg hd hofa (by omega) hsv.lsv (by simpa [toBal] using hnn.1) (by simpa [toBal] using hnn.2)
    have hsv' : SvFee o.books := by
      rw [hbooks]
      have := SvFee_of_frame hsv hfr
      exact ⟨this.asv, this.lsv, this.feeI, this.feeG, this.feeP⟩
    have elsv : o.books.lsv = b.lsv := by rw [hbooks]; exact hfr.2.1
    have easv : o.books.asv = b.asv := by rw [hbooks]; exact hfr.1
    refine ⟨?_, hsv', by rw [easv]; exact m1, by rw [elsv]; exact m2, by rw [hsl]; exact AllNN_write hp.slots hx2⟩
    rw [hcb]
    have hnt : tokenless c false = false := by simp [tokenless]
    rw [hnt]
    simp only [Bool.false_eq_true, if_false]
    unfold repayTokens at htok
    simp only [Bool.and_false, Bool.false_eq_true, if_false] at htok
    have hcov := received_covers (e := c.ixEnv) hp.cfg.tf ha htok
    have e2 : amount * ONE * ONE ≤ received c.ixEnv o.tokens * ONE * ONE := by
      have := Int.mul_le_mul_of_nonneg_right hcov (Int.mul_nonneg (le_of_lt ONE_pos) (le_of_lt ONE_pos))
      linarith only [this]
    have e1 : Fx.ofInt amount * ONE = amount * ONE * ONE := rfl
    rw [e1] at hst
    omega

theorem close_solv {c : Ctx} {o : Out} (h : closeBalance c = .ok o) (hp : Pre c) :
    Solv c o 0 (accrueAllowance c.b.books c.b.ir c.now) := by
  obtain ⟨b, i, s, x', hb1, hfs, hcore, hsl⟩ := (close_ok h).core
  obtain ⟨hcl, hsv, m1, m2, _, _⟩ := accrue_solv hb1 hp.sv hp.sa hp.sl hp.cfg.fees hp.cfg.base
  obtain ⟨_, _, z1, z2, _⟩ := DeltaL.close_balance_delta hcore
  have hb : o.books = { b with emissionsRemaining := o.books.emissionsRemaining } := by
    unfold closeBalanceOp at hcore
    obtain ⟨⟨b1, x1⟩, hc, hcore⟩ := Res.bind_ok hcore
    dsimp only at hcore
    obtain ⟨_, _, hcore⟩ := Res.bind_ok hcore
    obtain ⟨_, _, hcore⟩ := Res.bind_ok hcore
    obtain ⟨_, _, hcore⟩ := Res.bind_ok hcore
    obtain ⟨_, _, hcore⟩ := Res.bind_ok hcore
    obtain ⟨_, _, hcore⟩ := Res.bind_ok hcore
    injection hcore with hcore
    injection hcore with hb _
    obtain ⟨⟨r, eb1⟩, _⟩ := claim_frame hc
    rw [← hb, eb1]
  have hcb : claims o.books = claims b := by rw [hb]; rfl
  refine ⟨by rw [hcb]; omega, ?_, by rw [hb]; exact m1, by rw [hb]; exact m2, by rw [hsl]; exact AllNN_write hp.slots ⟨by omega, by omega⟩⟩
  rw [hb]
  exact ⟨hsv.asv, hsv.lsv, hsv.feeI, hsv.feeG, hsv.feeP⟩

/-! ### bankruptcy -/

/-- position shares stay non-negative under an increase also when the deposit share value is zero (a wiped-out bank) -/
theorem inc_nonneg0 {b0 b' : Bank} {x0 x' : Balance} {now delta : Int} {t : IncType}
    (h : increaseBalance b0 x0 now delta t = .ok (b', x'))
    (hd : 0 ≤ delta) (hasv : 0 ≤ b0.asv) (hlsv : 0 < b0.lsv) (ha : 0 ≤ x0.a) (hl : 0 ≤ x0.l) : 0 ≤ x'.a ∧ 0 ≤ x'.l := by
  rcases Int.lt_or_eq_of_le hasv with h1 | h1
  · exact Mfi.FreeL.inc_nonneg h hd h1 hlsv ha hl
  · obtain ⟨b1, x1, curL, d, aInc, lDec, b2, b3, hc, hcur, hsub, _, _, has, hb2, hld, hb3, _, _, _, _, hx', _⟩ := (increase_spec h).ex
    obtain ⟨⟨r, hb1⟩, ⟨e, hx1⟩⟩ := claim_frame hc
    obtain ⟨e2, _, _⟩ := changeAsset_frame hb2
    have hONE := ONE_pos
    have ecur := (mul?_some (math_ok hcur)).1
    have hx1l : x1.l = x0.l := by rw [hx1]
    have hx1a : x1.a = x0.a := by rw [hx1]
    have hb1asv : b1.asv = 0 := by rw [hb1]; exact h1.symm
    have hb1lsv : b1.lsv = b0.lsv := by rw [hb1]
    have hb2lsv : b2.lsv = b0.lsv := by rw [e2, hb1]
    have haInc : aInc = 0 := by
      unfold assetShares at has
      rw [if_pos hb1asv] at has
      injection has with has; exact has.symm
    have hcur0 : 0 ≤ curL := by
      rw [ecur, hx1l, hb1lsv]; exact Int.ediv_nonneg (Int.mul_nonneg hl (le_of_lt hlsv)) (le_of_lt hONE)
    have sl := Mfi.FreeL.liabShares_spec (b := b2) (v := min curL delta) (by omega) (by rw [hb2lsv]; exact hlsv) hld
    rw [hb2lsv] at sl
    rw [hx']
    simp only [hx1a, hx1l, haInc]
    refine ⟨by omega, ?_⟩
    have h1' : lDec * b0.lsv ≤ curL * ONE := by
      have : min curL delta * ONE ≤ curL * ONE := Int.mul_le_mul_of_nonneg_right (Int.min_le_left _ _) (le_of_lt hONE)
      linarith [sl.1]
    have h2 : curL * ONE ≤ x0.l * b0.lsv := by rw [ecur, hx1l, hb1lsv]; exact mulfloor_le _
    have : lDec * b0.lsv ≤ x0.l * b0.lsv := le_trans h1' h2
    have := le_of_mul_le_mul_right this hlsv
    omega

/-- what a successful `World.bankruptcy` went through (the part the solvency argument needs) -/
theorem bankruptcy_core2 {c : Ctx} {available : Int} {o : BkrOut} (h : bankruptcy c available = .ok o) :
    bankState c .failsInPausedState = .ok () ∧
    ∃ b i x st, accrueInterest c.b.books c.b.ir c.now = .ok b ∧ findIdx c.a.slots c.b.key = some i ∧
      balAt c.a.slots i = .ok x ∧ settleBankruptcy b x available c.now = .ok st ∧
      o.books = st.bank ∧ o.slots = c.a.slots.set i (ofBal c.b.key st.bal) ∧ o.insuranceTokens = st.coveredUp ∧
      o.opState = (if st.kill then 3 else c.b.opState) := by
  unfold bankruptcy at h
  obtain ⟨_, _, h⟩ := Res.bind_ok h
  obtain ⟨_, hstate, h⟩ := Res.bind_ok h
  obtain ⟨_, _, h⟩ := Res.bind_ok h
  obtain ⟨ps, _, h⟩ := Res.bind_ok h
  obtain ⟨eq, _, h⟩ := Res.bind_ok h
  obtain ⟨b, hb, h⟩ := Res.bind_ok h
  split at h
  · cases h
  · rename_i i hi
    obtain ⟨x, hx, h⟩ := Res.bind_ok h
    obtain ⟨st, hst, h⟩ := Res.bind_ok h
    injection h with h
    subst h
    exact ⟨hstate, b, i, x, st, hb, hi, hx, hst, rfl, rfl, rfl, rfl⟩

/-- the books step of a bankruptcy settlement: the insurance tokens enter the liquidity vault; when the settlement kills the
    bank (deposits wiped out: the sanctioned exception) the claims may rise by up to the whole bad debt, otherwise by no more
    than what the insurance pays in -/
structure SolvB (c : Ctx) (o : BkrOut) : Prop where
  claims : claims o.books ≤ claims c.b.books + o.insuranceTokens * ONE * ONE + accrueAllowance c.b.books c.b.ir c.now +
      (if o.opState = 3 then (slotOf c.a c.b.key).l * o.books.lsv else 0)
  sv : SvFee o.books
  lsvMono : c.b.books.lsv ≤ o.books.lsv
  slots : AllNN o.slots
  live : o.opState ≠ 3 → 0 < o.books.asv
  ins : 0 ≤ o.insuranceTokens

theorem bankruptcy_solv {c : Ctx} {available : Int} {o : BkrOut} (h : bankruptcy c available = .ok o) (hp : Pre c) (hav : 0 ≤ available) :
    SolvB c o := by
  have hONE := ONE_pos
  obtain ⟨hstate, b, i, x, st, hb1, hi, hx, hst, hbooks, hslots, hins, hop⟩ := bankruptcy_core2 h
  obtain ⟨hcl, hsv, m1, m2, esa, _⟩ := accrue_solv hb1 hp.sv hp.sa hp.sl hp.cfg.fees hp.cfg.base
  have hne3 := live_of_state hstate
  obtain ⟨s, hs, hact, hbank⟩ := findIdx_slot hi
  obtain ⟨s', hs', rfl⟩ := balAt_ok hx
  have : s' = s := by rw [hs] at hs'; injection hs' with hs'; exact hs'.symm
  subst this
  have hnn := AllNN_get hp.slots hs
  have hslot : slotOf c.a c.b.key = s' := by
    unfold slotOf; rw [hi]; simp [hs]
  have hsa : 0 ≤ b.sa := by rw [esa]; exact hp.sa
  obtain ⟨hbad, hbadpos, hcov, esoc, hsoc0, _, hup, _, _, b1, hsoc, hinc⟩ := Mfi.Props.C07.settle_spec hst hav
  obtain ⟨eb1, hcase⟩ := Mfi.Props.C07.socialize_spec hsoc hsoc0 hsa hsv.asv
  have hb1 : b1.lsv = b.lsv ∧ b1.sa = b.sa ∧ b1.sl = b.sl ∧ b1.feeI = b.feeI ∧ b1.feeG = b.feeG ∧ b1.feeP = b.feeP := by
    rw [eb1]; exact ⟨rfl, rfl, rfl, rfl, rfl, rfl⟩
  have hb1asv : 0 ≤ b1.asv ∧ b1.asv ≤ b.asv := by
    rcases hcase with ⟨_, h0, _⟩ | ⟨_, _, h0, h1, _⟩
    · rw [h0]; exact ⟨Int.le_refl _, hsv.asv⟩
    · exact ⟨h0, h1⟩
  have hbadn : 0 ≤ st.badDebt := by
    have : (0 : Int) ≤ ZERO_AMOUNT_THRESHOLD := by decide
    omega
  have hfr := inc_frame hinc
  have hsv1 : SvFee b1 := ⟨hb1asv.1, by rw [hb1.1]; exact hsv.lsv, by rw [hb1.2.2.2.1]; exact hsv.feeI, by rw [hb1.2.2.2.2.1]; exact hsv.feeG,
    by rw [hb1.2.2.2.2.2]; exact hsv.feeP⟩
  have hsvo : SvFee o.books := by rw [hbooks]; exact SvFee_of_frame hsv1 hfr
  have hx2 := inc_nonneg0 hinc hbadn hsv1.asv hsv1.lsv (by simpa [toBal] using hnn.1) (by simpa [toBal] using hnn.2)
  have elsv : o.books.lsv = b.lsv := by rw [hbooks, hfr.2.1, hb1.1]
  have hcovn : 0 ≤ st.covered := by
    rw [hcov]; exact Int.le_min.mpr ⟨hbadn, Int.mul_nonneg hav (le_of_lt hONE)⟩
  have hup0 : 0 ≤ st.coveredUp := by
    by_contra hneg
    have : st.coveredUp * ONE < 0 := Int.mul_neg_of_neg_of_pos (by omega) hONE
    omega
  refine ⟨?_, hsvo, by rw [elsv]; exact m2, by rw [hslots]; exact AllNN_set hp.slots (ofBal_nn hx2), ?_, by rw [hins]; exact hup0⟩
  · rw [hins, hslot, elsv, hop]
    cases hk : st.kill with
    | false =>
      simp only [Bool.false_eq_true, if_false, if_neg hne3]
      have := bankruptcy_step hst hav hsa hsv.asv (le_of_lt hsv.lsv) (by simpa [toBal] using hnn.2) hk
      rw [hbooks]
      omega
    | true =>
      simp only [if_true]
      have hstep := increase_step hinc hsv1.asv (le_of_lt hsv1.lsv) hbadn (by simpa [toBal] using hnn.2)
      have hc1 : claims b1 ≤ claims b := by
        unfold claims
        rw [hb1.1, hb1.2.1, hb1.2.2.1, hb1.2.2.2.1, hb1.2.2.2.2.1, hb1.2.2.2.2.2]
        have := Int.mul_le_mul_of_nonneg_left hb1asv.2 hsa
        omega
      have ebad : st.badDebt = s'.l * b.lsv / ONE := by
        unfold liabAmount at hbad
        exact (mul?_some (math_ok hbad)).1
      have hbl : st.badDebt * ONE ≤ s'.l * b.lsv := by rw [ebad]; exact Int.ediv_mul_le _ (by omega)
      have hcu : 0 ≤ st.coveredUp * ONE * ONE := Int.mul_nonneg (Int.mul_nonneg hup0 (le_of_lt hONE)) (le_of_lt hONE)
      rw [hbooks]
      omega
  · intro hlive
    rw [hop] at hlive
    cases hk : st.kill with
    | true => rw [hk] at hlive; simp at hlive
    | false =>
      rw [hbooks, hfr.1]
      rcases hcase with ⟨_, _, hkill⟩ | ⟨_, _, h0, _, hkill, _⟩
      · rw [hk] at hkill; cases hkill
      · rw [hk] at hkill
        have : b1.asv ≠ 0 := by
          intro h00; rw [h00] at hkill; simp at hkill
        omega

/-! ### classic liquidation: two banks -/

theorem stateOf_live {opState : Int} {k : Gate.Kind} (h : stateOf opState k = .ok ()) : opState ≠ 3 := by
  unfold stateOf at h
  intro h3
  rw [h3] at h
  have : Gate.OpState.ofInt 3 = some .killedByBankruptcy := by decide
  rw [this] at h
  simp [Gate.validateBankState] at h

/-- the amounts of a liquidation: non-negative, the fee is the difference, split exactly into whole tokens and fraction -/
theorem liqAmountsLate_spec {n ap lp dA dL lq fin fee w : Int} (hn : 0 < n) (hap : 0 < ap) (hlp : 0 < lp)
    (h : liqAmountsLate n ap lp dA dL = .ok (lq, fin, fee)) (hw : Fx.toU64? fee = some w) :
    0 ≤ lq ∧ 0 ≤ fin ∧ lq - fin = w * ONE + Fx.frac fee ∧ 0 ≤ Fx.frac fee ∧ 0 ≤ w := by
  have hla := Mfi.Props.C05.world_liquidation_amounts_are_the_amounts h hw
  -- both scale factors exist (the computation went through them)
  have hscales : ∃ sa sl, Risk.exp10fx dA = .ok sa ∧ Risk.exp10fx dL = .ok sl := by
    unfold Risk.liquidationAmounts at hla
    obtain ⟨fees, _, hla⟩ := Res.bind_ok hla
    obtain ⟨fd, _, hla⟩ := Res.bind_ok hla
    obtain ⟨ld, _, hla⟩ := Res.bind_ok hla
    obtain ⟨v1, hv1, hla⟩ := Res.bind_ok hla
    obtain ⟨l1, hl1, hla⟩ := Res.bind_ok hla
    unfold Risk.calcValue at hv1
    have hne : ¬ Fx.ofInt n = 0 := by
      unfold Fx.ofInt; have := ONE_pos
      intro h0
      have : 0 < n * ONE := Int.mul_pos hn this
      omega
    rw [if_neg hne] at hv1
    obtain ⟨sa, hsa, _⟩ := Res.bind_ok hv1
    unfold Risk.calcAmount at hl1
    obtain ⟨sl, hsl, _⟩ := Res.bind_ok hl1
    exact ⟨sa, sl, hsa, hsl⟩
  obtain ⟨sa, sl, hsa, hsl⟩ := hscales
  obtain ⟨_, efee, hfee0, hfin0, ew, efr, esum, hfr0, _⟩ := Mfi.Props.C05.amounts_spec hsa hsl (le_of_lt hn) (le_of_lt hap) hlp hla
  simp only at efee hfee0 hfin0 ew efr esum hfr0
  have hw0 := (Mfi.Props.C19.toU64?_some hw).2.1
  refine ⟨by omega, hfin0, by omega, hfr0, hw0⟩

/-- what a successful `World.liquidate` went through (the part the solvency argument needs, on top of `liquidate_core`) -/
theorem liquidate_core2 {c : LiqCtx} {amount : Int} {o : LiqOutW} (h : liquidate c amount = .ok o) :
    0 < amount ∧ c.ab.opState ≠ 3 ∧ c.lb.opState ≠ 3 ∧
    ∃ (a l : Bank) (aLq aFin aFee : Int) (lq1 : List Slot) (i1 : Nat) (s1 : Slot) (r1 : Bank × Balance) (i2 : Nat) (s2 : Slot) (r2 : Bank × Balance)
      (lq3 : List Slot) (i3 : Nat) (s3 : Slot) (r3 : Bank × Balance) (i4 : Nat) (s4 : Slot) (r4 : Bank × Balance),
      accrueInterest c.ab.books c.ab.ir c.now = .ok a ∧ accrueInterest c.lb.books c.lb.ir c.now = .ok l ∧
      0 ≤ aLq ∧ 0 ≤ aFin ∧ aLq - aFin = o.insuranceTokens * ONE + Fx.frac aFee ∧ 0 ≤ Fx.frac aFee ∧ 0 ≤ o.insuranceTokens ∧
      findOrCreate c.lq.slots c.lb.key l.assetTag c.now = .ok (lq1, i1) ∧ lq1[i1]? = some s1 ∧
      decreaseBalance l (toBal s1) c.now aLq .bypassBorrowLimit = .ok r1 ∧
      (sortBalances c.le.slots)[i2]? = some s2 ∧
      decreaseBalance a (toBal s2) c.now (Fx.ofInt amount) .bypassBorrowLimit = .ok r2 ∧
      findOrCreate (lq1.set i1 (ofBal c.lb.key r1.2)) c.ab.key r2.1.assetTag c.now = .ok (lq3, i3) ∧ lq3[i3]? = some s3 ∧
      increaseBalance r2.1 (toBal s3) c.now (Fx.ofInt amount) .bypassDepositLimit = .ok r3 ∧
      ((sortBalances c.le.slots).set i2 (ofBal c.ab.key r2.2))[i4]? = some s4 ∧
      increaseBalance r1.1 (toBal s4) c.now aFin .repayOnly = .ok r4 ∧
      o.lqSlots = sortBalances (lq3.set i3 (ofBal c.ab.key r3.2)) ∧
      o.leSlots = ((sortBalances c.le.slots).set i2 (ofBal c.ab.key r2.2)).set i4 (ofBal c.lb.key r4.2) ∧
      o.assetBooks = r3.1 ∧ o.liabBooks = { r4.1 with feeI := r4.1.feeI + Fx.frac aFee } := by
  unfold liquidate at h
  obtain ⟨_, _, h⟩ := Res.bind_ok h
  obtain ⟨_, hamt, h⟩ := Res.bind_ok h
  obtain ⟨_, hdiff, h⟩ := Res.bind_ok h
  obtain ⟨_, _, h⟩ := Res.bind_ok h
  obtain ⟨_, hsa, h⟩ := Res.bind_ok h
  obtain ⟨_, hsl, h⟩ := Res.bind_ok h
  obtain ⟨_, _, h⟩ := Res.bind_ok h
  obtain ⟨_, _, h⟩ := Res.bind_ok h
  obtain ⟨_, _, h⟩ := Res.bind_ok h
  obtain ⟨a, ha, h⟩ := Res.bind_ok h
  obtain ⟨l, hl, h⟩ := Res.bind_ok h
  obtain ⟨_, _, h⟩ := Res.bind_ok h
  obtain ⟨ps, _, h⟩ := Res.bind_ok h
  obtain ⟨pre, _, h⟩ := Res.bind_ok h
  obtain ⟨ap, _, h⟩ := Res.bind_ok h
  obtain ⟨_, hap, h⟩ := Res.bind_ok h
  obtain ⟨lp, _, h⟩ := Res.bind_ok h
  obtain ⟨_, hlp, h⟩ := Res.bind_ok h
  obtain ⟨⟨aLq, aFin, aFee⟩, hamts, h⟩ := Res.bind_ok h
  dsimp only at h
  obtain ⟨⟨lq1, i1⟩, hf1, h⟩ := Res.bind_ok h
  dsimp only at h
  obtain ⟨x1, hx1, h⟩ := Res.bind_ok h
  obtain ⟨r1, hr1, h⟩ := Res.bind_ok h
  obtain ⟨i2, hi2, h⟩ := Res.bind_ok h
  obtain ⟨x2, hx2, h⟩ := Res.bind_ok h
  obtain ⟨preA, _, h⟩ := Res.bind_ok h
  obtain ⟨_, _, h⟩ := Res.bind_ok h
  obtain ⟨r2, hr2, h⟩ := Res.bind_ok h
  obtain ⟨⟨lq3, i3⟩, hf3, h⟩ := Res.bind_ok h
  dsimp only at h
  obtain ⟨x3, hx3, h⟩ := Res.bind_ok h
  obtain ⟨r3, hr3, h⟩ := Res.bind_ok h
  obtain ⟨fw, hfw, h⟩ := Res.bind_ok h
  obtain ⟨i4, hi4, h⟩ := Res.bind_ok h
  obtain ⟨x4, hx4, h⟩ := Res.bind_ok h
  obtain ⟨r4, hr4, h⟩ := Res.bind_ok h
  obtain ⟨f, hf, h⟩ := Res.bind_ok h
  obtain ⟨ps', _, h⟩ := Res.bind_ok h
  obtain ⟨lp', _, h⟩ := Res.bind_ok h
  obtain ⟨post, _, h⟩ := Res.bind_ok h
  obtain ⟨_, _, h⟩ := Res.bind_ok h
  injection h with h
  subst h
  obtain ⟨s1, hs1, rfl⟩ := balAt_ok hx1
  obtain ⟨s2, hs2, rfl⟩ := balAt_ok hx2
  obtain ⟨s3, hs3, rfl⟩ := balAt_ok hx3
  obtain ⟨s4, hs4, rfl⟩ := balAt_ok hx4
  have hamt0 : 0 < amount := by simpa using chk_ok hamt
  have hap0 : 0 < ap := by simpa using chk_ok hap
  have hlp0 : 0 < lp := by simpa using chk_ok hlp
  have hfw' : Fx.toU64? aFee = some fw := by
    split at hfw
    · rename_i w hw; injection hfw with hfw; subst hfw; exact hw
    · cases hfw
  obtain ⟨q1, q2, q3, q4, q5⟩ := liqAmountsLate_spec hamt0 hap0 hlp0 hamts hfw'
  have ef := (add?_some (math_ok hf)).1
  refine ⟨hamt0, stateOf_live hsa, stateOf_live hsl, a, l, aLq, aFin, aFee, lq1, i1, s1, r1, i2, s2, r2, lq3, i3, s3, r3, i4, s4, r4,
    ha, hl, q1, q2, q3, q4, q5, hf1, hs1, hr1, hs2, hr2, hf3, hs3, hr3, hs4, hr4, rfl, rfl, rfl, ?_⟩
  simp only
  rw [ef]

/-- hypotheses of a liquidation: both banks, both accounts -/
structure Pre2 (c : LiqCtx) : Prop where
  svA : SvFee c.ab.books
  saA : 0 ≤ c.ab.books.sa
  slA : 0 ≤ c.ab.books.sl
  cfgA : CfgOk c.ab c.g.progFeeRate
  liveA : c.ab.opState ≠ 3 → 0 < c.ab.books.asv
  svL : SvFee c.lb.books
  saL : 0 ≤ c.lb.books.sa
  slL : 0 ≤ c.lb.books.sl
  cfgL : CfgOk c.lb c.g.progFeeRate
  liveL : c.lb.opState ≠ 3 → 0 < c.lb.books.asv
  slotsQ : AllNN c.lq.slots
  slotsE : AllNN c.le.slots

/-- the books step of a liquidation: the collateral bank's vault does not move and its claims rise by less than one unit of
    each share value (plus the accrual allowance); the debt bank pays the whole-token part of the insurance fee out of its
    vault and its claims fall by that much, short of it by less than one unit of each share value -/
structure Solv2 (c : LiqCtx) (o : LiqOutW) : Prop where
  claimsA : claims o.assetBooks ≤ claims c.ab.books + accrueAllowance c.ab.books c.ab.ir c.now + (o.assetBooks.asv + o.assetBooks.lsv + 1)
  claimsL : claims o.liabBooks ≤ claims c.lb.books - o.insuranceTokens * ONE * ONE + accrueAllowance c.lb.books c.lb.ir c.now +
      (o.liabBooks.asv + o.liabBooks.lsv + 1)
  svA : SvFee o.assetBooks
  svL : SvFee o.liabBooks
  monoA : c.ab.books.asv ≤ o.assetBooks.asv ∧ c.ab.books.lsv ≤ o.assetBooks.lsv
  monoL : c.lb.books.asv ≤ o.liabBooks.asv ∧ c.lb.books.lsv ≤ o.liabBooks.lsv
  slotsQ : AllNN o.lqSlots
  slotsE : AllNN o.leSlots
  ins : 0 ≤ o.insuranceTokens

theorem liquidate_solv {c : LiqCtx} {amount : Int} {o : LiqOutW} (h : liquidate c amount = .ok o) (hp : Pre2 c) : Solv2 c o := by
  have hONE := ONE_pos
  obtain ⟨hamt, liveA, liveL, a, l, aLq, aFin, aFee, lq1, i1, s1, r1, i2, s2, r2, lq3, i3, s3, r3, i4, s4, r4,
    ha, hl, q1, q2, q3, q4, q5, hf1, hs1, hr1, hs2, hr2, hf3, hs3, hr3, hs4, hr4, hoq, hoe, hoa, hol⟩ := liquidate_core2 h
  obtain ⟨hclA, hsvA, mA1, mA2, _, _⟩ := accrue_solv ha hp.svA hp.saA hp.slA hp.cfgA.fees hp.cfgA.base
  obtain ⟨hclL, hsvL, mL1, mL2, _, _⟩ := accrue_solv hl hp.svL hp.saL hp.slL hp.cfgL.fees hp.cfgL.base
  have hasvA : 0 < a.asv := by have := hp.liveA liveA; omega
  have hasvL : 0 < l.asv := by have := hp.liveL liveL; omega
  have hofa : 0 ≤ Fx.ofInt amount := Int.mul_nonneg (le_of_lt hamt) (le_of_lt hONE)
  -- move 1: liquidator takes the debt
  have nnQ1 := AllNN_findOrCreate hf1 hp.slotsQ
  have n1 := AllNN_get nnQ1 hs1
  have st1 := decrease_step hr1 hsvL.asv (le_of_lt hsvL.lsv) q1 (by simpa [toBal] using n1.1)
  have fr1 := dec_frame hr1
  have x1 := Mfi.FreeL.dec_nonneg hr1 q1 hasvL hsvL.lsv (by simpa [toBal] using n1.1) (by simpa [toBal] using n1.2)
  have sv1 := SvFee_of_frame hsvL fr1
  -- move 2: liquidatee gives up the collateral
  have nnE := AllNN_sort hp.slotsE
  have n2 := AllNN_get nnE hs2
  have st2 := decrease_step hr2 hsvA.asv (le_of_lt hsvA.lsv) hofa (by simpa [toBal] using n2.1)
  have fr2 := dec_frame hr2
  have x2 := Mfi.FreeL.dec_nonneg hr2 hofa hasvA hsvA.lsv (by simpa [toBal] using n2.1) (by simpa [toBal] using n2.2)
  have sv2 := SvFee_of_frame hsvA fr2
  -- move 3: liquidator receives it
  have nnQ2 : AllNN (lq1.set i1 (ofBal c.lb.key r1.2)) := AllNN_set nnQ1 (ofBal_nn x1)
  have nnQ3 := AllNN_findOrCreate hf3 nnQ2
  have n3 := AllNN_get nnQ3 hs3
  have st3 := increase_step hr3 sv2.asv (le_of_lt sv2.lsv) hofa (by simpa [toBal] using n3.2)
  have fr3 := inc_frame hr3
  have x3 := Mfi.FreeL.inc_nonneg hr3 hofa (by rw [fr2.1]; exact hasvA) sv2.lsv (by simpa [toBal] using n3.1) (by simpa [toBal] using n3.2)
  have sv3 := SvFee_of_frame sv2 fr3
  -- move 4: liquidatee's debt is repaid
  have nnE2 : AllNN ((sortBalances c.le.slots).set i2 (ofBal c.ab.key r2.2)) := AllNN_set nnE (ofBal_nn x2)
  have n4 := AllNN_get nnE2 hs4
  have st4 := increase_step hr4 sv1.asv (le_of_lt sv1.lsv) q2 (by simpa [toBal] using n4.2)
  have fr4 := inc_frame hr4
  have x4 := Mfi.FreeL.inc_nonneg hr4 q2 (by rw [fr1.1]; exact hasvL) sv1.lsv (by simpa [toBal] using n4.1) (by simpa [toBal] using n4.2)
  have sv4 := SvFee_of_frame sv1 fr4
  have eA : o.assetBooks.asv = a.asv ∧ o.assetBooks.lsv = a.lsv := by rw [hoa, fr3.1, fr3.2.1, fr2.1, fr2.2.1]; exact ⟨rfl, rfl⟩
  have eL : o.liabBooks.asv = l.asv ∧ o.liabBooks.lsv = l.lsv := by
    rw [hol]; simp only; rw [fr4.1, fr4.2.1, fr1.1, fr1.2.1]; exact ⟨rfl, rfl⟩
  have e1 : Fx.ofInt amount * ONE = amount * ONE * ONE := rfl
  refine ⟨?_, ?_, by rw [hoa]; exact sv3, ?_, by rw [eA.1, eA.2]; exact ⟨mA1, mA2⟩, by rw [eL.1, eL.2]; exact ⟨mL1, mL2⟩,
    by rw [hoq]; exact AllNN_sort (AllNN_set nnQ3 (ofBal_nn x3)), by rw [hoe]; exact AllNN_set nnE2 (ofBal_nn x4), q5⟩
  · rw [eA.1, eA.2, hoa]
    omega
  · rw [eL.1, eL.2]
    have hcl : claims o.liabBooks = claims r4.1 + Fx.frac aFee * ONE := by
      rw [hol]; unfold claims; simp only; ring
    have e2 : (aLq - aFin) * ONE = aLq * ONE - aFin * ONE := Int.sub_mul _ _ _
    have e3 : (o.insuranceTokens * ONE + Fx.frac aFee) * ONE = o.insuranceTokens * ONE * ONE + Fx.frac aFee * ONE := Int.add_mul _ _ _
    rw [q3] at e2
    rw [hcl]
    omega
  · rw [hol]
    exact ⟨sv4.asv, sv4.lsv, by simp only; have := sv4.feeI; omega, sv4.feeG, sv4.feeP⟩

end Mfi.World
