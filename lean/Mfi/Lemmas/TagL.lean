/-
  Which banks the standard (token-denominated) instructions may touch: table facts over the constraint table
  regenerated from every #[derive(Accounts)] struct on each run.
-/
import Mfi.Lemmas.AccL

namespace Mfi.TagL
open Mfi.Gen.Acc

/-- the user / admin instructions whose share accounting is in the bank mint's own token units -/
def standardOnBank : List S :=
  [.LendingAccountDeposit, .LendingAccountWithdraw, .LendingAccountBorrow, .LendingAccountRepay, .LendingAccountCloseBalance,
   .LendingAccountPurgeDelevBalance, .LendingPoolHandleBankruptcy, .LendingAccountWithdrawEmissions, .LendingAccountSettleEmissions,
   .LendingAccountWithdrawEmissionsPermissionless]

/-- **the standard instructions act on the program's own banks only**: each of them carries the constraint
    `is_marginfi_asset_tag(bank.config.asset_tag)` on its bank (classic liquidation: on the DEBT bank, the collateral seized
    may be venue-backed and moves between two positions of the same bank in that bank's own units); the venue instructions
    carry their venue's tag. A deposit, withdrawal, borrow or repayment in mint tokens can therefore never be booked
    against a bank whose shares are denominated in a third-party venue's units. -/
def OwnBanks : Prop :=
    (∀ s ∈ standardOnBank, hasCons s .f_bank (.assetTag .marginfi .f_bank) = true) ∧
    hasCons .LendingAccountLiquidate .f_liab_bank (.assetTag .marginfi .f_liab_bank) = true ∧
    (∀ s ∈ [S.KaminoDeposit, S.KaminoWithdraw], hasCons s .f_bank (.assetTag .kamino .f_bank) = true) ∧
    (∀ s ∈ [S.DriftDeposit, S.DriftWithdraw], hasCons s .f_bank (.assetTag .drift .f_bank) = true) ∧
    (∀ s ∈ [S.SolendDeposit, S.SolendWithdraw], hasCons s .f_bank (.assetTag .solend .f_bank) = true)

theorem standard_instructions_only_on_own_banks : OwnBanks := by unfold OwnBanks; decide

end Mfi.TagL
