/-
  Transactions on the world state machine (Mfi/Model/WorldTx.lean): the refusal-aware step is the step; no whole instruction
  raises an in-flash-loan flag; a committed transaction leaves no account in a flash loan (every start names an end for the
  same account further down, and a committed transaction ran it); every end that ran passed `World.endFlashloan`.
-/
import Mfi.Model.WorldTx
import Mfi.Lemmas.WorldL
import Mfi.Lemmas.WorldLedger

namespace Mfi.World
open Mfi Mfi.Fx Mfi.Bank Mfi.Account Mfi.Gen

/-- is the account flagged ACCOUNT_IN_FLASHLOAN? -/
def inFlash (a : AcctV) : Bool := hasFlag a.flags ACCOUNT_IN_FLASHLOAN

theorem step_getD (w : WState) (op : WOp) : w.step op = (w.step? op).getD w := by
  cases op with
  | liquidate qi ei abi lbi signer amount =>
    simp only [WState.step?, WState.step]
    by_cases hne : qi = ei ∨ abi = lbi
    · simp only [hne, if_true]; rfl
    · simp only [hne, if_false]
      cases hq : w.accts[qi]? with
      | none => rfl
      | some lq =>
        cases he : w.accts[ei]? with
        | none => rfl
        | some le =>
          cases hab : w.banks[abi]? with
          | none => rfl
          | some ab =>
            cases hlb : w.banks[lbi]? with
            | none => rfl
            | some lb =>
              simp only
              cases hl : liquidate (w.liqCtx lq le ab lb signer) amount with
              | ok o => rfl
              | error e => rfl
  | _ => simp only [WState.step?, WState.step] <;> (repeat' split) <;> first | rfl | simp_all

theorem step?_some {w w' : WState} {op : WOp} (h : w.step? op = some w') : w' = w.step op := by
  rw [step_getD, h]; rfl

/-! ### the in-flash-loan bit -/

theorem FLASH_two : ACCOUNT_IN_FLASHLOAN.toNat = 2 := by decide

theorem testBit_two (i : Nat) : Nat.testBit 2 i = decide (i = 1) := by
  rw [show (2 : Nat) = 2 ^ 1 by rfl, Nat.testBit_two_pow]
  by_cases h : i = 1 <;> simp [h]
  omega

/-- OR-ing in a word whose bit 1 is clear does not touch bit 1 -/
theorem or_keeps_bit1 (f y : Nat) (hy : y.testBit 1 = false) : (f ||| y) &&& 2 = f &&& 2 := by
  apply Nat.eq_of_testBit_eq
  intro i
  simp only [Nat.testBit_and, Nat.testBit_or, testBit_two]
  by_cases hi : i = 1
  · subst hi; simp [hy]
  · simp [hi]

/-- AND-ing with a word whose bit 1 is clear clears bit 1 -/
theorem and_clears_bit1 (f m : Nat) (hm : m.testBit 1 = false) : (f &&& m) &&& 2 = 0 := by
  apply Nat.eq_of_testBit_eq
  intro i
  simp only [Nat.testBit_and, testBit_two, Nat.zero_testBit]
  by_cases hi : i = 1
  · subst hi; simp [hm]
  · simp [hi]

/-- AND-ing with a word whose bit 1 is set keeps bit 1 -/
theorem and_keeps_bit1 (f m : Nat) (hm : m.testBit 1 = true) : (f &&& m) &&& 2 = f &&& 2 := by
  apply Nat.eq_of_testBit_eq
  intro i
  simp only [Nat.testBit_and, testBit_two]
  by_cases hi : i = 1
  · subst hi; simp [hm]
  · simp [hi]

theorem inFlash_iff (a : AcctV) : inFlash a = (a.flags &&& 2 == 2) := by
  unfold inFlash hasFlag; rw [FLASH_two]

/-- marking an account disabled leaves its in-flash-loan bit as it is -/
theorem inFlash_disable (a : AcctV) (slots : List Slot) :
    inFlash { a with slots := slots, flags := a.flags ||| ACCOUNT_DISABLED.toNat } = inFlash a := by
  rw [inFlash_iff, inFlash_iff]
  have : ACCOUNT_DISABLED.toNat = 1 := by decide
  simp only [this]
  rw [or_keeps_bit1 a.flags 1 (by decide)]

/-- the account a transfer leaves behind and the one it creates carry no in-flash-loan bit (a flagged account cannot be transferred) -/
theorem ofMAcct_noFlash (k : Nat) (m : Transfer.MAcct) (x : Nat) (hf : m.flash = false) (ho : m.otherFlags = x &&& OTHER_FLAGS_MASK) :
    inFlash (ofMAcct k m) = false := by
  rw [inFlash_iff]
  unfold ofMAcct
  simp only [hf, Bool.false_eq_true, if_false]
  have h1 : ((((if m.disabled = true then 1 else 0) ||| 0 ||| if m.recv = true then 16 else 0) ||| if m.frozen = true then 64 else 0) : Nat).testBit 1 = false := by
    cases m.disabled <;> cases m.recv <;> cases m.frozen <;> decide
  have h2 : m.otherFlags.testBit 1 = false := by
    rw [ho, Nat.testBit_and]
    have : OTHER_FLAGS_MASK.testBit 1 = false := by decide
    simp [this]
  have e : ((((if m.disabled = true then 1 else 0) ||| 0 ||| if m.recv = true then 16 else 0) ||| if m.frozen = true then 64 else 0) ||| m.otherFlags) &&& 2 = 0 := by
    apply Nat.eq_of_testBit_eq
    intro i
    simp only [Nat.testBit_and, Nat.testBit_or, testBit_two, Nat.zero_testBit]
    by_cases hi : i = 1
    · subst hi
      have b1 : Nat.testBit 1 1 = false := by decide
      have b16 : Nat.testBit 16 1 = false := by decide
      have b64 : Nat.testBit 64 1 = false := by decide
      cases m.disabled <;> cases m.recv <;> cases m.frozen <;> simp [h2, b1, b16, b64]
    · simp [hi]
  rw [e]
  decide

/-- what a transfer makes of the two accounts' in-flash-loan bits -/
theorem transferIx_noFlash {g : GroupV} {a o n : AcctV} {signer newKey newAuth : Nat} {ok : Bool}
    (h : transferIx g a signer newKey newAuth ok = .ok (o, n)) : inFlash o = false ∧ inFlash n = false := by
  unfold transferIx at h
  cases ht : Transfer.transfer (toMAcct a) a.key g.key g.admin 1 g.paused signer newKey newAuth (if ok = true then 1 else 2) 0 with
  | error e => rw [ht] at h; cases h
  | ok r =>
    rw [ht] at h
    obtain ⟨ro, rn⟩ := r
    have h' : (ofMAcct a.key ro, ofMAcct newKey rn) = (o, n) := by
      have : (Except.ok (ro, rn) : Res _).map (fun (p : Transfer.MAcct × Transfer.MAcct) => (ofMAcct a.key p.1, ofMAcct newKey p.2)) = .ok (o, n) := h
      injection this
    injection h' with h1 h2
    generalize (if ok = true then 1 else 2) = fw at ht
    unfold Transfer.transfer at ht
    split at ht; · cases ht
    split at ht; · cases ht
    split at ht; · cases ht
    split at ht; · cases ht
    split at ht; · cases ht
    split at ht; · cases ht
    split at ht; · cases ht
    split at ht; · cases ht
    rename_i _ _ _ _ _ hfl _ _
    injection ht with ht
    injection ht with e1 e2
    have hfl' : (toMAcct a).flash = false := by simpa using hfl
    subst e1; subst e2; subst h1; subst h2
    exact ⟨ofMAcct_noFlash _ _ a.flags hfl' rfl, ofMAcct_noFlash _ _ a.flags hfl' rfl⟩

/-! ### no whole instruction raises the flag -/

/-- every account marked (by a predicate on accounts) afterwards was marked before, at the same place in the world -/
def NoNewP (P : AcctV → Bool) (w w' : WState) : Prop :=
  ∀ (i : Nat) (x : AcctV), w'.accts[i]? = some x → P x = true → ∃ y, w.accts[i]? = some y ∧ P y = true

theorem set_noNewP {P : AcctV → Bool} {l : List AcctV} {ai : Nat} {a a' : AcctV} (ha : l[ai]? = some a) (hf : P a' = true → P a = true) :
    ∀ (i : Nat) (x : AcctV), (l.set ai a')[i]? = some x → P x = true → ∃ y, l[i]? = some y ∧ P y = true := by
  intro i x hx hfx
  rw [List.getElem?_set] at hx
  split at hx
  · rename_i hi
    subst hi
    split at hx
    · injection hx with hx; subst hx; exact ⟨a, ha, hf hfx⟩
    · cases hx
  · exact ⟨x, hx, hfx⟩

theorem noNewP_refl (P : AcctV → Bool) (w : WState) : NoNewP P w w := fun _ x hx hf => ⟨x, hx, hf⟩

/-- no whole instruction marks an account, for any mark that (1) is read off the flag word, (2) is not raised by disabling the
    account, (3) is absent from both accounts of an accepted transfer -/
theorem step_noNewP (P : AcctV → Bool) (hslots : ∀ (a : AcctV) (slots : List Slot), P { a with slots := slots } = P a)
    (hdis : ∀ (a : AcctV) (slots : List Slot), P { a with slots := slots, flags := a.flags ||| ACCOUNT_DISABLED.toNat } = true → P a = true)
    (htr : ∀ (g : GroupV) (a o n : AcctV) (signer newKey newAuth : Nat) (ok : Bool),
      transferIx g a signer newKey newAuth ok = .ok (o, n) → P o = false ∧ P n = false)
    (w : WState) (op : WOp) : NoNewP P w (w.step op) := by
  have commitCase : ∀ (ai bi : Nat) (a : AcctV) (b : WBank) (slots : List Slot) (books : Bank) (opState : Int) (window : Admin.Window) (dA dL : Int),
      w.accts[ai]? = some a → NoNewP P w (w.commit ai bi a b slots a.flags books opState window dA dL) := by
    intro ai bi a b slots books opState window dA dL ha
    exact set_noNewP ha (fun h => Eq.trans (hslots a slots).symm h)
  cases op with
  | tick dt => exact noNewP_refl P w
  | accrue bi =>
    simp only [WState.step]
    split
    · split
      · exact noNewP_refl P w
      · exact noNewP_refl P w
    · exact noNewP_refl P w
  | collect bi ok vault =>
    simp only [WState.step]
    split
    · split
      · exact noNewP_refl P w
      · exact noNewP_refl P w
    · exact noNewP_refl P w
  | deposit ai bi signer amount upTo =>
    simp only [WState.step]
    split
    · rename_i a b ha hb
      split
      · exact commitCase _ _ _ _ _ _ _ _ _ _ ha
      · exact noNewP_refl P w
    · exact noNewP_refl P w
  | borrow ai bi signer amount =>
    simp only [WState.step]
    split
    · rename_i a b ha hb
      split
      · exact commitCase _ _ _ _ _ _ _ _ _ _ ha
      · exact noNewP_refl P w
    · exact noNewP_refl P w
  | withdraw ai bi signer amount all vault =>
    simp only [WState.step]
    split
    · rename_i a b ha hb
      split
      · exact commitCase _ _ _ _ _ _ _ _ _ _ ha
      · exact noNewP_refl P w
    · exact noNewP_refl P w
  | repay ai bi signer amount all =>
    simp only [WState.step]
    split
    · rename_i a b ha hb
      split
      · exact commitCase _ _ _ _ _ _ _ _ _ _ ha
      · exact noNewP_refl P w
    · exact noNewP_refl P w
  | close ai bi signer =>
    simp only [WState.step]
    split
    · rename_i a b ha hb
      split
      · exact commitCase _ _ _ _ _ _ _ _ _ _ ha
      · exact noNewP_refl P w
    · exact noNewP_refl P w
  | bankruptcy ai bi signer available =>
    simp only [WState.step]
    split
    · rename_i a b ha hb
      split
      · rename_i o ho
        have hfl : o.flags = a.flags ||| ACCOUNT_DISABLED.toNat := by
          unfold bankruptcy at ho
          obtain ⟨_, _, ho⟩ := Res.bind_ok ho
          obtain ⟨_, _, ho⟩ := Res.bind_ok ho
          obtain ⟨_, _, ho⟩ := Res.bind_ok ho
          obtain ⟨_, _, ho⟩ := Res.bind_ok ho
          obtain ⟨_, _, ho⟩ := Res.bind_ok ho
          obtain ⟨_, _, ho⟩ := Res.bind_ok ho
          split at ho
          · cases ho
          · obtain ⟨_, _, ho⟩ := Res.bind_ok ho
            obtain ⟨_, _, ho⟩ := Res.bind_ok ho
            injection ho with ho
            subst ho
            rfl
        simp only [WState.commit]
        apply set_noNewP ha
        intro h
        rw [hfl] at h
        exact hdis a o.slots h
      · exact noNewP_refl P w
    · exact noNewP_refl P w
  | liquidate qi ei abi lbi signer amount =>
    simp only [WState.step]
    split
    · exact noNewP_refl P w
    · split
      · rename_i lq le ab lb hq he hab hlb
        split
        · rename_i o ho
          simp only [WState.commit2]
          intro i x hx hfx
          rw [List.getElem?_set] at hx
          split at hx
          · rename_i hi
            subst hi
            split at hx
            · injection hx with hx; subst hx; exact ⟨le, he, Eq.trans (hslots le o.leSlots).symm hfx⟩
            · cases hx
          · exact set_noNewP (a' := { lq with slots := o.lqSlots }) hq (fun h => Eq.trans (hslots lq o.lqSlots).symm h) i x hx hfx
        · exact noNewP_refl P w
      · exact noNewP_refl P w
  | transfer ai signer newKey newAuth ok =>
    simp only [WState.step]
    split
    · exact noNewP_refl P w
    · split
      · rename_i a ha
        split
        · rename_i o n ho
          obtain ⟨f1, f2⟩ := htr _ _ _ _ _ _ _ _ ho
          intro i x hx hfx
          simp only at hx
          have hlen : (w.accts.set ai o).length = w.accts.length := List.length_set
          by_cases hi : i < w.accts.length
          · rw [List.getElem?_append_left (by omega)] at hx
            exact set_noNewP ha (fun h => by rw [f1] at h; cases h) i x hx hfx
          · rw [List.getElem?_append_right (by omega)] at hx
            have : x = n := by
              cases hk : i - (w.accts.set ai o).length with
              | zero => rw [hk] at hx; simpa using hx.symm
              | succ k => rw [hk] at hx; simp at hx
            rw [this, f2] at hfx; cases hfx
        · exact noNewP_refl P w
      · exact noNewP_refl P w


/-- every account flagged in-flash-loan afterwards was flagged before (same place in the world) -/
def NoNewFlash (w w' : WState) : Prop := NoNewP inFlash w w'

theorem set_noNew {l : List AcctV} {ai : Nat} {a a' : AcctV} (ha : l[ai]? = some a) (hf : inFlash a' = true → inFlash a = true) :
    ∀ (i : Nat) (x : AcctV), (l.set ai a')[i]? = some x → inFlash x = true → ∃ y, l[i]? = some y ∧ inFlash y = true :=
  set_noNewP ha hf

theorem step_noNew (w : WState) (op : WOp) : NoNewFlash w (w.step op) :=
  step_noNewP inFlash (fun a slots => rfl)
    (fun a slots hx => by
      rw [inFlash_iff] at hx ⊢
      have : ACCOUNT_DISABLED.toNat = 1 := by decide
      simp only [this] at hx
      rw [or_keeps_bit1 a.flags 1 (by decide)] at hx
      exact hx)
    (fun _ _ _ _ _ _ _ _ h => transferIx_noFlash h) w op

/-! ### the two flash-loan instructions -/

theorem clear_flash_flag (flags : Nat) : hasFlag (flags &&& (Nat.xor ACCOUNT_IN_FLASHLOAN.toNat (2 ^ 64 - 1))) ACCOUNT_IN_FLASHLOAN = false := by
  unfold hasFlag
  rw [FLASH_two]
  rw [and_clears_bit1 flags (Nat.xor 2 (2 ^ 64 - 1)) (by decide)]
  decide

/-- what a successful start went through -/
theorem startFlashloan_ok {c : Ctx} {cur endIdx : Nat} {endIx : Option Bool} {f : Nat} (h : startFlashloan c cur endIdx endIx = .ok f) :
    c.a.authority = c.signer ∧ cur < endIdx ∧ endIx = some true ∧
    flag c ACCOUNT_DISABLED = false ∧ flag c ACCOUNT_IN_FLASHLOAN = false ∧ flag c ACCOUNT_IN_RECEIVERSHIP = false ∧
    flag c ACCOUNT_FROZEN = false ∧ f = c.a.flags ||| ACCOUNT_IN_FLASHLOAN.toNat := by
  unfold startFlashloan at h
  obtain ⟨_, hc, h⟩ := Res.bind_ok h
  obtain ⟨_, h1, h⟩ := Res.bind_ok h
  obtain ⟨mine, h2, h⟩ := Res.bind_ok h
  obtain ⟨_, h3, h⟩ := Res.bind_ok h
  obtain ⟨_, h4, h⟩ := Res.bind_ok h
  obtain ⟨_, h5, h⟩ := Res.bind_ok h
  obtain ⟨_, h6, h⟩ := Res.bind_ok h
  obtain ⟨_, h7, h⟩ := Res.bind_ok h
  injection h with h
  have hc' := runChecks_ok hc
  simp only [Gen.Acc.checks, List.forall_mem_cons, List.not_mem_nil, false_imp_iff, implies_true, and_true] at hc'
  simp [evalChk, Ctx.env, AccV.key] at hc'
  have hm : mine = true := chk_ok h3
  have he : endIx = some true := by
    cases endIx with
    | none => cases h2
    | some k => injection h2 with h2; rw [h2, hm]
  exact ⟨hc', by simpa using chk_ok h1, he, by simpa using chk_ok h4, by simpa using chk_ok h5, by simpa using chk_ok h6,
    by simpa using chk_ok h7, h.symm⟩

/-! ### a committed transaction leaves nobody in a flash loan -/

/-- every account flagged at position `i` of the transaction has its end still to come, for itself -/
def Pending (tx : List TOp) (i : Nat) (w : WState) : Prop :=
  ∀ (k : Nat) (a : AcctV), w.accts[k]? = some a → inFlash a = true → ∃ j s, i ≤ j ∧ tx[j]? = some (.endFlash k s)

theorem setFlags_get {w : WState} {ai : Nat} {a : AcctV} {f : Nat} (ha : w.accts[ai]? = some a) (k : Nat) :
    (w.setFlags ai a f).accts[k]? = if ai = k then some { a with flags := f } else w.accts[k]? := by
  have hlen : ai < w.accts.length := by
    rcases Nat.lt_or_ge ai w.accts.length with h | h
    · exact h
    · rw [List.getElem?_eq_none h] at ha; cases ha
  simp only [WState.setFlags]
  rw [List.getElem?_set]
  by_cases h : ai = k
  · subst h; simp [hlen]
  · simp [h]

theorem startDeleverage_flags {c : RCtx} {shape : Res Unit} {o : StartLiqOut} (h : startDeleverage c shape = .ok o) :
    o.flags = (c.a.flags ||| ACCOUNT_IN_DELEVERAGE.toNat) ||| ACCOUNT_IN_RECEIVERSHIP.toNat ∧ o.receiver = c.receiver := by
  unfold startDeleverage at h
  obtain ⟨_, _, h⟩ := Res.bind_ok h
  obtain ⟨_, _, h⟩ := Res.bind_ok h
  obtain ⟨_, _, h⟩ := Res.bind_ok h
  obtain ⟨_, _, h⟩ := Res.bind_ok h
  injection h with h
  subst h
  exact ⟨rfl, rfl⟩

theorem endDeleverage_flags {c : RCtx} {stack : Nat} {o : EndLiqOut} (h : endDeleverage c stack = .ok o) :
    o.flags = (c.a.flags &&& (Nat.xor ACCOUNT_IN_DELEVERAGE.toNat (2 ^ 64 - 1))) &&& (Nat.xor ACCOUNT_IN_RECEIVERSHIP.toNat (2 ^ 64 - 1)) := by
  unfold endDeleverage at h
  obtain ⟨_, _, h⟩ := Res.bind_ok h
  obtain ⟨_, _, h⟩ := Res.bind_ok h
  obtain ⟨_, _, h⟩ := Res.bind_ok h
  obtain ⟨⟨sz, rp⟩, _, h⟩ := Res.bind_ok h
  injection h with h
  subst h
  rfl

theorem stepIn_pending {tx : List TOp} {i : Nat} {t : TOp} {w w' : WState} (ht : tx[i]? = some t)
    (h : w.stepIn tx i t = some w') (hp : Pending tx i w) : Pending tx (i + 1) w' := by
  cases t with
  | ix op =>
    simp only [WState.stepIn] at h
    have hw := step?_some h
    subst hw
    intro k a' hk hf
    obtain ⟨y, hy, hfy⟩ := step_noNew w op k a' hk hf
    obtain ⟨j, s, hij, hj⟩ := hp k y hy hfy
    refine ⟨j, s, ?_, hj⟩
    rcases Nat.lt_or_ge i j with h1 | h1
    · omega
    · have : j = i := by omega
      subst this; rw [ht] at hj; cases hj
  | startFlash ai signer endIdx =>
    simp only [WState.stepIn] at h
    split at h
    · rename_i a ha
      split at h
      · rename_i f hf
        injection h with h; subst h
        obtain ⟨_, hlt, hend, _⟩ := startFlashloan_ok hf
        intro k a' hk hfl
        rw [setFlags_get ha] at hk
        by_cases hki : ai = k
        · subst hki
          -- the end named by the start
          cases hte : tx[endIdx]? with
          | none => rw [hte] at hend; cases hend
          | some te =>
            rw [hte] at hend
            simp only [Option.map_some, Option.some.injEq] at hend
            cases te with
            | endFlash aj s =>
              simp only [isEndFlashOf, beq_iff_eq] at hend
              subst hend
              exact ⟨endIdx, s, by omega, hte⟩
            | ix op => simp [isEndFlashOf] at hend
            | startFlash _ _ _ => simp [isEndFlashOf] at hend
            | startLiq _ _ _ => simp [isEndFlashOf] at hend
            | endLiq _ _ _ _ _ => simp [isEndFlashOf] at hend
            | startDelev _ _ _ => simp [isEndFlashOf] at hend
            | endDelev _ _ _ => simp [isEndFlashOf] at hend
        · simp only [hki, if_false] at hk
          obtain ⟨j, s, hij, hj⟩ := hp k a' hk hfl
          refine ⟨j, s, ?_, hj⟩
          rcases Nat.lt_or_ge i j with h1 | h1
          · omega
          · have : j = i := by omega
            subst this; rw [ht] at hj; cases hj
      · cases h
    · cases h
  | endFlash ai signer =>
    simp only [WState.stepIn] at h
    split at h
    · rename_i a ha
      split at h
      · rename_i f hf
        injection h with h; subst h
        have hclr : hasFlag f ACCOUNT_IN_FLASHLOAN = false := by
          unfold endFlashloan at hf
          obtain ⟨_, _, hf⟩ := Res.bind_ok hf
          obtain ⟨_, _, hf⟩ := Res.bind_ok hf
          obtain ⟨_, _, hf⟩ := Res.bind_ok hf
          obtain ⟨_, _, hf⟩ := Res.bind_ok hf
          obtain ⟨_, _, hf⟩ := Res.bind_ok hf
          obtain ⟨_, _, hf⟩ := Res.bind_ok hf
          obtain ⟨_, _, hf⟩ := Res.bind_ok hf
          injection hf with hf
          subst hf
          exact clear_flash_flag _
        intro k a' hk hfl
        rw [setFlags_get ha] at hk
        by_cases hki : ai = k
        · subst hki
          simp only [if_true] at hk
          injection hk with hk; subst hk
          unfold inFlash at hfl
          rw [hclr] at hfl; cases hfl
        · simp only [hki, if_false] at hk
          obtain ⟨j, s, hij, hj⟩ := hp k a' hk hfl
          refine ⟨j, s, ?_, hj⟩
          rcases Nat.lt_or_ge i j with h1 | h1
          · omega
          · have : j = i := by omega
            subst this; rw [ht] at hj
            injection hj with hj
            injection hj with h1 _
            exact absurd h1 hki
      · cases h
    · cases h

  | startLiq ai receiver recordOk =>
    simp only [WState.stepIn] at h
    split at h
    · rename_i a ha
      split at h
      · rename_i o ho
        injection h with h; subst h
        have hfl : o.flags = a.flags ||| ACCOUNT_IN_RECEIVERSHIP.toNat := by
          unfold startLiquidation at ho
          obtain ⟨_, _, ho⟩ := Res.bind_ok ho
          obtain ⟨_, _, ho⟩ := Res.bind_ok ho
          obtain ⟨_, _, ho⟩ := Res.bind_ok ho
          obtain ⟨_, _, ho⟩ := Res.bind_ok ho
          injection ho with ho
          subst ho
          rfl
        intro k a' hk hfl'
        obtain ⟨y, hy, hfy⟩ := set_noNew (a' := { a with flags := o.flags, recReceiver := o.receiver, recCache := o.cache }) ha
          (by
            intro hx
            rw [inFlash_iff] at hx ⊢
            simp only [hfl] at hx
            have e : ACCOUNT_IN_RECEIVERSHIP.toNat = 16 := by decide
            rw [e, or_keeps_bit1 a.flags 16 (by decide)] at hx
            exact hx) k a' hk hfl'
        obtain ⟨j, s, hij, hj⟩ := hp k y hy hfy
        refine ⟨j, s, ?_, hj⟩
        rcases Nat.lt_or_ge i j with h1 | h1
        · omega
        · have : j = i := by omega
          subst this; rw [ht] at hj; cases hj
      · cases h
    · cases h
  | endLiq ai signer recordOk walletOk feeMax =>
    simp only [WState.stepIn] at h
    split at h
    · rename_i a ha
      split at h
      · rename_i o ho
        injection h with h; subst h
        have hfl : o.flags = a.flags &&& (Nat.xor ACCOUNT_IN_RECEIVERSHIP.toNat (2 ^ 64 - 1)) := by
          unfold endLiquidation at ho
          obtain ⟨_, _, ho⟩ := Res.bind_ok ho
          obtain ⟨_, _, ho⟩ := Res.bind_ok ho
          obtain ⟨_, _, ho⟩ := Res.bind_ok ho
          obtain ⟨⟨sz, rp⟩, _, ho⟩ := Res.bind_ok ho
          injection ho with ho
          subst ho
          rfl
        intro k a' hk hfl'
        obtain ⟨y, hy, hfy⟩ := set_noNew (a' := { a with flags := o.flags, recReceiver := 0 }) ha
          (by
            intro hx
            rw [inFlash_iff] at hx ⊢
            simp only [hfl] at hx
            have e : ACCOUNT_IN_RECEIVERSHIP.toNat = 16 := by decide
            rw [e, and_keeps_bit1 a.flags (Nat.xor 16 (2 ^ 64 - 1)) (by decide)] at hx
            exact hx) k a' hk hfl'
        obtain ⟨j, s, hij, hj⟩ := hp k y hy hfy
        refine ⟨j, s, ?_, hj⟩
        rcases Nat.lt_or_ge i j with h1 | h1
        · omega
        · have : j = i := by omega
          subst this; rw [ht] at hj; cases hj
      · cases h
    · cases h
  | startDelev ai signer recordOk =>
    simp only [WState.stepIn] at h
    split at h
    · rename_i a ha
      split at h
      · rename_i o ho
        injection h with h; subst h
        have hfl : o.flags = (a.flags ||| ACCOUNT_IN_DELEVERAGE.toNat) ||| ACCOUNT_IN_RECEIVERSHIP.toNat := (startDeleverage_flags ho).1
        intro k a' hk hfl'
        obtain ⟨y, hy, hfy⟩ := set_noNew (a' := { a with flags := o.flags, recReceiver := o.receiver, recCache := o.cache }) ha
          (by
            intro hx
            rw [inFlash_iff] at hx ⊢
            simp only [hfl] at hx
            have e : ACCOUNT_IN_RECEIVERSHIP.toNat = 16 := by decide
            have e2 : ACCOUNT_IN_DELEVERAGE.toNat = 32 := by decide
            rw [e, e2, or_keeps_bit1 (a.flags ||| 32) 16 (by decide), or_keeps_bit1 a.flags 32 (by decide)] at hx
            exact hx) k a' hk hfl'
        obtain ⟨j, s, hij, hj⟩ := hp k y hy hfy
        refine ⟨j, s, ?_, hj⟩
        rcases Nat.lt_or_ge i j with h1 | h1
        · omega
        · have : j = i := by omega
          subst this; rw [ht] at hj; cases hj
      · cases h
    · cases h
  | endDelev ai signer recordOk =>
    simp only [WState.stepIn] at h
    split at h
    · rename_i a ha
      split at h
      · rename_i o ho
        injection h with h; subst h
        have hfl : o.flags = (a.flags &&& (Nat.xor ACCOUNT_IN_DELEVERAGE.toNat (2 ^ 64 - 1))) &&& (Nat.xor ACCOUNT_IN_RECEIVERSHIP.toNat (2 ^ 64 - 1)) :=
          endDeleverage_flags ho
        intro k a' hk hfl'
        obtain ⟨y, hy, hfy⟩ := set_noNew (a' := { a with flags := o.flags, recReceiver := 0 }) ha
          (by
            intro hx
            rw [inFlash_iff] at hx ⊢
            simp only [hfl] at hx
            have e : ACCOUNT_IN_RECEIVERSHIP.toNat = 16 := by decide
            have e2 : ACCOUNT_IN_DELEVERAGE.toNat = 32 := by decide
            rw [e, e2, and_keeps_bit1 _ (Nat.xor 16 (2 ^ 64 - 1)) (by decide), and_keeps_bit1 a.flags (Nat.xor 32 (2 ^ 64 - 1)) (by decide)] at hx
            exact hx) k a' hk hfl'
        obtain ⟨j, s, hij, hj⟩ := hp k y hy hfy
        refine ⟨j, s, ?_, hj⟩
        rcases Nat.lt_or_ge i j with h1 | h1
        · omega
        · have : j = i := by omega
          subst this; rw [ht] at hj; cases hj
      · cases h
    · cases h

theorem drop_cons_facts {tx rest : List TOp} {op : TOp} {i : Nat} (h : tx.drop i = op :: rest) :
    tx[i]? = some op ∧ tx.drop (i + 1) = rest := by
  constructor
  · have : (tx.drop i)[0]? = some op := by rw [h]; rfl
    rw [List.getElem?_drop] at this
    simpa using this
  · have : (tx.drop i).drop 1 = rest := by rw [h]; rfl
    rw [List.drop_drop] at this
    exact this

theorem runFrom_pending (tx : List TOp) : ∀ (rest : List TOp) (i : Nat) (w w' : WState), tx.drop i = rest →
    WState.runFrom tx i rest w = some w' → Pending tx i w → Pending tx tx.length w' := by
  intro rest
  induction rest with
  | nil =>
    intro i w w' hd h hp
    simp only [WState.runFrom] at h
    injection h with h; subst h
    have hlen : tx.length ≤ i := by
      rcases Nat.lt_or_ge i tx.length with h1 | h1
      · have : (tx.drop i).length = tx.length - i := List.length_drop
        rw [hd] at this; simp at this; omega
      · exact h1
    intro k a hk hf
    obtain ⟨j, s, hij, hj⟩ := hp k a hk hf
    have : j < tx.length := by
      rcases Nat.lt_or_ge j tx.length with h1 | h1
      · exact h1
      · rw [List.getElem?_eq_none h1] at hj; cases hj
    omega
  | cons op rest ih =>
    intro i w w' hd h hp
    obtain ⟨hti, hd'⟩ := drop_cons_facts hd
    simp only [WState.runFrom] at h
    split at h
    · rename_i w1 h1
      exact ih (i + 1) w1 w' hd' h (stepIn_pending hti h1 hp)
    · cases h

/-- **a committed transaction leaves no account in a flash loan** (when none was before it) -/
theorem runTx_noFlash {w w' : WState} {tx : List TOp} (h : w.runTx tx = some w')
    (h0 : ∀ (k : Nat) (a : AcctV), w.accts[k]? = some a → inFlash a = false) :
    ∀ (k : Nat) (a : AcctV), w'.accts[k]? = some a → inFlash a = false := by
  have hp0 : Pending tx 0 w := by
    intro k a hk hf
    rw [h0 k a hk] at hf; cases hf
  have hp := runFrom_pending tx tx 0 w w' rfl h hp0
  intro k a hk
  cases hfa : inFlash a with
  | false => rfl
  | true =>
    obtain ⟨j, s, hij, hj⟩ := hp k a hk hfa
    have : j < tx.length := by
      rcases Nat.lt_or_ge j tx.length with h1 | h1
      · exact h1
      · rw [List.getElem?_eq_none h1] at hj; cases hj
    omega

/-- the same over any sequence of transactions (a rolled-back one leaves the state as it was) -/
theorem runTxs_noFlash : ∀ (txs : List (List TOp)) (w : WState), (∀ (k : Nat) (a : AcctV), w.accts[k]? = some a → inFlash a = false) →
    ∀ (k : Nat) (a : AcctV), (w.runTxs txs).accts[k]? = some a → inFlash a = false := by
  intro txs
  induction txs with
  | nil => intro w h0; exact h0
  | cons tx rest ih =>
    intro w h0
    simp only [WState.runTxs]
    apply ih
    cases hr : w.runTx tx with
    | none => exact h0
    | some w1 => exact runTx_noFlash hr h0

/-- **every end of a committed transaction ran**: the state it ran on passed `World.endFlashloan` (authority, top level, flags,
    the initial-margin check on the whole portfolio) -/
theorem runFrom_ends (tx : List TOp) : ∀ (rest : List TOp) (i : Nat) (w w' : WState), tx.drop i = rest →
    WState.runFrom tx i rest w = some w' → ∀ (j k s : Nat), i ≤ j → tx[j]? = some (.endFlash k s) →
      ∃ (wj : WState) (a : AcctV) (f : Nat), wj.accts[k]? = some a ∧ endFlashloan (wj.actx a s) 1 = .ok f := by
  intro rest
  induction rest with
  | nil =>
    intro i w w' hd h j k s hij hj
    have hlen : tx.length ≤ i := by
      rcases Nat.lt_or_ge i tx.length with h1 | h1
      · have : (tx.drop i).length = tx.length - i := List.length_drop
        rw [hd] at this; simp at this; omega
      · exact h1
    have : j < tx.length := by
      rcases Nat.lt_or_ge j tx.length with h1 | h1
      · exact h1
      · rw [List.getElem?_eq_none h1] at hj; cases hj
    omega
  | cons op rest ih =>
    intro i w w' hd h j k s hij hj
    obtain ⟨hti, hd'⟩ := drop_cons_facts hd
    simp only [WState.runFrom] at h
    split at h
    · rename_i w1 h1
      rcases Nat.lt_or_ge i j with hlt | hge
      · exact ih (i + 1) w1 w' hd' h j k s (by omega) hj
      · have : j = i := by omega
        subst this
        rw [hti] at hj
        injection hj with hj
        subst hj
        simp only [WState.stepIn] at h1
        split at h1
        · rename_i a ha
          split at h1
          · rename_i f hf
            exact ⟨w, a, f, ha, hf⟩
          · cases h1
        · cases h1
    · cases h

/-! ### every position of a committed transaction was reached, with the pending-ends invariant -/

theorem runFrom_at (tx : List TOp) : ∀ (rest : List TOp) (i : Nat) (w w' : WState), tx.drop i = rest →
    WState.runFrom tx i rest w = some w' → Pending tx i w →
    ∀ (j : Nat) (t : TOp), i ≤ j → tx[j]? = some t → ∃ (wj wj' : WState), Pending tx j wj ∧ wj.stepIn tx j t = some wj' := by
  intro rest
  induction rest with
  | nil =>
    intro i w w' hd h hp j t hij hj
    have hlen : tx.length ≤ i := by
      rcases Nat.lt_or_ge i tx.length with h1 | h1
      · have : (tx.drop i).length = tx.length - i := List.length_drop
        rw [hd] at this; simp at this; omega
      · exact h1
    have : j < tx.length := by
      rcases Nat.lt_or_ge j tx.length with h1 | h1
      · exact h1
      · rw [List.getElem?_eq_none h1] at hj; cases hj
    omega
  | cons op rest ih =>
    intro i w w' hd h hp j t hij hj
    obtain ⟨hti, hd'⟩ := drop_cons_facts hd
    simp only [WState.runFrom] at h
    split at h
    · rename_i w1 h1
      rcases Nat.lt_or_ge i j with hlt | hge
      · exact ih (i + 1) w1 w' hd' h (stepIn_pending hti h1 hp) j t (by omega) hj
      · have : j = i := by omega
        subst this
        rw [hti] at hj
        injection hj with hj
        subst hj
        exact ⟨w, w1, hp, h1⟩
    · cases h

/-- the state instruction `i` of transaction `tx` finds when the transaction is run on `w`: the first `i` instructions executed -/
def WState.before (w : WState) (tx : List TOp) (i : Nat) : Option WState := WState.runFrom tx 0 (tx.take i) w

theorem runFrom_snoc (tx : List TOp) : ∀ (l : List TOp) (k : Nat) (w wk w1 : WState) (op : TOp),
    WState.runFrom tx k l w = some wk → wk.stepIn tx (k + l.length) op = some w1 → WState.runFrom tx k (l ++ [op]) w = some w1 := by
  intro l
  induction l with
  | nil =>
    intro k w wk w1 op h hs
    simp only [WState.runFrom] at h
    injection h with h; subst h
    simp only [List.nil_append, WState.runFrom, List.length_nil, Nat.add_zero] at hs ⊢
    rw [hs]
  | cons x rest ih =>
    intro k w wk w1 op h hs
    simp only [List.cons_append, WState.runFrom] at h ⊢
    split at h
    · rename_i w2 h2
      apply ih (k + 1) w2 wk w1 op h
      have : k + 1 + rest.length = k + (x :: rest).length := by simp only [List.length_cons]; omega
      rw [this]; exact hs
    · cases h

/-- every instruction of a committed transaction was accepted on the state the transaction had reached before it -/
theorem runFrom_reached (tx : List TOp) (w0 : WState) : ∀ (rest : List TOp) (i : Nat) (w w' : WState), tx.drop i = rest →
    w0.before tx i = some w → WState.runFrom tx i rest w = some w' →
    ∀ (j : Nat) (t : TOp), i ≤ j → tx[j]? = some t → ∃ (wj wj' : WState), w0.before tx j = some wj ∧ wj.stepIn tx j t = some wj' := by
  intro rest
  induction rest with
  | nil =>
    intro i w w' hd _ h j t hij hj
    have hlen : tx.length ≤ i := by
      rcases Nat.lt_or_ge i tx.length with h1 | h1
      · have : (tx.drop i).length = tx.length - i := List.length_drop
        rw [hd] at this; simp at this; omega
      · exact h1
    have : j < tx.length := by
      rcases Nat.lt_or_ge j tx.length with h1 | h1
      · exact h1
      · rw [List.getElem?_eq_none h1] at hj; cases hj
    omega
  | cons op rest ih =>
    intro i w w' hd hbef h j t hij hj
    obtain ⟨hti, hd'⟩ := drop_cons_facts hd
    simp only [WState.runFrom] at h
    split at h
    · rename_i w1 h1
      rcases Nat.lt_or_ge i j with hlt | hge
      · have hlt' : i < tx.length := by
          rcases Nat.lt_or_ge i tx.length with h2 | h2
          · exact h2
          · rw [List.getElem?_eq_none h2] at hti; cases hti
        have htake : tx.take (i + 1) = tx.take i ++ [op] := by
          rw [List.take_succ, hti]; rfl
        have hbef1 : w0.before tx (i + 1) = some w1 := by
          unfold WState.before at hbef ⊢
          rw [htake]
          apply runFrom_snoc tx (tx.take i) 0 w0 w w1 op hbef
          have : (tx.take i).length = i := by simp [List.length_take]; omega
          rw [this, Nat.zero_add]; exact h1
        exact ih (i + 1) w1 w' hd' hbef1 h j t (by omega) hj
      · have : j = i := by omega
        subst this
        rw [hti] at hj
        injection hj with hj
        subst hj
        exact ⟨w, w1, hbef, h1⟩
    · cases h

theorem before_zero (w : WState) (tx : List TOp) : w.before tx 0 = some w := by
  unfold WState.before; simp [WState.runFrom]

/-- every `end_flashloan` of a committed transaction ran, and succeeded, on the state it found -/
theorem tx_endflash_ran {w w' : WState} {tx : List TOp} (h : w.runTx tx = some w')
    {j k s : Nat} (hj : tx[j]? = some (.endFlash k s)) :
    ∃ (wj : WState) (a : AcctV) (f : Nat), w.before tx j = some wj ∧ wj.accts[k]? = some a ∧ endFlashloan (wj.actx a s) 1 = .ok f := by
  obtain ⟨wj, wj', hbj, hst⟩ := runFrom_reached tx w tx 0 w w' rfl (before_zero w tx) h j _ (Nat.zero_le _) hj
  simp only [WState.stepIn] at hst
  split at hst
  · rename_i a ha
    split at hst
    · rename_i f hf
      exact ⟨wj, a, f, hbj, ha, hf⟩
    · cases hst
  · cases hst

/-- `runFrom_at`, naming the reached state: instruction `j` of a committed transaction ran, and succeeded, on `w0.before tx j`,
    where every raised in-flash-loan flag still has its `end_flashloan` ahead -/
theorem runFrom_at_b (tx : List TOp) (w0 : WState) : ∀ (rest : List TOp) (i : Nat) (w w' : WState), tx.drop i = rest →
    w0.before tx i = some w → WState.runFrom tx i rest w = some w' → Pending tx i w →
    ∀ (j : Nat) (t : TOp), i ≤ j → tx[j]? = some t →
      ∃ (wj wj' : WState), w0.before tx j = some wj ∧ Pending tx j wj ∧ wj.stepIn tx j t = some wj' := by
  intro rest
  induction rest with
  | nil =>
    intro i w w' hd _ h hp j t hij hj
    have hlen : tx.length ≤ i := by
      rcases Nat.lt_or_ge i tx.length with h1 | h1
      · have : (tx.drop i).length = tx.length - i := List.length_drop
        rw [hd] at this; simp at this; omega
      · exact h1
    have : j < tx.length := by
      rcases Nat.lt_or_ge j tx.length with h1 | h1
      · exact h1
      · rw [List.getElem?_eq_none h1] at hj; cases hj
    omega
  | cons op rest ih =>
    intro i w w' hd hbef h hp j t hij hj
    obtain ⟨hti, hd'⟩ := drop_cons_facts hd
    simp only [WState.runFrom] at h
    split at h
    · rename_i w1 h1
      rcases Nat.lt_or_ge i j with hlt | hge
      · have hlt' : i < tx.length := by
          rcases Nat.lt_or_ge i tx.length with h2 | h2
          · exact h2
          · rw [List.getElem?_eq_none h2] at hti; cases hti
        have htake : tx.take (i + 1) = tx.take i ++ [op] := by
          rw [List.take_succ, hti]; rfl
        have hbef1 : w0.before tx (i + 1) = some w1 := by
          unfold WState.before at hbef ⊢
          rw [htake]
          apply runFrom_snoc tx (tx.take i) 0 w0 w w1 op hbef
          have : (tx.take i).length = i := by simp [List.length_take]; omega
          rw [this, Nat.zero_add]; exact h1
        exact ih (i + 1) w1 w' hd' hbef1 h (stepIn_pending hti h1 hp) j t (by omega) hj
      · have : j = i := by omega
        subst this
        rw [hti] at hj
        injection hj with hj
        subst hj
        exact ⟨w, w1, hbef, hp, h1⟩
    · cases h

/-- a deposit of a committed transaction ran, and succeeded, on some reached state -/
theorem tx_deposit_ran {w w' : WState} {tx : List TOp} (h : w.runTx tx = some w')
    {i ai bi signer : Nat} {amount : Int} {upTo : Bool} (hi : tx[i]? = some (.ix (.deposit ai bi signer amount upTo))) :
    ∃ (wi : WState) (a : AcctV) (b : WBank) (o : Out), w.before tx i = some wi ∧ wi.accts[ai]? = some a ∧ wi.banks[bi]? = some b ∧
      deposit (wi.ctx a b signer b.v.liquidityVault 0) amount upTo = .ok o := by
  obtain ⟨wi, wi', hbef, hst⟩ := runFrom_reached tx w tx 0 w w' rfl (before_zero w tx) h i _ (Nat.zero_le _) hi
  simp only [WState.stepIn, WState.step?] at hst
  split at hst
  · rename_i a b ha hb
    split at hst
    · rename_i o ho; exact ⟨wi, a, b, o, hbef, ha, hb, ho⟩
    · cases hst
  · cases hst

/-- … and so did a borrow -/
theorem tx_borrow_ran {w w' : WState} {tx : List TOp} (h : w.runTx tx = some w')
    {i ai bi signer : Nat} {amount : Int} (hi : tx[i]? = some (.ix (.borrow ai bi signer amount))) :
    ∃ (wi : WState) (a : AcctV) (b : WBank) (o : Out), w.before tx i = some wi ∧ wi.accts[ai]? = some a ∧ wi.banks[bi]? = some b ∧
      borrow (wi.ctx a b signer b.v.liquidityVault 0) amount = .ok o := by
  obtain ⟨wi, wi', hbef, hst⟩ := runFrom_reached tx w tx 0 w w' rfl (before_zero w tx) h i _ (Nat.zero_le _) hi
  simp only [WState.stepIn, WState.step?] at hst
  split at hst
  · rename_i a b ha hb
    split at hst
    · rename_i o ho; exact ⟨wi, a, b, o, hbef, ha, hb, ho⟩
    · cases hst
  · cases hst

/-- … and a withdrawal -/
theorem tx_withdraw_ran {w w' : WState} {tx : List TOp} (h : w.runTx tx = some w')
    {i ai bi signer : Nat} {amount vault : Int} {all : Bool} (hi : tx[i]? = some (.ix (.withdraw ai bi signer amount all vault))) :
    ∃ (wi : WState) (a : AcctV) (b : WBank) (o : Out), w.before tx i = some wi ∧ wi.accts[ai]? = some a ∧ wi.banks[bi]? = some b ∧
      withdraw (wi.ctx a b signer b.v.liquidityVault vault) amount all = .ok o := by
  obtain ⟨wi, wi', hbef, hst⟩ := runFrom_reached tx w tx 0 w w' rfl (before_zero w tx) h i _ (Nat.zero_le _) hi
  simp only [WState.stepIn, WState.step?] at hst
  split at hst
  · rename_i a b ha hb
    split at hst
    · rename_i o ho; exact ⟨wi, a, b, o, hbef, ha, hb, ho⟩
    · cases hst
  · cases hst

/-- … and a repayment -/
theorem tx_repay_ran {w w' : WState} {tx : List TOp} (h : w.runTx tx = some w')
    {i ai bi signer : Nat} {amount : Int} {all : Bool} (hi : tx[i]? = some (.ix (.repay ai bi signer amount all))) :
    ∃ (wi : WState) (a : AcctV) (b : WBank) (o : Out), w.before tx i = some wi ∧ wi.accts[ai]? = some a ∧ wi.banks[bi]? = some b ∧
      repay (wi.ctx a b signer b.v.liquidityVault 0) amount all = .ok o := by
  obtain ⟨wi, wi', hbef, hst⟩ := runFrom_reached tx w tx 0 w w' rfl (before_zero w tx) h i _ (Nat.zero_le _) hi
  simp only [WState.stepIn, WState.step?] at hst
  split at hst
  · rename_i a b ha hb
    split at hst
    · rename_i o ho; exact ⟨wi, a, b, o, hbef, ha, hb, ho⟩
    · cases hst
  · cases hst

/-- … and a bankruptcy settlement -/
theorem tx_bankruptcy_ran {w w' : WState} {tx : List TOp} (h : w.runTx tx = some w')
    {i ai bi signer : Nat} {available : Int} (hi : tx[i]? = some (.ix (.bankruptcy ai bi signer available))) :
    ∃ (wi : WState) (a : AcctV) (b : WBank) (o : BkrOut), w.before tx i = some wi ∧ wi.accts[ai]? = some a ∧ wi.banks[bi]? = some b ∧
      bankruptcy (wi.ctx a b signer b.v.liquidityVault 0) available = .ok o := by
  obtain ⟨wi, wi', hbef, hst⟩ := runFrom_reached tx w tx 0 w w' rfl (before_zero w tx) h i _ (Nat.zero_le _) hi
  simp only [WState.stepIn, WState.step?] at hst
  split at hst
  · rename_i a b ha hb
    split at hst
    · rename_i o ho; exact ⟨wi, a, b, o, hbef, ha, hb, ho⟩
    · cases hst
  · cases hst

/-- … and a classic liquidation -/
theorem tx_liquidate_ran {w w' : WState} {tx : List TOp} (h : w.runTx tx = some w')
    {i qi ei abi lbi signer : Nat} {amount : Int} (hi : tx[i]? = some (.ix (.liquidate qi ei abi lbi signer amount))) :
    ∃ (wi : WState) (lq le : AcctV) (ab lb : WBank) (o : LiqOutW), w.before tx i = some wi ∧ wi.accts[qi]? = some lq ∧ wi.accts[ei]? = some le ∧
      wi.banks[abi]? = some ab ∧ wi.banks[lbi]? = some lb ∧ liquidate (wi.liqCtx lq le ab lb signer) amount = .ok o := by
  obtain ⟨wi, wi', hbef, hst⟩ := runFrom_reached tx w tx 0 w w' rfl (before_zero w tx) h i _ (Nat.zero_le _) hi
  simp only [WState.stepIn, WState.step?] at hst
  split at hst
  · cases hst
  · split at hst
    · rename_i lq le ab lb hq he hab hlb
      split at hst
      · rename_i o ho; exact ⟨wi, lq, le, ab, lb, o, hbef, hq, he, hab, hlb, ho⟩
      · cases hst
    · cases hst

/-- **a borrow inside a committed transaction is backed by an initial-margin check**: either the borrow's own (the account was
    not in a flash loan: the check ran on the state the borrow left), or the one of the account's end_flashloan further down
    the same transaction (which ran on the state the whole bracket left) -/
theorem tx_borrow_checked {w w' : WState} {tx : List TOp} (h : w.runTx tx = some w')
    (h0 : ∀ (k : Nat) (a : AcctV), w.accts[k]? = some a → inFlash a = false)
    {i ai bi signer : Nat} {amount : Int} (hi : tx[i]? = some (.ix (.borrow ai bi signer amount))) :
    (∃ (wi : WState) (a : AcctV) (b : WBank) (o : Out), w.before tx i = some wi ∧ wi.accts[ai]? = some a ∧ wi.banks[bi]? = some b ∧
        borrow (wi.ctx a b signer b.v.liquidityVault 0) amount = .ok o ∧ inFlash a = false ∧
        initHealth (wi.ctx a b signer b.v.liquidityVault 0) o.slots o.books = .ok ()) ∨
    (∃ (j s : Nat) (wj : WState) (a : AcctV) (f : Nat), i < j ∧ tx[j]? = some (.endFlash ai s) ∧ w.before tx j = some wj ∧ wj.accts[ai]? = some a ∧
        endFlashloan (wj.actx a s) 1 = .ok f) := by
  have hp0 : Pending tx 0 w := by
    intro k a hk hf
    rw [h0 k a hk] at hf; cases hf
  obtain ⟨wi, wi', hbi, hpi, hst⟩ := runFrom_at_b tx w tx 0 w w' rfl (before_zero w tx) h hp0 i _ (Nat.zero_le _) hi
  simp only [WState.stepIn, WState.step?] at hst
  split at hst
  · rename_i a b ha hb
    split at hst
    · rename_i o ho
      cases hfa : inFlash a with
      | false =>
        left
        exact ⟨wi, a, b, o, hbi, ha, hb, ho, hfa, (borrow_ok ho).health⟩
      | true =>
        right
        obtain ⟨j, s, hij, hj⟩ := hpi ai a ha hfa
        have hne : j ≠ i := by
          intro e; subst e; rw [hi] at hj; cases hj
        obtain ⟨wj, a', f, hbj, ha', hf⟩ := tx_endflash_ran h hj
        exact ⟨j, s, wj, a', f, by omega, hj, hbj, ha', hf⟩
    · cases hst
  · cases hst

/-- a classic liquidation inside a committed transaction ran on a reached state; a liquidator inside a flash loan has its own
    end_flashloan further down the same transaction -/
theorem tx_liquidate_at {w w' : WState} {tx : List TOp} (h : w.runTx tx = some w')
    (h0 : ∀ (k : Nat) (a : AcctV), w.accts[k]? = some a → inFlash a = false)
    {i qi ei abi lbi signer : Nat} {amount : Int} (hi : tx[i]? = some (.ix (.liquidate qi ei abi lbi signer amount))) :
    ∃ (wi : WState) (lq le : AcctV) (ab lb : WBank) (o : LiqOutW), w.before tx i = some wi ∧ wi.accts[qi]? = some lq ∧ wi.accts[ei]? = some le ∧
      wi.banks[abi]? = some ab ∧ wi.banks[lbi]? = some lb ∧ liquidate (wi.liqCtx lq le ab lb signer) amount = .ok o ∧
      (inFlash lq = true → ∃ (j s : Nat) (wj : WState) (a : AcctV) (f : Nat), i < j ∧ tx[j]? = some (.endFlash qi s) ∧
        w.before tx j = some wj ∧ wj.accts[qi]? = some a ∧ endFlashloan (wj.actx a s) 1 = .ok f) := by
  have hp0 : Pending tx 0 w := by
    intro k a hk hf
    rw [h0 k a hk] at hf; cases hf
  obtain ⟨wi, wi', hbi, hpi, hst⟩ := runFrom_at_b tx w tx 0 w w' rfl (before_zero w tx) h hp0 i _ (Nat.zero_le _) hi
  simp only [WState.stepIn, WState.step?] at hst
  split at hst
  · cases hst
  · split at hst
    · rename_i lq le ab lb hq he hab hlb
      split at hst
      · rename_i o ho
        refine ⟨wi, lq, le, ab, lb, o, hbi, hq, he, hab, hlb, ho, ?_⟩
        intro hfa
        obtain ⟨j, s, hij, hj⟩ := hpi qi lq hq hfa
        have hne : j ≠ i := by
          intro e; subst e; rw [hi] at hj; cases hj
        obtain ⟨wj, a', f, hbj, ha', hf⟩ := tx_endflash_ran h hj
        exact ⟨j, s, wj, a', f, by omega, hj, hbj, ha', hf⟩
      · cases hst
    · cases hst

/-- the same for a withdrawal outside receivership -/
theorem tx_withdraw_checked {w w' : WState} {tx : List TOp} (h : w.runTx tx = some w')
    (h0 : ∀ (k : Nat) (a : AcctV), w.accts[k]? = some a → inFlash a = false)
    {i ai bi signer : Nat} {amount vault : Int} {all : Bool} (hi : tx[i]? = some (.ix (.withdraw ai bi signer amount all vault))) :
    (∃ (wi : WState) (a : AcctV) (b : WBank) (o : Out), w.before tx i = some wi ∧ wi.accts[ai]? = some a ∧ wi.banks[bi]? = some b ∧
        withdraw (wi.ctx a b signer b.v.liquidityVault vault) amount all = .ok o ∧ inFlash a = false ∧
        withdrawHealth (wi.ctx a b signer b.v.liquidityVault vault) o.slots o.books = .ok ()) ∨
    (∃ (j s : Nat) (wj : WState) (a : AcctV) (f : Nat), i < j ∧ tx[j]? = some (.endFlash ai s) ∧ w.before tx j = some wj ∧ wj.accts[ai]? = some a ∧
        endFlashloan (wj.actx a s) 1 = .ok f) := by
  have hp0 : Pending tx 0 w := by
    intro k a hk hf
    rw [h0 k a hk] at hf; cases hf
  obtain ⟨wi, wi', hbi, hpi, hst⟩ := runFrom_at_b tx w tx 0 w w' rfl (before_zero w tx) h hp0 i _ (Nat.zero_le _) hi
  simp only [WState.stepIn, WState.step?] at hst
  split at hst
  · rename_i a b ha hb
    split at hst
    · rename_i o ho
      cases hfa : inFlash a with
      | false =>
        left
        exact ⟨wi, a, b, o, hbi, ha, hb, ho, hfa, (withdraw_ok ho).health⟩
      | true =>
        right
        obtain ⟨j, s, hij, hj⟩ := hpi ai a ha hfa
        have hne : j ≠ i := by
          intro e; subst e; rw [hi] at hj; cases hj
        obtain ⟨wj, a', f, hbj, ha', hf⟩ := tx_endflash_ran h hj
        exact ⟨j, s, wj, a', f, by omega, hj, hbj, ha', hf⟩
    · cases hst
  · cases hst

/-! ### the ledger and the shape of every slot array run through transactions too -/

theorem setFlags_inv {w : WState} {ai : Nat} {a : AcctV} {f : Nat} (hi : WInv w) (ha : w.accts[ai]? = some a) : WInv (w.setFlags ai a f) := by
  obtain ⟨hk, hA, hL⟩ := hi
  refine ⟨hk, ?_, ?_⟩
  · intro j b hb
    simp only [WState.setFlags]
    rw [sum_map_set (fun x => posA b.v.key x.slots) w.accts ai a _ ha]
    have := hA j b hb
    simp only
    omega
  · intro j b hb
    simp only [WState.setFlags]
    rw [sum_map_set (fun x => posL b.v.key x.slots) w.accts ai a _ ha]
    have := hL j b hb
    simp only
    omega

theorem setAcct_inv {w : WState} {ai : Nat} {a a' : AcctV} (hi : WInv w) (ha : w.accts[ai]? = some a) (hs : a'.slots = a.slots) :
    WInv { w with accts := w.accts.set ai a' } := by
  obtain ⟨hk, hA, hL⟩ := hi
  refine ⟨hk, ?_, ?_⟩
  · intro j b hb
    simp only
    rw [sum_map_set (fun x => posA b.v.key x.slots) w.accts ai a _ ha, hs]
    have := hA j b hb
    omega
  · intro j b hb
    simp only
    rw [sum_map_set (fun x => posL b.v.key x.slots) w.accts ai a _ ha, hs]
    have := hL j b hb
    omega

theorem stepIn_inv {tx : List TOp} {i : Nat} {t : TOp} {w w' : WState} (h : w.stepIn tx i t = some w') (hi : WInv w) : WInv w' := by
  cases t with
  | ix op =>
    simp only [WState.stepIn] at h
    rw [step?_some h]; exact step_inv w op hi
  | startFlash ai signer endIdx =>
    simp only [WState.stepIn] at h
    split at h
    · rename_i a ha
      split at h
      · injection h with h; subst h; exact setFlags_inv hi ha
      · cases h
    · cases h
  | endFlash ai signer =>
    simp only [WState.stepIn] at h
    split at h
    · rename_i a ha
      split at h
      · injection h with h; subst h; exact setFlags_inv hi ha
      · cases h
    · cases h
  | startLiq ai receiver recordOk =>
    simp only [WState.stepIn] at h
    split at h
    · rename_i a ha
      split at h
      · injection h with h; subst h; exact setAcct_inv hi ha rfl
      · cases h
    · cases h
  | endLiq ai signer recordOk walletOk feeMax =>
    simp only [WState.stepIn] at h
    split at h
    · rename_i a ha
      split at h
      · injection h with h; subst h; exact setAcct_inv hi ha rfl
      · cases h
    · cases h
  | startDelev ai signer recordOk =>
    simp only [WState.stepIn] at h
    split at h
    · rename_i a ha
      split at h
      · injection h with h; subst h; exact setAcct_inv hi ha rfl
      · cases h
    · cases h
  | endDelev ai signer recordOk =>
    simp only [WState.stepIn] at h
    split at h
    · rename_i a ha
      split at h
      · injection h with h; subst h; exact setAcct_inv hi ha rfl
      · cases h
    · cases h

theorem runFrom_inv (tx : List TOp) : ∀ (rest : List TOp) (i : Nat) (w w' : WState),
    WState.runFrom tx i rest w = some w' → WInv w → WInv w' := by
  intro rest
  induction rest with
  | nil => intro i w w' h hi; simp only [WState.runFrom] at h; injection h with h; subst h; exact hi
  | cons op rest ih =>
    intro i w w' h hi
    simp only [WState.runFrom] at h
    split at h
    · rename_i w1 h1; exact ih (i + 1) w1 w' h (stepIn_inv h1 hi)
    · cases h

theorem runTxs_inv : ∀ (txs : List (List TOp)) (w : WState), WInv w → WInv (w.runTxs txs) := by
  intro txs
  induction txs with
  | nil => intro w h; exact h
  | cons tx rest ih =>
    intro w hi
    simp only [WState.runTxs]
    apply ih
    cases hr : w.runTx tx with
    | none => exact hi
    | some w1 => exact runFrom_inv tx tx 0 w w1 hr hi

end Mfi.World
