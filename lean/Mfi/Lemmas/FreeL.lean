/-
  (Moved out of Props/C03.lean, which restates every theorem, so that lemma files can use these without importing a property file.)
  C03 — No free value: no operation or round trip pays out more than it debits.

  Values are compared exactly, in units of 2^-96 tokens: a position's asset value is
  `shares·asv` (product of two 2^-48 bit patterns), `n` tokens are `n·2^96`. Theorems are about
  Mfi/Model/Bank.lean, diffed against the real BankAccountWrapper by the `wrapper` family.
-/
import Mfi.Model.Bank
import Mfi.Model.Token
import Mfi.Lemmas.FxL
import Mfi.Lemmas.ResL
import Mfi.Lemmas.BankL
import Mfi.Lemmas.TagL

namespace Mfi.FreeL
open Mfi Mfi.Fx Mfi.Bank Mfi.Gen Mfi.Token

/-- net position value of a balance at the bank's share values, in 2^-96 token units -/
def netValue (b : Bank) (x : Balance) : Int := x.a * b.asv - x.l * b.lsv

/-- trunc(v·2^48 / sv)·sv ≤ v·2^48 : shares bought with `v` are worth at most `v` -/
theorem shares_value_le {v sv s : Int} (hv : 0 ≤ v) (hsv : 0 < sv) (h : div? v sv = some s) :
    s * sv ≤ v * ONE ∧ v * ONE < (s + 1) * sv ∧ 0 ≤ s := by
  obtain ⟨hne, es, _, _⟩ := div?_some h
  rw [tdiv_nonneg (by have := ONE_pos; positivity)] at es
  subst es
  exact ⟨Int.ediv_mul_le _ hne, Int.lt_ediv_add_one_mul_self _ hsv,
    Int.ediv_nonneg (by have := ONE_pos; positivity) (le_of_lt hsv)⟩

theorem assetShares_spec {b : Bank} {v s : Int} (hv : 0 ≤ v) (hsv : 0 < b.asv) (h : assetShares b v = .ok s) :
    s * b.asv ≤ v * ONE ∧ v * ONE < (s + 1) * b.asv ∧ 0 ≤ s := by
  unfold assetShares at h
  have : ¬ b.asv = 0 := by omega
  simp only [this, ↓reduceIte] at h
  exact shares_value_le hv hsv (math_ok h)

theorem liabShares_spec {b : Bank} {v s : Int} (hv : 0 ≤ v) (hsv : 0 < b.lsv) (h : liabShares b v = .ok s) :
    s * b.lsv ≤ v * ONE ∧ v * ONE < (s + 1) * b.lsv ∧ 0 ≤ s :=
  shares_value_le hv hsv (math_ok h)

/-- **deposit_credit_le / repay_relief_le**: any successful balance increase by `delta` (deposit,
    repay, liquidation credit) raises the position's net value by AT MOST `delta` — never more than
    was paid in. Holds for every share value, position and amount. -/
theorem increase_no_gain {b0 b' : Bank} {x0 x' : Balance} {now delta : Int} {t : IncType}
    (h : increaseBalance b0 x0 now delta t = .ok (b', x'))
    (hd : 0 ≤ delta) (hasv : 0 < b0.asv) (hlsv : 0 < b0.lsv) (hl : 0 ≤ x0.l) :
    netValue b' x' - netValue b0 x0 ≤ delta * ONE := by
  obtain ⟨b1, x1, curL, d, aInc, lDec, b2, b3, hc, hcur, hsub, _, _, ha, hb2, hld, hb3, _, _, _, _, hx', ⟨lc, bc, hb'⟩⟩ :=
    (increase_spec h).ex
  obtain ⟨⟨r, hb1⟩, ⟨e, hx1⟩⟩ := claim_frame hc
  obtain ⟨e2, _, _⟩ := changeAsset_frame hb2
  obtain ⟨e3, _, _⟩ := changeLiab_frame hb3
  have ed := (sub?_some hsub).1
  have ecur := (mul?_some (math_ok hcur)).1
  have hx1l : x1.l = x0.l := by rw [hx1]
  have hx1a : x1.a = x0.a := by rw [hx1]
  have hcur0 : 0 ≤ curL := by
    rw [ecur, hx1l, hb1]; exact Int.ediv_nonneg (mul_nonneg hl (le_of_lt hlsv)) (le_of_lt ONE_pos)
  have hb1asv : b1.asv = b0.asv := by rw [hb1]
  have hb2lsv : b2.lsv = b0.lsv := by rw [e2, hb1]
  have sa := assetShares_spec (b := b1) (v := max d 0) (by omega) (by rw [hb1asv]; exact hasv) ha
  have sl := liabShares_spec (b := b2) (v := min curL delta) (by omega) (by rw [hb2lsv]; exact hlsv) hld
  rw [hb1asv] at sa
  rw [hb2lsv] at sl
  have hb'asv : b'.asv = b0.asv := by rw [hb', e3, e2, hb1]
  have hb'lsv : b'.lsv = b0.lsv := by rw [hb', e3, e2, hb1]
  unfold netValue
  rw [hb'asv, hb'lsv, hx']
  simp only [hx1a, hx1l]
  have hsum : max d 0 + min curL delta = delta := by omega
  have : (max d 0) * ONE + (min curL delta) * ONE = delta * ONE := by rw [← add_mul, hsum]
  nlinarith [sa.1, sl.1]

/-- **withdraw_payout_le / borrow_debit_ge**: any successful balance decrease by `delta` (withdraw,
    borrow, liquidation debit) lowers the position's net value by MORE than `delta − (asv + lsv)·2^-48`:
    the user is paid `delta` and gives up at least that, up to one ulp of each share value. -/
theorem decrease_bounded_gain {b0 b' : Bank} {x0 x' : Balance} {now delta : Int} {t : DecType}
    (h : decreaseBalance b0 x0 now delta t = .ok (b', x'))
    (hd : 0 ≤ delta) (hasv : 0 < b0.asv) (hlsv : 0 < b0.lsv) (ha0 : 0 ≤ x0.a) :
    delta * ONE - (b0.asv + b0.lsv) < netValue b0 x0 - netValue b' x' := by
  obtain ⟨b1, x1, curA, d, aDec, lInc, b2, b3, hc, hcur, hsub, _, _, ha, hb2, hld, hb3, _, _, _, _, _, hx', ⟨lc, bc, hb'⟩⟩ :=
    (decrease_spec h).ex
  obtain ⟨⟨r, hb1⟩, ⟨e, hx1⟩⟩ := claim_frame hc
  obtain ⟨e2, _, _⟩ := changeAsset_frame hb2
  obtain ⟨e3, _, _⟩ := changeLiab_frame hb3
  have ed := (sub?_some hsub).1
  have ecur := (mul?_some (math_ok hcur)).1
  have hx1l : x1.l = x0.l := by rw [hx1]
  have hx1a : x1.a = x0.a := by rw [hx1]
  have hcur0 : 0 ≤ curA := by
    rw [ecur, hx1a, hb1]; exact Int.ediv_nonneg (mul_nonneg ha0 (le_of_lt hasv)) (le_of_lt ONE_pos)
  have hb1asv : b1.asv = b0.asv := by rw [hb1]
  have hb2lsv : b2.lsv = b0.lsv := by rw [e2, hb1]
  have sa := assetShares_spec (b := b1) (v := min curA delta) (by omega) (by rw [hb1asv]; exact hasv) ha
  have sl := liabShares_spec (b := b2) (v := max d 0) (by omega) (by rw [hb2lsv]; exact hlsv) hld
  rw [hb1asv] at sa
  rw [hb2lsv] at sl
  have hb'asv : b'.asv = b0.asv := by rw [hb', e3, e2, hb1]
  have hb'lsv : b'.lsv = b0.lsv := by rw [hb', e3, e2, hb1]
  unfold netValue
  rw [hb'asv, hb'lsv, hx']
  simp only [hx1a, hx1l]
  have hsum : min curA delta + max d 0 = delta := by omega
  have : (min curA delta) * ONE + (max d 0) * ONE = delta * ONE := by rw [← add_mul, hsum]
  nlinarith [sa.2.1, sl.2.1]


/-- **withdraw_all rounds down**: the tokens paid by a full withdrawal never exceed the exact value
    of the closed deposit (`payout·2^96 ≤ shares·asv`); the only thing the user can "gain" is the
    dust debt (value below ZERO_AMOUNT_THRESHOLD, checked by the code) that closing abandons. -/
theorem withdraw_all_rounds_down {b0 b' : Bank} {x0 x' : Balance} {now amt : Int}
    (h : withdrawAll b0 x0 now = .ok (b', x', amt)) (hasv : 0 ≤ b0.asv) (ha : 0 ≤ x0.a) :
    amt * ONE * ONE ≤ x0.a * b0.asv ∧ x'.a = 0 ∧ x'.l = 0 ∧ x'.active = false ∧
    (∃ curL, liabAmount b0 x0.l = .ok curL ∧ isZeroTol curL ZERO_AMOUNT_THRESHOLD = true) := by
  unfold withdrawAll at h
  obtain ⟨⟨b1, x1⟩, hc, h⟩ := Res.bind_ok h
  dsimp only at h
  obtain ⟨curA, hcurA, h⟩ := Res.bind_ok h
  obtain ⟨curL, hcurL, h⟩ := Res.bind_ok h
  obtain ⟨_, _, h⟩ := Res.bind_ok h
  obtain ⟨_, hz, h⟩ := Res.bind_ok h
  obtain ⟨bal', hclose, h⟩ := Res.bind_ok h
  obtain ⟨b2, _, h⟩ := Res.bind_ok h
  obtain ⟨_, _, h⟩ := Res.bind_ok h
  obtain ⟨dust, _, h⟩ := Res.bind_ok h
  obtain ⟨f, _, h⟩ := Res.bind_ok h
  obtain ⟨amt', hamt, h⟩ := Res.bind_ok h
  injection h with h
  injection h with h1 h2
  injection h2 with h2 h3
  subst h3
  obtain ⟨⟨r, hb1⟩, ⟨e, hx1⟩⟩ := claim_frame hc
  have ecur := (mul?_some (math_ok hcurA)).1
  have hx1a : x1.a = x0.a := by rw [hx1]
  have hx1l : x1.l = x0.l := by rw [hx1]
  have hb1asv : b1.asv = b0.asv := by rw [hb1]
  have hb1lsv : b1.lsv = b0.lsv := by rw [hb1]
  have hclosed : bal' = emptyDeactivated := by
    unfold closeBalance at hclose
    split at hclose
    · cases hclose
    · injection hclose with hclose; exact hclose.symm
  -- amt = floor(curA)/ONE
  have hfl : amt' = curA / ONE := by
    have := math_ok hamt
    unfold toU64? at this
    simp only at this
    split at this
    · injection this with this
      rw [← this]; unfold floor; exact Int.mul_ediv_cancel _ (by decide)
    · cases this
  refine ⟨?_, by rw [← h2, hclosed]; rfl, by rw [← h2, hclosed]; rfl, by rw [← h2, hclosed]; rfl, ?_⟩
  · rw [hfl, ecur, hx1a, hb1asv]
    have h1' : x0.a * b0.asv / ONE / ONE * ONE ≤ x0.a * b0.asv / ONE := mulfloor_le _
    have h2' : x0.a * b0.asv / ONE * ONE ≤ x0.a * b0.asv := mulfloor_le _
    have := ONE_pos
    nlinarith
  · refine ⟨curL, ?_, chk_ok hz⟩
    unfold liabAmount at hcurL ⊢
    rw [hx1l, hb1lsv] at hcurL
    exact hcurL

/-- **repay_all rounds up**: the tokens charged by a full repayment are at least the exact value
    of the closed debt minus one 2^-48 ulp (`charge·2^96 > shares·lsv − 2^48`). -/
theorem repay_all_rounds_up {b0 b' : Bank} {x0 x' : Balance} {now amt : Int}
    (h : repayAll b0 x0 now = .ok (b', x', amt)) :
    x0.l * b0.lsv - ONE < amt * ONE * ONE ∧ x'.a = 0 ∧ x'.l = 0 ∧ x'.active = false := by
  unfold repayAll at h
  obtain ⟨⟨b1, x1⟩, hc, h⟩ := Res.bind_ok h
  dsimp only at h
  obtain ⟨curL, hcurL, h⟩ := Res.bind_ok h
  obtain ⟨curA, hcurA, h⟩ := Res.bind_ok h
  obtain ⟨_, _, h⟩ := Res.bind_ok h
  obtain ⟨_, hz, h⟩ := Res.bind_ok h
  obtain ⟨bal', hclose, h⟩ := Res.bind_ok h
  obtain ⟨b2, _, h⟩ := Res.bind_ok h
  obtain ⟨spl, hspl, h⟩ := Res.bind_ok h
  obtain ⟨dust, _, h⟩ := Res.bind_ok h
  obtain ⟨f, _, h⟩ := Res.bind_ok h
  obtain ⟨amt', hamt, h⟩ := Res.bind_ok h
  injection h with h
  injection h with h1 h2
  injection h2 with h2 h3
  subst h3
  obtain ⟨⟨r, hb1⟩, ⟨e, hx1⟩⟩ := claim_frame hc
  have ecur := (mul?_some (math_ok hcurL)).1
  have hx1l : x1.l = x0.l := by rw [hx1]
  have hb1lsv : b1.lsv = b0.lsv := by rw [hb1]
  have hclosed : bal' = emptyDeactivated := by
    unfold closeBalance at hclose
    split at hclose
    · cases hclose
    · injection hclose with hclose; exact hclose.symm
  -- spl = ceil(curL) = -((-curL)/ONE)·ONE ≥ curL ; amt = spl / ONE
  have hceil := (chk_eq_some (math_ok hspl)).1
  have hamt' : amt' = spl / ONE := by
    have := math_ok hamt
    unfold toU64? at this
    simp only at this
    split at this
    · injection this with this; exact this.symm
    · cases this
  refine ⟨?_, by rw [← h2, hclosed]; rfl, by rw [← h2, hclosed]; rfl, by rw [← h2, hclosed]; rfl⟩
  have hge : curL ≤ spl := by
    rw [hceil]
    have := mulfloor_le (-curL)
    linarith
  have hdiv : spl / ONE * ONE = spl := by
    rw [hceil]
    rw [Int.mul_ediv_cancel _ (by decide)]
  have hlt : x0.l * b0.lsv < (curL + 1) * ONE := by
    rw [ecur, hx1l, hb1lsv]; exact mulfloor_gt _
  rw [hamt']
  have := ONE_pos
  nlinarith

/-! ### the potential argument: sequences of operations on one position -/

/-- a user's holdings relevant to one bank: wallet tokens and the position -/
structure Holder where
  wallet : Int
  bal : Balance

inductive UserOp
  | deposit (n : Int)   -- tokens (pre-fee amount leaving the wallet is ≥ n; equality for fee-less mints)
  | withdraw (n : Int)
  | borrow (n : Int)
  | repay (n : Int)
  deriving Repr

/-- potential: wallet tokens + net position value, in 2^-96 token units -/
def phi (b : Bank) (u : Holder) : Int := u.wallet * ONE * ONE + netValue b u.bal

/-- one user operation on the model (token legs: exactly the booked amount; a Token-2022 transfer
    fee only ever takes MORE from the wallet on the way in, see `prefee_covers` in C01) -/
def applyOp (b : Bank) (u : Holder) (now : Int) (op : UserOp) : Res (Bank × Holder) :=
  match op with
  | .deposit n => (increaseBalance b u.bal now (ofInt n) .depositOnly).map fun (b', x') => (b', ⟨u.wallet - n, x'⟩)
  | .repay n => (increaseBalance b u.bal now (ofInt n) .repayOnly).map fun (b', x') => (b', ⟨u.wallet - n, x'⟩)
  | .withdraw n => (decreaseBalance b u.bal now (ofInt n) .withdrawOnly).map fun (b', x') => (b', ⟨u.wallet + n, x'⟩)
  | .borrow n => (decreaseBalance b u.bal now (ofInt n) .borrowOnly).map fun (b', x') => (b', ⟨u.wallet + n, x'⟩)

def opAmount : UserOp → Int
  | .deposit n | .withdraw n | .borrow n | .repay n => n

theorem map_ok {α β : Type} {r : Res α} {f : α → β} {y : β} (h : r.map f = .ok y) : ∃ a, r = .ok a ∧ f a = y := by
  cases r with
  | error e => cases h
  | ok a => exact ⟨a, rfl, by injection h⟩

/-- share values are untouched by user operations -/
theorem inc_sv {b0 b' : Bank} {x0 x' : Balance} {now delta : Int} {t : IncType}
    (h : increaseBalance b0 x0 now delta t = .ok (b', x')) : b'.asv = b0.asv ∧ b'.lsv = b0.lsv := by
  obtain ⟨b1, x1, _, _, _, _, b2, b3, hc, _, _, _, _, _, hb2, _, hb3, _, _, _, _, _, ⟨lc, bc, hb'⟩⟩ := (increase_spec h).ex
  obtain ⟨⟨r, hb1⟩, _⟩ := claim_frame hc
  obtain ⟨e2, _, _⟩ := changeAsset_frame hb2
  obtain ⟨e3, _, _⟩ := changeLiab_frame hb3
  exact ⟨by rw [hb', e3, e2, hb1], by rw [hb', e3, e2, hb1]⟩

theorem dec_sv {b0 b' : Bank} {x0 x' : Balance} {now delta : Int} {t : DecType}
    (h : decreaseBalance b0 x0 now delta t = .ok (b', x')) : b'.asv = b0.asv ∧ b'.lsv = b0.lsv := by
  obtain ⟨b1, x1, _, _, _, _, b2, b3, hc, _, _, _, _, _, hb2, _, hb3, _, _, _, _, _, _, ⟨lc, bc, hb'⟩⟩ := (decrease_spec h).ex
  obtain ⟨⟨r, hb1⟩, _⟩ := claim_frame hc
  obtain ⟨e2, _, _⟩ := changeAsset_frame hb2
  obtain ⟨e3, _, _⟩ := changeLiab_frame hb3
  exact ⟨by rw [hb', e3, e2, hb1], by rw [hb', e3, e2, hb1]⟩

/-- position shares stay non-negative -/
theorem inc_nonneg {b0 b' : Bank} {x0 x' : Balance} {now delta : Int} {t : IncType}
    (h : increaseBalance b0 x0 now delta t = .ok (b', x'))
    (hd : 0 ≤ delta) (hasv : 0 < b0.asv) (hlsv : 0 < b0.lsv) (ha : 0 ≤ x0.a) (hl : 0 ≤ x0.l) :
    0 ≤ x'.a ∧ 0 ≤ x'.l := by
  obtain ⟨b1, x1, curL, d, aInc, lDec, b2, b3, hc, hcur, hsub, _, _, has, hb2, hld, hb3, _, _, _, _, hx', _⟩ :=
    (increase_spec h).ex
  obtain ⟨⟨r, hb1⟩, ⟨e, hx1⟩⟩ := claim_frame hc
  obtain ⟨e2, _, _⟩ := changeAsset_frame hb2
  have ecur := (mul?_some (math_ok hcur)).1
  have hx1l : x1.l = x0.l := by rw [hx1]
  have hx1a : x1.a = x0.a := by rw [hx1]
  have hb1asv : b1.asv = b0.asv := by rw [hb1]
  have hb1lsv : b1.lsv = b0.lsv := by rw [hb1]
  have hb2lsv : b2.lsv = b0.lsv := by rw [e2, hb1]
  have hcur0 : 0 ≤ curL := by
    rw [ecur, hx1l, hb1lsv]; exact Int.ediv_nonneg (mul_nonneg hl (le_of_lt hlsv)) (le_of_lt ONE_pos)
  have sa := assetShares_spec (b := b1) (v := max d 0) (by omega) (by rw [hb1asv]; exact hasv) has
  have sl := liabShares_spec (b := b2) (v := min curL delta) (by omega) (by rw [hb2lsv]; exact hlsv) hld
  rw [hb2lsv] at sl
  rw [hx']
  simp only [hx1a, hx1l]
  refine ⟨by omega, ?_⟩
  -- lDec·lsv ≤ min(curL, delta)·ONE ≤ curL·ONE ≤ l·lsv  ⇒ lDec ≤ l
  have h1 : lDec * b0.lsv ≤ curL * ONE := by
    have : min curL delta * ONE ≤ curL * ONE := mul_le_mul_of_nonneg_right (by omega) (le_of_lt ONE_pos)
    linarith [sl.1]
  have h2 : curL * ONE ≤ x0.l * b0.lsv := by rw [ecur, hx1l, hb1lsv]; exact mulfloor_le _
  have : lDec * b0.lsv ≤ x0.l * b0.lsv := le_trans h1 h2
  have := le_of_mul_le_mul_right this hlsv
  omega

theorem dec_nonneg {b0 b' : Bank} {x0 x' : Balance} {now delta : Int} {t : DecType}
    (h : decreaseBalance b0 x0 now delta t = .ok (b', x'))
    (hd : 0 ≤ delta) (hasv : 0 < b0.asv) (hlsv : 0 < b0.lsv) (ha : 0 ≤ x0.a) (hl : 0 ≤ x0.l) :
    0 ≤ x'.a ∧ 0 ≤ x'.l := by
  obtain ⟨b1, x1, curA, d, aDec, lInc, b2, b3, hc, hcur, hsub, _, _, has, hb2, hld, hb3, _, _, _, _, _, hx', _⟩ :=
    (decrease_spec h).ex
  obtain ⟨⟨r, hb1⟩, ⟨e, hx1⟩⟩ := claim_frame hc
  obtain ⟨e2, _, _⟩ := changeAsset_frame hb2
  have ecur := (mul?_some (math_ok hcur)).1
  have hx1l : x1.l = x0.l := by rw [hx1]
  have hx1a : x1.a = x0.a := by rw [hx1]
  have hb1asv : b1.asv = b0.asv := by rw [hb1]
  have hb2lsv : b2.lsv = b0.lsv := by rw [e2, hb1]
  have hcur0 : 0 ≤ curA := by
    rw [ecur, hx1a, hb1asv]; exact Int.ediv_nonneg (mul_nonneg ha (le_of_lt hasv)) (le_of_lt ONE_pos)
  have sa := assetShares_spec (b := b1) (v := min curA delta) (by omega) (by rw [hb1asv]; exact hasv) has
  have sl := liabShares_spec (b := b2) (v := max d 0) (by omega) (by rw [hb2lsv]; exact hlsv) hld
  rw [hb1asv] at sa
  rw [hx']
  simp only [hx1a, hx1l]
  refine ⟨?_, by omega⟩
  have h1 : aDec * b0.asv ≤ curA * ONE := by
    have : min curA delta * ONE ≤ curA * ONE := mul_le_mul_of_nonneg_right (by omega) (le_of_lt ONE_pos)
    linarith [sa.1]
  have h2 : curA * ONE ≤ x0.a * b0.asv := by rw [ecur, hx1a, hb1asv]; exact mulfloor_le _
  have : aDec * b0.asv ≤ x0.a * b0.asv := le_trans h1 h2
  have := le_of_mul_le_mul_right this hasv
  omega

/-- state carried along a history: positive share values, non-negative shares -/
def Good (b : Bank) (u : Holder) : Prop := 0 < b.asv ∧ 0 < b.lsv ∧ 0 ≤ u.bal.a ∧ 0 ≤ u.bal.l

/-- **op_gain_le**: one successful deposit / withdraw / borrow / repay of a non-negative token amount
    changes `wallet + net position value` by LESS than (asv + lsv)·2^-48 tokens — and not at all
    in the user's favour for deposits and repayments. -/
theorem op_gain_le {b b' : Bank} {u u' : Holder} {now : Int} {op : UserOp}
    (h : applyOp b u now op = .ok (b', u')) (hg : Good b u) (hn : 0 ≤ opAmount op) :
    phi b' u' < phi b u + (b.asv + b.lsv) ∧ Good b' u' ∧ b'.asv = b.asv ∧ b'.lsv = b.lsv := by
  obtain ⟨hasv, hlsv, ha, hl⟩ := hg
  have hO := ONE_pos
  cases op with
  | deposit n =>
    obtain ⟨⟨b1, x1⟩, hop, hr⟩ := map_ok h
    injection hr with hr1 hr2
    subst hr1; subst hr2
    have hn' : 0 ≤ ofInt n := by unfold ofInt; simp only [opAmount] at hn; positivity
    have g := increase_no_gain hop hn' hasv hlsv hl
    have sv := inc_sv hop
    have nn := inc_nonneg hop hn' hasv hlsv ha hl
    refine ⟨?_, ⟨by rw [sv.1]; exact hasv, by rw [sv.2]; exact hlsv, nn.1, nn.2⟩, sv.1, sv.2⟩
    unfold phi ofInt at *
    simp only
    nlinarith
  | repay n =>
    obtain ⟨⟨b1, x1⟩, hop, hr⟩ := map_ok h
    injection hr with hr1 hr2
    subst hr1; subst hr2
    have hn' : 0 ≤ ofInt n := by unfold ofInt; simp only [opAmount] at hn; positivity
    have g := increase_no_gain hop hn' hasv hlsv hl
    have sv := inc_sv hop
    have nn := inc_nonneg hop hn' hasv hlsv ha hl
    refine ⟨?_, ⟨by rw [sv.1]; exact hasv, by rw [sv.2]; exact hlsv, nn.1, nn.2⟩, sv.1, sv.2⟩
    unfold phi ofInt at *
    simp only
    nlinarith
  | withdraw n =>
    obtain ⟨⟨b1, x1⟩, hop, hr⟩ := map_ok h
    injection hr with hr1 hr2
    subst hr1; subst hr2
    have hn' : 0 ≤ ofInt n := by unfold ofInt; simp only [opAmount] at hn; positivity
    have g := decrease_bounded_gain hop hn' hasv hlsv ha
    have sv := dec_sv hop
    have nn := dec_nonneg hop hn' hasv hlsv ha hl
    refine ⟨?_, ⟨by rw [sv.1]; exact hasv, by rw [sv.2]; exact hlsv, nn.1, nn.2⟩, sv.1, sv.2⟩
    unfold phi ofInt at *
    simp only
    nlinarith
  | borrow n =>
    obtain ⟨⟨b1, x1⟩, hop, hr⟩ := map_ok h
    injection hr with hr1 hr2
    subst hr1; subst hr2
    have hn' : 0 ≤ ofInt n := by unfold ofInt; simp only [opAmount] at hn; positivity
    have g := decrease_bounded_gain hop hn' hasv hlsv ha
    have sv := dec_sv hop
    have nn := dec_nonneg hop hn' hasv hlsv ha hl
    refine ⟨?_, ⟨by rw [sv.1]; exact hasv, by rw [sv.2]; exact hlsv, nn.1, nn.2⟩, sv.1, sv.2⟩
    unfold phi ofInt at *
    simp only
    nlinarith

/-- run a sequence of operations; a failing operation aborts its transaction and is skipped -/
def runOps (b : Bank) (u : Holder) : List (Int × UserOp) → Bank × Holder
  | [] => (b, u)
  | (now, op) :: rest =>
    match applyOp b u now op with
    | .ok (b', u') => runOps b' u' rest
    | .error _ => runOps b u rest

/-- **round_trip**: for EVERY sequence (any length, any order, any amounts, any timestamps) of
    deposits, withdrawals, borrows and repayments on a position at unchanged share values, the
    user's wallet plus net position value grows by less than n·(asv+lsv)·2^-48 tokens in total —
    i.e. no sequence extracts value; each operation can at most recover rounding dust below one
    ulp of each share value. -/
theorem round_trip (ops : List (Int × UserOp)) :
    ∀ (b : Bank) (u : Holder), Good b u → (∀ p ∈ ops, 0 ≤ opAmount p.2) →
      phi (runOps b u ops).1 (runOps b u ops).2 ≤ phi b u + ops.length * (b.asv + b.lsv) ∧
      (runOps b u ops).1.asv = b.asv ∧ (runOps b u ops).1.lsv = b.lsv := by
  induction ops with
  | nil => intro b u _ _; simp [runOps]
  | cons p rest ih =>
    intro b u hg hn
    obtain ⟨now, op⟩ := p
    simp only [runOps]
    have hn' : ∀ q ∈ rest, 0 ≤ opAmount q.2 := fun q hq => hn q (List.mem_cons_of_mem _ hq)
    have hop0 : 0 ≤ opAmount op := hn (now, op) (List.mem_cons_self ..)
    cases hres : applyOp b u now op with
    | error e =>
      simp only
      have := ih b u hg hn'
      refine ⟨?_, this.2.1, this.2.2⟩
      have hpos : 0 ≤ b.asv + b.lsv := by have := hg.1; have := hg.2.1; omega
      simp only [List.length_cons]
      push_cast
      nlinarith [this.1]
    | ok r =>
      obtain ⟨b', u'⟩ := r
      simp only
      obtain ⟨g1, g2, g3, g4⟩ := op_gain_le hres hg hop0
      have := ih b' u' g2 hn'
      rw [g3, g4] at this
      refine ⟨?_, this.2.1, this.2.2⟩
      simp only [List.length_cons]
      push_cast
      nlinarith [this.1]

/-! ### Token-2022 transfer fee -/

theorem chkU64_some {x y : Int} (h : chkU64 x = some y) : y = x ∧ 0 ≤ x ∧ x ≤ U64MAX := by
  unfold chkU64 at h
  split at h
  · rename_i hr; injection h with h; exact ⟨h.symm, hr.1, hr.2⟩
  · cases h

/-- **prefee_covers**: for every Token-2022 transfer-fee configuration (0 ≤ bps ≤ 10000, any cap)
    and every amount, the pre-fee amount marginfi pulls from the depositor, minus the fee the token
    program then withholds, is at least the amount booked: the vault never receives less than the
    bank credits. -/
theorem prefee_covers {bps maxFee post pre f : Int} (hb0 : 0 ≤ bps) (hb1 : bps ≤ 10000) (hm : 0 ≤ maxFee)
    (hp : 0 ≤ post) (h : preFee bps maxFee post = some pre) (hf : fee bps maxFee pre = some f) :
    post ≤ pre - f := by
  unfold preFee at h
  by_cases h0 : bps = 0
  · simp only [h0, ↓reduceIte] at h
    injection h with h
    subst h
    simp [fee, h0] at hf
    omega
  · simp only [h0, ↓reduceIte] at h
    by_cases hz : post = 0
    · simp only [hz, ↓reduceIte] at h
      injection h with h
      subst h
      simp [fee] at hf
      omega
    · simp only [hz, ↓reduceIte] at h
      by_cases hfull : bps = 10000
      · simp only [hfull, ↓reduceIte] at h
        obtain ⟨e, _, _⟩ := chkU64_some h
        subst e
        subst hfull
        unfold fee at hf
        have : ¬ ((10000 : Int) = 0 ∨ maxFee + post = 0) := by omega
        simp only [this, ↓reduceIte] at hf
        cases hc : chkU64 (((maxFee + post) * 10000 + 10000 - 1) / 10000) with
        | none => simp [hc] at hf
        | some raw =>
          simp only [hc, Option.map_some] at hf
          injection hf with hf
          obtain ⟨er, _, _⟩ := chkU64_some hc
          omega
      · simp only [hfull, ↓reduceIte] at h
        have hD : ¬ (10000 - bps < 0) := by omega
        simp only [hD, ↓reduceIte] at h
        have hDpos : 0 < 10000 - bps := by omega
        -- raw = ceil(post·10000 / D)
        generalize hraw : (post * 10000 + (10000 - bps) - 1) / (10000 - bps) = raw at h
        have hraw_ge : post * 10000 ≤ raw * (10000 - bps) := by
          have := Int.lt_ediv_add_one_mul_self (post * 10000 + (10000 - bps) - 1) hDpos
          rw [hraw] at this
          nlinarith
        unfold fee at hf
        by_cases hcap : raw - post ≥ maxFee
        · simp only [hcap, ↓reduceIte] at h
          obtain ⟨e, _, _⟩ := chkU64_some h
          subst e
          have : ¬ (bps = 0 ∨ post + maxFee = 0) := by omega
          simp only [this, ↓reduceIte] at hf
          cases hc : chkU64 (((post + maxFee) * bps + 10000 - 1) / 10000) with
          | none => simp [hc] at hf
          | some r =>
            simp only [hc, Option.map_some] at hf
            injection hf with hf
            omega
        · simp only [hcap, ↓reduceIte] at h
          obtain ⟨e, _, _⟩ := chkU64_some h
          rw [e] at hf ⊢
          have hrawpos : raw ≠ 0 := by
            intro hr0; rw [hr0] at hraw_ge; omega
          have : ¬ (bps = 0 ∨ raw = 0) := by omega
          simp only [this, ↓reduceIte] at hf
          cases hc : chkU64 ((raw * bps + 10000 - 1) / 10000) with
          | none => simp [hc] at hf
          | some r =>
            simp only [hc, Option.map_some] at hf
            injection hf with hf
            obtain ⟨er, _, _⟩ := chkU64_some hc
            -- f ≤ ceil(raw·bps/10000); raw − ceil(raw·bps/10000) ≥ post since raw·D ≥ post·10000
            have hceil : (raw * bps + 10000 - 1) / 10000 * 10000 ≤ raw * bps + 10000 - 1 :=
              Int.ediv_mul_le _ (by decide)
            have hfle : f ≤ (raw * bps + 10000 - 1) / 10000 := by rw [← hf, er]; exact min_le_left _ _
            nlinarith

/-- well-formed transfer-fee configuration: what the token program itself accepts (bps ≤ 10000) -/
def FeeCfgOk (c : FeeCfg) : Prop :=
  0 ≤ c.olderBps ∧ c.olderBps ≤ 10000 ∧ 0 ≤ c.olderMax ∧ 0 ≤ c.newerBps ∧ c.newerBps ≤ 10000 ∧ 0 ≤ c.newerMax

/-- **mint_prefee_covers**: the same at the level of the MINT, in every epoch — before, exactly at and after the activation
    of a scheduled fee change: the pre-fee amount marginfi computes for the mint (`calculate_pre_fee_spl_deposit_amount`), minus
    what the token program withholds from that transfer in that epoch (`calculate_epoch_fee`: the newer fee FROM its activation
    epoch on), is at least the amount booked. Both sides are tied to the code by the `tf.mint` lines of the tokenfee family: the
    real helpers and the real token program's arithmetic on really laid-out mint accounts. -/
theorem mint_prefee_covers {m : Mint} {epoch post pre f : Int} (hp : 0 ≤ post)
    (hm : ∀ c, m = .t22fee c → FeeCfgOk c)
    (h : mintPre m epoch post = some pre) (hf : mintFee m epoch pre = some f) : post ≤ pre - f := by
  cases m with
  | spl => simp [mintPre] at h; simp [mintFee] at hf; omega
  | t22 => simp [mintPre] at h; simp [mintFee] at hf; omega
  | t22fee c =>
    obtain ⟨a1, a2, a3, a4, a5, a6⟩ := hm c rfl
    simp only [mintPre] at h
    simp only [mintFee] at hf
    unfold epochFee at h hf
    by_cases he : epoch ≥ c.newerEpoch
    · simp only [he, ↓reduceIte] at h hf
      exact prefee_covers a4 a5 a6 hp h hf
    · simp only [he, ↓reduceIte] at h hf
      exact prefee_covers a1 a2 a3 hp h hf

/-- the epoch rule is inclusive: in the activation epoch itself the NEWER fee is the one in force -/
theorem epoch_fee_inclusive (c : FeeCfg) : epochFee c c.newerEpoch = (c.newerBps, c.newerMax) := by
  simp [epochFee]

example : mintPre (.t22fee { olderBps := 100, olderMax := 1000000, newerEpoch := 500, newerBps := 500, newerMax := 1000000 }) 500 1000 = some 1053 := by decide
example : mintPre (.t22fee { olderBps := 100, olderMax := 1000000, newerEpoch := 500, newerBps := 500, newerMax := 1000000 }) 499 1000 = some 1011 := by decide

/-! ### non-vacuity -/
def demoBank : Bank :=
  { asv := ONE + 12345, lsv := ONE + 999, sa := 1000 * ONE, sl := 10 * ONE, feeI := 0, feeG := 0, feeP := 0,
    depositLimit := 18446744073709551615, borrowLimit := 18446744073709551615, flags := 0, assetTag := 0,
    mintDecimals := 6, emissionsRate := 0, emissionsRemaining := 0, lendCnt := 1, borrowCnt := 1, lastUpdate := 0,
    cacheAccum := 0, cacheFor := 0 }
def demoUser : Holder := ⟨1000, { active := true, tag := 0, a := 0, l := 0, emis := 0, lastUpdate := 0 }⟩
example : Good demoBank demoUser := by unfold Good; decide
example : (applyOp demoBank demoUser 0 (.deposit 7)).isOk = true := by decide
example : (runOps demoBank demoUser [(0, .deposit 7), (0, .withdraw 3), (0, .withdraw 3)]).2.wallet = 999 := by decide

/-- the token-denominated accounting this file is about is the only accounting the standard instructions can reach:
    they are constrained to the program's own banks (constraint table regenerated from the source; Mfi.TagL) -/
theorem standard_instructions_only_on_own_banks : Mfi.TagL.OwnBanks :=
  Mfi.TagL.standard_instructions_only_on_own_banks

end Mfi.FreeL
