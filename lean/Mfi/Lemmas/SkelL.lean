/- Small decidable queries over the generated handler skeletons (Mfi/Gen/Skeletons.lean). -/
import Mfi.Gen.Skeletons
namespace Mfi.Gen.Skel

def firstIdx (l : List Ev) (p : Ev → Bool) : Option Nat := l.findIdx? p

/-- some event satisfying `p` occurs, and it occurs before every event satisfying `q` -/
def occursBefore (l : List Ev) (p q : Ev → Bool) : Bool :=
  match firstIdx l p, firstIdx l q with
  | some i, some j => decide (i < j)
  | some _, none => true
  | none, _ => false

def isOp : Ev → Bool | .op _ => true | _ => false
/-- calls that read or move share-denominated state, or stamp `last_update` (`update_bank_cache` writes
    `last_update = now`, so running it before the accrual would turn the accrual into a no-op) -/
def isShareMove : Ev → Bool | .op _ => true | .socializeLoss => true | .capacity => true | .updateBankCache => true | _ => false
def isAccrue (r : Recv) : Ev → Bool | .accrue r' => r == r' | _ => false
def isSigner (v : Vault) : Ev → Bool | .signer v' => v == v' | _ => false
def isBankState : Ev → Bool | .bankState _ _ => true | _ => false

/-- last index of an event satisfying p -/
def lastIdx (l : List Ev) (p : Ev → Bool) : Option Nat :=
  (l.zipIdx.filter (fun x => p x.1)).getLast?.map (·.2)

end Mfi.Gen.Skel

namespace Mfi.Gen.Skel

/-- number of conditional blocks enclosing the LAST call satisfying `p` (tables `<handler>_cond`) -/
def condAt (l : List Ev) (c : List Nat) (p : Ev → Bool) : Option Nat :=
  match lastIdx l p with
  | some i => c[i]?
  | none => none

/-- every listed call of the handler is unconditional (not inside any if / match arm / loop / closure) -/
def allUnconditional (c : List Nat) : Bool := c.all (· == 0)

/-- every event satisfying `p` exists and sits at conditional depth 0 of the handler body (`c` = the parallel list of
    enclosing-conditional counts): it runs on every path, whatever flags, kinds of bank or arguments are involved -/
def unconditionally (l : List Ev) (c : List Nat) (p : Ev → Bool) : Bool :=
  l.length == c.length && l.any p && (l.zip c).all (fun q => !p q.1 || q.2 == 0)

end Mfi.Gen.Skel
