/- Specification-extraction lemmas for the wrapper operations of Mfi/Model/Bank.lean:
   from `op … = .ok result` to the chain of intermediate facts. -/
import Mfi.Model.Bank
import Mfi.Lemmas.FxL
import Mfi.Lemmas.ResL

namespace Mfi.Bank
open Mfi Mfi.Fx Mfi.Gen

theorem changeAsset_frame {b b' : Bank} {s : Int} {bp : Bool} (h : changeAssetShares b s bp = .ok b') :
    b' = { b with sa := b.sa + s } ∧ MIN ≤ b.sa + s ∧ b.sa + s ≤ MAX := by
  unfold changeAssetShares at h
  obtain ⟨sa', h1, h⟩ := Res.bind_ok h
  obtain ⟨e, r0, r1⟩ := add?_some (math_ok h1)
  subst e
  dsimp only at h
  split at h
  · obtain ⟨t, _, h⟩ := Res.bind_ok h
    obtain ⟨lim, _, h⟩ := Res.bind_ok h
    split at h
    · cases h
    · injection h with h; exact ⟨h.symm, r0, r1⟩
  · injection h with h; exact ⟨h.symm, r0, r1⟩

theorem changeLiab_frame {b b' : Bank} {s : Int} {bp : Bool} (h : changeLiabShares b s bp = .ok b') :
    b' = { b with sl := b.sl + s } ∧ MIN ≤ b.sl + s ∧ b.sl + s ≤ MAX := by
  unfold changeLiabShares at h
  obtain ⟨sl', h1, h⟩ := Res.bind_ok h
  obtain ⟨e, r0, r1⟩ := add?_some (math_ok h1)
  subst e
  dsimp only at h
  split at h
  · obtain ⟨t, _, h⟩ := Res.bind_ok h
    split at h
    · cases h
    · injection h with h; exact ⟨h.symm, r0, r1⟩
  · injection h with h; exact ⟨h.symm, r0, r1⟩

/-- `claim_emissions` touches only emissions bookkeeping -/
theorem claim_frame {b b' : Bank} {x x' : Balance} {now : Int} (h : claimEmissions b x now = .ok (b', x')) :
    (∃ r, b' = { b with emissionsRemaining := r }) ∧
    (∃ e, x' = { x with emis := e, lastUpdate := now }) := by
  unfold claimEmissions at h
  obtain ⟨amt, _, h⟩ := Res.bind_ok h
  cases amt with
  | none =>
    injection h with h
    injection h with h1 h2
    exact ⟨⟨b.emissionsRemaining, by rw [← h1]⟩, ⟨x.emis, by rw [← h2]⟩⟩
  | some amount =>
    unfold creditEmissions at h
    dsimp only at h
    generalize (if x.lastUpdate < MIN_EMISSIONS_START_TIME then now else x.lastUpdate) = lu at h
    by_cases hneg : now - lu < 0
    · simp only [hneg, ↓reduceIte, merr] at h
      cases h
    · simp only [hneg, ↓reduceIte] at h
      obtain ⟨em, _, h⟩ := Res.bind_ok h
      obtain ⟨e', _, h⟩ := Res.bind_ok h
      obtain ⟨r', _, h⟩ := Res.bind_ok h
      injection h with h
      injection h with h1 h2
      exact ⟨⟨r', h1.symm⟩, ⟨e', h2.symm⟩⟩

theorem updateCounts_frame (b : Bank) (p q r s : Bool) :
    ∃ lc bc, updateCounts b p q r s = { b with lendCnt := lc, borrowCnt := bc } := by
  unfold updateCounts
  cases p <;> cases q <;> cases r <;> cases s <;> simp <;> exact ⟨_, _, rfl⟩

/-- Everything a successful `increase_balance_internal` did, step by step. -/
structure IncSpec (b0 : Bank) (x0 : Balance) (now delta : Int) (t : IncType) (b' : Bank) (x' : Balance) : Prop where
  ex : ∃ (b1 : Bank) (x1 : Balance) (curL d aInc lDec : Int) (b2 b3 : Bank),
    claimEmissions b0 x0 now = .ok (b1, x1) ∧
    liabAmount b1 x1.l = .ok curL ∧
    sub? delta curL = some d ∧
    (t = .repayOnly → isZeroTol (max d 0) ZERO_AMOUNT_THRESHOLD = true) ∧
    (t = .depositOnly → isZeroTol (min curL delta) ZERO_AMOUNT_THRESHOLD = true) ∧
    assetShares b1 (max d 0) = .ok aInc ∧
    changeAssetShares b1 aInc (t == .bypassDepositLimit) = .ok b2 ∧
    liabShares b2 (min curL delta) = .ok lDec ∧
    changeLiabShares b2 (-lDec) true = .ok b3 ∧
    MIN ≤ x1.a + aInc ∧ x1.a + aInc ≤ MAX ∧ MIN ≤ x1.l - lDec ∧ x1.l - lDec ≤ MAX ∧
    x' = { x1 with a := x1.a + aInc, l := x1.l - lDec } ∧
    (∃ lc bc, b' = { b3 with lendCnt := lc, borrowCnt := bc })

theorem increase_spec {b0 : Bank} {x0 : Balance} {now delta : Int} {t : IncType} {b' : Bank} {x' : Balance}
    (h : increaseBalance b0 x0 now delta t = .ok (b', x')) : IncSpec b0 x0 now delta t b' x' := by
  unfold increaseBalance at h
  obtain ⟨⟨b1, x1⟩, hc, h⟩ := Res.bind_ok h
  dsimp only at h
  obtain ⟨curL, hl, h⟩ := Res.bind_ok h
  obtain ⟨d, hd, h⟩ := Res.bind_ok h
  obtain ⟨_, hchk, h⟩ := Res.bind_ok h
  obtain ⟨aInc, ha, h⟩ := Res.bind_ok h
  obtain ⟨a', ha', h⟩ := Res.bind_ok h
  obtain ⟨b2, hb2, h⟩ := Res.bind_ok h
  obtain ⟨lDec, hld, h⟩ := Res.bind_ok h
  obtain ⟨l', hl', h⟩ := Res.bind_ok h
  obtain ⟨b3, hb3, h⟩ := Res.bind_ok h
  injection h with h
  injection h with h1 h2
  obtain ⟨ea, ra0, ra1⟩ := add?_some (math_ok ha')
  obtain ⟨el, rl0, rl1⟩ := add?_some (math_ok hl')
  obtain ⟨lc, bc, hu⟩ := updateCounts_frame b3 (isPosTol x1.a ZERO_AMOUNT_THRESHOLD) (isPosTol x1.l ZERO_AMOUNT_THRESHOLD)
    (isPosTol a' ZERO_AMOUNT_THRESHOLD) (isPosTol l' ZERO_AMOUNT_THRESHOLD)
  refine ⟨⟨b1, x1, curL, d, aInc, lDec, b2, b3, hc, hl, math_ok hd, ?_, ?_, ha, hb2, hld, hb3,
    by omega, by omega, by omega, by omega, ?_, ⟨lc, bc, by rw [← h1]; exact hu⟩⟩⟩
  · intro ht; subst ht; exact chk_ok (by simpa [incGuard] using hchk)
  · intro ht; subst ht; exact chk_ok (by simpa [incGuard] using hchk)
  · rw [← h2, ea, el]; rfl

/-- Everything a successful `decrease_balance_internal` did. -/
structure DecSpec (b0 : Bank) (x0 : Balance) (now delta : Int) (t : DecType) (b' : Bank) (x' : Balance) : Prop where
  ex : ∃ (b1 : Bank) (x1 : Balance) (curA d aDec lInc : Int) (b2 b3 : Bank),
    claimEmissions b0 x0 now = .ok (b1, x1) ∧
    assetAmount b1 x1.a = .ok curA ∧
    sub? delta curA = some d ∧
    (t = .withdrawOnly → isZeroTol (max d 0) ZERO_AMOUNT_THRESHOLD = true) ∧
    (t = .borrowOnly → isZeroTol (min curA delta) ZERO_AMOUNT_THRESHOLD = true) ∧
    assetShares b1 (min curA delta) = .ok aDec ∧
    changeAssetShares b1 (-aDec) false = .ok b2 ∧
    liabShares b2 (max d 0) = .ok lInc ∧
    changeLiabShares b2 lInc (t == .bypassBorrowLimit) = .ok b3 ∧
    (t ≠ .bypassBorrowLimit → checkUtilization b3 = .ok ()) ∧
    MIN ≤ x1.a - aDec ∧ x1.a - aDec ≤ MAX ∧ MIN ≤ x1.l + lInc ∧ x1.l + lInc ≤ MAX ∧
    x' = { x1 with a := x1.a - aDec, l := x1.l + lInc } ∧
    (∃ lc bc, b' = { b3 with lendCnt := lc, borrowCnt := bc })

theorem decrease_spec {b0 : Bank} {x0 : Balance} {now delta : Int} {t : DecType} {b' : Bank} {x' : Balance}
    (h : decreaseBalance b0 x0 now delta t = .ok (b', x')) : DecSpec b0 x0 now delta t b' x' := by
  unfold decreaseBalance at h
  obtain ⟨⟨b1, x1⟩, hc, h⟩ := Res.bind_ok h
  dsimp only at h
  obtain ⟨curA, hl, h⟩ := Res.bind_ok h
  obtain ⟨d, hd, h⟩ := Res.bind_ok h
  obtain ⟨_, hchk, h⟩ := Res.bind_ok h
  obtain ⟨aDec, ha, h⟩ := Res.bind_ok h
  obtain ⟨a', ha', h⟩ := Res.bind_ok h
  obtain ⟨b2, hb2, h⟩ := Res.bind_ok h
  obtain ⟨lInc, hld, h⟩ := Res.bind_ok h
  obtain ⟨l', hl', h⟩ := Res.bind_ok h
  obtain ⟨b3, hb3, h⟩ := Res.bind_ok h
  obtain ⟨_, hut, h⟩ := Res.bind_ok h
  injection h with h
  injection h with h1 h2
  obtain ⟨ea, ra0, ra1⟩ := add?_some (math_ok ha')
  obtain ⟨el, rl0, rl1⟩ := add?_some (math_ok hl')
  obtain ⟨lc, bc, hu⟩ := updateCounts_frame b3 (isPosTol x1.a ZERO_AMOUNT_THRESHOLD) (isPosTol x1.l ZERO_AMOUNT_THRESHOLD)
    (isPosTol a' ZERO_AMOUNT_THRESHOLD) (isPosTol l' ZERO_AMOUNT_THRESHOLD)
  refine ⟨⟨b1, x1, curA, d, aDec, lInc, b2, b3, hc, hl, math_ok hd, ?_, ?_, ha, hb2, hld, hb3, ?_,
    by omega, by omega, by omega, by omega, ?_, ⟨lc, bc, by rw [← h1]; exact hu⟩⟩⟩
  · intro ht; subst ht; exact chk_ok (by simpa [decGuard] using hchk)
  · intro ht; subst ht; exact chk_ok (by simpa [decGuard] using hchk)
  · intro ht
    simpa [utilGuard, ht] using hut
  · rw [← h2, ea, el]; rfl

end Mfi.Bank
