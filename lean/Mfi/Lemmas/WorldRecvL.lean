/-
  The receivership bracket inside transactions of the world state machine (Mfi/Model/WorldTx.lean): no whole instruction and no
  flash-loan instruction puts an account into receivership; only the single, first start of a transaction does, and only when
  the transaction ends with an end_liquidation and holds nothing but start, end, withdraw and repay; a committed transaction
  leaves nobody in receivership; the end that closes a committed bracket ran on the snapshot its own start took.
-/
import Mfi.Lemmas.WorldTxL

namespace Mfi.World
open Mfi Mfi.Fx Mfi.Bank Mfi.Account Mfi.Gen

/-- is the account flagged ACCOUNT_IN_RECEIVERSHIP? -/
def inRecv (a : AcctV) : Bool := hasFlag a.flags ACCOUNT_IN_RECEIVERSHIP

theorem and_pow_eq (f b : Nat) : f &&& 2 ^ b = if f.testBit b then 2 ^ b else 0 := by
  apply Nat.eq_of_testBit_eq
  intro i
  rw [Nat.testBit_and, Nat.testBit_two_pow]
  by_cases hi : b = i
  · subst hi
    cases h : f.testBit b <;> simp
  · cases h : f.testBit b <;> simp [hi]

theorem hasFlag_pow (f b : Nat) : ((f &&& 2 ^ b) == 2 ^ b) = f.testBit b := by
  rw [and_pow_eq]
  cases h : f.testBit b
  · simp
    exact Nat.ne_of_lt (Nat.two_pow_pos b)
  · simp

theorem inRecv_iff (a : AcctV) : inRecv a = a.flags.testBit 4 := by
  unfold inRecv hasFlag
  have : ACCOUNT_IN_RECEIVERSHIP.toNat = 2 ^ 4 := by decide
  rw [this, hasFlag_pow]

theorem inFlash_bit (a : AcctV) : inFlash a = a.flags.testBit 1 := by
  unfold inFlash hasFlag
  have : ACCOUNT_IN_FLASHLOAN.toNat = 2 ^ 1 := by decide
  rw [this, hasFlag_pow]

theorem ofMAcct_noRecv (k : Nat) (m : Transfer.MAcct) (x : Nat) (hr : m.recv = false) (ho : m.otherFlags = x &&& OTHER_FLAGS_MASK) :
    inRecv (ofMAcct k m) = false := by
  rw [inRecv_iff]
  unfold ofMAcct
  simp only [hr, Bool.false_eq_true, if_false, Nat.testBit_or, ho, Nat.testBit_and]
  have hm : OTHER_FLAGS_MASK.testBit 4 = false := by decide
  have b1 : Nat.testBit 1 4 = false := by decide
  have b2 : Nat.testBit 2 4 = false := by decide
  have b64 : Nat.testBit 64 4 = false := by decide
  cases m.disabled <;> cases m.flash <;> cases m.frozen <;> simp [hm, b1, b2, b64]

theorem transferIx_noRecv {g : GroupV} {a o n : AcctV} {signer newKey newAuth : Nat} {ok : Bool}
    (h : transferIx g a signer newKey newAuth ok = .ok (o, n)) : inRecv o = false ∧ inRecv n = false := by
  unfold transferIx at h
  cases ht : Transfer.transfer (toMAcct a) a.key g.key g.admin 1 g.paused signer newKey newAuth (if ok = true then 1 else 2) 0 with
  | error e => rw [ht] at h; cases h
  | ok r =>
    rw [ht] at h
    obtain ⟨ro, rn⟩ := r
    have h' : (ofMAcct a.key ro, ofMAcct newKey rn) = (o, n) := by
      have : (Except.ok (ro, rn) : Res _).map (fun (p : Transfer.MAcct × Transfer.MAcct) => (ofMAcct a.key p.1, ofMAcct newKey p.2)) = .ok (o, n) := h
      injection this
    injection h' with h1 h2
    generalize (if ok = true then 1 else 2) = fw at ht
    unfold Transfer.transfer at ht
    split at ht; · cases ht
    split at ht; · cases ht
    split at ht; · cases ht
    split at ht; · cases ht
    split at ht; · cases ht
    split at ht; · cases ht
    split at ht; · cases ht
    split at ht; · cases ht
    rename_i _ _ _ _ _ _ hrc _
    injection ht with ht
    injection ht with e1 e2
    have hrc' : (toMAcct a).recv = false := by simpa using hrc
    subst e1; subst e2; subst h1; subst h2
    exact ⟨ofMAcct_noRecv _ _ a.flags hrc' rfl, ofMAcct_noRecv _ _ a.flags hrc' rfl⟩

/-- no whole instruction puts an account into receivership -/
theorem step_noNewRecv (w : WState) (op : WOp) : NoNewP inRecv w (w.step op) :=
  step_noNewP inRecv (fun a slots => rfl)
    (fun a slots hx => by
      rw [inRecv_iff] at hx ⊢
      have : ACCOUNT_DISABLED.toNat = 1 := by decide
      simp only [this, Nat.testBit_or] at hx
      have b : Nat.testBit 1 4 = false := by decide
      simpa [b] using hx)
    (fun _ _ _ _ _ _ _ _ h => transferIx_noRecv h) w op

/-! ### the two bracket instructions -/

theorem liqShape_ok {tx : List TOp} {cur : Nat} (h : liqShape tx cur = .ok ()) :
    ∃ t0 rest, tx = t0 :: rest ∧ isStartLiq t0 = true ∧ rest.any isStartLiq = false ∧
      ((tx.getLast?).map isEndLiq).getD false = true ∧ tx.all liqAllowed = true ∧ cur < tx.length - 1 := by
  unfold liqShape at h
  cases tx with
  | nil => cases h
  | cons t0 rest =>
    simp only at h
    split at h; · cases h
    rename_i h1
    split at h; · cases h
    rename_i h2
    split at h; · cases h
    rename_i h3
    split at h; · cases h
    rename_i h4
    split at h
    · rename_i h5
      refine ⟨t0, rest, rfl, by simpa using h1, by simpa using h2, by simpa using h3, by simpa using h4, h5⟩
    · cases h

/-- a successful start: the facts the transaction argument uses -/
theorem startLiquidation_ok {c : RCtx} {shape : Res Unit} {o : StartLiqOut} (h : startLiquidation c shape = .ok o) :
    c.recordOk = true ∧ inRecv c.a = false ∧ shape = .ok () ∧
    (∃ ps, c.portfolio = .ok ps ∧ Risk.startReceivership ps false = .ok o.cache) ∧
    o.flags = c.a.flags ||| ACCOUNT_IN_RECEIVERSHIP.toNat ∧ o.receiver = c.receiver := by
  unfold startLiquidation at h
  obtain ⟨_, hc, h⟩ := Res.bind_ok h
  obtain ⟨ps, hps, h⟩ := Res.bind_ok h
  obtain ⟨cache, hcache, h⟩ := Res.bind_ok h
  obtain ⟨u, hsh, h⟩ := Res.bind_ok h
  injection h with h
  subst h
  have hc' := runChecks_ok hc
  simp only [Gen.Acc.checks, List.forall_mem_cons, List.not_mem_nil, false_imp_iff, implies_true, and_true] at hc'
  simp [evalChk, RCtx.env, flBit, flagsOf] at hc'
  obtain ⟨r1, r2, _, _⟩ := hc'
  refine ⟨by cases hro : c.recordOk <;> simp [hro] at r1 ⊢, ?_, ?_, ⟨ps, hps, hcache⟩, rfl, rfl⟩
  · unfold inRecv; exact r2
  · cases shape with
    | ok u' => rfl
    | error e => cases hsh

/-- a successful end -/
theorem endLiquidation_ok {c : RCtx} {stack : Nat} {o : EndLiqOut} (h : endLiquidation c stack = .ok o) :
    c.recordOk = true ∧ inRecv c.a = true ∧ c.a.recReceiver = c.receiver ∧ c.walletOk = true ∧ stack = 1 ∧
    (∃ ps, c.portfolio = .ok ps ∧ Risk.endLiquidation c.a.recCache ps c.feeMax = .ok (o.seized, o.repaid)) ∧
    o.flags = c.a.flags &&& (Nat.xor ACCOUNT_IN_RECEIVERSHIP.toNat (2 ^ 64 - 1)) := by
  unfold endLiquidation at h
  obtain ⟨_, hc, h⟩ := Res.bind_ok h
  obtain ⟨_, hs, h⟩ := Res.bind_ok h
  obtain ⟨ps, hps, h⟩ := Res.bind_ok h
  obtain ⟨⟨sz, rp⟩, hend, h⟩ := Res.bind_ok h
  injection h with h
  subst h
  have hc' := runChecks_ok hc
  simp only [Gen.Acc.checks, List.forall_mem_cons, List.not_mem_nil, false_imp_iff, implies_true, and_true] at hc'
  simp [evalChk, RCtx.env, flBit, flagsOf] at hc'
  obtain ⟨r1, r2, _, _, r5, r6⟩ := hc'
  refine ⟨by cases hro : c.recordOk <;> simp [hro] at r1 ⊢, ?_, r5, by cases hw : c.walletOk <;> simp [hw] at r6 ⊢,
    by simpa using chk_ok hs, ⟨ps, hps, hend⟩, rfl⟩
  unfold inRecv; exact r2

theorem delevShape_ok {tx : List TOp} {cur : Nat} (h : delevShape tx cur = .ok ()) :
    ∃ t0 rest, tx = t0 :: rest ∧ isStartDelev t0 = true ∧ rest.any isStartDelev = false ∧
      ((tx.getLast?).map isEndDelev).getD false = true ∧ tx.all delevAllowed = true ∧ cur < tx.length - 1 := by
  unfold delevShape at h
  cases tx with
  | nil => cases h
  | cons t0 rest =>
    simp only at h
    split at h; · cases h
    rename_i h1
    split at h; · cases h
    rename_i h2
    split at h; · cases h
    rename_i h3
    split at h; · cases h
    rename_i h4
    split at h
    · rename_i h5
      refine ⟨t0, rest, rfl, by simpa using h1, by simpa using h2, by simpa using h3, by simpa using h4, h5⟩
    · cases h

/-- a successful forced-deleverage start: signed by the group's risk admin, on the account's own record and group -/
theorem startDeleverage_ok {c : RCtx} {shape : Res Unit} {o : StartLiqOut} (h : startDeleverage c shape = .ok o) :
    (c.recordOk = true ∧ c.a.group = c.g.key ∧ c.g.riskAdmin = c.receiver) ∧ inRecv c.a = false ∧ shape = .ok () ∧
    (∃ ps, c.portfolio = .ok ps ∧ Risk.startReceivership ps true = .ok o.cache) ∧
    o.flags = (c.a.flags ||| ACCOUNT_IN_DELEVERAGE.toNat) ||| ACCOUNT_IN_RECEIVERSHIP.toNat ∧ o.receiver = c.receiver := by
  unfold startDeleverage at h
  obtain ⟨_, hc, h⟩ := Res.bind_ok h
  obtain ⟨ps, hps, h⟩ := Res.bind_ok h
  obtain ⟨cache, hcache, h⟩ := Res.bind_ok h
  obtain ⟨u, hsh, h⟩ := Res.bind_ok h
  injection h with h
  subst h
  have hc' := runChecks_ok hc
  simp only [Gen.Acc.checks, List.forall_mem_cons, List.not_mem_nil, false_imp_iff, implies_true, and_true] at hc'
  simp [evalChk, RCtx.envD, flBit, flagsOf] at hc'
  obtain ⟨r1, rg, r2, _, _, ra⟩ := hc'
  refine ⟨⟨by cases hro : c.recordOk <;> simp [hro] at r1 ⊢, rg, ra⟩, ?_, ?_, ⟨ps, hps, hcache⟩, rfl, rfl⟩
  · unfold inRecv; exact r2
  · cases shape with
    | ok u' => rfl
    | error e => cases hsh

/-- a successful forced-deleverage end -/
theorem endDeleverage_ok {c : RCtx} {stack : Nat} {o : EndLiqOut} (h : endDeleverage c stack = .ok o) :
    (c.recordOk = true ∧ c.a.group = c.g.key ∧ c.g.riskAdmin = c.receiver) ∧ inRecv c.a = true ∧ c.a.recReceiver = c.receiver ∧ stack = 1 ∧
    (∃ ps, c.portfolio = .ok ps ∧ Risk.endDeleverage c.a.recCache ps = .ok (o.seized, o.repaid)) ∧
    o.flags = (c.a.flags &&& (Nat.xor ACCOUNT_IN_DELEVERAGE.toNat (2 ^ 64 - 1))) &&& (Nat.xor ACCOUNT_IN_RECEIVERSHIP.toNat (2 ^ 64 - 1)) := by
  unfold endDeleverage at h
  obtain ⟨_, hc, h⟩ := Res.bind_ok h
  obtain ⟨_, hs, h⟩ := Res.bind_ok h
  obtain ⟨ps, hps, h⟩ := Res.bind_ok h
  obtain ⟨⟨sz, rp⟩, hend, h⟩ := Res.bind_ok h
  injection h with h
  subst h
  have hc' := runChecks_ok hc
  simp only [Gen.Acc.checks, List.forall_mem_cons, List.not_mem_nil, false_imp_iff, implies_true, and_true] at hc'
  simp [evalChk, RCtx.envD, flBit, flagsOf] at hc'
  obtain ⟨r1, rg, r2, _, _, rr, ra⟩ := hc'
  refine ⟨⟨by cases hro : c.recordOk <;> simp [hro] at r1 ⊢, rg, ra⟩, ?_, rr, by simpa using chk_ok hs, ⟨ps, hps, hend⟩, rfl⟩
  unfold inRecv; exact r2

theorem recv_clear (flags : Nat) : hasFlag (flags &&& (Nat.xor ACCOUNT_IN_RECEIVERSHIP.toNat (2 ^ 64 - 1))) ACCOUNT_IN_RECEIVERSHIP = false := by
  have e : ACCOUNT_IN_RECEIVERSHIP.toNat = 2 ^ 4 := by decide
  unfold hasFlag
  rw [e, hasFlag_pow, Nat.testBit_and]
  have : Nat.testBit 18446744073709551599 4 = false := by decide
  simp [this]

/-! ### a committed transaction leaves nobody in receivership -/

/-- the transaction is a liquidation bracket opened for account `k` -/
structure Bracket (tx : List TOp) (k : Nat) : Prop where
  first : ∃ r ok, tx[0]? = some (.startLiq k r ok)
  last : ((tx.getLast?).map isEndLiq).getD false = true
  allowed : tx.all liqAllowed = true
  single : (tx.drop 1).any isStartLiq = false

/-- the transaction is a forced-deleverage bracket opened for account `k` -/
structure BracketD (tx : List TOp) (k : Nat) : Prop where
  first : ∃ r ok, tx[0]? = some (.startDelev k r ok)
  last : ((tx.getLast?).map isEndDelev).getD false = true
  allowed : tx.all delevAllowed = true
  single : (tx.drop 1).any isStartDelev = false

/-- a bracket of either kind -/
def AnyBracket (tx : List TOp) (k : Nat) : Prop := Bracket tx k ∨ BracketD tx k

/-- every account in receivership at position `i` is THE account this transaction's bracket was opened for, and the end is still to come -/
def RecvInv (tx : List TOp) (i : Nat) (w : WState) : Prop :=
  ∀ (k : Nat) (a : AcctV), w.accts[k]? = some a → inRecv a = true → i < tx.length ∧ AnyBracket tx k

theorem not_last_of_not_end {tx : List TOp} {i : Nat} {t : TOp} (ht : tx[i]? = some t) (hne : isEndLiq t = false)
    (hl : ((tx.getLast?).map isEndLiq).getD false = true) : i + 1 < tx.length := by
  have hlt : i < tx.length := by
    rcases Nat.lt_or_ge i tx.length with h | h
    · exact h
    · rw [List.getElem?_eq_none h] at ht; cases ht
  rcases Nat.lt_or_ge (i + 1) tx.length with h | h
  · exact h
  · have e : tx.length - 1 = i := by omega
    rw [List.getLast?_eq_getElem?, e, ht] at hl
    simp [hne] at hl

theorem allowed_at {tx : List TOp} {i : Nat} {t : TOp} (ht : tx[i]? = some t) (ha : tx.all liqAllowed = true) : liqAllowed t = true := by
  rw [List.all_eq_true] at ha
  exact ha t (List.mem_of_getElem? ht)

theorem bracket_unique {tx : List TOp} {k j : Nat} (h1 : Bracket tx k) (h2 : Bracket tx j) : k = j := by
  obtain ⟨r1, o1, e1⟩ := h1.first
  obtain ⟨r2, o2, e2⟩ := h2.first
  rw [e1] at e2
  injection e2 with e2
  injection e2 with e2 _ _

theorem not_last_of_not_endD {tx : List TOp} {i : Nat} {t : TOp} (ht : tx[i]? = some t) (hne : isEndDelev t = false)
    (hl : ((tx.getLast?).map isEndDelev).getD false = true) : i + 1 < tx.length := by
  have hlt : i < tx.length := by
    rcases Nat.lt_or_ge i tx.length with h | h
    · exact h
    · rw [List.getElem?_eq_none h] at ht; cases ht
  rcases Nat.lt_or_ge (i + 1) tx.length with h | h
  · exact h
  · have e : tx.length - 1 = i := by omega
    rw [List.getLast?_eq_getElem?, e, ht] at hl
    simp [hne] at hl

theorem allowed_atD {tx : List TOp} {i : Nat} {t : TOp} (ht : tx[i]? = some t) (ha : tx.all delevAllowed = true) : delevAllowed t = true := by
  rw [List.all_eq_true] at ha
  exact ha t (List.mem_of_getElem? ht)

theorem anyBracket_unique {tx : List TOp} {k j : Nat} (h1 : AnyBracket tx k) (h2 : AnyBracket tx j) : k = j := by
  rcases h1 with h1 | h1 <;> rcases h2 with h2 | h2
  · exact bracket_unique h1 h2
  · obtain ⟨r1, o1, e1⟩ := h1.first
    obtain ⟨r2, o2, e2⟩ := h2.first
    rw [e1] at e2
    injection e2 with e2
    cases e2
  · obtain ⟨r1, o1, e1⟩ := h1.first
    obtain ⟨r2, o2, e2⟩ := h2.first
    rw [e1] at e2
    injection e2 with e2
    cases e2
  · obtain ⟨r1, o1, e1⟩ := h1.first
    obtain ⟨r2, o2, e2⟩ := h2.first
    rw [e1] at e2
    injection e2 with e2
    injection e2 with e2 _ _

theorem anyBracket_next {tx : List TOp} {i k : Nat} {t : TOp} (ht : tx[i]? = some t) (h1 : isEndLiq t = false) (h2 : isEndDelev t = false)
    (hb : AnyBracket tx k) : i + 1 < tx.length := by
  rcases hb with hb | hb
  · exact not_last_of_not_end ht h1 hb.last
  · exact not_last_of_not_endD ht h2 hb.last

theorem anyBracket_allowed {tx : List TOp} {i k : Nat} {t : TOp} (ht : tx[i]? = some t) (hb : AnyBracket tx k) :
    liqAllowed t = true ∨ delevAllowed t = true := by
  rcases hb with hb | hb
  · exact Or.inl (allowed_at ht hb.allowed)
  · exact Or.inr (allowed_atD ht hb.allowed)

theorem stepIn_recv {tx : List TOp} {i : Nat} {t : TOp} {w w' : WState} (ht : tx[i]? = some t)
    (h : w.stepIn tx i t = some w') (hp : RecvInv tx i w) : RecvInv tx (i + 1) w' := by
  cases t with
  | ix op =>
    simp only [WState.stepIn] at h
    have hw := step?_some h
    subst hw
    intro k a' hk hf
    obtain ⟨y, hy, hfy⟩ := step_noNewRecv w op k a' hk hf
    obtain ⟨_, hb⟩ := hp k y hy hfy
    exact ⟨anyBracket_next ht rfl rfl hb, hb⟩
  | startFlash ai signer endIdx =>
    simp only [WState.stepIn] at h
    split at h
    · rename_i a ha
      split at h
      · rename_i f hf
        injection h with h; subst h
        obtain ⟨_, _, _, _, _, _, _, ef⟩ := startFlashloan_ok hf
        intro k a' hk hfl
        obtain ⟨y, hy, hfy⟩ := set_noNewP (P := inRecv) (a' := { a with flags := f }) ha
          (by
            intro hx
            rw [inRecv_iff] at hx ⊢
            simp only [ef, Nat.testBit_or] at hx
            have : ACCOUNT_IN_FLASHLOAN.toNat = 2 := by decide
            rw [this] at hx
            have b : Nat.testBit 2 4 = false := by decide
            simp [b] at hx
            exact hx) k a' hk hfl
        obtain ⟨_, hb⟩ := hp k y hy hfy
        have := anyBracket_allowed ht hb
        simp [liqAllowed, delevAllowed] at this
      · cases h
    · cases h
  | endFlash ai signer =>
    simp only [WState.stepIn] at h
    split at h
    · rename_i a ha
      split at h
      · rename_i f hf
        injection h with h; subst h
        have ef : f = a.flags &&& (Nat.xor ACCOUNT_IN_FLASHLOAN.toNat (2 ^ 64 - 1)) := by
          unfold endFlashloan at hf
          obtain ⟨_, _, hf⟩ := Res.bind_ok hf
          obtain ⟨_, _, hf⟩ := Res.bind_ok hf
          obtain ⟨_, _, hf⟩ := Res.bind_ok hf
          obtain ⟨_, _, hf⟩ := Res.bind_ok hf
          obtain ⟨_, _, hf⟩ := Res.bind_ok hf
          obtain ⟨_, _, hf⟩ := Res.bind_ok hf
          obtain ⟨_, _, hf⟩ := Res.bind_ok hf
          injection hf with hf
          exact hf.symm
        intro k a' hk hfl
        obtain ⟨y, hy, hfy⟩ := set_noNewP (P := inRecv) (a' := { a with flags := f }) ha
          (by
            intro hx
            rw [inRecv_iff] at hx ⊢
            simp only [ef, Nat.testBit_and] at hx
            simp at hx
            exact hx.1) k a' hk hfl
        obtain ⟨_, hb⟩ := hp k y hy hfy
        have := anyBracket_allowed ht hb
        simp [liqAllowed, delevAllowed] at this
      · cases h
    · cases h
  | startLiq ai receiver recordOk =>
    simp only [WState.stepIn] at h
    split at h
    · rename_i a ha
      split at h
      · rename_i o ho
        injection h with h; subst h
        obtain ⟨_, _, hshape, _, _, _⟩ := startLiquidation_ok ho
        obtain ⟨t0, rest, etx, hs0, hsingle, hlast, hall, hcur⟩ := liqShape_ok hshape
        -- this start is the first instruction
        have hi0 : i = 0 := by
          rcases Nat.eq_zero_or_pos i with h0 | h0
          · exact h0
          · exfalso
            rw [etx] at ht
            have : rest[i - 1]? = some (.startLiq ai receiver recordOk) := by
              have e : i = (i - 1) + 1 := by omega
              rw [e, List.getElem?_cons_succ] at ht
              exact ht
            have hm := List.mem_of_getElem? this
            have : rest.any isStartLiq = true := List.any_eq_true.mpr ⟨_, hm, rfl⟩
            rw [hsingle] at this; cases this
        have hbr : Bracket tx ai := by
          refine ⟨⟨receiver, recordOk, by rw [← hi0]; exact ht⟩, hlast, hall, ?_⟩
          rw [etx]; simpa using hsingle
        intro k a' hk hfl
        refine ⟨by omega, ?_⟩
        rw [List.getElem?_set] at hk
        split at hk
        · rename_i hki
          subst hki
          exact Or.inl hbr
        · exact (hp k a' hk hfl).2
      · cases h
    · cases h
  | endLiq ai signer recordOk walletOk feeMax =>
    simp only [WState.stepIn] at h
    split at h
    · rename_i a ha
      split at h
      · rename_i o ho
        injection h with h; subst h
        obtain ⟨_, hrecv, _, _, _, _, efl⟩ := endLiquidation_ok ho
        have hba := (hp ai a ha hrecv).2
        intro k a' hk hfl
        exfalso
        rw [List.getElem?_set] at hk
        split at hk
        · rename_i hki
          subst hki
          split at hk
          · injection hk with hk; subst hk
            unfold inRecv at hfl
            simp only [efl] at hfl
            rw [recv_clear] at hfl; cases hfl
          · cases hk
        · rename_i hki
          have hbk := (hp k a' hk hfl).2
          exact hki (anyBracket_unique hba hbk)
      · cases h
    · cases h
  | startDelev ai signer recordOk =>
    simp only [WState.stepIn] at h
    split at h
    · rename_i a ha
      split at h
      · rename_i o ho
        injection h with h; subst h
        obtain ⟨_, _, hshape, _, _, _⟩ := startDeleverage_ok ho
        obtain ⟨t0, rest, etx, hs0, hsingle, hlast, hall, hcur⟩ := delevShape_ok hshape
        have hi0 : i = 0 := by
          rcases Nat.eq_zero_or_pos i with h0 | h0
          · exact h0
          · exfalso
            rw [etx] at ht
            have : rest[i - 1]? = some (.startDelev ai signer recordOk) := by
              have e : i = (i - 1) + 1 := by omega
              rw [e, List.getElem?_cons_succ] at ht
              exact ht
            have hm := List.mem_of_getElem? this
            have : rest.any isStartDelev = true := List.any_eq_true.mpr ⟨_, hm, rfl⟩
            rw [hsingle] at this; cases this
        have hbr : BracketD tx ai := by
          refine ⟨⟨signer, recordOk, by rw [← hi0]; exact ht⟩, hlast, hall, ?_⟩
          rw [etx]; simpa using hsingle
        intro k a' hk hfl
        refine ⟨by omega, ?_⟩
        rw [List.getElem?_set] at hk
        split at hk
        · rename_i hki
          subst hki
          exact Or.inr hbr
        · exact (hp k a' hk hfl).2
      · cases h
    · cases h
  | endDelev ai signer recordOk =>
    simp only [WState.stepIn] at h
    split at h
    · rename_i a ha
      split at h
      · rename_i o ho
        injection h with h; subst h
        obtain ⟨_, hrecv, _, _, _, efl⟩ := endDeleverage_ok ho
        have hba := (hp ai a ha hrecv).2
        intro k a' hk hfl
        exfalso
        rw [List.getElem?_set] at hk
        split at hk
        · rename_i hki
          subst hki
          split at hk
          · injection hk with hk; subst hk
            unfold inRecv at hfl
            simp only [efl] at hfl
            rw [recv_clear] at hfl; cases hfl
          · cases hk
        · rename_i hki
          have hbk := (hp k a' hk hfl).2
          exact hki (anyBracket_unique hba hbk)
      · cases h
    · cases h

theorem runFrom_recv (tx : List TOp) : ∀ (rest : List TOp) (i : Nat) (w w' : WState), tx.drop i = rest →
    WState.runFrom tx i rest w = some w' → RecvInv tx i w → RecvInv tx tx.length w' := by
  intro rest
  induction rest with
  | nil =>
    intro i w w' hd h hp
    simp only [WState.runFrom] at h
    injection h with h; subst h
    have hlen : tx.length ≤ i := by
      rcases Nat.lt_or_ge i tx.length with h1 | h1
      · have : (tx.drop i).length = tx.length - i := List.length_drop
        rw [hd] at this; simp at this; omega
      · exact h1
    intro k a hk hf
    have := (hp k a hk hf).1
    omega
  | cons op rest ih =>
    intro i w w' hd h hp
    obtain ⟨hti, hd'⟩ := drop_cons_facts hd
    simp only [WState.runFrom] at h
    split at h
    · rename_i w1 h1
      exact ih (i + 1) w1 w' hd' h (stepIn_recv hti h1 hp)
    · cases h

/-- **a committed transaction leaves no account in receivership** (when none was before it) -/
theorem runTx_noRecv {w w' : WState} {tx : List TOp} (h : w.runTx tx = some w')
    (h0 : ∀ (k : Nat) (a : AcctV), w.accts[k]? = some a → inRecv a = false) :
    ∀ (k : Nat) (a : AcctV), w'.accts[k]? = some a → inRecv a = false := by
  have hp0 : RecvInv tx 0 w := by
    intro k a hk hf
    rw [h0 k a hk] at hf; cases hf
  have hp := runFrom_recv tx tx 0 w w' rfl h hp0
  intro k a hk
  cases hfa : inRecv a with
  | false => rfl
  | true =>
    have := (hp k a hk hfa).1
    omega

theorem runTxs_noRecv : ∀ (txs : List (List TOp)) (w : WState), (∀ (k : Nat) (a : AcctV), w.accts[k]? = some a → inRecv a = false) →
    ∀ (k : Nat) (a : AcctV), (w.runTxs txs).accts[k]? = some a → inRecv a = false := by
  intro txs
  induction txs with
  | nil => intro w h0; exact h0
  | cons tx rest ih =>
    intro w h0
    simp only [WState.runTxs]
    apply ih
    cases hr : w.runTx tx with
    | none => exact h0
    | some w1 => exact runTx_noRecv hr h0

/-! ### the end that closes a committed bracket ran on the snapshot its own start took -/

/-- in receivership with anything but the given snapshot and receiver -/
def badRecv (cache : Risk.PreCache) (r : Nat) (a : AcctV) : Bool :=
  inRecv a && !(decide (a.recCache = cache) && decide (a.recReceiver = r))

theorem step_noNewBad (cache : Risk.PreCache) (r : Nat) (w : WState) (op : WOp) : NoNewP (badRecv cache r) w (w.step op) :=
  step_noNewP (badRecv cache r) (fun a slots => rfl)
    (fun a slots hx => by
      unfold badRecv at hx ⊢
      simp only [Bool.and_eq_true] at hx ⊢
      refine ⟨?_, hx.2⟩
      have h1 := hx.1
      rw [inRecv_iff] at h1 ⊢
      have : ACCOUNT_DISABLED.toNat = 1 := by decide
      simp only [this, Nat.testBit_or] at h1
      have b : Nat.testBit 1 4 = false := by decide
      simpa [b] using h1)
    (fun _ _ _ _ _ _ _ _ h => by
      obtain ⟨h1, h2⟩ := transferIx_noRecv h
      unfold badRecv
      rw [h1, h2]
      exact ⟨rfl, rfl⟩) w op

/-- every account in receivership carries the given snapshot and receiver -/
def CacheInv (cache : Risk.PreCache) (r : Nat) (w : WState) : Prop :=
  ∀ (k : Nat) (a : AcctV), w.accts[k]? = some a → inRecv a = true → a.recCache = cache ∧ a.recReceiver = r

theorem cacheInv_iff {cache : Risk.PreCache} {r : Nat} {w : WState} :
    CacheInv cache r w ↔ ∀ (k : Nat) (a : AcctV), w.accts[k]? = some a → badRecv cache r a = false := by
  constructor
  · intro h k a hk
    unfold badRecv
    cases hr : inRecv a with
    | false => rfl
    | true =>
      obtain ⟨h1, h2⟩ := h k a hk hr
      simp [h1, h2]
  · intro h k a hk hr
    have := h k a hk
    unfold badRecv at this
    rw [hr] at this
    simp at this
    exact this

theorem stepIn_cache {tx : List TOp} {i : Nat} {t : TOp} {w w' : WState} {cache : Risk.PreCache} {r : Nat} (hi : 1 ≤ i) (ht : tx[i]? = some t)
    (h : w.stepIn tx i t = some w') (hp : RecvInv tx i w) (hc : CacheInv cache r w) : CacheInv cache r w' := by
  cases t with
  | ix op =>
    simp only [WState.stepIn] at h
    have hw := step?_some h
    subst hw
    rw [cacheInv_iff] at hc ⊢
    intro k a' hk
    cases hb : badRecv cache r a' with
    | false => rfl
    | true =>
      obtain ⟨y, hy, hby⟩ := step_noNewBad cache r w op k a' hk hb
      rw [hc k y hy] at hby; cases hby
  | startFlash ai signer endIdx =>
    simp only [WState.stepIn] at h
    split at h
    · rename_i a ha
      split at h
      · rename_i f hf
        injection h with h; subst h
        obtain ⟨_, _, _, _, _, _, _, ef⟩ := startFlashloan_ok hf
        intro k a' hk hfl
        rw [setFlags_get ha] at hk
        by_cases hki : ai = k
        · subst hki
          simp only [if_true] at hk
          injection hk with hk; subst hk
          have : inRecv a = true := by
            rw [inRecv_iff] at hfl ⊢
            simp only [ef, Nat.testBit_or] at hfl
            have e2 : ACCOUNT_IN_FLASHLOAN.toNat = 2 := by decide
            rw [e2] at hfl
            have b : Nat.testBit 2 4 = false := by decide
            simp [b] at hfl
            exact hfl
          exact hc ai a ha this
        · simp only [hki, if_false] at hk
          exact hc k a' hk hfl
      · cases h
    · cases h
  | endFlash ai signer =>
    simp only [WState.stepIn] at h
    split at h
    · rename_i a ha
      split at h
      · rename_i f hf
        injection h with h; subst h
        have ef : f = a.flags &&& (Nat.xor ACCOUNT_IN_FLASHLOAN.toNat (2 ^ 64 - 1)) := by
          unfold endFlashloan at hf
          obtain ⟨_, _, hf⟩ := Res.bind_ok hf
          obtain ⟨_, _, hf⟩ := Res.bind_ok hf
          obtain ⟨_, _, hf⟩ := Res.bind_ok hf
          obtain ⟨_, _, hf⟩ := Res.bind_ok hf
          obtain ⟨_, _, hf⟩ := Res.bind_ok hf
          obtain ⟨_, _, hf⟩ := Res.bind_ok hf
          obtain ⟨_, _, hf⟩ := Res.bind_ok hf
          injection hf with hf
          exact hf.symm
        intro k a' hk hfl
        rw [setFlags_get ha] at hk
        by_cases hki : ai = k
        · subst hki
          simp only [if_true] at hk
          injection hk with hk; subst hk
          have : inRecv a = true := by
            rw [inRecv_iff] at hfl ⊢
            simp only [ef, Nat.testBit_and] at hfl
            simp at hfl
            exact hfl.1
          exact hc ai a ha this
        · simp only [hki, if_false] at hk
          exact hc k a' hk hfl
      · cases h
    · cases h
  | startLiq ai receiver recordOk =>
    -- a start can only be the first instruction
    exfalso
    simp only [WState.stepIn] at h
    split at h
    · rename_i a ha
      split at h
      · rename_i o ho
        obtain ⟨_, _, hshape, _, _, _⟩ := startLiquidation_ok ho
        obtain ⟨t0, rest, etx, hs0, hsingle, _, _, _⟩ := liqShape_ok hshape
        rw [etx] at ht
        have : rest[i - 1]? = some (.startLiq ai receiver recordOk) := by
          have e : i = (i - 1) + 1 := by omega
          rw [e, List.getElem?_cons_succ] at ht
          exact ht
        have hm := List.mem_of_getElem? this
        have : rest.any isStartLiq = true := List.any_eq_true.mpr ⟨_, hm, rfl⟩
        rw [hsingle] at this; cases this
      · cases h
    · cases h
  | endLiq ai signer recordOk walletOk feeMax =>
    -- afterwards nobody is in receivership (`stepIn_recv`): nothing to show
    have hr := stepIn_recv ht h hp
    simp only [WState.stepIn] at h
    split at h
    · rename_i a ha
      split at h
      · rename_i o ho
        injection h with h; subst h
        obtain ⟨_, hrecv, _, _, _, _, efl⟩ := endLiquidation_ok ho
        have hba := (hp ai a ha hrecv).2
        intro k a' hk hfl
        exfalso
        have hbk := (hr k a' hk hfl).2
        have hk' := hk
        rw [List.getElem?_set] at hk'
        have e := anyBracket_unique hba hbk
        subst e
        simp only [if_true] at hk'
        split at hk'
        · injection hk' with hk'; subst hk'
          unfold inRecv at hfl
          simp only [efl] at hfl
          rw [recv_clear] at hfl; cases hfl
        · cases hk'
      · cases h
    · cases h
  | startDelev ai signer recordOk =>
    -- a start can only be the first instruction
    exfalso
    simp only [WState.stepIn] at h
    split at h
    · rename_i a ha
      split at h
      · rename_i o ho
        obtain ⟨_, _, hshape, _, _, _⟩ := startDeleverage_ok ho
        obtain ⟨t0, rest, etx, hs0, hsingle, _, _, _⟩ := delevShape_ok hshape
        rw [etx] at ht
        have : rest[i - 1]? = some (.startDelev ai signer recordOk) := by
          have e : i = (i - 1) + 1 := by omega
          rw [e, List.getElem?_cons_succ] at ht
          exact ht
        have hm := List.mem_of_getElem? this
        have : rest.any isStartDelev = true := List.any_eq_true.mpr ⟨_, hm, rfl⟩
        rw [hsingle] at this; cases this
      · cases h
    · cases h
  | endDelev ai signer recordOk =>
    have hr := stepIn_recv ht h hp
    simp only [WState.stepIn] at h
    split at h
    · rename_i a ha
      split at h
      · rename_i o ho
        injection h with h; subst h
        obtain ⟨_, hrecv, _, _, _, efl⟩ := endDeleverage_ok ho
        have hba := (hp ai a ha hrecv).2
        intro k a' hk hfl
        exfalso
        have hbk := (hr k a' hk hfl).2
        have hk' := hk
        rw [List.getElem?_set] at hk'
        have e := anyBracket_unique hba hbk
        subst e
        simp only [if_true] at hk'
        split at hk'
        · injection hk' with hk'; subst hk'
          unfold inRecv at hfl
          simp only [efl] at hfl
          rw [recv_clear] at hfl; cases hfl
        · cases hk'
      · cases h
    · cases h

/-- every position of a committed transaction from position `i` on was reached with both invariants -/
theorem runFrom_at_recv (tx : List TOp) (cache : Risk.PreCache) (r : Nat) : ∀ (rest : List TOp) (i : Nat) (w w' : WState), 1 ≤ i → tx.drop i = rest →
    WState.runFrom tx i rest w = some w' → RecvInv tx i w → CacheInv cache r w →
    ∀ (j : Nat) (t : TOp), i ≤ j → tx[j]? = some t → ∃ (wj wj' : WState), RecvInv tx j wj ∧ CacheInv cache r wj ∧ wj.stepIn tx j t = some wj' := by
  intro rest
  induction rest with
  | nil =>
    intro i w w' h1 hd h hp hc j t hij hj
    have hlen : tx.length ≤ i := by
      rcases Nat.lt_or_ge i tx.length with h1 | h1
      · have : (tx.drop i).length = tx.length - i := List.length_drop
        rw [hd] at this; simp at this; omega
      · exact h1
    have : j < tx.length := by
      rcases Nat.lt_or_ge j tx.length with h1 | h1
      · exact h1
      · rw [List.getElem?_eq_none h1] at hj; cases hj
    omega
  | cons op rest ih =>
    intro i w w' hi1 hd h hp hc j t hij hj
    obtain ⟨hti, hd'⟩ := drop_cons_facts hd
    simp only [WState.runFrom] at h
    split at h
    · rename_i w1 hs1
      rcases Nat.lt_or_ge i j with hlt | hge
      · exact ih (i + 1) w1 w' (by omega) hd' h (stepIn_recv hti hs1 hp) (stepIn_cache hi1 hti hs1 hp hc) j t (by omega) hj
      · have : j = i := by omega
        subst this
        rw [hti] at hj
        injection hj with hj
        subst hj
        exact ⟨w, w1, hp, hc, hs1⟩
    · cases h

/-- `runFrom_at_recv`, naming the reached state: instruction `j` ran on `w0.before tx j` -/
theorem runFrom_at_recv_b (tx : List TOp) (w0 : WState) (cache : Risk.PreCache) (r : Nat) : ∀ (rest : List TOp) (i : Nat) (w w' : WState), 1 ≤ i → tx.drop i = rest →
    w0.before tx i = some w → WState.runFrom tx i rest w = some w' → RecvInv tx i w → CacheInv cache r w →
    ∀ (j : Nat) (t : TOp), i ≤ j → tx[j]? = some t →
      ∃ (wj wj' : WState), w0.before tx j = some wj ∧ RecvInv tx j wj ∧ CacheInv cache r wj ∧ wj.stepIn tx j t = some wj' := by
  intro rest
  induction rest with
  | nil =>
    intro i w w' h1 hd _ h hp hc j t hij hj
    have hlen : tx.length ≤ i := by
      rcases Nat.lt_or_ge i tx.length with h1 | h1
      · have : (tx.drop i).length = tx.length - i := List.length_drop
        rw [hd] at this; simp at this; omega
      · exact h1
    have : j < tx.length := by
      rcases Nat.lt_or_ge j tx.length with h1 | h1
      · exact h1
      · rw [List.getElem?_eq_none h1] at hj; cases hj
    omega
  | cons op rest ih =>
    intro i w w' hi1 hd hbef h hp hc j t hij hj
    obtain ⟨hti, hd'⟩ := drop_cons_facts hd
    simp only [WState.runFrom] at h
    split at h
    · rename_i w1 hs1
      rcases Nat.lt_or_ge i j with hlt | hge
      · have hlt' : i < tx.length := by
          rcases Nat.lt_or_ge i tx.length with h2 | h2
          · exact h2
          · rw [List.getElem?_eq_none h2] at hti; cases hti
        have htake : tx.take (i + 1) = tx.take i ++ [op] := by
          rw [List.take_succ, hti]; rfl
        have hbef1 : w0.before tx (i + 1) = some w1 := by
          unfold WState.before at hbef ⊢
          rw [htake]
          apply runFrom_snoc tx (tx.take i) 0 w0 w w1 op hbef
          have : (tx.take i).length = i := by simp [List.length_take]; omega
          rw [this, Nat.zero_add]; exact hs1
        exact ih (i + 1) w1 w' (by omega) hd' hbef1 h (stepIn_recv hti hs1 hp) (stepIn_cache hi1 hti hs1 hp hc) j t (by omega) hj
      · have : j = i := by omega
        subst this
        rw [hti] at hj
        injection hj with hj
        subst hj
        exact ⟨w, w1, hbef, hp, hc, hs1⟩
    · cases h

/-- **the bracket of a committed transaction**: if a committed transaction (started with nobody in receivership) opens with
    `start_liquidation` of account `a0` naming receiver `r`, then the account was not healthy at maintenance level on the state the
    transaction found, the transaction's LAST instruction is an `end_liquidation` of the SAME account signed by `r`, and that end
    compared the portfolio as the bracket left it with exactly the snapshot the start took -/
theorem tx_liquidation_closed {w w' : WState} {tx : List TOp} (h : w.runTx tx = some w')
    (h0 : ∀ (k : Nat) (a : AcctV), w.accts[k]? = some a → inRecv a = false)
    {a0 r : Nat} {ok : Bool} (hs : tx[0]? = some (.startLiq a0 r ok)) :
    ∃ (a : AcctV) (ps0 : List Risk.Pos) (cache : Risk.PreCache),
      w.accts[a0]? = some a ∧ (w.rctx a ok r true 0).portfolio = .ok ps0 ∧ Risk.startReceivership ps0 false = .ok cache ∧
      ∃ (signer : Nat) (rok wok : Bool) (feeMax : Int), tx[tx.length - 1]? = some (.endLiq a0 signer rok wok feeMax) ∧ signer = r ∧
        ∃ (wl : WState) (al : AcctV) (psl : List Risk.Pos) (seized repaid : Int), w.before tx (tx.length - 1) = some wl ∧ wl.accts[a0]? = some al ∧
          (wl.rctx al rok signer wok feeMax).portfolio = .ok psl ∧ Risk.endLiquidation cache psl feeMax = .ok (seized, repaid) := by
  -- the first step
  cases tx with
  | nil => simp at hs
  | cons t0 rest =>
    have ht0 : t0 = .startLiq a0 r ok := by simpa using hs
    subst ht0
    have hrun := h
    simp only [WState.runTx, WState.runFrom] at hrun
    split at hrun
    · rename_i w1 h1
      have hp0 : RecvInv (TOp.startLiq a0 r ok :: rest) 0 w := by
        intro k a hk hf
        rw [h0 k a hk] at hf; cases hf
      have hp1 := stepIn_recv (tx := TOp.startLiq a0 r ok :: rest) (i := 0) rfl h1 hp0
      have h1' := h1
      have hbef1 : w.before (TOp.startLiq a0 r ok :: rest) 1 = some w1 := by
        simp [WState.before, WState.runFrom, h1']
      simp only [WState.stepIn] at h1
      split at h1
      · rename_i a ha
        split at h1
        · rename_i o ho
          injection h1 with h1; subst h1
          obtain ⟨_, _, hshape, ⟨ps0, hps0, hcache⟩, efl, erecv⟩ := startLiquidation_ok ho
          obtain ⟨_, _, _, _, _, hlast, _, hcur⟩ := liqShape_ok hshape
          -- the snapshot is carried by the only account in receivership
          have hc1 : CacheInv o.cache r { w with accts := w.accts.set a0 { a with flags := o.flags, recReceiver := o.receiver, recCache := o.cache } } := by
            intro k a' hk hfl
            rw [List.getElem?_set] at hk
            split at hk
            · split at hk
              · injection hk with hk; subst hk
                exact ⟨rfl, erecv⟩
              · cases hk
            · rw [h0 k a' hk] at hfl; cases hfl
          -- the last instruction
          set tx := TOp.startLiq a0 r ok :: rest with etx
          have hlen : 1 ≤ tx.length - 1 := by simp only [etx, List.length_cons] at hcur ⊢; omega
          cases hl : tx[tx.length - 1]? with
          | none =>
            exfalso
            have : tx.length - 1 < tx.length := by simp only [etx, List.length_cons]; omega
            rw [List.getElem?_eq_none_iff] at hl
            omega
          | some tl =>
            have hend : isEndLiq tl = true := by
              rw [List.getLast?_eq_getElem?, hl] at hlast
              simpa using hlast
            obtain ⟨wl, wl', hbl, hrl, hcl, hsl⟩ := runFrom_at_recv_b tx w o.cache r rest 1 _ w' (Nat.le_refl 1) (by simp [etx]) hbef1 hrun hp1 hc1
              (tx.length - 1) tl hlen hl
            cases tl with
            | endLiq aj signer rok wok feeMax =>
              simp only [WState.stepIn] at hsl
              split at hsl
              · rename_i al hal
                split at hsl
                · rename_i oe hoe
                  obtain ⟨_, hrecv, hrr, _, _, ⟨psl, hpsl, hendl⟩, _⟩ := endLiquidation_ok hoe
                  obtain ⟨hcache', hrecv'⟩ := hcl aj al hal hrecv
                  have hb1 := (hrl aj al hal hrecv).2
                  have eaj : aj = a0 := by
                    have h0' : tx[0]? = some (.startLiq a0 r ok) := rfl
                    rcases hb1 with hb1 | hb1
                    · obtain ⟨r', ok', e'⟩ := hb1.first
                      rw [h0'] at e'
                      injection e' with e'
                      injection e' with e1 _ _
                      exact e1.symm
                    · obtain ⟨r', ok', e'⟩ := hb1.first
                      rw [h0'] at e'
                      injection e' with e'
                      cases e'
                  subst eaj
                  simp only [WState.rctx] at hrr hendl hpsl
                  rw [hcache'] at hendl
                  refine ⟨a, ps0, o.cache, ha, hps0, hcache, signer, rok, wok, feeMax, rfl, ?_, wl, al, psl, oe.seized, oe.repaid, hbl, hal, hpsl, hendl⟩
                  rw [← hrr, hrecv']
                · cases hsl
              · cases hsl
            | ix op => cases hend
            | startFlash _ _ _ => cases hend
            | endFlash _ _ => cases hend
            | startLiq _ _ _ => cases hend
            | startDelev _ _ _ => cases hend
            | endDelev _ _ _ => cases hend
        · cases h1
      · cases h1
    · cases hrun

/-- **the forced-deleverage bracket of a committed transaction**: if a committed transaction (started with nobody in receivership)
    opens with `start_deleverage` of account `a0` signed by `r`, then `r` is the group's risk admin and the account is of this group,
    the transaction's LAST instruction is an `end_deleverage` of the SAME account signed by `r`, and that end compared the
    portfolio as the bracket left it with exactly the snapshot the start took -/
theorem tx_deleverage_closed {w w' : WState} {tx : List TOp} (h : w.runTx tx = some w')
    (h0 : ∀ (k : Nat) (a : AcctV), w.accts[k]? = some a → inRecv a = false)
    {a0 r : Nat} {ok : Bool} (hs : tx[0]? = some (.startDelev a0 r ok)) :
    ∃ (a : AcctV) (ps0 : List Risk.Pos) (cache : Risk.PreCache),
      w.accts[a0]? = some a ∧ w.g.riskAdmin = r ∧ a.group = w.g.key ∧
      (w.rctx a ok r true 0).portfolio = .ok ps0 ∧ Risk.startReceivership ps0 true = .ok cache ∧
      ∃ (signer : Nat) (rok : Bool), tx[tx.length - 1]? = some (.endDelev a0 signer rok) ∧ signer = r ∧
        ∃ (wl : WState) (al : AcctV) (psl : List Risk.Pos) (seized repaid : Int), w.before tx (tx.length - 1) = some wl ∧ wl.accts[a0]? = some al ∧
          (wl.rctx al rok signer true 0).portfolio = .ok psl ∧ Risk.endDeleverage cache psl = .ok (seized, repaid) := by
  -- the first step
  cases tx with
  | nil => simp at hs
  | cons t0 rest =>
    have ht0 : t0 = .startDelev a0 r ok := by simpa using hs
    subst ht0
    have hrun := h
    simp only [WState.runTx, WState.runFrom] at hrun
    split at hrun
    · rename_i w1 h1
      have hp0 : RecvInv (TOp.startDelev a0 r ok :: rest) 0 w := by
        intro k a hk hf
        rw [h0 k a hk] at hf; cases hf
      have hp1 := stepIn_recv (tx := TOp.startDelev a0 r ok :: rest) (i := 0) rfl h1 hp0
      have h1' := h1
      have hbef1 : w.before (TOp.startDelev a0 r ok :: rest) 1 = some w1 := by
        simp [WState.before, WState.runFrom, h1']
      simp only [WState.stepIn] at h1
      split at h1
      · rename_i a ha
        split at h1
        · rename_i o ho
          injection h1 with h1; subst h1
          obtain ⟨⟨_, hgrp, hadm⟩, _, hshape, ⟨ps0, hps0, hcache⟩, efl, erecv⟩ := startDeleverage_ok ho
          obtain ⟨_, _, _, _, _, hlast, _, hcur⟩ := delevShape_ok hshape
          -- the snapshot is carried by the only account in receivership
          have hc1 : CacheInv o.cache r { w with accts := w.accts.set a0 { a with flags := o.flags, recReceiver := o.receiver, recCache := o.cache } } := by
            intro k a' hk hfl
            rw [List.getElem?_set] at hk
            split at hk
            · split at hk
              · injection hk with hk; subst hk
                exact ⟨rfl, erecv⟩
              · cases hk
            · rw [h0 k a' hk] at hfl; cases hfl
          -- the last instruction
          set tx := TOp.startDelev a0 r ok :: rest with etx
          have hlen : 1 ≤ tx.length - 1 := by simp only [etx, List.length_cons] at hcur ⊢; omega
          cases hl : tx[tx.length - 1]? with
          | none =>
            exfalso
            have : tx.length - 1 < tx.length := by simp only [etx, List.length_cons]; omega
            rw [List.getElem?_eq_none_iff] at hl
            omega
          | some tl =>
            have hend : isEndDelev tl = true := by
              rw [List.getLast?_eq_getElem?, hl] at hlast
              simpa using hlast
            obtain ⟨wl, wl', hbl, hrl, hcl, hsl⟩ := runFrom_at_recv_b tx w o.cache r rest 1 _ w' (Nat.le_refl 1) (by simp [etx]) hbef1 hrun hp1 hc1
              (tx.length - 1) tl hlen hl
            cases tl with
            | endDelev aj signer rok =>
              simp only [WState.stepIn] at hsl
              split at hsl
              · rename_i al hal
                split at hsl
                · rename_i oe hoe
                  obtain ⟨_, hrecv, hrr, _, ⟨psl, hpsl, hendl⟩, _⟩ := endDeleverage_ok hoe
                  obtain ⟨hcache', hrecv'⟩ := hcl aj al hal hrecv
                  have hb1 := (hrl aj al hal hrecv).2
                  have eaj : aj = a0 := by
                    have h0' : tx[0]? = some (.startDelev a0 r ok) := rfl
                    rcases hb1 with hb1 | hb1
                    · obtain ⟨r', ok', e'⟩ := hb1.first
                      rw [h0'] at e'
                      injection e' with e'
                      cases e'
                    · obtain ⟨r', ok', e'⟩ := hb1.first
                      rw [h0'] at e'
                      injection e' with e'
                      injection e' with e1 _ _
                      exact e1.symm
                  subst eaj
                  simp only [WState.rctx] at hrr hendl hpsl
                  rw [hcache'] at hendl
                  refine ⟨a, ps0, o.cache, ha, hadm, hgrp, hps0, hcache, signer, rok, rfl, ?_, wl, al, psl, oe.seized, oe.repaid, hbl, hal, hpsl, hendl⟩
                  rw [← hrr, hrecv']
                · cases hsl
              · cases hsl
            | ix op => cases hend
            | startFlash _ _ _ => cases hend
            | endFlash _ _ => cases hend
            | startLiq _ _ _ => cases hend
            | endLiq _ _ _ _ _ => cases hend
            | startDelev _ _ _ => cases hend
        · cases h1
      · cases h1
    · cases hrun


/-! ### who acts inside a committed transaction: a third party only inside a bracket -/

/-- every position of a committed transaction from position `i` on was reached — it is the state `before` gives — with the
    receivership invariant -/
theorem runFrom_at_r (tx : List TOp) (w0 : WState) : ∀ (rest : List TOp) (i : Nat) (w w' : WState), tx.drop i = rest →
    w0.before tx i = some w → WState.runFrom tx i rest w = some w' → RecvInv tx i w →
    ∀ (j : Nat) (t : TOp), i ≤ j → tx[j]? = some t →
      ∃ (wj wj' : WState), w0.before tx j = some wj ∧ RecvInv tx j wj ∧ wj.stepIn tx j t = some wj' := by
  intro rest
  induction rest with
  | nil =>
    intro i w w' hd _ h hp j t hij hj
    have hlen : tx.length ≤ i := by
      rcases Nat.lt_or_ge i tx.length with h1 | h1
      · have : (tx.drop i).length = tx.length - i := List.length_drop
        rw [hd] at this; simp at this; omega
      · exact h1
    have : j < tx.length := by
      rcases Nat.lt_or_ge j tx.length with h1 | h1
      · exact h1
      · rw [List.getElem?_eq_none h1] at hj; cases hj
    omega
  | cons op rest ih =>
    intro i w w' hd hbef h hp j t hij hj
    obtain ⟨hti, hd'⟩ := drop_cons_facts hd
    simp only [WState.runFrom] at h
    split at h
    · rename_i w1 hs1
      rcases Nat.lt_or_ge i j with hlt | hge
      · have hlt' : i < tx.length := by
          rcases Nat.lt_or_ge i tx.length with h2 | h2
          · exact h2
          · rw [List.getElem?_eq_none h2] at hti; cases hti
        have htake : tx.take (i + 1) = tx.take i ++ [op] := by
          rw [List.take_succ, hti]; rfl
        have hbef1 : w0.before tx (i + 1) = some w1 := by
          unfold WState.before at hbef ⊢
          rw [htake]
          apply runFrom_snoc tx (tx.take i) 0 w0 w w1 op hbef
          have : (tx.take i).length = i := by simp [List.length_take]; omega
          rw [this, Nat.zero_add]; exact hs1
        exact ih (i + 1) w1 w' hd' hbef1 h (stepIn_recv hti hs1 hp) j t (by omega) hj
      · have : j = i := by omega
        subst this
        rw [hti] at hj
        injection hj with hj
        subst hj
        exact ⟨w, w1, hbef, hp, hs1⟩
    · cases h

/-- an `AnyBracket` transaction starts with a start: an instruction at a position that is no start sits strictly inside -/
theorem anyBracket_inside {tx : List TOp} {i k : Nat} {t : TOp} (ht : tx[i]? = some t) (hb : AnyBracket tx k)
    (h1 : isStartLiq t = false) (h2 : isStartDelev t = false) : 0 < i := by
  rcases Nat.eq_zero_or_pos i with h0 | h0
  · exfalso
    subst h0
    rcases hb with hb | hb
    · obtain ⟨r, ok, e⟩ := hb.first
      rw [ht] at e; injection e with e; subst e; cases h1
    · obtain ⟨r, ok, e⟩ := hb.first
      rw [ht] at e; injection e with e; subst e; cases h2
  · exact h0

/-- a withdrawal of a committed transaction (started with nobody in receivership) ran on some reached state, and if the account
    was in receivership there, the transaction is THAT account's bracket and the withdrawal sits strictly inside it -/
theorem tx_withdraw_in_bracket {w w' : WState} {tx : List TOp} (h : w.runTx tx = some w')
    (h0 : ∀ (k : Nat) (a : AcctV), w.accts[k]? = some a → inRecv a = false)
    {i ai bi signer : Nat} {amount vault : Int} {all : Bool} (hi : tx[i]? = some (.ix (.withdraw ai bi signer amount all vault))) :
    ∃ (wi : WState) (a : AcctV) (b : WBank) (o : Out), w.before tx i = some wi ∧ wi.accts[ai]? = some a ∧ wi.banks[bi]? = some b ∧
      withdraw (wi.ctx a b signer b.v.liquidityVault vault) amount all = .ok o ∧
      (inRecv a = true → AnyBracket tx ai ∧ 0 < i ∧ i + 1 < tx.length) := by
  have hp0 : RecvInv tx 0 w := by
    intro k a hk hf
    rw [h0 k a hk] at hf; cases hf
  obtain ⟨wi, wi', hbef, hpi, hst⟩ := runFrom_at_r tx w tx 0 w w' rfl (before_zero w tx) h hp0 i _ (Nat.zero_le _) hi
  simp only [WState.stepIn, WState.step?] at hst
  split at hst
  · rename_i a b ha hb
    split at hst
    · rename_i o ho
      refine ⟨wi, a, b, o, hbef, ha, hb, ho, ?_⟩
      intro hr
      obtain ⟨_, hbr⟩ := hpi ai a ha hr
      exact ⟨hbr, anyBracket_inside hi hbr rfl rfl, anyBracket_next hi rfl rfl hbr⟩
    · cases hst
  · cases hst

/-- the same for a repayment -/
theorem tx_repay_in_bracket {w w' : WState} {tx : List TOp} (h : w.runTx tx = some w')
    (h0 : ∀ (k : Nat) (a : AcctV), w.accts[k]? = some a → inRecv a = false)
    {i ai bi signer : Nat} {amount : Int} {all : Bool} (hi : tx[i]? = some (.ix (.repay ai bi signer amount all))) :
    ∃ (wi : WState) (a : AcctV) (b : WBank) (o : Out), w.before tx i = some wi ∧ wi.accts[ai]? = some a ∧ wi.banks[bi]? = some b ∧
      repay (wi.ctx a b signer b.v.liquidityVault 0) amount all = .ok o ∧
      (inRecv a = true → AnyBracket tx ai ∧ 0 < i ∧ i + 1 < tx.length) := by
  have hp0 : RecvInv tx 0 w := by
    intro k a hk hf
    rw [h0 k a hk] at hf; cases hf
  obtain ⟨wi, wi', hbef, hpi, hst⟩ := runFrom_at_r tx w tx 0 w w' rfl (before_zero w tx) h hp0 i _ (Nat.zero_le _) hi
  simp only [WState.stepIn, WState.step?] at hst
  split at hst
  · rename_i a b ha hb
    split at hst
    · rename_i o ho
      refine ⟨wi, a, b, o, hbef, ha, hb, ho, ?_⟩
      intro hr
      obtain ⟨_, hbr⟩ := hpi ai a ha hr
      exact ⟨hbr, anyBracket_inside hi hbr rfl rfl, anyBracket_next hi rfl rfl hbr⟩
    · cases hst
  · cases hst

/-! ### control never survives: a receiver is recorded only while the account is in receivership -/

/-- a receiver is recorded although the account is NOT in receivership -/
def strayRecv (a : AcctV) : Bool := decide (a.recReceiver ≠ 0) && !inRecv a

theorem transferIx_noReceiver {g : GroupV} {a o n : AcctV} {signer newKey newAuth : Nat} {ok : Bool}
    (h : transferIx g a signer newKey newAuth ok = .ok (o, n)) : o.recReceiver = 0 ∧ n.recReceiver = 0 := by
  unfold transferIx at h
  cases ht : Transfer.transfer (toMAcct a) a.key g.key g.admin 1 g.paused signer newKey newAuth (if ok = true then 1 else 2) 0 with
  | error e => rw [ht] at h; cases h
  | ok r =>
    rw [ht] at h
    obtain ⟨ro, rn⟩ := r
    have h' : (ofMAcct a.key ro, ofMAcct newKey rn) = (o, n) := by
      have : (Except.ok (ro, rn) : Res _).map (fun (p : Transfer.MAcct × Transfer.MAcct) => (ofMAcct a.key p.1, ofMAcct newKey p.2)) = .ok (o, n) := h
      injection this
    injection h' with h1 h2
    subst h1; subst h2
    exact ⟨rfl, rfl⟩

/-- no whole instruction leaves a receiver recorded on an account that is not in receivership -/
theorem step_noNewStray (w : WState) (op : WOp) : NoNewP strayRecv w (w.step op) :=
  step_noNewP strayRecv (fun a slots => rfl)
    (fun a slots hx => by
      unfold strayRecv at hx ⊢
      simp only [Bool.and_eq_true, Bool.not_eq_true'] at hx ⊢
      refine ⟨hx.1, ?_⟩
      have h1 := hx.2
      have e : inRecv { a with slots := slots, flags := a.flags ||| ACCOUNT_DISABLED.toNat } = inRecv a := by
        rw [inRecv_iff, inRecv_iff]
        have : ACCOUNT_DISABLED.toNat = 1 := by decide
        simp only [this, Nat.testBit_or]
        have b : Nat.testBit 1 4 = false := by decide
        simp [b]
      rw [e] at h1; exact h1)
    (fun _ _ _ _ _ _ _ _ h => by
      obtain ⟨h1, h2⟩ := transferIx_noReceiver h
      unfold strayRecv
      simp [h1, h2]) w op

/-- every account of the state: a receiver recorded means in receivership -/
def NoStray (w : WState) : Prop := ∀ (k : Nat) (a : AcctV), w.accts[k]? = some a → strayRecv a = false

theorem noStray_of_noNew {w w' : WState} (h : NoNewP strayRecv w w') (hw : NoStray w) : NoStray w' := by
  intro k a hk
  cases hs : strayRecv a with
  | false => rfl
  | true =>
    obtain ⟨y, hy, hsy⟩ := h k a hk hs
    rw [hw k y hy] at hsy; cases hsy

theorem noStray_set {w : WState} {ai : Nat} {a a' : AcctV} (hw : NoStray w) (ha : w.accts[ai]? = some a)
    (h : strayRecv a' = true → strayRecv a = true) : NoStray { w with accts := w.accts.set ai a' } :=
  noStray_of_noNew (w := w) (set_noNewP (P := strayRecv) ha h) hw

theorem stepIn_noStray {tx : List TOp} {i : Nat} {t : TOp} {w w' : WState} (h : w.stepIn tx i t = some w') (hw : NoStray w) : NoStray w' := by
  cases t with
  | ix op =>
    simp only [WState.stepIn] at h
    rw [step?_some h]
    exact noStray_of_noNew (step_noNewStray w op) hw
  | startFlash ai signer endIdx =>
    simp only [WState.stepIn] at h
    split at h
    · rename_i a ha
      split at h
      · rename_i f hf
        injection h with h; subst h
        obtain ⟨_, _, _, _, _, _, _, ef⟩ := startFlashloan_ok hf
        refine noStray_set hw ha ?_
        intro hx
        unfold strayRecv at hx ⊢
        simp only [Bool.and_eq_true, Bool.not_eq_true'] at hx ⊢
        refine ⟨hx.1, ?_⟩
        have h1 := hx.2
        rw [inRecv_iff] at h1 ⊢
        simp only [ef, Nat.testBit_or] at h1
        have e2 : ACCOUNT_IN_FLASHLOAN.toNat = 2 := by decide
        rw [e2] at h1
        have b : Nat.testBit 2 4 = false := by decide
        simp [b] at h1
        exact h1
      · cases h
    · cases h
  | endFlash ai signer =>
    simp only [WState.stepIn] at h
    split at h
    · rename_i a ha
      split at h
      · rename_i f hf
        injection h with h; subst h
        have ef : f = a.flags &&& (Nat.xor ACCOUNT_IN_FLASHLOAN.toNat (2 ^ 64 - 1)) := by
          unfold endFlashloan at hf
          obtain ⟨_, _, hf⟩ := Res.bind_ok hf
          obtain ⟨_, _, hf⟩ := Res.bind_ok hf
          obtain ⟨_, _, hf⟩ := Res.bind_ok hf
          obtain ⟨_, _, hf⟩ := Res.bind_ok hf
          obtain ⟨_, _, hf⟩ := Res.bind_ok hf
          obtain ⟨_, _, hf⟩ := Res.bind_ok hf
          obtain ⟨_, _, hf⟩ := Res.bind_ok hf
          injection hf with hf
          exact hf.symm
        refine noStray_set hw ha ?_
        intro hx
        unfold strayRecv at hx ⊢
        simp only [Bool.and_eq_true, Bool.not_eq_true'] at hx ⊢
        refine ⟨hx.1, ?_⟩
        have h1 := hx.2
        rw [inRecv_iff] at h1 ⊢
        simp only [ef, Nat.testBit_and] at h1
        have b : Nat.testBit (Nat.xor ACCOUNT_IN_FLASHLOAN.toNat (2 ^ 64 - 1)) 4 = true := by decide
        rw [b, Bool.and_true] at h1
        exact h1
      · cases h
    · cases h
  | startLiq ai receiver recordOk =>
    simp only [WState.stepIn] at h
    split at h
    · rename_i a ha
      split at h
      · rename_i o ho
        injection h with h; subst h
        obtain ⟨_, _, _, _, efl, _⟩ := startLiquidation_ok ho
        refine noStray_set hw ha ?_
        intro hx
        exfalso
        unfold strayRecv at hx
        simp only [Bool.and_eq_true, Bool.not_eq_true'] at hx
        have h1 := hx.2
        rw [inRecv_iff] at h1
        simp only [efl, Nat.testBit_or] at h1
        have b : Nat.testBit ACCOUNT_IN_RECEIVERSHIP.toNat 4 = true := by decide
        simp [b] at h1
      · cases h
    · cases h
  | endLiq ai signer recordOk walletOk feeMax =>
    simp only [WState.stepIn] at h
    split at h
    · rename_i a ha
      split at h
      · rename_i o ho
        injection h with h; subst h
        refine noStray_set hw ha ?_
        intro hx
        exfalso
        unfold strayRecv at hx
        simp at hx
      · cases h
    · cases h
  | startDelev ai signer recordOk =>
    simp only [WState.stepIn] at h
    split at h
    · rename_i a ha
      split at h
      · rename_i o ho
        injection h with h; subst h
        obtain ⟨_, _, _, _, efl, _⟩ := startDeleverage_ok ho
        refine noStray_set hw ha ?_
        intro hx
        exfalso
        unfold strayRecv at hx
        simp only [Bool.and_eq_true, Bool.not_eq_true'] at hx
        have h1 := hx.2
        rw [inRecv_iff] at h1
        simp only [efl, Nat.testBit_or] at h1
        have b : Nat.testBit ACCOUNT_IN_RECEIVERSHIP.toNat 4 = true := by decide
        simp [b] at h1
      · cases h
    · cases h
  | endDelev ai signer recordOk =>
    simp only [WState.stepIn] at h
    split at h
    · rename_i a ha
      split at h
      · rename_i o ho
        injection h with h; subst h
        refine noStray_set hw ha ?_
        intro hx
        exfalso
        unfold strayRecv at hx
        simp at hx
      · cases h
    · cases h

theorem runFrom_noStray (tx : List TOp) : ∀ (rest : List TOp) (i : Nat) (w w' : WState),
    WState.runFrom tx i rest w = some w' → NoStray w → NoStray w' := by
  intro rest
  induction rest with
  | nil => intro i w w' h hw; simp only [WState.runFrom] at h; injection h with h; subst h; exact hw
  | cons op rest ih =>
    intro i w w' h hw
    simp only [WState.runFrom] at h
    split at h
    · rename_i w1 h1; exact ih (i + 1) w1 w' h (stepIn_noStray h1 hw)
    · cases h

/-- **control never survives a transaction**: from a state in which no account is in receivership and no record names a receiver,
    after any sequence of transactions (committed or rolled back) no account is in receivership and no record names a receiver -/
theorem runTxs_no_control : ∀ (txs : List (List TOp)) (w : WState),
    (∀ (k : Nat) (a : AcctV), w.accts[k]? = some a → inRecv a = false ∧ a.recReceiver = 0) →
    ∀ (k : Nat) (a : AcctV), (w.runTxs txs).accts[k]? = some a → inRecv a = false ∧ a.recReceiver = 0 := by
  intro txs
  induction txs with
  | nil => intro w h0; exact h0
  | cons tx rest ih =>
    intro w h0
    simp only [WState.runTxs]
    apply ih
    cases hr : w.runTx tx with
    | none => exact h0
    | some w1 =>
      simp only [Option.getD_some]
      have hrecv := runTx_noRecv hr (fun k a hk => (h0 k a hk).1)
      have hstray : NoStray w := by
        intro k a hk
        unfold strayRecv
        simp [(h0 k a hk).2]
      have hs1 := runFrom_noStray tx tx 0 w w1 hr hstray
      intro k a hk
      refine ⟨hrecv k a hk, ?_⟩
      have := hs1 k a hk
      unfold strayRecv at this
      rw [hrecv k a hk] at this
      simpa using this

end Mfi.World
