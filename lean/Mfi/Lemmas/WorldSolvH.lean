/-
  Solvency over EVERY history of whole instructions of the world state machine (`World.WState.step`: any number of accounts
  and banks; deposit / withdraw / borrow / repay / close_balance / handle_bankruptcy / liquidate by any signer on any pair
  with any arguments; time).

  Next to the state run three ghost ledgers per bank key: the liquidity vault's token balance (moved by exactly the tokens
  the instruction model says enter or leave it — deposits and repayments net of the mint's transfer fee, insurance tokens of
  a bankruptcy in, the whole-token insurance fee of a liquidation out), the rounding allowance consumed, and the sanctioned
  write-offs (token-less repayments of a sunset bank, the bad debt of a settlement that wipes the bank out). Theorem:
  for every bank, at every point of every history,

      vault·2^96 − (deposits − loans + uncollected fees) + allowance consumed + sanctioned write-offs

  never decreases (`step_pot`, `run_pot`), together with the invariant that makes the per-instruction bounds applicable again
  (`SInv`: the ledger of C02, non-negative position shares and dust, share values and fee buckets in range, a live bank has
  a positive deposit share value).
-/
import Mfi.Lemmas.WorldSolv

namespace Mfi.World
open Mfi Mfi.Fx Mfi.Bank Mfi.Account Mfi.Gen Mfi.SolvL

/-- one effect of an instruction on the ghost ledgers of the bank with key `key` -/
structure Eff where
  key : Nat
  inflow : Int      -- whole tokens entering the liquidity vault (negative: leaving it)
  allow : Int       -- rounding allowance consumed (2^-96 token)
  writeoff : Int    -- sanctioned write-off (2^-96 token)

structure Ghost where
  vault : Nat → Int
  spent : Nat → Int
  written : Nat → Int

def Ghost.add (g : Ghost) (e : Eff) : Ghost :=
  { vault := bump g.vault e.key e.inflow, spent := bump g.spent e.key e.allow, written := bump g.written e.key e.writeoff }

def Ghost.apply (g : Ghost) (es : List Eff) : Ghost := es.foldl Ghost.add g

/-- the step of the state machine together with its effects on the ghost ledgers: the state component IS `WState.step`
    (`stepE_fst`); the effects are read off the outcome of the very instruction that is committed -/
def WState.stepE (w : WState) (op : WOp) : WState × List Eff :=
  let go (ai bi signer : Nat) (vaultAmount : Int) (run : Ctx → Res Out) (dust : Account.Slot → Int × Int)
      (eff : Ctx → AcctV → WBank → Out → Eff) : WState × List Eff :=
    match w.accts[ai]?, w.banks[bi]? with
    | some a, some b =>
      match run (w.ctx a b signer b.v.liquidityVault vaultAmount) with
      | .ok o => let d := dust (slotOf a b.v.key)
        (w.commit ai bi a b o.slots a.flags o.books b.v.opState o.window d.1 d.2, [eff (w.ctx a b signer b.v.liquidityVault vaultAmount) a b o])
      | .error _ => (w, [])
    | _, _ => (w, [])
  let acc (b : WBank) : Int := accrueAllowance b.v.books b.v.ir w.now
  match op with
  | .deposit ai bi signer amount upTo => go ai bi signer 0 (fun c => deposit c amount upTo) (fun _ => (0, 0))
      (fun c _ b o => ⟨b.v.key, received c.ixEnv o.tokens, acc b, 0⟩)
  | .withdraw ai bi signer amount all vault => go ai bi signer vault (fun c => withdraw c amount all) (fun s => (0, if all then s.l else 0))
      (fun _ _ b o => ⟨b.v.key, -o.tokens, acc b + (o.books.asv + o.books.lsv + 1), 0⟩)
  | .borrow ai bi signer amount => go ai bi signer 0 (fun c => borrow c amount) (fun _ => (0, 0))
      (fun _ _ b o => ⟨b.v.key, -o.tokens, acc b + (o.books.asv + o.books.lsv + 1), 0⟩)
  | .repay ai bi signer amount all => go ai bi signer 0 (fun c => repay c amount all) (fun s => (if all then s.a else 0, 0))
      (fun c a b o => ⟨b.v.key, received c.ixEnv o.tokens, acc b + (if all then ONE else 0),
        if tokenless c all then (slotOf a b.v.key).l * o.books.lsv + ONE * ONE else 0⟩)
  | .close ai bi signer => go ai bi signer 0 (fun c => closeBalance c) (fun s => (s.a, s.l))
      (fun _ _ b _ => ⟨b.v.key, 0, acc b, 0⟩)
  | .bankruptcy ai bi signer available =>
    match w.accts[ai]?, w.banks[bi]? with
    | some a, some b =>
      match bankruptcy (w.ctx a b signer b.v.liquidityVault 0) available with
      | .ok o => (w.commit ai bi a b o.slots o.flags o.books o.opState w.g.window 0 0,
          [⟨b.v.key, o.insuranceTokens, acc b, if o.opState = 3 then (slotOf a b.v.key).l * o.books.lsv else 0⟩])
      | .error _ => (w, [])
    | _, _ => (w, [])
  | .liquidate qi ei abi lbi signer amount =>
    if qi = ei ∨ abi = lbi then (w, []) else
    match w.accts[qi]?, w.accts[ei]?, w.banks[abi]?, w.banks[lbi]? with
    | some lq, some le, some ab, some lb =>
      match liquidate (w.liqCtx lq le ab lb signer) amount with
      | .ok o => (w.commit2 qi ei abi lbi lq le ab lb o,
          [⟨ab.v.key, 0, acc ab + (o.assetBooks.asv + o.assetBooks.lsv + 1), 0⟩,
           ⟨lb.v.key, -o.insuranceTokens, acc lb + (o.liabBooks.asv + o.liabBooks.lsv + 1), 0⟩])
      | .error _ => (w, [])
    | _, _, _, _ => (w, [])
  | .transfer ai signer newKey newAuth feeWalletOk => (w.step (.transfer ai signer newKey newAuth feeWalletOk), [])
  | .accrue bi =>
    match w.banks[bi]? with
    | some b =>
      match accrueIx (w.bctx b 0) with
      | .ok books => (w.commitB bi b books, [⟨b.v.key, 0, acc b, 0⟩])
      | .error _ => (w, [])
    | none => (w, [])
  | .collect bi feeAtaOk vault =>
    match w.banks[bi]? with
    | some b =>
      match collectFeesIx (w.bctx b vault) feeAtaOk with
      | .ok o => (w.commitB bi b o.books, [⟨b.v.key, -(o.toInsurance + o.toGroup + o.toProgram), 0, 0⟩])
      | .error _ => (w, [])
    | none => (w, [])
  | .tick dt => ({ w with now := w.now + dt }, [])

theorem stepE_fst (w : WState) (op : WOp) : (w.stepE op).1 = w.step op := by
  cases op <;> simp only [WState.stepE, WState.step] <;> repeat' split <;> first | rfl | simp_all

/-- instruction arguments are unsigned in the program -/
def WOp.Ok : WOp → Prop
  | .deposit _ _ _ amount _ => 0 ≤ amount
  | .withdraw _ _ _ amount _ _ => 0 ≤ amount
  | .borrow _ _ _ amount => 0 ≤ amount
  | .repay _ _ _ amount _ => 0 ≤ amount
  | .bankruptcy _ _ _ available => 0 ≤ available
  | _ => True

/-! ### the invariant -/

structure SInv (w : WState) : Prop where
  led : WInv w
  slots : ∀ (i : Nat) (a : AcctV), w.accts[i]? = some a → AllNN a.slots
  dust : ∀ k, 0 ≤ w.dustA k ∧ 0 ≤ w.dustL k
  banks : ∀ (j : Nat) (b : WBank), w.banks[j]? = some b → SvFee b.v.books ∧ CfgOk b.v w.g.progFeeRate ∧ (b.v.opState ≠ 3 → 0 < b.v.books.asv)

theorem posA_nonneg {k : Nat} {l : List Slot} (h : AllNN l) : 0 ≤ posA k l := by
  unfold posA
  apply List.sum_nonneg
  intro y hy
  obtain ⟨s, hs, rfl⟩ := List.mem_map.mp hy
  exact (h s (List.mem_filter.mp hs).1).1

theorem posL_nonneg {k : Nat} {l : List Slot} (h : AllNN l) : 0 ≤ posL k l := by
  unfold posL
  apply List.sum_nonneg
  intro y hy
  obtain ⟨s, hs, rfl⟩ := List.mem_map.mp hy
  exact (h s (List.mem_filter.mp hs).1).2

theorem totals_nonneg {w : WState} (hi : SInv w) {j : Nat} {b : WBank} (hb : w.banks[j]? = some b) :
    0 ≤ b.v.books.sa ∧ 0 ≤ b.v.books.sl := by
  have hA := hi.led.ledgerA j b hb
  have hL := hi.led.ledgerL j b hb
  have sA : 0 ≤ (w.accts.map fun a => posA b.v.key a.slots).sum := by
    apply List.sum_nonneg
    intro y hy
    obtain ⟨a, ha, rfl⟩ := List.mem_map.mp hy
    obtain ⟨i, hi'⟩ := List.getElem?_of_mem ha
    exact posA_nonneg (hi.slots i a hi')
  have sL : 0 ≤ (w.accts.map fun a => posL b.v.key a.slots).sum := by
    apply List.sum_nonneg
    intro y hy
    obtain ⟨a, ha, rfl⟩ := List.mem_map.mp hy
    obtain ⟨i, hi'⟩ := List.getElem?_of_mem ha
    exact posL_nonneg (hi.slots i a hi')
  have := hi.dust b.v.key
  omega

theorem pre_of_inv {w : WState} (hi : SInv w) {ai bi : Nat} {a : AcctV} {b : WBank} (ha : w.accts[ai]? = some a)
    (hb : w.banks[bi]? = some b) (signer vault : Nat) (va : Int) : Pre (w.ctx a b signer vault va) := by
  obtain ⟨hsv, hcfg, hlive⟩ := hi.banks bi b hb
  obtain ⟨h1, h2⟩ := totals_nonneg hi hb
  exact ⟨hsv, h1, h2, hcfg, hi.slots ai a ha, hlive⟩

theorem slotOf_nn {a : AcctV} (h : AllNN a.slots) (k : Nat) : 0 ≤ (slotOf a k).a ∧ 0 ≤ (slotOf a k).l := by
  unfold slotOf
  split
  · rename_i i _
    cases hs : a.slots[i]? with
    | none => simp [Account.emptySlot]
    | some s => simpa using AllNN_get h hs
  · simp [Account.emptySlot]

theorem bump_nonneg {f : Nat → Int} {k : Nat} {d : Int} (hf : ∀ j, 0 ≤ f j) (hd : 0 ≤ d) : ∀ j, 0 ≤ bump f k d j := by
  intro j; unfold bump; split
  · have := hf j; omega
  · exact hf j

theorem cfg_same {v v' : BankV} {r : Int} (h : CfgOk v r) (e1 : v'.ir = v.ir) (e2 : v'.tfBps = v.tfBps) (e3 : v'.tfMax = v.tfMax)
    (e4 : v'.origFee = v.origFee) : CfgOk v' r :=
  ⟨by rw [e1]; exact h.fees, by rw [e1]; exact h.base, by rw [e2, e3]; exact h.tf, by rw [e4]; exact h.orig, h.prog⟩

/-- committing an instruction's outcome keeps the invariant -/
theorem commit_sinv {w : WState} {ai bi : Nat} {a : AcctV} {b : WBank} {slots : List Slot} {flags : Nat} {books : Bank} {opState : Int}
    {window : Admin.Window} {dA dL : Int}
    (hi : SInv w) (ha : w.accts[ai]? = some a) (hb : w.banks[bi]? = some b)
    (hled : LedgerStepG b.v.key a.slots slots b.v.books books dA dL)
    (hslots : AllNN slots) (hd : 0 ≤ dA ∧ 0 ≤ dL) (hsv : SvFee books) (hlive : opState ≠ 3 → 0 < books.asv) :
    SInv (w.commit ai bi a b slots flags books opState window dA dL) := by
  refine ⟨commit_inv hi.led ha hb hled, ?_, ?_, ?_⟩
  · intro i x hx
    simp only [WState.commit] at hx
    rw [List.getElem?_set] at hx
    split at hx
    · split at hx
      · injection hx with hx; subst hx; exact hslots
      · cases hx
    · exact hi.slots i x hx
  · intro k
    simp only [WState.commit]
    exact ⟨bump_nonneg (fun j => (hi.dust j).1) hd.1 k, bump_nonneg (fun j => (hi.dust j).2) hd.2 k⟩
  · intro j x hx
    simp only [WState.commit] at hx ⊢
    rw [List.getElem?_set] at hx
    split at hx
    · split at hx
      · injection hx with hx; subst hx
        obtain ⟨_, hcfg, _⟩ := hi.banks bi b hb
        exact ⟨hsv, cfg_same hcfg rfl rfl rfl rfl, hlive⟩
      · cases hx
    · exact hi.banks j x hx

/-! ### the potential -/

/-- vault·2^96 − claims + allowance consumed + sanctioned write-offs, for one bank -/
def pot (g : Ghost) (b : WBank) : Int := slack (g.vault b.v.key) b.v.books + g.spent b.v.key + g.written b.v.key

theorem pot_add_other {g : Ghost} {e : Eff} {b : WBank} (h : b.v.key ≠ e.key) : pot (g.add e) b = pot g b := by
  unfold pot Ghost.add bump
  simp only [h, if_false]

theorem commit_pot {w : WState} {ai bi : Nat} {a : AcctV} {b : WBank} {slots : List Slot} {flags : Nat} {books : Bank} {opState : Int}
    {window : Admin.Window} {dA dL : Int} {g : Ghost} {inflow allow wo : Int}
    (hi : SInv w) (hb : w.banks[bi]? = some b)
    (hcl : claims books ≤ claims b.v.books + inflow * ONE * ONE + allow + wo) (hl : b.v.books.lsv ≤ books.lsv) :
    ∀ (j : Nat) (x x' : WBank), w.banks[j]? = some x → (w.commit ai bi a b slots flags books opState window dA dL).banks[j]? = some x' →
      pot g x ≤ pot (g.apply [⟨b.v.key, inflow, allow, wo⟩]) x' ∧ x.v.books.lsv ≤ x'.v.books.lsv := by
  intro j x x' hx hx'
  simp only [WState.commit] at hx'
  rw [List.getElem?_set] at hx'
  simp only [Ghost.apply, List.foldl_cons, List.foldl_nil]
  split at hx'
  · rename_i hj
    subst hj
    split at hx'
    · injection hx' with hx'; subst hx'
      rw [hb] at hx; injection hx with hx; subst hx
      refine ⟨?_, hl⟩
      unfold pot Ghost.add bump slack
      simp only [if_true]
      have e1 : (g.vault b.v.key + inflow) * ONE * ONE = g.vault b.v.key * ONE * ONE + inflow * ONE * ONE := by ring
      rw [e1]
      omega
    · cases hx'
  · rename_i hj
    rw [hx] at hx'; injection hx' with hx'; subst hx'
    have hne : x.v.key ≠ b.v.key := hi.led.keys j bi x b hx hb (fun e => hj e.symm)
    rw [pot_add_other hne]
    exact ⟨Int.le_refl _, Int.le_refl _⟩

theorem pot_step {g : Ghost} {e : Eff} {b b' : WBank} (hk : b'.v.key = b.v.key) (he : e.key = b.v.key)
    (hcl : claims b'.v.books ≤ claims b.v.books + e.inflow * ONE * ONE + e.allow + e.writeoff) : pot g b ≤ pot (g.add e) b' := by
  unfold pot Ghost.add bump slack
  simp only [hk, he, if_true]
  have e1 : (g.vault b.v.key + e.inflow) * ONE * ONE = g.vault b.v.key * ONE * ONE + e.inflow * ONE * ONE := by ring
  rw [e1]
  omega

/-! ### liquidation: two accounts, two banks -/

theorem commit2_getb {w : WState} {abi lbi : Nat} {ab lb : WBank} {o : LiqOutW} (hab : w.banks[abi]? = some ab) (hlb : w.banks[lbi]? = some lb) :
    ∀ j, ((w.banks.set abi { ab with v := { ab.v with books := o.assetBooks } }).set lbi { lb with v := { lb.v with books := o.liabBooks } })[j]? =
      if lbi = j then some { lb with v := { lb.v with books := o.liabBooks } }
      else if abi = j then some { ab with v := { ab.v with books := o.assetBooks } } else w.banks[j]? := by
  have lenA : abi < w.banks.length := by
    rcases Nat.lt_or_ge abi w.banks.length with h | h
    · exact h
    · rw [List.getElem?_eq_none h] at hab; cases hab
  have lenL : lbi < w.banks.length := by
    rcases Nat.lt_or_ge lbi w.banks.length with h | h
    · exact h
    · rw [List.getElem?_eq_none h] at hlb; cases hlb
  intro j
  rw [List.getElem?_set, List.getElem?_set]
  by_cases h1 : lbi = j
  · subst h1; simp [lenL]
  · by_cases h2 : abi = j
    · subst h2; simp [h1, lenA]
    · simp [h1, h2]

theorem commit2_sinv {w : WState} {qi ei abi lbi : Nat} {lq le : AcctV} {ab lb : WBank} {o : LiqOutW} {signer : Nat}
    (hi : SInv w) (hqe : qi ≠ ei) (hbl : abi ≠ lbi)
    (hq : w.accts[qi]? = some lq) (he : w.accts[ei]? = some le) (hab : w.banks[abi]? = some ab) (hlb : w.banks[lbi]? = some lb)
    (hs : LedgerStep2 (w.liqCtx lq le ab lb signer) o) (hv : Solv2 (w.liqCtx lq le ab lb signer) o) :
    SInv (w.commit2 qi ei abi lbi lq le ab lb o) := by
  refine ⟨commit2_inv hi.led hqe hbl hq he hab hlb hs, ?_, ?_, ?_⟩
  · intro i x hx
    simp only [WState.commit2] at hx
    rw [List.getElem?_set] at hx
    split at hx
    · split at hx
      · injection hx with hx; subst hx; exact hv.slotsE
      · cases hx
    · rw [List.getElem?_set] at hx
      split at hx
      · split at hx
        · injection hx with hx; subst hx; exact hv.slotsQ
        · cases hx
      · exact hi.slots i x hx
  · intro k; exact hi.dust k
  · intro j x hx
    simp only [WState.commit2] at hx ⊢
    rw [commit2_getb hab hlb] at hx
    by_cases h1 : lbi = j
    · simp only [h1, if_true] at hx
      injection hx with hx; subst hx
      obtain ⟨_, hcfg, hlive⟩ := hi.banks lbi lb hlb
      refine ⟨hv.svL, cfg_same hcfg rfl rfl rfl rfl, ?_⟩
      intro h3
      have := hlive h3
      have := hv.monoL.1
      simp only [WState.liqCtx] at this
      simp only
      omega
    · by_cases h2 : abi = j
      · simp only [h1, h2, if_true, if_false] at hx
        injection hx with hx; subst hx
        obtain ⟨_, hcfg, hlive⟩ := hi.banks abi ab hab
        refine ⟨hv.svA, cfg_same hcfg rfl rfl rfl rfl, ?_⟩
        intro h3
        have := hlive h3
        have := hv.monoA.1
        simp only [WState.liqCtx] at this
        simp only
        omega
      · simp only [h1, h2, if_false] at hx
        exact hi.banks j x hx

theorem pre2_of_inv {w : WState} (hi : SInv w) {qi ei abi lbi : Nat} {lq le : AcctV} {ab lb : WBank}
    (hq : w.accts[qi]? = some lq) (he : w.accts[ei]? = some le) (hab : w.banks[abi]? = some ab) (hlb : w.banks[lbi]? = some lb)
    (signer : Nat) : Pre2 (w.liqCtx lq le ab lb signer) := by
  obtain ⟨svA, cfgA, liveA⟩ := hi.banks abi ab hab
  obtain ⟨svL, cfgL, liveL⟩ := hi.banks lbi lb hlb
  obtain ⟨a1, a2⟩ := totals_nonneg hi hab
  obtain ⟨l1, l2⟩ := totals_nonneg hi hlb
  exact ⟨svA, a1, a2, cfgA, liveA, svL, l1, l2, cfgL, liveL, hi.slots qi lq hq, hi.slots ei le he⟩

/-! ### instructions on a bank alone (accrual crank, fee collection) -/

theorem commitB_getb {w : WState} {bi : Nat} {b : WBank} {books : Bank} (hb : w.banks[bi]? = some b) :
    ∀ j, (w.commitB bi b books).banks[j]? = if bi = j then some { b with v := { b.v with books := books } } else w.banks[j]? := by
  have hlen : bi < w.banks.length := by
    rcases Nat.lt_or_ge bi w.banks.length with h | h
    · exact h
    · rw [List.getElem?_eq_none h] at hb; cases hb
  intro j
  simp only [WState.commitB]
  rw [List.getElem?_set]
  by_cases hj : bi = j
  · subst hj; simp [hlen]
  · simp [hj]

theorem commitB_sinv {w : WState} {bi : Nat} {b : WBank} {books : Bank} (hi : SInv w) (hb : w.banks[bi]? = some b)
    (hsa : books.sa = b.v.books.sa) (hsl : books.sl = b.v.books.sl) (hsv : SvFee books) (hasv : b.v.books.asv ≤ books.asv) :
    SInv (w.commitB bi b books) := by
  refine ⟨commitB_inv hi.led hb hsa hsl, hi.slots, hi.dust, ?_⟩
  intro j x hx
  rw [commitB_getb hb] at hx
  by_cases h1 : bi = j
  · simp only [h1, if_true] at hx
    injection hx with hx; subst hx
    obtain ⟨_, hcfg, hlive⟩ := hi.banks bi b hb
    refine ⟨hsv, cfg_same hcfg rfl rfl rfl rfl, ?_⟩
    intro h3
    have := hlive h3
    simp only
    omega
  · simp only [h1, if_false] at hx
    exact hi.banks j x hx

theorem commitB_pot {w : WState} {bi : Nat} {b : WBank} {books : Bank} {g : Ghost} {inflow allow : Int}
    (hi : SInv w) (hb : w.banks[bi]? = some b)
    (hcl : claims books ≤ claims b.v.books + inflow * ONE * ONE + allow) (hl : b.v.books.lsv ≤ books.lsv) :
    ∀ (j : Nat) (x x' : WBank), w.banks[j]? = some x → (w.commitB bi b books).banks[j]? = some x' →
      pot g x ≤ pot (g.apply [⟨b.v.key, inflow, allow, 0⟩]) x' ∧ x.v.books.lsv ≤ x'.v.books.lsv := by
  intro j x x' hx hx'
  rw [commitB_getb hb] at hx'
  simp only [Ghost.apply, List.foldl_cons, List.foldl_nil]
  by_cases h1 : bi = j
  · simp only [h1, if_true] at hx'
    injection hx' with hx'; subst hx'
    subst h1
    rw [hb] at hx; injection hx with hx; subst hx
    refine ⟨pot_step (b := b) (e := ⟨b.v.key, inflow, allow, 0⟩) rfl rfl ?_, hl⟩
    simp only
    omega
  · simp only [h1, if_false] at hx'
    rw [hx] at hx'; injection hx' with hx'; subst hx'
    have hne : x.v.key ≠ b.v.key := hi.led.keys j bi x b hx hb (fun e => h1 e.symm)
    rw [pot_add_other hne]
    exact ⟨Int.le_refl _, Int.le_refl _⟩

/-! ### one step, every history -/

theorem same_pot {w : WState} {g : Ghost} : ∀ (j : Nat) (x x' : WBank), w.banks[j]? = some x → w.banks[j]? = some x' →
    pot g x ≤ pot (g.apply []) x' ∧ x.v.books.lsv ≤ x'.v.books.lsv := by
  intro j x x' hx hx'
  rw [hx] at hx'; injection hx' with hx'; subst hx'
  exact ⟨Int.le_refl _, Int.le_refl _⟩

/-- **one whole instruction**: the invariant is kept, no bank's potential falls, no bank's debt share value falls -/
theorem stepE_sound (w : WState) (g : Ghost) (op : WOp) (hi : SInv w) (hop : op.Ok) :
    SInv (w.stepE op).1 ∧ ∀ (j : Nat) (x x' : WBank), w.banks[j]? = some x → (w.stepE op).1.banks[j]? = some x' →
      pot g x ≤ pot (g.apply (w.stepE op).2) x' ∧ x.v.books.lsv ≤ x'.v.books.lsv := by
  cases op with
  | tick dt =>
    exact ⟨⟨⟨hi.led.keys, hi.led.ledgerA, hi.led.ledgerL⟩, hi.slots, hi.dust, hi.banks⟩, same_pot⟩
  | transfer ai signer newKey newAuth ok =>
    have hbanks : (w.step (.transfer ai signer newKey newAuth ok)).banks = w.banks ∧
        (w.step (.transfer ai signer newKey newAuth ok)).g = w.g ∧
        (w.step (.transfer ai signer newKey newAuth ok)).dustA = w.dustA ∧
        (w.step (.transfer ai signer newKey newAuth ok)).dustL = w.dustL := by
      simp only [WState.step]
      split
      · exact ⟨rfl, rfl, rfl, rfl⟩
      · split
        · split
          · exact ⟨rfl, rfl, rfl, rfl⟩
          · exact ⟨rfl, rfl, rfl, rfl⟩
        · exact ⟨rfl, rfl, rfl, rfl⟩
    have hslots : ∀ (i : Nat) (a : AcctV), (w.step (.transfer ai signer newKey newAuth ok)).accts[i]? = some a → AllNN a.slots := by
      simp only [WState.step]
      split
      · exact hi.slots
      · split
        · rename_i a ha
          split
          · rename_i o n ho
            obtain ⟨e1, e2, _, _⟩ := transferIx_ok ho
            intro i x hx
            have hm := List.mem_of_getElem? hx
            simp only at hm
            rcases List.mem_append.mp hm with hm | hm
            · rcases List.mem_or_eq_of_mem_set hm with hm | hm
              · obtain ⟨i', hi'⟩ := List.getElem?_of_mem hm
                exact hi.slots i' x hi'
              · rw [hm, e1]
                intro s hs
                have := List.eq_of_mem_replicate (show s ∈ List.replicate 16 Account.emptySlot from hs)
                rw [this]; exact ⟨Int.le_refl _, Int.le_refl _⟩
            · rw [List.mem_singleton] at hm
              rw [hm, e2]; exact hi.slots ai a ha
          · exact hi.slots
        · exact hi.slots
    simp only [WState.stepE]
    refine ⟨⟨step_inv w _ hi.led, hslots, ?_, ?_⟩, ?_⟩
    · intro k; rw [hbanks.2.2.1, hbanks.2.2.2]; exact hi.dust k
    · intro j b hb; rw [hbanks.1] at hb; rw [hbanks.2.1]; exact hi.banks j b hb
    · intro j x x' hx hx'
      rw [hbanks.1] at hx'
      exact same_pot j x x' hx hx'
  | accrue bi =>
    simp only [WState.stepE]
    split
    · rename_i b hb
      split
      · rename_i books ho
        have hacc := accrueIx_ok ho
        obtain ⟨hsv, hcfg, _⟩ := hi.banks bi b hb
        obtain ⟨h1, h2⟩ := totals_nonneg hi hb
        obtain ⟨hcl, hsv', m1, m2, e1, e2⟩ := accrue_solv hacc hsv h1 h2 hcfg.fees hcfg.base
        refine ⟨commitB_sinv hi hb e1 e2 hsv' m1, commitB_pot hi hb ?_ m2⟩
        have : claims books ≤ claims b.v.books + accrueAllowance b.v.books b.v.ir w.now := hcl
        omega
      · exact ⟨hi, same_pot⟩
    · exact ⟨hi, same_pot⟩
  | collect bi ok vault =>
    simp only [WState.stepE]
    split
    · rename_i b hb
      split
      · rename_i o ho
        obtain ⟨_, r, hr, hbk0, t1, t2, t3⟩ := collectFeesIx_ok ho
        have hbk : o.books = { b.v.books with feeI := r.feeI, feeG := r.feeG, feeP := r.feeP } := hbk0
        obtain ⟨hsv, _, _⟩ := hi.banks bi b hb
        have hr' : collectFees b.v.books.feeI b.v.books.feeG b.v.books.feeP vault = .ok r := hr
        obtain ⟨c1, c2, c3, c4, c5, c6, _, _, _, _⟩ := Mfi.Props.C19.collect_exact hr'
        have hONE := ONE_pos
        have hI : r.toInsurance * ONE ≤ b.v.books.feeI := by
          rw [c1]; exact Int.le_trans (Int.ediv_mul_le _ (by omega)) (Int.min_le_left _ _)
        have hG : r.toGroup * ONE ≤ b.v.books.feeG := by
          rw [c2]; exact Int.le_trans (Int.ediv_mul_le _ (by omega)) (Int.min_le_left _ _)
        have hP : r.toProgram * ONE ≤ b.v.books.feeP := by
          rw [c3]; exact Int.le_trans (Int.ediv_mul_le _ (by omega)) (Int.min_le_left _ _)
        have hsv' : SvFee o.books := by
          rw [hbk]
          exact ⟨hsv.asv, hsv.lsv, by simp only; omega, by simp only; omega, by simp only; omega⟩
        refine ⟨commitB_sinv hi hb (by rw [hbk]) (by rw [hbk]) hsv' (by rw [hbk]),
          commitB_pot hi hb ?_ (by rw [hbk])⟩
        rw [hbk, t1, t2, t3]
        unfold claims
        simp only
        rw [c4, c5, c6]
        have e : -(r.toInsurance + r.toGroup + r.toProgram) * ONE * ONE =
            -(r.toInsurance * ONE * ONE) - r.toGroup * ONE * ONE - r.toProgram * ONE * ONE := by ring
        have e2 : (b.v.books.feeI - r.toInsurance * ONE + (b.v.books.feeG - r.toGroup * ONE) + (b.v.books.feeP - r.toProgram * ONE)) * ONE =
            (b.v.books.feeI + b.v.books.feeG + b.v.books.feeP) * ONE - r.toInsurance * ONE * ONE - r.toGroup * ONE * ONE - r.toProgram * ONE * ONE := by ring
        rw [e, e2]
        omega
      · exact ⟨hi, same_pot⟩
    · exact ⟨hi, same_pot⟩
  | deposit ai bi signer amount upTo =>
    simp only [WState.stepE]
    split
    · rename_i a b ha hb
      split
      · rename_i o ho
        have hs := deposit_solv ho (pre_of_inv hi ha hb _ _ _) hop
        have hlive := (hi.banks bi b hb).2.2
        refine ⟨commit_sinv hi ha hb (deposit_ledger ho) hs.slots ⟨Int.le_refl _, Int.le_refl _⟩ hs.sv ?_, commit_pot hi hb ?_ ?_⟩
        · intro h3; have := hlive h3; have := hs.asvMono; simp only [WState.ctx] at this; omega
        · have := hs.claims; simp only [WState.ctx] at this ⊢; omega
        · have := hs.lsvMono; simp only [WState.ctx] at this; exact this
      · exact ⟨hi, same_pot⟩
    · exact ⟨hi, same_pot⟩
  | borrow ai bi signer amount =>
    simp only [WState.stepE]
    split
    · rename_i a b ha hb
      split
      · rename_i o ho
        have hs := borrow_solv ho (pre_of_inv hi ha hb _ _ _) hop
        have hlive := (hi.banks bi b hb).2.2
        refine ⟨commit_sinv hi ha hb (borrow_ledger ho) hs.slots ⟨Int.le_refl _, Int.le_refl _⟩ hs.sv ?_, commit_pot hi hb ?_ ?_⟩
        · intro h3; have := hlive h3; have := hs.asvMono; simp only [WState.ctx] at this; omega
        · have := hs.claims; simp only [WState.ctx] at this ⊢; omega
        · have := hs.lsvMono; simp only [WState.ctx] at this; exact this
      · exact ⟨hi, same_pot⟩
    · exact ⟨hi, same_pot⟩
  | withdraw ai bi signer amount all vault =>
    simp only [WState.stepE]
    split
    · rename_i a b ha hb
      split
      · rename_i o ho
        have hs := withdraw_solv ho (pre_of_inv hi ha hb _ _ _) hop
        have hlive := (hi.banks bi b hb).2.2
        have hnn := slotOf_nn (hi.slots ai a ha) b.v.key
        refine ⟨commit_sinv hi ha hb (withdraw_ledger ho) hs.slots ⟨Int.le_refl _, by split <;> omega⟩ hs.sv ?_, commit_pot hi hb ?_ ?_⟩
        · intro h3; have := hlive h3; have := hs.asvMono; simp only [WState.ctx] at this; omega
        · have := hs.claims; simp only [WState.ctx] at this ⊢; omega
        · have := hs.lsvMono; simp only [WState.ctx] at this; exact this
      · exact ⟨hi, same_pot⟩
    · exact ⟨hi, same_pot⟩
  | repay ai bi signer amount all =>
    simp only [WState.stepE]
    split
    · rename_i a b ha hb
      split
      · rename_i o ho
        have hs := repay_solv ho (pre_of_inv hi ha hb _ _ _) hop
        have hlive := (hi.banks bi b hb).2.2
        have hnn := slotOf_nn (hi.slots ai a ha) b.v.key
        refine ⟨commit_sinv hi ha hb (repay_ledger ho) hs.slots ⟨by split <;> omega, Int.le_refl _⟩ hs.sv ?_, commit_pot hi hb ?_ ?_⟩
        · intro h3; have := hlive h3; have := hs.asvMono; simp only [WState.ctx] at this; omega
        · have := hs.claims; simp only [WState.ctx] at this ⊢; omega
        · have := hs.lsvMono; simp only [WState.ctx] at this; exact this
      · exact ⟨hi, same_pot⟩
    · exact ⟨hi, same_pot⟩
  | close ai bi signer =>
    simp only [WState.stepE]
    split
    · rename_i a b ha hb
      split
      · rename_i o ho
        have hs := close_solv ho (pre_of_inv hi ha hb _ _ _)
        have hlive := (hi.banks bi b hb).2.2
        have hnn := slotOf_nn (hi.slots ai a ha) b.v.key
        refine ⟨commit_sinv hi ha hb (close_ledger ho) hs.slots hnn hs.sv ?_, commit_pot hi hb ?_ ?_⟩
        · intro h3; have := hlive h3; have := hs.asvMono; simp only [WState.ctx] at this; omega
        · have := hs.claims; simp only [WState.ctx] at this ⊢; omega
        · have := hs.lsvMono; simp only [WState.ctx] at this; exact this
      · exact ⟨hi, same_pot⟩
    · exact ⟨hi, same_pot⟩
  | bankruptcy ai bi signer available =>
    simp only [WState.stepE]
    split
    · rename_i a b ha hb
      split
      · rename_i o ho
        have hs := bankruptcy_solv ho (pre_of_inv hi ha hb _ _ _) hop
        refine ⟨commit_sinv hi ha hb (bankruptcy_ledger ho) hs.slots ⟨Int.le_refl _, Int.le_refl _⟩ hs.sv hs.live, commit_pot hi hb ?_ ?_⟩
        · have := hs.claims; simp only [WState.ctx] at this ⊢; omega
        · have := hs.lsvMono; simp only [WState.ctx] at this; exact this
      · exact ⟨hi, same_pot⟩
    · exact ⟨hi, same_pot⟩
  | liquidate qi ei abi lbi signer amount =>
    simp only [WState.stepE]
    split
    · exact ⟨hi, same_pot⟩
    · rename_i hne
      split
      · rename_i lq le ab lb hq he hab hlb
        split
        · rename_i o ho
          have hs := liquidate_solv ho (pre2_of_inv hi hq he hab hlb signer)
          have hl := liquidate_ledger ho
          refine ⟨commit2_sinv hi (by omega) (by omega) hq he hab hlb hl hs, ?_⟩
          intro j x x' hx hx'
          simp only [WState.commit2] at hx'
          rw [commit2_getb hab hlb] at hx'
          simp only [Ghost.apply, List.foldl_cons, List.foldl_nil]
          have hkeys : ab.v.key ≠ lb.v.key := hi.led.keys abi lbi ab lb hab hlb (by omega)
          by_cases h1 : lbi = j
          · simp only [h1, if_true] at hx'
            injection hx' with hx'; subst hx'
            subst h1
            rw [hlb] at hx; injection hx with hx; subst hx
            have e0 : pot (g.add ⟨ab.v.key, 0, accrueAllowance ab.v.books ab.v.ir w.now + (o.assetBooks.asv + o.assetBooks.lsv + 1), 0⟩) lb = pot g lb :=
              pot_add_other (fun e => hkeys e.symm)
            rw [← e0]
            refine ⟨?_, by have := hs.monoL.2; simp only [WState.liqCtx] at this; exact this⟩
            refine pot_step (b := lb) (e := ⟨lb.v.key, -o.insuranceTokens, accrueAllowance lb.v.books lb.v.ir w.now + (o.liabBooks.asv + o.liabBooks.lsv + 1), 0⟩) rfl rfl ?_
            have := hs.claimsL
            simp only [WState.liqCtx] at this ⊢
            have e : -o.insuranceTokens * ONE * ONE = -(o.insuranceTokens * ONE * ONE) := by ring
            omega
          · by_cases h2 : abi = j
            · simp only [h1, h2, if_true, if_false] at hx'
              injection hx' with hx'; subst hx'
              subst h2
              rw [hab] at hx; injection hx with hx; subst hx
              rw [pot_add_other (b := { ab with v := { ab.v with books := o.assetBooks } }) hkeys]
              refine ⟨?_, by have := hs.monoA.2; simp only [WState.liqCtx] at this; exact this⟩
              refine pot_step (b := ab) (e := ⟨ab.v.key, 0, accrueAllowance ab.v.books ab.v.ir w.now + (o.assetBooks.asv + o.assetBooks.lsv + 1), 0⟩) rfl rfl ?_
              have := hs.claimsA
              simp only [WState.liqCtx] at this ⊢
              omega
            · simp only [h1, h2, if_false] at hx'
              rw [hx] at hx'; injection hx' with hx'; subst hx'
              have hna : x.v.key ≠ ab.v.key := hi.led.keys j abi x ab hx hab (fun e => h2 e.symm)
              have hnl : x.v.key ≠ lb.v.key := hi.led.keys j lbi x lb hx hlb (fun e => h1 e.symm)
              rw [pot_add_other hnl, pot_add_other hna]
              exact ⟨Int.le_refl _, Int.le_refl _⟩
        · exact ⟨hi, same_pot⟩
      · exact ⟨hi, same_pot⟩

/-- the ghost ledgers along a history -/
def WState.runE (w : WState) (g : Ghost) : List WOp → WState × Ghost
  | [] => (w, g)
  | op :: rest => WState.runE (w.stepE op).1 (g.apply (w.stepE op).2) rest

theorem runE_fst (ops : List WOp) : ∀ (w : WState) (g : Ghost), (w.runE g ops).1 = w.run ops := by
  induction ops with
  | nil => intro w g; rfl
  | cons op rest ih =>
    intro w g
    simp only [WState.runE, WState.run, List.foldl_cons]
    rw [ih, stepE_fst]
    rfl

/-- what no instruction of the machine changes about a bank: its key, group, vault, rate configuration, fee and transfer-fee
    parameters, risk parameters and oracle; its operational state stays as it is or becomes KilledByBankruptcy -/
def SameCfg (x x' : WBank) : Prop :=
  x'.v.key = x.v.key ∧ x'.v.group = x.v.group ∧ x'.v.liquidityVault = x.v.liquidityVault ∧ x'.v.ir = x.v.ir ∧
  x'.v.origFee = x.v.origFee ∧ x'.v.tfBps = x.v.tfBps ∧ x'.v.tfMax = x.v.tfMax ∧ x'.v.weightInitZero = x.v.weightInitZero ∧
  x'.risk = x.risk ∧ x'.feed = x.feed ∧ (x'.v.opState = x.v.opState ∨ x'.v.opState = 3)

theorem sameCfg_refl (x : WBank) : SameCfg x x := ⟨rfl, rfl, rfl, rfl, rfl, rfl, rfl, rfl, rfl, rfl, Or.inl rfl⟩

theorem step_bank_frame (w : WState) (op : WOp) (j : Nat) (x : WBank) (hx : w.banks[j]? = some x) :
    ∃ x', (w.step op).banks[j]? = some x' ∧ SameCfg x x' := by
  have hlen : j < w.banks.length := by
    rcases Nat.lt_or_ge j w.banks.length with h | h
    · exact h
    · rw [List.getElem?_eq_none h] at hx; cases hx
  have one : ∀ (bi : Nat) (b b' : WBank), w.banks[bi]? = some b → SameCfg b b' →
      ∃ x', (w.banks.set bi b')[j]? = some x' ∧ SameCfg x x' := by
    intro bi b b' hb hk
    rw [List.getElem?_set]
    by_cases h : bi = j
    · subst h
      rw [hb] at hx; injection hx with hx; subst hx
      simp only [if_true, hlen]
      exact ⟨b', rfl, hk⟩
    · simp only [h, if_false]; exact ⟨x, hx, sameCfg_refl x⟩
  cases op with
  | tick dt => exact ⟨x, hx, sameCfg_refl x⟩
  | transfer ai signer newKey newAuth ok =>
    simp only [WState.step]
    split
    · exact ⟨x, hx, sameCfg_refl x⟩
    · split
      · split
        · exact ⟨x, hx, sameCfg_refl x⟩
        · exact ⟨x, hx, sameCfg_refl x⟩
      · exact ⟨x, hx, sameCfg_refl x⟩
  | accrue bi =>
    simp only [WState.step]
    split
    · rename_i b hb
      split
      · exact one bi b _ hb ⟨rfl, rfl, rfl, rfl, rfl, rfl, rfl, rfl, rfl, rfl, Or.inl rfl⟩
      · exact ⟨x, hx, sameCfg_refl x⟩
    · exact ⟨x, hx, sameCfg_refl x⟩
  | collect bi ok vault =>
    simp only [WState.step]
    split
    · rename_i b hb
      split
      · exact one bi b _ hb ⟨rfl, rfl, rfl, rfl, rfl, rfl, rfl, rfl, rfl, rfl, Or.inl rfl⟩
      · exact ⟨x, hx, sameCfg_refl x⟩
    · exact ⟨x, hx, sameCfg_refl x⟩
  | deposit ai bi signer amount upTo =>
    simp only [WState.step]
    split
    · rename_i a b ha hb
      split
      · exact one bi b _ hb ⟨rfl, rfl, rfl, rfl, rfl, rfl, rfl, rfl, rfl, rfl, Or.inl rfl⟩
      · exact ⟨x, hx, sameCfg_refl x⟩
    · exact ⟨x, hx, sameCfg_refl x⟩
  | borrow ai bi signer amount =>
    simp only [WState.step]
    split
    · rename_i a b ha hb
      split
      · exact one bi b _ hb ⟨rfl, rfl, rfl, rfl, rfl, rfl, rfl, rfl, rfl, rfl, Or.inl rfl⟩
      · exact ⟨x, hx, sameCfg_refl x⟩
    · exact ⟨x, hx, sameCfg_refl x⟩
  | withdraw ai bi signer amount all vault =>
    simp only [WState.step]
    split
    · rename_i a b ha hb
      split
      · exact one bi b _ hb ⟨rfl, rfl, rfl, rfl, rfl, rfl, rfl, rfl, rfl, rfl, Or.inl rfl⟩
      · exact ⟨x, hx, sameCfg_refl x⟩
    · exact ⟨x, hx, sameCfg_refl x⟩
  | repay ai bi signer amount all =>
    simp only [WState.step]
    split
    · rename_i a b ha hb
      split
      · exact one bi b _ hb ⟨rfl, rfl, rfl, rfl, rfl, rfl, rfl, rfl, rfl, rfl, Or.inl rfl⟩
      · exact ⟨x, hx, sameCfg_refl x⟩
    · exact ⟨x, hx, sameCfg_refl x⟩
  | close ai bi signer =>
    simp only [WState.step]
    split
    · rename_i a b ha hb
      split
      · exact one bi b _ hb ⟨rfl, rfl, rfl, rfl, rfl, rfl, rfl, rfl, rfl, rfl, Or.inl rfl⟩
      · exact ⟨x, hx, sameCfg_refl x⟩
    · exact ⟨x, hx, sameCfg_refl x⟩
  | bankruptcy ai bi signer available =>
    simp only [WState.step]
    split
    · rename_i a b ha hb
      split
      · rename_i o ho
        obtain ⟨_, _, _, _, st, _, _, _, _, _, _, _, hop⟩ := bankruptcy_core2 ho
        refine one bi b _ hb ⟨rfl, rfl, rfl, rfl, rfl, rfl, rfl, rfl, rfl, rfl, ?_⟩
        simp only
        rw [hop]
        cases st.kill
        · left; rfl
        · right; rfl
      · exact ⟨x, hx, sameCfg_refl x⟩
    · exact ⟨x, hx, sameCfg_refl x⟩
  | liquidate qi ei abi lbi signer amount =>
    simp only [WState.step]
    split
    · exact ⟨x, hx, sameCfg_refl x⟩
    · split
      · rename_i lq le ab lb hq he hab hlb
        split
        · rename_i o ho
          simp only [WState.commit2]
          rw [commit2_getb hab hlb]
          by_cases h1 : lbi = j
          · subst h1; rw [hlb] at hx; injection hx with hx; subst hx
            simp only [if_true]; exact ⟨_, rfl, ⟨rfl, rfl, rfl, rfl, rfl, rfl, rfl, rfl, rfl, rfl, Or.inl rfl⟩⟩
          · by_cases h2 : abi = j
            · subst h2; rw [hab] at hx; injection hx with hx; subst hx
              simp only [h1, if_true, if_false]; exact ⟨_, rfl, ⟨rfl, rfl, rfl, rfl, rfl, rfl, rfl, rfl, rfl, rfl, Or.inl rfl⟩⟩
            · simp only [h1, h2, if_false]; exact ⟨x, hx, sameCfg_refl x⟩
        · exact ⟨x, hx, sameCfg_refl x⟩
      · exact ⟨x, hx, sameCfg_refl x⟩

/-- the banks of the world keep their places and their keys -/
theorem stepE_bank (w : WState) (op : WOp) (j : Nat) (x : WBank) (hx : w.banks[j]? = some x) :
    ∃ x', (w.stepE op).1.banks[j]? = some x' ∧ x'.v.key = x.v.key := by
  rw [stepE_fst]
  obtain ⟨x', hx', h⟩ := step_bank_frame w op j x hx
  exact ⟨x', hx', h.1⟩

/-- **every history**: the invariant holds throughout, every bank keeps its place, and its potential at the end is at least
    its potential at the start -/
theorem runE_sound (ops : List WOp) : ∀ (w : WState) (g : Ghost), SInv w → (∀ op ∈ ops, op.Ok) →
    SInv (w.runE g ops).1 ∧ ∀ (j : Nat) (x : WBank), w.banks[j]? = some x →
      ∃ x', (w.runE g ops).1.banks[j]? = some x' ∧ x'.v.key = x.v.key ∧ pot g x ≤ pot (w.runE g ops).2 x' ∧
        x.v.books.lsv ≤ x'.v.books.lsv := by
  induction ops with
  | nil => intro w g hi _; exact ⟨hi, fun j x hx => ⟨x, hx, rfl, Int.le_refl _, Int.le_refl _⟩⟩
  | cons op rest ih =>
    intro w g hi hok
    simp only [WState.runE]
    obtain ⟨h1, h2⟩ := stepE_sound w g op hi (hok op (List.mem_cons_self ..))
    obtain ⟨h3, h4⟩ := ih (w.stepE op).1 (g.apply (w.stepE op).2) h1 (fun q hq => hok q (List.mem_cons_of_mem _ hq))
    refine ⟨h3, ?_⟩
    intro j x hx
    obtain ⟨x1, hx1, hk1⟩ := stepE_bank w op j x hx
    obtain ⟨x2, hx2, hk2, hp2, hl2⟩ := h4 j x1 hx1
    exact ⟨x2, hx2, by rw [hk2, hk1], Int.le_trans (h2 j x x1 hx hx1).1 hp2, Int.le_trans (h2 j x x1 hx hx1).2 hl2⟩

end Mfi.World
