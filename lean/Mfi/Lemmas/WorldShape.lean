import Mfi.Lemmas.WorldLedger
namespace Mfi.World
open Mfi Mfi.Gen Mfi.Account Mfi.Bank

/-! ### the shape of a slot array -/

/-- the bank keys of the active slots, in slot order -/
def keys (l : List Slot) : List Nat := (l.filter (·.active)).map (·.bank)

/-- 16 slots, at most one active slot per bank, bank keys non-increasing along the array -/
structure Shape (l : List Slot) : Prop where
  len : l.length = 16
  nodup : (keys l).Nodup
  sorted : l.Pairwise (fun x y => x.bank ≥ y.bank)

theorem keys_cons (s : Slot) (l : List Slot) : keys (s :: l) = if s.active then s.bank :: keys l else keys l := by
  unfold keys
  by_cases h : s.active = true <;> simp [List.filter_cons, h]

/-- rewriting an active slot in place with the same bank keeps the key list -/
theorem keys_set_same : ∀ (l : List Slot) (i : Nat) (s s' : Slot), l[i]? = some s → s.active = true → s'.active = true →
    s'.bank = s.bank → keys (l.set i s') = keys l
  | [], i, s, s', h, _, _, _ => by simp at h
  | x :: l, 0, s, s', h, ha, ha', hb => by
    simp only [List.getElem?_cons_zero, Option.some.injEq] at h
    subst h
    simp [List.set_cons_zero, keys_cons, ha, ha', hb]
  | x :: l, i + 1, s, s', h, ha, ha', hb => by
    simp only [List.getElem?_cons_succ] at h
    simp only [List.set_cons_succ, keys_cons, keys_set_same l i s s' h ha ha' hb]

/-- closing a slot removes (at most) its key -/
theorem keys_set_closed : ∀ (l : List Slot) (i : Nat) (s' : Slot), s'.active = false → (keys (l.set i s')).Sublist (keys l)
  | [], i, s', _ => by simp [keys]
  | x :: l, 0, s', ha' => by
    simp only [List.set_cons_zero, keys_cons, ha', Bool.false_eq_true, if_false]
    by_cases hx : x.active = true
    · simp only [hx, if_true]; exact List.sublist_cons_self _ _
    · simp only [hx, if_false]; exact List.Sublist.refl _
  | x :: l, i + 1, s', ha' => by
    simp only [List.set_cons_succ, keys_cons]
    by_cases hx : x.active = true
    · simp only [hx, if_true]; exact (keys_set_closed l i s' ha').cons₂ _
    · simp only [hx, if_false]; exact keys_set_closed l i s' ha'

/-- opening an empty slot adds exactly its key -/
theorem keys_set_opened : ∀ (l : List Slot) (i : Nat) (s s' : Slot), l[i]? = some s → s.active = false → s'.active = true →
    (keys (l.set i s')).Perm (s'.bank :: keys l)
  | [], i, s, s', h, _, _ => by simp at h
  | x :: l, 0, s, s', h, ha, ha' => by
    simp only [List.getElem?_cons_zero, Option.some.injEq] at h
    subst h
    simp [List.set_cons_zero, keys_cons, ha, ha']
  | x :: l, i + 1, s, s', h, ha, ha' => by
    simp only [List.getElem?_cons_succ] at h
    have ih := keys_set_opened l i s s' h ha ha'
    simp only [List.set_cons_succ, keys_cons]
    by_cases hx : x.active = true
    · simp only [hx, if_true]
      exact (ih.cons x.bank).trans (List.Perm.swap _ _ _)
    · simp only [hx, if_false]; exact ih

theorem keys_sort (l : List Slot) : (keys (sortBalances l)).Perm (keys l) :=
  ((List.mergeSort_perm l _).filter _).map _

theorem sort_pairwise (l : List Slot) : (sortBalances l).Pairwise (fun x y => x.bank ≥ y.bank) := by
  have le_trans' : ∀ (a b c : Slot), decide (a.bank ≥ b.bank) = true → decide (b.bank ≥ c.bank) = true →
      decide (a.bank ≥ c.bank) = true := by
    intro a b c h1 h2; simp only [decide_eq_true_eq] at *; omega
  have le_total' : ∀ (a b : Slot), (decide (a.bank ≥ b.bank) || decide (b.bank ≥ a.bank)) = true := by
    intro a b; simp only [Bool.or_eq_true, decide_eq_true_eq]; omega
  have := List.pairwise_mergeSort le_trans' le_total' l
  unfold sortBalances
  exact this.imp (by intro a b h; simpa using h)

/-- the write-back of a rewritten or closed slot keeps the shape -/
theorem writeSlot_shape {c : Ctx} {l : List Slot} {i : Nat} {s : Slot} {x' : Balance} (hl : l.length = 16) (hn : (keys l).Nodup)
    (hs : l[i]? = some s) (ha : s.active = true) (hb : s.bank = c.b.key) : Shape (writeSlot c l i x') := by
  unfold writeSlot
  refine ⟨by simp [sortBalances, List.length_mergeSort, hl], ?_, sort_pairwise _⟩
  refine (keys_sort _).nodup_iff.2 ?_
  by_cases hx : x'.active = true
  · rw [keys_set_same l i s _ hs ha (by simp [ofBal, hx]) (by simp [ofBal, hx, hb])]; exact hn
  · exact hn.sublist (keys_set_closed l i _ (by simp [ofBal, hx]))

/-- `find_or_create` keeps the length and the one-slot-per-bank rule -/
theorem findOrCreate_keys {l l' : List Slot} {bank : Nat} {tag now : Int} {i : Nat}
    (h : findOrCreate l bank tag now = .ok (l', i)) (hn : (keys l).Nodup) : l'.length = l.length ∧ (keys l').Nodup := by
  unfold findOrCreate at h
  split at h
  · injection h with h; injection h with h1 _; subst h1; exact ⟨rfl, hn⟩
  · rename_i hnone
    split at h
    · cases h
    · split at h
      · cases h
      · rename_i j hj
        injection h with h; injection h with h1 _; subst h1
        refine ⟨by simp, ?_⟩
        unfold firstEmpty at hj
        rw [List.findIdx?_eq_some_iff_getElem] at hj
        obtain ⟨hk, hp, _⟩ := hj
        have hina : l[j].active = false := by simpa using hp
        have hget : l[j]? = some l[j] := by simp [hk]
        refine (keys_set_opened l j _ _ hget hina rfl).nodup_iff.2 ?_
        refine List.nodup_cons.2 ⟨?_, hn⟩
        intro hmem
        unfold keys at hmem
        simp only [List.mem_map, List.mem_filter] at hmem
        obtain ⟨x, ⟨hx, hxa⟩, hxb⟩ := hmem
        unfold findIdx at hnone
        rw [List.findIdx?_eq_none_iff] at hnone
        have := hnone x hx
        simp [hxa, hxb] at this

end Mfi.World

namespace Mfi.World
open Mfi Mfi.Gen Mfi.Account Mfi.Bank

theorem borrow_shape {c : Ctx} {amt : Int} {o : Out} (h : borrow c amt = .ok o) (hs : Shape c.a.slots) : Shape o.slots := by
  obtain ⟨b, slots, i, s, x', _, _, _, hfc, hsl, _, ho⟩ := (borrow_ok h).core
  obtain ⟨hl, hn⟩ := findOrCreate_keys hfc hs.nodup
  obtain ⟨_, s', hs', hact, hbank⟩ := findOrCreate_pos hfc
  have : s' = s := by rw [hsl] at hs'; injection hs' with hs'; exact hs'.symm
  subst this
  rw [ho]
  exact writeSlot_shape (by rw [hl, hs.len]) hn hsl hact hbank

theorem deposit_shape {c : Ctx} {amt : Int} {up : Bool} {o : Out} (h : deposit c amt up = .ok o) (hs : Shape c.a.slots) :
    Shape o.slots := by
  obtain ⟨b, a, _, _, hcore⟩ := (deposit_ok h).core
  split at hcore
  · rw [hcore.1]; exact hs
  · obtain ⟨slots, i, s, x', hfc, hsl, _, ho⟩ := hcore
    obtain ⟨hl, hn⟩ := findOrCreate_keys hfc hs.nodup
    obtain ⟨_, s', hs', hact, hbank⟩ := findOrCreate_pos hfc
    have : s' = s := by rw [hsl] at hs'; injection hs' with hs'; exact hs'.symm
    subst this
    rw [ho]
    exact writeSlot_shape (by rw [hl, hs.len]) hn hsl hact hbank

theorem withdraw_shape {c : Ctx} {amt : Int} {all : Bool} {o : Out} (h : withdraw c amt all = .ok o) (hs : Shape c.a.slots) :
    Shape o.slots := by
  obtain ⟨_, _, i, s, x', _, _, _, hfs, _, _, _, ho⟩ := (withdraw_ok h).core
  obtain ⟨hsl, hact, hbank⟩ := findSlot_ok hfs
  rw [ho]
  exact writeSlot_shape hs.len hs.nodup hsl hact hbank

theorem repay_shape {c : Ctx} {amt : Int} {all : Bool} {o : Out} (h : repay c amt all = .ok o) (hs : Shape c.a.slots) :
    Shape o.slots := by
  obtain ⟨_, i, s, _, x', _, _, hfs, _, _, _, ho⟩ := (repay_ok h).core
  obtain ⟨hsl, hact, hbank⟩ := findSlot_ok hfs
  rw [ho]
  exact writeSlot_shape hs.len hs.nodup hsl hact hbank

theorem close_shape {c : Ctx} {o : Out} (h : closeBalance c = .ok o) (hs : Shape c.a.slots) : Shape o.slots := by
  obtain ⟨_, i, s, x', _, hfs, _, ho⟩ := (close_ok h).core
  obtain ⟨hsl, hact, hbank⟩ := findSlot_ok hfs
  rw [ho]
  exact writeSlot_shape hs.len hs.nodup hsl hact hbank

/-- every account of the world has a well-shaped slot array -/
def WShape (w : WState) : Prop := ∀ a ∈ w.accts, Shape a.slots

theorem commit_shape {w : WState} {ai bi : Nat} {a : AcctV} {b : WBank} {o : Out} {dA dL : Int}
    (hw : WShape w) (ho : Shape o.slots) : WShape (w.commit ai bi a b o dA dL) := by
  intro x hx
  simp only [WState.commit] at hx
  rcases List.mem_or_eq_of_mem_set hx with hx | hx
  · exact hw x hx
  · rw [hx]; exact ho

theorem step_shape (w : WState) (op : WOp) (hw : WShape w) : WShape (w.step op) := by
  cases op with
  | tick dt => exact hw
  | deposit ai bi signer amount upTo =>
    simp only [WState.step]
    split
    · rename_i a b ha hb
      split
      · rename_i o ho
        exact commit_shape hw (deposit_shape ho (hw a (List.mem_of_getElem? ha)))
      · exact hw
    · exact hw
  | borrow ai bi signer amount =>
    simp only [WState.step]
    split
    · rename_i a b ha hb
      split
      · rename_i o ho
        exact commit_shape hw (borrow_shape ho (hw a (List.mem_of_getElem? ha)))
      · exact hw
    · exact hw
  | withdraw ai bi signer amount all vault =>
    simp only [WState.step]
    split
    · rename_i a b ha hb
      split
      · rename_i o ho
        exact commit_shape hw (withdraw_shape ho (hw a (List.mem_of_getElem? ha)))
      · exact hw
    · exact hw
  | repay ai bi signer amount all =>
    simp only [WState.step]
    split
    · rename_i a b ha hb
      split
      · rename_i o ho
        exact commit_shape hw (repay_shape ho (hw a (List.mem_of_getElem? ha)))
      · exact hw
    · exact hw
  | close ai bi signer =>
    simp only [WState.step]
    split
    · rename_i a b ha hb
      split
      · rename_i o ho
        exact commit_shape hw (close_shape ho (hw a (List.mem_of_getElem? ha)))
      · exact hw
    · exact hw

theorem run_shape (ops : List WOp) : ∀ (w : WState), WShape w → WShape (w.run ops) := by
  induction ops with
  | nil => intro w h; exact h
  | cons op rest ih => intro w h; exact ih _ (step_shape w op h)

end Mfi.World
