import Mfi.Lemmas.WorldLedger
namespace Mfi.World
open Mfi Mfi.Gen Mfi.Account Mfi.Bank

/-! ### the shape of a slot array -/

/-- the bank keys of the active slots, in slot order -/
def keys (l : List Slot) : List Nat := (l.filter (·.active)).map (·.bank)

/-- 16 slots, at most one active slot per bank, bank keys non-increasing along the array -/
structure Shape (l : List Slot) : Prop where
  len : l.length = 16
  nodup : (keys l).Nodup
  sorted : l.Pairwise (fun x y => x.bank ≥ y.bank)

theorem keys_cons (s : Slot) (l : List Slot) : keys (s :: l) = if s.active then s.bank :: keys l else keys l := by
  unfold keys
  by_cases h : s.active = true <;> simp [List.filter_cons, h]

/-- rewriting an active slot in place with the same bank keeps the key list -/
theorem keys_set_same : ∀ (l : List Slot) (i : Nat) (s s' : Slot), l[i]? = some s → s.active = true → s'.active = true →
    s'.bank = s.bank → keys (l.set i s') = keys l
  | [], i, s, s', h, _, _, _ => by simp at h
  | x :: l, 0, s, s', h, ha, ha', hb => by
    simp only [List.getElem?_cons_zero, Option.some.injEq] at h
    subst h
    simp [List.set_cons_zero, keys_cons, ha, ha', hb]
  | x :: l, i + 1, s, s', h, ha, ha', hb => by
    simp only [List.getElem?_cons_succ] at h
    simp only [List.set_cons_succ, keys_cons, keys_set_same l i s s' h ha ha' hb]

/-- closing a slot removes (at most) its key -/
theorem keys_set_closed : ∀ (l : List Slot) (i : Nat) (s' : Slot), s'.active = false → (keys (l.set i s')).Sublist (keys l)
  | [], i, s', _ => by simp [keys]
  | x :: l, 0, s', ha' => by
    simp only [List.set_cons_zero, keys_cons, ha', Bool.false_eq_true, if_false]
    by_cases hx : x.active = true
    · simp only [hx, if_true]; exact List.sublist_cons_self _ _
    · simp only [hx, if_false]; exact List.Sublist.refl _
  | x :: l, i + 1, s', ha' => by
    simp only [List.set_cons_succ, keys_cons]
    by_cases hx : x.active = true
    · simp only [hx, if_true]; exact (keys_set_closed l i s' ha').cons₂ _
    · simp only [hx, if_false]; exact keys_set_closed l i s' ha'

/-- opening an empty slot adds exactly its key -/
theorem keys_set_opened : ∀ (l : List Slot) (i : Nat) (s s' : Slot), l[i]? = some s → s.active = false → s'.active = true →
    (keys (l.set i s')).Perm (s'.bank :: keys l)
  | [], i, s, s', h, _, _ => by simp at h
  | x :: l, 0, s, s', h, ha, ha' => by
    simp only [List.getElem?_cons_zero, Option.some.injEq] at h
    subst h
    simp [List.set_cons_zero, keys_cons, ha, ha']
  | x :: l, i + 1, s, s', h, ha, ha' => by
    simp only [List.getElem?_cons_succ] at h
    have ih := keys_set_opened l i s s' h ha ha'
    simp only [List.set_cons_succ, keys_cons]
    by_cases hx : x.active = true
    · simp only [hx, if_true]
      exact (ih.cons x.bank).trans (List.Perm.swap _ _ _)
    · simp only [hx, if_false]; exact ih

theorem keys_sort (l : List Slot) : (keys (sortBalances l)).Perm (keys l) :=
  ((List.mergeSort_perm l _).filter _).map _

theorem sort_pairwise (l : List Slot) : (sortBalances l).Pairwise (fun x y => x.bank ≥ y.bank) := by
  have le_trans' : ∀ (a b c : Slot), decide (a.bank ≥ b.bank) = true → decide (b.bank ≥ c.bank) = true →
      decide (a.bank ≥ c.bank) = true := by
    intro a b c h1 h2; simp only [decide_eq_true_eq] at *; omega
  have le_total' : ∀ (a b : Slot), (decide (a.bank ≥ b.bank) || decide (b.bank ≥ a.bank)) = true := by
    intro a b; simp only [Bool.or_eq_true, decide_eq_true_eq]; omega
  have := List.pairwise_mergeSort le_trans' le_total' l
  unfold sortBalances
  exact this.imp (by intro a b h; simpa using h)

theorem map_bank_set_same : ∀ (l : List Slot) (i : Nat) (s s' : Slot), l[i]? = some s → s'.bank = s.bank →
    (l.set i s').map (·.bank) = l.map (·.bank)
  | [], i, s, s', h, _ => by simp at h
  | x :: l, 0, s, s', h, hb => by
    simp only [List.getElem?_cons_zero, Option.some.injEq] at h
    subst h
    simp [List.set_cons_zero, hb]
  | x :: l, i + 1, s, s', h, hb => by
    simp only [List.getElem?_cons_succ] at h
    simp only [List.set_cons_succ, List.map_cons, map_bank_set_same l i s s' h hb]

/-- rewriting a slot in place with the same bank key keeps the array sorted -/
theorem pairwise_set_same {l : List Slot} {i : Nat} {s s' : Slot} (hp : l.Pairwise (fun x y => x.bank ≥ y.bank))
    (hs : l[i]? = some s) (hb : s'.bank = s.bank) : (l.set i s').Pairwise (fun x y => x.bank ≥ y.bank) := by
  have h1 : (l.map (·.bank)).Pairwise (fun a b => a ≥ b) := List.pairwise_map.2 hp
  rw [← map_bank_set_same l i s s' hs hb] at h1
  exact List.pairwise_map.1 h1

/-- sort ∘ set of a rewritten or closed slot keeps the shape (any bank key) -/
theorem sortset_shape {key : Nat} {l : List Slot} {i : Nat} {s : Slot} {x' : Balance} (hl : l.length = 16) (hn : (keys l).Nodup)
    (hs : l[i]? = some s) (ha : s.active = true) (hb : s.bank = key) : Shape (sortBalances (l.set i (ofBal key x'))) := by
  refine ⟨by simp [sortBalances, List.length_mergeSort, hl], ?_, sort_pairwise _⟩
  refine (keys_sort _).nodup_iff.2 ?_
  by_cases hx : x'.active = true
  · rw [keys_set_same l i s _ hs ha (by simp [ofBal, hx]) (by simp [ofBal, hx, hb])]; exact hn
  · exact hn.sublist (keys_set_closed l i _ (by simp [ofBal, hx]))

/-- the write-back of a rewritten or closed slot keeps the shape -/
theorem writeSlot_shape {c : Ctx} {l : List Slot} {i : Nat} {s : Slot} {x' : Balance} (hl : l.length = 16) (hn : (keys l).Nodup)
    (hs : l[i]? = some s) (ha : s.active = true) (hb : s.bank = c.b.key) : Shape (writeSlot c l i x') := by
  unfold writeSlot
  refine ⟨by simp [sortBalances, List.length_mergeSort, hl], ?_, sort_pairwise _⟩
  refine (keys_sort _).nodup_iff.2 ?_
  by_cases hx : x'.active = true
  · rw [keys_set_same l i s _ hs ha (by simp [ofBal, hx]) (by simp [ofBal, hx, hb])]; exact hn
  · exact hn.sublist (keys_set_closed l i _ (by simp [ofBal, hx]))

/-- `find_or_create` keeps the length and the one-slot-per-bank rule -/
theorem findOrCreate_keys {l l' : List Slot} {bank : Nat} {tag now : Int} {i : Nat}
    (h : findOrCreate l bank tag now = .ok (l', i)) (hn : (keys l).Nodup) : l'.length = l.length ∧ (keys l').Nodup := by
  unfold findOrCreate at h
  split at h
  · injection h with h; injection h with h1 _; subst h1; exact ⟨rfl, hn⟩
  · rename_i hnone
    split at h
    · cases h
    · split at h
      · cases h
      · rename_i j hj
        injection h with h; injection h with h1 _; subst h1
        refine ⟨by simp, ?_⟩
        unfold firstEmpty at hj
        rw [List.findIdx?_eq_some_iff_getElem] at hj
        obtain ⟨hk, hp, _⟩ := hj
        have hina : l[j].active = false := by simpa using hp
        have hget : l[j]? = some l[j] := by simp [hk]
        refine (keys_set_opened l j _ _ hget hina rfl).nodup_iff.2 ?_
        refine List.nodup_cons.2 ⟨?_, hn⟩
        intro hmem
        unfold keys at hmem
        simp only [List.mem_map, List.mem_filter] at hmem
        obtain ⟨x, ⟨hx, hxa⟩, hxb⟩ := hmem
        unfold findIdx at hnone
        rw [List.findIdx?_eq_none_iff] at hnone
        have := hnone x hx
        simp [hxa, hxb] at this

end Mfi.World

namespace Mfi.World
open Mfi Mfi.Gen Mfi.Account Mfi.Bank

theorem borrow_shape {c : Ctx} {amt : Int} {o : Out} (h : borrow c amt = .ok o) (hs : Shape c.a.slots) : Shape o.slots := by
  obtain ⟨b, slots, i, s, x', _, _, _, hfc, hsl, _, ho⟩ := (borrow_ok h).core
  obtain ⟨hl, hn⟩ := findOrCreate_keys hfc hs.nodup
  obtain ⟨_, s', hs', hact, hbank⟩ := findOrCreate_pos hfc
  have : s' = s := by rw [hsl] at hs'; injection hs' with hs'; exact hs'.symm
  subst this
  rw [ho]
  exact writeSlot_shape (by rw [hl, hs.len]) hn hsl hact hbank

theorem deposit_shape {c : Ctx} {amt : Int} {up : Bool} {o : Out} (h : deposit c amt up = .ok o) (hs : Shape c.a.slots) :
    Shape o.slots := by
  obtain ⟨b, a, _, _, hcore⟩ := (deposit_ok h).core
  split at hcore
  · rw [hcore.1]; exact hs
  · obtain ⟨slots, i, s, x', hfc, hsl, _, ho⟩ := hcore
    obtain ⟨hl, hn⟩ := findOrCreate_keys hfc hs.nodup
    obtain ⟨_, s', hs', hact, hbank⟩ := findOrCreate_pos hfc
    have : s' = s := by rw [hsl] at hs'; injection hs' with hs'; exact hs'.symm
    subst this
    rw [ho]
    exact writeSlot_shape (by rw [hl, hs.len]) hn hsl hact hbank

theorem withdraw_shape {c : Ctx} {amt : Int} {all : Bool} {o : Out} (h : withdraw c amt all = .ok o) (hs : Shape c.a.slots) :
    Shape o.slots := by
  obtain ⟨_, _, i, s, x', _, _, _, hfs, _, _, _, ho⟩ := (withdraw_ok h).core
  obtain ⟨hsl, hact, hbank⟩ := findSlot_ok hfs
  rw [ho]
  exact writeSlot_shape hs.len hs.nodup hsl hact hbank

theorem repay_shape {c : Ctx} {amt : Int} {all : Bool} {o : Out} (h : repay c amt all = .ok o) (hs : Shape c.a.slots) :
    Shape o.slots := by
  obtain ⟨_, i, s, _, x', _, _, hfs, _, _, _, ho⟩ := (repay_ok h).core
  obtain ⟨hsl, hact, hbank⟩ := findSlot_ok hfs
  rw [ho]
  exact writeSlot_shape hs.len hs.nodup hsl hact hbank

theorem close_shape {c : Ctx} {o : Out} (h : closeBalance c = .ok o) (hs : Shape c.a.slots) : Shape o.slots := by
  obtain ⟨_, i, s, x', _, hfs, _, ho⟩ := (close_ok h).core
  obtain ⟨hsl, hact, hbank⟩ := findSlot_ok hfs
  rw [ho]
  exact writeSlot_shape hs.len hs.nodup hsl hact hbank

/-- a bankruptcy settlement rewrites the bankrupt position in place: the shape is kept -/
theorem bankruptcy_shape {c : Ctx} {available : Int} {o : BkrOut} (h : bankruptcy c available = .ok o) (hs : Shape c.a.slots) :
    Shape o.slots := by
  obtain ⟨b, i, x, st, _, hi, hx, hst, _, hslots⟩ := bankruptcy_core h
  obtain ⟨s, hsl, hact, hbank⟩ := findIdx_slot hi
  obtain ⟨s', hs', rfl⟩ := balAt_ok hx
  have : s' = s := by rw [hsl] at hs'; injection hs' with hs'; exact hs'.symm
  subst this
  have hactive : st.bal.active = true := by
    unfold settleBankruptcy at hst
    obtain ⟨badDebt, _, hst⟩ := Res.bind_ok hst
    obtain ⟨_, _, hst⟩ := Res.bind_ok hst
    obtain ⟨rest, _, hst⟩ := Res.bind_ok hst
    obtain ⟨up, _, hst⟩ := Res.bind_ok hst
    obtain ⟨cu, _, hst⟩ := Res.bind_ok hst
    obtain ⟨⟨b1, kill⟩, _, hst⟩ := Res.bind_ok hst
    dsimp only at hst
    obtain ⟨⟨b2, bal2⟩, hinc, hst⟩ := Res.bind_ok hst
    injection hst with hst
    subst hst
    rw [inc_active hinc]; simpa [toBal] using hact
  rw [hslots]
  refine ⟨by simp [hs.len], ?_, pairwise_set_same hs.sorted hsl (by simp [ofBal, hactive, hbank])⟩
  rw [keys_set_same _ i s' _ hsl hact (by simp [ofBal, hactive]) (by simp [ofBal, hactive, hbank])]
  exact hs.nodup

/-- a liquidation keeps the shape of BOTH slot arrays -/
theorem liquidate_shape {c : LiqCtx} {amount : Int} {o : LiqOutW} (h : liquidate c amount = .ok o)
    (hq : Shape c.lq.slots) (he : Shape c.le.slots) : Shape o.lqSlots ∧ Shape o.leSlots := by
  obtain ⟨hne, a, l, aLq, aFin, lq1, i1, s1, r1, i2, s2, r2, lq3, i3, s3, r3, i4, s4, r4, f,
    _, _, hf1, hs1, hr1, hi2, hs2, hr2, hf3, hs3, hr3, hi4, hs4, hr4, hoq, hoe, _, _⟩ := liquidate_core h
  constructor
  · -- liquidator: find_or_create, rewrite, find_or_create, rewrite, sort
    obtain ⟨l1, n1⟩ := findOrCreate_keys hf1 hq.nodup
    obtain ⟨_, s1', hs1', act1, bk1⟩ := findOrCreate_pos hf1
    have e1 : s1' = s1 := by rw [hs1] at hs1'; injection hs1' with hs1'; exact hs1'.symm
    subst e1
    have a1 : r1.2.active = true := by rw [dec_active hr1]; simpa [toBal] using act1
    have n1' : (keys (lq1.set i1 (ofBal c.lb.key r1.2))).Nodup := by
      rw [keys_set_same lq1 i1 s1' _ hs1 act1 (by simp [ofBal, a1]) (by simp [ofBal, a1, bk1])]; exact n1
    obtain ⟨l3, n3⟩ := findOrCreate_keys hf3 n1'
    obtain ⟨_, s3', hs3', act3, bk3⟩ := findOrCreate_pos hf3
    have e3 : s3' = s3 := by rw [hs3] at hs3'; injection hs3' with hs3'; exact hs3'.symm
    subst e3
    rw [hoq]
    exact sortset_shape (by rw [l3]; simp [l1, hq.len]) n3 hs3 act3 bk3
  · -- liquidatee: sort, two rewrites in place
    obtain ⟨s2', hs2', act2, bk2⟩ := findIdx_slot hi2
    have e2 : s2' = s2 := by rw [hs2] at hs2'; injection hs2' with hs2'; exact hs2'.symm
    subst e2
    obtain ⟨s4', hs4', act4, bk4⟩ := findIdx_slot hi4
    have e4 : s4' = s4 := by rw [hs4] at hs4'; injection hs4' with hs4'; exact hs4'.symm
    subst e4
    have a2 : r2.2.active = true := by rw [dec_active hr2]; simpa [toBal] using act2
    have a4 : r4.2.active = true := by rw [inc_active hr4]; simpa [toBal] using act4
    have hsorted := sort_pairwise c.le.slots
    have hkeys : (keys (sortBalances c.le.slots)).Nodup := (keys_sort _).nodup_iff.2 he.nodup
    have hlen : (sortBalances c.le.slots).length = 16 := by simp [sortBalances, List.length_mergeSort, he.len]
    rw [hoe]
    refine ⟨by simp [hlen], ?_, ?_⟩
    · rw [keys_set_same _ i4 s4' _ hs4 act4 (by simp [ofBal, a4]) (by simp [ofBal, a4, bk4]),
        keys_set_same _ i2 s2' _ hs2 act2 (by simp [ofBal, a2]) (by simp [ofBal, a2, bk2])]
      exact hkeys
    · exact pairwise_set_same (pairwise_set_same hsorted hs2 (by simp [ofBal, a2, bk2])) hs4 (by simp [ofBal, a4, bk4])

/-- every account of the world has a well-shaped slot array -/
def WShape (w : WState) : Prop := ∀ a ∈ w.accts, Shape a.slots

theorem commit_shape {w : WState} {ai bi : Nat} {a : AcctV} {b : WBank} {slots : List Slot} {flags : Nat} {books : Bank} {opState : Int}
    {window : Admin.Window} {dA dL : Int}
    (hw : WShape w) (ho : Shape slots) : WShape (w.commit ai bi a b slots flags books opState window dA dL) := by
  intro x hx
  simp only [WState.commit] at hx
  rcases List.mem_or_eq_of_mem_set hx with hx | hx
  · exact hw x hx
  · rw [hx]; exact ho

theorem commit2_shape {w : WState} {qi ei abi lbi : Nat} {lq le : AcctV} {ab lb : WBank} {o : LiqOutW}
    (hw : WShape w) (hq : Shape o.lqSlots) (he : Shape o.leSlots) : WShape (w.commit2 qi ei abi lbi lq le ab lb o) := by
  intro x hx
  simp only [WState.commit2] at hx
  rcases List.mem_or_eq_of_mem_set hx with hx | hx
  · rcases List.mem_or_eq_of_mem_set hx with hx | hx
    · exact hw x hx
    · rw [hx]; exact hq
  · rw [hx]; exact he

theorem zeroed_shape : Shape Transfer.zeroedSlots := by
  refine ⟨by simp [Transfer.zeroedSlots], by simp [keys, Transfer.zeroedSlots, Account.emptySlot, List.replicate, List.filter], ?_⟩
  simp [Transfer.zeroedSlots, List.pairwise_replicate]

theorem step_shape (w : WState) (op : WOp) (hw : WShape w) : WShape (w.step op) := by
  cases op with
  | tick dt => exact hw
  | transfer ai signer newKey newAuth ok =>
    simp only [WState.step]
    split
    · exact hw
    · split
      · rename_i a ha
        split
        · rename_i o n ho
          obtain ⟨e1, e2, _, _⟩ := transferIx_ok ho
          intro x hx
          simp only at hx
          rcases List.mem_append.mp hx with hx | hx
          · rcases List.mem_or_eq_of_mem_set hx with hx | hx
            · exact hw x hx
            · rw [hx, e1]; exact zeroed_shape
          · rw [List.mem_singleton] at hx
            rw [hx, e2]; exact hw a (List.mem_of_getElem? ha)
        · exact hw
      · exact hw
  | accrue bi =>
    simp only [WState.step]
    split
    · split
      · exact hw
      · exact hw
    · exact hw
  | collect bi ok vault =>
    simp only [WState.step]
    split
    · split
      · exact hw
      · exact hw
    · exact hw
  | deposit ai bi signer amount upTo =>
    simp only [WState.step]
    split
    · rename_i a b ha hb
      split
      · rename_i o ho
        exact commit_shape hw (deposit_shape ho (hw a (List.mem_of_getElem? ha)))
      · exact hw
    · exact hw
  | borrow ai bi signer amount =>
    simp only [WState.step]
    split
    · rename_i a b ha hb
      split
      · rename_i o ho
        exact commit_shape hw (borrow_shape ho (hw a (List.mem_of_getElem? ha)))
      · exact hw
    · exact hw
  | withdraw ai bi signer amount all vault =>
    simp only [WState.step]
    split
    · rename_i a b ha hb
      split
      · rename_i o ho
        exact commit_shape hw (withdraw_shape ho (hw a (List.mem_of_getElem? ha)))
      · exact hw
    · exact hw
  | repay ai bi signer amount all =>
    simp only [WState.step]
    split
    · rename_i a b ha hb
      split
      · rename_i o ho
        exact commit_shape hw (repay_shape ho (hw a (List.mem_of_getElem? ha)))
      · exact hw
    · exact hw
  | close ai bi signer =>
    simp only [WState.step]
    split
    · rename_i a b ha hb
      split
      · rename_i o ho
        exact commit_shape hw (close_shape ho (hw a (List.mem_of_getElem? ha)))
      · exact hw
    · exact hw
  | bankruptcy ai bi signer available =>
    simp only [WState.step]
    split
    · rename_i a b ha hb
      split
      · rename_i o ho
        exact commit_shape hw (bankruptcy_shape ho (hw a (List.mem_of_getElem? ha)))
      · exact hw
    · exact hw
  | liquidate qi ei abi lbi signer amount =>
    simp only [WState.step]
    split
    · exact hw
    · split
      · rename_i lq le ab lb hq he hab hlb
        split
        · rename_i o ho
          obtain ⟨s1, s2⟩ := liquidate_shape ho (hw lq (List.mem_of_getElem? hq)) (hw le (List.mem_of_getElem? he))
          exact commit2_shape hw s1 s2
        · exact hw
      · exact hw

theorem run_shape (ops : List WOp) : ∀ (w : WState), WShape w → WShape (w.run ops) := by
  induction ops with
  | nil => intro w h; exact h
  | cons op rest ih => intro w h; exact ih _ (step_shape w op h)

end Mfi.World
