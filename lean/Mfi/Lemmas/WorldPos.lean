import Mfi.Lemmas.WorldL
namespace Mfi.World
open Mfi Mfi.Gen Mfi.Account

/-! ### position sums over the slot array -/

/-- the deposit shares an array holds in bank `k` (every active slot naming `k`) -/
def posA (k : Nat) (l : List Slot) : Int := ((l.filter fun s => s.active && s.bank == k).map (·.a)).sum
def posL (k : Nat) (l : List Slot) : Int := ((l.filter fun s => s.active && s.bank == k).map (·.l)).sum

theorem perm_sum_int {l₁ l₂ : List Int} (h : l₁.Perm l₂) : l₁.sum = l₂.sum := by
  induction h with
  | nil => rfl
  | cons x _ ih => simp [ih]
  | swap x y l => simp only [List.sum_cons]; omega
  | trans _ _ ih1 ih2 => omega

theorem posA_perm {k : Nat} {l₁ l₂ : List Slot} (h : l₁.Perm l₂) : posA k l₁ = posA k l₂ :=
  perm_sum_int ((h.filter _).map _)
theorem posL_perm {k : Nat} {l₁ l₂ : List Slot} (h : l₁.Perm l₂) : posL k l₁ = posL k l₂ :=
  perm_sum_int ((h.filter _).map _)

theorem posA_sort (k : Nat) (l : List Slot) : posA k (sortBalances l) = posA k l := posA_perm (List.mergeSort_perm l _)
theorem posL_sort (k : Nat) (l : List Slot) : posL k (sortBalances l) = posL k l := posL_perm (List.mergeSort_perm l _)

/-- what one slot contributes -/
def ctrA (k : Nat) (s : Slot) : Int := if s.active && s.bank == k then s.a else 0
def ctrL (k : Nat) (s : Slot) : Int := if s.active && s.bank == k then s.l else 0

theorem posA_cons (k : Nat) (s : Slot) (l : List Slot) : posA k (s :: l) = ctrA k s + posA k l := by
  unfold posA ctrA
  by_cases h : (s.active && s.bank == k) = true <;> simp [List.filter_cons, h]
theorem posL_cons (k : Nat) (s : Slot) (l : List Slot) : posL k (s :: l) = ctrL k s + posL k l := by
  unfold posL ctrL
  by_cases h : (s.active && s.bank == k) = true <;> simp [List.filter_cons, h]

theorem posA_set (k : Nat) : ∀ (l : List Slot) (i : Nat) (s s' : Slot), l[i]? = some s →
    posA k (l.set i s') = posA k l - ctrA k s + ctrA k s'
  | [], i, s, s', h => by simp at h
  | x :: l, 0, s, s', h => by
    simp only [List.getElem?_cons_zero, Option.some.injEq] at h
    subst h
    simp only [List.set_cons_zero, posA_cons]; omega
  | x :: l, i + 1, s, s', h => by
    simp only [List.getElem?_cons_succ] at h
    simp only [List.set_cons_succ, posA_cons, posA_set k l i s s' h]; omega
theorem posL_set (k : Nat) : ∀ (l : List Slot) (i : Nat) (s s' : Slot), l[i]? = some s →
    posL k (l.set i s') = posL k l - ctrL k s + ctrL k s'
  | [], i, s, s', h => by simp at h
  | x :: l, 0, s, s', h => by
    simp only [List.getElem?_cons_zero, Option.some.injEq] at h
    subst h
    simp only [List.set_cons_zero, posL_cons]; omega
  | x :: l, i + 1, s, s', h => by
    simp only [List.getElem?_cons_succ] at h
    simp only [List.set_cons_succ, posL_cons, posL_set k l i s s' h]; omega

/-- `find_or_create` leaves every bank's position sums as they were, and hands out an active slot of the bank -/
theorem findOrCreate_pos {l l' : List Slot} {bank : Nat} {tag now : Int} {i : Nat}
    (h : findOrCreate l bank tag now = .ok (l', i)) :
    (∀ k, posA k l' = posA k l ∧ posL k l' = posL k l) ∧ ∃ s, l'[i]? = some s ∧ s.active = true ∧ s.bank = bank := by
  unfold findOrCreate at h
  split at h
  · rename_i j hj
    injection h with h; injection h with h1 h2; subst h1; subst h2
    refine ⟨fun k => ⟨rfl, rfl⟩, ?_⟩
    unfold findIdx at hj
    rw [List.findIdx?_eq_some_iff_getElem] at hj
    obtain ⟨hk, hp, _⟩ := hj
    simp only [Bool.and_eq_true, beq_iff_eq] at hp
    exact ⟨l[j], by simp [hk], hp.1, hp.2⟩
  · split at h
    · cases h
    · split at h
      · cases h
      · rename_i j hj
        injection h with h; injection h with h1 h2; subst h1; subst h2
        unfold firstEmpty at hj
        rw [List.findIdx?_eq_some_iff_getElem] at hj
        obtain ⟨hk, hp, _⟩ := hj
        have hina : l[j].active = false := by simpa using hp
        have hget : l[j]? = some l[j] := by simp [hk]
        refine ⟨fun k => ⟨?_, ?_⟩, ?_⟩
        · rw [posA_set k l j _ _ hget]; simp [ctrA, hina]
        · rw [posL_set k l j _ _ hget]; simp [ctrL, hina]
        · exact ⟨{ active := true, bank := bank, tag := tag, a := 0, l := 0, emis := 0, lastUpdate := now }, by simp [hk], rfl, rfl⟩

end Mfi.World
