import Mfi.Model.Interest
import Mfi.Driver.Basic
namespace Mfi.Driver
open Mfi Mfi.Interest

/-- parse the 23-integer config prefix shared by all `ir.*` ops -/
def parseIr (a : List Int) : Option (IrCalc × List Int) :=
  match a with
  | optimal :: plateau :: maxIr :: insFixed :: insRate :: grpFixed :: grpRate :: progFixed :: progRate ::
    addProg :: zero :: hundred :: u1 :: r1 :: u2 :: r2 :: u3 :: r3 :: u4 :: r4 :: u5 :: r5 :: ct :: rest =>
    some ({ optimal, plateau, maxIr, insFixed, insRate, grpFixed, grpRate, progFixed, progRate,
            addProgramFees := s2b addProg, zeroRate := zero, hundredRate := hundred,
            points := [⟨u1, r1⟩, ⟨u2, r2⟩, ⟨u3, r3⟩, ⟨u4, r4⟩, ⟨u5, r5⟩], curveType := ct }, rest)
  | _ => none

def showRes (r : Res String) : String :=
  match r with
  | .ok s => s!"ok {s}"
  | .error f => Res.showFail f

def irOp (op : String) (args : List Int) : Option String :=
  match op with
  | "ir.calc" =>
    match parseIr args with
    | some (c, [ur]) =>
      some (showRes ((calcInterestRate c ur).map fun r =>
        joinInts [r.base, r.lending, r.borrowing, r.groupFee, r.insuranceFee, r.protocolFee]))
    | _ => some "bad-args"
  | "ir.validate" =>
    match parseIr args with
    | some (c, []) => some (showRes ((validate c).map fun b => b2s b))
    | _ => some "bad-args"
  | "ir.migrate" =>
    match parseIr args with
    | some (c, []) =>
      some (showRes ((migrateCurve c).map fun c' =>
        joinInts ([c'.optimal, c'.plateau, c'.maxIr, c'.zeroRate, c'.hundredRate] ++ (c'.points.map fun p => [p.util, p.rate]).flatten ++ [c'.curveType])))
    | _ => some "bad-args"
  | "ir.accrue" =>
    match parseIr args with
    | some (c, [dt, ta, tl, asv, lsv]) =>
      some (showRes ((accrualStateChanges dt ta tl c asv lsv).map fun s =>
        joinInts [s.newAsv, s.newLsv, s.insuranceFees, s.groupFees, s.protocolFees]))
    | _ => some "bad-args"
  | _ => none

end Mfi.Driver
