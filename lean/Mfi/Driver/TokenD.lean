import Mfi.Model.Token
import Mfi.Driver.Basic
namespace Mfi.Driver
open Mfi.Token
def tokOp (op : String) (a : List Int) : Option String :=
  match op, a with
  | "tf.fee", [bps, mx, pre] => some (showOpt (fee bps mx pre))
  | "tf.pre", [bps, mx, post] => some (showOpt (preFee bps mx post))
  | _, _ => none
end Mfi.Driver
