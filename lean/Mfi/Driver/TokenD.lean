import Mfi.Model.Token
import Mfi.Driver.Basic
namespace Mfi.Driver
open Mfi.Token
def tokOp (op : String) (a : List Int) : Option String :=
  match op, a with
  | "tf.fee", [bps, mx, pre] => some (showOpt (fee bps mx pre))
  | "tf.pre", [bps, mx, post] => some (showOpt (preFee bps mx post))
  | "tf.mint", kind :: ob :: om :: ne :: nb :: nm :: epoch :: amt :: [] =>
    let m : Mint := if kind = 0 then .spl else if kind = 1 then .t22 else .t22fee { olderBps := ob, olderMax := om, newerEpoch := ne, newerBps := nb, newerMax := nm }
    some (s!"{showOpt (mintPre m epoch amt)} {showOpt (mintPost m epoch amt)} {if mintNonzero m epoch then 1 else 0} {showOpt (mintFee m epoch amt)}")
  | _, _ => none
end Mfi.Driver
