import Mfi.Model.Venue
import Mfi.Driver.Basic
import Mfi.Driver.BankD
namespace Mfi.Driver
open Mfi Mfi.Bank Mfi.Ix Mfi.Venue

/-- `vn.kdep <bank 16> <last_update> <has position> <position 6> now expected pre post`
      → `ok <bank 16> <last_update> 1 <position 6> <collateral booked>`
    `vn.kwd  <bank 16> <last_update> <has position> <position 6> now amount all expected obPre obPost vPre vPost`
      → `ok <bank 16> <last_update> <position 6> <collateral> <paid>` -/
def venueIxOp (op : String) (a : List Int) : Option String :=
  if !op.startsWith "vn." then none else
  match parseBank a with
  | some (b0, last :: has :: rest) =>
    match parseBal rest with
    | some (x, tail) =>
      let b := { b0 with lastUpdate := last }
      let bal : Option Balance := if s2b has then some x else none
      match op, tail with
      | "vn.kdep", [now, expected, pre, post] =>
        some (showResB ((kaminoDeposit now b bal expected pre post).map fun (b', x', t) =>
          match x' with
          | some y => s!"{showBank b'} {b'.lastUpdate} 1 {showBal y} {t}"
          | none => s!"{showBank b'} {b'.lastUpdate} 0 0 0 0 0 0 0 {t}"))
      | "vn.kwd", [now, amount, all, expected, obPre, obPost, vPre, vPost] =>
        some (showResB ((kaminoWithdraw now b bal amount (s2b all) (fun _ => expected) obPre obPost vPre vPost).map fun o =>
          s!"{showBank o.bank} {o.bank.lastUpdate} {showBal o.bal} {o.collateral} {o.paid}"))
      | "vn.sdep", [now, expected, pre, post] =>
        some (showResB ((solendDeposit now b bal expected pre post).map fun (b', x', t) =>
          match x' with
          | some y => s!"{showBank b'} {b'.lastUpdate} 1 {showBal y} {t}"
          | none => s!"{showBank b'} {b'.lastUpdate} 0 0 0 0 0 0 0 {t}"))
      | "vn.swd", [now, amount, all, expected, obPre, obPost, vPre, vPost] =>
        some (showResB ((solendWithdraw now b bal amount (s2b all) (fun _ => expected) obPre obPost vPre vPost).map fun o =>
          s!"{showBank o.bank} {o.bank.lastUpdate} {showBal o.bal} {o.collateral} {o.paid}"))
      | "vn.ddep", [now, amount, dec, cum, pre, post] =>
        some (showResB ((driftDeposit now b bal amount dec cum pre post).map fun (b', x', t) =>
          match x' with
          | some y => s!"{showBank b'} {b'.lastUpdate} 1 {showBal y} {t}"
          | none => s!"{showBank b'} {b'.lastUpdate} 0 0 0 0 0 0 0 {t}"))
      | "vn.dwd", [now, amount, all, dec, cum, sbPre, sbPost, vPre, vPost] =>
        some (showResB ((driftWithdraw now b bal amount (s2b all) dec cum sbPre sbPost vPre vPost).map fun o =>
          s!"{showBank o.bank} {o.bank.lastUpdate} {showBal o.bal} {o.tokens} {o.scaled}"))
      | _, _ => some "bad-args"
    | none => some "bad-args"
  | _ => some "bad-args"

end Mfi.Driver
