/- Line-protocol helpers for the model driver (no imports beyond core). -/
namespace Mfi.Driver

def ints (ws : List String) : Option (List Int) := ws.mapM String.toInt?

def showOpt (o : Option Int) : String :=
  match o with
  | some v => s!"some {v}"
  | none => "none"

def b2s (b : Bool) : String := if b then "1" else "0"
def s2b (i : Int) : Bool := i != 0

def joinInts (xs : List Int) : String := " ".intercalate (xs.map toString)

end Mfi.Driver
