import Mfi.Model.Integr
import Mfi.Driver.Basic
namespace Mfi.Driver
open Mfi Mfi.Integr

def showOpt2 (o : Option (Int × Int)) : String :=
  match o with
  | some (a, b) => s!"some {a} {b}"
  | none => "none"

def igOp (op : String) (a : List Int) : Option String :=
  match op, a with
  | "ig.staked", [p, e, st, su] =>
    some (match stakedAdjust p e st su with
      | .ok a b => s!"ok {a} {b}"
      | .zeroSupply => "zero"
      | .math => "math"
      | .panic => "panic")
  | "ig.adj128", [raw, r] => some (showOpt (adjustI128 raw r))
  | "ig.adj64", [raw, r] => some (showOpt (adjustI64 raw r))
  | "ig.adju64", [raw, r] => some (showOpt (adjustU64 raw r))
  | "ig.c2l", [c, l, k] => some (showOpt (collateralToLiquidity c l k))
  | "ig.l2c", [x, l, k] => some (showOpt (liquidityToCollateral x l k))
  | "ig.ratio", [l, k] => some (showOpt (liqToColRatio l k))
  | "ig.scale", [l, c, d] => some (showOpt2 (scaleSupplies l c d))
  | "ig.conv", [n, f, t] => some (showOpt (convertDecimals n f t))
  | "ig.u68", [raw] => some (toString (u68f60ToFx raw))
  | "ig.dec2fx", [raw] => some (showOpt (decimalToFx raw))
  | "ig.kstale", [s, c] => some (b2s (kaminoStale s c))
  | "ig.sstale", [s, c] => some (b2s (solendStale s c))
  | "ig.dstale", [s, c] => some (b2s (driftStale s c))
  | "ig.dinc", [d, cum, x] => some (showOpt (scaledBalanceIncrement d cum x))
  | "ig.ddec", [d, cum, x] => some (showOpt (scaledBalanceDecrement d cum x))
  | "ig.dwd", [d, cum, x] => some (showOpt (withdrawTokenAmount d cum x))
  | "ig.dadj64", [cum, x] => some (showOpt (driftAdjustI64 cum x))
  | "ig.dadju64", [cum, x] => some (showOpt (driftAdjustU64 cum x))
  | "ig.dadj128", [cum, x] => some (showOpt (driftAdjustI128 cum x))
  -- whole Kamino/Solend price pipeline: scale supplies, ratio as used by state/price.rs, adjust_i64
  | "ig.kprice64", [l, c, d, p] =>
    some (match scaleSupplies l c d with
      | none => "none"
      | some (ls, cs) =>
        match usedRatio ls cs with
        | none => s!"some {p}"
        | some r => showOpt (adjustI64 p r))
  | "ig.kprice128", [l, c, d, p] =>
    some (match scaleSupplies l c d with
      | none => "none"
      | some (ls, cs) =>
        match usedRatio ls cs with
        | none => s!"some {p}"
        | some r => showOpt (adjustI128 p r))
  | _, _ => none

end Mfi.Driver
