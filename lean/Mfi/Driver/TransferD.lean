import Mfi.Model.Transfer
import Mfi.Driver.Basic
import Mfi.Driver.AccountD
namespace Mfi.Driver
open Mfi Mfi.Account Mfi.Transfer

def parseSlots7 : Nat → List Int → Option (List Slot × List Int)
  | 0, rest => some ([], rest)
  | n + 1, act :: bank :: tag :: a :: l :: emis :: lu :: rest =>
    (parseSlots7 n rest).map fun (ss, r) => ({ active := s2b act, bank := bank.toNat, tag := tag, a := a, l := l, emis := emis, lastUpdate := lu } :: ss, r)
  | _, _ => none

def showSlots7 (s : List Slot) : String :=
  " ".intercalate (s.map fun x => joinInts [if x.active then 1 else 0, (x.bank : Int), x.tag, x.a, x.l, x.emis, x.lastUpdate])

def flagWord (a : MAcct) : Nat :=
  (if a.disabled then 1 else 0) + (if a.flash then 2 else 0) + (if a.recv then 16 else 0) + (if a.frozen then 64 else 0) + a.otherFlags

def showMAcct (a : MAcct) : String :=
  s!"{a.group} {a.authority} {flagWord a} {a.emisDest} {a.migratedFrom} {a.migratedTo} {a.lastUpdate} {showSlots7 a.slots}"

/-- `xfer.run <16 slots> group authority flags emisDest migratedFrom migratedTo lastUpdate | oldKey groupKey groupAdmin
     cachedFeeWallet paused signer newKey newAuth feeWallet now` -/
def xferOp (op : String) (a : List Int) : Option String :=
  if op != "xfer.run" then none else
  match parseSlots7 16 a with
  | none => some "bad-args"
  | some (s, rest) =>
    match rest with
    | [group, auth, flags, emisDest, mFrom, mTo, lu, oldKey, groupKey, groupAdmin, cachedFw, paused, signer, newKey, newAuth, feeWallet, now] =>
      let f := flags.toNat
      let b0 := f.testBit 0
      let b1 := f.testBit 1
      let b4 := f.testBit 4
      let b6 := f.testBit 6
      let rest' : Nat := f - ((if b0 then 1 else 0) + (if b1 then 2 else 0) + (if b4 then 16 else 0) + (if b6 then 64 else 0))
      let old : MAcct :=
        { group := group.toNat
          authority := auth.toNat
          slots := s
          disabled := b0
          flash := b1
          recv := b4
          frozen := b6
          otherFlags := rest'
          emisDest := emisDest.toNat
          migratedFrom := mFrom.toNat
          migratedTo := mTo.toNat
          lastUpdate := lu }
      some (showResB ((transfer old oldKey.toNat groupKey.toNat groupAdmin.toNat cachedFw.toNat (s2b paused)
        signer.toNat newKey.toNat newAuth.toNat feeWallet.toNat now).map fun (o, n) => s!"{showMAcct o} // {showMAcct n}"))
    | _ => some "bad-args"

end Mfi.Driver
