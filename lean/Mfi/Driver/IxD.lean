import Mfi.Model.Ix
import Mfi.Driver.Basic
import Mfi.Driver.BankD
import Mfi.Driver.InterestD
namespace Mfi.Driver
open Mfi Mfi.Bank Mfi.Ix

/-- `ix.<dep|wd|bor|rep> <bank 16> <last_update> <ir 23> <has position> <position 6> now amount flag tfBps tfMax origFee progFeeRate`
     →  `ok <bank 16> <last_update> <has position> <position 6> <tokens>` -/
def ixOp (op : String) (a : List Int) : Option String :=
  if !op.startsWith "ix." || op == "ix.liq" || op == "ix.bkr" || op == "ix.closebank" then none else
  match parseBank a with
  | none => some "bad-args"
  | some (b0, last :: rest) =>
    match parseIr rest with
    | some (ir, has :: rest2) =>
      match parseBal rest2 with
      | some (x, [now, amount, flag, tfBps, tfMax, origFee, progFeeRate]) =>
        let b := { b0 with lastUpdate := last }
        let bal : Option Balance := if s2b has then some x else none
        let e : Env := { ir, now, tfBps, tfMax, origFee, progFeeRate }
        let r : Option (Res Out) :=
          match op with
          | "ix.dep" => some (deposit e b bal amount (s2b flag))
          | "ix.wd" => some (withdraw e b bal amount (s2b flag))
          | "ix.bor" => some (borrow e b bal amount)
          | "ix.rep" => some (repay e b bal amount (s2b flag))
          | "ix.close" => some (Ix.closeBalance e b bal)
          | "ix.purge" => some (Ix.purge b bal)
          | _ => none
        match r with
        | none => some "bad-op"
        | some r =>
          some (showResB (r.map fun (b', x', t) =>
            match x' with
            | some y => s!"{showBank b'} {b'.lastUpdate} 1 {showBal y} {t}"
            | none => s!"{showBank b'} {b'.lastUpdate} 0 0 0 0 0 0 0 {t}"))
      | _ => some "bad-args"
    | _ => some "bad-args"
  | _ => some "bad-args"

/-- `ix.liq <bankA 16> <lastA> <irA 23> <bankL 16> <lastL> <irL 23> <has> <lqLiab 6> <leAsset 6> <has> <lqAsset 6> <leLiab 6>
     now assetAmount assetPrice liabPrice` → `ok <bankA 16> <lastA> <bankL 16> <lastL> <lqLiab 6> <leAsset 6> <lqAsset 6> <leLiab 6> <tokens>` -/
def liqIxOp (op : String) (a : List Int) : Option String :=
  if op != "ix.liq" then none else
  let r : Option String := do
    let (ba, a) ← parseBank a
    let (lastA, a) ← (match a with | x :: r => some (x, r) | [] => none)
    let (irA, a) ← parseIr a
    let (bl, a) ← parseBank a
    let (lastL, a) ← (match a with | x :: r => some (x, r) | [] => none)
    let (irL, a) ← parseIr a
    let (h1, a) ← (match a with | x :: r => some (x, r) | [] => none)
    let (x1, a) ← parseBal a
    let (x2, a) ← parseBal a
    let (h3, a) ← (match a with | x :: r => some (x, r) | [] => none)
    let (x3, a) ← parseBal a
    let (x4, a) ← parseBal a
    match a with
    | [now, amt, pa, pl] =>
      let res := Ix.liquidate irA irL now { ba with lastUpdate := lastA } { bl with lastUpdate := lastL }
        (if s2b h1 then some x1 else none) x2 (if s2b h3 then some x3 else none) x4 amt pa pl
      some (showResB (res.map fun o =>
        s!"{showBank o.assetBank} {o.assetBank.lastUpdate} {showBank o.liabBank} {o.liabBank.lastUpdate} {showBal o.lqLiab} {showBal o.leAsset} {showBal o.lqAsset} {showBal o.leLiab} {o.insuranceTokens}"))
    | _ => none
  some (r.getD "bad-args")

/-- `ix.bkr <bank 16> <last_update> <ir 23> <position 6> available now` → `ok <bank 16> <last_update> <position 6> <tokens from insurance> <kill>` -/
def bkrIxOp (op : String) (a : List Int) : Option String :=
  if op != "ix.bkr" then none else
  match parseBank a with
  | some (b0, last :: rest) =>
    match parseIr rest with
    | some (ir, rest2) =>
      match parseBal rest2 with
      | some (x, [avail, now]) =>
        some (showResB ((Ix.bankruptcy ir now { b0 with lastUpdate := last } x avail).map fun o =>
          s!"{showBank o.bank} {o.bank.lastUpdate} {showBal o.bal} {o.coveredUp} {if o.kill then 1 else 0}"))
      | _ => some "bad-args"
    | none => some "bad-args"
  | _ => some "bad-args"

/-- `ix.closebank <bank 16>` → `ok` | `err 6078` -/
def closeBankOp (op : String) (a : List Int) : Option String :=
  if op != "ix.closebank" then none else
  match parseBank a with
  | some (b, []) => some (showResB ((Ix.closeBank b).map fun _ => ""))
  | _ => some "bad-args"

end Mfi.Driver
