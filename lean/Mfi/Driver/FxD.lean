import Mfi.Fx
import Mfi.Driver.Basic
namespace Mfi.Driver
open Mfi

def fxOp (op : String) (args : List Int) : Option String :=
  match op, args with
  | "fx.add", [a, b] => some (showOpt (Fx.add? a b))
  | "fx.sub", [a, b] => some (showOpt (Fx.sub? a b))
  | "fx.mul", [a, b] => some (showOpt (Fx.mul? a b))
  | "fx.div", [a, b] => some (showOpt (Fx.div? a b))
  | "fx.floor", [a] => some (toString (Fx.floor a))
  | "fx.ceil", [a] => some (showOpt (Fx.ceil? a))
  | "fx.frac", [a] => some (toString (Fx.frac a))
  | "fx.tou64", [a] => some (showOpt (Fx.toU64? a))
  | "fx.toi64", [a] => some (showOpt (Fx.toI64? a))
  | "fx.ofint", [n] => some (showOpt (Fx.ofInt? n))
  | "fx.wmul", [a, b] => some (toString (Fx.wrap ((a * b) / Fx.ONE)))
  | "fx.wdiv", [a, b] => some (toString (Fx.wrap (Int.tdiv (a * Fx.ONE) b)))
  | _, _ => none

end Mfi.Driver
