import Mfi.Model.Gate
import Mfi.Driver.Basic
namespace Mfi.Driver
open Mfi.Gate
def gateOp (op : String) (a : List Int) : Option String :=
  match op, a with
  | "gate.bankstate", [s, k] =>
    some (match OpState.ofInt s, Kind.ofInt k with
      | some s, some k => (match validateBankState s k with | none => "ok" | some c => s!"err {c}")
      | _, _ => "bad-args")
  | _, _ => none
end Mfi.Driver
