import Mfi.Model.Panic
import Mfi.Gen.Errors
import Mfi.Driver.Basic
namespace Mfi.Driver
open Mfi.Panic

def stOf (f d c s r : Int) : PanicState :=
  { paused := s2b f, daily := d, consecutive := c, start := s, lastReset := r }

def showSt (s : PanicState) : String :=
  s!"{b2s s.paused} {s.daily} {s.consecutive} {s.start} {s.lastReset}"

def panicOp (op : String) (args : List Int) : Option String :=
  match op, args with
  | "panic.pause", [f, d, c, s, r, now] =>
    some (match ixPause (stOf f d c s r) now with
      | some s' => s!"ok {showSt s'}"
      | none => s!"err {Mfi.Gen.E.PauseLimitExceeded}")
  | "panic.unpause", [f, d, c, s, r, now] =>
    some (match ixUnpause (stOf f d c s r) now with
      | .ok s' => s!"ok {showSt s'}"
      | .error .notPaused => "err notpaused"
      | .error .notExpired => "err notexpired")
  | "panic.punpause", [f, d, c, s, r, now] =>
    some (match ixUnpausePermissionless (stOf f d c s r) now with
      | .ok s' => s!"ok {showSt s'}"
      | .error .notPaused => "err notpaused"
      | .error .notExpired => "err notexpired")
  | "panic.propagate", [f, d, c, s, r, now] =>
    let k := propagate (stOf f d c s r) now
    some s!"{b2s k.paused} {k.start} {k.lastUpdate}"
  | "panic.gate", [f, s, now] =>
    some (b2s (protocolPaused { paused := s2b f, start := s, lastUpdate := 0 } now))
  | "panic.query", [f, d, c, s, r, now] =>
    let st := stOf f d c s r
    some s!"{b2s (isExpired st.paused st.start now)} {b2s (canPause st now)}"
  | _, _ => none

end Mfi.Driver
