import Mfi.Model.Auth
import Mfi.Driver.Basic
namespace Mfi.Driver
open Mfi.Auth
def authOp (op : String) (a : List Int) : Option String :=
  match op, a with
  | "auth.signer", [au, fr, rc, ad, sg, al] =>
    let v : AcctView := ⟨au.toNat, s2b fr, s2b rc⟩
    some s!"{b2s (isSignerAuthorized v ad.toNat sg.toNat (s2b al))} {b2s (notFrozenForAuthority v sg.toNat)}"
  | _, _ => none
end Mfi.Driver
