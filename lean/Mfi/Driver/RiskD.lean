import Mfi.Model.Risk
import Mfi.Model.Integr
import Mfi.Driver.Basic
namespace Mfi.Driver
open Mfi Mfi.Risk

def parseEmodeEntries : Nat → List Int → Option (List Entry × List Int)
  | 0, rest => some ([], rest)
  | n + 1, t :: f :: wi :: wm :: rest =>
    (parseEmodeEntries n rest).map fun (es, r) => ({ tag := t.toNat, flags := f.toNat, wInit := wi, wMaint := wm } :: es, r)
  | _, _ => none

def parseFeed (now cfgAge : Int) : List Int → Option (Feed × List Int)
  | 0 :: p :: rest => some (loadFixed p, rest)
  | 1 :: k :: o :: d :: f :: pub :: price :: conf :: ema :: emaConf :: expo :: rest =>
    some (loadPyth { keyOk := k != 0, ownerOk := o != 0, discOk := d != 0, fullVerification := f != 0, publishTime := pub,
                     px := { price, conf, emaPrice := ema, emaConf, expo } } now cfgAge, rest)
  | 2 :: k :: o :: lu :: v :: sd :: rest =>
    some (loadSwb { keyOk := k != 0, ownerOk := o != 0, lastUpdate := lu, value := v, stdDev := sd } now cfgAge, rest)
  | _ => none

def parsePos (now : Int) : List Int → Option (Pos × List Int)
  | asv :: lsv :: sa :: dec :: ai :: am :: li :: lm :: tier :: ro :: tag :: lim :: mc :: age :: ne :: rest =>
    match parseEmodeEntries ne.toNat rest with
    | some (es, a :: l :: rest2) =>
      match parseFeed now age rest2 with
      | some (feed, rest3) =>
        some ({ bank := { asv, lsv, sa, decimals := dec, aInit := ai, aMaint := am, lInit := li, lMaint := lm,
                          tier := if tier != 0 then .isolated else .collateral, reduceOnly := ro != 0, emodeTag := tag.toNat,
                          emode := es, initLimit := lim, maxConf := mc },
                a, l, feed }, rest3)
      | none => none
    | _ => none
  | _ => none

def parsePositions (now : Int) : Nat → List Int → Option (List Pos × List Int)
  | 0, rest => some ([], rest)
  | n + 1, rest =>
    match parsePos now rest with
    | some (p, r) => (parsePositions now n r).map fun (ps, r2) => (p :: ps, r2)
    | none => none

def showResI (r : Res Int) : String :=
  match r with
  | .ok v => s!"ok {v}"
  | .error f => Res.showFail f

def showResI2 (r : Res Int) : String :=
  match r with
  | .ok v => s!"ok {v}"
  | .error .mathErr => "err 6062"
  | .error f => Res.showFail f

def showResU (r : Res (Int × Int)) : String :=
  match r with
  | .ok _ => "ok"
  | .error .mathErr => "err 6062"
  | .error f => Res.showFail f

def riskOp (op : String) (a : List Int) : Option String :=
  match op, a with
  | "risk.pulse", now :: n :: rest =>
    some (match parsePositions now n.toNat rest with
      | some (ps, []) =>
        (match pulse ps with
         | none => "abort"
         | some p => s!"ok {p.aInit} {p.lInit} {p.aMaint} {p.lMaint} {p.aEq} {p.lEq} {p.mrgnErr} {p.liqErr} {p.bkrErr} {p.internalErr} {p.errIndex} {p.flags}")
      | _ => "bad-args")
  | "risk.endliq", am :: lm :: ae :: le :: fee :: now :: n :: rest =>
    some (match parsePositions now n.toNat rest with
      | some (ps, []) => showResU (endLiquidation { aMaint := am, lMaint := lm, aEq := ae, lEq := le } ps fee)
      | _ => "bad-args")
  | "risk.enddelev", am :: lm :: ae :: le :: now :: n :: rest =>
    some (match parsePositions now n.toNat rest with
      | some (ps, []) => showResU (endDeleverage { aMaint := am, lMaint := lm, aEq := ae, lEq := le } ps)
      | _ => "bad-args")
  | "risk.start", ig :: now :: n :: rest =>
    some (match parsePositions now n.toNat rest with
      | some (ps, []) =>
        (match startReceivership ps (ig != 0) with
         | .ok c => s!"ok {c.aMaint} {c.lMaint} {c.aEq} {c.lEq}"
         | .error .mathErr => "err 6062"
         | .error f => Res.showFail f)
      | _ => "bad-args")
  | "risk.preliq", k :: now :: n :: rest =>
    some (match parsePositions now n.toNat rest with
      | some (ps, []) => showResI2 (preLiquidationFor ps (ps[k.toNat]?))
      | _ => "bad-args")
  | "risk.postliq", k :: pre :: now :: n :: rest =>
    some (match parsePositions now n.toNat rest with
      | some (ps, []) =>
        (match ps[k.toNat]? with
         | some lp => showResI2 (postLiquidation ps lp pre)
         | none => "bad-args")
      | _ => "bad-args")
  | "risk.price", now :: age :: t :: bias :: mc :: rest =>
    some (match parseFeed now age rest with
      | some (f, []) =>
        showResI (priceOfType f (if t != 0 then .timeWeighted else .realTime)
          (if bias == 0 then none else if bias == 1 then some .low else some .high) mc)
      | _ => "bad-args")
  | _, _ => none
end Mfi.Driver

namespace Mfi.Driver
open Mfi Mfi.Risk

/-- the venue-backed oracle arms, value side: Kamino / Solend re-scale by total liquidity / total collateral (both
    truncated by 10^decimals first), Drift by its cumulative deposit interest; a Pyth price (exponent 0) comes out as the
    adjusted integer, a Switchboard value as the I80F48 price of the adjusted 18-decimals value -/
def venueOp (op : String) (a : List Int) : Option String :=
  let swbOut (o : Option Int) : String :=
    match o with
    | none => "none"
    | some v => (match swbPrice v with | .ok p => s!"ok {p}" | .error _ => "none")
  let reserveRatio (l c d : Int) : Option (Option Int) :=
    (Mfi.Integr.scaleSupplies l c d).map fun (ls, cs) => Mfi.Integr.usedRatio ls cs
  match op, a with
  | "ig.kpyth", [l, c, d, p] | "ig.spyth", [l, c, d, p] =>
    some (match reserveRatio l c d with
      | none => "none"
      | some none => s!"some {p}"
      | some (some r) => (match Mfi.Integr.adjustI64 p r with | some v => s!"some {v}" | none => "none"))
  | "ig.kswb", [l, c, d, p] | "ig.sswb", [l, c, d, p] =>
    some (match reserveRatio l c d with
      | none => "none"
      | some none => swbOut (some p)
      | some (some r) => swbOut (Mfi.Integr.adjustI128 p r))
  | "ig.dpyth", [cum, _d, p] =>
    some (match Mfi.Integr.driftAdjustI64 cum p with | some v => s!"some {v}" | none => "none")
  | "ig.dswb", [cum, _d, p] => some (swbOut (Mfi.Integr.driftAdjustI128 cum p))
  | _, _ => none

/-- `ig.v4 <venue 0 kamino | 1 solend | 2 drift> <kind 1 pyth | 2 switchboard> <x y z> p conf ema emaConf maxConf`
    (x y z = total liquidity bits, collateral supply, decimals for Kamino / Solend; cumulative interest, 0, 0 for Drift):
    the venue-adjusted feed as the pricing functions see it, through all four read-outs that the risk engine and the
    liquidation code use: real-time unbiased, real-time low, time-weighted unbiased, time-weighted high.
    `none` = the adapter itself fails (an adjustment overflows). -/
def venueV4Op (op : String) (a : List Int) : Option String :=
  match op, a with
  | "ig.v4", [venue, kind, x, y, z, p, conf, ema, emaConf, mc] =>
    let ratio : Option (Option Int) :=
      if venue = 2 then some none else (Mfi.Integr.scaleSupplies x y z).map fun (ls, cs) => Mfi.Integr.usedRatio ls cs
    match ratio with
    | none => some "none"
    | some r =>
      let adjI64 (v : Int) : Option Int := if venue = 2 then Mfi.Integr.driftAdjustI64 x v else (match r with | none => some v | some q => Mfi.Integr.adjustI64 v q)
      let adjU64 (v : Int) : Option Int := if venue = 2 then Mfi.Integr.driftAdjustU64 x v else (match r with | none => some v | some q => Mfi.Integr.adjustU64 v q)
      let adjI128 (v : Int) : Option Int := if venue = 2 then Mfi.Integr.driftAdjustI128 x v else (match r with | none => some v | some q => Mfi.Integr.adjustI128 v q)
      let feed : Option Feed :=
        if kind = 1 then do
          let p' ← adjI64 p
          let e' ← adjI64 ema
          let c' ← adjU64 conf
          let ec' ← adjU64 emaConf
          pure (.pyth { price := p', conf := c', emaPrice := e', emaConf := ec', expo := 0 })
        else do
          let v' ← adjI128 p
          let sd' ← adjI128 conf
          pure (.swb v' sd')
      match feed with
      | none => some "none"
      | some f =>
        some (String.intercalate " ; " [showResI2 (priceOfType f .realTime none mc), showResI2 (priceOfType f .realTime (some .low) mc),
                                         showResI2 (priceOfType f .timeWeighted none mc), showResI2 (priceOfType f .timeWeighted (some .high) mc)])
  | _, _ => none

def liqOp (op : String) (a : List Int) : Option String :=
  match op, a with
  | "liq.amounts", [amt, ap, lp, da, dl] =>
    some (match liquidationAmounts amt ap lp da dl with
      | .ok r => s!"ok {r.liquidator} {r.final} {r.feeWhole} {r.feeFrac}"
      | .error f => Res.showFail f)
  | "liq.value", [amount, price, d, w] =>
    some (showResI (calcValue amount price d (if w < 0 then none else some w)))
  | "liq.amount", [value, price, d] => some (showResI (calcAmount value price d))
  | _, _ => none
end Mfi.Driver
