import Mfi.Model.Tx
import Mfi.Driver.Basic
namespace Mfi.Driver
open Mfi Mfi.Tx

def optNat (x : Int) : Option Nat := if x < 0 then none else some x.toNat

/-- triples (prog disc acct0); a non-negative disc carries the number of argument bytes that follow the discriminator in its
    thousands (disc + 1000 x bytes): which instruction an entry IS depends on the first eight bytes only -/
def parseIxs : List Int → Option (List Ix)
  | [] => some []
  | p :: d :: a :: rest => (parseIxs rest).map fun l => { prog := p.toNat, disc := optNat (if d ≥ 0 then d % 1000 else d), acct0 := optNat a, arg := 0 } :: l
  | _ => none

def showU (r : Res Unit) : String :=
  match r with
  | .ok _ => "ok"
  | .error f => Res.showFail f

def txOp (op : String) (a : List Int) : Option String :=
  match op, a with
  | "tx.validate", s :: e :: cur :: stack :: rest =>
    some (match parseIxs rest with
      | some ixs => showU (validateInstructions ixs cur.toNat stack.toNat s.toNat e.toNat)
      | none => "bad-args")
  | "tx.canstart", cur :: stack :: endIdx :: key :: fd :: ff :: fr :: fz :: rest =>
    some (match parseIxs rest with
      | some ixs => showU (canStartFlashloan ixs cur.toNat stack.toNat endIdx.toNat key.toNat
          { disabled := fd != 0, flash := ff != 0, recv := fr != 0, frozen := fz != 0 })
      | none => "bad-args")
  | _, _ => none
end Mfi.Driver
