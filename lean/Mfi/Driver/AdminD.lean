import Mfi.Model.Admin
import Mfi.Driver.Basic
import Mfi.Driver.BankD
namespace Mfi.Driver
open Mfi Mfi.Admin Mfi.Interest

def parseCfg (a : List Int) : Option (Cfg × List Int) :=
  match a with
  | aInit :: aMaint :: lInit :: lMaint :: dl :: bl :: st :: rt :: tag :: il :: omc :: oma ::
    optimal :: plateau :: maxIr :: insFixed :: insRate :: grpFixed :: grpRate :: orig :: zero :: hundred ::
    u1 :: r1 :: u2 :: r2 :: u3 :: r3 :: u4 :: r4 :: u5 :: r5 :: ct :: rest =>
    match Gate.OpState.ofInt st with
    | none => none
    | some s =>
      some ({ aInit, aMaint, lInit, lMaint, depositLimit := dl, borrowLimit := bl, opState := s, riskTier := rt,
              assetTag := tag, initLimit := il, oracleMaxConf := omc, oracleMaxAge := oma,
              ir := { optimal, plateau, maxIr, insFixed, insRate, grpFixed, grpRate, origination := orig,
                      zeroRate := zero, hundredRate := hundred,
                      points := [⟨u1, r1⟩, ⟨u2, r2⟩, ⟨u3, r3⟩, ⟨u4, r4⟩, ⟨u5, r5⟩], curveType := ct } }, rest)
  | _ => none

def stNum : Gate.OpState → Int
  | .paused => 0 | .operational => 1 | .reduceOnly => 2 | .killedByBankruptcy => 3

def showCfg (c : Cfg) : String :=
  let pts := c.ir.points.flatMap fun p => [p.util, p.rate]
  joinInts ([c.aInit, c.aMaint, c.lInit, c.lMaint, c.depositLimit, c.borrowLimit, stNum c.opState, c.riskTier,
    c.assetTag, c.initLimit, c.oracleMaxConf, c.oracleMaxAge, c.ir.optimal, c.ir.plateau, c.ir.maxIr, c.ir.insFixed,
    c.ir.insRate, c.ir.grpFixed, c.ir.grpRate, c.ir.origination, c.ir.zeroRate, c.ir.hundredRate] ++ pts ++ [c.ir.curveType])

def optI (p v : Int) : Option Int := if p != 0 then some v else none
def optB (p v : Int) : Option Bool := if p != 0 then some (v != 0) else none

def parseOpt (a : List Int) : Option CfgOpt :=
  match a with
  | p1 :: v1 :: p2 :: v2 :: p3 :: v3 :: p4 :: v4 :: p5 :: v5 :: p6 :: v6 :: p7 :: v7 :: p8 :: v8 :: p9 :: v9 ::
    p10 :: v10 :: p11 :: v11 :: p12 :: v12 :: p13 :: v13 :: p14 :: v14 :: p15 :: v15 ::
    pir :: q1 :: w1 :: q2 :: w2 :: q3 :: w3 :: q4 :: w4 :: q5 :: w5 :: q6 :: w6 :: q7 :: w7 ::
    pp :: u1 :: r1 :: u2 :: r2 :: u3 :: r3 :: u4 :: r4 :: u5 :: r5 :: [] =>
    let st : Option (Option Gate.OpState) := if p7 != 0 then (Gate.OpState.ofInt v7).map some else some none
    match st with
    | none => none
    | some st =>
      some { aInit := optI p1 v1, aMaint := optI p2 v2, lInit := optI p3 v3, lMaint := optI p4 v4,
             depositLimit := optI p5 v5, borrowLimit := optI p6 v6, opState := st,
             riskTier := optI p8 v8, assetTag := optI p9 v9, initLimit := optI p10 v10,
             oracleMaxConf := optI p11 v11, oracleMaxAge := optI p12 v12,
             permissionlessBadDebt := optB p13 v13, freezeSettings := optB p14 v14,
             tokenlessRepaymentsAllowed := optB p15 v15,
             ir := if pir != 0 then
               some { insFixed := optI q1 w1, insRate := optI q2 w2, grpFixed := optI q3 w3, grpRate := optI q4 w4,
                      origination := optI q5 w5, zeroRate := optI q6 w6, hundredRate := optI q7 w7,
                      points := if pp != 0 then some [⟨u1, r1⟩, ⟨u2, r2⟩, ⟨u3, r3⟩, ⟨u4, r4⟩, ⟨u5, r5⟩] else none }
             else none }
  | _ => none

def parseEntries : List Int → Option (List Entry)
  | [] => some []
  | t :: f :: i :: m :: rest => (parseEntries rest).map fun l => ⟨t, f, i, m⟩ :: l
  | _ => none

def adminOp (op : String) (a : List Int) : Option String :=
  match op with
  | "adm.validate" =>
    match parseCfg a with
    | some (c, []) => some (showResB ((validateCfg c).map fun _ => ""))
    | _ => some "bad-args"
  | "adm.configure" =>
    match parseCfg a with
    | some (c, flags :: rest) =>
      match parseOpt rest with
      | some o => some (showResB ((configure c flags.toNat o).map fun (c', f') => s!"{showCfg c'} {f'}"))
      | none => some "bad-args"
    | _ => some "bad-args"
  | "adm.ixcfg" =>
    -- <cfg 33> flags maxInit maxMaint <opt 56> <entries 10 x 4>
    match parseCfg a with
    | some (c, flags :: mi :: mm :: rest) =>
      match parseOpt (rest.take 56), parseEntries (rest.drop 56) with
      | some o, some es => some (showResB ((ixConfigureBank c flags.toNat es mi mm o).map fun (c', f') => s!"{showCfg c'} {f'}"))
      | _, _ => some "bad-args"
    | _ => some "bad-args"
  | "adm.ixir" =>
    -- <cfg 33> flags <opt 56> (only the interest part of the option record is used)
    match parseCfg a with
    | some (c, flags :: rest) =>
      match parseOpt rest with
      | some o =>
        match o.ir with
        | some io => some (showResB ((ixConfigureInterestOnly c flags.toNat io).map showCfg))
        | none => some "bad-args"
      | none => some "bad-args"
    | _ => some "bad-args"
  | "adm.ixlim" =>
    match parseCfg a with
    | some (c, [flags, pd, d, pb, b, pi, i]) =>
      some (s!"ok {showCfg (ixConfigureLimitsOnly c flags.toNat (optI pd d) (optI pb b) (optI pi i))}")
    | _ => some "bad-args"
  | "adm.u32basis" =>
    match a with
    | [v] => some (toString (u32ToBasis v))
    | _ => some "bad-args"
  | "adm.emode" =>
    match a with
    | li :: lm :: mi :: mm :: rest =>
      match parseEntries rest with
      | some es => some (showResB ((validateEmode es li lm mi mm).map fun _ => ""))
      | none => some "bad-args"
    | _ => some "bad-args"
  | "adm.override" =>
    match a with
    | [flags, f] => some (showResB ((overrideEmissionsFlag flags.toNat f.toNat).map toString))
    | _ => some "bad-args"
  | "adm.window" =>
    match a with
    | [lim, wd, lr, v, now] =>
      some (showResB ((updateWithdrawnEquity ⟨lim, wd, lr⟩ v now).map fun w => joinInts [w.dailyLimit, w.withdrawnToday, w.lastReset]))
    | _ => some "bad-args"
  | _ => none

end Mfi.Driver
