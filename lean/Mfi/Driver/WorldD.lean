import Mfi.Model.World
import Mfi.Driver.Basic
import Mfi.Driver.BankD
import Mfi.Driver.InterestD
import Mfi.Driver.RiskD
import Mfi.Driver.TransferD
namespace Mfi.Driver
open Mfi Mfi.World

def parseRisk (now : Int) : Nat → List Int → Option (List RiskB × List Int)
  | 0, rest => some ([], rest)
  | n + 1, key :: rest =>
    match parsePos now rest with
    | some (p, r) => (parseRisk now n r).map fun (rs, r2) => ({ key := key.toNat, r := p.bank, feed := p.feed } :: rs, r2)
    | none => none
  | _, _ => none

/-- `wd.<dep|wd|bor|rep|close> now  gkey gadmin grisk paused progFeeRate dailyLimit withdrawnToday lastReset
      akey agroup aauthority aflags <16 slots x 7>  signer
      bkey bgroup bvault <bank 16> last_update <ir 23> opState origFee tfBps tfMax weightInitZero
      vaultKey vaultAmount  nrisk (key <position line>)*  amount flag`
    → `ok <16 slots x 7> <bank 16> last_update tokens dailyLimit withdrawnToday lastReset` | `err code` | `panic` -/
def worldOp (op : String) (a : List Int) : Option String :=
  if !op.startsWith "wd." then none else
  let r : Option String := do
    match a with
    | now :: gkey :: gadmin :: grisk :: paused :: pfr :: dl :: wt :: lr :: akey :: agroup :: aauth :: aflags :: rest =>
      let (slots, rest) ← parseSlots7 16 rest
      match rest with
      | signer :: bkey :: bgroup :: bvault :: rest =>
        let (books, rest) ← parseBank rest
        match rest with
        | last :: rest =>
          let (ir, rest) ← parseIr rest
          match rest with
          | opState :: origFee :: tfBps :: tfMax :: wz :: vaultKey :: vaultAmount :: nrisk :: rest =>
            let (risk, rest) ← parseRisk now nrisk.toNat rest
            match rest with
            | [amount, fl] =>
              let c : Ctx := {
                now,
                g := { key := gkey.toNat, admin := gadmin.toNat, riskAdmin := grisk.toNat, paused := s2b paused, progFeeRate := pfr,
                       window := { dailyLimit := dl, withdrawnToday := wt, lastReset := lr } },
                a := { key := akey.toNat, group := agroup.toNat, authority := aauth.toNat, flags := aflags.toNat, slots },
                signer := signer.toNat,
                b := { key := bkey.toNat, group := bgroup.toNat, liquidityVault := bvault.toNat, books := { books with lastUpdate := last },
                       ir, opState, origFee, tfBps, tfMax, weightInitZero := s2b wz },
                vaultKey := vaultKey.toNat, vaultAmount, risk }
              let res : Option (Res Out) :=
                match op with
                | "wd.dep" => some (World.deposit c amount (s2b fl))
                | "wd.wd" => some (World.withdraw c amount (s2b fl))
                | "wd.bor" => some (World.borrow c amount)
                | "wd.rep" => some (World.repay c amount (s2b fl))
                | "wd.close" => some (World.closeBalance c)
                | _ => none
              if op == "wd.bkr" then
                some (showResB ((World.bankruptcy c amount).map fun o =>
                  s!"{showSlots7 o.slots} {showBank o.books} {o.books.lastUpdate} {o.insuranceTokens} {o.opState} {o.flags}"))
              else
              let res ← res
              some (showResB (res.map fun o =>
                s!"{showSlots7 o.slots} {showBank o.books} {o.books.lastUpdate} {o.tokens} {o.window.dailyLimit} {o.window.withdrawnToday} {o.window.lastReset}"))
            | _ => none
          | _ => none
        | _ => none
      | _ => none
    | _ => none
  some (r.getD "bad-args")

end Mfi.Driver
