import Mfi.Model.World
import Mfi.Model.WorldTx
import Mfi.Driver.Basic
import Mfi.Driver.BankD
import Mfi.Driver.InterestD
import Mfi.Driver.RiskD
import Mfi.Driver.TransferD
namespace Mfi.Driver
open Mfi Mfi.World

def parseRisk (now : Int) : Nat → List Int → Option (List RiskB × List Int)
  | 0, rest => some ([], rest)
  | n + 1, key :: rest =>
    match parsePos now rest with
    | some (p, r) => (parseRisk now n r).map fun (rs, r2) => ({ key := key.toNat, r := p.bank, feed := p.feed } :: rs, r2)
    | none => none
  | _, _ => none

/-- the common context of the `wd.*` lines (everything up to and including the risk banks) and what follows it -/
def parseCtx (a : List Int) : Option (Ctx × List Int) := do
  match a with
  | now :: gkey :: gadmin :: grisk :: paused :: pfr :: dl :: wt :: lr :: akey :: agroup :: aauth :: aflags :: rest =>
    let (slots, rest) ← parseSlots7 16 rest
    match rest with
    | signer :: bkey :: bgroup :: bvault :: rest =>
      let (books, rest) ← parseBank rest
      match rest with
      | last :: rest =>
        let (ir, rest) ← parseIr rest
        match rest with
        | opState :: origFee :: tfBps :: tfMax :: wz :: vaultKey :: vaultAmount :: nrisk :: rest =>
          let (risk, rest) ← parseRisk now nrisk.toNat rest
          some ({
            now,
            g := { key := gkey.toNat, admin := gadmin.toNat, riskAdmin := grisk.toNat, paused := s2b paused, progFeeRate := pfr,
                   window := { dailyLimit := dl, withdrawnToday := wt, lastReset := lr } },
            a := { key := akey.toNat, group := agroup.toNat, authority := aauth.toNat, flags := aflags.toNat, slots },
            signer := signer.toNat,
            b := { key := bkey.toNat, group := bgroup.toNat, liquidityVault := bvault.toNat, books := { books with lastUpdate := last },
                   ir, opState, origFee, tfBps, tfMax, weightInitZero := s2b wz },
            vaultKey := vaultKey.toNat, vaultAmount, risk }, rest)
        | _ => none
      | _ => none
    | _ => none
  | _ => none

/-- the transaction of a `wd.startliq` line: one code per instruction (0 start_liquidation, 1 end_liquidation, 2 withdraw,
    3 repay, 5 start_deleverage, 6 end_deleverage, anything else: another marginfi instruction) -/
def txOfCodes (codes : List Int) : List TOp :=
  codes.map fun k =>
    if k == 0 then TOp.startLiq 0 0 true else if k == 1 then TOp.endLiq 0 0 true true 0
    else if k == 5 then TOp.startDelev 0 0 true else if k == 6 then TOp.endDelev 0 0 true
    else if k == 2 then TOp.ix (.withdraw 0 0 0 0 false 0) else if k == 3 then TOp.ix (.repay 0 0 0 0 false)
    else TOp.ix (.accrue 0)

/-- `wd.startliq <context> recordOk receiver n code_1 … code_n cur` → `ok <flags> <receiver> <cache x4>`;
    `wd.endliq <context> recordOk recReceiver walletOk feeMax aMaint lMaint aEq lEq` (signer = the context's signer) → `ok <flags>` -/
def worldRecvOp (op : String) (a : List Int) : Option String :=
  if op != "wd.startliq" && op != "wd.endliq" then none else
  let r : Option String := do
    let (c, rest) ← parseCtx a
    if op == "wd.startliq" then
      match rest with
      | recordOk :: receiver :: n :: rest =>
        let codes := rest.take n.toNat
        match rest.drop n.toNat with
        | [cur] =>
          let rc : RCtx := { now := c.now, g := c.g, a := c.a, recordOk := s2b recordOk, receiver := receiver.toNat, walletOk := true, feeMax := 0, risk := c.risk }
          some (showResB ((World.startLiquidation rc (World.liqShape (txOfCodes codes) cur.toNat)).map fun o =>
            s!"{o.flags} {o.receiver} {o.cache.aMaint} {o.cache.lMaint} {o.cache.aEq} {o.cache.lEq}"))
        | _ => none
      | _ => none
    else
      match rest with
      | [recordOk, recReceiver, walletOk, feeMax, am, lm, ae, le] =>
        let acct : AcctV := { c.a with recReceiver := recReceiver.toNat, recCache := { aMaint := am, lMaint := lm, aEq := ae, lEq := le } }
        let rc : RCtx := { now := c.now, g := c.g, a := acct, recordOk := s2b recordOk, receiver := c.signer, walletOk := s2b walletOk, feeMax, risk := c.risk }
        some (showResB ((World.endLiquidation rc 1).map fun o => s!"{o.flags}"))
      | _ => none
  some (r.getD "bad-args")

/-- `wd.startdelev <context> recordOk n code_1 … code_n cur` (the context's signer is the account passed as risk_admin) →
    `ok <flags> <receiver> <cache x4>`;  `wd.enddelev <context> recordOk recReceiver aMaint lMaint aEq lEq` → `ok <flags>` -/
def worldDelevOp (op : String) (a : List Int) : Option String :=
  if op != "wd.startdelev" && op != "wd.enddelev" then none else
  let r : Option String := do
    let (c, rest) ← parseCtx a
    if op == "wd.startdelev" then
      match rest with
      | recordOk :: n :: rest =>
        let codes := rest.take n.toNat
        match rest.drop n.toNat with
        | [cur] =>
          let rc : RCtx := { now := c.now, g := c.g, a := c.a, recordOk := s2b recordOk, receiver := c.signer, walletOk := true, feeMax := 0, risk := c.risk }
          some (showResB ((World.startDeleverage rc (World.delevShape (txOfCodes codes) cur.toNat)).map fun o =>
            s!"{o.flags} {o.receiver} {o.cache.aMaint} {o.cache.lMaint} {o.cache.aEq} {o.cache.lEq}"))
        | _ => none
      | _ => none
    else
      match rest with
      | [recordOk, recReceiver, am, lm, ae, le] =>
        let acct : AcctV := { c.a with recReceiver := recReceiver.toNat, recCache := { aMaint := am, lMaint := lm, aEq := ae, lEq := le } }
        let rc : RCtx := { now := c.now, g := c.g, a := acct, recordOk := s2b recordOk, receiver := c.signer, walletOk := true, feeMax := 0, risk := c.risk }
        some (showResB ((World.endDeleverage rc 1).map fun o => s!"{o.flags}"))
      | _ => none
  some (r.getD "bad-args")

/-- `wd.<dep|wd|bor|rep|close> now  gkey gadmin grisk paused progFeeRate dailyLimit withdrawnToday lastReset
      akey agroup aauthority aflags <16 slots x 7>  signer
      bkey bgroup bvault <bank 16> last_update <ir 23> opState origFee tfBps tfMax weightInitZero
      vaultKey vaultAmount  nrisk (key <position line>)*  amount flag`
    → `ok <16 slots x 7> <bank 16> last_update tokens dailyLimit withdrawnToday lastReset` | `err code` | `panic` -/
def worldOp (op : String) (a : List Int) : Option String :=
  if !op.startsWith "wd." || op == "wd.liq" then none else
  let r : Option String := do
    match a with
    | now :: gkey :: gadmin :: grisk :: paused :: pfr :: dl :: wt :: lr :: akey :: agroup :: aauth :: aflags :: rest =>
      let (slots, rest) ← parseSlots7 16 rest
      match rest with
      | signer :: bkey :: bgroup :: bvault :: rest =>
        let (books, rest) ← parseBank rest
        match rest with
        | last :: rest =>
          let (ir, rest) ← parseIr rest
          match rest with
          | opState :: origFee :: tfBps :: tfMax :: wz :: vaultKey :: vaultAmount :: nrisk :: rest =>
            let (risk, rest) ← parseRisk now nrisk.toNat rest
            match rest with
            | [amount, fl] =>
              let c : Ctx := {
                now,
                g := { key := gkey.toNat, admin := gadmin.toNat, riskAdmin := grisk.toNat, paused := s2b paused, progFeeRate := pfr,
                       window := { dailyLimit := dl, withdrawnToday := wt, lastReset := lr } },
                a := { key := akey.toNat, group := agroup.toNat, authority := aauth.toNat, flags := aflags.toNat, slots },
                signer := signer.toNat,
                b := { key := bkey.toNat, group := bgroup.toNat, liquidityVault := bvault.toNat, books := { books with lastUpdate := last },
                       ir, opState, origFee, tfBps, tfMax, weightInitZero := s2b wz },
                vaultKey := vaultKey.toNat, vaultAmount, risk }
              let res : Option (Res Out) :=
                match op with
                | "wd.dep" => some (World.deposit c amount (s2b fl))
                | "wd.wd" => some (World.withdraw c amount (s2b fl))
                | "wd.bor" => some (World.borrow c amount)
                | "wd.rep" => some (World.repay c amount (s2b fl))
                | "wd.close" => some (World.closeBalance c)
                | _ => none
              if op == "wd.emis" then
                -- (amount field: 1 = the emissions mint passed is the bank's, 0 = another mint)
                let c' : Ctx := { c with b := { c.b with emissionsMint := 1 }, emisMint := if amount = 1 then 1 else 2 }
                some (showResB ((World.withdrawEmissions c').map fun o =>
                  s!"{showSlots7 o.slots} {showBank o.books} {o.books.lastUpdate} {o.tokens} {o.window.dailyLimit} {o.window.withdrawnToday} {o.window.lastReset}"))
              else if op == "wd.accrue" then
                some (showResB ((World.accrueIx c).map fun b => s!"{showBank b} {b.lastUpdate}"))
              else if op == "wd.collect" then
                -- (amount field: 1 = the fee ATA passed is the global fee wallet's for the bank's mint, 0 = another account)
                some (showResB ((World.collectFeesIx c (amount == 1)).map fun o =>
                  s!"{showBank o.books} {o.books.lastUpdate} {o.toInsurance} {o.toGroup} {o.toProgram}"))
              else if op == "wd.startfl" then
                -- (amount field: cur * 1000000 + end_index * 100 + code; code 0 = nothing at end_index, 1 = not an end for this account, 2 = one)
                let code := amount % 100
                let endIdx := (amount / 100) % 10000
                let cur := amount / 1000000
                let endIx : Option Bool := if code == 0 then none else some (code == 2)
                some (showResB ((World.startFlashloan c cur.toNat endIdx.toNat endIx).map fun f => s!"{f}"))
              else if op == "wd.closeacct" then
                some (showResB ((World.closeAccount c).map fun _ => "closed"))
              else if op == "wd.endfl" then
                some (showResB ((World.endFlashloan c amount.toNat).map fun f => s!"{f}"))
              else if op == "wd.bkr" then
                some (showResB ((World.bankruptcy c amount).map fun o =>
                  s!"{showSlots7 o.slots} {showBank o.books} {o.books.lastUpdate} {o.insuranceTokens} {o.opState} {o.flags}"))
              else
              let res ← res
              some (showResB (res.map fun o =>
                s!"{showSlots7 o.slots} {showBank o.books} {o.books.lastUpdate} {o.tokens} {o.window.dailyLimit} {o.window.withdrawnToday} {o.window.lastReset}"))
            | _ => none
          | _ => none
        | _ => none
      | _ => none
    | _ => none
  some (r.getD "bad-args")

def parseAcctV (a : List Int) : Option (AcctV × List Int) :=
  match a with
  | akey :: agroup :: aauth :: aflags :: rest =>
    (parseSlots7 16 rest).map fun (slots, r) => ({ key := akey.toNat, group := agroup.toNat, authority := aauth.toNat, flags := aflags.toNat, slots }, r)
  | _ => none

def parseBankV (a : List Int) : Option (BankV × List Int) :=
  match a with
  | bkey :: bgroup :: bvault :: rest =>
    match parseBank rest with
    | some (books, last :: rest) =>
      match parseIr rest with
      | some (ir, opState :: origFee :: tfBps :: tfMax :: wz :: rest) =>
        some ({ key := bkey.toNat, group := bgroup.toNat, liquidityVault := bvault.toNat, books := { books with lastUpdate := last },
                ir, opState, origFee, tfBps, tfMax, weightInitZero := s2b wz }, rest)
      | _ => none
    | _ => none
  | _ => none

/-- `wd.liq now <group 8> <liquidator: 4 + 16x7> <liquidatee: 4 + 16x7> signer <asset bank: 3 + 16 + 1 + 23 + 5> <liab bank: same>
      nrisk (key <position line>)* amount`
    → `ok <liquidator 16x7> <liquidatee 16x7> <asset bank 16> last <liab bank 16> last <insurance tokens>` -/
def worldLiqOp (op : String) (a : List Int) : Option String :=
  if op != "wd.liq" then none else
  let r : Option String := do
    match a with
    | now :: gkey :: gadmin :: grisk :: paused :: pfr :: dl :: wt :: lr :: rest =>
      let (lq, rest) ← parseAcctV rest
      let (le, rest) ← parseAcctV rest
      match rest with
      | signer :: rest =>
        let (ab, rest) ← parseBankV rest
        let (lb, rest) ← parseBankV rest
        match rest with
        | nrisk :: rest =>
          let (risk, rest) ← parseRisk now nrisk.toNat rest
          match rest with
          | [amount] =>
            let c : LiqCtx := {
              now,
              g := { key := gkey.toNat, admin := gadmin.toNat, riskAdmin := grisk.toNat, paused := s2b paused, progFeeRate := pfr,
                     window := { dailyLimit := dl, withdrawnToday := wt, lastReset := lr } },
              lq, le, signer := signer.toNat, ab, lb, risk }
            some (showResB ((World.liquidate c amount).map fun o =>
              s!"{showSlots7 o.lqSlots} {showSlots7 o.leSlots} {showBank o.assetBooks} {o.assetBooks.lastUpdate} {showBank o.liabBooks} {o.liabBooks.lastUpdate} {o.insuranceTokens}"))
          | _ => none
        | _ => none
      | _ => none
    | _ => none
  some (r.getD "bad-args")

/-- `wd.xfer <same arguments as xfer.run>` → the world machine's view of the transfer (`World.transferIx`):
    `ok <old: group authority flags migratedTo 16 slots> // <new: the same>` -/
def worldXferOp (op : String) (a : List Int) : Option String :=
  if op != "wd.xfer" then none else
  match parseSlots7 16 a with
  | none => some "bad-args"
  | some (s, rest) =>
    match rest with
    | [group, auth, flags, _emisDest, _mFrom, mTo, _lu, oldKey, groupKey, groupAdmin, cachedFw, paused, signer, newKey, newAuth, feeWallet, _now] =>
      let g : GroupV := { key := groupKey.toNat, admin := groupAdmin.toNat, riskAdmin := 0, paused := s2b paused, progFeeRate := 0,
                          window := { dailyLimit := 0, withdrawnToday := 0, lastReset := 0 } }
      let acct : AcctV := { key := oldKey.toNat, group := group.toNat, authority := auth.toNat, flags := flags.toNat, slots := s, migratedTo := mTo.toNat }
      let sh (x : AcctV) : String := s!"{x.group} {x.authority} {x.flags} {x.migratedTo} {showSlots7 x.slots}"
      some (showResB ((World.transferIx g acct signer.toNat newKey.toNat newAuth.toNat (feeWallet == cachedFw)).map fun (o, n) => s!"{sh o} // {sh n}"))
    | _ => some "bad-args"

end Mfi.Driver
