import Mfi.Model.Bank
import Mfi.Driver.Basic
import Mfi.Driver.InterestD
namespace Mfi.Driver
open Mfi Mfi.Bank

def parseBank (a : List Int) : Option (Bank × List Int) :=
  match a with
  | asv :: lsv :: sa :: sl :: fi :: fg :: fp :: dl :: bl :: flags :: tag :: dec :: er :: erem :: lc :: bc :: rest =>
    some ({ asv, lsv, sa, sl, feeI := fi, feeG := fg, feeP := fp, depositLimit := dl, borrowLimit := bl,
            flags := flags.toNat, assetTag := tag, mintDecimals := dec, emissionsRate := er,
            emissionsRemaining := erem, lendCnt := lc, borrowCnt := bc, lastUpdate := 0, cacheAccum := 0,
            cacheFor := 0 }, rest)
  | _ => none

def parseBal (a : List Int) : Option (Balance × List Int) :=
  match a with
  | act :: tag :: x :: l :: e :: lu :: rest =>
    some ({ active := s2b act, tag, a := x, l, emis := e, lastUpdate := lu }, rest)
  | _ => none

def showBank (b : Bank) : String :=
  joinInts [b.asv, b.lsv, b.sa, b.sl, b.feeI, b.feeG, b.feeP, b.depositLimit, b.borrowLimit, (b.flags : Int),
            b.assetTag, b.mintDecimals, b.emissionsRate, b.emissionsRemaining, b.lendCnt, b.borrowCnt]

def showBal (x : Balance) : String :=
  joinInts [if x.active then 1 else 0, x.tag, x.a, x.l, x.emis, x.lastUpdate]

def showFailB (f : Fail) : String :=
  match f with
  | .mathErr => s!"err {Mfi.Gen.E.MathError}"
  | .err c => s!"err {c}"
  | .panic => "panic"

def showResB (r : Res String) : String :=
  match r with
  | .ok s => if s.isEmpty then "ok" else s!"ok {s}"
  | .error f => showFailB f

def pair (r : Res (Bank × Balance)) : String :=
  showResB (r.map fun (b, x) => s!"{showBank b} {showBal x}")
def triple (r : Res (Bank × Balance × Int)) : String :=
  showResB (r.map fun (b, x, n) => s!"{showBank b} {showBal x} {n}")

def bankOp (op : String) (args : List Int) : Option String :=
  if op.startsWith "w." then
    match parseBank args with
    | none => some "bad-args"
    | some (b, rest) =>
      match parseBal rest with
      | some (x, [now, amt]) =>
        match op with
        | "w.dep" => some (pair (increaseBalance b x now amt .depositOnly))
        | "w.rep" => some (pair (increaseBalance b x now amt .repayOnly))
        | "w.depcap" => some (pair (increaseBalance b x now amt .bypassDepositLimit))
        | "w.wd" => some (pair (decreaseBalance b x now amt .withdrawOnly))
        | "w.bor" => some (pair (decreaseBalance b x now amt .borrowOnly))
        | "w.wdcap" => some (pair (decreaseBalance b x now amt .bypassBorrowLimit))
        | "w.wdall" => some (triple (withdrawAll b x now))
        | "w.repall" => some (triple (repayAll b x now))
        | "w.close" => some (pair (closeBalanceOp b x now))
        | "w.claim" => some (pair (claimEmissions b x now))
        | "w.settle" => some (triple (settleEmissions b x now))
        | _ => none
      | _ => some "bad-args"
  else if op == "bk.handle" then
    match parseBank args with
    | none => some "bad-args"
    | some (b, rest) =>
      match parseBal rest with
      | some (x, [avail, now]) =>
        some (showResB ((settleBankruptcy b x avail now).map fun o =>
          s!"{showBank o.bank} {showBal o.bal} {o.coveredUp} {if o.kill then 1 else 0}"))
      | _ => some "bad-args"
  else if op == "fee.collect" then
    match args with
    | [fi, fg, fp, v] =>
      some (showResB ((collectFees fi fg fp v).map fun c => joinInts [c.feeI, c.feeG, c.feeP, c.toInsurance, c.toGroup, c.toProgram]))
    | _ => some "bad-args"
  else if op.startsWith "b." then
    match parseBank args with
    | none => some "bad-args"
    | some (b, rest) =>
      match op, rest with
      | "b.cap", [] => some (showResB ((remainingDepositCapacity b).map toString))
      | "b.soc", [loss] => some (showResB ((socializeLoss b loss).map fun (b', k) => s!"{b'.asv} {b2s k}"))
      | "b.util", [] => some (showResB ((checkUtilization b).map fun _ => ""))
      | "b.accrue", last :: rest2 =>
        match parseIr rest2 with
        | some (ir, [now]) =>
          some (showResB ((accrueInterest { b with lastUpdate := last } ir now).map fun b' =>
            s!"{showBank b'} {b'.lastUpdate} {b'.cacheAccum} {b'.cacheFor}"))
        | _ => some "bad-args"
      | _, _ => some "bad-args"
  else none

end Mfi.Driver
