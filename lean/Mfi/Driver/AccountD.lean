import Mfi.Model.Account
import Mfi.Driver.Basic
import Mfi.Driver.BankD
namespace Mfi.Driver
open Mfi Mfi.Account

def parseSlots : Nat → List Int → Option (List Slot × List Int)
  | 0, rest => some ([], rest)
  | n + 1, act :: bank :: tag :: a :: l :: rest =>
    (parseSlots n rest).map fun (ss, r) => ({ active := s2b act, bank := bank.toNat, tag, a, l, emis := 0, lastUpdate := 0 } :: ss, r)
  | _, _ => none

def showSlots (s : List Slot) : String :=
  " ".intercalate (s.map fun x => joinInts [if x.active then 1 else 0, (x.bank : Int), x.tag, x.a, x.l])

def acctOp (op : String) (a : List Int) : Option String :=
  if !op.startsWith "acct." then none else
  match parseSlots 16 a with
  | none => some "bad-args"
  | some (s, rest) =>
    match op, rest with
    | "acct.foc", [bank, tag, now] =>
      some (showResB ((findOrCreate s bank.toNat tag now).map fun (s', i) =>
        match s'[i]? with
        | some x => s!"{showSlots s'} {x.bank} {x.tag}"
        | none => "bad-index"))
    | "acct.sort", [] => some (showSlots (sortBalances s))
    | "acct.tags", [tag] => some (showResB ((validateAssetTags s tag).map fun _ => ""))
    | "acct.canclose", [d, f, r] => some (showResB ((canBeClosed s (s2b d) (s2b f) (s2b r)).map b2s))
    | _, _ => some "bad-args"

end Mfi.Driver
