/-
  Model of programs/marginfi/src/state/interest_rate.rs:
    InterestRateConfig::{validate_seven_point, validate_legacy, validate},
    InterestRateCalc::{calc_interest_rate, interest_rate_curve, interest_rate_multipoint_curve,
                       lerp, rate_from_u32, util_from_u32, get_fees},
    calc_fee_rate, calc_accrued_interest_payment_per_period, calc_interest_payment_for_period,
    calc_interest_rate_accrual_state_changes.
  All I80F48 values are bit patterns (Int). Unchecked `+`/`-` abort on overflow (the program is
  built with overflow-checks = true): `addP`/`subP`. Unchecked `*`,`/` wrap (debug_assert only).
-/
import Mfi.Fx
import Mfi.Model.Res
import Mfi.Gen.Consts
import Mfi.Gen.Errors

namespace Mfi.Interest
open Mfi Mfi.Fx

def U32MAX : Int := 4294967295
def TEN : Int := 10 * ONE

/-- unchecked `a + b` on I80F48 under overflow-checks: abort on overflow -/
def addP (a b : Int) : Res Int := if inRange (a + b) then .ok (a + b) else .error .panic
def subP (a b : Int) : Res Int := if inRange (a - b) then .ok (a - b) else .error .panic

structure Point where
  util : Int   -- u32
  rate : Int   -- u32
  deriving DecidableEq, Repr

/-- The fields of InterestRateCalc (config + group fee cache + program-fee switch). -/
structure IrCalc where
  optimal : Int
  plateau : Int
  maxIr : Int
  insFixed : Int
  insRate : Int
  grpFixed : Int        -- protocol_fixed_fee_apr ("group" fee)
  grpRate : Int         -- protocol_ir_fee
  progFixed : Int       -- fee_state_cache.program_fee_fixed
  progRate : Int
  addProgramFees : Bool
  zeroRate : Int        -- u32
  hundredRate : Int     -- u32
  points : List Point   -- exactly CURVE_POINTS entries in the real struct
  curveType : Int
  deriving DecidableEq, Repr

structure Rates where
  base : Int
  lending : Int
  borrowing : Int
  groupFee : Int
  insuranceFee : Int
  protocolFee : Int
  deriving DecidableEq, Repr

/-- `rate_from_u32`: (from_num(r) / from_num(u32::MAX)) * from_num(10); both unchecked ops are
    exact-in-range for every u32. Bits: 10·⌊r·2^48 / U32MAX⌋. -/
def rateFromU32 (r : Int) : Int := ((Int.tdiv ((r * ONE) * ONE) (U32MAX * ONE)) * TEN) / ONE

/-- `util_from_u32` -/
def utilFromU32 (u : Int) : Int := Int.tdiv ((u * ONE) * ONE) (U32MAX * ONE)

/-- `InterestRateCalc::lerp` — the unchecked `-`, `/`, `+` are modelled with their abort/wrap
    semantics; `Props/C18` shows none of them leaves the range on the curve's call sites. -/
def lerp (sx sy ex ey t : Int) : Res Int :=
  if ex ≤ sx then .ok sy
  else if t < sx then .error .mathErr
  else if t > ex then .error .mathErr
  else if ey < sy then .error .mathErr
  else do
    let dx ← subP ex sx
    if dx = 0 then .ok sy else do
    let off ← subP t sx
    let prop := wrap (Int.tdiv (off * ONE) dx)
    let dy ← subP ey sy
    let scaled ← Res.ofOpt (mul? dy prop)
    addP sy scaled

def clampUr (ur : Int) : Int := min (max ur 0) ONE

/-- the loop of `interest_rate_multipoint_curve` over the points with util ≠ 0 -/
def curveLoop (pts : List Point) (prevU prevR : Int) (hundred : Int) (ur : Int) : Res Int :=
  match pts with
  | [] => lerp prevU prevR ONE hundred ur
  | p :: rest =>
    if p.util = 0 then curveLoop rest prevU prevR hundred ur
    else
      let pu := utilFromU32 p.util
      let pr := rateFromU32 p.rate
      if ur ≤ pu then lerp prevU prevR pu pr ur
      else curveLoop rest pu pr hundred ur

/-- `interest_rate_multipoint_curve` -/
def multipointCurve (c : IrCalc) (ur : Int) : Res Int :=
  curveLoop c.points 0 (rateFromU32 c.zeroRate) (rateFromU32 c.hundredRate) (clampUr ur)

/-- `interest_rate_curve` (legacy three-point) -/
def legacyCurve (c : IrCalc) (ur0 : Int) : Res Int :=
  let ur := clampUr ur0
  if ur ≤ c.optimal then do
    let q ← Res.ofOpt (div? ur c.optimal)
    Res.ofOpt (mul? q c.plateau)
  else do
    let num ← subP ur c.optimal
    let den ← subP ONE c.optimal
    let q ← Res.ofOpt (div? num den)
    let dm ← subP c.maxIr c.plateau
    let m ← Res.ofOpt (mul? q dm)
    Res.ofOpt (add? m c.plateau)

def baseRate (c : IrCalc) (ur : Int) : Res Int :=
  if c.curveType = 0 then legacyCurve c ur
  else if c.curveType = 1 then multipointCurve c ur
  else .error .panic

/-- `calc_fee_rate` -/
def calcFeeRate (base rateFee fixedFee : Int) : Res Int :=
  if rateFee = 0 then .ok fixedFee
  else do
    let m ← Res.ofOpt (mul? base rateFee)
    Res.ofOpt (add? m fixedFee)

def assertNonneg (x : Int) : Res Unit := if x ≥ 0 then .ok () else .error .panic

/-- `InterestRateCalc::calc_interest_rate` -/
def calcInterestRate (c : IrCalc) (ur : Int) : Res Rates := do
  let protRate := if c.addProgramFees then c.progRate else 0
  let protFixed := if c.addProgramFees then c.progFixed else 0
  let feeIr ← (do let x ← addP c.insRate c.grpRate; addP x protRate)
  let feeFixed ← (do let x ← addP c.insFixed c.grpFixed; addP x protFixed)
  let base ← baseRate c ur
  let lending ← Res.ofOpt (mul? base ur)
  let onePlus ← Res.ofOpt (add? ONE feeIr)
  let b1 ← Res.ofOpt (mul? base onePlus)
  let borrowing ← Res.ofOpt (add? b1 feeFixed)
  let groupFee ← calcFeeRate base c.grpRate c.grpFixed
  let insuranceFee ← calcFeeRate base c.insRate c.insFixed
  let protocolFee ← calcFeeRate base protRate protFixed
  assertNonneg lending
  assertNonneg borrowing
  assertNonneg groupFee
  assertNonneg insuranceFee
  assertNonneg protocolFee
  .ok { base, lending, borrowing, groupFee, insuranceFee, protocolFee }

/-! ### validation -/

/-- the first loop of `validate_seven_point`: collect used points, enforce trailing (0,0) padding -/
def collectUsed (pts : List Point) (seenPadding : Bool) (acc : List Point) : Option (List Point) :=
  match pts with
  | [] => some acc.reverse
  | p :: rest =>
    if p.util = 0 then
      if p.rate ≠ 0 then none else collectUsed rest true acc
    else
      if seenPadding then none
      else if p.util = U32MAX then none
      else collectUsed rest false (p :: acc)

/-- the second loop: strictly increasing utils, non-decreasing rates -/
def ascending (used : List Point) : Bool :=
  match used with
  | [] => true
  | [_] => true
  | a :: b :: rest => decide (a.util < b.util) && decide (a.rate ≤ b.rate) && ascending (b :: rest)

/-- `validate_seven_point`: true = Ok, false = Err(InvalidConfig) -/
def validateSevenPoint (c : IrCalc) : Bool :=
  match collectUsed c.points false [] with
  | none => false
  | some used =>
    ascending used && decide (c.zeroRate ≤ c.hundredRate) &&
    used.all (fun p => decide (c.zeroRate ≤ p.rate) && decide (p.rate ≤ c.hundredRate))

/-- `validate_legacy` -/
def validateLegacy (c : IrCalc) : Bool :=
  decide (c.optimal > 0) && decide (c.optimal < ONE) && decide (c.plateau > 0) &&
  decide (c.maxIr > 0) && decide (c.plateau < c.maxIr)

/-- `InterestRateConfig::validate` (panics on an unsupported curve type) -/
def validate (c : IrCalc) : Res Bool :=
  if c.curveType = 0 then .ok (validateLegacy c)
  else if c.curveType = 1 then .ok (validateSevenPoint c)
  else .error .panic

/-! ### migration of a legacy curve to the seven-point form (`migrate_curve`, permissionless) -/

/-- `milli_to_u32`: clamp to [0, 1000 %], divide by 10, scale to the u32 grid (all roundings downward) -/
def milliToU32 (v : Int) : Int :=
  let c := max (min v TEN) 0
  let ratio := Int.tdiv (c * ONE) TEN
  ((ratio * (U32MAX * ONE)) / ONE) / ONE

/-- `centi_to_u32`: clamp to [0, 100 %], scale to the u32 grid -/
def centiToU32 (v : Int) : Int :=
  let c := max (min v ONE) 0
  let ratio := Int.tdiv (c * ONE) ONE
  ((ratio * (U32MAX * ONE)) / ONE) / ONE

/-- the interest part of `migrate_curve`: the configuration must validate before; a seven-point curve is left alone; a
    legacy curve (optimal, plateau, max) becomes zero-rate 0, ONE point (optimal, plateau) and full-utilisation rate max —
    each on the u32 grid, rates CLAMPED to the grid's 1000 % ceiling — and must validate again -/
def migrateCurve (c : IrCalc) : Res IrCalc := do
  let ok ← validate c
  if !ok then .error (.err 6015)      -- InvalidConfig
  else if c.curveType = 1 then .ok c
  else
    let c' : IrCalc :=
      { optimal := 0, plateau := 0, maxIr := 0,
        insFixed := c.insFixed, insRate := c.insRate, grpFixed := c.grpFixed, grpRate := c.grpRate,
        progFixed := c.progFixed, progRate := c.progRate, addProgramFees := c.addProgramFees,
        zeroRate := 0,
        hundredRate := milliToU32 c.maxIr,
        points := [⟨centiToU32 c.optimal, milliToU32 c.plateau⟩, ⟨0, 0⟩, ⟨0, 0⟩, ⟨0, 0⟩, ⟨0, 0⟩],
        curveType := 1 }
    do
      let ok' ← validate c'
      if !ok' then .error (.err 6015) else .ok c'

/-! ### accrual arithmetic -/

/-- `calc_accrued_interest_payment_per_period` -/
def accruedPerPeriod (apr dt value : Int) : Option Int := do
  let a ← mul? apr (ofInt dt)
  let ir ← div? a Mfi.Gen.SECONDS_PER_YEAR
  let f ← add? ONE ir
  mul? value f

/-- `calc_interest_payment_for_period` -/
def paymentForPeriod (apr dt value : Int) : Option Int :=
  if apr = 0 then some 0 else do
    let a ← mul? value apr
    let b ← mul? a (ofInt dt)
    div? b Mfi.Gen.SECONDS_PER_YEAR

structure StateChanges where
  newAsv : Int
  newLsv : Int
  insuranceFees : Int
  groupFees : Int
  protocolFees : Int
  deriving DecidableEq, Repr

/-- `calc_interest_rate_accrual_state_changes`; the function returns Option — a panic inside
    `calc_interest_rate` still aborts. -/
def accrualStateChanges (dt totalAssets totalLiabs : Int) (c : IrCalc) (asv lsv : Int) : Res StateChanges := do
  let ur ← Res.ofOpt (div? totalLiabs totalAssets)
  let r ← calcInterestRate c ur
  let newAsv ← Res.ofOpt (accruedPerPeriod r.lending dt asv)
  let newLsv ← Res.ofOpt (accruedPerPeriod r.borrowing dt lsv)
  let ins ← Res.ofOpt (paymentForPeriod r.insuranceFee dt totalLiabs)
  let grp ← Res.ofOpt (paymentForPeriod r.groupFee dt totalLiabs)
  let prot ← Res.ofOpt (paymentForPeriod r.protocolFee dt totalLiabs)
  .ok { newAsv, newLsv, insuranceFees := ins, groupFees := grp, protocolFees := prot }

end Mfi.Interest
