/-
  Model of the position array of a MarginfiAccount (type-crate user_account.rs LendingAccount / Balance,
  state/marginfi_account.rs find / find_or_create / sort_balances / can_be_closed, utils/general.rs
  validate_asset_tags). Bank keys are abstract naturals (0 = Pubkey::default()); the real comparison is
  the byte-wise order of Pubkeys, which the harness maps monotonically onto naturals.
-/
import Mfi.Model.Res
import Mfi.Gen.Consts
import Mfi.Gen.Errors
namespace Mfi.Account
open Mfi Mfi.Gen

structure Slot where
  active : Bool
  bank : Nat          -- bank_pk (0 = default key)
  tag : Int           -- bank_asset_tag
  a : Int             -- asset_shares (bits)
  l : Int             -- liability_shares
  emis : Int
  lastUpdate : Int
  deriving DecidableEq, Repr

def emptySlot : Slot := { active := false, bank := 0, tag := ASSET_TAG_DEFAULT, a := 0, l := 0, emis := 0, lastUpdate := 0 }

def isIntegrationTag (t : Int) : Bool := t == ASSET_TAG_KAMINO || t == ASSET_TAG_DRIFT || t == ASSET_TAG_SOLEND

/-- `find`: index of the active slot of `bank` -/
def findIdx (s : List Slot) (bank : Nat) : Option Nat := s.findIdx? (fun x => x.active && x.bank == bank)

def firstEmpty (s : List Slot) : Option Nat := s.findIdx? (fun x => !x.active)

def integrationCount (s : List Slot) : Nat := (s.filter (fun x => x.active && isIntegrationTag x.tag)).length

/-- `find_or_create(bank_pk, bank, lending_account)` → (slots', index) -/
def findOrCreate (s : List Slot) (bank : Nat) (bankTag : Int) (now : Int) : Res (List Slot × Nat) :=
  match findIdx s bank with
  | some i => .ok (s, i)
  | none =>
    if isIntegrationTag bankTag && !decide (integrationCount s < MAX_INTEGRATION_POSITIONS.toNat) then
      .error (.err E.IntegrationPositionLimitExceeded)
    else
      match firstEmpty s with
      | none => .error (.err E.LendingAccountBalanceSlotsFull)
      | some i => .ok (s.set i { active := true, bank, tag := bankTag, a := 0, l := 0, emis := 0, lastUpdate := now }, i)

/-- `sort_balances`: stable sort, descending by bank key -/
def sortBalances (s : List Slot) : List Slot := s.mergeSort (fun x y => decide (x.bank ≥ y.bank))

def isDefaultLike (t : Int) : Bool :=
  t == ASSET_TAG_DEFAULT || t == ASSET_TAG_KAMINO || t == ASSET_TAG_DRIFT || t == ASSET_TAG_SOLEND

def knownTag (t : Int) : Bool := isDefaultLike t || t == ASSET_TAG_SOL || t == ASSET_TAG_STAKED

def hasDefault (s : List Slot) : Bool := s.any (fun x => x.active && isDefaultLike x.tag)
def hasStaked (s : List Slot) : Bool := s.any (fun x => x.active && x.tag == ASSET_TAG_STAKED)

/-- `validate_asset_tags(bank, account)` (panics on an unknown tag of an active balance) -/
def validateAssetTags (s : List Slot) (bankTag : Int) : Res Unit :=
  if s.any (fun x => x.active && !knownTag x.tag) then .error .panic
  else if isDefaultLike bankTag && hasStaked s then .error (.err E.AssetTagMismatch)
  else if bankTag == ASSET_TAG_STAKED && hasDefault s then .error (.err E.AssetTagMismatch)
  else .ok ()

/-- `Balance::get_side().is_none()` for closing: both sides hold < 1 share (asserts not both ≥ 1) -/
def sideIsNone (x : Slot) : Res Bool :=
  if !(decide (x.a < EMPTY_BALANCE_THRESHOLD) || decide (x.l < EMPTY_BALANCE_THRESHOLD)) then .error .panic
  else .ok (decide (x.l < EMPTY_BALANCE_THRESHOLD) && decide (x.a < EMPTY_BALANCE_THRESHOLD))

def allNone : List Slot → Res Bool
  | [] => .ok true
  | x :: rest => do
    let b ← sideIsNone x
    if !b then .ok false else allNone rest

/-- `can_be_closed` (flags: disabled, in_flashloan, in_receivership); note Rust's `all` short-circuits -/
def canBeClosed (s : List Slot) (disabled flash recv : Bool) : Res Bool := do
  let e ← allNone s
  .ok (!disabled && e && !flash && !recv)

end Mfi.Account
