/-
  Model of programs/marginfi/src/state/bank.rs (BankImpl) and of the share-accounting part of
  programs/marginfi/src/state/marginfi_account.rs (Balance, BankAccountWrapper).
  `&mut` becomes state in / state out; every error aborts the instruction (state discarded).
-/
import Mfi.Fx
import Mfi.Model.Res
import Mfi.Model.Interest
import Mfi.Gen.Consts
import Mfi.Gen.Errors

namespace Mfi.Bank
open Mfi Mfi.Fx Mfi.Gen


structure Bank where
  asv : Int                -- asset_share_value (bits)
  lsv : Int                -- liability_share_value
  sa : Int                 -- total_asset_shares
  sl : Int                 -- total_liability_shares
  feeI : Int               -- collected_insurance_fees_outstanding
  feeG : Int               -- collected_group_fees_outstanding
  feeP : Int               -- collected_program_fees_outstanding
  depositLimit : Int       -- u64
  borrowLimit : Int        -- u64
  flags : Nat              -- u64
  assetTag : Int           -- u8
  mintDecimals : Int       -- u8
  emissionsRate : Int      -- u64
  emissionsRemaining : Int -- bits
  lendCnt : Int            -- i32 lending_position_count
  borrowCnt : Int
  lastUpdate : Int         -- i64
  cacheAccum : Int         -- cache.accumulated_since_last_update (bits)
  cacheFor : Int           -- cache.interest_accumulated_for (u32)
  deriving DecidableEq, Repr

structure Balance where
  active : Bool
  tag : Int                -- bank_asset_tag
  a : Int                  -- asset_shares (bits)
  l : Int                  -- liability_shares
  emis : Int               -- emissions_outstanding
  lastUpdate : Int         -- u64
  deriving DecidableEq, Repr

def math {α} (o : Option α) : Res α := Res.ofOpt o
def merr (c : Nat) {α} : Res α := .error (.err c)
def chk (b : Bool) (c : Nat) : Res Unit := if b then .ok () else .error (.err c)

def getFlag (flags : Nat) (flag : Int) : Bool := (flags &&& flag.toNat) == flag.toNat

/-- `get_asset_amount` -/
def assetAmount (b : Bank) (shares : Int) : Res Int := math (mul? shares b.asv)
/-- `get_liability_amount` -/
def liabAmount (b : Bank) (shares : Int) : Res Int := math (mul? shares b.lsv)
/-- `get_asset_shares` -/
def assetShares (b : Bank) (value : Int) : Res Int :=
  if b.asv = 0 then .ok 0 else math (div? value b.asv)
/-- `get_liability_shares` -/
def liabShares (b : Bank) (value : Int) : Res Int := math (div? value b.lsv)

/-- `get_balance_decimals` -/
def balanceDecimals (b : Bank) : Int :=
  if b.assetTag = ASSET_TAG_DRIFT then DRIFT_SCALED_BALANCE_DECIMALS else b.mintDecimals

def exp10 (d : Int) : Option Int := if 0 ≤ d then POW10FX[d.toNat]? else none

/-- the deposit limit as I80F48 (Drift banks: `scale_drift_deposit_limit`) -/
def depositLimitFx (b : Bank) : Res Int :=
  if b.assetTag = ASSET_TAG_DRIFT then
    let limit := ofInt b.depositLimit
    if b.mintDecimals = DRIFT_SCALED_BALANCE_DECIMALS then .ok limit
    else if b.mintDecimals < DRIFT_SCALED_BALANCE_DECIMALS then
      match exp10 (DRIFT_SCALED_BALANCE_DECIMALS - b.mintDecimals) with
      | none => .error .panic
      | some s => match mul? limit s with | some v => .ok v | none => merr DRIFT_MATH_ERROR.toNat
    else
      match exp10 (b.mintDecimals - DRIFT_SCALED_BALANCE_DECIMALS) with
      | none => .error .panic
      | some s => match div? limit s with | some v => .ok v | none => merr DRIFT_MATH_ERROR.toNat
  else .ok (ofInt b.depositLimit)

def depositLimitActive (b : Bank) : Bool := b.depositLimit != U64MAX
def borrowLimitActive (b : Bank) : Bool := b.borrowLimit != U64MAX

/-- `get_remaining_deposit_capacity` -/
def remainingDepositCapacity (b : Bank) : Res Int := do
  if !depositLimitActive b then return U64MAX
  let cur ← assetAmount b b.sa
  let limit ← depositLimitFx b
  if cur ≥ limit then return 0
  let r1 ← math (sub? limit cur)
  let r2 ← math (sub? r1 ONE)
  math (toU64? (floor r2))

/-- `change_asset_shares` -/
def changeAssetShares (b : Bank) (shares : Int) (bypass : Bool) : Res Bank := do
  let sa' ← math (add? b.sa shares)
  let b' := { b with sa := sa' }
  if decide (shares > 0) && depositLimitActive b' && !bypass then
    let total ← assetAmount b' b'.sa
    let limit ← depositLimitFx b'
    if total ≥ limit then merr E.BankAssetCapacityExceeded else .ok b'
  else .ok b'

/-- `change_liability_shares` -/
def changeLiabShares (b : Bank) (shares : Int) (bypass : Bool) : Res Bank := do
  let sl' ← math (add? b.sl shares)
  let b' := { b with sl := sl' }
  if !bypass && decide (shares > 0) && borrowLimitActive b' then
    let total ← liabAmount b' b'.sl
    if total ≥ ofInt b'.borrowLimit then merr E.BankLiabilityCapacityExceeded else .ok b'
  else .ok b'

/-- `check_utilization_ratio` -/
def checkUtilization (b : Bank) : Res Unit := do
  let ta ← assetAmount b b.sa
  let tl ← liabAmount b b.sl
  if ta < tl then merr E.IllegalUtilizationRatio else .ok ()

/-- `socialize_loss`: returns (bank', kill_bank) -/
def socializeLoss (b : Bank) (loss : Int) : Res (Bank × Bool) := do
  let total ← math (mul? b.sa b.asv)
  if total ≤ loss then .ok ({ b with asv := 0 }, true)
  else
    let diff ← Interest.subP total loss
    let nsv ← math (div? diff b.sa)
    .ok ({ b with asv := nsv }, nsv == 0)

/-- saturating i32 position counters -/
def satI32 (x : Int) : Int := if x > 2147483647 then 2147483647 else if x < -2147483648 then -2147483648 else x

/-- `if collected > 0 { bucket = collected.checked_add(bucket)? }` -/
def bumpFee (cur add : Int) : Res Int := if add > 0 then math (add? add cur) else .ok cur

def applyFees (b : Bank) (ch : Interest.StateChanges) : Res Bank := do
  let g ← bumpFee b.feeG ch.groupFees
  let i ← bumpFee b.feeI ch.insuranceFees
  let p ← bumpFee b.feeP ch.protocolFees
  .ok { b with feeG := g, feeI := i, feeP := p }

/-- `calc_interest_rate_accrual_state_changes(..).ok_or_else(math_error!())?` (a panic inside still aborts) -/
def stateChangesOrErr (delta ta tl : Int) (ir : Interest.IrCalc) (asv lsv : Int) : Res Interest.StateChanges :=
  match Interest.accrualStateChanges delta ta tl ir asv lsv with
  | .ok c => .ok c
  | .error .panic => .error .panic
  | .error _ => merr E.MathError

/-- the part of `accrue_interest` after the two early returns -/
def accrueCore (b : Bank) (ir : Interest.IrCalc) (now delta ta tl : Int) : Res Bank := do
  let ch ← stateChangesOrErr delta ta tl ir b.asv b.lsv
  let d ← math (sub? ch.newAsv b.asv)
  let acc ← math (mul? d b.sa)
  applyFees { b with lastUpdate := now, cacheAccum := acc, cacheFor := min delta 4294967295,
                     asv := ch.newAsv, lsv := ch.newLsv } ch

/-- `accrue_interest(current_timestamp, group)`; `ir` = the calculator built from the bank's
    interest config and the group's fee cache / program-fee switch -/
def accrueInterest (b : Bank) (ir : Interest.IrCalc) (now : Int) : Res Bank :=
  let delta := now - b.lastUpdate
  -- (current_timestamp - last_update): i64 subtraction under overflow-checks; `.try_into::<u64>().unwrap()`
  if delta < 0 ∨ delta > 9223372036854775807 then .error .panic
  else if delta = 0 then .ok b
  else do
    let ta ← assetAmount b b.sa
    let tl ← liabAmount b b.sl
    if ta = 0 ∨ tl = 0 then .ok { b with lastUpdate := now }
    else accrueCore b ir now delta ta tl

/-! ### Balance -/

def isZeroTol (x t : Int) : Bool := decide (Fx.abs x < t)
def isPosTol (x t : Int) : Bool := decide (x > t)

inductive Side | assets | liabs deriving DecidableEq, Repr

/-- `Balance::get_side` (asserts that not both sides hold ≥ 1 share) -/
def getSide (bal : Balance) : Res (Option Side) :=
  if !(decide (bal.a < EMPTY_BALANCE_THRESHOLD) || decide (bal.l < EMPTY_BALANCE_THRESHOLD)) then .error .panic
  else if bal.l ≥ EMPTY_BALANCE_THRESHOLD then .ok (some .liabs)
  else if bal.a ≥ EMPTY_BALANCE_THRESHOLD then .ok (some .assets)
  else .ok none

def emptyDeactivated : Balance := { active := false, tag := ASSET_TAG_DEFAULT, a := 0, l := 0, emis := 0, lastUpdate := 0 }

/-- `Balance::close(check_emissions)` -/
def closeBalance (bal : Balance) (checkEmissions : Bool) : Res Balance :=
  if checkEmissions && !decide (bal.emis < ONE) then merr E.CannotCloseOutstandingEmissions
  else .ok emptyDeactivated

/-- `calc_emissions` -/
def calcEmissions (period amount : Int) (decimals : Int) (rate : Int) : Res Int := do
  let e ← match exp10 decimals with | some e => (.ok e : Res Int) | none => .error .panic
  let ui ← math (div? amount e)
  let a ← math (mul? period ui)
  let b ← math (div? a SECONDS_PER_YEAR)
  math (mul? b rate)

/-- which amount (if any) earns emissions: the match at the top of `claim_emissions` -/
def emissionsBase (b : Bank) (bal : Balance) : Res (Option Int) := do
  let side ← getSide bal
  let lend := getFlag b.flags EMISSIONS_FLAG_LENDING_ACTIVE
  let borrow := getFlag b.flags EMISSIONS_FLAG_BORROW_ACTIVE
  match side, lend, borrow with
  | some .assets, true, _ => (assetAmount b bal.a).map some
  | some .liabs, _, true => (liabAmount b bal.l).map some
  | _, _, _ => .ok none

/-- the body of the `if let Some(balance_amount)` in `claim_emissions` -/
def creditEmissions (b : Bank) (bal : Balance) (now amount : Int) : Res (Bank × Balance) :=
  let lu := if bal.lastUpdate < MIN_EMISSIONS_START_TIME then now else bal.lastUpdate
  if now - lu < 0 then merr E.MathError else do
    let em ← calcEmissions (ofInt (now - lu)) amount (balanceDecimals b) (ofInt b.emissionsRate)
    let e' ← math (add? bal.emis (min em b.emissionsRemaining))
    let r' ← math (sub? b.emissionsRemaining (min em b.emissionsRemaining))
    .ok ({ b with emissionsRemaining := r' }, { bal with emis := e', lastUpdate := now })

/-- `BankAccountWrapper::claim_emissions(current_timestamp)` -/
def claimEmissions (b : Bank) (bal : Balance) (now : Int) : Res (Bank × Balance) := do
  let amt? ← emissionsBase b bal
  match amt? with
  | none => .ok (b, { bal with lastUpdate := now })
  | some amount => creditEmissions b bal now amount

/-- position-counter bookkeeping shared by increase/decrease -/
def updateCounts (b : Bank) (hadA hadL hasA hasL : Bool) : Bank :=
  let b := if !hadA && hasA then { b with lendCnt := satI32 (b.lendCnt + 1) } else b
  let b := if hadA && !hasA then { b with lendCnt := satI32 (b.lendCnt - 1) } else b
  let b := if !hadL && hasL then { b with borrowCnt := satI32 (b.borrowCnt + 1) } else b
  let b := if hadL && !hasL then { b with borrowCnt := satI32 (b.borrowCnt - 1) } else b
  b

inductive IncType | any | repayOnly | depositOnly | bypassDepositLimit deriving DecidableEq, Repr
inductive DecType | withdrawOnly | borrowOnly | bypassBorrowLimit deriving DecidableEq, Repr

/-- the `match operation_type` guard of `increase_balance_internal` -/
def incGuard (t : IncType) (assetInc liabDec : Int) : Res Unit :=
  match t with
  | .repayOnly => chk (isZeroTol assetInc ZERO_AMOUNT_THRESHOLD) E.OperationRepayOnly
  | .depositOnly => chk (isZeroTol liabDec ZERO_AMOUNT_THRESHOLD) E.OperationDepositOnly
  | _ => .ok ()

/-- the `match operation_type` guard of `decrease_balance_internal` -/
def decGuard (t : DecType) (assetDec liabInc : Int) : Res Unit :=
  match t with
  | .withdrawOnly => chk (isZeroTol liabInc ZERO_AMOUNT_THRESHOLD) E.OperationWithdrawOnly
  | .borrowOnly => chk (isZeroTol assetDec ZERO_AMOUNT_THRESHOLD) E.OperationBorrowOnly
  | _ => .ok ()

/-- "Only liquidation is allowed to bypass this check." -/
def utilGuard (t : DecType) (b : Bank) : Res Unit :=
  if t = .bypassBorrowLimit then .ok () else checkUtilization b

/-- `increase_balance_internal` -/
def increaseBalance (b0 : Bank) (bal0 : Balance) (now : Int) (delta : Int) (t : IncType) : Res (Bank × Balance) := do
  let (b, bal) ← claimEmissions b0 bal0 now
  let hadA := isPosTol bal.a ZERO_AMOUNT_THRESHOLD
  let hadL := isPosTol bal.l ZERO_AMOUNT_THRESHOLD
  let curL ← liabAmount b bal.l
  let liabDec := min curL delta
  let d ← math (sub? delta curL)
  let assetInc := max d 0
  let _ ← incGuard t assetInc liabDec
  let aInc ← assetShares b assetInc
  let a' ← math (add? bal.a aInc)
  let b ← changeAssetShares b aInc (t == .bypassDepositLimit)
  let lDec ← liabShares b liabDec
  let l' ← math (add? bal.l (-lDec))
  let b ← changeLiabShares b (-lDec) true
  let bal := { bal with a := a', l := l' }
  let hasA := isPosTol bal.a ZERO_AMOUNT_THRESHOLD
  let hasL := isPosTol bal.l ZERO_AMOUNT_THRESHOLD
  .ok (updateCounts b hadA hadL hasA hasL, bal)

/-- `decrease_balance_internal` -/
def decreaseBalance (b0 : Bank) (bal0 : Balance) (now : Int) (delta : Int) (t : DecType) : Res (Bank × Balance) := do
  let (b, bal) ← claimEmissions b0 bal0 now
  let hadA := isPosTol bal.a ZERO_AMOUNT_THRESHOLD
  let hadL := isPosTol bal.l ZERO_AMOUNT_THRESHOLD
  let curA ← assetAmount b bal.a
  let assetDec := min curA delta
  let d ← math (sub? delta curA)
  let liabInc := max d 0
  let _ ← decGuard t assetDec liabInc
  let aDec ← assetShares b assetDec
  let a' ← math (add? bal.a (-aDec))
  let b ← changeAssetShares b (-aDec) false
  let lInc ← liabShares b liabInc
  let l' ← math (add? bal.l lInc)
  let b ← changeLiabShares b lInc (t == .bypassBorrowLimit)
  let _ ← utilGuard t b
  let bal := { bal with a := a', l := l' }
  let hasA := isPosTol bal.a ZERO_AMOUNT_THRESHOLD
  let hasL := isPosTol bal.l ZERO_AMOUNT_THRESHOLD
  .ok (updateCounts b hadA hadL hasA hasL, bal)

/-- `withdraw_all` → (bank, balance, spl amount) -/
def withdrawAll (b0 : Bank) (bal0 : Balance) (now : Int) : Res (Bank × Balance × Int) := do
  let (b, bal) ← claimEmissions b0 bal0 now
  let total := bal.a
  let curA ← assetAmount b total
  let curL ← liabAmount b bal.l
  let _ ← chk (isPosTol curA ZERO_AMOUNT_THRESHOLD) E.NoAssetFound
  let _ ← chk (isZeroTol curL ZERO_AMOUNT_THRESHOLD) E.NoAssetFound
  let bal' ← closeBalance bal true
  let b := { b with lendCnt := satI32 (b.lendCnt - 1) }
  let b ← changeAssetShares b (-total) false
  let _ ← checkUtilization b
  let spl := floor curA
  let dust ← math (sub? curA spl)
  let f ← math (add? dust b.feeI)
  let amt ← math (toU64? spl)
  .ok ({ b with feeI := f }, bal', amt)

/-- `repay_all` → (bank, balance, spl amount) -/
def repayAll (b0 : Bank) (bal0 : Balance) (now : Int) : Res (Bank × Balance × Int) := do
  let (b, bal) ← claimEmissions b0 bal0 now
  let total := bal.l
  let curL ← liabAmount b total
  let curA ← assetAmount b bal.a
  let _ ← chk (isPosTol curL ZERO_AMOUNT_THRESHOLD) E.NoLiabilityFound
  let _ ← chk (isZeroTol curA ZERO_AMOUNT_THRESHOLD) E.NoLiabilityFound
  let bal' ← closeBalance bal true
  let b := { b with borrowCnt := satI32 (b.borrowCnt - 1) }
  let b ← changeLiabShares b (-total) false
  let spl ← math (ceil? curL)
  let dust ← math (sub? spl curL)
  let f ← math (add? dust b.feeI)
  let amt ← math (toU64? spl)
  .ok ({ b with feeI := f }, bal', amt)

/-- `close_balance` -/
def closeBalanceOp (b0 : Bank) (bal0 : Balance) (now : Int) : Res (Bank × Balance) := do
  let (b, bal) ← claimEmissions b0 bal0 now
  let curL ← liabAmount b bal.l
  let curA ← assetAmount b bal.a
  let _ ← chk (isZeroTol curL ZERO_AMOUNT_THRESHOLD) E.IllegalBalanceState
  let _ ← chk (isZeroTol curA ZERO_AMOUNT_THRESHOLD) E.IllegalBalanceState
  let bal' ← closeBalance bal true
  .ok (b, bal')

/-- `settle_emissions_and_get_transfer_amount` -/
def settleEmissions (b0 : Bank) (bal0 : Balance) (now : Int) : Res (Bank × Balance × Int) := do
  let (b, bal) ← claimEmissions b0 bal0 now
  let fl := floor bal.emis
  let rest ← math (sub? bal.emis fl)
  let amt ← math (toU64? fl)
  .ok (b, { bal with emis := rest }, amt)

end Mfi.Bank

namespace Mfi.Bank
open Mfi Mfi.Fx Mfi.Gen

structure Collected where
  feeI : Int        -- new outstanding buckets (bits)
  feeG : Int
  feeP : Int
  toInsurance : Int -- whole tokens moved liquidity vault → insurance vault
  toGroup : Int     -- → fee vault
  toProgram : Int   -- → global fee wallet ATA
  deriving DecidableEq, Repr

/-- `lending_pool_collect_bank_fees` (the arithmetic and the three transfers); `vault` = liquidity
    vault token amount. `x.int()` on a non-negative I80F48 is its floor. -/
def collectFees (feeI feeG feeP vault : Int) : Res Collected := do
  let avail0 := ofInt vault
  let ti := Fx.int (min feeI avail0)
  let feeI' ← math (sub? feeI ti)
  let avail1 ← math (sub? avail0 ti)
  let tg := Fx.int (min feeG avail1)
  let feeG' ← math (sub? feeG tg)
  let avail2 ← math (sub? avail1 tg)
  let _ ← (if avail2 ≥ 0 then (.ok () : Res Unit) else .error .panic)
  let g ← math (toU64? tg)
  let i ← math (toU64? ti)
  let tp := Fx.int (min feeP avail2)
  let feeP' ← math (sub? feeP tp)
  let avail3 ← math (sub? avail2 tp)
  let _ ← (if avail3 ≥ 0 then (.ok () : Res Unit) else .error .panic)
  let p ← math (toU64? tp)
  .ok { feeI := feeI', feeG := feeG', feeP := feeP', toInsurance := i, toGroup := g, toProgram := p }

end Mfi.Bank

namespace Mfi.Bank
open Mfi Mfi.Fx Mfi.Gen

/-! ### bankruptcy (instructions/marginfi_group/handle_bankruptcy.rs, after the eligibility check) -/

structure BankruptcyOut where
  bank : Bank
  bal : Balance
  badDebt : Int        -- the account's debt in this bank after accrual (bits)
  covered : Int        -- part covered by the insurance fund (bits)
  socialized : Int     -- part socialized among depositors (bits)
  coveredUp : Int      -- whole tokens moved insurance vault → liquidity vault (covered, rounded up)
  kill : Bool          -- deposits fully consumed: the bank is shut for good
  deriving DecidableEq, Repr

/-- everything `lending_pool_handle_bankruptcy` does to the books once the account was found bankrupt and
    the bank was accrued: `available` = what the insurance vault can deliver (whole tokens, after any
    transfer fee), `b`/`bal` = the accrued bank and the account's position in it -/
def settleBankruptcy (b : Bank) (bal : Balance) (available now : Int) : Res BankruptcyOut := do
  let badDebt ← liabAmount b bal.l
  let _ ← chk (badDebt > ZERO_AMOUNT_THRESHOLD) E.BalanceNotBadDebt
  let avail := ofInt available
  let covered := min badDebt avail
  let rest ← Interest.subP badDebt covered
  let socialized := max rest 0
  let up ← math (ceil? covered)
  let coveredUp ← math (toU64? up)
  let (b1, kill) ← socializeLoss b socialized
  let (b2, bal2) ← increaseBalance b1 bal now badDebt .repayOnly
  .ok { bank := b2, bal := bal2, badDebt, covered, socialized, coveredUp, kill }

/-- who may settle bad debt on a bank -/
def bankruptcyAuthorized (permissionless : Bool) (signer admin riskAdmin : Nat) : Bool :=
  permissionless || signer == riskAdmin || signer == admin

end Mfi.Bank
