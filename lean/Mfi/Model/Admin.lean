/-
  Model of the bank-configuration surface:
    BankConfig::validate (state/bank_config.rs), Bank::configure / configure_unfrozen_fields_only,
    update_flag / override_emissions_flag / verify_*_flags (state/bank.rs),
    InterestRateConfig::update (state/interest_rate.rs),
    EmodeSettings::validate_entries_with_liability_weights / calculate_max_leverage / check_dupes
    (state/emode.rs), the handlers lending_pool_configure_bank, …_interest_only, …_limits_only,
    …_update_emissions_parameters (flag part), MarginfiGroup::update_withdrawn_equity.
-/
import Mfi.Fx
import Mfi.Model.Res
import Mfi.Model.Interest
import Mfi.Model.Gate
import Mfi.Gen.Consts
import Mfi.Gen.Errors

namespace Mfi.Admin
open Mfi Mfi.Fx Mfi.Gen Mfi.Interest

/-- configuration part of InterestRateConfig (the calculator additionally sees the group's program fees) -/
structure IrCfg where
  optimal : Int
  plateau : Int
  maxIr : Int
  insFixed : Int
  insRate : Int
  grpFixed : Int
  grpRate : Int
  origination : Int
  zeroRate : Int
  hundredRate : Int
  points : List Point
  curveType : Int
  deriving DecidableEq, Repr

def IrCfg.toCalc (c : IrCfg) : IrCalc :=
  { optimal := c.optimal, plateau := c.plateau, maxIr := c.maxIr, insFixed := c.insFixed, insRate := c.insRate,
    grpFixed := c.grpFixed, grpRate := c.grpRate, progFixed := 0, progRate := 0, addProgramFees := false,
    zeroRate := c.zeroRate, hundredRate := c.hundredRate, points := c.points, curveType := c.curveType }

structure IrOpt where
  insFixed : Option Int
  insRate : Option Int
  grpFixed : Option Int
  grpRate : Option Int
  origination : Option Int
  zeroRate : Option Int
  hundredRate : Option Int
  points : Option (List Point)
  deriving DecidableEq, Repr

def setIf {α} (cur : α) (o : Option α) : α := match o with | some v => v | none => cur

/-- `InterestRateConfig::update` (always switches to the seven-point curve) -/
def irUpdate (c : IrCfg) (o : IrOpt) : IrCfg :=
  { c with insFixed := setIf c.insFixed o.insFixed, insRate := setIf c.insRate o.insRate,
           grpFixed := setIf c.grpFixed o.grpFixed, grpRate := setIf c.grpRate o.grpRate,
           origination := setIf c.origination o.origination, zeroRate := setIf c.zeroRate o.zeroRate,
           hundredRate := setIf c.hundredRate o.hundredRate, points := setIf c.points o.points, curveType := 1 }

structure Cfg where
  aInit : Int
  aMaint : Int
  lInit : Int
  lMaint : Int
  depositLimit : Int
  borrowLimit : Int
  opState : Gate.OpState
  riskTier : Int            -- 0 Collateral, 1 Isolated
  assetTag : Int
  initLimit : Int           -- total_asset_value_init_limit
  oracleMaxConf : Int
  oracleMaxAge : Int
  ir : IrCfg
  deriving DecidableEq, Repr

structure CfgOpt where
  aInit : Option Int
  aMaint : Option Int
  lInit : Option Int
  lMaint : Option Int
  depositLimit : Option Int
  borrowLimit : Option Int
  opState : Option Gate.OpState
  ir : Option IrOpt
  riskTier : Option Int
  assetTag : Option Int
  initLimit : Option Int
  oracleMaxConf : Option Int
  oracleMaxAge : Option Int
  permissionlessBadDebt : Option Bool
  freezeSettings : Option Bool
  tokenlessRepaymentsAllowed : Option Bool
  deriving DecidableEq, Repr

def bad (c : Nat) {α} : Res α := .error (.err c)
def need (b : Bool) (c : Nat) : Res Unit := if b then .ok () else .error (.err c)

/-- `BankConfig::validate` -/
def validateCfg (c : Cfg) : Res Unit := do
  let _ ← need (decide (c.aInit ≥ 0) && decide (c.aInit ≤ ONE)) E.InvalidConfig
  -- `I80F48::ONE + I80F48::ONE` cannot overflow
  let _ ← need (decide (c.aMaint ≤ ONE + ONE)) E.InvalidConfig
  let _ ← need (decide (c.aMaint ≥ c.aInit)) E.InvalidConfig
  let _ ← need (decide (c.lInit ≥ ONE)) E.InvalidConfig
  let _ ← need (decide (c.lMaint ≤ c.lInit) && decide (c.lMaint ≥ ONE)) E.InvalidConfig
  let ok ← Interest.validate c.ir.toCalc
  let _ ← need ok E.InvalidConfig
  let _ ← (if c.riskTier = 1 then do
      let _ ← need (decide (c.aInit = 0)) E.InvalidConfig
      need (decide (c.aMaint = 0)) E.InvalidConfig
    else .ok ())
  need (decide (c.oracleMaxAge ≥ ORACLE_MIN_AGE)) E.InvalidOracleSetup

def setBit (flags : Nat) (bit : Int) (v : Bool) : Nat :=
  if v then flags ||| bit.toNat else flags &&& (Nat.xor bit.toNat (2 ^ 64 - 1))

def applyFlag (flags : Nat) (bit : Int) (o : Option Bool) : Nat :=
  match o with | some v => setBit flags bit v | none => flags

/-- the operational-state guard of `Bank::configure`: the killed state can be neither set nor left -/
def stateGuard (cur : Gate.OpState) (o : Option Gate.OpState) : Res Unit :=
  match o with
  | some .killedByBankruptcy => bad E.Unauthorized
  | some _ => if cur = .killedByBankruptcy then bad E.BankKilledByBankruptcy else .ok ()
  | none => .ok ()

/-- `Bank::configure` → (config', flags') -/
def configure (c : Cfg) (flags : Nat) (o : CfgOpt) : Res (Cfg × Nat) := do
  let _ ← stateGuard c.opState o.opState
  let c' : Cfg :=
    { aInit := setIf c.aInit o.aInit, aMaint := setIf c.aMaint o.aMaint, lInit := setIf c.lInit o.lInit,
      lMaint := setIf c.lMaint o.lMaint, depositLimit := setIf c.depositLimit o.depositLimit,
      borrowLimit := setIf c.borrowLimit o.borrowLimit, opState := setIf c.opState o.opState,
      ir := (match o.ir with | some io => irUpdate c.ir io | none => c.ir),
      riskTier := setIf c.riskTier o.riskTier, assetTag := setIf c.assetTag o.assetTag,
      initLimit := setIf c.initLimit o.initLimit, oracleMaxConf := setIf c.oracleMaxConf o.oracleMaxConf,
      oracleMaxAge := setIf c.oracleMaxAge o.oracleMaxAge }
  let f1 := applyFlag flags PERMISSIONLESS_BAD_DEBT_SETTLEMENT_FLAG o.permissionlessBadDebt
  let f2 := applyFlag f1 FREEZE_SETTINGS o.freezeSettings
  let f3 := applyFlag f2 TOKENLESS_REPAYMENTS_ALLOWED o.tokenlessRepaymentsAllowed
  let _ ← validateCfg c'
  .ok (c', f3)

/-- `configure_unfrozen_fields_only` -/
def configureUnfrozen (c : Cfg) (o : CfgOpt) : Cfg :=
  { c with depositLimit := setIf c.depositLimit o.depositLimit, borrowLimit := setIf c.borrowLimit o.borrowLimit }

def hasFlag (flags : Nat) (bit : Int) : Bool := (flags &&& bit.toNat) == bit.toNat

/-! ### e-mode validation -/

structure Entry where
  tag : Int
  flags : Int
  init : Int
  maint : Int
  deriving DecidableEq, Repr

/-- `u32_to_basis`: (from_num(v) / from_num(u32::MAX)) * from_num(100) -/
def u32ToBasis (v : Int) : Int := ((Int.tdiv ((v * ONE) * ONE) (U32MAX * ONE)) * (100 * ONE)) / ONE

/-- `calculate_max_leverage` -/
def maxLeverage (cw lw : Int) : Res Int := do
  let _ ← need (decide (lw > 0)) E.BadEmodeConfig
  let _ ← need (decide (cw < lw)) E.BadEmodeConfig
  let ratio ← Res.ofOpt (div? cw lw)
  let den ← subP ONE ratio
  let _ ← need (decide (den > 0)) E.BadEmodeConfig
  Res.ofOpt (div? ONE den)

def validateEntry (e : Entry) (lInit lMaint maxI maxM : Int) : Res Unit :=
  if e.tag = 0 then .ok () else do
    let _ ← need (decide (e.init ≥ 0)) E.BadEmodeConfig
    let _ ← need (decide (e.maint ≥ e.init)) E.BadEmodeConfig
    let li ← maxLeverage e.init lInit
    let _ ← need (decide (li ≤ maxI)) E.BadEmodeConfig
    let lm ← maxLeverage e.maint lMaint
    need (decide (lm ≤ maxM)) E.BadEmodeConfig

def validateEntries : List Entry → Int → Int → Int → Int → Res Unit
  | [], _, _, _, _ => .ok ()
  | e :: rest, a, b, c, d => do
    let _ ← validateEntry e a b c d
    validateEntries rest a b c d

def adjacentDupes : List Int → Bool
  | a :: b :: rest => a == b || adjacentDupes (b :: rest)
  | _ => false

/-- `validate_entries_with_liability_weights(bank_config, max_init_leverage_u32, max_maint_leverage_u32)` -/
def validateEmode (entries : List Entry) (lInit lMaint maxInitU32 maxMaintU32 : Int) : Res Unit := do
  let _ ← validateEntries entries lInit lMaint (u32ToBasis maxInitU32) (u32ToBasis maxMaintU32)
  if adjacentDupes ((entries.filter (fun e => e.tag != 0)).map (·.tag)) then bad E.BadEmodeConfig else .ok ()

/-! ### emissions flags -/

/-- `lending_pool_configure_bank(bank_config)`: a frozen bank only takes the two limits; otherwise the whole
    configuration is applied AND THEN the bank's stored e-mode entries are re-validated against the NEW liability
    weights and the group's leverage caps -/
def ixConfigureBank (c : Cfg) (flags : Nat) (entries : List Entry) (maxInitU32 maxMaintU32 : Int) (o : CfgOpt) : Res (Cfg × Nat) :=
  if hasFlag flags FREEZE_SETTINGS then .ok (configureUnfrozen c o, flags)
  else do
    let r ← configure c flags o
    let _ ← validateEmode entries r.1.lInit r.1.lMaint maxInitU32 maxMaintU32
    .ok r

/-- `lending_pool_configure_bank_interest_only(interest_rate_config)`: nothing on a frozen bank; otherwise the update is
    applied and the WHOLE resulting curve configuration (end rates, points, fees) is validated -/
def ixConfigureInterestOnly (c : Cfg) (flags : Nat) (o : IrOpt) : Res Cfg :=
  if hasFlag flags FREEZE_SETTINGS then .ok c
  else do
    let ir' := irUpdate c.ir o
    let ok ← Interest.validate ir'.toCalc
    let _ ← need ok E.InvalidConfig
    .ok { c with ir := ir' }

/-- `lending_pool_configure_bank_limits_only(deposit, borrow, init limit)`: a frozen bank only takes the first two -/
def ixConfigureLimitsOnly (c : Cfg) (flags : Nat) (dl bl il : Option Int) : Cfg :=
  if hasFlag flags FREEZE_SETTINGS then
    { c with depositLimit := setIf c.depositLimit dl, borrowLimit := setIf c.borrowLimit bl }
  else
    { c with depositLimit := setIf c.depositLimit dl, borrowLimit := setIf c.borrowLimit bl, initLimit := setIf c.initLimit il }

/-- `verify_emissions_flags` -/
def verifyEmissionsFlags (f : Nat) : Bool := (f &&& EMISSION_FLAGS.toNat) == f

/-- `override_emissions_flag(flag)` : asserts the argument is made of emission bits, then replaces the
    emission bits of the flag word (other bits are kept) -/
def overrideEmissionsFlag (flags f : Nat) : Res Nat :=
  if !verifyEmissionsFlags f then .error .panic
  else .ok ((flags &&& (Nat.xor EMISSION_FLAGS.toNat (2 ^ 64 - 1))) ||| f)

/-! ### deleverage daily withdraw window -/

structure Window where
  dailyLimit : Int      -- u32, 0 = no limit
  withdrawnToday : Int  -- u32
  lastReset : Int       -- i64
  deriving DecidableEq, Repr

def satU32 (x : Int) : Int := if x > 4294967295 then 4294967295 else x
def satI64 (x : Int) : Int :=
  if x > 9223372036854775807 then 9223372036854775807 else if x < -9223372036854775808 then -9223372036854775808 else x

/-- the daily reset at the top of `update_withdrawn_equity` -/
def resetWindow (w : Window) (now : Int) : Window :=
  if satI64 (now - w.lastReset) ≥ DAILY_RESET_INTERVAL then { w with withdrawnToday := 0, lastReset := now } else w

/-- add `n` whole dollars (`checked_to_num::<u32>` of the value, floor) to today's counter: a value or a
    sum that does not fit u32 is rejected when a limit is set and saturates the counter when there is none -/
def addDollars (w : Window) (n : Int) : Res Window :=
  if 0 ≤ n ∧ n ≤ 4294967295 ∧ w.withdrawnToday + n ≤ 4294967295 then
    if w.dailyLimit ≠ 0 ∧ w.withdrawnToday + n > w.dailyLimit then bad E.DailyWithdrawalLimitExceeded
    else .ok { w with withdrawnToday := w.withdrawnToday + n }
  else if w.dailyLimit ≠ 0 then bad E.DailyWithdrawalLimitExceeded
  else .ok { w with withdrawnToday := 4294967295 }

/-- `update_withdrawn_equity(withdrawn_equity, now)` -/
def updateWithdrawnEquity (w : Window) (v now : Int) : Res Window :=
  addDollars (resetWindow w now) (v / ONE)

end Mfi.Admin
