/-
  Instruction-level model of the four user instructions on ONE bank and ONE position:
  `lending_account_deposit / _withdraw / _borrow / _repay` (instructions/marginfi_account/*.rs), i.e. the glue
  the handlers put around the pieces modelled elsewhere, in source order:

    accrue_interest  →  (capacity clamp, zero early-return)  →  find / find_or_create  →  wrapper operation
    →  Token-2022 pre-fee amount  →  origination fee booking (borrow)  →  token amount to transfer

  Not part of this model (they are other models / tables, and the harness only emits lines for contexts where
  they pass): account-constraint checks, validate_bank_state / validate_asset_tags / account flags, the
  initial-margin check at the end of borrow / withdraw, the sunset (token-less repayment) special cases, the
  bank's price / interest cache. The `ixf` family runs the REAL instructions through dispatch and diffs bank,
  position and transferred token amount bit for bit.
-/
import Mfi.Model.Bank
import Mfi.Model.Token
import Mfi.Model.Risk
namespace Mfi.Ix
open Mfi Mfi.Fx Mfi.Bank Mfi.Gen

structure Env where
  ir : Interest.IrCalc
  now : Int
  tfBps : Int        -- Token-2022 transfer fee in force for the bank's mint (0 / 0 when there is none)
  tfMax : Int
  origFee : Int      -- interest_rate_config.protocol_origination_fee (bits)
  progFeeRate : Int  -- group.fee_state_cache.program_fee_rate (bits)

/-- `calculate_pre_fee_spl_deposit_amount(..)`: `calculate_pre_fee_amount(..).unwrap()` -/
def preFeeAmt (e : Env) (post : Int) : Res Int :=
  match Token.preFee e.tfBps e.tfMax post with
  | some x => .ok x
  | none => .error .panic

/-- the slot `find_or_create` hands out for a bank the account has no position in -/
def freshBalance (b : Bank) (now : Int) : Balance :=
  { active := true, tag := b.assetTag, a := 0, l := 0, emis := 0, lastUpdate := now }

def satAdd (a b : Int) : Int := let r := a + b; if r > Fx.MAX then Fx.MAX else if r < Fx.MIN then Fx.MIN else r
def satSub (a b : Int) : Int := let r := a - b; if r > Fx.MAX then Fx.MAX else if r < Fx.MIN then Fx.MIN else r

/-- result: bank, position (none = the instruction returned before touching any position), tokens to transfer -/
abbrev Out := Bank × Option Balance × Int

/-- the amount a deposit actually books: clamped to the remaining capacity when `deposit_up_to_limit` -/
def depositAmt (b : Bank) (amount : Int) (upTo : Bool) : Res Int :=
  if upTo then (remainingDepositCapacity b).map (min amount) else .ok amount

def depositCore (e : Env) (b : Bank) (bal : Option Balance) (amt : Int) : Res Out := do
  let r ← increaseBalance b (bal.getD (freshBalance b e.now)) e.now (ofInt amt) .depositOnly
  let pre ← preFeeAmt e amt
  .ok (r.1, some r.2, pre)

/-- `lending_account_deposit(amount, deposit_up_to_limit)` -/
def deposit (e : Env) (b0 : Bank) (bal : Option Balance) (amount : Int) (upTo : Bool) : Res Out := do
  let b ← accrueInterest b0 e.ir e.now
  let amt ← depositAmt b amount upTo
  if amt = 0 then .ok (b, bal, 0) else depositCore e b bal amt

/-- `lending_account_withdraw(amount, withdraw_all)` (outside receivership, bank not sunset) -/
def withdraw (e : Env) (b0 : Bank) (bal : Option Balance) (amount : Int) (all : Bool) : Res Out := do
  let b ← accrueInterest b0 e.ir e.now
  match bal with
  | none => merr E.BankAccountNotFound
  | some x =>
    if all then do
      let (b, x, amt) ← withdrawAll b x e.now
      .ok (b, some x, amt)
    else do
      let pre ← preFeeAmt e amount
      let (b, x) ← decreaseBalance b x e.now (ofInt pre) .withdrawOnly
      .ok (b, some x, pre)

/-- `lending_account_borrow(amount)` up to (not including) the health check -/
def borrow (e : Env) (b0 : Bank) (bal : Option Balance) (amount : Int) : Res Out := do
  let b ← accrueInterest b0 e.ir e.now
  let x := bal.getD (freshBalance b e.now)
  let pre ← preFeeAmt e amount
  if e.origFee ≠ 0 then do
    let fee ← math (mul? (ofInt pre) e.origFee)
    let _ ← math (toU64? fee)
    let tot ← Interest.addP (ofInt pre) fee
    let (b, x) ← decreaseBalance b x e.now tot .borrowOnly
    -- the program and/or group fee bucket gains the origination fee
    if fee = 0 then .ok (b, some x, pre)
    else if e.progFeeRate ≠ 0 then do
      let pf ← math (mul? fee e.progFeeRate)
      .ok ({ b with feeG := satAdd b.feeG (satSub fee pf), feeP := satAdd b.feeP pf }, some x, pre)
    else .ok ({ b with feeG := satAdd b.feeG fee }, some x, pre)
  else do
    let (b, x) ← decreaseBalance b x e.now (ofInt pre) .borrowOnly
    .ok (b, some x, pre)

/-- `lending_account_repay(amount, repay_all)` (ordinary signer, bank not flagged for token-less repayment) -/
def repay (e : Env) (b0 : Bank) (bal : Option Balance) (amount : Int) (all : Bool) : Res Out := do
  let b ← accrueInterest b0 e.ir e.now
  match bal with
  | none => merr E.BankAccountNotFound
  | some x =>
    if all then do
      let (b, x, post) ← repayAll b x e.now
      let pre ← preFeeAmt e post
      .ok (b, some x, pre)
    else do
      let (b, x) ← increaseBalance b x e.now (ofInt amount) .repayOnly
      let pre ← preFeeAmt e amount
      .ok (b, some x, pre)

/-- `lending_account_close_balance`: accrual first, then the wrapper's `close_balance` (claims emissions, refuses anything
    above dust on either side at the ACCRUED share values, deactivates the slot) -/
def closeBalance (e : Env) (b0 : Bank) (bal : Option Balance) : Res Out := do
  let b ← accrueInterest b0 e.ir e.now
  match bal with
  | none => merr E.BankAccountNotFound
  | some x => do
    let (b, x) ← closeBalanceOp b x e.now
    .ok (b, some x, 0)

/-- `lending_account_purge_deleverage_balance` (risk admin, bank flagged TOKENLESS_REPAYMENTS_COMPLETE; no accrual, no
    emissions claim): the position is closed and the bank's deposit total falls by exactly its deposit shares; a debt
    residue is tolerated only when its VALUE at the current share value is below the dust threshold, and stays in the
    bank's debt total -/
def purge (b : Bank) (bal : Option Balance) : Res Out :=
  match bal with
  | none => merr E.BankAccountNotFound
  | some x => do
    let la ← liabAmount b x.l
    if Fx.abs la ≥ ZERO_AMOUNT_THRESHOLD then merr E.OperationWithdrawOnly
    else do
      let x' ← Bank.closeBalance x false
      let b1 := { b with lendCnt := satI32 (b.lendCnt - 1) }
      let b2 ← changeAssetShares b1 (-x.a) false
      .ok (b2, some x', 0)

/-- `lending_pool_close_bank` (group admin): the bank must be closable by version, hold no open position on either side,
    and have share totals and unclaimed emissions that are zero within the dust tolerance -/
def closeBank (b : Bank) : Res Unit :=
  if b.flags &&& CLOSE_ENABLED_FLAG.toNat = 0 then merr E.BankCannotClose
  else if !(b.lendCnt = 0 ∧ b.borrowCnt = 0) then merr E.BankCannotClose
  else if !(isZeroTol b.sa ZERO_AMOUNT_THRESHOLD && isZeroTol b.sl ZERO_AMOUNT_THRESHOLD) then merr E.BankCannotClose
  else if !(isZeroTol b.emissionsRemaining ZERO_AMOUNT_THRESHOLD) then merr E.BankCannotClose
  else .ok ()

/-! ### classic liquidation: the accounting block of `lending_account_liquidate`

Both banks are accrued, the amounts block (`Risk.liquidationAmounts`: 97.5 % / 95 % of the seized value at the given
prices) is evaluated with each bank's BALANCE decimals, then the four balance moves in the handler's order, the
over-liquidation guard on the liquidatee's collateral, the insurance fee split (whole tokens to the insurance vault,
fraction to the outstanding insurance fees). The health conditions before / after (`Risk.preLiquidationFor`,
`Risk.postLiquidation`, the liquidator's initial check) are the risk-engine model's; the `liqix` family emits lines for
liquidations the real instruction ACCEPTED and diffs every bank and position field bit for bit. -/

structure LiqOut where
  assetBank : Bank
  liabBank : Bank
  lqLiab : Balance      -- the liquidator's position in the debt bank
  leAsset : Balance     -- the liquidatee's position in the collateral bank
  lqAsset : Balance     -- the liquidator's position in the collateral bank
  leLiab : Balance      -- the liquidatee's position in the debt bank
  insuranceTokens : Int -- whole tokens moved liquidity vault → insurance vault
  deriving DecidableEq, Repr

def liquidate (irA irL : Interest.IrCalc) (now : Int) (a0 l0 : Bank)
    (lqLiab : Option Balance) (leAsset : Balance) (lqAsset : Option Balance) (leLiab : Balance)
    (assetAmount assetPrice liabPrice : Int) : Res LiqOut := do
  let a ← accrueInterest a0 irA now
  let l ← accrueInterest l0 irL now
  let _ ← chk (decide (assetPrice > 0)) E.ZeroAssetPrice
  let _ ← chk (decide (liabPrice > 0)) E.ZeroLiabilityPrice
  let amts ← Risk.liquidationAmounts assetAmount assetPrice liabPrice (balanceDecimals a) (balanceDecimals l)
  -- liquidator takes the liability on its books
  let r1 ← decreaseBalance l (lqLiab.getD (freshBalance l now)) now amts.liquidator .bypassBorrowLimit
  -- liquidatee gives up the collateral
  let pre ← Bank.assetAmount a leAsset.a
  let _ ← chk (decide (pre ≥ ofInt assetAmount)) E.OverliquidationAttempt
  let r2 ← decreaseBalance a leAsset now (ofInt assetAmount) .bypassBorrowLimit
  -- liquidator receives it
  let r3 ← increaseBalance r2.1 (lqAsset.getD (freshBalance r2.1 now)) now (ofInt assetAmount) .bypassDepositLimit
  -- liquidatee's debt is repaid by the discounted amount
  let r4 ← increaseBalance r1.1 leLiab now amts.final .repayOnly
  let f ← math (add? r4.1.feeI amts.feeFrac)
  .ok { assetBank := r3.1, liabBank := { r4.1 with feeI := f }, lqLiab := r1.2, leAsset := r2.2, lqAsset := r3.2, leLiab := r4.2,
        insuranceTokens := amts.feeWhole }

/-- `lending_pool_handle_bankruptcy`, the books: the bank is brought up to the current time FIRST, and the bad debt —
    what insurance covers, what depositors lose, what is repaid — is the position's debt at the accrued share value -/
def bankruptcy (ir : Interest.IrCalc) (now : Int) (b0 : Bank) (bal : Balance) (available : Int) : Res BankruptcyOut := do
  let b ← accrueInterest b0 ir now
  settleBankruptcy b bal available now

end Mfi.Ix
