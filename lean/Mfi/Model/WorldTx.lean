/-
  TRANSACTIONS on the world state machine: a transaction is a list of top-level instructions executed in order on the same
  clock; if any of them is refused the whole transaction is rolled back (the state stays as it was), otherwise the state the
  last one leaves is committed. On top of the whole instructions of `Mfi.World` (`WOp`), a transaction may contain the two
  flash-loan instructions, whose meaning depends on the transaction they sit in:

    lending_account_start_flashloan(end_index): the authority signs (regenerated table) → introspection
      (`check_flashloan_can_start`: this instruction sits before `end_index`, and the instruction at `end_index` is a
      top-level marginfi `lending_account_end_flashloan` whose first account is THIS margin account) → the account is neither
      disabled, already in a flash loan, in receivership nor frozen → ACCOUNT_IN_FLASHLOAN is set.
    lending_account_end_flashloan: `World.endFlashloan` (the flag is cleared and the initial-margin check runs on the whole
      portfolio as it stands).

  Between the two, `World.borrow` / `withdraw` / `liquidate` skip their own health checks for the flagged account (that is
  part of those instruction models already). Instructions are top level (stack height 1); the raw introspection on the
  serialized Instructions sysvar is `Mfi.Tx.canStartFlashloan`, diffed against the real function by the `tx` family; the rule
  used here is its abstraction to instructions named by kind and account, diffed against the REAL start instruction inside
  real transactions by the `wd.startfl` lines of the `world` family.
-/
import Mfi.Model.World
namespace Mfi.World
open Mfi Mfi.Fx Mfi.Gen Mfi.Gen.Acc

/-- `WState.step`, telling a refused instruction (`none`) from an accepted one -/
def WState.step? (w : WState) (op : WOp) : Option WState :=
  let go (ai bi signer : Nat) (vaultAmount : Int) (run : Ctx → Res Out) (dust : Account.Slot → Int × Int) : Option WState :=
    match w.accts[ai]?, w.banks[bi]? with
    | some a, some b =>
      match run (w.ctx a b signer b.v.liquidityVault vaultAmount) with
      | .ok o => let d := dust (slotOf a b.v.key); some (w.commit ai bi a b o.slots a.flags o.books b.v.opState o.window d.1 d.2)
      | .error _ => none
    | _, _ => none
  match op with
  | .deposit ai bi signer amount upTo => go ai bi signer 0 (fun c => deposit c amount upTo) (fun _ => (0, 0))
  | .withdraw ai bi signer amount all vault => go ai bi signer vault (fun c => withdraw c amount all) (fun s => (0, if all then s.l else 0))
  | .borrow ai bi signer amount => go ai bi signer 0 (fun c => borrow c amount) (fun _ => (0, 0))
  | .repay ai bi signer amount all => go ai bi signer 0 (fun c => repay c amount all) (fun s => (if all then s.a else 0, 0))
  | .close ai bi signer => go ai bi signer 0 (fun c => closeBalance c) (fun s => (s.a, s.l))
  | .bankruptcy ai bi signer available =>
    match w.accts[ai]?, w.banks[bi]? with
    | some a, some b =>
      match bankruptcy (w.ctx a b signer b.v.liquidityVault 0) available with
      | .ok o => some (w.commit ai bi a b o.slots o.flags o.books o.opState w.g.window 0 0)
      | .error _ => none
    | _, _ => none
  | .liquidate qi ei abi lbi signer amount =>
    if qi = ei ∨ abi = lbi then none else
    match w.accts[qi]?, w.accts[ei]?, w.banks[abi]?, w.banks[lbi]? with
    | some lq, some le, some ab, some lb =>
      match liquidate (w.liqCtx lq le ab lb signer) amount with
      | .ok o => some (w.commit2 qi ei abi lbi lq le ab lb o)
      | .error _ => none
    | _, _, _, _ => none
  | .transfer ai signer newKey newAuth feeWalletOk =>
    if newKey = 0 ∨ w.accts.any (fun x => x.key == newKey) then none else
    match w.accts[ai]? with
    | some a =>
      match transferIx w.g a signer newKey newAuth feeWalletOk with
      | .ok (o, n) => some { w with accts := w.accts.set ai o ++ [n] }
      | .error _ => none
    | none => none
  | .accrue bi =>
    match w.banks[bi]? with
    | some b =>
      match accrueIx (w.bctx b 0) with
      | .ok books => some (w.commitB bi b books)
      | .error _ => none
    | none => none
  | .collect bi feeAtaOk vault =>
    match w.banks[bi]? with
    | some b =>
      match collectFeesIx (w.bctx b vault) feeAtaOk with
      | .ok o => some (w.commitB bi b o.books)
      | .error _ => none
    | none => none
  | .tick dt => some { w with now := w.now + dt }

/-- an instruction of a transaction -/
inductive TOp
  | ix (op : WOp)
  | startFlash (ai signer endIdx : Nat)
  | endFlash (ai signer : Nat)
  | startLiq (ai receiver : Nat) (recordOk : Bool)
  | endLiq (ai signer : Nat) (recordOk walletOk : Bool) (feeMax : Int)   -- feeMax: the fee state's liquidation_max_fee
  | startDelev (ai signer : Nat) (recordOk : Bool)                       -- start_deleverage: `signer` is passed as risk_admin
  | endDelev (ai signer : Nat) (recordOk : Bool)

/-- is this instruction a top-level marginfi `lending_account_end_flashloan` whose first account is margin account `ai`?
    (accounts are identified by their place in the world, as the real introspection identifies them by their address) -/
def isEndFlashOf (ai : Nat) : TOp → Bool
  | .endFlash aj _ => aj == ai
  | _ => false

/-- the context of an instruction on a margin account alone: no bank is operated on (key 0 names no position) -/
def noBank : BankV :=
  { key := 0, group := 0, liquidityVault := 0,
    books := { asv := 0, lsv := 0, sa := 0, sl := 0, feeI := 0, feeG := 0, feeP := 0, depositLimit := 0, borrowLimit := 0, flags := 0,
               assetTag := 0, mintDecimals := 0, emissionsRate := 0, emissionsRemaining := 0, lendCnt := 0, borrowCnt := 0,
               lastUpdate := 0, cacheAccum := 0, cacheFor := 0 },
    ir := { optimal := 0, plateau := 0, maxIr := 0, insFixed := 0, insRate := 0, grpFixed := 0, grpRate := 0, progFixed := 0,
            progRate := 0, addProgramFees := false, zeroRate := 0, hundredRate := 0, points := [], curveType := 0 },
    opState := 1, origFee := 0, tfBps := 0, tfMax := 0, weightInitZero := false }

def WState.actx (w : WState) (a : AcctV) (signer : Nat) : Ctx :=
  { now := w.now, g := w.g, a, signer, b := noBank, vaultKey := 0, vaultAmount := 0, risk := w.banks.map WBank.riskB }

/-- `lending_account_start_flashloan(end_index)` at position `cur` of the transaction: the new flag word. `endIx` = what sits
    at `end_index`: `none` nothing (a ProgramError of the sysvar loader, code 1 here), `some false` an instruction that is not a
    top-level marginfi end_flashloan for THIS margin account, `some true` one that is -/
def startFlashloan (c : Ctx) (cur endIdx : Nat) (endIx : Option Bool) : Res Nat := do
  runChecks c.env (checks .LendingAccountStartFlashloan)
  Bank.chk (decide (cur < endIdx)) E.IllegalFlashloan
  let mine ← (match endIx with | none => .error (.err 1) | some k => .ok k : Res Bool)
  Bank.chk mine E.IllegalFlashloan
  Bank.chk (!(flag c ACCOUNT_DISABLED)) E.AccountDisabled
  Bank.chk (!(flag c ACCOUNT_IN_FLASHLOAN)) E.IllegalFlashloan
  Bank.chk (!(flag c ACCOUNT_IN_RECEIVERSHIP)) E.ForbiddenIx
  Bank.chk (!(flag c ACCOUNT_FROZEN)) E.AccountFrozen
  .ok (c.a.flags ||| ACCOUNT_IN_FLASHLOAN.toNat)

def WState.setFlags (w : WState) (ai : Nat) (a : AcctV) (flags : Nat) : WState :=
  { w with accts := w.accts.set ai { a with flags } }

/-! ### the receivership bracket

`validate_instructions` as the start of a liquidation sees a transaction of the world machine (no compute-budget, refresh or
record-init instructions are modelled, so "first after the whitelisted ones" is "first"): the first instruction is the single
start; the last one is an end_liquidation; only start, end, withdraw and repay appear; the start is not the last instruction.
Error codes in the order of the real checks (first / repeats, last, exclusive list, sanity).

The forced deleverage of the risk admin (`start_deleverage` … `end_deleverage`) is the same bracket with its own pair of
instructions, no health condition at the start, both markers (ACCOUNT_IN_DELEVERAGE, which makes `World.withdraw` meter
the daily window, and ACCOUNT_IN_RECEIVERSHIP) and only "health not worse" at the end. -/

def isStartLiq : TOp → Bool
  | .startLiq _ _ _ => true
  | _ => false

def isEndLiq : TOp → Bool
  | .endLiq _ _ _ _ _ => true
  | _ => false

def liqAllowed : TOp → Bool
  | .startLiq _ _ _ => true
  | .endLiq _ _ _ _ _ => true
  | .ix (.withdraw _ _ _ _ _ _) => true
  | .ix (.repay _ _ _ _ _) => true
  | _ => false

def liqShape (tx : List TOp) (cur : Nat) : Res Unit :=
  match tx with
  | [] => .error .panic
  | t0 :: rest =>
    if !isStartLiq t0 then .error (.err E.StartNotFirst)
    else if rest.any isStartLiq then .error (.err E.StartRepeats)
    else if !((tx.getLast?).map isEndLiq).getD false then .error (.err E.EndNotLast)
    else if !tx.all liqAllowed then .error (.err E.ForbiddenIx)
    else if cur < tx.length - 1 then .ok () else .error (.err E.StartNotFirst)

/-! `validate_instructions` as `start_deleverage` calls it: the same rule with the deleverage pair as start and end (a
start_liquidation / end_liquidation inside a deleverage bracket is not on the exclusive list, and the other way round). -/

def isStartDelev : TOp → Bool
  | .startDelev _ _ _ => true
  | _ => false

def isEndDelev : TOp → Bool
  | .endDelev _ _ _ => true
  | _ => false

def delevAllowed : TOp → Bool
  | .startDelev _ _ _ => true
  | .endDelev _ _ _ => true
  | .ix (.withdraw _ _ _ _ _ _) => true
  | .ix (.repay _ _ _ _ _) => true
  | _ => false

def delevShape (tx : List TOp) (cur : Nat) : Res Unit :=
  match tx with
  | [] => .error .panic
  | t0 :: rest =>
    if !isStartDelev t0 then .error (.err E.StartNotFirst)
    else if rest.any isStartDelev then .error (.err E.StartRepeats)
    else if !((tx.getLast?).map isEndDelev).getD false then .error (.err E.EndNotLast)
    else if !tx.all delevAllowed then .error (.err E.ForbiddenIx)
    else if cur < tx.length - 1 then .ok () else .error (.err E.StartNotFirst)

def WState.rctx (w : WState) (a : AcctV) (recordOk : Bool) (receiver : Nat) (walletOk : Bool) (feeMax : Int) : RCtx :=
  { now := w.now, g := w.g, a, recordOk, receiver, walletOk, feeMax, risk := w.banks.map WBank.riskB }

/-- instruction `i` of transaction `tx` on state `w`: the state it leaves, or `none` when it is refused -/
def WState.stepIn (w : WState) (tx : List TOp) (i : Nat) : TOp → Option WState
  | .ix op => w.step? op
  | .startFlash ai signer endIdx =>
    match w.accts[ai]? with
    | some a =>
      match startFlashloan (w.actx a signer) i endIdx ((tx[endIdx]?).map (isEndFlashOf ai)) with
      | .ok flags => some (w.setFlags ai a flags)
      | .error _ => none
    | none => none
  | .endFlash ai signer =>
    match w.accts[ai]? with
    | some a =>
      match endFlashloan (w.actx a signer) 1 with
      | .ok flags => some (w.setFlags ai a flags)
      | .error _ => none
    | none => none
  | .startLiq ai receiver recordOk =>
    match w.accts[ai]? with
    | some a =>
      match startLiquidation (w.rctx a recordOk receiver true 0) (liqShape tx i) with
      | .ok o => some { w with accts := w.accts.set ai { a with flags := o.flags, recReceiver := o.receiver, recCache := o.cache } }
      | .error _ => none
    | none => none
  | .endLiq ai signer recordOk walletOk feeMax =>
    match w.accts[ai]? with
    | some a =>
      match endLiquidation (w.rctx a recordOk signer walletOk feeMax) 1 with
      | .ok o => some { w with accts := w.accts.set ai { a with flags := o.flags, recReceiver := 0 } }
      | .error _ => none
    | none => none

  | .startDelev ai signer recordOk =>
    match w.accts[ai]? with
    | some a =>
      match startDeleverage (w.rctx a recordOk signer true 0) (delevShape tx i) with
      | .ok o => some { w with accts := w.accts.set ai { a with flags := o.flags, recReceiver := o.receiver, recCache := o.cache } }
      | .error _ => none
    | none => none
  | .endDelev ai signer recordOk =>
    match w.accts[ai]? with
    | some a =>
      match endDeleverage (w.rctx a recordOk signer true 0) 1 with
      | .ok o => some { w with accts := w.accts.set ai { a with flags := o.flags, recReceiver := 0 } }
      | .error _ => none
    | none => none

/-- the instructions of `tx` from position `i` on -/
def WState.runFrom (tx : List TOp) : Nat → List TOp → WState → Option WState
  | _, [], w => some w
  | i, op :: rest, w =>
    match w.stepIn tx i op with
    | some w' => WState.runFrom tx (i + 1) rest w'
    | none => none

/-- a whole transaction: committed (`some`) or rolled back (`none`) -/
def WState.runTx (w : WState) (tx : List TOp) : Option WState := WState.runFrom tx 0 tx w

/-- the protocol over any sequence of transactions and lapses of time: a rolled-back transaction leaves the state as it was -/
def WState.runTxs (w : WState) : List (List TOp) → WState
  | [] => w
  | tx :: rest => WState.runTxs ((w.runTx tx).getD w) rest

end Mfi.World
