/-
  WHOLE-INSTRUCTION model of the five user instructions on the program's own banks:

      lending_account_deposit / _withdraw / _borrow / _repay / _close_balance

  from the first account check to the last line of the handler, on the WHOLE margin account (all 16 slots), i.e.

      Anchor account checks (INTERPRETED from the table `Gen.Acc.checks`, regenerated from the `#[derive(Accounts)]`
      structs on every run: has_one / constraint in Anchor's order, each with the error code attached in the source)
      →  account-flag checks of the handler  →  validate_asset_tags / validate_bank_state (in the handler's order)
      →  accrual  →  find / find_or_create on the slot array  →  the bank-and-position core (`Mfi.Ix`, `Mfi.Bank`)
      →  sunset special cases (token-less repayment, completed deleverage)  →  withdrawn-equity window (deleverage)
      →  sort_balances  →  the initial-margin check of the risk engine on the WHOLE post-state portfolio
         (skipped exactly in a flash loan and, for withdraw, in receivership).

  The result is the exact error code or the complete post-state (slot array, bank books and flags, tokens moved, the
  group's withdrawal window). The `world` correspondence family runs the REAL instructions through real dispatch on
  contexts with any combination of refusal causes and diffs code / post-state.

  Not modelled here: token-program failures (insufficient funds: the family skips those), malformed remaining-account
  lists (the engine constructor fails closed), the health / price caches and events.
-/
import Mfi.Model.Ix
import Mfi.Model.Account
import Mfi.Model.Gate
import Mfi.Model.Auth
import Mfi.Model.Admin
import Mfi.Model.Transfer
import Mfi.Gen.Constraints
namespace Mfi.World
open Mfi Mfi.Fx Mfi.Gen Mfi.Gen.Acc

/-! ### the account checks, interpreted from the generated table -/

/-- what an account check can read of an account -/
inductive AccV
  | group (key admin : Nat) (paused : Bool)
  | acct (key group authority : Nat) (flags : Nat)
  | bank (key group liquidityVault : Nat) (tag : Int) (flags : Nat) (weightInitZero : Bool) (emissionsMint : Nat := 0)
  | other (key : Nat)
  | acctR (key : Nat) (flags : Nat) (record : Nat) (group : Nat := 0)   -- a margin account as the receivership instructions read it: flags, the key of its liquidation record, its group
  | groupR (key riskAdmin : Nat)                         -- a group as the deleverage instructions read it: the risk admin it names
  | record (key receiver : Nat)                          -- a liquidation record: the receiver it names
  | feeState (key wallet : Nat)                          -- the fee state: the global fee wallet it names
  deriving DecidableEq, Repr

def AccV.key : AccV → Nat
  | .group k _ _ => k
  | .acct k _ _ _ => k
  | .bank k _ _ _ _ _ _ => k
  | .other k => k
  | .acctR k _ _ _ => k
  | .groupR k _ => k
  | .record k _ => k
  | .feeState k _ => k

abbrev Env := F → Option AccV

def hasFlag (flags : Nat) (bit : Int) : Bool := (flags &&& bit.toNat) == bit.toNat

/-- the bit a flag name of the table stands for (total: a flag the model does not know makes the check uninterpretable) -/
def flBit (f : Fl) : Option Int :=
  if f = .fl_ACCOUNT_DISABLED then some ACCOUNT_DISABLED
  else if f = .fl_ACCOUNT_IN_FLASHLOAN then some ACCOUNT_IN_FLASHLOAN
  else if f = .fl_ACCOUNT_IN_RECEIVERSHIP then some ACCOUNT_IN_RECEIVERSHIP
  else if f = .fl_TOKENLESS_REPAYMENTS_ALLOWED then some TOKENLESS_REPAYMENTS_ALLOWED
  else if f = .fl_TOKENLESS_REPAYMENTS_COMPLETE then some TOKENLESS_REPAYMENTS_COMPLETE
  else none

def flagsOf : AccV → Option Nat
  | .acct _ _ _ fl => some fl
  | .bank _ _ _ _ fl _ _ => some fl
  | .acctR _ fl _ _ => some fl
  | _ => none

def tagIs (k : TagK) (t : Int) : Bool :=
  match k with
  | .marginfi => t == ASSET_TAG_DEFAULT || t == ASSET_TAG_SOL || t == ASSET_TAG_STAKED
  | .kamino => t == ASSET_TAG_KAMINO
  | .drift => t == ASSET_TAG_DRIFT
  | .solend => t == ASSET_TAG_SOLEND

def acctView (authority : Nat) (flags : Nat) : Auth.AcctView :=
  { authority, frozen := hasFlag flags ACCOUNT_FROZEN, inReceivership := hasFlag flags ACCOUNT_IN_RECEIVERSHIP }

/-- does the check hold?  `none` = the model cannot interpret it in this environment -/
def evalChk (env : Env) : Chk → Option Bool
  | .hasOne field target =>
    match env field, env target with
    | some (.acct _ g _ _), some (.group k _ _) => some (g == k)
    | some (.acct _ _ a _), some (.other k) => if target = .f_authority then some (a == k) else none
    | some (.bank _ g _ _ _ _ _), some (.group k _ _) => some (g == k)
    | some (.bank _ _ v _ _ _ em), some (.other k) =>
      if target = .f_liquidity_vault then some (v == k) else if target = .f_emissions_mint then some (em == k) else none
    | some (.acctR _ _ r _), some (.record k _) => some (r == k)
    | some (.acctR _ _ _ g), some (.groupR k _) => some (g == k)
    | some (.groupR _ ra), some (.other k) => if target = .f_risk_admin then some (ra == k) else none
    | some (.record _ recv), some (.other k) => if target = .f_liquidation_receiver then some (recv == k) else none
    | some (.feeState _ w), some (.other k) => if target = .f_global_fee_wallet then some (w == k) else none
    | _, _ => none
  | .cons _ c =>
    match c with
    | .notPaused g => match env g with | some (.group _ _ p) => some (!p) | _ => none
    | .signerAuth a s allow =>
      match env a, env s, env .f_group with
      | some (.acct _ _ auth fl), some sk, some (.group _ admin _) =>
        some (Auth.isSignerAuthorized (acctView auth fl) admin sk.key allow)
      | _, _, _ => none
    | .notFrozen a s =>
      match env a, env s with
      | some (.acct _ _ auth fl), some sk => some (Auth.notFrozenForAuthority (acctView auth fl) sk.key)
      | _, _ => none
    | .assetTag k b => match env b with | some (.bank _ _ _ t _ _ _) => some (tagIs k t) | _ => none
    | .flagClear a f =>
      match (env a).bind flagsOf, flBit f with
      | some fl, some bit => some (!hasFlag fl bit)
      | _, _ => none
    | .flagSet a f =>
      match (env a).bind flagsOf, flBit f with
      | some fl, some bit => some (hasFlag fl bit)
      | _, _ => none
    | .zeroWeightRecv a b =>
      match env a, env b with
      | some (.acct _ _ _ fl), some (.bank _ _ _ _ _ wz _) => some (!(hasFlag fl ACCOUNT_IN_RECEIVERSHIP && wz))
      | _, _ => none
    | .receiverIs r who =>
      match env r, env who with
      | some (.record _ recv), some (.other k) => some (recv == k)
      | _, _ => none
    | _ => none

/-- Anchor's constraint phase: the first check that does not hold raises its error; a check the model cannot interpret
    raises the impossible code 0 (it then matches nothing the program can answer) -/
def runChecks (env : Env) : List (Chk × Nat) → Res Unit
  | [] => .ok ()
  | (c, e) :: rest =>
    match evalChk env c with
    | some true => runChecks env rest
    | some false => .error (.err e)
    | none => .error (.err 0)

/-! ### the context of a user instruction -/

structure GroupV where
  key : Nat
  admin : Nat
  riskAdmin : Nat
  paused : Bool            -- is_protocol_paused() at the current clock
  progFeeRate : Int
  window : Admin.Window    -- deleverage withdraw window
  deriving Repr

structure AcctV where
  key : Nat
  group : Nat
  authority : Nat
  flags : Nat
  slots : List Account.Slot
  migratedTo : Nat := 0     -- key of the account this one was transferred to (0 = never transferred)
  recReceiver : Nat := 0    -- its liquidation record: the receiver named by a running receivership (0 = none)
  recCache : Risk.PreCache := ⟨0, 0, 0, 0⟩   -- … and the health snapshot its start took
  deriving Repr

/-- the risk engine's view of a bank the account may hold a position in (the operated bank included, pre-state) -/
structure RiskB where
  key : Nat
  r : Risk.BankR
  feed : Risk.Feed
  deriving Repr

structure BankV where
  key : Nat
  group : Nat
  liquidityVault : Nat
  books : Bank.Bank
  ir : Interest.IrCalc
  opState : Int
  origFee : Int
  tfBps : Int
  tfMax : Int
  weightInitZero : Bool
  emissionsMint : Nat := 0
  deriving Repr

structure Ctx where
  now : Int
  g : GroupV
  a : AcctV
  signer : Nat
  b : BankV
  vaultKey : Nat           -- the liquidity-vault account passed to the instruction
  vaultAmount : Int        -- its token balance
  risk : List RiskB
  emisMint : Nat := 0      -- the emissions mint account passed (emissions instructions only)
  deriving Repr

def Ctx.env (c : Ctx) : Env := fun f =>
  if f = .f_group then some (.group c.g.key c.g.admin c.g.paused)
  else if f = .f_marginfi_account then some (.acct c.a.key c.a.group c.a.authority c.a.flags)
  else if f = .f_authority then some (.other c.signer)
  else if f = .f_bank then some (.bank c.b.key c.b.group c.b.liquidityVault c.b.books.assetTag c.b.books.flags c.b.weightInitZero c.b.emissionsMint)
  else if f = .f_liquidity_vault then some (.other c.vaultKey)
  else if f = .f_emissions_mint then some (.other c.emisMint)
  else none

structure Out where
  slots : List Account.Slot
  books : Bank.Bank
  tokens : Int             -- tokens moved between the user's token account and the liquidity vault (0 = no transfer)
  window : Admin.Window
  deriving Repr

/-! ### glue -/

def toBal (s : Account.Slot) : Bank.Balance :=
  { active := s.active, tag := s.tag, a := s.a, l := s.l, emis := s.emis, lastUpdate := s.lastUpdate }

/-- a slot after a wrapper operation: a closed balance is `Balance::empty_deactivated()` (default key) -/
def ofBal (k : Nat) (x : Bank.Balance) : Account.Slot :=
  { active := x.active, bank := if x.active then k else 0, tag := x.tag, a := x.a, l := x.l, emis := x.emis, lastUpdate := x.lastUpdate }

def Ctx.ixEnv (c : Ctx) : Ix.Env :=
  { ir := c.b.ir, now := c.now, tfBps := c.b.tfBps, tfMax := c.b.tfMax, origFee := c.b.origFee, progFeeRate := c.g.progFeeRate }

def flag (c : Ctx) (bit : Int) : Bool := hasFlag c.a.flags bit

def bankState (c : Ctx) (k : Gate.Kind) : Res Unit :=
  match Gate.OpState.ofInt c.b.opState with
  | none => .error .panic
  | some s => match Gate.validateBankState s k with
    | none => .ok ()
    | some e => .error (.err e)

/-- `BankAccountWrapper::find` -/
def findSlot (c : Ctx) : Res (Nat × Account.Slot) :=
  match Account.findIdx c.a.slots c.b.key with
  | none => .error (.err E.BankAccountNotFound)
  | some i => match c.a.slots[i]? with
    | some s => .ok (i, s)
    | none => .error .panic

/-- the portfolio the risk engine sees: the active slots in slot order, each with its bank's view; the operated bank with
    its books as the instruction leaves them -/
def portfolio (c : Ctx) (slots : List Account.Slot) (books : Bank.Bank) : Res (List Risk.Pos) :=
  (slots.filter (·.active)).mapM fun s =>
    match c.risk.find? (·.key == s.bank) with
    | none => .error (.err E.InvalidBankAccount)
    | some rb =>
      let r := if s.bank == c.b.key then { rb.r with asv := books.asv, lsv := books.lsv, sa := books.sa } else rb.r
      .ok { bank := r, a := s.a, l := s.l, feed := rb.feed }

/-- `RiskEngine::check_account_init_health`: nothing is checked inside a flash loan -/
def initHealth (c : Ctx) (slots : List Account.Slot) (books : Bank.Bank) : Res Unit :=
  if flag c ACCOUNT_IN_FLASHLOAN then .ok () else do
    let ps ← portfolio c slots books
    Risk.checkInitHealth ps

/-- the balance in slot `i` (always there after `find_or_create`) -/
def balAt (slots : List Account.Slot) (i : Nat) : Res Bank.Balance :=
  match slots[i]? with
  | some s => .ok (toBal s)
  | none => .error .panic

def writeSlot (c : Ctx) (slots : List Account.Slot) (i : Nat) (x : Bank.Balance) : List Account.Slot :=
  Account.sortBalances (slots.set i (ofBal c.b.key x))

/-! ### the five instructions -/

/-- `lending_account_deposit(amount, deposit_up_to_limit)` -/
def deposit (c : Ctx) (amount : Int) (upTo : Bool) : Res Out := do
  runChecks c.env (checks .LendingAccountDeposit)
  Account.validateAssetTags c.a.slots c.b.books.assetTag
  bankState c .failsIfPausedOrReduceState
  Bank.chk (!(flag c ACCOUNT_DISABLED) && !(flag c ACCOUNT_IN_RECEIVERSHIP)) E.AccountDisabled
  let b ← Bank.accrueInterest c.b.books c.b.ir c.now
  let amt ← Ix.depositAmt b amount upTo
  if amt = 0 then .ok { slots := c.a.slots, books := b, tokens := 0, window := c.g.window }
  else do
    let (slots, i) ← Account.findOrCreate c.a.slots c.b.key b.assetTag c.now
    let x ← balAt slots i
    let (b', x', tok) ← Ix.depositCore c.ixEnv b (some x) amt
    .ok { slots := writeSlot c slots i (x'.getD x), books := b', tokens := tok, window := c.g.window }

/-- the common tail of a borrow once the slot is known: `Ix.borrow` without its own accrual (already done) -/
def borrowCore (e : Ix.Env) (b : Bank.Bank) (x : Bank.Balance) (amount : Int) : Res (Bank.Bank × Bank.Balance × Int) := do
  let pre ← Ix.preFeeAmt e amount
  if e.origFee ≠ 0 then do
    let fee ← Bank.math (mul? (ofInt pre) e.origFee)
    let _ ← Bank.math (toU64? fee)
    let tot ← Interest.addP (ofInt pre) fee
    let (b, x) ← Bank.decreaseBalance b x e.now tot .borrowOnly
    if fee = 0 then .ok (b, x, pre)
    else if e.progFeeRate ≠ 0 then do
      let pf ← Bank.math (mul? fee e.progFeeRate)
      .ok ({ b with feeG := Ix.satAdd b.feeG (Ix.satSub fee pf), feeP := Ix.satAdd b.feeP pf }, x, pre)
    else .ok ({ b with feeG := Ix.satAdd b.feeG fee }, x, pre)
  else do
    let (b, x) ← Bank.decreaseBalance b x e.now (ofInt pre) .borrowOnly
    .ok (b, x, pre)

/-- `lending_account_borrow(amount)` -/
def borrow (c : Ctx) (amount : Int) : Res Out := do
  runChecks c.env (checks .LendingAccountBorrow)
  Bank.chk (!(flag c ACCOUNT_DISABLED) && !(flag c ACCOUNT_IN_RECEIVERSHIP)) E.AccountDisabled
  let b ← Bank.accrueInterest c.b.books c.b.ir c.now
  Account.validateAssetTags c.a.slots b.assetTag
  bankState c .failsIfPausedOrReduceState
  let (slots, i) ← Account.findOrCreate c.a.slots c.b.key b.assetTag c.now
  let x ← balAt slots i
  let (b', x', tok) ← borrowCore c.ixEnv b x amount
  let slots' := writeSlot c slots i x'
  initHealth c slots' b'
  .ok { slots := slots', books := b', tokens := tok, window := c.g.window }

/-- the price `lending_account_withdraw` fetches in receivership: real-time, low bias, must be positive -/
def receivershipPrice (c : Ctx) : Res Int := do
  match c.risk.find? (·.key == c.b.key) with
  | none => .error (.err E.InvalidBankAccount)
  | some rb =>
    let p ← Risk.priceOfType rb.feed .realTime (some .low) rb.r.maxConf
    if p > 0 then .ok p else .error (.err E.ZeroAssetPrice)

/-- the price a withdrawal is metered at: fetched only in receivership -/
def withdrawPrice (c : Ctx) : Res Int := if flag c ACCOUNT_IN_RECEIVERSHIP then receivershipPrice c else .ok 0

/-- the booking of a withdrawal: everything, or the (pre-fee) amount asked for -/
def withdrawCore (c : Ctx) (b : Bank.Bank) (x : Bank.Balance) (amount : Int) (all : Bool) : Res (Bank.Bank × Bank.Balance × Int) :=
  if all then Bank.withdrawAll b x c.now
  else do
    let pre ← Ix.preFeeAmt c.ixEnv amount
    let (b', x') ← Bank.decreaseBalance b x c.now (ofInt pre) .withdrawOnly
    .ok (b', x', pre)

/-- a completed deleverage pays what is left in the vault -/
def withdrawPays (c : Ctx) (b' : Bank.Bank) (pre : Int) : Int :=
  if hasFlag b'.flags TOKENLESS_REPAYMENTS_COMPLETE then min pre c.vaultAmount else pre

/-- the deleverage withdrawal window: metered only for accounts flagged as being deleveraged -/
def withdrawWindow (c : Ctx) (price : Int) (b' : Bank.Bank) (tokens : Int) : Res Admin.Window :=
  if flag c ACCOUNT_IN_DELEVERAGE then do
    let v ← Risk.calcValue (ofInt tokens) price (Bank.balanceDecimals b') none
    Admin.updateWithdrawnEquity c.g.window v c.now
  else .ok c.g.window

/-- the initial-margin check at the end of a withdrawal is skipped in receivership (and, inside, in a flash loan) -/
def withdrawHealth (c : Ctx) (slots : List Account.Slot) (b' : Bank.Bank) : Res Unit :=
  if flag c ACCOUNT_IN_RECEIVERSHIP then .ok () else initHealth c slots b'

/-- `lending_account_withdraw(amount, withdraw_all)` -/
def withdraw (c : Ctx) (amount : Int) (all : Bool) : Res Out := do
  runChecks c.env (checks .LendingAccountWithdraw)
  Bank.chk (!(flag c ACCOUNT_DISABLED)) E.AccountDisabled
  bankState c .failsInPausedState
  let price ← withdrawPrice c
  let b ← Bank.accrueInterest c.b.books c.b.ir c.now
  let (i, s) ← findSlot c
  let (b', x', pre) ← withdrawCore c b (toBal s) amount all
  let tokens := withdrawPays c b' pre
  let window ← withdrawWindow c price b' tokens
  let slots' := writeSlot c c.a.slots i x'
  withdrawHealth c slots' b'
  .ok { slots := slots', books := b', tokens, window }

/-- the booking of a repayment: the whole debt, or the amount given -/
def repayCore (c : Ctx) (b : Bank.Bank) (x : Bank.Balance) (amount : Int) (all : Bool) : Res (Bank.Bank × Bank.Balance × Int) :=
  if all then Bank.repayAll b x c.now
  else do
    let (b', x') ← Bank.increaseBalance b x c.now (ofInt amount) .repayOnly
    .ok (b', x', amount)

/-- tokens a repayment takes from the signer: none for the risk admin's token-less full repayment on a bank flagged for it -/
def repayTokens (c : Ctx) (b' : Bank.Bank) (post : Int) (all : Bool) : Res Int :=
  if c.signer == c.g.riskAdmin && hasFlag b'.flags TOKENLESS_REPAYMENTS_ALLOWED && all then .ok 0
  else Ix.preFeeAmt c.ixEnv post

/-- once the debts of a bank flagged for token-less repayment are discharged it is marked complete -/
def repayFlags (b' : Bank.Bank) : Nat :=
  if hasFlag b'.flags TOKENLESS_REPAYMENTS_ALLOWED && decide (Fx.abs b'.sl < ZERO_AMOUNT_THRESHOLD * 10)
  then b'.flags ||| TOKENLESS_REPAYMENTS_COMPLETE.toNat else b'.flags

/-- `lending_account_repay(amount, repay_all)` -/
def repay (c : Ctx) (amount : Int) (all : Bool) : Res Out := do
  runChecks c.env (checks .LendingAccountRepay)
  Bank.chk (!(flag c ACCOUNT_DISABLED)) E.AccountDisabled
  bankState c .failsInPausedState
  let b ← Bank.accrueInterest c.b.books c.b.ir c.now
  let (i, s) ← findSlot c
  let (b', x', post) ← repayCore c b (toBal s) amount all
  let tokens ← repayTokens c b' post all
  .ok { slots := writeSlot c c.a.slots i x', books := { b' with flags := repayFlags b' }, tokens, window := c.g.window }

/-- `lending_account_close_balance` -/
def closeBalance (c : Ctx) : Res Out := do
  runChecks c.env (checks .LendingAccountCloseBalance)
  Bank.chk (!(flag c ACCOUNT_DISABLED)) E.AccountDisabled
  let b ← Bank.accrueInterest c.b.books c.b.ir c.now
  let (i, s) ← findSlot c
  let (b', x') ← Bank.closeBalanceOp b (toBal s) c.now
  .ok { slots := writeSlot c c.a.slots i x', books := b', tokens := 0, window := c.g.window }

/-! ### `lending_account_liquidate` (classic liquidation), the whole instruction

account checks (regenerated table) → amount > 0 → two different banks → bank-tag compatibility → both banks live →
asset-tag compatibility of both accounts → both accruals → the liquidatee's array sorted → pre-condition of the engine on the
liquidatee's portfolio (accrued books) → collateral price (real-time, low) and debt price (real-time, high), both positive →
the accounting block (`Ix.liquidate`: 97.5 % / 95 %, four balance moves, over-liquidation guard, insurance split) on the slots
found / created in both arrays → post-condition on the liquidatee's portfolio as left → the liquidator's array sorted and
checked at the initial requirement. -/

structure LiqCtx where
  now : Int
  g : GroupV
  lq : AcctV               -- liquidator
  le : AcctV               -- liquidatee
  signer : Nat
  ab : BankV               -- collateral bank
  lb : BankV               -- debt bank
  risk : List RiskB
  deriving Repr

def LiqCtx.env (c : LiqCtx) : Env := fun f =>
  if f = .f_group then some (.group c.g.key c.g.admin c.g.paused)
  else if f = .f_liquidator_marginfi_account then some (.acct c.lq.key c.lq.group c.lq.authority c.lq.flags)
  else if f = .f_liquidatee_marginfi_account then some (.acct c.le.key c.le.group c.le.authority c.le.flags)
  else if f = .f_authority then some (.other c.signer)
  else if f = .f_asset_bank then some (.bank c.ab.key c.ab.group c.ab.liquidityVault c.ab.books.assetTag c.ab.books.flags c.ab.weightInitZero)
  else if f = .f_liab_bank then some (.bank c.lb.key c.lb.group c.lb.liquidityVault c.lb.books.assetTag c.lb.books.flags c.lb.weightInitZero)
  else none

structure LiqOutW where
  lqSlots : List Account.Slot
  leSlots : List Account.Slot
  assetBooks : Bank.Bank
  liabBooks : Bank.Bank
  insuranceTokens : Int
  deriving Repr

/-- `validate_bank_asset_tags` -/
def bankTagsCompatible (a b : Int) : Bool :=
  !((Account.isDefaultLike a && b == ASSET_TAG_STAKED) || (a == ASSET_TAG_STAKED && Account.isDefaultLike b))

def stateOf (opState : Int) (k : Gate.Kind) : Res Unit :=
  match Gate.OpState.ofInt opState with
  | none => .error .panic
  | some s => match Gate.validateBankState s k with
    | none => .ok ()
    | some e => .error (.err e)

/-- the engine's view of a slot array, two banks seen with the given books -/
def portfolio2 (risk : List RiskB) (slots : List Account.Slot) (k1 : Nat) (b1 : Bank.Bank) (k2 : Nat) (b2 : Bank.Bank) : Res (List Risk.Pos) :=
  (slots.filter (·.active)).mapM fun s =>
    match risk.find? (·.key == s.bank) with
    | none => .error (.err E.InvalidBankAccount)
    | some rb =>
      let r := if s.bank == k1 then { rb.r with asv := b1.asv, lsv := b1.lsv, sa := b1.sa }
               else if s.bank == k2 then { rb.r with asv := b2.asv, lsv := b2.lsv, sa := b2.sa } else rb.r
      .ok { bank := r, a := s.a, l := s.l, feed := rb.feed }

def posOf (ps : List Risk.Pos) (slots : List Account.Slot) (key : Nat) : Option Risk.Pos :=
  match (slots.filter (·.active)).findIdx? (·.bank == key) with
  | some i => ps[i]?
  | none => none

def feedPrice (risk : List RiskB) (key : Nat) (bias : Risk.Bias) : Res Int :=
  match risk.find? (·.key == key) with
  | none => .error (.err E.InvalidBankAccount)
  | some rb => Risk.priceOfType rb.feed .realTime (some bias) rb.r.maxConf

def optBal (slots : List Account.Slot) (key : Nat) : Option Bank.Balance :=
  match Account.findIdx slots key with
  | some i => (slots[i]?).map toBal
  | none => none

/-- the amounts block as the handler evaluates it: the insurance fee is only converted to whole tokens AFTER the first three
    balance moves (`Risk.liquidationAmounts` performs the same computation with the conversion up front) -/
def liqAmountsLate (assetAmount assetPrice liabPrice decA decL : Int) : Res (Int × Int × Int) := do
  let amt := Fx.ofInt assetAmount
  let fees ← Risk.addP LIQUIDATION_INSURANCE_FEE LIQUIDATION_LIQUIDATOR_FEE
  let finalDiscount ← Risk.subP ONE fees
  let liqDiscount ← Risk.subP ONE LIQUIDATION_LIQUIDATOR_FEE
  let v1 ← Risk.calcValue amt assetPrice decA (some liqDiscount)
  let liquidator ← Risk.calcAmount v1 liabPrice decL
  let v2 ← Risk.calcValue amt assetPrice decA (some finalDiscount)
  let final ← Risk.calcAmount v2 liabPrice decL
  let fee ← Risk.subP liquidator final
  if fee < 0 then .error .panic else .ok (liquidator, final, fee)

def liquidate (c : LiqCtx) (assetAmount : Int) : Res LiqOutW := do
  runChecks c.env (checks .LendingAccountLiquidate)
  Bank.chk (decide (assetAmount > 0)) E.ZeroLiquidationAmount
  Bank.chk (c.ab.key != c.lb.key) E.SameAssetAndLiabilityBanks
  Bank.chk (bankTagsCompatible c.ab.books.assetTag c.lb.books.assetTag) E.AssetTagMismatch
  stateOf c.ab.opState .failsInPausedState
  stateOf c.lb.opState .failsInPausedState
  Account.validateAssetTags c.le.slots c.lb.books.assetTag
  Account.validateAssetTags c.lq.slots c.lb.books.assetTag
  Account.validateAssetTags c.lq.slots c.ab.books.assetTag
  let a ← Bank.accrueInterest c.ab.books c.ab.ir c.now
  let l ← Bank.accrueInterest c.lb.books c.lb.ir c.now
  let leSorted := Account.sortBalances c.le.slots
  -- pre-condition on the liquidatee (both banks as accrued); the engine refuses accounts inside a flash loan
  Bank.chk (!hasFlag c.le.flags ACCOUNT_IN_FLASHLOAN) E.AccountInFlashloan
  let ps ← portfolio2 c.risk leSorted c.ab.key a c.lb.key l
  let pre ← Risk.preLiquidationFor ps (posOf ps leSorted c.lb.key)
  let ap ← feedPrice c.risk c.ab.key .low
  Bank.chk (decide (ap > 0)) E.ZeroAssetPrice
  let lp ← feedPrice c.risk c.lb.key .high
  Bank.chk (decide (lp > 0)) E.ZeroLiabilityPrice
  let (aLiquidator, aFinal, aFee) ← liqAmountsLate assetAmount ap lp (Bank.balanceDecimals a) (Bank.balanceDecimals l)
  -- liquidator takes the debt on its books (slot found or created)
  let (lq1, i1) ← Account.findOrCreate c.lq.slots c.lb.key l.assetTag c.now
  let x1 ← balAt lq1 i1
  let r1 ← Bank.decreaseBalance l x1 c.now aLiquidator .bypassBorrowLimit
  let lq1 := lq1.set i1 (ofBal c.lb.key r1.2)
  -- liquidatee gives up the collateral
  let i2 ← (match Account.findIdx leSorted c.ab.key with | some i => .ok i | none => .error (.err E.BankAccountNotFound) : Res Nat)
  let x2 ← balAt leSorted i2
  let preA ← Bank.assetAmount a x2.a
  Bank.chk (decide (preA ≥ Fx.ofInt assetAmount)) E.OverliquidationAttempt
  let r2 ← Bank.decreaseBalance a x2 c.now (Fx.ofInt assetAmount) .bypassBorrowLimit
  let le2 := leSorted.set i2 (ofBal c.ab.key r2.2)
  -- liquidator receives it
  let (lq3, i3) ← Account.findOrCreate lq1 c.ab.key r2.1.assetTag c.now
  let x3 ← balAt lq3 i3
  let r3 ← Bank.increaseBalance r2.1 x3 c.now (Fx.ofInt assetAmount) .bypassDepositLimit
  let lq3 := lq3.set i3 (ofBal c.ab.key r3.2)
  let feeWhole ← (match Fx.toU64? aFee with | some w => .ok w | none => .error (.err E.MathError) : Res Int)
  -- liquidatee's debt is repaid by the discounted amount
  let i4 ← (match Account.findIdx le2 c.lb.key with | some i => .ok i | none => .error (.err E.BankAccountNotFound) : Res Nat)
  let x4 ← balAt le2 i4
  let r4 ← Bank.increaseBalance r1.1 x4 c.now aFinal .repayOnly
  let le4 := le2.set i4 (ofBal c.lb.key r4.2)
  let f ← Bank.math (Fx.add? r4.1.feeI (Fx.frac aFee))
  let liabBooks := { r4.1 with feeI := f }
  -- post-condition on the liquidatee as left
  let ps' ← portfolio2 c.risk le4 c.ab.key r3.1 c.lb.key liabBooks
  let lp' ← (match posOf ps' le4 c.lb.key with | some p => .ok p | none => .error (.err E.LendingAccountBalanceNotFound) : Res Risk.Pos)
  let _ ← Risk.postLiquidation ps' lp' pre
  -- the liquidator stays initially healthy
  let lqSorted := Account.sortBalances lq3
  let _ ← (if hasFlag c.lq.flags ACCOUNT_IN_FLASHLOAN then .ok () else do
      let qs ← portfolio2 c.risk lqSorted c.ab.key r3.1 c.lb.key liabBooks
      Risk.checkInitHealth qs : Res Unit)
  .ok { lqSlots := lqSorted, leSlots := le4, assetBooks := r3.1, liabBooks, insuranceTokens := feeWhole }

/-! ### `lending_pool_handle_bankruptcy`, the whole instruction

account checks (regenerated table) → bank state → who may settle (anyone if the bank opted in, else group admin / risk admin)
→ the bankruptcy assessment of the risk engine on the account's portfolio AS STORED (pre-accrual books, slot order) →
accrual → the position → `Bank.settleBankruptcy` (bad debt at the accrued share value, insurance first, rest socialised,
debt repaid) → the account is disabled, a wiped bank is killed. `available` = what the insurance vault can deliver. -/

structure BkrOut where
  slots : List Account.Slot
  books : Bank.Bank
  insuranceTokens : Int
  opState : Int
  flags : Nat
  deriving Repr

def bankruptcy (c : Ctx) (available : Int) : Res BkrOut := do
  runChecks c.env (checks .LendingPoolHandleBankruptcy)
  bankState c .failsInPausedState
  Bank.chk (Bank.bankruptcyAuthorized (hasFlag c.b.books.flags PERMISSIONLESS_BAD_DEBT_SETTLEMENT_FLAG) c.signer c.g.admin c.g.riskAdmin) E.Unauthorized
  let ps ← portfolio c c.a.slots c.b.books
  let _ ← Risk.checkBankrupt ps
  let b ← Bank.accrueInterest c.b.books c.b.ir c.now
  match Account.findIdx c.a.slots c.b.key with
  | none => .error (.err E.LendingAccountBalanceNotFound)
  | some i => do
    let x ← balAt c.a.slots i
    let o ← Bank.settleBankruptcy b x available c.now
    .ok { slots := c.a.slots.set i (ofBal c.b.key o.bal), books := o.bank, insuranceTokens := o.coveredUp,
          opState := if o.kill then 3 else c.b.opState, flags := c.a.flags ||| ACCOUNT_DISABLED.toNat }

/-! ### `lending_account_withdraw_emissions`, the whole instruction

account checks (regenerated table: pause, group, frozen, signer rule without the receivership path, the bank's own emissions
mint, own asset tag) → the account is not disabled → the position → `settle_emissions_and_get_transfer_amount` (claim up to
now, whole tokens out, fraction kept) → that many tokens leave the emissions vault for the destination. No accrual, no sort. -/

def withdrawEmissions (c : Ctx) : Res Out := do
  runChecks c.env (checks .LendingAccountWithdrawEmissions)
  Bank.chk (!(flag c ACCOUNT_DISABLED)) E.AccountDisabled
  let (i, s) ← findSlot c
  let (b', x', amount) ← Bank.settleEmissions c.b.books (toBal s) c.now
  .ok { slots := c.a.slots.set i (ofBal c.b.key x'), books := b', tokens := amount, window := c.g.window }

/-! ### `marginfi_account_close`, the whole instruction

the AUTHORITY signs (regenerated table: `has_one = authority`; no group-admin path, no receivership path) → the account is not
frozen → `can_be_closed`: not disabled, every one of the 16 slots empty on both sides (less than one share), neither in a flash
loan nor in receivership. Anchor then closes the account (its rent goes to the fee payer). -/

def closeAccount (c : Ctx) : Res Unit := do
  runChecks c.env (checks .MarginfiAccountClose)
  Bank.chk (!(flag c ACCOUNT_FROZEN)) E.AccountFrozen
  let ok ← Account.canBeClosed c.a.slots (flag c ACCOUNT_DISABLED) (flag c ACCOUNT_IN_FLASHLOAN) (flag c ACCOUNT_IN_RECEIVERSHIP)
  Bank.chk ok E.IllegalAction

/-! ### `lending_account_end_flashloan`, the whole instruction

the authority signs (regenerated table) → not via CPI → the account is neither disabled, in receivership nor frozen → the
in-flash-loan flag is cleared → the initial-margin check runs on the WHOLE portfolio as stored, with the flag already cleared
(so it cannot be skipped). Result: the account's flag word. -/

def endFlashloan (c : Ctx) (stackHeight : Nat) : Res Nat := do
  runChecks c.env (checks .LendingAccountEndFlashloan)
  Bank.chk (stackHeight == 1) E.NotAllowedInCPI
  Bank.chk (!(flag c ACCOUNT_DISABLED)) E.AccountDisabled
  Bank.chk (!(flag c ACCOUNT_IN_RECEIVERSHIP)) E.ForbiddenIx
  Bank.chk (!(flag c ACCOUNT_FROZEN)) E.AccountFrozen
  let ps ← portfolio c c.a.slots c.b.books
  Risk.checkInitHealth ps
  .ok (c.a.flags &&& (Nat.xor ACCOUNT_IN_FLASHLOAN.toNat (2 ^ 64 - 1)))

/-! ### `lending_pool_accrue_bank_interest` and `lending_pool_collect_bank_fees`, the whole instructions

Both are permissionless cranks on one bank (no margin account, no signer). Accrual: the bank belongs to the group (regenerated
table) → `accrue_interest` (the cache refresh that follows writes no field of the model). Fee collection: the protocol is not
paused, the bank belongs to the group (regenerated table) → the fee ATA passed is the ATA of the global fee wallet for the
bank's mint → `Bank.collectFees` on the three buckets and the liquidity vault's balance: whole tokens to the insurance vault,
the fee vault and the program's ATA, in that order of claims on what the vault holds; the buckets fall by exactly what moved.
No accrual. -/

def accrueIx (c : Ctx) : Res Bank.Bank := do
  runChecks c.env (checks .LendingPoolAccrueBankInterest)
  Bank.accrueInterest c.b.books c.b.ir c.now

structure CollectOut where
  books : Bank.Bank
  toInsurance : Int
  toGroup : Int
  toProgram : Int
  deriving Repr

def collectFeesIx (c : Ctx) (feeAtaOk : Bool) : Res CollectOut := do
  runChecks c.env (checks .LendingPoolCollectBankFees)
  Bank.chk feeAtaOk E.InvalidFeeAta
  let r ← Bank.collectFees c.b.books.feeI c.b.books.feeG c.b.books.feeP c.vaultAmount
  .ok { books := { c.b.books with feeI := r.feeI, feeG := r.feeG, feeP := r.feeP },
        toInsurance := r.toInsurance, toGroup := r.toGroup, toProgram := r.toProgram }

/-! ### `transfer_to_new_account`, the whole instruction, on the world's view of an account

`Mfi.Transfer.transfer` (account constraints: pause, group, frozen, authorised without the receivership path; then the fee
wallet, not in a flash loan, not in receivership, not already migrated; the positions and the flag word move to the new
account under the new authority, the old account is emptied, disabled and linked) — diffed against the real instruction by
the `xfer` family; here on the fields `AcctV` carries. -/

/-- every bit of the flag word except DISABLED (1), IN_FLASHLOAN (2), IN_RECEIVERSHIP (16), FROZEN (64) -/
def OTHER_FLAGS_MASK : Nat := 2 ^ 64 - 1 - 83

def toMAcct (a : AcctV) : Transfer.MAcct :=
  { group := a.group, authority := a.authority, slots := a.slots,
    disabled := a.flags.testBit 0, flash := a.flags.testBit 1, recv := a.flags.testBit 4, frozen := a.flags.testBit 6,
    otherFlags := a.flags &&& OTHER_FLAGS_MASK,
    emisDest := 0, migratedFrom := 0, migratedTo := a.migratedTo, lastUpdate := 0 }

def ofMAcct (key : Nat) (m : Transfer.MAcct) : AcctV :=
  { key, group := m.group, authority := m.authority, slots := m.slots, migratedTo := m.migratedTo,
    flags := ((if m.disabled then 1 else 0) ||| (if m.flash then 2 else 0) ||| (if m.recv then 16 else 0) ||| (if m.frozen then 64 else 0)) |||
             m.otherFlags }

def transferIx (g : GroupV) (a : AcctV) (signer newKey newAuth : Nat) (feeWalletOk : Bool) : Res (AcctV × AcctV) :=
  (Transfer.transfer (toMAcct a) a.key g.key g.admin 1 g.paused signer newKey newAuth (if feeWalletOk then 1 else 2) 0).map
    fun (o, n) => (ofMAcct a.key o, ofMAcct newKey n)

/-! ### `start_liquidation` and `end_liquidation`, the whole instructions (receivership by a third party)

start: account checks (regenerated table: the account's own liquidation record; not already in receivership, not in a flash
loan, not disabled) → the receiver is recorded → `start_receivership`: the risk engine on the whole portfolio as stored: the
account must NOT be healthy at maintenance level; the maintenance and equity valuations are snapshotted into the record →
ACCOUNT_IN_RECEIVERSHIP is set → the transaction's shape is validated (`shape` = the verdict of `validate_instructions`; its
world-level rule is `Mfi.World.liqShape`, its raw model `Mfi.Tx.validateInstructions`).

end: account checks (regenerated table: the account's own record; in receivership, not in a flash loan, not disabled; signed
by the RECEIVER the record names; the fee state's own global fee wallet) → top level → `Risk.endLiquidation` on the whole
portfolio as it stands against the record's snapshot: maintenance health not worse than at the start and (unless the assets
were worth under five dollars) not positive; value seized ≤ value repaid × (1 + max premium) → the flag and the receiver are
cleared. (The flat SOL fee, the record's four-entry history and the events are not modelled.) -/

structure RCtx where
  now : Int
  g : GroupV
  a : AcctV
  recordOk : Bool          -- the liquidation record passed is the account's own
  receiver : Nat           -- start: the receiver named; end: the signer
  walletOk : Bool          -- end: the wallet passed is the fee state's global fee wallet
  feeMax : Int             -- fee_state.liquidation_max_fee
  risk : List RiskB
  deriving Repr

def RCtx.env (c : RCtx) : Env := fun f =>
  if f = .f_marginfi_account then some (.acctR c.a.key c.a.flags 1)
  else if f = .f_liquidation_record then some (.record (if c.recordOk then 1 else 2) c.a.recReceiver)
  else if f = .f_liquidation_receiver then some (.other c.receiver)
  else if f = .f_fee_state then some (.feeState 3 4)
  else if f = .f_global_fee_wallet then some (.other (if c.walletOk then 4 else 5))
  else none

/-- the engine's view of the account's stored portfolio -/
def RCtx.portfolio (c : RCtx) : Res (List Risk.Pos) :=
  (c.a.slots.filter (·.active)).mapM fun s =>
    match c.risk.find? (·.key == s.bank) with
    | none => .error (.err E.InvalidBankAccount)
    | some rb => .ok { bank := rb.r, a := s.a, l := s.l, feed := rb.feed }

/-- the accounts of `start_deleverage` / `end_deleverage`: the group passed is the world's; `receiver` is the signer passed
    as `risk_admin` -/
def RCtx.envD (c : RCtx) : Env := fun f =>
  if f = .f_marginfi_account then some (.acctR c.a.key c.a.flags 1 c.a.group)
  else if f = .f_liquidation_record then some (.record (if c.recordOk then 1 else 2) c.a.recReceiver)
  else if f = .f_group then some (.groupR c.g.key c.g.riskAdmin)
  else if f = .f_risk_admin then some (.other c.receiver)
  else none

structure StartLiqOut where
  flags : Nat
  receiver : Nat
  cache : Risk.PreCache
  deriving Repr

def startLiquidation (c : RCtx) (shape : Res Unit) : Res StartLiqOut := do
  runChecks c.env (checks .StartLiquidation)
  let ps ← c.portfolio
  let cache ← Risk.startReceivership ps false
  shape
  .ok { flags := c.a.flags ||| ACCOUNT_IN_RECEIVERSHIP.toNat, receiver := c.receiver, cache }

structure EndLiqOut where
  flags : Nat
  seized : Int
  repaid : Int
  deriving Repr

def endLiquidation (c : RCtx) (stackHeight : Nat) : Res EndLiqOut := do
  runChecks c.env (checks .EndLiquidation)
  Bank.chk (stackHeight == 1) E.NotAllowedInCPI
  let ps ← c.portfolio
  let (seized, repaid) ← Risk.endLiquidation c.a.recCache ps c.feeMax
  .ok { flags := c.a.flags &&& (Nat.xor ACCOUNT_IN_RECEIVERSHIP.toNat (2 ^ 64 - 1)), seized, repaid }

/-- `start_deleverage` (risk admin only): no health condition (`ignore_healthy`), the same snapshot and marker plus the
    deleverage marker; the receiver recorded is the risk admin -/
def startDeleverage (c : RCtx) (shape : Res Unit) : Res StartLiqOut := do
  runChecks c.envD (checks .StartDeleverage)
  let ps ← c.portfolio
  let cache ← Risk.startReceivership ps true
  shape
  .ok { flags := (c.a.flags ||| ACCOUNT_IN_DELEVERAGE.toNat) ||| ACCOUNT_IN_RECEIVERSHIP.toNat, receiver := c.receiver, cache }

/-- `end_deleverage`: only "maintenance health not worse"; both markers are cleared -/
def endDeleverage (c : RCtx) (stackHeight : Nat) : Res EndLiqOut := do
  runChecks c.envD (checks .EndDeleverage)
  Bank.chk (stackHeight == 1) E.NotAllowedInCPI
  let ps ← c.portfolio
  let (seized, repaid) ← Risk.endDeleverage c.a.recCache ps
  .ok { flags := (c.a.flags &&& (Nat.xor ACCOUNT_IN_DELEVERAGE.toNat (2 ^ 64 - 1))) &&& (Nat.xor ACCOUNT_IN_RECEIVERSHIP.toNat (2 ^ 64 - 1)), seized, repaid }

/-! ### the protocol as a state machine over whole instructions

Any number of margin accounts and banks of one group; a step is one of the whole instructions by any signer on any
(account, bank) pair with any arguments, or the passage of time. A refused instruction leaves the state as it was (the
transaction is rolled back). Two ghost counters per bank record the shares that complete withdrawals / repayments and balance
closures abandon in the bank totals (the other-side residue of the closed position, which the code checked to be worth less
than the dust threshold). The vault balance an instruction sees (only read by the completed-deleverage pay-out) is an
argument of the step: the theorems hold whatever it is. -/

structure WBank where
  v : BankV
  risk : Risk.BankR        -- risk parameters; asv / lsv / sa are taken from the books
  feed : Risk.Feed
  deriving Repr

structure WState where
  now : Int
  g : GroupV
  accts : List AcctV
  banks : List WBank
  dustA : Nat → Int        -- ghost, by bank key
  dustL : Nat → Int

inductive WOp
  | deposit (ai bi signer : Nat) (amount : Int) (upTo : Bool)
  | withdraw (ai bi signer : Nat) (amount : Int) (all : Bool) (vault : Int)
  | borrow (ai bi signer : Nat) (amount : Int)
  | repay (ai bi signer : Nat) (amount : Int) (all : Bool)
  | close (ai bi signer : Nat)
  | bankruptcy (ai bi signer : Nat) (available : Int)
  | liquidate (qi ei abi lbi signer : Nat) (amount : Int)   -- liquidator, liquidatee, collateral bank, debt bank
  | transfer (ai signer newKey newAuth : Nat) (feeWalletOk : Bool)   -- transfer_to_new_account: the world gains an account
  | accrue (bi : Nat)                                        -- the permissionless accrual crank
  | collect (bi : Nat) (feeAtaOk : Bool) (vault : Int)       -- the permissionless fee collection
  | tick (dt : Nat)

def WBank.riskB (b : WBank) : RiskB :=
  { key := b.v.key, r := { b.risk with asv := b.v.books.asv, lsv := b.v.books.lsv, sa := b.v.books.sa }, feed := b.feed }

def WState.ctx (w : WState) (a : AcctV) (b : WBank) (signer vault : Nat) (vaultAmount : Int) : Ctx :=
  { now := w.now, g := w.g, a, signer, b := b.v, vaultKey := vault, vaultAmount, risk := w.banks.map WBank.riskB }

def WState.liqCtx (w : WState) (lq le : AcctV) (ab lb : WBank) (signer : Nat) : LiqCtx :=
  { now := w.now, g := w.g, lq, le, signer, ab := ab.v, lb := lb.v, risk := w.banks.map WBank.riskB }

/-- the active slot an account holds in a bank (what a closure abandons is read from it) -/
def slotOf (a : AcctV) (key : Nat) : Account.Slot :=
  match Account.findIdx a.slots key with
  | some i => a.slots[i]?.getD Account.emptySlot
  | none => Account.emptySlot

def bump (f : Nat → Int) (k : Nat) (d : Int) : Nat → Int := fun j => if j = k then f j + d else f j

/-- commit the outcome of an instruction on account `ai` and bank `bi` -/
def WState.commit (w : WState) (ai bi : Nat) (a : AcctV) (b : WBank) (slots : List Account.Slot) (flags : Nat)
    (books : Bank.Bank) (opState : Int) (window : Admin.Window) (dA dL : Int) : WState :=
  { w with
    g := { w.g with window },
    accts := w.accts.set ai { a with slots, flags },
    banks := w.banks.set bi { b with v := { b.v with books, opState } },
    dustA := bump w.dustA b.v.key dA,
    dustL := bump w.dustL b.v.key dL }

/-- the context of an instruction that names no margin account and no signer -/
def noAcct : AcctV := { key := 0, group := 0, authority := 0, flags := 0, slots := [] }

def WState.bctx (w : WState) (b : WBank) (vaultAmount : Int) : Ctx := w.ctx noAcct b 0 b.v.liquidityVault vaultAmount

/-- commit the outcome of an instruction on bank `bi` alone -/
def WState.commitB (w : WState) (bi : Nat) (b : WBank) (books : Bank.Bank) : WState :=
  { w with banks := w.banks.set bi { b with v := { b.v with books } } }

/-- commit a liquidation: two accounts, two banks -/
def WState.commit2 (w : WState) (qi ei abi lbi : Nat) (lq le : AcctV) (ab lb : WBank) (o : LiqOutW) : WState :=
  { w with
    accts := (w.accts.set qi { lq with slots := o.lqSlots }).set ei { le with slots := o.leSlots },
    banks := (w.banks.set abi { ab with v := { ab.v with books := o.assetBooks } }).set lbi { lb with v := { lb.v with books := o.liabBooks } } }

def WState.step (w : WState) (op : WOp) : WState :=
  let go (ai bi signer : Nat) (vaultAmount : Int) (run : Ctx → Res Out) (dust : Account.Slot → Int × Int) : WState :=
    match w.accts[ai]?, w.banks[bi]? with
    | some a, some b =>
      -- (the instruction is given the bank's own liquidity vault: substitutions are refused by the account checks)
      match run (w.ctx a b signer b.v.liquidityVault vaultAmount) with
      | .ok o => let d := dust (slotOf a b.v.key); w.commit ai bi a b o.slots a.flags o.books b.v.opState o.window d.1 d.2
      | .error _ => w
    | _, _ => w
  match op with
  | .deposit ai bi signer amount upTo => go ai bi signer 0 (fun c => deposit c amount upTo) (fun _ => (0, 0))
  | .withdraw ai bi signer amount all vault => go ai bi signer vault (fun c => withdraw c amount all) (fun s => (0, if all then s.l else 0))
  | .borrow ai bi signer amount => go ai bi signer 0 (fun c => borrow c amount) (fun _ => (0, 0))
  | .repay ai bi signer amount all => go ai bi signer 0 (fun c => repay c amount all) (fun s => (if all then s.a else 0, 0))
  | .close ai bi signer => go ai bi signer 0 (fun c => closeBalance c) (fun s => (s.a, s.l))
  | .bankruptcy ai bi signer available =>
    match w.accts[ai]?, w.banks[bi]? with
    | some a, some b =>
      match bankruptcy (w.ctx a b signer b.v.liquidityVault 0) available with
      | .ok o => w.commit ai bi a b o.slots o.flags o.books o.opState w.g.window 0 0
      | .error _ => w
    | _, _ => w
  | .liquidate qi ei abi lbi signer amount =>
    if qi = ei ∨ abi = lbi then w else
    match w.accts[qi]?, w.accts[ei]?, w.banks[abi]?, w.banks[lbi]? with
    | some lq, some le, some ab, some lb =>
      match liquidate (w.liqCtx lq le ab lb signer) amount with
      | .ok o => w.commit2 qi ei abi lbi lq le ab lb o
      | .error _ => w
    | _, _, _, _ => w
  | .transfer ai signer newKey newAuth feeWalletOk =>
    -- (`init` of the new account: a fresh key)
    if newKey = 0 ∨ w.accts.any (fun x => x.key == newKey) then w else
    match w.accts[ai]? with
    | some a =>
      match transferIx w.g a signer newKey newAuth feeWalletOk with
      | .ok (o, n) => { w with accts := w.accts.set ai o ++ [n] }
      | .error _ => w
    | none => w
  | .accrue bi =>
    match w.banks[bi]? with
    | some b =>
      match accrueIx (w.bctx b 0) with
      | .ok books => w.commitB bi b books
      | .error _ => w
    | none => w
  | .collect bi feeAtaOk vault =>
    match w.banks[bi]? with
    | some b =>
      match collectFeesIx (w.bctx b vault) feeAtaOk with
      | .ok o => w.commitB bi b o.books
      | .error _ => w
    | none => w
  | .tick dt => { w with now := w.now + dt }

def WState.run (w : WState) (ops : List WOp) : WState := ops.foldl WState.step w

end Mfi.World
