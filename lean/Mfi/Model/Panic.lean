/-
  Model of programs/marginfi/src/state/panic_state.rs and
  type-crate/src/types/panic_state_cache.rs (PanicState, PanicStateCache) and of the four
  instructions that act on them (panic_pause, panic_unpause, panic_unpause_permissionless,
  propagate_fee_state) plus the group gate `is_protocol_paused`.
  Constants come from the generated `Mfi.Gen.Consts`.
-/
import Mfi.Gen.Consts

namespace Mfi.Panic
open Mfi.Gen

structure PanicState where
  paused      : Bool      -- pause_flags & FLAG_PAUSED
  daily       : Int       -- daily_pause_count (u8)
  consecutive : Int       -- consecutive_pause_count (u8)
  start       : Int       -- pause_start_timestamp (i64)
  lastReset   : Int       -- last_daily_reset_timestamp (i64)
  deriving DecidableEq, Repr

structure Cache where
  paused : Bool
  start  : Int
  lastUpdate : Int
  deriving DecidableEq, Repr

def I64MAX : Int := 9223372036854775807
def I64MIN : Int := -9223372036854775808

def satI64 (x : Int) : Int := if x > I64MAX then I64MAX else if x < I64MIN then I64MIN else x
def satU8 (n : Int) : Int := if n > 255 then 255 else n

/-- `PanicState::is_expired` -/
def isExpired (paused : Bool) (start now : Int) : Bool :=
  if !paused then true
  else if now < start then false
  else decide (now - start ≥ PAUSE_DURATION_SECONDS)

/-- `PanicState::can_pause` (the subtraction is unchecked i64; in-range by hypothesis of the theorems,
    the driver is only run on in-range values) -/
def canPause (s : PanicState) (now : Int) : Bool :=
  let daily := if now - s.lastReset ≥ DAILY_RESET_INTERVAL then 0 else s.daily
  decide (s.consecutive < MAX_CONSECUTIVE_PAUSES) && decide (daily < MAX_DAILY_PAUSES)

/-- `PanicStateImpl::unpause` -/
def unpause (s : PanicState) : PanicState :=
  { s with paused := false, start := 0, consecutive := 0 }

/-- `PanicStateImpl::unpause_if_expired` -/
def unpauseIfExpired (s : PanicState) (now : Int) : PanicState :=
  if s.paused && isExpired s.paused s.start now then unpause s else s

/-- the daily-counter reset inside `pause` (`saturating_sub`) -/
def resetDaily (s : PanicState) (now : Int) : PanicState :=
  let due : Bool := decide (satI64 (now - s.lastReset) ≥ DAILY_RESET_INTERVAL)
  { s with daily := if due then 0 else s.daily, lastReset := if due then now else s.lastReset }

/-- the tail of `pause`: extend a running pause by shifting its start, or start a new one; bump counters -/
def startOrExtend (s : PanicState) (now : Int) : PanicState :=
  let start' := if s.paused && !isExpired s.paused s.start now
                then satI64 (s.start + PAUSE_DURATION_SECONDS) else now
  { s with paused := true, start := start',
           daily := satU8 (s.daily + 1), consecutive := satU8 (s.consecutive + 1) }

/-- `PanicStateImpl::pause`; `none` = Err(PauseLimitExceeded) (state rolled back by the runtime) -/
def pause (s0 : PanicState) (now : Int) : Option PanicState :=
  let s2 := resetDaily (unpauseIfExpired s0 now) now
  if !canPause s2 now then none else some (startOrExtend s2 now)

/-- instruction `panic_pause` -/
def ixPause (s : PanicState) (now : Int) : Option PanicState :=
  pause (unpauseIfExpired s now) now

inductive UnpauseErr | notPaused | notExpired deriving DecidableEq, Repr

/-- instruction `panic_unpause` (admin) -/
def ixUnpause (s : PanicState) (now : Int) : Except UnpauseErr PanicState :=
  if !s.paused then .error .notPaused else
  let s1 := unpauseIfExpired s now
  .ok (if s1.paused then unpause s1 else s1)

/-- instruction `panic_unpause_permissionless` -/
def ixUnpausePermissionless (s : PanicState) (now : Int) : Except UnpauseErr PanicState :=
  if !s.paused then .error .notPaused else
  if !isExpired s.paused s.start now then .error .notExpired else
  .ok (unpause s)

/-- `PanicStateCache::update_from_panic_state` (instruction `propagate_fee_state`) -/
def propagate (s : PanicState) (now : Int) : Cache :=
  { paused := s.paused, start := s.start, lastUpdate := now }

/-- `MarginfiGroup::is_protocol_paused` -/
def protocolPaused (c : Cache) (now : Int) : Bool :=
  c.paused && !isExpired c.paused c.start now

end Mfi.Panic
