/-
  Model of type-crate/src/types/price.rs and of the exchange-rate math in
  programs/{kamino,solend,drift}-mocks/src/state.rs (+ drift constants.rs).
  u64/u128/i64/i128 are Ints with explicit range checks where the code checks.
-/
import Mfi.Fx
import Mfi.Gen.Consts

namespace Mfi.Integr
open Mfi Mfi.Fx

def I64MAX : Int := 9223372036854775807
def I64MIN : Int := -9223372036854775808
def I128MAX : Int := 170141183460469231731687303715884105727

/-- `i80_from_i128_checked` -/
def i80FromI128 (x : Int) : Option Int :=
  if -(2^79) ≤ x ∧ x ≤ 2^79 - 1 then some (x * ONE) else none

/-- `checked_to_num::<i128>()` of an I80F48 (floor; always fits) -/
def toI128 (a : Int) : Int := a / ONE

/-- `adjust_i128` -/
def adjustI128 (raw ratio : Int) : Option Int := do
  let fx ← i80FromI128 raw
  let adj ← mul? fx ratio
  some (toI128 adj)

/-- `adjust_i64` (raw : i64) -/
def adjustI64 (raw ratio : Int) : Option Int := do
  let adj ← mul? (raw * ONE) ratio
  toI64? adj

/-- `adjust_u64` (raw : u64) -/
def adjustU64 (raw ratio : Int) : Option Int := do
  let adj ← mul? (raw * ONE) ratio
  toU64? adj

/-- `collateral_to_liquidity_from_scaled` -/
def collateralToLiquidity (collateral totalLiq totalCol : Int) : Option Int :=
  if totalCol = 0 then none else do
    let a ← mul? (collateral * ONE) totalLiq
    let b ← div? a totalCol
    toU64? b

/-- `liquidity_to_collateral_from_scaled` -/
def liquidityToCollateral (liquidity totalLiq totalCol : Int) : Option Int :=
  if totalLiq = 0 then none else do
    let a ← mul? (liquidity * ONE) totalCol
    let b ← div? a totalLiq
    toU64? b

/-- `liq_to_col_ratio` (checked variant of the type-crate) -/
def liqToColRatio (totalLiq totalCol : Int) : Option Int :=
  if totalCol = 0 then none else div? totalLiq totalCol

/-- the ratio the program actually uses in state/price.rs: `if total_col > 0 { total_liq / total_col }`
    (unchecked division: wraps on overflow) -/
def usedRatio (totalLiq totalCol : Int) : Option Int :=
  if totalCol > 0 then some (wrap (Int.tdiv (totalLiq * ONE) totalCol)) else none

def exp10Fx (d : Int) : Option Int :=
  if 0 ≤ d then POW10FX[d.toNat]? else none

/-- `scale_supplies` -/
def scaleSupplies (totalLiqRaw totalColRaw decimals : Int) : Option (Int × Int) := do
  let scale ← exp10Fx decimals
  let l ← div? totalLiqRaw scale
  let c ← div? (totalColRaw * ONE) scale
  some (l, c)

/-- `convert_decimals` -/
def convertDecimals (n fromDec toDec : Int) : Option Int :=
  if fromDec = toDec then some n else
  let diff := toDec - fromDec
  let a := if diff < 0 then -diff else diff
  if a > 23 then none else do
    let scale ← exp10Fx a
    if diff > 0 then mul? n scale else div? n scale

/-! ### Kamino -/

/-- `u68f60_to_i80f48` (raw : u128) -/
def u68f60ToFx (raw : Int) : Int := raw / 4096

/-- Kamino `is_stale`: the reserve was not refreshed in the current slot -/
def kaminoStale (reserveSlot currentSlot : Int) : Bool := decide (reserveSlot < currentSlot)

/-! ### Solend -/

def WAD : Int := 1000000000000000000

/-- `decimal_to_i80f48` (raw : u128) -/
def decimalToFx (raw : Int) : Option Int :=
  let ip := raw / WAD
  let rem := raw % WAD
  if ip > 2^79 - 1 then none else some (ip * ONE + (rem * ONE) / WAD)

def solendStale (lastUpdateSlot currentSlot : Int) : Bool := decide (lastUpdateSlot < currentSlot)

/-! ### Drift -/

def DRIFT_PRECISION_EXP : Int := 19
def SPOT_CUM_PRECISION : Int := 10000000000

def exp10Int (d : Int) : Option Int :=
  if 0 ≤ d ∧ d < 20 then some (10 ^ d.toNat) else none

/-- `get_precision_increase` -/
def precisionIncrease (decimals : Int) : Option Int :=
  if decimals > DRIFT_PRECISION_EXP then none else exp10Int (DRIFT_PRECISION_EXP - decimals)

def chkU128 (x : Int) : Option Int := if 0 ≤ x ∧ x ≤ U128MAX then some x else none
def chkU64 (x : Int) : Option Int := if 0 ≤ x ∧ x ≤ U64MAX then some x else none

/-- `get_scaled_balance(amount, round_up)` -/
def scaledBalance (decimals cum amount : Int) (roundUp : Bool) : Option Int := do
  let p ← precisionIncrease decimals
  let m ← chkU128 (amount * p)
  if cum = 0 then none else
  let b ← chkU64 (m / cum)
  if roundUp && b != 0 then chkU64 (b + 1) else some b

def scaledBalanceIncrement (decimals cum amount : Int) := scaledBalance decimals cum amount false
def scaledBalanceDecrement (decimals cum amount : Int) := scaledBalance decimals cum amount true

/-- `get_withdraw_token_amount` -/
def withdrawTokenAmount (decimals cum scaled : Int) : Option Int := do
  let p ← precisionIncrease decimals
  let m ← chkU128 (scaled * cum)
  if p = 0 then none else chkU64 (m / p)

/-- `adjust_oracle_value_u128` -/
def driftAdjustU128 (cum raw : Int) : Option Int := do
  let m ← chkU128 (raw * cum)
  some (m / SPOT_CUM_PRECISION)

def driftAdjustI64 (cum raw : Int) : Option Int :=
  if raw < 0 then none else do
    let a ← driftAdjustU128 cum raw
    if a ≤ I64MAX then some a else none

def driftAdjustU64 (cum raw : Int) : Option Int := do
  let a ← driftAdjustU128 cum raw
  chkU64 a

def driftAdjustI128 (cum raw : Int) : Option Int :=
  if raw < 0 then none else do
    let a ← driftAdjustU128 cum raw
    if a ≤ I128MAX then some a else none

/-- Drift `is_stale`: interest was not updated in the current second -/
def driftStale (lastInterestTs now : Int) : Bool := decide (lastInterestTs < now)

/-! ### staked collateral (single-validator stake pool): `OracleSetup::StakedWithPythPush` in state/price.rs -/

def LAMPORTS_PER_SOL : Int := 1000000000

inductive StakedOut where
  | ok (price ema : Int)
  | zeroSupply            -- ZeroSupplyInStakePool
  | math                  -- MathError: the pool holds less than its non-refundable first SOL
  | panic                 -- `try_into().unwrap()`: the adjusted price does not fit an i64
  deriving Repr, DecidableEq

/-- The re-scaling of the SOL price feed (spot and EMA price, both i64) to the price of one pool token:
    `price * (delegated stake - 1 SOL) / lst supply`, multiplication first, i128 division (toward zero).
    `stake`, `supply` are u64; `i64 * u64` cannot overflow an i128. -/
def stakedAdjust (price ema stake supply : Int) : StakedOut :=
  if supply = 0 then .zeroSupply
  else if stake < LAMPORTS_PER_SOL then .math
  else
    let p := Int.tdiv (price * (stake - LAMPORTS_PER_SOL)) supply
    if p < I64MIN ∨ I64MAX < p then .panic
    else
      let e := Int.tdiv (ema * (stake - LAMPORTS_PER_SOL)) supply
      if e < I64MIN ∨ I64MAX < e then .panic else .ok p e

end Mfi.Integr
