/-
  Model of `transfer_to_new_account` (instructions/marginfi_account/transfer_account.rs): the account-level
  part of a MarginfiAccount (keys are abstract naturals, 0 = Pubkey::default()) and the migration step.
  The Anchor account constraints (pause, group, frozen, authorised) come first, then the handler body in
  source order. The `init` of the new account is the System Program's (a fresh, signing key: modelled as
  `newKey ≠ 0`, not already a marginfi account).
-/
import Mfi.Model.Account
import Mfi.Model.Auth
namespace Mfi.Transfer
open Mfi Mfi.Gen Mfi.Account

structure MAcct where
  group : Nat
  authority : Nat
  slots : List Slot
  disabled : Bool        -- account_flags bits ACCOUNT_DISABLED / IN_FLASHLOAN / IN_RECEIVERSHIP / FROZEN …
  flash : Bool
  recv : Bool
  frozen : Bool
  otherFlags : Nat       -- … and the remaining bits of the word, carried verbatim
  emisDest : Nat
  migratedFrom : Nat
  migratedTo : Nat
  lastUpdate : Int
  deriving DecidableEq, Repr

def err {α} (c : Nat) : Res α := .error (.err c)

def view (a : MAcct) : Auth.AcctView :=
  { authority := a.authority, frozen := a.frozen, inReceivership := a.recv }

def zeroedSlots : List Slot := List.replicate 16 emptySlot

/-- `transfer_to_new_account`: (old', new) -/
def transfer (old : MAcct) (oldKey groupKey groupAdmin cachedFeeWallet : Nat) (paused : Bool)
    (signer newKey newAuth feeWallet : Nat) (now : Int) : Res (MAcct × MAcct) :=
  if paused then err E.ProtocolPaused
  else if old.group ≠ groupKey then err E.InvalidGroup
  else if !Auth.notFrozenForAuthority (view old) signer then err E.AccountFrozen
  else if !Auth.isSignerAuthorized (view old) groupAdmin signer false then err E.Unauthorized
  else if feeWallet ≠ cachedFeeWallet then err E.InvalidFeeAta
  else if old.flash then err E.AccountInFlashloan
  else if old.recv then err E.ForbiddenIx
  else if old.migratedTo ≠ 0 then err E.AccountAlreadyMigrated
  else
    .ok ({ old with migratedTo := newKey, lastUpdate := now, slots := zeroedSlots, disabled := true },
         { group := old.group, authority := newAuth, slots := old.slots, disabled := old.disabled, flash := old.flash, recv := old.recv,
           frozen := old.frozen, otherFlags := old.otherFlags, emisDest := old.emisDest,
           migratedFrom := oldKey, migratedTo := 0, lastUpdate := now })

end Mfi.Transfer
