/-
  Venue-backed instructions at instruction level: `kamino_deposit` / `kamino_withdraw`
  (programs/marginfi/src/instructions/kamino/{deposit,withdraw}.rs) around the CPI into Kamino Lend.

  The CPI itself is a PARAMETER: the model takes what marginfi reads before and after it (the obligation's collateral, the
  intermediary vault's balance) as arguments and says what marginfi makes of them — which outcome of the venue it accepts,
  what it books, what it pays out. Nothing is assumed about Kamino beyond "these are the numbers marginfi saw".
  (No interest accrual: venue banks cannot be borrowed from, their share values stay 1.)
-/
import Mfi.Model.Ix
import Mfi.Model.Integr
namespace Mfi.Venue
open Mfi Mfi.Fx Mfi.Bank Mfi.Gen Mfi.Ix

/-- `assert_within_one_token(actual, expected, ..)`: `actual.abs_diff(expected) <= 1` -/
def withinOne (actual expected : Int) : Bool := decide (actual - expected ≤ 1 ∧ expected - actual ≤ 1)

/-- `kamino_deposit(amount)` after the bank-state / flag gates, from the point where the CPI has returned.
    `expected` = marginfi's own `liquidity_to_collateral(amount)` on the reserve as it was before the CPI;
    `pre` / `post` = `obligation.deposits[0].deposited_amount` before / after the CPI (u64 each).
    Result: bank, position, collateral booked. -/
def kaminoDeposit (now : Int) (b : Bank) (bal : Option Balance) (expected pre post : Int) : Res Out :=
  if post < pre then .error .panic                                  -- `final - initial` on u64 with overflow checks
  else if !withinOne (post - pre) expected then merr E.KaminoDepositFailed
  else do
    let r ← increaseBalance b (bal.getD (freshBalance b now)) now (ofInt (post - pre)) .depositOnly
    .ok (r.1, some r.2, post - pre)

structure WOut where
  bank : Bank
  bal : Balance
  /-- collateral tokens given up (the `amount` argument, or everything the position holds) -/
  collateral : Int
  /-- liquidity tokens forwarded to the user: exactly what arrived in the intermediary vault -/
  paid : Int

/-- `kamino_withdraw(amount, withdraw_all)` outside receivership, up to (not including) the health check.
    `expectedOf c` = marginfi's own `collateral_to_liquidity(c)` on the reserve before the CPI;
    `obPre/obPost` = obligation collateral before / after the CPI, `vPre/vPost` = intermediary vault balance before / after. -/
def kaminoWithdraw (now : Int) (b : Bank) (bal : Option Balance) (amount : Int) (all : Bool)
    (expectedOf : Int → Int) (obPre obPost vPre vPost : Int) : Res WOut :=
  match bal with
  | none => merr E.BankAccountNotFound
  | some x => do
    let (b', x', c) ←
      (if all then withdrawAll b x now
       else (decreaseBalance b x now (ofInt amount) .withdrawOnly).map fun (p : Bank × Balance) => (p.1, p.2, amount))
    if obPre < obPost then .error .panic
    else if obPre - obPost ≠ c then merr E.KaminoWithdrawFailed       -- `require_eq!(actual_deposit_decrease, collateral_amount)`
    else if vPost < vPre then .error .panic
    else if !withinOne (vPost - vPre) (expectedOf c) then merr E.KaminoWithdrawFailed
    else .ok { bank := b', bal := x', collateral := c, paid := vPost - vPre }

/-! ### Drift: `drift_deposit` / `drift_withdraw` (programs/marginfi/src/instructions/drift/{deposit,withdraw}.rs)

Positions of a Drift bank are Drift's SCALED balances. What the handlers decide themselves — how many scaled units a deposit
must credit, how many tokens a withdrawal may ask the venue for and how many scaled units it debits, incl. the one-unit
boundary and the complete withdrawal — is modelled here; the CPI is a parameter (scaled balance of the bank's Drift user and
the intermediary vault's balance before / after), as for Kamino. `dec` / `cum` = the spot market's decimals and cumulative
deposit interest after the handler's interest update. -/

def venueErr {α} : Res α := .error .mathErr     -- an error of the venue crate's conversion (its own error code)

/-- `drift_deposit(amount)` from the point where the gates have passed -/
def driftDeposit (now : Int) (b : Bank) (bal : Option Balance) (amount dec cum pre post : Int) : Res Out :=
  match Integr.scaledBalanceIncrement dec cum amount with
  | none => venueErr
  | some expected =>
    if post < pre then .error .panic
    else if post - pre ≠ expected then merr E.DriftScaledBalanceMismatch
    else do
      let r ← increaseBalance b (bal.getD (freshBalance b now)) now (ofInt (post - pre)) .depositOnly
      .ok (r.1, some r.2, post - pre)

structure DPlan where
  bank : Bank
  bal : Balance
  tokens : Int        -- what the venue is asked to release (and what is forwarded to the user)
  scaled : Int        -- the scaled-balance change announced to the after-the-fact check
  deriving DecidableEq, Repr

/-- `asset_shares.to_num::<u64>()` (unchecked: floor, wrapping) -/
def sharesU64 (x : Balance) : Int := (x.a / ONE) % 18446744073709551616

/-- complete withdrawal: the token amount the whole scaled balance is worth (floor), one base unit less when Drift's
    round-up on the decrement would need one scaled unit more than there is; with the decrement of what is asked for -/
def driftAllAmounts (dec cum scaledBal : Int) : Option (Int × Int) :=
  match Integr.withdrawTokenAmount dec cum scaledBal with
  | none => none
  | some t =>
    match Integr.scaledBalanceDecrement dec cum t with
    | none => none
    | some e =>
      if e = scaledBal + 1 ∧ t > 0 then
        match Integr.scaledBalanceDecrement dec cum (t - 1) with
        | none => none
        | some e' => some (t - 1, e')
      else some (t, e)

/-- partial withdrawal: the amount asked for with its decrement; on the one-unit boundary (decrement = shares + 1) the
    amount is recomputed from the shares; more than one unit over is refused (`none` = a conversion failed) -/
def driftPartialAmounts (dec cum amount shares : Int) : Res (Option (Int × Int)) :=
  match Integr.scaledBalanceDecrement dec cum amount with
  | none => .ok none
  | some d =>
    if d > shares + 1 then merr E.OperationWithdrawOnly
    else if d = shares + 1 then
      match Integr.withdrawTokenAmount dec cum shares with
      | none => .ok none
      | some t =>
        match Integr.scaledBalanceDecrement dec cum t with
        | none => .ok none
        | some d' => .ok (some (t, d'))
    else .ok (some (amount, d))

/-- the amount selection of `drift_withdraw(amount, withdraw_all)` and the booking -/
def driftWithdrawPlan (now : Int) (b : Bank) (x : Balance) (amount : Int) (all : Bool) (dec cum : Int) : Res DPlan :=
  if all then do
    let (b', x', scaledBal) ← withdrawAll b x now
    match driftAllAmounts dec cum scaledBal with
    | none => venueErr
    | some (t, e) =>
      if scaledBal < e then merr E.MathError
      else .ok { bank := b', bal := x', tokens := t, scaled := e }
  else do
    let sel ← driftPartialAmounts dec cum amount (sharesU64 x)
    match sel with
    | none => venueErr
    | some (t, d) => do
      let (b', x') ← decreaseBalance b x now (ofInt d) .withdrawOnly
      .ok { bank := b', bal := x', tokens := t, scaled := d }

/-- `drift_withdraw` outside receivership / deleverage, up to the health check: the plan, then the after-the-fact checks on
    what the venue did (`sbPre/sbPost` scaled balance of the bank's Drift user, `vPre/vPost` intermediary vault) -/
def driftWithdraw (now : Int) (b : Bank) (bal : Option Balance) (amount : Int) (all : Bool) (dec cum sbPre sbPost vPre vPost : Int) : Res DPlan :=
  match bal with
  | none => merr E.BankAccountNotFound
  | some x => do
    let p ← driftWithdrawPlan now b x amount all dec cum
    if all ∧ p.tokens = 0 then .ok p          -- what is left is worth less than one base unit: nothing is asked of the venue
    else if vPost < vPre ∨ sbPre < sbPost then .error .panic
    else if vPost - vPre ≠ p.tokens then merr E.DriftWithdrawFailed
    else if sbPre - sbPost ≠ p.scaled then merr E.DriftScaledBalanceMismatch
    else .ok p

/-! ### Solend: `solend_deposit` / `solend_withdraw` (programs/marginfi/src/instructions/solend/{deposit,withdraw}.rs)

As for Kamino, with one difference on the way out: the obligation's collateral decrease is compared with the collateral given
up by `assert_within_one_token`, not for equality — one unit more or less is tolerated. -/

def solendDeposit (now : Int) (b : Bank) (bal : Option Balance) (expected pre post : Int) : Res Out :=
  if post < pre then .error .panic
  else if !withinOne (post - pre) expected then merr E.SolendDepositFailed
  else do
    let r ← increaseBalance b (bal.getD (freshBalance b now)) now (ofInt (post - pre)) .depositOnly
    .ok (r.1, some r.2, post - pre)

def solendWithdraw (now : Int) (b : Bank) (bal : Option Balance) (amount : Int) (all : Bool)
    (expectedOf : Int → Int) (obPre obPost vPre vPost : Int) : Res WOut :=
  match bal with
  | none => merr E.BankAccountNotFound
  | some x => do
    let (b', x', c) ←
      (if all then withdrawAll b x now
       else (decreaseBalance b x now (ofInt amount) .withdrawOnly).map fun (p : Bank × Balance) => (p.1, p.2, amount))
    if obPre < obPost then .error .panic
    else if !withinOne (obPre - obPost) c then merr E.SolendWithdrawFailed
    else if vPost < vPre then .error .panic
    else if !withinOne (vPost - vPre) (expectedOf c) then merr E.SolendWithdrawFailed
    else .ok { bank := b', bal := x', collateral := c, paid := vPost - vPre }

end Mfi.Venue
