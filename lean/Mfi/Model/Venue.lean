/-
  Venue-backed instructions at instruction level: `kamino_deposit` / `kamino_withdraw`
  (programs/marginfi/src/instructions/kamino/{deposit,withdraw}.rs) around the CPI into Kamino Lend.

  The CPI itself is a PARAMETER: the model takes what marginfi reads before and after it (the obligation's collateral, the
  intermediary vault's balance) as arguments and says what marginfi makes of them — which outcome of the venue it accepts,
  what it books, what it pays out. Nothing is assumed about Kamino beyond "these are the numbers marginfi saw".
  (No interest accrual: venue banks cannot be borrowed from, their share values stay 1.)
-/
import Mfi.Model.Ix
namespace Mfi.Venue
open Mfi Mfi.Fx Mfi.Bank Mfi.Gen Mfi.Ix

/-- `assert_within_one_token(actual, expected, ..)`: `actual.abs_diff(expected) <= 1` -/
def withinOne (actual expected : Int) : Bool := decide (actual - expected ≤ 1 ∧ expected - actual ≤ 1)

/-- `kamino_deposit(amount)` after the bank-state / flag gates, from the point where the CPI has returned.
    `expected` = marginfi's own `liquidity_to_collateral(amount)` on the reserve as it was before the CPI;
    `pre` / `post` = `obligation.deposits[0].deposited_amount` before / after the CPI (u64 each).
    Result: bank, position, collateral booked. -/
def kaminoDeposit (now : Int) (b : Bank) (bal : Option Balance) (expected pre post : Int) : Res Out :=
  if post < pre then .error .panic                                  -- `final - initial` on u64 with overflow checks
  else if !withinOne (post - pre) expected then merr E.KaminoDepositFailed
  else do
    let r ← increaseBalance b (bal.getD (freshBalance b now)) now (ofInt (post - pre)) .depositOnly
    .ok (r.1, some r.2, post - pre)

structure WOut where
  bank : Bank
  bal : Balance
  /-- collateral tokens given up (the `amount` argument, or everything the position holds) -/
  collateral : Int
  /-- liquidity tokens forwarded to the user: exactly what arrived in the intermediary vault -/
  paid : Int

/-- `kamino_withdraw(amount, withdraw_all)` outside receivership, up to (not including) the health check.
    `expectedOf c` = marginfi's own `collateral_to_liquidity(c)` on the reserve before the CPI;
    `obPre/obPost` = obligation collateral before / after the CPI, `vPre/vPost` = intermediary vault balance before / after. -/
def kaminoWithdraw (now : Int) (b : Bank) (bal : Option Balance) (amount : Int) (all : Bool)
    (expectedOf : Int → Int) (obPre obPost vPre vPost : Int) : Res WOut :=
  match bal with
  | none => merr E.BankAccountNotFound
  | some x => do
    let (b', x', c) ←
      (if all then withdrawAll b x now
       else (decreaseBalance b x now (ofInt amount) .withdrawOnly).map fun (p : Bank × Balance) => (p.1, p.2, amount))
    if obPre < obPost then .error .panic
    else if obPre - obPost ≠ c then merr E.KaminoWithdrawFailed       -- `require_eq!(actual_deposit_decrease, collateral_amount)`
    else if vPost < vPre then .error .panic
    else if !withinOne (vPost - vPre) (expectedOf c) then merr E.KaminoWithdrawFailed
    else .ok { bank := b', bal := x', collateral := c, paid := vPost - vPre }

end Mfi.Venue
