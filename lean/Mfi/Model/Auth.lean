/- Model of `is_signer_authorized` and `account_not_frozen_for_authority` (state/marginfi_account.rs). -/
namespace Mfi.Auth

structure AcctView where
  authority : Nat
  frozen : Bool
  inReceivership : Bool

/-- `is_signer_authorized(account, group_admin, signer, allow_receivership)` -/
def isSignerAuthorized (a : AcctView) (groupAdmin signer : Nat) (allowReceivership : Bool) : Bool :=
  if allowReceivership && a.inReceivership then true
  else if a.frozen then groupAdmin == signer
  else a.authority == signer

/-- `account_not_frozen_for_authority` -/
def notFrozenForAuthority (a : AcctView) (signer : Nat) : Bool := !(a.frozen && a.authority == signer)

end Mfi.Auth
