/-
  Model of `validate_bank_state` (programs/marginfi/src/utils/general.rs) and of the asset-tag mixing
  rules `validate_asset_tags` / `validate_bank_asset_tags`.
-/
import Mfi.Gen.Errors
import Mfi.Gen.Consts
namespace Mfi.Gate
open Mfi.Gen

inductive OpState | paused | operational | reduceOnly | killedByBankruptcy deriving DecidableEq, Repr
inductive Kind | unrestricted | failsInReduceState | failsInPausedState | failsIfPausedOrReduceState
  deriving DecidableEq, Repr

/-- BankOperationalState discriminants: Paused = 0, Operational = 1, ReduceOnly = 2, KilledByBankruptcy = 3 -/
def OpState.ofInt (n : Int) : Option OpState :=
  if n = 0 then some .paused else if n = 1 then some .operational else if n = 2 then some .reduceOnly
  else if n = 3 then some .killedByBankruptcy else none

def Kind.ofInt (n : Int) : Option Kind :=
  if n = 0 then some .unrestricted else if n = 1 then some .failsInReduceState else if n = 2 then some .failsInPausedState
  else if n = 3 then some .failsIfPausedOrReduceState else none

/-- `validate_bank_state`: `none` = Ok, `some code` = the MarginfiError returned -/
def validateBankState (s : OpState) (k : Kind) : Option Nat :=
  if s = .killedByBankruptcy then some E.BankKilledByBankruptcy else
  match k, s with
  | .failsInReduceState, .reduceOnly => some E.BankReduceOnly
  | .failsInPausedState, .paused => some E.BankPaused
  | .failsIfPausedOrReduceState, .paused => some E.BankPaused
  | .failsIfPausedOrReduceState, .reduceOnly => some E.BankReduceOnly
  | _, _ => none

end Mfi.Gate
