/-
  Token-2022 transfer fee: model of spl_token_2022 `TransferFee::calculate_fee` and of marginfi's
  backported `calculate_pre_fee_amount` (programs/marginfi/src/utils/general.rs).
-/
import Mfi.Fx
namespace Mfi.Token
open Mfi.Fx

def chkU64 (x : Int) : Option Int := if 0 ≤ x ∧ x ≤ U64MAX then some x else none

/-- `TransferFee::calculate_fee(pre_fee_amount)` (bps : u16, maxFee : u64, pre : u64) -/
def fee (bps maxFee pre : Int) : Option Int :=
  if bps = 0 ∨ pre = 0 then some 0
  else
    -- u128 arithmetic cannot overflow for u64·u16; `try_into::<u64>()` "guaranteed to be okay"
    (chkU64 ((pre * bps + 10000 - 1) / 10000)).map fun raw => min raw maxFee

/-- `calculate_pre_fee_amount(transfer_fee, post_fee_amount)` -/
def preFee (bps maxFee post : Int) : Option Int :=
  if bps = 0 then some post
  else if post = 0 then some 0
  else if bps = 10000 then chkU64 (maxFee + post)
  else if 10000 - bps < 0 then none
  else
    let raw := (post * 10000 + (10000 - bps) - 1) / (10000 - bps)
    if raw - post ≥ maxFee then chkU64 (post + maxFee) else chkU64 raw

/-! ### mint level: which fee applies in which epoch -/

/-- the `TransferFeeConfig` extension of a Token-2022 mint: the fee in force and a scheduled one with its activation epoch -/
structure FeeCfg where
  olderBps : Int
  olderMax : Int
  newerEpoch : Int
  newerBps : Int
  newerMax : Int
  deriving Repr, DecidableEq

/-- a mint as the three helpers of utils/general.rs see it: classic SPL (owner = Tokenkeg), Token-2022 without the
    extension, Token-2022 with it -/
inductive Mint
  | spl
  | t22
  | t22fee (c : FeeCfg)
  deriving Repr, DecidableEq

/-- `TransferFeeConfig::get_epoch_fee`: the newer fee applies FROM its activation epoch on (inclusive) — this is the token
    program's own rule, i.e. the fee that is really withheld from a transfer in that epoch -/
def epochFee (c : FeeCfg) (epoch : Int) : Int × Int :=
  if epoch ≥ c.newerEpoch then (c.newerBps, c.newerMax) else (c.olderBps, c.olderMax)

/-- what the token program withholds from a transfer of `amount` in `epoch` (`calculate_epoch_fee`) -/
def mintFee (m : Mint) (epoch amount : Int) : Option Int :=
  match m with
  | .spl | .t22 => some 0
  | .t22fee c => fee (epochFee c epoch).1 (epochFee c epoch).2 amount

/-- `calculate_pre_fee_spl_deposit_amount(mint, post_fee_amount, epoch)`; `none` = the `.unwrap()` panics -/
def mintPre (m : Mint) (epoch post : Int) : Option Int :=
  match m with
  | .spl | .t22 => some post
  | .t22fee c => preFee (epochFee c epoch).1 (epochFee c epoch).2 post

/-- `calculate_post_fee_spl_deposit_amount(mint, input_amount, epoch)` -/
def mintPost (m : Mint) (epoch input : Int) : Option Int :=
  (mintFee m epoch input).bind fun f => if f ≤ input then some (input - f) else none

/-- `nonzero_fee(mint, epoch)` -/
def mintNonzero (m : Mint) (epoch : Int) : Bool :=
  match m with
  | .spl | .t22 => false
  | .t22fee c => (epochFee c epoch).1 != 0

end Mfi.Token
