/-
  Token-2022 transfer fee: model of spl_token_2022 `TransferFee::calculate_fee` and of marginfi's
  backported `calculate_pre_fee_amount` (programs/marginfi/src/utils/general.rs).
-/
import Mfi.Fx
namespace Mfi.Token
open Mfi.Fx

def chkU64 (x : Int) : Option Int := if 0 ≤ x ∧ x ≤ U64MAX then some x else none

/-- `TransferFee::calculate_fee(pre_fee_amount)` (bps : u16, maxFee : u64, pre : u64) -/
def fee (bps maxFee pre : Int) : Option Int :=
  if bps = 0 ∨ pre = 0 then some 0
  else
    -- u128 arithmetic cannot overflow for u64·u16; `try_into::<u64>()` "guaranteed to be okay"
    (chkU64 ((pre * bps + 10000 - 1) / 10000)).map fun raw => min raw maxFee

/-- `calculate_pre_fee_amount(transfer_fee, post_fee_amount)` -/
def preFee (bps maxFee post : Int) : Option Int :=
  if bps = 0 then some post
  else if post = 0 then some 0
  else if bps = 10000 then chkU64 (maxFee + post)
  else if 10000 - bps < 0 then none
  else
    let raw := (post * 10000 + (10000 - bps) - 1) / (10000 - bps)
    if raw - post ≥ maxFee then chkU64 (post + maxFee) else chkU64 raw

end Mfi.Token
