/-
  Risk engine and oracle prices (state/marginfi_account.rs RiskEngine + BankAccountWithPriceFeed,
  state/price.rs adapters, state/bank.rs init-limit discount, type-crate emode reconcile).

  All amounts are I80F48 bit patterns (Int). A position carries the bank fields the valuation reads and
  the oracle the caller presented for it; `loadFeed` is `OraclePriceFeedAdapter::try_from_bank` for
  Fixed / Pyth push / Switchboard pull (the staked and exchange-rate-adjusted variants re-scale the same
  adapters: C20).
-/
import Mfi.Fx
import Mfi.Model.Res
import Mfi.Gen.Consts
import Mfi.Gen.Errors

namespace Mfi.Risk
open Mfi Mfi.Fx Mfi.Gen

inductive Req | initial | maint | equity deriving DecidableEq, Repr
inductive PType | realTime | timeWeighted deriving DecidableEq, Repr
inductive Bias | low | high deriving DecidableEq, Repr

def Req.ptype : Req → PType
  | .maint => .realTime
  | _ => .timeWeighted

def err {α} (c : Nat) : Res α := .error (.err c)
def merr {α} : Res α := .error (.err E.MathError)
def math {α} (o : Option α) : Res α := match o with | some a => .ok a | none => merr

/-! ### oracle adapters -/

structure Pyth where
  price : Int       -- i64
  conf : Int        -- u64
  emaPrice : Int
  emaConf : Int
  expo : Int        -- i32
  deriving DecidableEq, Repr

/-- a loaded price feed, or the error code with which loading failed -/
inductive Feed
  | fixed (p : Int)
  | pyth (p : Pyth)
  | swb (value stdDev : Int)      -- i128 raw, 18 decimals
  | failed (code : Nat)
  deriving DecidableEq, Repr

/-- what the caller presented for a Pyth push bank -/
structure PythAcct where
  keyOk : Bool          -- account key == bank.config.oracle_keys[0]
  ownerOk : Bool        -- owned by the pyth receiver (or, off mainnet, the mock) program
  discOk : Bool         -- PriceUpdateV2 discriminator
  fullVerification : Bool
  publishTime : Int
  px : Pyth
  deriving DecidableEq, Repr

/-- `get_oracle_max_age` -/
def oracleMaxAge (cfgAge : Int) (isPyth : Bool) : Int := if cfgAge = 0 ∧ isPyth then MAX_PYTH_ORACLE_AGE else cfgAge

def satAddI64 (a b : Int) : Int :=
  let s := a + b
  if s > 9223372036854775807 then 9223372036854775807 else if s < -9223372036854775808 then -9223372036854775808 else s

/-- `OracleSetup::PythPushOracle` branch of `try_from_bank` + `PythPushOraclePriceFeed::load_checked` -/
def loadPyth (a : PythAcct) (now cfgAge : Int) : Feed :=
  if !a.ownerOk then .failed E.PythPushWrongAccountOwner
  else if !a.keyOk then .failed E.WrongOracleAccountKeys
  else if !a.discOk then .failed E.PythPushInvalidAccount
  else if !a.fullVerification then .failed E.PythPushInsufficientVerificationLevel
  else if satAddI64 a.publishTime (oracleMaxAge cfgAge true) ≥ now then .pyth a.px
  else .failed E.PythPushStalePrice

/-- `OracleSetup::Fixed` -/
def loadFixed (price : Int) : Feed := if price ≥ 0 then .fixed price else .failed E.FixedOraclePriceNegative

structure SwbAcct where
  keyOk : Bool
  ownerOk : Bool
  lastUpdate : Int
  value : Int
  stdDev : Int
  deriving DecidableEq, Repr

def satSubI64 (a b : Int) : Int :=
  let s := a - b
  if s > 9223372036854775807 then 9223372036854775807 else if s < -9223372036854775808 then -9223372036854775808 else s

/-- `OracleSetup::SwitchboardPull` branch + `SwitchboardPullPriceFeed::load_checked` -/
def loadSwb (a : SwbAcct) (now cfgAge : Int) : Feed :=
  if !a.keyOk then .failed E.WrongOracleAccountKeys
  else if !a.ownerOk then .failed E.SwitchboardWrongAccountOwner
  else if satSubI64 now a.lastUpdate > oracleMaxAge cfgAge false then .failed E.SwitchboardStalePrice
  else .swb a.value a.stdDev

def exp10fx (n : Int) : Res Int :=
  if 0 ≤ n then match POW10FX[n.toNat]? with | some e => .ok e | none => .error .panic else .error .panic

/-- `pyth_price_components_to_i80f48(I80F48::from_num(x), exponent)` -/
def pythComponents (x expo : Int) : Res Int := do
  let scale ← exp10fx (if expo < 0 then -expo else expo)
  if expo = 0 then .ok (ofInt x)
  else if expo < 0 then math (div? (ofInt x) scale)
  else math (mul? (ofInt x) scale)

/-- the shared tail of both `get_confidence_interval`s: max-confidence gate, then cap at 5 % -/
def confGate (conf price maxConf : Int) : Res Int := do
  let omc := if maxConf > 0 then ofInt maxConf else U32_MAX_DIV_10_FX
  let a ← math (mul? price omc)
  let maxc ← math (div? a U32_MAX_FX)
  if conf > maxc then err E.OracleMaxConfidenceExceeded else do
    let capped ← math (mul? price MAX_CONF_INTERVAL)
    if capped < 0 then .error .panic
    else if conf < 0 then .error .panic
    else .ok (min conf capped)

def pythConf (p : Pyth) (useEma : Bool) (maxConf : Int) : Res Int := do
  let c ← pythComponents (if useEma then p.emaConf else p.conf) p.expo
  let ci ← math (mul? c CONF_INTERVAL_MULTIPLE)
  let price ← pythComponents (if useEma then p.emaPrice else p.price) p.expo
  confGate ci price maxConf

/-- `I80F48::checked_from_num(i128)` -/
def fromNum? (x : Int) : Option Int := chk (x * ONE)

def swbPrice (value : Int) : Res Int := do
  let e ← exp10fx 18
  let v ← math (fromNum? value)
  math (div? v e)

def swbConf (value stdDev maxConf : Int) : Res Int := do
  let e ← exp10fx 18
  let sd ← math (fromNum? stdDev)
  let a ← math (div? sd e)
  let ci ← math (mul? a STD_DEV_MULTIPLE)
  let price ← swbPrice value
  confGate ci price maxConf

def applyBias (price conf : Int) (b : Bias) : Res Int :=
  match b with
  | .low => math (sub? price conf)
  | .high => math (add? price conf)

/-- `PriceAdapter::get_price_of_type(price_type, bias, oracle_max_confidence)` -/
def priceOfType (f : Feed) (t : PType) (bias : Option Bias) (maxConf : Int) : Res Int :=
  match f with
  | .fixed p => .ok p
  | .failed c => err c
  | .pyth p => do
    let price ← pythComponents (if t = .timeWeighted then p.emaPrice else p.price) p.expo
    match bias with
    | none => .ok price
    | some b => do
      let ci ← pythConf p (t = .timeWeighted) maxConf
      applyBias price ci b
  | .swb v sd => do
    let price ← swbPrice v
    match bias with
    | none => .ok price
    | some b => do
      let ci ← swbConf v sd maxConf
      applyBias price ci b

/-- `get_price_and_confidence_of_type` (confidence is evaluated first) -/
def priceAndConf (f : Feed) (t : PType) (maxConf : Int) : Res (Int × Int) :=
  match f with
  | .fixed p => .ok (p, 0)
  | .failed c => err c
  | .pyth p => do
    let ci ← pythConf p (t = .timeWeighted) maxConf
    let price ← pythComponents (if t = .timeWeighted then p.emaPrice else p.price) p.expo
    .ok (price, ci)
  | .swb v sd => do
    let ci ← swbConf v sd maxConf
    let price ← swbPrice v
    .ok (price, ci)

/-! ### valuation -/

/-- `calc_value(amount, price, mint_decimals, weight)` -/
def calcValue (amount price decimals : Int) (weight : Option Int) : Res Int :=
  if amount = 0 then .ok 0 else do
    let scale ← exp10fx decimals
    let w ← match weight with
      | some wt => (match mul? amount wt with | some x => (.ok x : Res Int) | none => .error .panic)
      | none => .ok amount
    let a ← math (mul? w price)
    math (div? a scale)

/-- `calc_amount(value, price, mint_decimals)` -/
def calcAmount (value price decimals : Int) : Res Int := do
  let scale ← exp10fx decimals
  let a ← math (mul? value scale)
  math (div? a price)

inductive Tier | collateral | isolated deriving DecidableEq, Repr

structure Entry where
  tag : Nat
  flags : Nat
  wInit : Int
  wMaint : Int
  deriving DecidableEq, Repr

/-- the bank fields the risk engine reads -/
structure BankR where
  asv : Int
  lsv : Int
  sa : Int              -- total_asset_shares
  decimals : Int        -- get_balance_decimals()
  aInit : Int
  aMaint : Int
  lInit : Int
  lMaint : Int
  tier : Tier
  reduceOnly : Bool     -- operational_state == ReduceOnly
  emodeTag : Nat
  emode : List Entry    -- the bank's own emode_config entries, in array order
  initLimit : Int       -- total_asset_value_init_limit (u64), 0 = inactive
  maxConf : Int         -- oracle_max_confidence (u32)
  deriving DecidableEq, Repr

structure Pos where
  bank : BankR
  a : Int               -- asset_shares
  l : Int               -- liability_shares
  feed : Feed
  deriving DecidableEq, Repr

inductive Side | assets | liabs deriving DecidableEq, Repr

/-- `Balance::get_side` -/
def getSide (p : Pos) : Res (Option Side) :=
  if !(decide (p.a < EMPTY_BALANCE_THRESHOLD) || decide (p.l < EMPTY_BALANCE_THRESHOLD)) then .error .panic
  else if p.l ≥ EMPTY_BALANCE_THRESHOLD then .ok (some .liabs)
  else if p.a ≥ EMPTY_BALANCE_THRESHOLD then .ok (some .assets)
  else .ok none

/-- `Balance::is_empty(Liabilities)` -/
def liabEmpty (p : Pos) : Bool := decide (p.l < EMPTY_BALANCE_THRESHOLD)
def assetEmpty (p : Pos) : Bool := decide (p.a < EMPTY_BALANCE_THRESHOLD)

/-! #### e-mode reconciliation (`reconcile_emode_configs`) -/

def mergeEntry (acc : List (Entry × Nat)) (e : Entry) : List (Entry × Nat) :=
  if e.tag = 0 then acc
  else match acc.find? (fun x => x.1.tag == e.tag) with
    | none => acc ++ [(e, 1)]
    | some _ => acc.map fun x =>
        if x.1.tag == e.tag then
          ({ x.1 with flags := min x.1.flags e.flags,
                      wInit := if e.wInit < x.1.wInit then e.wInit else x.1.wInit,
                      wMaint := if e.wMaint < x.1.wMaint then e.wMaint else x.1.wMaint }, x.2 + 1)
        else x

/-- entries whose tag appears in EVERY borrowing bank's config, with the least weights -/
def reconcile (configs : List (List Entry)) : List Entry :=
  match configs with
  | [] => []
  | _ =>
    let merged := configs.foldl (fun acc cfg => cfg.foldl mergeEntry acc) []
    (merged.filter fun x => x.2 == configs.length).map (·.1)

def findWithTag (cfg : List Entry) (tag : Nat) : Option Entry :=
  if tag = 0 then none else cfg.find? (fun e => e.tag == tag)

def bankWeight (b : BankR) (r : Req) (s : Side) : Int :=
  match r, s with
  | .initial, .assets => b.aInit
  | .initial, .liabs => b.lInit
  | .maint, .assets => b.aMaint
  | .maint, .liabs => b.lMaint
  | .equity, _ => ONE

def assetAmount (b : BankR) (shares : Int) : Res Int := math (mul? shares b.asv)
def liabAmount (b : BankR) (shares : Int) : Res Int := math (mul? shares b.lsv)

/-- `maybe_get_asset_weight_init_discount(price)` -/
def initDiscount (b : BankR) (price : Int) : Res (Option Int) :=
  if b.initLimit = TOTAL_ASSET_VALUE_INIT_LIMIT_INACTIVE then .ok none else do
    let ta ← assetAmount b b.sa
    let total ← calcValue ta price b.decimals none
    let lim := ofInt b.initLimit
    if total > lim then (math (div? lim total)).map some else .ok none

/-- the asset weight before the init-limit discount: the bank's own weight, or the reconciled e-mode
    entry's if that is higher (equity: e-mode never applies, weight 1) -/
def assetWeight0 (b : BankR) (r : Req) (emode : List Entry) : Int :=
  match findWithTag emode b.emodeTag with
  | some e => max (bankWeight b r .assets) (match r with | .initial => e.wInit | .maint => e.wMaint | .equity => ONE)
  | none => bankWeight b r .assets

/-- the weight actually applied: for the initial requirement the init-limit discount multiplies it -/
def assetWeight (b : BankR) (r : Req) (emode : List Entry) (lower : Int) : Res Int :=
  if r = .initial then do
    let d ← initDiscount b lower
    match d with
    | some d => math (mul? (assetWeight0 b r emode) d)
    | none => .ok (assetWeight0 b r emode)
  else .ok (assetWeight0 b r emode)

/-- `calc_weighted_asset_value` → (value, price, oracle error code) -/
def weightedAsset (p : Pos) (r : Req) (emode : List Entry) : Res (Int × Int × Nat) :=
  let b := p.bank
  match b.tier with
  | .isolated => .ok (0, 0, 0)
  | .collateral =>
    if b.reduceOnly ∧ r = .initial then .ok (0, 0, 0)
    else match p.feed, r with
      | .failed c, .initial => .ok (0, 0, c)
      | .failed c, _ => err c
      | f, _ => do
        let lower ← priceOfType f r.ptype (some .low) b.maxConf
        let w ← assetWeight b r emode lower
        let amt ← assetAmount b p.a
        let v ← calcValue amt lower b.decimals (some w)
        .ok (v, lower, 0)

/-- `calc_weighted_liab_value` → (value, price) -/
def weightedLiab (p : Pos) (r : Req) : Res (Int × Int) := do
  let b := p.bank
  match p.feed with
  | .failed c => err c
  | f => do
    let higher ← priceOfType f r.ptype (some .high) b.maxConf
    let amt ← liabAmount b p.l
    let v ← calcValue amt higher b.decimals (some (bankWeight b r .liabs))
    .ok (v, higher)

/-- `calc_weighted_value` → (asset value, liability value, price, error code) -/
def weightedValue (p : Pos) (r : Req) (emode : List Entry) : Res (Int × Int × Int × Nat) := do
  let s ← getSide p
  match s with
  | some .assets => do
    let (v, pr, c) ← weightedAsset p r emode
    .ok (v, 0, pr, c)
  | some .liabs => do
    let (v, pr) ← weightedLiab p r
    .ok (0, v, pr, 0)
  | none => .ok (0, 0, 0, 0)

structure Comps where
  assets : Int
  liabs : Int
  errIdx : Option Nat     -- index of the first position whose oracle failed (init pass)
  errCode : Nat
  deriving DecidableEq, Repr

/-- the loop of `get_account_health_components`; on failure the partial record (first oracle error seen so
    far) is returned with the failure, as the health cache keeps it -/
def compsLoop (r : Req) (emode : List Entry) : List Pos → Nat → Comps → Comps × Option Fail
  | [], _, acc => (acc, none)
  | p :: rest, i, acc =>
    match weightedValue p r emode with
    | .error f => (acc, some f)
    | .ok (av, lv, _, c) =>
      let acc := if c ≠ 0 ∧ acc.errIdx.isNone then { acc with errIdx := some i, errCode := c } else acc
      match add? acc.assets av, add? acc.liabs lv with
      | some a, some l => compsLoop r emode rest (i + 1) { acc with assets := a, liabs := l }
      | _, _ => (acc, some (.err E.MathError))

/-- the reconciled e-mode configuration of an account: over the banks where it has a liability -/
def accountEmode (ps : List Pos) : List Entry :=
  reconcile ((ps.filter fun p => !liabEmpty p).map (·.bank.emode))

def componentsP (ps : List Pos) (r : Req) : Comps × Option Fail :=
  compsLoop r (accountEmode ps) ps 0 { assets := 0, liabs := 0, errIdx := none, errCode := 0 }

def components (ps : List Pos) (r : Req) : Res Comps :=
  match componentsP ps r with
  | (c, none) => .ok c
  | (_, some f) => .error f

/-- `check_account_risk_tiers` -/
def riskTiers (ps : List Pos) : Res Unit :=
  let withLiab := ps.filter fun p => !liabEmpty p
  let iso := (withLiab.filter fun p => p.bank.tier == .isolated).length
  if iso = 0 ∨ withLiab.length = 1 then .ok () else err E.IsolatedAccountIllegalState

/-- `check_account_health(Initial)` (after the flash-loan early return of check_account_init_health) -/
def checkInitHealth (ps : List Pos) : Res Unit := do
  let c ← components ps .initial
  if c.assets ≥ c.liabs then riskTiers ps else err E.RiskEngineInitRejected

/-- `check_pre_liquidation_condition_and_get_account_health(None, .., ignore_healthy)` → health -/
def preLiquidation (ps : List Pos) (ignoreHealthy : Bool) : Res (Int × Int × Int) := do
  let c ← components ps .maint
  let h ← math (sub? c.assets c.liabs)
  if h > 0 ∧ !ignoreHealthy then err E.HealthyAccount else .ok (h, c.assets, c.liabs)

/-- `check_account_bankrupt` → (assets, liabilities) in equity terms -/
def checkBankrupt (ps : List Pos) : Res (Int × Int) := do
  let c ← components ps .equity
  if ¬ (c.assets < c.liabs) then err E.AccountNotBankrupt
  else if ¬ (c.assets < BANKRUPT_THRESHOLD ∧ c.liabs > ZERO_AMOUNT_THRESHOLD) then err E.AccountNotBankrupt
  else .ok (c.assets, c.liabs)

/-! ### what `lending_account_pulse_health` records (account not in a flash loan, accounts well-formed) -/

structure Pulse where
  aInit : Int
  lInit : Int
  aMaint : Int
  lMaint : Int
  aEq : Int
  lEq : Int
  mrgnErr : Nat
  liqErr : Nat
  bkrErr : Nat
  internalErr : Nat
  errIndex : Nat
  flags : Nat
  deriving DecidableEq, Repr

def HEALTHY : Nat := 1
def ENGINE_OK : Nat := 2
def ORACLE_OK : Nat := 4

def isOracleError (c : Nat) : Bool :=
  [E.WrongNumberOfOracleAccounts, E.SwitchboardInvalidAccount, E.PythPushInvalidAccount, E.SwitchboardWrongAccountOwner,
   E.PythPushInsufficientVerificationLevel, E.StakedPythPushWrongAccountOwner, E.PythPushWrongAccountOwner,
   E.WrongOracleAccountKeys, E.PythPushStalePrice, E.SwitchboardStalePrice, E.StakePoolValidationFailed,
   E.InvalidBankAccount, E.MissingBankAccount, E.MissingPythAccount, E.MissingPythOrBankAccount,
   E.PythPushInvalidWindowSize, E.OracleMaxConfidenceExceeded, E.ZeroSupplyInStakePool].contains c

def codeOf (f : Fail) : Option Nat :=
  match f with
  | .err c => some c
  | _ => none

/-- `None` = the instruction itself aborts (panic inside the engine) -/
def pulse (ps : List Pos) : Option Pulse :=
  -- 1. initial requirement
  let s1 : Option (Pulse × Nat) := match componentsP ps .initial with
    | (_, some .panic) => none
    | (_, some .mathErr) => none
    | (part, some (.err c)) =>
      some ({ aInit := 0, lInit := 0, aMaint := 0, lMaint := 0, aEq := 0, lEq := 0, mrgnErr := c, liqErr := 0, bkrErr := 0,
              internalErr := part.errCode, errIndex := (part.errIdx.getD 0), flags := 0 }, c)
    | (c, none) =>
      let healthy := decide (c.assets ≥ c.liabs)
      let e : Nat := if healthy then (match riskTiers ps with | .ok _ => 0 | .error f => (codeOf f).getD 0) else E.RiskEngineInitRejected
      some ({ aInit := c.assets, lInit := c.liabs, aMaint := 0, lMaint := 0, aEq := 0, lEq := 0, mrgnErr := e, liqErr := 0, bkrErr := 0,
              internalErr := c.errCode, errIndex := (c.errIdx.getD 0), flags := if healthy then HEALTHY else 0 }, e)
  match s1 with
  | none => none
  | some (p1, e) =>
    let engineOk := e = 0 ∨ e = E.RiskEngineInitRejected
    let oracleOk := if e = 0 then p1.internalErr = 0 else ¬ (isOracleError e ∨ p1.internalErr ≠ 0)
    let fl := (p1.flags &&& HEALTHY) ||| (if engineOk then ENGINE_OK else 0) ||| (if oracleOk then ORACLE_OK else 0)
    let p1 := { p1 with flags := fl }
    -- 2. maintenance (pre-liquidation condition, ignore_healthy = false)
    let s2 : Option Pulse := match components ps .maint with
      | .error .panic => none
      | .error .mathErr => none
      | .error (.err c) => some { p1 with liqErr := c }
      | .ok c =>
        match sub? c.assets c.liabs with
        | none => some { p1 with aMaint := c.assets, lMaint := c.liabs, liqErr := E.MathError }
        | some h =>
          let healthy := decide (h > 0)
          let fl := if healthy then p1.flags ||| HEALTHY else p1.flags &&& (ENGINE_OK ||| ORACLE_OK)
          some { p1 with aMaint := c.assets, lMaint := c.liabs, flags := fl, liqErr := if healthy then E.HealthyAccount else 0 }
    match s2 with
    | none => none
    | some p2 =>
      -- 3. equity (bankruptcy)
      match components ps .equity with
      | .error .panic => none
      | .error .mathErr => none
      | .error (.err c) => some { p2 with bkrErr := c }
      | .ok c =>
        let bk : Nat := if ¬ (c.assets < c.liabs) then E.AccountNotBankrupt
          else if ¬ (c.assets < BANKRUPT_THRESHOLD ∧ c.liabs > ZERO_AMOUNT_THRESHOLD) then E.AccountNotBankrupt else 0
        some { p2 with aEq := c.assets, lEq := c.liabs, bkrErr := bk }

end Mfi.Risk

namespace Mfi.Risk
open Mfi Mfi.Fx Mfi.Gen

/-! ### classic liquidation (instructions/marginfi_account/liquidate.rs) -/

structure LiqAmounts where
  liquidator : Int     -- liability the liquidator takes on (bits)
  final : Int          -- liability the liquidatee is relieved of
  fee : Int            -- insurance fund fee = liquidator − final
  feeWhole : Int       -- whole tokens moved liquidity vault → insurance vault
  feeFrac : Int        -- added to collected_insurance_fees_outstanding
  deriving DecidableEq, Repr

def subP (a b : Int) : Res Int := if inRange (a - b) then .ok (a - b) else .error .panic
def addP (a b : Int) : Res Int := if inRange (a + b) then .ok (a + b) else .error .panic

/-- the amounts block of `lending_account_liquidate`: `assetAmount` whole tokens seized, valued at the
    low-biased real-time asset price, converted at the high-biased real-time liability price -/
def liquidationAmounts (assetAmount assetPrice liabPrice decA decL : Int) : Res LiqAmounts := do
  let amt := ofInt assetAmount
  let fees ← addP LIQUIDATION_INSURANCE_FEE LIQUIDATION_LIQUIDATOR_FEE
  let finalDiscount ← subP ONE fees
  let liqDiscount ← subP ONE LIQUIDATION_LIQUIDATOR_FEE
  let v1 ← calcValue amt assetPrice decA (some liqDiscount)
  let liquidator ← calcAmount v1 liabPrice decL
  let v2 ← calcValue amt assetPrice decA (some finalDiscount)
  let final ← calcAmount v2 liabPrice decL
  let fee ← subP liquidator final
  if fee < 0 then .error .panic else
  match toU64? fee with
  | none => err E.MathError
  | some w => .ok { liquidator, final, fee, feeWhole := w, feeFrac := frac fee }

/-- `check_pre_liquidation_condition_and_get_account_health(Some(liab_bank), .., false)`; `lp` = the
    liquidatee's position in the liability bank (None: LendingAccountBalanceNotFound) -/
def preLiquidationFor (ps : List Pos) (lp : Option Pos) : Res Int :=
  match lp with
  | none => err E.LendingAccountBalanceNotFound
  | some p =>
    if liabEmpty p then err E.NoLiabilitiesInLiabilityBank
    else if !assetEmpty p then err E.AssetsInLiabilityBank
    else do
      let (h, _, _) ← preLiquidation ps false
      .ok h

/-- `check_post_liquidation_condition_and_get_account_health(liab_bank, pre_health)` -/
def postLiquidation (ps : List Pos) (lp : Pos) (pre : Int) : Res Int :=
  if liabEmpty lp then err E.ExhaustedLiability
  else if !assetEmpty lp then err E.TooSeverePayoff
  else do
    let c ← components ps .maint
    let h ← math (sub? c.assets c.liabs)
    if ¬ (h ≤ 0) then err E.TooSevereLiquidation
    else if h ≤ pre then err E.WorseHealthPostLiquidation
    else .ok h

/-! ### the end of a receivership bracket (`end_liquidation` / `end_deleverage`, instructions/marginfi_account/liquidate_end.rs) -/

/-- what `start_liquidation` / `start_deleverage` stored in the liquidation record's cache -/
structure PreCache where
  aMaint : Int
  lMaint : Int
  aEq : Int
  lEq : Int
  deriving DecidableEq, Repr

/-- `start_receivership` (start_liquidation: `ignoreHealthy = false`; start_deleverage: `true`): the account must not be
    healthy at maintenance level (liquidation), and the snapshot is the maintenance and the equity valuation of now -/
def startReceivership (ps : List Pos) (ignoreHealthy : Bool) : Res PreCache := do
  let (_, a, l) ← preLiquidation ps ignoreHealthy
  let c ← components ps .equity
  .ok { aMaint := a, lMaint := l, aEq := c.assets, lEq := c.liabs }

/-- `a - b` with the `-` operator of I80F48 (aborts on overflow under the on-chain profile) -/
def subOp (a b : Int) : Res Int := if inRange (a - b) then .ok (a - b) else .error .panic

/-- `end_receivership` → (seized, repaid): maintenance health must not be worse than at the start (and, unless
    `ignoreHealthy`, must not be positive); seized / repaid are the falls of the equity-valued assets / liabilities -/
def endReceivership (pre : PreCache) (ps : List Pos) (ignoreHealthy : Bool) : Res (Int × Int) := do
  let preHealth ← subOp pre.aMaint pre.lMaint
  let (postHealth, _, _) ← preLiquidation ps ignoreHealthy
  let c ← components ps .equity
  if preHealth > postHealth then err E.WorseHealthPostLiquidation
  else do
    let seized ← subOp pre.aEq c.assets
    let repaid ← subOp pre.lEq c.liabs
    .ok (seized, repaid)

/-- the liquidator's allowed premium factor: 1 + max(fee-state maximum, the 5 % floor) -/
def maxPremium (feeStateMax : Int) : Int := max (ONE + feeStateMax) (ONE + LIQUIDATION_BONUS_FEE_MINIMUM)

/-- `end_liquidation`: the close-out exemption is keyed on the value of the ASSETS at the start (under five dollars);
    otherwise seized <= repaid x (1 + premium). `repaid * max_fee` is the `*` operator (wraps on chain). -/
def endLiquidation (pre : PreCache) (ps : List Pos) (feeStateMax : Int) : Res (Int × Int) := do
  let ignoreHealthy := decide (pre.aEq < LIQUIDATION_CLOSEOUT_DOLLAR_THRESHOLD)
  let (seized, repaid) ← endReceivership pre ps ignoreHealthy
  if !ignoreHealthy && !decide (seized ≤ wrap ((repaid * maxPremium feeStateMax) / ONE)) then err E.LiquidationPremiumTooHigh
  else .ok (seized, repaid)

/-- `end_deleverage`: only "health not worse" -/
def endDeleverage (pre : PreCache) (ps : List Pos) : Res (Int × Int) := endReceivership pre ps true

end Mfi.Risk
