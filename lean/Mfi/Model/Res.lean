/-
  Three-way outcome of a Rust computation:
    ok a      — returned a value
    mathErr   — `None` / `Err(MathError)`-style failure (checked arithmetic said no)
    err code  — a specific MarginfiError (numeric code from Mfi.Gen.Errors)
    panic     — Rust panic / overflow-checks abort / assert! failure (transaction aborts)
-/
namespace Mfi

inductive Fail
  | mathErr
  | err (code : Nat)
  | panic
  deriving DecidableEq, Repr

abbrev Res (α : Type) := Except Fail α

namespace Res
def ofOpt {α} (o : Option α) : Res α :=
  match o with
  | some a => .ok a
  | none => .error .mathErr

def isOk {α} (r : Res α) : Bool := match r with | .ok _ => true | .error _ => false

def showFail (f : Fail) : String :=
  match f with
  | .mathErr => "none"
  | .err c => s!"err {c}"
  | .panic => "panic"
end Res

end Mfi
