/-
  Transaction-shape model (C10 receivership bracket, C11 flash-loan bracket).

  * `validateInstructions` = `validate_instructions` of instructions/marginfi_account/liquidate_start.rs
    with the helpers of ix_utils.rs (`load_and_validate_instructions`, `validate_ix_first`,
    `validate_ix_last`, `validate_ixes_exclusive`, the two not-CPI checks). Its three lists come from
    Mfi.Gen.TxL, regenerated from the source on every run.
  * `canStartFlashloan` = `check_flashloan_can_start` of flashloan.rs.
  * `exec` / `run`: what every instruction of a transaction does to the account flags
    (ACCOUNT_IN_RECEIVERSHIP / IN_FLASHLOAN / DISABLED / FROZEN); handler parts that are not about the
    transaction shape (health, balances, signer) are an oracle `orc i : Bool` (may the i-th instruction's
    remaining checks pass), so theorems hold for every behaviour of those parts.

  Program ids and discriminators are small naturals (tables in translator/txlists.py; the harness uses the
  same tables with the REAL keys and discriminator bytes).
-/
import Mfi.Model.Res
import Mfi.Gen.Errors
import Mfi.Gen.TxLists

namespace Mfi.Tx
open Mfi Mfi.Gen

def COMPUTE : Nat := 0
def MRGN : Nat := 1

def D_START_LIQ : Nat := 0
def D_END_LIQ : Nat := 1
def D_START_DELEV : Nat := 2
def D_END_DELEV : Nat := 3
def D_INIT_RECORD : Nat := 4
def D_WITHDRAW : Nat := 5
def D_REPAY : Nat := 6
def D_START_FLASH : Nat := 9
def D_END_FLASH : Nat := 10
def D_TRANSFER : Nat := 20   -- transfer_to_new_account (arg = key of the new account)

structure Ix where
  prog : Nat
  disc : Option Nat      -- none: instruction data shorter than 8 bytes
  acct0 : Option Nat     -- key of the first account meta (the marginfi account for the instructions modelled)
  arg : Nat              -- start_flashloan: end_index; transfer: new account key
  deriving DecidableEq, Repr

def err {α} (c : Nat) : Res α := .error (.err c)

/-- `load_and_validate_instructions(sysvar, Some(allowed))` -/
def programsAllowed : List Ix → Res Unit
  | [] => .ok ()
  | ix :: rest => if TxL.allowedPrograms.contains ix.prog then programsAllowed rest else err E.ForbiddenIx

def isStartOf (d : Nat) (ix : Ix) : Bool := ix.prog == MRGN && ix.disc == some d

/-- the loop of `validate_ix_first`; `enc` = expected_ix_encountered -/
def firstLoop (d : Nat) (wl : List (Nat × Nat)) : Bool → List Ix → Res Unit
  | enc, [] => if enc then .ok () else err E.StartNotFirst
  | enc, ix :: rest =>
    if ix.prog = COMPUTE then firstLoop d wl enc rest
    else match ix.disc with
      | none => err E.StartNotFirst
      | some x =>
        if enc then
          (if ix.prog = MRGN ∧ x = d then err E.StartRepeats else firstLoop d wl true rest)
        else
          (if ix.prog = MRGN ∧ x = d then firstLoop d wl true rest
           else if wl.contains (ix.prog, x) then firstLoop d wl false rest
           else err E.StartNotFirst)

/-- `validate_ix_last` (the list is non-empty: it contains the running instruction) -/
def validateLast (ixs : List Ix) (e : Nat) : Res Unit :=
  match ixs.getLast? with
  | none => .error .panic
  | some l =>
    match l.disc with
    | none => err E.EndNotLast
    | some x => if l.prog ≠ MRGN then err E.EndNotLast else if x ≠ e then err E.EndNotLast else .ok ()

/-- `validate_ixes_exclusive` -/
def exclusiveLoop (allowed : List Nat) : List Ix → Res Unit
  | [] => .ok ()
  | ix :: rest =>
    if ix.prog = MRGN then
      match ix.disc with
      | none => .error .panic
      | some x => if allowed.contains x then exclusiveLoop allowed rest else err E.ForbiddenIx
    else exclusiveLoop allowed rest

def exclusiveList (s e : Nat) : List Nat :=
  (if TxL.exclusiveHasStart then [s] else []) ++ (if TxL.exclusiveHasEnd then [e] else []) ++ TxL.exclusiveExtra

/-- `validate_instructions(sysvar, program_id, start_ix, end_ix)`; `cur` = index of the running top-level
    instruction in the sysvar, `stack` = stack height (1 = top level) -/
def validateInstructions (ixs : List Ix) (cur stack s e : Nat) : Res Unit := do
  programsAllowed ixs
  firstLoop s TxL.firstWhitelist false ixs
  validateLast ixs e
  exclusiveLoop (exclusiveList s e) ixs
  if stack ≠ 1 then err E.NotAllowedInCPI else
  match ixs[cur]? with
  | none => .error (.err 1)
  | some c =>
    if c.prog ≠ MRGN then err E.NotAllowedInCPI
    else if cur < ixs.length - 1 then .ok () else err E.StartNotFirst

structure Flags where
  recv : Bool
  flash : Bool
  disabled : Bool
  frozen : Bool
  deriving DecidableEq, Repr

/-- `check_flashloan_can_start(account, sysvar, end_fl_idx)`; error code 1 = a non-Marginfi ProgramError
    (`load_instruction_at_checked` out of range) -/
def canStartFlashloan (ixs : List Ix) (cur stack endIdx key : Nat) (f : Flags) : Res Unit :=
  match ixs[cur]? with
  | none => .error (.err 1)
  | some c =>
    if c.prog ≠ MRGN then err E.NotAllowedInCPI
    else if ¬ (cur < endIdx) then err E.IllegalFlashloan
    else if stack ≠ 1 then err E.NotAllowedInCPI
    else match ixs[endIdx]? with
      | none => .error (.err 1)
      | some e =>
        match e.disc with
        | none => .error .panic            -- `&data[..8]` on shorter data
        | some x =>
          if x ≠ D_END_FLASH then err E.IllegalFlashloan
          else if e.prog ≠ MRGN then err E.IllegalFlashloan
          else match e.acct0 with
            | none => err E.IllegalFlashloan
            | some k =>
              if k ≠ key then err E.IllegalFlashloan
              else if f.disabled then err E.AccountDisabled
              else if f.flash then err E.IllegalFlashloan
              else if f.recv then err E.ForbiddenIx
              else if f.frozen then err E.AccountFrozen
              else .ok ()

/-! ### what a transaction does to the flags -/

abbrev State := Nat → Flags

def upd (st : State) (k : Nat) (f : Flags) : State := fun j => if j = k then f else st j

def guard (b : Bool) (c : Nat) : Res Unit := if b then .ok () else err c

/-- the i-th top-level instruction `ix` of transaction `ixs`; `orc i` = do the checks that are not about
    the transaction shape (health, signer, balances…) pass -/
def isBracketDisc (d : Nat) : Bool :=
  d == D_START_LIQ || d == D_START_DELEV || d == D_END_LIQ || d == D_END_DELEV || d == D_START_FLASH ||
  d == D_END_FLASH || d == D_TRANSFER

/-- the bracket instructions on account `a` with flags `f` -/
def execBracket (ixs : List Ix) (orc : Nat → Bool) (i : Nat) (ix : Ix) (st : State) (d a : Nat) : Res State :=
  let f := st a
  if d = D_START_LIQ ∨ d = D_START_DELEV then do
    -- account constraint of StartLiquidation / StartDeleverage
    guard (!f.recv && !f.flash && !f.disabled) E.UnexpectedLiquidationState
    guard (orc i) E.HealthyAccount
    validateInstructions ixs i 1 d (if d = D_START_LIQ then D_END_LIQ else D_END_DELEV)
    .ok (upd st a { f with recv := true })
  else if d = D_END_LIQ ∨ d = D_END_DELEV then do
    guard (f.recv && !f.flash && !f.disabled) E.UnexpectedLiquidationState
    guard (orc i) E.WorseHealthPostLiquidation
    .ok (upd st a { f with recv := false })
  else if d = D_START_FLASH then do
    canStartFlashloan ixs i 1 ix.arg a f
    guard (orc i) E.Unauthorized
    .ok (upd st a { f with flash := true })
  else if d = D_END_FLASH then do
    guard (!f.disabled) E.AccountDisabled
    guard (!f.recv) E.ForbiddenIx
    guard (!f.frozen) E.AccountFrozen
    guard (orc i) E.RiskEngineInitRejected    -- the full initial-margin check
    .ok (upd st a { f with flash := false })
  else do
    -- transfer_to_new_account: the new account copies the old flags; the old one is disabled
    guard (!f.flash) E.AccountInFlashloan
    guard (!f.recv) E.ForbiddenIx
    guard (orc i) E.Unauthorized
    .ok (upd (upd st ix.arg f) a { f with disabled := true })

/-- the i-th top-level instruction `ix` of transaction `ixs`; `orc i` = do the checks that are not about
    the transaction shape (health, signer, balances…) pass -/
def exec (ixs : List Ix) (orc : Nat → Bool) (i : Nat) (ix : Ix) (st : State) : Res State :=
  if ix.prog ≠ MRGN then .ok st           -- other programs do not own marginfi accounts
  else match ix.disc with
    | none => err 101                     -- no such instruction (InstructionFallbackNotFound)
    | some d =>
      if isBracketDisc d then
        match ix.acct0 with
        | none => err 3005                -- AccountNotEnoughKeys
        | some a => execBracket ixs orc i ix st d a
      else
        -- every other instruction: may fail, may disable / freeze / unfreeze its account, never touches the
        -- two bracket flags (Mfi.Gen.TxL.flagWrites)
        if orc i then
          match ix.acct0 with
          | none => .ok st
          | some a =>
            let f := st a
            .ok (upd st a { f with disabled := f.disabled || orc (i + 1000003), frozen := f.frozen != orc (i + 2000003) })
        else err E.Unauthorized

def runAux (ixs : List Ix) (orc : Nat → Bool) : List Ix → Nat → State → Res State
  | [], _, st => .ok st
  | ix :: rest, i, st =>
    match exec ixs orc i ix st with
    | .ok st' => runAux ixs orc rest (i + 1) st'
    | .error e => .error e

/-- a whole transaction: all instructions in order; any failure aborts (and nothing is committed) -/
def run (ixs : List Ix) (orc : Nat → Bool) (st : State) : Res State := runAux ixs orc ixs 0 st

end Mfi.Tx
