/-
  C09 — Oracle safety: only fresh, authentic, confident prices, biased conservatively.

  Theorems about Mfi/Model/Risk.lean: adapters (`loadPyth`, `loadSwb`, `loadFixed`, `priceOfType`) are diffed
  against the REAL `OraclePriceFeedAdapter::try_from_bank` + `get_price_of_type` by the `oracle` family
  (account bytes built like the on-chain accounts), valuation against the real risk engine through
  `lending_account_pulse_health` by the `health` family.
-/
import Mfi.Model.Risk
import Mfi.Lemmas.FxL
import Mfi.Lemmas.ResL
import Mfi.Lemmas.SkelL
import Mfi.Gen.Oracles
import Mfi.Model.Integr
import Mfi.Lemmas.ConstL
import Mfi.Lemmas.WorldL
import Mfi.Lemmas.WorldRecvL

namespace Mfi.Props.C09
open Mfi Mfi.Fx Mfi.Risk Mfi.Gen

theorem rmath_ok {α : Type} {o : Option α} {a : α} (h : Risk.math o = .ok a) : o = some a := by
  cases o with
  | none => cases h
  | some x => injection h with h; rw [h]

/-! ### authenticity and freshness -/

/-- **pyth_loaded_iff**: a Pyth push account yields a price feed exactly when it is the configured
    account, owned by the expected program, a PriceUpdateV2, fully verified and not older than the
    bank's maximum age; otherwise loading fails with the specific error. -/
theorem pyth_loaded_iff (a : PythAcct) (now age : Int) (px : Pyth) :
    loadPyth a now age = .pyth px ↔
      (a.ownerOk = true ∧ a.keyOk = true ∧ a.discOk = true ∧ a.fullVerification = true ∧
       satAddI64 a.publishTime (oracleMaxAge age true) ≥ now ∧ px = a.px) := by
  unfold loadPyth
  cases a.ownerOk <;> cases a.keyOk <;> cases a.discOk <;> cases a.fullVerification <;> simp
  · split
    · constructor
      · intro h; injection h with h; exact ⟨by assumption, h.symm⟩
      · intro ⟨_, h⟩; rw [h]
    · constructor
      · intro h; cases h
      · intro ⟨h, _⟩; contradiction

theorem pyth_load_cases (a : PythAcct) (now age : Int) :
    (∃ px, loadPyth a now age = .pyth px) ∨
    loadPyth a now age = .failed E.PythPushWrongAccountOwner ∨ loadPyth a now age = .failed E.WrongOracleAccountKeys ∨
    loadPyth a now age = .failed E.PythPushInvalidAccount ∨
    loadPyth a now age = .failed E.PythPushInsufficientVerificationLevel ∨
    loadPyth a now age = .failed E.PythPushStalePrice := by
  unfold loadPyth
  by_cases h1 : a.ownerOk = true
  · by_cases h2 : a.keyOk = true
    · by_cases h3 : a.discOk = true
      · by_cases h4 : a.fullVerification = true
        · by_cases h5 : satAddI64 a.publishTime (oracleMaxAge age true) ≥ now
          · left; exact ⟨a.px, by simp [h1, h2, h3, h4, h5]⟩
          · right; right; right; right; right; simp [h1, h2, h3, h4, h5]
        · right; right; right; right; left; simp [h1, h2, h3, h4]
      · right; right; right; left; simp [h1, h2, h3]
    · right; right; left; simp [h1, h2]
  · right; left; simp [h1]

/-- staleness boundary: with a publish time in the ordinary range, the feed is fresh iff it is at most
    max-age seconds old -/
theorem pyth_fresh_iff (pub now age : Int) (h1 : -4611686018427387904 ≤ pub) (h2 : pub ≤ 4611686018427387904)
    (h3 : 0 ≤ oracleMaxAge age true) (h4 : oracleMaxAge age true ≤ 65535) :
    (satAddI64 pub (oracleMaxAge age true) ≥ now) ↔ now - pub ≤ oracleMaxAge age true := by
  unfold satAddI64
  simp only
  split
  · omega
  · split <;> omega

theorem swb_loaded_iff (a : SwbAcct) (now age : Int) (v sd : Int) :
    loadSwb a now age = .swb v sd ↔
      (a.keyOk = true ∧ a.ownerOk = true ∧ ¬ (satSubI64 now a.lastUpdate > oracleMaxAge age false) ∧ v = a.value ∧ sd = a.stdDev) := by
  unfold loadSwb
  by_cases h1 : a.keyOk = true
  · by_cases h2 : a.ownerOk = true
    · by_cases h3 : satSubI64 now a.lastUpdate > oracleMaxAge age false
      · simp only [h1, h2, h3, Bool.not_true, Bool.false_eq_true, ↓reduceIte, not_true_eq_false, false_and, and_false, iff_false]
        intro h; cases h
      · simp only [h1, h2, h3, Bool.not_true, Bool.false_eq_true, ↓reduceIte, not_false_eq_true, true_and]
        constructor
        · intro h; injection h with e1 e2; exact ⟨e1.symm, e2.symm⟩
        · intro ⟨e1, e2⟩; rw [e1, e2]
    · simp only [h1, h2, Bool.not_true, Bool.false_eq_true, ↓reduceIte, Bool.not_eq_true, false_and, and_false, iff_false]
      intro h
      have : a.ownerOk = false := by simpa using h2
      simp [this] at h
  · have : a.keyOk = false := by simpa using h1
    simp [this]

/-- a fixed price is usable only when it is not negative -/
theorem fixed_loaded_iff (p q : Int) : loadFixed p = .fixed q ↔ (0 ≤ p ∧ q = p) := by
  unfold loadFixed
  split
  · constructor
    · intro h; injection h with h; exact ⟨by assumption, h.symm⟩
    · intro ⟨_, h⟩; rw [h]
  · constructor
    · intro h; cases h
    · intro ⟨h, _⟩; contradiction

/-- default maximum age: 60 s for Pyth when the bank configures 0 -/
theorem default_age : oracleMaxAge 0 true = 60 ∧ ∀ n, n ≠ 0 → oracleMaxAge n true = n := by
  constructor
  · decide
  · intro n hn; simp [oracleMaxAge, hn]

/-! ### confidence: gate and cap -/

/-- what the confidence gate returns: the interval itself, unless it exceeds 5 % of the price (then
    5 %); it fails when the interval exceeds max-confidence × price; a successful result means the
    price is not negative. -/
theorem confGate_spec {conf price mc ci : Int} (h : confGate conf price mc = .ok ci) :
    0 ≤ ci ∧ ci ≤ conf ∧ ci ≤ price * MAX_CONF_INTERVAL / ONE ∧ (ci = conf ∨ ci = price * MAX_CONF_INTERVAL / ONE) ∧
    0 ≤ price * MAX_CONF_INTERVAL / ONE ∧ 0 ≤ conf := by
  unfold confGate at h
  obtain ⟨a, _, h⟩ := Res.bind_ok h
  obtain ⟨maxc, _, h⟩ := Res.bind_ok h
  split at h
  · cases h
  · obtain ⟨capped, hc, h⟩ := Res.bind_ok h
    obtain ⟨ec, _, _⟩ := mul?_some (rmath_ok hc)
    split at h
    · cases h
    · split at h
      · cases h
      · injection h with h
        rw [← ec]
        have := Int.min_le_left conf capped
        have := Int.min_le_right conf capped
        rcases Int.le_total conf capped with hle | hle
        · rw [Int.min_eq_left hle] at h; omega
        · rw [Int.min_eq_right hle] at h; omega

theorem price_nonneg_of_cap {price : Int} (h : 0 ≤ price * MAX_CONF_INTERVAL / ONE) : 0 ≤ price := by
  by_contra hn
  have hp : price ≤ -1 := by omega
  have hM : (0 : Int) < MAX_CONF_INTERVAL := by decide
  have : price * MAX_CONF_INTERVAL ≤ -1 * MAX_CONF_INTERVAL := Int.mul_le_mul_of_nonneg_right hp (by omega)
  have h2 : price * MAX_CONF_INTERVAL / ONE ≤ (-1 * MAX_CONF_INTERVAL) / ONE := Int.ediv_le_ediv ONE_pos this
  have h3 : (-1 * MAX_CONF_INTERVAL) / ONE = -1 := by decide
  omega

/-- a fixed price ignores type, bias and confidence -/
theorem fixed_price_unbiased (x : Int) (t : PType) (b : Option Bias) (mc : Int) :
    priceOfType (.fixed x) t b mc = .ok x := rfl

/-- **biased_price_spec**: for an oracle feed, a biased price is the unbiased price of the same type minus /
    plus a confidence interval that is non-negative and at most 5 % of the price, and the price is not
    negative. -/
theorem biased_price_spec {f : Feed} {t : PType} {b : Bias} {mc q : Int} (hf : ∀ x, f ≠ .fixed x)
    (h : priceOfType f t (some b) mc = .ok q) :
    ∃ p ci, priceOfType f t none mc = .ok p ∧ 0 ≤ ci ∧ ci ≤ p * MAX_CONF_INTERVAL / ONE ∧ 0 ≤ p ∧
      (match b with | .low => q = p - ci | .high => q = p + ci) := by
  cases f with
  | fixed x => exact absurd rfl (hf x)
  | failed c => simp only [priceOfType, Risk.err] at h; cases h
  | pyth px =>
    simp only [priceOfType] at h
    obtain ⟨p, hp, h⟩ := Res.bind_ok h
    obtain ⟨ci, hci, h⟩ := Res.bind_ok h
    unfold pythConf at hci
    obtain ⟨c0, _, hci⟩ := Res.bind_ok hci
    obtain ⟨c1, _, hci⟩ := Res.bind_ok hci
    obtain ⟨p', hp', hci⟩ := Res.bind_ok hci
    have hpp : p' = p := by
      have e : (if (decide (t = PType.timeWeighted)) = true then px.emaPrice else px.price) =
               (if t = PType.timeWeighted then px.emaPrice else px.price) := by
        by_cases ht : t = PType.timeWeighted <;> simp [ht]
      rw [e] at hp'
      rw [hp] at hp'
      injection hp' with hp'
      exact hp'.symm
    subst hpp
    obtain ⟨g0, _, g2, _, g4, _⟩ := confGate_spec hci
    refine ⟨p', ci, by simp only [priceOfType, hp]; rfl, g0, g2, price_nonneg_of_cap g4, ?_⟩
    cases b with
    | low => simp only [applyBias] at h; exact (sub?_some (rmath_ok h)).1
    | high => simp only [applyBias] at h; exact (add?_some (rmath_ok h)).1
  | swb v sd =>
    simp only [priceOfType] at h
    obtain ⟨p, hp, h⟩ := Res.bind_ok h
    obtain ⟨ci, hci, h⟩ := Res.bind_ok h
    unfold swbConf at hci
    obtain ⟨e0, _, hci⟩ := Res.bind_ok hci
    obtain ⟨s0, _, hci⟩ := Res.bind_ok hci
    obtain ⟨a0, _, hci⟩ := Res.bind_ok hci
    obtain ⟨c1, _, hci⟩ := Res.bind_ok hci
    obtain ⟨p', hp', hci⟩ := Res.bind_ok hci
    have hpp : p' = p := by rw [hp] at hp'; injection hp' with hp'; exact hp'.symm
    subst hpp
    obtain ⟨g0, _, g2, _, g4, _⟩ := confGate_spec hci
    refine ⟨p', ci, by simp only [priceOfType, hp]; rfl, g0, g2, price_nonneg_of_cap g4, ?_⟩
    cases b with
    | low => simp only [applyBias] at h; exact (sub?_some (rmath_ok h)).1
    | high => simp only [applyBias] at h; exact (add?_some (rmath_ok h)).1


/-- **collateral_below_debt_above**: the price used for collateral is at or below the reported price and the
    price used for debt at or above it, and they differ from it by at most 5 %. -/
theorem low_le_price_le_high {f : Feed} {t : PType} {mc lo hi : Int} (hf : ∀ x, f ≠ .fixed x)
    (hl : priceOfType f t (some .low) mc = .ok lo) (hh : priceOfType f t (some .high) mc = .ok hi) :
    ∃ p, priceOfType f t none mc = .ok p ∧ 0 ≤ p ∧ lo ≤ p ∧ p ≤ hi ∧
      p - p * MAX_CONF_INTERVAL / ONE ≤ lo ∧ hi ≤ p + p * MAX_CONF_INTERVAL / ONE ∧ 0 ≤ lo := by
  obtain ⟨p, c1, e1, a1, b1, p0, q1⟩ := biased_price_spec hf hl
  obtain ⟨p2, c2, e2, a2, b2, _, q2⟩ := biased_price_spec hf hh
  rw [e1] at e2
  injection e2 with e2
  subst e2
  simp only at q1 q2
  have hM : p * MAX_CONF_INTERVAL / ONE ≤ p := by
    have h1 : p * MAX_CONF_INTERVAL ≤ p * ONE := Int.mul_le_mul_of_nonneg_left (by decide) p0
    have h2 : p * MAX_CONF_INTERVAL / ONE ≤ p * ONE / ONE := Int.ediv_le_ediv ONE_pos h1
    rwa [Int.mul_ediv_cancel _ (by decide : ONE ≠ 0)] at h2
  exact ⟨p, e1, p0, by omega, by omega, by omega, by omega, by omega⟩

/-! ### a bad oracle never prices debt, and never adds collateral for borrowing -/

/-- every valuation of a debt whose oracle failed to load fails, with the loader's error -/
theorem failed_oracle_debt_fails (p : Pos) (r : Req) (c : Nat) (hf : p.feed = .failed c) :
    weightedLiab p r = .error (.err c) := by
  unfold weightedLiab
  simp [hf, Risk.err]

/-- for borrowing purposes (initial requirement) collateral whose oracle failed counts as worth nothing -/
theorem failed_oracle_collateral_worth_nothing (p : Pos) (em : List Entry) (c : Nat) (hf : p.feed = .failed c) :
    ∃ c', weightedAsset p .initial em = .ok (0, 0, c') := by
  unfold weightedAsset
  cases ht : p.bank.tier with
  | isolated => exact ⟨0, by simp [ht]⟩
  | collateral =>
    by_cases hro : p.bank.reduceOnly = true
    · exact ⟨0, by simp [ht, hro]⟩
    · exact ⟨c, by simp [ht, hro, hf]⟩

/-- for liquidation (maintenance) and bankruptcy (equity) assessments a failed collateral oracle is an error -/
theorem failed_oracle_collateral_blocks_assessment (p : Pos) (em : List Entry) (c : Nat) (r : Req)
    (hf : p.feed = .failed c) (hr : r ≠ .initial) (ht : p.bank.tier = .collateral) :
    weightedAsset p r em = .error (.err c) := by
  unfold weightedAsset
  cases r with
  | initial => exact absurd rfl hr
  | maint => simp [ht, hf, Risk.err]
  | equity => simp [ht, hf, Risk.err]

theorem compsLoop_fails {r : Req} {em : List Entry} (p : Pos) :
    ∀ (ps : List Pos) (i : Nat) (acc : Comps), p ∈ ps → (∃ f, weightedValue p r em = .error f) →
      ∃ f, (compsLoop r em ps i acc).2 = some f := by
  intro ps
  induction ps with
  | nil => intro _ _ h; cases h
  | cons q rest ih =>
    intro i acc hmem hfail
    unfold compsLoop
    cases hq : weightedValue q r em with
    | error f => exact ⟨f, rfl⟩
    | ok v =>
      obtain ⟨av, lv, pr, c⟩ := v
      simp only
      rcases List.mem_cons.mp hmem with rfl | hmem
      · obtain ⟨f, hf⟩ := hfail
        rw [hq] at hf; cases hf
      · cases add? (if c ≠ 0 ∧ acc.errIdx.isNone = true then { acc with errIdx := some i, errCode := c } else acc).assets av <;>
        cases add? (if c ≠ 0 ∧ acc.errIdx.isNone = true then { acc with errIdx := some i, errCode := c } else acc).liabs lv
        · exact ⟨_, rfl⟩
        · exact ⟨_, rfl⟩
        · exact ⟨_, rfl⟩
        · exact ih _ _ hmem hfail

/-- **bad_debt_oracle_blocks_everything**: if the oracle of any position that carries a debt (one unit or
    more) fails to load — stale, wrong key, wrong owner, unverified, too uncertain — then the initial check,
    the liquidation pre-condition and the bankruptcy assessment ALL fail: nothing is decided on a guess. -/
theorem bad_debt_oracle_blocks_everything (ps : List Pos) (p : Pos) (c : Nat) (hmem : p ∈ ps)
    (hside : getSide p = .ok (some .liabs)) (hf : p.feed = .failed c) :
    (∀ r, ∃ f, components ps r = .error f) ∧
    (∃ f, checkInitHealth ps = .error f) ∧ (∀ ig, ∃ f, preLiquidation ps ig = .error f) ∧
    (∃ f, checkBankrupt ps = .error f) := by
  have hall : ∀ r, ∃ f, components ps r = .error f := by
    intro r
    have hv : ∃ f, weightedValue p r (accountEmode ps) = .error f := by
      refine ⟨.err c, ?_⟩
      unfold weightedValue
      rw [hside]
      simp only [bind, Except.bind]
      rw [failed_oracle_debt_fails p r c hf]
    obtain ⟨f, hf'⟩ := compsLoop_fails p ps 0 { assets := 0, liabs := 0, errIdx := none, errCode := 0 } hmem hv
    refine ⟨f, ?_⟩
    unfold components componentsP
    cases hc : compsLoop r (accountEmode ps) ps 0 { assets := 0, liabs := 0, errIdx := none, errCode := 0 } with
    | mk cc ff =>
      rw [hc] at hf'
      simp only at hf'
      subst hf'
      rfl
  refine ⟨hall, ?_, ?_, ?_⟩
  · obtain ⟨f, hf'⟩ := hall .initial
    exact ⟨f, by unfold checkInitHealth; rw [hf']; rfl⟩
  · intro ig
    obtain ⟨f, hf'⟩ := hall .maint
    exact ⟨f, by unfold preLiquidation; rw [hf']; rfl⟩
  · obtain ⟨f, hf'⟩ := hall .equity
    exact ⟨f, by unfold checkBankrupt; rw [hf']; rfl⟩

/-! ### zero or negative prices never size a liquidation or a seizure (handler skeletons, regenerated) -/

section tables
open Mfi.Gen.Skel

/-- classic liquidation checks `asset_price > 0` and `liab_price > 0` before any balance moves; the four
    withdraw handlers (the receivership seizure path) check `price > 0` before their wrapper operation -/
theorem positive_price_before_seizure :
    occursBefore liquidate (· == .zeroAssetPriceCheck) isOp = true ∧
    occursBefore liquidate (· == .zeroLiabPriceCheck) isOp = true ∧
    (∀ l ∈ [withdraw, kamino_withdraw, drift_withdraw, solend_withdraw],
      occursBefore l (· == .zeroAssetPriceCheck) isOp = true) := by decide

/-- in the classic liquidation both positive-price checks run on every path (conditional depth 0) -/
theorem liquidation_price_checks_unconditional :
    unconditionally liquidate liquidate_cond (· == .zeroAssetPriceCheck) = true ∧
    unconditionally liquidate liquidate_cond (· == .zeroLiabPriceCheck) = true := by decide

/-- `b` occurs in `l` with `a` as the event right before it -/
def rightAfter (l : List Ev) (a b : Ev) : Bool := (l.zip l.tail).any fun p => p.1 == a && p.2 == b

/-- **the seizure path is the receivership path**: in each of the four withdraw handlers the positive-price check sits
    in a branch (`cond` depth 1) opened right after the read of the ACCOUNT_IN_RECEIVERSHIP flag — the flag every
    third-party bracket (liquidation AND deleverage) sets — and of no narrower flag; the flag is read exactly there
    and once more for the skipped health check. -/
theorem seizure_price_check_on_every_receivership_withdraw :
    (∀ l ∈ [withdraw, kamino_withdraw, drift_withdraw, solend_withdraw],
      rightAfter l (.acctFlag .inReceivership) .zeroAssetPriceCheck = true ∧
      (l.filter (· == .zeroAssetPriceCheck)).length = 1) ∧
    (∀ p ∈ [(withdraw, withdraw_cond), (kamino_withdraw, kamino_withdraw_cond), (drift_withdraw, drift_withdraw_cond),
            (solend_withdraw, solend_withdraw_cond)],
      p.1.length = p.2.length ∧
      (p.1.zip p.2).all (fun q => q.1 != .zeroAssetPriceCheck || q.2 == 1) = true) := by decide

end tables

/-! ### every oracle kind binds every account it reads (adapter arms regenerated from state/price.rs) -/

section arms
open Mfi.Gen.Ora

def isLoad : OEv → Bool
  | .loadPyth _ | .loadSwb _ => true
  | _ => false

def firstLoad (l : List OEv) : Nat := (l.findIdx? isLoad).getD l.length

def declaredLen (l : List OEv) : Option Nat := l.findSome? fun | .lenCheck n => some n | _ => none

/-- index of the first occurrence of an event -/
def at? (l : List OEv) (e : OEv) : Option Nat := l.findIdx? (· == e)

def before (l : List OEv) (e : OEv) (k : Nat) : Bool := match at? l e with | some i => decide (i < k) | none => false

/-- an arm that produces a price -/
def pricing (l : List OEv) : Bool := l.any isLoad || l.contains .fixedNonNegCheck

/-- **the arms are all there**: 13 oracle setups; `None` refuses, the two deprecated ones abort -/
theorem arms_complete :
    arms.length = 13 ∧ arm_None = [.notSetup] ∧ arm_PythLegacy = [.deprecatedPanic] ∧ arm_SwitchboardV2 = [.deprecatedPanic] ∧
    (arms.filter fun a => pricing a.2).length = 10 := by decide

/-- **every_account_bound**: every pricing arm first fixes the number of accounts, and every one of those accounts
    is compared with the bank's configured key at its own index before any price is loaded (exact oracle account
    configured for the bank — for venue-backed banks also the reserve / spot market / stake accounts) -/
theorem every_account_bound :
    ∀ a ∈ arms, pricing a.2 = true →
      a.2.head? = (declaredLen a.2).map OEv.lenCheck ∧
      (match declaredLen a.2 with
       | some n => (List.range n).all fun i => before a.2 (.keyCheck i) (firstLoad a.2)
       | none => false) = true := by decide

/-- **pyth_owner_checked**: a Pyth price account is loaded only after its owner was compared with the receiver program -/
theorem pyth_owner_checked :
    ∀ a ∈ arms, (∀ i, a.2.contains (.loadPyth i) = true → i = 0 ∧ before a.2 .pythOwnerCheck (firstLoad a.2) = true) := by
  intro a ha i
  have : ∀ a ∈ arms, ∀ i ∈ [0, 1, 2, 9], a.2.contains (.loadPyth i) = true → i = 0 ∧ before a.2 .pythOwnerCheck (firstLoad a.2) = true := by decide
  intro h
  have hi : i ∈ [0, 1, 2, 9] := by
    have : ∀ a ∈ arms, ∀ e ∈ a.2, (match e with | .loadPyth j => decide (j ∈ [0, 1, 2, 9]) | _ => true) = true := by decide
    have he := List.contains_iff_mem.1 h
    have := this a ha _ he
    simpa using this
  exact this a ha i hi h

/-- **venue_fresh**: venue-backed arms (Kamino / Drift / Solend) load the venue account through the owner- and
    discriminator-checking loader after its key check, test its staleness next, and only then load the price -/
theorem venue_fresh :
    ∀ a ∈ arms, a.2.any (fun | .venueLoader _ => true | _ => false) = true →
      (match at? a.2 (.keyCheck 1), at? a.2 (.venueLoader 1), a.2.findIdx? (fun | .venueStaleCheck _ => true | _ => false) with
       | some k, some l, some s => decide (k < l ∧ l < s ∧ s < firstLoad a.2)
       | _, _, _ => false) = true := by decide

/-- … and the staleness test is made against the right clock: Kamino reserves against the current slot, Drift spot
    markets against the current unix time, Solend reserves against the Clock sysvar (slot) read by the callee -/
theorem venue_clock :
    (arms.filterMap fun a => (a.2.findSome? fun | .venueStaleCheck c => some c | _ => none).map fun c => (a.1, c)) =
      [(.sDriftPythPull, .unixTs), (.sDriftSwitchboardPull, .unixTs), (.sKaminoPythPush, .slot), (.sKaminoSwitchboardPull, .slot),
       (.sSolendPythPull, .sysvar), (.sSolendSwitchboardPull, .sysvar)] := by decide

/-- the venue-backed arms are exactly the six Kamino / Drift / Solend ones -/
theorem venue_arms :
    (arms.filter fun a => a.2.any (fun | .venueLoader _ => true | _ => false)).map (·.1) =
      [.sDriftPythPull, .sDriftSwitchboardPull, .sKaminoPythPush, .sKaminoSwitchboardPull, .sSolendPythPull, .sSolendSwitchboardPull] := by decide

/-- **adjust_complete**: exchange-rate adjustment happens after the load and covers price AND confidence
    (Pyth: spot, EMA and both confidences; Switchboard: value and standard deviation), so the confidence band
    keeps its proportion to the price -/
theorem adjust_complete :
    ∀ a ∈ arms, a.2.any (fun | .venueLoader _ => true | _ => false) = true →
      (if a.2.any (fun | .loadPyth _ => true | _ => false)
       then (a.2.drop (firstLoad a.2 + 1)) = [.adjust .spot, .adjust .ema, .adjust .spotConf, .adjust .emaConf]
       else (a.2.drop (firstLoad a.2 + 1)) = [.adjust .spot, .adjust .spotConf]) := by decide

/-- a fixed price is checked non-negative; the staked variant refuses an empty stake pool before dividing by its supply -/
theorem fixed_and_staked :
    arm_Fixed = [.lenCheck 0, .fixedNonNegCheck] ∧
    before arm_StakedWithPythPush .supplyPositiveCheck (firstLoad arm_StakedWithPythPush) = true ∧
    arm_StakedWithPythPush.drop (firstLoad arm_StakedWithPythPush + 1) = [.adjust .spot, .adjust .ema] := by decide

end arms

/-! ### the staked-collateral re-scaling (the arithmetic between the load and the price of `arm_StakedWithPythPush`) -/

section staked
open Mfi.Integr

theorem tdiv_floor_of_nonneg {a b : Int} (ha : 0 ≤ a) (hb : 0 < b) :
    0 ≤ Int.tdiv a b ∧ Int.tdiv a b * b ≤ a ∧ a < (Int.tdiv a b + 1) * b := by
  rw [Int.tdiv_eq_ediv_of_nonneg ha]
  exact ⟨Int.ediv_nonneg ha (by omega), Int.ediv_mul_le a (by omega), Int.lt_ediv_add_one_mul_self a hb⟩

theorem tdiv_nonpos_of_nonpos {a b : Int} (ha : a ≤ 0) (hb : 0 < b) : Int.tdiv a b ≤ 0 := by
  have := Int.tdiv_nonneg (a := -a) (b := b) (by omega) (by omega)
  rw [Int.neg_tdiv] at this; omega

/-- one re-scaled component: never above `x × (stake − 1 SOL) / supply` (exact), short of it by less than one
    unit of the feed, and a zero or negative `x` never comes out positive -/
def StakedComp (x stake supply r : Int) : Prop :=
  (0 ≤ x → 0 ≤ r ∧ r * supply ≤ x * (stake - LAMPORTS_PER_SOL) ∧ x * (stake - LAMPORTS_PER_SOL) < (r + 1) * supply) ∧
  (x ≤ 0 → r ≤ 0)

/-- **staked_never_overstates**: whenever the staked re-scaling produces prices, the pool has a positive token
    supply and at least its non-refundable first SOL, and BOTH the spot and the time-weighted price are the SOL
    price times (stake − 1 SOL)/supply rounded toward zero: at or below the exact product for a non-negative
    price, and never positive for a zero or negative one. -/
theorem staked_never_overstates {price ema stake supply p e : Int} (hsup : 0 ≤ supply)
    (h : stakedAdjust price ema stake supply = .ok p e) :
    0 < supply ∧ LAMPORTS_PER_SOL ≤ stake ∧ StakedComp price stake supply p ∧ StakedComp ema stake supply e ∧
    I64MIN ≤ p ∧ p ≤ I64MAX ∧ I64MIN ≤ e ∧ e ≤ I64MAX := by
  unfold stakedAdjust at h
  split at h
  · cases h
  split at h
  · cases h
  rename_i hs0 hst
  simp only at h
  split at h
  · cases h
  split at h
  · cases h
  rename_i hp he
  injection h with h1 h2
  subst h1; subst h2
  have hpos : 0 < supply := by omega
  have hadj : 0 ≤ stake - LAMPORTS_PER_SOL := by omega
  refine ⟨hpos, by omega, ⟨fun hx => ?_, fun hx => ?_⟩, ⟨fun hx => ?_, fun hx => ?_⟩, by omega, by omega, by omega, by omega⟩
  · exact tdiv_floor_of_nonneg (Int.mul_nonneg hx hadj) hpos
  · exact tdiv_nonpos_of_nonpos (Int.mul_nonpos_of_nonpos_of_nonneg hx hadj) hpos
  · exact tdiv_floor_of_nonneg (Int.mul_nonneg hx hadj) hpos
  · exact tdiv_nonpos_of_nonpos (Int.mul_nonpos_of_nonpos_of_nonneg hx hadj) hpos

/-- the refusals: an empty pool token supply, and a pool below its first SOL, produce no price -/
theorem staked_refusals (price ema stake supply : Int) :
    (supply = 0 → stakedAdjust price ema stake supply = .zeroSupply) ∧
    (supply ≠ 0 → stake < LAMPORTS_PER_SOL → stakedAdjust price ema stake supply = .math) := by
  constructor
  · intro h; simp [stakedAdjust, h]
  · intro h1 h2; simp [stakedAdjust, h1, h2]

/-- (non-vacuity) a pool of 1 + 1050 SOL behind 1000 pool tokens prices the token at 1.05 SOL -/
example : stakedAdjust 150000000 149000000 1051000000000 1000000000000 = .ok 157500000 156450000 := by decide

end staked

/-! ### non-vacuity -/

def demoPyth : Pyth := { price := 100000000, conf := 100000, emaPrice := 99000000, emaConf := 90000, expo := -6 }

example : priceOfType (.pyth demoPyth) .realTime none 0 = .ok (100 * ONE) := by decide
example : ∃ lo, priceOfType (.pyth demoPyth) .realTime (some .low) 0 = .ok lo ∧ lo < 100 * ONE ∧ 99 * ONE < lo :=
  ⟨_, by rfl, by decide, by decide⟩

/-! ### the numbers of the property text (constants regenerated from the real crates on every run) -/

/-- "scaled to a 95 % interval" = 2.12 standard deviations, "capped at 5 % of the price" — both to the last bit -/
theorem confidence_numbers :
    (Mfi.Gen.CONF_INTERVAL_MULTIPLE * 100 - 212 * ONE).natAbs < 100 ∧ (Mfi.Gen.MAX_CONF_INTERVAL * 20 - ONE).natAbs < 20 := by decide

/-- Pyth price components are scaled by the row of the table chosen by the feed's exponent: that table is exactly the powers of ten 10^0 .. 10^23 as I80F48 (regenerated from the real
    constants on every run; the model computes its own powers of ten and is diffed against the real functions across
    ALL 24 decimals) -/
theorem scaling_table_is_powers_of_ten : Mfi.Gen.EXP_10_I80F48 = Mfi.Fx.POW10FX := Mfi.ConstL.exp10_table_exact

/-- the Switchboard deviation is scaled to a 95 % interval too (1.96 standard deviations), the default maximum
    confidence is a tenth of the price (u32 scale), the default maximum age one minute -/
theorem switchboard_and_default_numbers :
    (Mfi.Gen.STD_DEV_MULTIPLE * 100 - 196 * ONE).natAbs < 100 ∧
    Mfi.Gen.U32_MAX_FX = 4294967295 * ONE ∧ (Mfi.Gen.U32_MAX_DIV_10_FX * 10 - Mfi.Gen.U32_MAX_FX).natAbs < 10 * ONE ∧
    Mfi.Gen.MAX_PYTH_ORACLE_AGE = 60 := by decide

section whole_instructions
open Mfi Mfi.World Mfi.Gen

/-! ### whole instructions (Mfi/Model/World.lean): no collateral leaves an account in receivership at a zero or negative price -/

/-- **world_receivership_withdraw_needs_positive_price**: a withdrawal from an account in receivership (a liquidator's or the
    risk admin's seizure) goes through only when the real-time, LOW-biased price of the withdrawn bank — taken from the feed the
    risk engine was handed for THAT bank, within the bank's own confidence bound — is defined and strictly positive -/
theorem world_receivership_withdraw_needs_positive_price {c : Ctx} {amt : Int} {all : Bool} {o : Out}
    (h : World.withdraw c amt all = .ok o) (hr : flag c ACCOUNT_IN_RECEIVERSHIP = true) :
    ∃ rb p, c.risk.find? (·.key == c.b.key) = some rb ∧
      Mfi.Risk.priceOfType rb.feed .realTime (some .low) rb.r.maxConf = .ok p ∧ 0 < p := by
  obtain ⟨price, b, i, s, x', pre, hp, _⟩ := (withdraw_ok h).core
  unfold withdrawPrice at hp
  rw [hr] at hp
  simp only [if_true] at hp
  unfold receivershipPrice at hp
  cases hf : c.risk.find? (·.key == c.b.key) with
  | none => rw [hf] at hp; cases hp
  | some rb =>
    rw [hf] at hp
    obtain ⟨p, hpp, hp⟩ := Res.bind_ok hp
    split at hp
    · rename_i hpos
      exact ⟨rb, p, rfl, hpp, hpos⟩
    · cases hp

/-- … and outside receivership the withdrawal is not metered by any price (the initial-margin check that follows values the
    whole portfolio with the engine's own fail-closed rules: C04) -/
theorem world_plain_withdraw_fetches_no_price {c : Ctx} (hr : flag c ACCOUNT_IN_RECEIVERSHIP = false) : withdrawPrice c = .ok 0 := by
  unfold withdrawPrice; rw [hr]; rfl

/-- **world_tx_every_seizure_is_priced**: in a COMMITTED transaction of the world machine (begun with no account in receivership),
    every withdrawal from an account that was in receivership when it ran — i.e. every seizure, by a liquidator or by the risk
    admin — sits strictly inside that account's own bracket AND was made at a defined, strictly positive real-time low-biased price
    of the withdrawn bank. No collateral is seized at a zero, negative or unusable price, in any transaction. -/
theorem world_tx_every_seizure_is_priced {w w' : WState} {tx : List TOp} (h : w.runTx tx = some w')
    (h0 : ∀ (k : Nat) (a : AcctV), w.accts[k]? = some a → inRecv a = false)
    {i ai bi signer : Nat} {amount vault : Int} {all : Bool} (hi : tx[i]? = some (.ix (.withdraw ai bi signer amount all vault))) :
    ∃ (wi : WState) (a : AcctV) (b : WBank), w.before tx i = some wi ∧ wi.accts[ai]? = some a ∧ wi.banks[bi]? = some b ∧
      (inRecv a = true →
        (AnyBracket tx ai ∧ 0 < i ∧ i + 1 < tx.length) ∧
        ∃ rb p, (wi.ctx a b signer b.v.liquidityVault vault).risk.find? (·.key == b.v.key) = some rb ∧
          Mfi.Risk.priceOfType rb.feed .realTime (some .low) rb.r.maxConf = .ok p ∧ 0 < p) := by
  obtain ⟨wi, a, b, o, hbef, ha, hb, ho, hbr⟩ := tx_withdraw_in_bracket h h0 hi
  refine ⟨wi, a, b, hbef, ha, hb, ?_⟩
  intro hr
  refine ⟨hbr hr, ?_⟩
  exact world_receivership_withdraw_needs_positive_price ho hr

end whole_instructions

end Mfi.Props.C09
