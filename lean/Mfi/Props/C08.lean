/-
  C08 — Authorization: only the entitled signer can act on an account, bank or group.
  Theorems by `decide` over the account-constraint table REGENERATED from the `#[derive(Accounts)]`
  structs on every run, plus theorems about the model of the signer rule (`is_signer_authorized`,
  `account_not_frozen_for_authority`). What a constraint MEANS (that `has_one = group` rejects a
  foreign group, that `Signer` requires a signature, PDA `seeds` checks) is Anchor's behaviour: it is
  exercised through real dispatch by the C08 monitor (signer × substitution matrix).
-/
import Mfi.Lemmas.AccL
import Mfi.Model.Auth
import Mfi.Props.C09
import Mfi.Lemmas.WorldL
import Mfi.Lemmas.WorldRecvL

namespace Mfi.Props.C08
open Mfi.Gen.Acc Mfi.Auth

/-! ### the signer rule -/

/-- **signer_rule**: the two constraints together admit exactly: the authority of an unfrozen account;
    the group admin of a frozen account (never its authority, unless the authority IS the admin —
    then `AccountFrozen` wins); anyone while the account is in receivership, if the instruction allows it. -/
theorem signer_rule (a : AcctView) (admin signer : Nat) (allowR : Bool) :
    (isSignerAuthorized a admin signer allowR && notFrozenForAuthority a signer) = true ↔
      ((allowR = true ∧ a.inReceivership = true ∧ ¬ (a.frozen = true ∧ a.authority = signer)) ∨
       (¬ (allowR = true ∧ a.inReceivership = true) ∧ a.frozen = false ∧ a.authority = signer) ∨
       (¬ (allowR = true ∧ a.inReceivership = true) ∧ a.frozen = true ∧ admin = signer ∧ a.authority ≠ signer)) := by
  obtain ⟨au, fr, rc⟩ := a
  cases allowR <;> cases fr <;> cases rc <;> simp [isSignerAuthorized, notFrozenForAuthority] <;> omega

/-! ### user instructions -/

/-- instructions that act on a margin account under the signer rule, with the account field and
    whether receivership lets a third party in -/
def userOps : List (S × F × Bool) :=
  [(.LendingAccountDeposit, .f_marginfi_account, false), (.LendingAccountBorrow, .f_marginfi_account, false),
   (.LendingAccountWithdraw, .f_marginfi_account, true), (.LendingAccountRepay, .f_marginfi_account, true),
   (.LendingAccountCloseBalance, .f_marginfi_account, false), (.LendingAccountWithdrawEmissions, .f_marginfi_account, false),
   (.LendingAccountLiquidate, .f_liquidator_marginfi_account, false),
   (.TransferToNewAccount, .f_old_marginfi_account, false), (.TransferToNewAccountPda, .f_old_marginfi_account, false),
   (.KaminoDeposit, .f_marginfi_account, false), (.KaminoWithdraw, .f_marginfi_account, true),
   (.DriftDeposit, .f_marginfi_account, false), (.DriftWithdraw, .f_marginfi_account, true),
   (.SolendDeposit, .f_marginfi_account, false), (.SolendWithdraw, .f_marginfi_account, true)]

/-- **account_ops_need_entitled_signer**: each of them carries BOTH signer-rule constraints against a
    `Signer` account; receivership admits third parties only for withdraw / repay / integration withdraws. -/
theorem account_ops_need_entitled_signer :
    ∀ x ∈ userOps,
      hasCons x.1 x.2.1 (.signerAuth x.2.1 .f_authority x.2.2) = true ∧
      hasCons x.1 x.2.1 (.notFrozen x.2.1 .f_authority) = true ∧
      isSigner x.1 .f_authority = true ∧ hasOneOf x.1 x.2.1 .f_group = true := by decide

/-- instructions bound to the account authority by `has_one = authority` (no admin / receivership path) -/
theorem authority_only_ops :
    ∀ s ∈ [S.MarginfiAccountClose, .LendingAccountStartFlashloan, .LendingAccountEndFlashloan,
           .MarginfiAccountUpdateEmissionsDestinationAccount],
      hasOneOf s .f_marginfi_account .f_authority = true ∧ isSigner s .f_authority = true := by decide

/-- every other struct with a mutable margin account is one of the explicitly named special cases:
    liquidation / bankruptcy of a qualifying account, the receivership brackets (record-bound), admin
    freeze, risk-admin purge/deleverage, and the permissionless accounting cranks. -/
theorem mutable_account_structs_classified :
    ∀ s ∈ allStructs, (fields s).any (fun f => f.ty == .loader .marginfiAccount && f.isMut) = true →
      (s ∈ userOps.map (·.1) ∨
       s ∈ [.MarginfiAccountClose, .LendingAccountStartFlashloan, .LendingAccountEndFlashloan,
            .MarginfiAccountUpdateEmissionsDestinationAccount] ∨
       s ∈ [.LendingPoolHandleBankruptcy, .StartLiquidation, .EndLiquidation, .StartDeleverage, .EndDeleverage,
            .InitLiquidationRecord, .SetAccountFreeze, .LendingAccountPurgeDelevBalance, .PulseHealth,
            .LendingAccountSettleEmissions, .LendingAccountWithdrawEmissionsPermissionless]) := by decide

/-! ### administrative instructions: each names exactly one role, which must sign -/

/-- (struct, account that stores the role, role field) -/
def adminOps : List (S × F × F) :=
  [(.LendingPoolConfigureBank, .f_group, .f_admin), (.LendingPoolConfigureBankOracle, .f_group, .f_admin),
   (.LendingPoolSetFixedOraclePrice, .f_group, .f_admin), (.LendingPoolCloseBank, .f_group, .f_admin),
   (.LendingPoolAddBank, .f_marginfi_group, .f_admin), (.LendingPoolAddBankWithSeed, .f_marginfi_group, .f_admin),
   (.LendingPoolCloneBank, .f_marginfi_group, .f_admin),
   (.LendingPoolAddBankKamino, .f_group, .f_admin), (.LendingPoolAddBankDrift, .f_group, .f_admin),
   (.LendingPoolAddBankSolend, .f_group, .f_admin),
   (.LendingPoolWithdrawFees, .f_group, .f_admin), (.LendingPoolWithdrawInsurance, .f_group, .f_admin),
   (.LendingPoolUpdateFeesDestinationAccount, .f_group, .f_admin),
   (.MarginfiGroupConfigure, .f_marginfi_group, .f_admin), (.ConfigureDeleverageWithdrawalLimit, .f_marginfi_group, .f_admin),
   (.InitStakedSettings, .f_marginfi_group, .f_admin), (.EditStakedSettings, .f_marginfi_group, .f_admin),
   (.LendingPoolConfigureBankInterestOnly, .f_group, .f_delegate_curve_admin),
   (.LendingPoolConfigureBankLimitsOnly, .f_group, .f_delegate_limit_admin),
   (.LendingPoolConfigureBankEmode, .f_group, .f_emode_admin),
   (.LendingPoolSetupEmissions, .f_group, .f_delegate_emissions_admin),
   (.LendingPoolUpdateEmissionsParameters, .f_group, .f_delegate_emissions_admin),
   (.LendingPoolForceTokenlessRepayComplete, .f_group, .f_risk_admin),
   (.LendingAccountPurgeDelevBalance, .f_group, .f_risk_admin),
   (.StartDeleverage, .f_group, .f_risk_admin), (.EndDeleverage, .f_group, .f_risk_admin),
   (.WriteBankMetadata, .f_group, .f_metadata_admin),
   (.EditFeeState, .f_fee_state, .f_global_fee_admin), (.ConfigGroupFee, .f_fee_state, .f_global_fee_admin),
   (.PanicPause, .f_fee_state, .f_global_fee_admin), (.PanicUnpause, .f_fee_state, .f_global_fee_admin)]

/-- **admin_ix_role**: `has_one = <role>` on the account that stores the role, and the role account is a `Signer` -/
theorem admin_ix_role :
    ∀ x ∈ adminOps, hasOneOf x.1 x.2.1 x.2.2 = true ∧ isSigner x.1 x.2.2 = true := by decide

/-- the freeze toggle is bound to the group admin by an explicit key equality -/
theorem freeze_needs_group_admin :
    hasCons .SetAccountFreeze .f_admin (.adminEq .f_group .f_admin) = true ∧ isSigner .SetAccountFreeze .f_admin = true ∧
    hasOneOf .SetAccountFreeze .f_marginfi_account .f_group = true := by decide

/-! ### no foreign substitution -/

def groupish (f : F) : Bool := f == .f_group || f == .f_marginfi_group

/-- **banks are bound to the instruction's group**: every existing (non-`init`) bank account in every
    struct carries `has_one = group`, except the named single-bank permissionless cranks. -/
theorem banks_bound_to_group :
    ∀ s ∈ allStructs, ∀ f ∈ fields s, f.ty = .loader .bank → f.isInit = false →
      (f.hasOne.any groupish = true ∨
       s ∈ [.MigrateCurve, .InitBankMetadata, .LendingAccountSettleEmissions, .PropagateStakedSettings,
            .KaminoHarvestReward, .KaminoInitObligation, .SolendInitObligation, .DriftHarvestReward, .DriftInitUser]) := by
  decide

/-- **margin accounts are bound to the instruction's group** wherever a group or bank is involved -/
theorem accounts_bound_to_group :
    ∀ s ∈ allStructs, ∀ f ∈ fields s, f.ty = .loader .marginfiAccount → f.isInit = false →
      (f.hasOne.any groupish = true ∨
       s ∈ [.MarginfiAccountClose, .LendingAccountSettleEmissions, .MarginfiAccountUpdateEmissionsDestinationAccount,
            .LendingAccountStartFlashloan, .LendingAccountEndFlashloan, .InitLiquidationRecord, .StartLiquidation,
            .EndLiquidation, .PulseHealth]) := by
  decide

/-- **vaults are bound to the bank**: in every fund-moving struct each vault token account is either a
    PDA checked by `seeds` (over the bank key) or named by the bank's `has_one`; vault authorities are PDAs. -/
theorem vaults_bound_to_bank :
    ∀ s ∈ allStructs, ∀ f ∈ fields s, f.isInit = false →
      (f.name = .f_liquidity_vault ∨ f.name = .f_insurance_vault ∨ f.name = .f_fee_vault) →
      (f.hasSeeds = true ∨ hasOneOf s .f_bank f.name = true ∨ hasOneOf s .f_liab_bank f.name = true) := by
  decide

theorem vault_authorities_are_pdas :
    ∀ s ∈ allStructs, ∀ f ∈ fields s,
      (f.name = .f_liquidity_vault_authority ∨ f.name = .f_insurance_vault_authority ∨ f.name = .f_fee_vault_authority ∨
       f.name = .f_bank_liquidity_vault_authority) → f.hasSeeds = true := by
  decide

/-- the fee state is always the program's singleton PDA -/
theorem fee_state_is_pda :
    ∀ s ∈ allStructs, ∀ f ∈ fields s, f.ty = .loader .feeState → f.hasSeeds = true := by decide

/-- **oracle substitution**: in every pricing arm of the oracle adapter (regenerated from state/price.rs) the number
    of accounts is fixed first and EVERY account — price feed, venue reserve / spot market, pool-token mint, stake
    account — is compared with the key the bank has configured at that index before anything is loaded from it; a Pyth
    account additionally has its owner compared with the receiver program (C09.every_account_bound / pyth_owner_checked). -/
theorem oracle_accounts_bound :
    (∀ a ∈ Mfi.Gen.Ora.arms, Mfi.Props.C09.pricing a.2 = true →
      a.2.head? = (Mfi.Props.C09.declaredLen a.2).map Mfi.Gen.Ora.OEv.lenCheck ∧
      (match Mfi.Props.C09.declaredLen a.2 with
       | some n => (List.range n).all fun i => Mfi.Props.C09.before a.2 (.keyCheck i) (Mfi.Props.C09.firstLoad a.2)
       | none => false) = true) ∧
    (∀ a ∈ Mfi.Gen.Ora.arms, ∀ i, a.2.contains (.loadPyth i) = true →
      i = 0 ∧ Mfi.Props.C09.before a.2 .pythOwnerCheck (Mfi.Props.C09.firstLoad a.2) = true) :=
  ⟨Mfi.Props.C09.every_account_bound, Mfi.Props.C09.pyth_owner_checked⟩

/-- **the constraints the translator cannot classify are pinned verbatim**: 22 account constraints of the
    integration / emissions / fee-destination / staked-settings structs have no recognised kind in the generated table
    (venue account owner and mint bindings, obligation / spot-position checks, destination mints, ...; the deleverage
    receiver = risk admin test is classified and interpreted since the deleverage bracket is modelled). Their normalised text is fingerprinted by the translator on every run and must be
    exactly this list (struct, account, fingerprint): an edit of any of them — dropped, weakened, pointed at another
    account — is a broken obligation even though no theorem speaks about its meaning. -/
theorem unclassified_constraints_pinned :
    Mfi.Gen.Acc.otherFingerprints =
      [(.LendingPoolAddBankKamino, .f_integration_acc_1, 1294895318964715725), (.KaminoDeposit, .f_integration_acc_2, 102789841884831255),
       (.KaminoDeposit, .f_integration_acc_2, 2232305478470895852), (.KaminoWithdraw, .f_integration_acc_2, 2232305478470895852),
       (.KaminoWithdraw, .f_integration_acc_2, 102789841884831255), (.LendingAccountSettleEmissions, .f_marginfi_account, 1925430640847475726),
       (.LendingPoolAddBankSolend, .f_integration_acc_1, 1481642461694787521),
       (.SolendDeposit, .f_integration_acc_2, 1332785733999453949), (.SolendWithdraw, .f_integration_acc_2, 1332785733999453949),
       (.LendingPoolUpdateFeesDestinationAccount, .f_destination_account, 2287509815940661847), (.LendingPoolWithdrawFeesPermissionless, .f_fees_destination_account, 442390752958412362),
       (.PropagateStakedSettings, .f_bank, 192467567798966075), (.LendingPoolAddBankDrift, .f_integration_acc_1, 778144333709451630),
       (.DriftDeposit, .f_integration_acc_2, 3003145849582993), (.DriftDeposit, .f_integration_acc_1, 1555694171009604275),
       (.DriftHarvestReward, .f_integration_acc_2, 522844572761367543), (.DriftHarvestReward, .f_harvest_drift_spot_market, 1082706562961323273),
       (.DriftHarvestReward, .f_harvest_drift_spot_market, 2159362736921184234), (.DriftWithdraw, .f_integration_acc_2, 3003145849582993),
       (.DriftWithdraw, .f_integration_acc_2, 471323873936025127), (.DriftWithdraw, .f_integration_acc_2, 1377500195096470279),
       (.DriftWithdraw, .f_integration_acc_1, 1555694171009604275)] := by decide

section whole_instructions
open Mfi Mfi.World Mfi.Gen Mfi.Gen.Acc Mfi.Auth

/-! ### whole instructions (Mfi/Model/World.lean: the account checks are INTERPRETED from the regenerated table) -/

/-- who got through: the authority of an unfrozen account, the group admin of a frozen one (never its authority), or —
    only where the instruction admits it — anyone while the account is in receivership -/
def EntitledSigner (c : Ctx) (allowR : Bool) : Prop :=
  let a := acctView c.a.authority c.a.flags
  (allowR = true ∧ a.inReceivership = true ∧ ¬ (a.frozen = true ∧ c.a.authority = c.signer)) ∨
  (¬ (allowR = true ∧ a.inReceivership = true) ∧ a.frozen = false ∧ c.a.authority = c.signer) ∨
  (¬ (allowR = true ∧ a.inReceivership = true) ∧ a.frozen = true ∧ c.g.admin = c.signer ∧ c.a.authority ≠ c.signer)

theorem entitled_signer {c : Ctx} {allowR : Bool} (h : Entitled c allowR) : EntitledSigner c allowR := by
  have := (signer_rule (acctView c.a.authority c.a.flags) c.g.admin c.signer allowR).1 (by simp [h.signer, h.notFrozen])
  simpa [EntitledSigner, acctView] using this

/-- **world_user_instructions_need_entitled_signer**: whatever else is true of the context, a deposit, borrow or balance
    closure goes through only for the entitled signer with NO receivership path, a withdrawal or repayment only for the
    entitled signer or, in receivership, a third party; and the account and the bank both belong to the group named, the
    bank is one of the program's own. -/
theorem world_user_instructions_need_entitled_signer (c : Ctx) :
    (∀ amt up o, World.deposit c amt up = .ok o → EntitledSigner c false ∧ c.a.group = c.g.key ∧ c.b.group = c.g.key) ∧
    (∀ amt o, World.borrow c amt = .ok o → EntitledSigner c false ∧ c.a.group = c.g.key ∧ c.b.group = c.g.key) ∧
    (∀ o, World.closeBalance c = .ok o → EntitledSigner c false ∧ c.a.group = c.g.key ∧ c.b.group = c.g.key) ∧
    (∀ amt all o, World.withdraw c amt all = .ok o → EntitledSigner c true ∧ c.a.group = c.g.key ∧ c.b.group = c.g.key) ∧
    (∀ amt all o, World.repay c amt all = .ok o → EntitledSigner c true ∧ c.a.group = c.g.key ∧ c.b.group = c.g.key) := by
  refine ⟨?_, ?_, ?_, ?_, ?_⟩
  · intro amt up o h; have := (deposit_ok h).checks.1; exact ⟨entitled_signer this, this.acctGroup, this.bankGroup⟩
  · intro amt o h; have := (borrow_ok h).checks.1; exact ⟨entitled_signer this, this.acctGroup, this.bankGroup⟩
  · intro o h; have := (close_ok h).checks; exact ⟨entitled_signer this, this.acctGroup, this.bankGroup⟩
  · intro amt all o h; have := (withdraw_ok h).checks.1; exact ⟨entitled_signer this, this.acctGroup, this.bankGroup⟩
  · intro amt all o h; have := (repay_ok h).checks.1; exact ⟨entitled_signer this, this.acctGroup, this.bankGroup⟩

/-- **world_vault_is_the_banks**: the four instructions that move tokens do so only through the liquidity vault recorded in
    the bank -/
theorem world_vault_is_the_banks (c : Ctx) :
    (∀ amt up o, World.deposit c amt up = .ok o → c.b.liquidityVault = c.vaultKey) ∧
    (∀ amt o, World.borrow c amt = .ok o → c.b.liquidityVault = c.vaultKey) ∧
    (∀ amt all o, World.withdraw c amt all = .ok o → c.b.liquidityVault = c.vaultKey) ∧
    (∀ amt all o, World.repay c amt all = .ok o → c.b.liquidityVault = c.vaultKey) :=
  ⟨fun _ _ _ h => (deposit_ok h).checks.2.1, fun _ _ h => (borrow_ok h).checks.2.1,
   fun _ _ _ h => (withdraw_ok h).checks.2.1, fun _ _ _ h => (repay_ok h).checks.2⟩

/-- non-vacuity: a stranger is refused with `Unauthorized`, the owner passes the checks -/
example : ∃ c : Ctx, runChecks c.env (checks .LendingAccountBorrow) = .ok () ∧
    runChecks { c with signer := 99 }.env (checks .LendingAccountBorrow) = .error (.err E.Unauthorized) := by
  refine ⟨{ now := 0, g := { key := 1, admin := 2, riskAdmin := 3, paused := false, progFeeRate := 0, window := ⟨0, 0, 0⟩ },
            a := { key := 4, group := 1, authority := 5, flags := 0, slots := [] }, signer := 5,
            b := { key := 6, group := 1, liquidityVault := 7,
                   books := ⟨0,0,0,0,0,0,0,0,0,0,0,0,0,0,0,0,0,0,0⟩, ir := ⟨0,0,0,0,0,0,0,0,0,false,0,0,[],0⟩, opState := 1, origFee := 0, tfBps := 0, tfMax := 0, weightInitZero := false },
            vaultKey := 7, vaultAmount := 0, risk := [] }, ?_, ?_⟩ <;> decide

/-! ### transactions (Mfi/Model/WorldTx.lean): a third party acts on an account only strictly inside its bracket -/

/-- who signed, read off the account as the instruction found it -/
def OwnSigner (g : GroupV) (a : AcctV) (signer : Nat) : Prop :=
  (hasFlag a.flags ACCOUNT_FROZEN = false ∧ a.authority = signer) ∨
  (hasFlag a.flags ACCOUNT_FROZEN = true ∧ g.admin = signer ∧ a.authority ≠ signer)

theorem own_or_receivership {c : Ctx} (h : EntitledSigner c true) :
    OwnSigner c.g c.a c.signer ∨ hasFlag c.a.flags ACCOUNT_IN_RECEIVERSHIP = true := by
  unfold EntitledSigner at h
  simp only [acctView] at h
  rcases h with h | h | h
  · exact Or.inr h.2.1
  · exact Or.inl (Or.inl ⟨h.2.1, h.2.2⟩)
  · exact Or.inl (Or.inr ⟨h.2.1, h.2.2.1, h.2.2.2⟩)

/-- **world_tx_third_party_withdraws_only_inside_a_bracket**: in a COMMITTED transaction of the world machine (begun with no
    account in receivership), every withdrawal was signed by the account's authority (account not frozen) or by the group admin
    (account frozen) — or the transaction is a receivership bracket OF THAT ACCOUNT (it opens with the start_liquidation /
    start_deleverage of that very account and closes with its end) and the withdrawal sits strictly between the two. There is no
    third way to move funds out of someone's balances, in any transaction. -/
theorem world_tx_third_party_withdraws_only_inside_a_bracket {w w' : WState} {tx : List TOp} (h : w.runTx tx = some w')
    (h0 : ∀ (k : Nat) (a : AcctV), w.accts[k]? = some a → inRecv a = false)
    {i ai bi signer : Nat} {amount vault : Int} {all : Bool} (hi : tx[i]? = some (.ix (.withdraw ai bi signer amount all vault))) :
    ∃ (wi : WState) (a : AcctV), w.before tx i = some wi ∧ wi.accts[ai]? = some a ∧
      (OwnSigner wi.g a signer ∨ (AnyBracket tx ai ∧ 0 < i ∧ i + 1 < tx.length)) := by
  obtain ⟨wi, a, b, o, hbef, ha, hb, ho, hbr⟩ := tx_withdraw_in_bracket h h0 hi
  refine ⟨wi, a, hbef, ha, ?_⟩
  have hs := ((world_user_instructions_need_entitled_signer (wi.ctx a b signer b.v.liquidityVault vault)).2.2.2.1 amount all o ho).1
  rcases own_or_receivership hs with h1 | h1
  · exact Or.inl h1
  · exact Or.inr (hbr h1)

/-- … and likewise every repayment -/
theorem world_tx_third_party_repays_only_inside_a_bracket {w w' : WState} {tx : List TOp} (h : w.runTx tx = some w')
    (h0 : ∀ (k : Nat) (a : AcctV), w.accts[k]? = some a → inRecv a = false)
    {i ai bi signer : Nat} {amount : Int} {all : Bool} (hi : tx[i]? = some (.ix (.repay ai bi signer amount all))) :
    ∃ (wi : WState) (a : AcctV), w.before tx i = some wi ∧ wi.accts[ai]? = some a ∧
      (OwnSigner wi.g a signer ∨ (AnyBracket tx ai ∧ 0 < i ∧ i + 1 < tx.length)) := by
  obtain ⟨wi, a, b, o, hbef, ha, hb, ho, hbr⟩ := tx_repay_in_bracket h h0 hi
  refine ⟨wi, a, hbef, ha, ?_⟩
  have hs := ((world_user_instructions_need_entitled_signer (wi.ctx a b signer b.v.liquidityVault 0)).2.2.2.2 amount all o ho).1
  rcases own_or_receivership hs with h1 | h1
  · exact Or.inl h1
  · exact Or.inr (hbr h1)

theorem own_of_entitled {c : Ctx} (h : EntitledSigner c false) : OwnSigner c.g c.a c.signer := by
  unfold EntitledSigner at h
  simp only [acctView] at h
  rcases h with h | h | h
  · simp at h
  · exact Or.inl ⟨h.2.1, h.2.2⟩
  · exact Or.inr ⟨h.2.1, h.2.2.1, h.2.2.2⟩

/-- **world_tx_deposits_and_borrows_need_the_owner**: in every COMMITTED transaction each deposit and each borrow was signed by the
    account's authority (account not frozen) or by the group admin (account frozen) — there is NO receivership path for them:
    inside a bracket a third party may withdraw and repay, never deposit or borrow in the account's name -/
theorem world_tx_deposits_and_borrows_need_the_owner {w w' : WState} {tx : List TOp} (h : w.runTx tx = some w') (i : Nat) :
    (∀ ai bi signer amount upTo, tx[i]? = some (.ix (.deposit ai bi signer amount upTo)) →
      ∃ (wi : WState) (a : AcctV), w.before tx i = some wi ∧ wi.accts[ai]? = some a ∧ OwnSigner wi.g a signer) ∧
    (∀ ai bi signer amount, tx[i]? = some (.ix (.borrow ai bi signer amount)) →
      ∃ (wi : WState) (a : AcctV), w.before tx i = some wi ∧ wi.accts[ai]? = some a ∧ OwnSigner wi.g a signer) := by
  refine ⟨?_, ?_⟩
  · intro ai bi signer amount upTo hi
    obtain ⟨wi, a, b, o, hbef, ha, _, ho⟩ := tx_deposit_ran h hi
    exact ⟨wi, a, hbef, ha, own_of_entitled ((world_user_instructions_need_entitled_signer _).1 amount upTo o ho).1⟩
  · intro ai bi signer amount hi
    obtain ⟨wi, a, b, o, hbef, ha, _, ho⟩ := tx_borrow_ran h hi
    exact ⟨wi, a, hbef, ha, own_of_entitled ((world_user_instructions_need_entitled_signer _).2.1 amount o ho).1⟩

end whole_instructions

end Mfi.Props.C08
