/-
  C01 — Bank solvency: vault tokens cover net depositor claims and accrued fees.

  slack(V, bank) = V·2^96 − (total_asset_shares·asset_share_value − total_liability_shares·liability_share_value
                             + (fee buckets)·2^48)        (all exact integers, scale 2^96 per token)
  Theorems: every modelled operation changes the slack by at least −allowance(op, state), with the allowance
  DERIVED from the magnitudes involved; accrual is the hard case (interest charged to borrowers = interest
  credited to lenders + fees, up to rounding). Models: Mfi/Model/Bank.lean + Interest.lean (diffed by the
  `bank`, `wrapper`, `curve`, `fees`, `bkr` families); the instruction-level monitor re-checks the slack
  inequality with the same allowances on real vault balances after every real instruction.
-/
import Mfi.Model.Bank
import Mfi.Lemmas.FxL
import Mfi.Lemmas.ResL
import Mfi.Lemmas.BankL
import Mfi.Props.C06
import Mfi.Props.C19
import Mfi.Props.C07
import Mfi.Props.C02
import Mfi.Props.C03
import Mathlib.Tactic.Linarith
import Mathlib.Tactic.Ring
import Mathlib.Tactic.Positivity
import Mfi.Lemmas.TagL
import Mfi.Lemmas.AccrualL
import Mfi.Lemmas.SolvL
import Mfi.Lemmas.WorldSolvH
import Mfi.Lemmas.WorldTxSolv

namespace Mfi.Props.C01
open Mfi Mfi.Fx Mfi.Bank Mfi.Interest Mfi.Gen Mfi.AccrualL

/-- **accrual_conserves** (proved in Mfi/Lemmas/AccrualL.lean, stated here in full): what an accrual adds to the
    depositors' claims and to the three fee buckets is less than what it adds to the borrowers' debt, plus an allowance
    made of one ulp of rate on the total debt, one ulp of share value per debt share and the per-period lending rate:
      sa·Δasv + Δfees·2^48  <  sl·Δlsv + ⌊lending·dt/year⌋ + tl + sl        (units of 2^-96 token). -/
theorem accrual_conserves {dt sa sl asv lsv : Int} {c : IrCalc} {ch : StateChanges}
    (hsa : 0 ≤ sa) (hsl : 0 ≤ sl) (hasv : 0 ≤ asv) (hlsv : 0 ≤ lsv) (hdt : 0 ≤ dt)
    (hta : 0 < sa * asv / ONE) (htl : 0 < sl * lsv / ONE) (hfees : FeesOk c)
    (hbase : ∀ r, calcInterestRate c (sl * lsv / ONE * ONE / (sa * asv / ONE)) = .ok r → 0 ≤ r.base)
    (h : accrualStateChanges dt (sa * asv / ONE) (sl * lsv / ONE) c asv lsv = .ok ch) :
    ∃ r, calcInterestRate c (sl * lsv / ONE * ONE / (sa * asv / ONE)) = .ok r ∧
      sa * (ch.newAsv - asv) + (ch.insuranceFees + ch.groupFees + ch.protocolFees) * ONE <
        sl * (ch.newLsv - lsv) + r.lending * dt / YEAR + sl * lsv / ONE + sl :=
  Mfi.AccrualL.accrual_conserves hsa hsl hasv hlsv hdt hta htl hfees hbase h

open Mfi.SolvL

/-- **accrue_step**: an accrual raises the claims by less than its allowance (the vault does not move). -/
theorem accrue_step {b b' : Bank} {ir : IrCalc} {now : Int} (h : accrueInterest b ir now = .ok b')
    (hb : Mfi.Props.C06.BankOk b) (hfees : FeesOk ir) (hbase : BaseOk ir) :
    claims b' ≤ claims b + accrueAllowance b ir now :=
  Mfi.SolvL.accrue_step h hb hfees hbase

theorem shares_le {v sv s : Int} (hv : 0 ≤ v) (hsv : 0 < sv) (h : div? v sv = some s) :
    0 ≤ s ∧ s * sv ≤ v * ONE ∧ v * ONE < s * sv + sv :=
  Mfi.SolvL.shares_le hv hsv h

/-- **increase_step** (deposit, repay, the liquidator's side of a seizure): the claims rise by at most the
    amount credited (×2^48). With the vault receiving at least that amount the slack does not fall. -/
theorem increase_step {b b' : Bank} {x x' : Balance} {now delta : Int} {t : IncType}
    (h : increaseBalance b x now delta t = .ok (b', x')) (hasv : 0 ≤ b.asv) (hlsv : 0 ≤ b.lsv)
    (hd : 0 ≤ delta) (hl : 0 ≤ x.l) : claims b' ≤ claims b + delta * ONE :=
  Mfi.SolvL.increase_step h hasv hlsv hd hl

/-- **decrease_step** (withdraw, borrow, the liquidatee's side of a seizure): the claims fall by the amount
    debited (×2^48), short of it by less than one unit of each share value (the two share conversions round
    down). With the vault paying at most that amount, the slack falls by less than asv + lsv. -/
theorem decrease_step {b b' : Bank} {x x' : Balance} {now delta : Int} {t : DecType}
    (h : decreaseBalance b x now delta t = .ok (b', x')) (hasv : 0 ≤ b.asv) (hlsv : 0 ≤ b.lsv)
    (hd : 0 ≤ delta) (ha : 0 ≤ x.a) : claims b' < claims b - delta * ONE + b.asv + b.lsv + 1 :=
  Mfi.SolvL.decrease_step h hasv hlsv hd ha

/-- **withdraw_all_step**: a full withdrawal removes the whole deposit from the claims, pays out its value
    rounded down to whole tokens and books the fraction as insurance fees: the slack does not fall. -/
theorem withdraw_all_step {b b' : Bank} {x x' : Balance} {now amt : Int}
    (h : withdrawAll b x now = .ok (b', x', amt)) (hasv : 0 ≤ b.asv) (ha : 0 ≤ x.a) :
    claims b' ≤ claims b - amt * ONE * ONE :=
  Mfi.SolvL.withdraw_all_step h hasv ha

/-- **repay_all_step**: a full repayment removes the whole debt from what the bank is owed, charges its value
    rounded UP to whole tokens and books the excess as insurance fees: the slack falls by less than one
    ulp (2^48 at scale 2^96). -/
theorem repay_all_step {b b' : Bank} {x x' : Balance} {now amt : Int}
    (h : repayAll b x now = .ok (b', x', amt)) :
    claims b' < claims b + amt * ONE * ONE + ONE :=
  Mfi.SolvL.repay_all_step h

/-- **collect_step**: fee collection moves whole tokens out of the vault and reduces the buckets by exactly
    the same amounts: the slack is unchanged. -/
theorem collect_step {b : Bank} {v : Int} {c : Collected} (h : collectFees b.feeI b.feeG b.feeP v = .ok c) :
    slack (v - (c.toInsurance + c.toGroup + c.toProgram)) { b with feeI := c.feeI, feeG := c.feeG, feeP := c.feeP } = slack v b :=
  Mfi.SolvL.collect_step h

/-- **bankruptcy_step**: unless the bank is wiped out (the sanctioned exception), a settlement raises the
    claims by at most the covered part of the bad debt, which the insurance transfer (rounded up) pays
    into the vault: the slack does not fall. -/
theorem bankruptcy_step {b : Bank} {bal : Balance} {avail now : Int} {o : BankruptcyOut}
    (h : settleBankruptcy b bal avail now = .ok o) (ha : 0 ≤ avail) (hsa : 0 ≤ b.sa) (hasv : 0 ≤ b.asv)
    (hlsv : 0 ≤ b.lsv) (hl : 0 ≤ bal.l) (hnk : o.kill = false) :
    claims o.bank ≤ claims b + o.coveredUp * ONE * ONE :=
  Mfi.SolvL.bankruptcy_step h ha hsa hasv hlsv hl hnk

/-- **liquidation_fee_step** (debt bank of a classic liquidation): the liquidator's position is debited L1, the
    liquidatee's credited L2 ≤ L1, the whole-token part of the fee L1 − L2 leaves the vault for the insurance
    vault and the fraction goes to the outstanding insurance fees: the slack falls by less than
    asv + lsv + 1. Pure arithmetic over the two step bounds. -/
theorem liquidation_fee_step {c0 c1 c2 l1 l2 asv lsv whole fracp : Int}
    (hdec : c1 < c0 - l1 * ONE + asv + lsv + 1) (hinc : c2 ≤ c1 + l2 * ONE) (hfee : l1 - l2 = whole * ONE + fracp) :
    -(whole * ONE * ONE) - (c2 + fracp * ONE - c0) > -(asv + lsv + 1) :=
  Mfi.SolvL.liquidation_fee_step hdec hinc hfee

/-- **borrow_fee_step**: a borrow of `amt` tokens with origination fee `fee` debits amt·2^48 + fee, adds `fee`
    to the fee buckets and pays `amt` tokens: the slack falls by less than asv + lsv + 1. -/
theorem borrow_fee_step {c0 c1 amt fee asv lsv : Int}
    (hdec : c1 < c0 - (amt * ONE + fee) * ONE + asv + lsv + 1) :
    -(amt * ONE * ONE) - (c1 + fee * ONE - c0) > -(asv + lsv + 1) :=
  Mfi.SolvL.borrow_fee_step hdec

/-! ### every history -/

open Mfi.Props.C02 in
/-- one bank, all its positions, its liquidity vault, and the allowance spent so far (scale 2^96) -/
structure Sys where
  L : Mfi.Props.C02.Ledger
  vault : Int
  spent : Int

inductive SOp
  | open_
  | deposit (i : Nat) (amt recv : Int)     -- position credited `amt` tokens, vault receives `recv` ≥ amt (C03 prefee_covers)
  | repay (i : Nat) (amt recv : Int)
  | withdraw (i : Nat) (amt : Int)         -- position debited and vault pays `amt` tokens
  | borrow (i : Nat) (amt : Int)
  | withdrawAll (i : Nat)
  | repayAll (i : Nat)
  | close (i : Nat)
  | accrue (ir : IrCalc)
  | collect

def opOk : SOp → Prop
  | .deposit _ amt recv => 0 ≤ amt ∧ amt ≤ recv
  | .repay _ amt recv => 0 ≤ amt ∧ amt ≤ recv
  | .withdraw _ amt => 0 ≤ amt
  | .borrow _ amt => 0 ≤ amt
  | .accrue ir => FeesOk ir ∧ BaseOk ir
  | _ => True

def upd (s : Sys) (b' : Bank) (i : Nat) (x' : Balance) : Mfi.Props.C02.Ledger :=
  { s.L with bank := b', bals := s.L.bals.set i x' }

/-- a failing operation aborts and leaves everything unchanged -/
def step (s : Sys) (now : Int) : SOp → Sys
  | .open_ => { s with L := Mfi.Props.C02.step s.L now .open_ }
  | .deposit i amt recv =>
    match s.L.bals[i]? with
    | none => s
    | some x => match increaseBalance s.L.bank x now (ofInt amt) .depositOnly with
      | .ok (b', x') => { s with L := upd s b' i x', vault := s.vault + recv }
      | .error _ => s
  | .repay i amt recv =>
    match s.L.bals[i]? with
    | none => s
    | some x => match increaseBalance s.L.bank x now (ofInt amt) .repayOnly with
      | .ok (b', x') => { s with L := upd s b' i x', vault := s.vault + recv }
      | .error _ => s
  | .withdraw i amt =>
    match s.L.bals[i]? with
    | none => s
    | some x => match decreaseBalance s.L.bank x now (ofInt amt) .withdrawOnly with
      | .ok (b', x') => { L := upd s b' i x', vault := s.vault - amt, spent := s.spent + s.L.bank.asv + s.L.bank.lsv + 1 }
      | .error _ => s
  | .borrow i amt =>
    match s.L.bals[i]? with
    | none => s
    | some x => match decreaseBalance s.L.bank x now (ofInt amt) .borrowOnly with
      | .ok (b', x') => { L := upd s b' i x', vault := s.vault - amt, spent := s.spent + s.L.bank.asv + s.L.bank.lsv + 1 }
      | .error _ => s
  | .withdrawAll i =>
    match s.L.bals[i]? with
    | none => s
    | some x => match withdrawAll s.L.bank x now with
      | .ok (b', x', amt) => { s with L := { upd s b' i x' with dustL := s.L.dustL + x.l }, vault := s.vault - amt }
      | .error _ => s
  | .repayAll i =>
    match s.L.bals[i]? with
    | none => s
    | some x => match repayAll s.L.bank x now with
      | .ok (b', x', amt) => { L := { upd s b' i x' with dustA := s.L.dustA + x.a }, vault := s.vault + amt, spent := s.spent + ONE }
      | .error _ => s
  | .close i => { s with L := Mfi.Props.C02.step s.L now (.close i) }
  | .accrue ir =>
    match accrueInterest s.L.bank ir now with
    | .ok b' => { s with L := { s.L with bank := b' }, spent := s.spent + accrueAllowance s.L.bank ir now }
    | .error _ => s
  | .collect =>
    match collectFees s.L.bank.feeI s.L.bank.feeG s.L.bank.feeP s.vault with
    | .ok c => { s with L := { s.L with bank := { s.L.bank with feeI := c.feeI, feeG := c.feeG, feeP := c.feeP } },
                        vault := s.vault - (c.toInsurance + c.toGroup + c.toProgram) }
    | .error _ => s

/-- vault minus claims, plus the allowance spent: never decreases -/
def potential (s : Sys) : Int := slack s.vault s.L.bank + s.spent


theorem ofInt_mul (a : Int) : ofInt a * ONE = a * ONE * ONE := rfl

open Mfi.Props.C02 in
/-- one step: the potential does not fall and the ledger invariant is kept -/
theorem step_potential (s : Sys) (now : Int) (op : SOp) (hi : Inv s.L) (hop : opOk op) :
    potential s ≤ potential (step s now op) ∧ Inv (step s now op).L := by
  have hsv := hi.svpos
  have hONE := ONE_pos
  cases op with
  | open_ => exact ⟨Int.le_refl _, inv_step s.L now .open_ hi trivial⟩
  | close i =>
    refine ⟨?_, inv_step s.L now (.close i) hi trivial⟩
    simp only [step, potential, Mfi.Props.C02.step]
    cases hget : s.L.bals[i]? with
    | none => exact Int.le_refl _
    | some x =>
      simp only
      cases hres : closeBalanceOp s.L.bank x now with
      | error e => exact Int.le_refl _
      | ok r =>
        obtain ⟨b', x'⟩ := r
        simp only
        have hb : claims b' = claims s.L.bank := by
          unfold closeBalanceOp at hres
          obtain ⟨⟨b1, x1⟩, hc, hres⟩ := Res.bind_ok hres
          dsimp only at hres
          obtain ⟨_, _, hres⟩ := Res.bind_ok hres
          obtain ⟨_, _, hres⟩ := Res.bind_ok hres
          obtain ⟨_, _, hres⟩ := Res.bind_ok hres
          obtain ⟨_, _, hres⟩ := Res.bind_ok hres
          obtain ⟨_, _, hres⟩ := Res.bind_ok hres
          injection hres with hres
          injection hres with hb _
          obtain ⟨⟨r, eb1⟩, _⟩ := claim_frame hc
          rw [← hb, eb1]; rfl
        unfold slack; rw [hb]
  | deposit i amt recv =>
    simp only [step]
    cases hget : s.L.bals[i]? with
    | none => exact ⟨Int.le_refl _, hi⟩
    | some x =>
      simp only
      cases hres : increaseBalance s.L.bank x now (ofInt amt) .depositOnly with
      | error e => exact ⟨Int.le_refl _, hi⟩
      | ok r =>
        obtain ⟨b', x'⟩ := r
        simp only
        have hx := hi.nonneg x (mem_of_get hget)
        have hd0 : 0 ≤ ofInt amt := Int.mul_nonneg hop.1 (by omega)
        have hst := increase_step hres (le_of_lt hsv.1) (le_of_lt hsv.2) hd0 hx.2
        have hinv := inv_step s.L now (.inc i (ofInt amt) .depositOnly) hi hd0
        simp only [Mfi.Props.C02.step, hget, hres] at hinv
        refine ⟨?_, hinv⟩
        unfold potential slack upd
        simp only
        rw [ofInt_mul] at hst
        have e1 : (s.vault + recv) * ONE * ONE = s.vault * ONE * ONE + recv * ONE * ONE := by ring
        have e2 : amt * ONE * ONE ≤ recv * ONE * ONE := by
          have := Int.mul_le_mul_of_nonneg_right hop.2 (by positivity : (0 : Int) ≤ ONE * ONE)
          linarith only [this]
        omega
  | repay i amt recv =>
    simp only [step]
    cases hget : s.L.bals[i]? with
    | none => exact ⟨Int.le_refl _, hi⟩
    | some x =>
      simp only
      cases hres : increaseBalance s.L.bank x now (ofInt amt) .repayOnly with
      | error e => exact ⟨Int.le_refl _, hi⟩
      | ok r =>
        obtain ⟨b', x'⟩ := r
        simp only
        have hx := hi.nonneg x (mem_of_get hget)
        have hd0 : 0 ≤ ofInt amt := Int.mul_nonneg hop.1 (by omega)
        have hst := increase_step hres (le_of_lt hsv.1) (le_of_lt hsv.2) hd0 hx.2
        have hinv := inv_step s.L now (.inc i (ofInt amt) .repayOnly) hi hd0
        simp only [Mfi.Props.C02.step, hget, hres] at hinv
        refine ⟨?_, hinv⟩
        unfold potential slack upd
        simp only
        rw [ofInt_mul] at hst
        have e1 : (s.vault + recv) * ONE * ONE = s.vault * ONE * ONE + recv * ONE * ONE := by ring
        have e2 : amt * ONE * ONE ≤ recv * ONE * ONE := by
          have := Int.mul_le_mul_of_nonneg_right hop.2 (by positivity : (0 : Int) ≤ ONE * ONE)
          linarith only [this]
        omega
  | withdraw i amt =>
    simp only [step]
    cases hget : s.L.bals[i]? with
    | none => exact ⟨Int.le_refl _, hi⟩
    | some x =>
      simp only
      cases hres : decreaseBalance s.L.bank x now (ofInt amt) .withdrawOnly with
      | error e => exact ⟨Int.le_refl _, hi⟩
      | ok r =>
        obtain ⟨b', x'⟩ := r
        simp only
        have hx := hi.nonneg x (mem_of_get hget)
        have hd0 : 0 ≤ ofInt amt := Int.mul_nonneg hop (by omega)
        have hst := decrease_step hres (le_of_lt hsv.1) (le_of_lt hsv.2) hd0 hx.1
        have hinv := inv_step s.L now (.dec i (ofInt amt) .withdrawOnly) hi hd0
        simp only [Mfi.Props.C02.step, hget, hres] at hinv
        refine ⟨?_, hinv⟩
        unfold potential slack upd
        simp only
        rw [ofInt_mul] at hst
        have e1 : (s.vault - amt) * ONE * ONE = s.vault * ONE * ONE - amt * ONE * ONE := by ring
        omega
  | borrow i amt =>
    simp only [step]
    cases hget : s.L.bals[i]? with
    | none => exact ⟨Int.le_refl _, hi⟩
    | some x =>
      simp only
      cases hres : decreaseBalance s.L.bank x now (ofInt amt) .borrowOnly with
      | error e => exact ⟨Int.le_refl _, hi⟩
      | ok r =>
        obtain ⟨b', x'⟩ := r
        simp only
        have hx := hi.nonneg x (mem_of_get hget)
        have hd0 : 0 ≤ ofInt amt := Int.mul_nonneg hop (by omega)
        have hst := decrease_step hres (le_of_lt hsv.1) (le_of_lt hsv.2) hd0 hx.1
        have hinv := inv_step s.L now (.dec i (ofInt amt) .borrowOnly) hi hd0
        simp only [Mfi.Props.C02.step, hget, hres] at hinv
        refine ⟨?_, hinv⟩
        unfold potential slack upd
        simp only
        rw [ofInt_mul] at hst
        have e1 : (s.vault - amt) * ONE * ONE = s.vault * ONE * ONE - amt * ONE * ONE := by ring
        omega
  | withdrawAll i =>
    simp only [step]
    cases hget : s.L.bals[i]? with
    | none => exact ⟨Int.le_refl _, hi⟩
    | some x =>
      simp only
      cases hres : withdrawAll s.L.bank x now with
      | error e => exact ⟨Int.le_refl _, hi⟩
      | ok r =>
        obtain ⟨b', x', amt⟩ := r
        simp only
        have hx := hi.nonneg x (mem_of_get hget)
        have hst := withdraw_all_step hres (le_of_lt hsv.1) hx.1
        have hinv := inv_step s.L now (.wdAll i) hi trivial
        simp only [Mfi.Props.C02.step, hget, hres] at hinv
        refine ⟨?_, hinv⟩
        unfold potential slack upd
        simp only
        have e1 : (s.vault - amt) * ONE * ONE = s.vault * ONE * ONE - amt * ONE * ONE := by ring
        omega
  | repayAll i =>
    simp only [step]
    cases hget : s.L.bals[i]? with
    | none => exact ⟨Int.le_refl _, hi⟩
    | some x =>
      simp only
      cases hres : repayAll s.L.bank x now with
      | error e => exact ⟨Int.le_refl _, hi⟩
      | ok r =>
        obtain ⟨b', x', amt⟩ := r
        simp only
        have hst := repay_all_step hres
        have hinv := inv_step s.L now (.repAll i) hi trivial
        simp only [Mfi.Props.C02.step, hget, hres] at hinv
        refine ⟨?_, hinv⟩
        unfold potential slack upd
        simp only
        have e1 : (s.vault + amt) * ONE * ONE = s.vault * ONE * ONE + amt * ONE * ONE := by ring
        omega
  | accrue ir =>
    simp only [step]
    cases hres : accrueInterest s.L.bank ir now with
    | error e => exact ⟨Int.le_refl _, hi⟩
    | ok b' =>
      simp only
      have hbok : Mfi.Props.C06.BankOk s.L.bank := by
        refine ⟨le_of_lt hsv.1, le_of_lt hsv.2, ?_, ?_⟩
        · rw [hi.totalA]
          have : 0 ≤ sumA s.L.bals := by
            unfold sumA
            apply List.sum_nonneg
            intro y hy
            obtain ⟨x, hx, rfl⟩ := List.mem_map.mp hy
            exact (hi.nonneg x hx).1
          have := hi.dustA0
          omega
        · rw [hi.totalL]
          have : 0 ≤ sumL s.L.bals := by
            unfold sumL
            apply List.sum_nonneg
            intro y hy
            obtain ⟨x, hx, rfl⟩ := List.mem_map.mp hy
            exact (hi.nonneg x hx).2
          have := hi.dustL0
          omega
      have hst := accrue_step hres hbok hop.1 hop.2
      obtain ⟨m1, m2, e1, e2, _⟩ := Mfi.Props.C06.accrue_spec hres hbok
      refine ⟨?_, ⟨by simp only; rw [e1]; exact hi.totalA, by simp only; rw [e2]; exact hi.totalL, hi.dustA0, hi.dustL0, hi.nonneg,
        by simp only; exact ⟨by omega, by omega⟩⟩⟩
      unfold potential slack
      simp only
      omega
  | collect =>
    simp only [step]
    cases hres : collectFees s.L.bank.feeI s.L.bank.feeG s.L.bank.feeP s.vault with
    | error e => exact ⟨Int.le_refl _, hi⟩
    | ok c =>
      simp only
      have := collect_step hres
      refine ⟨?_, ⟨hi.totalA, hi.totalL, hi.dustA0, hi.dustL0, hi.nonneg, hi.svpos⟩⟩
      unfold potential
      simp only
      omega

def runOps (s : Sys) (ops : List (Int × SOp)) : Sys := ops.foldl (fun s p => step s p.1 p.2) s

open Mfi.Props.C02 in
/-- **solvency_history**: over EVERY history of position openings, deposits, repayments, withdrawals, borrows,
    full withdrawals / repayments, balance closures, interest accruals (any rate configuration with
    non-negative fees and base rate, any clock) and fee collections, by any number of accounts,

        vault·2^96 − (deposits − loans + uncollected fees)  ≥  (its initial value) − (allowance spent),

    where the allowance grows by asv + lsv + 1 per withdrawal or borrow, by 2^48 per full repayment and by
    accrueAllowance (one ulp of rate on the debt, one ulp per debt share, the per-period lending rate) per
    accrual — all at scale 2^96 per native token — and by nothing for the other operations. -/
theorem solvency_history (ops : List (Int × SOp)) :
    ∀ (s : Sys), Inv s.L → (∀ p ∈ ops, opOk p.2) →
      potential s ≤ potential (runOps s ops) ∧ Inv (runOps s ops).L := by
  induction ops with
  | nil => intro s hi _; exact ⟨Int.le_refl _, hi⟩
  | cons p rest ih =>
    intro s hi hok
    simp only [runOps, List.foldl_cons]
    obtain ⟨h1, h2⟩ := step_potential s p.1 p.2 hi (hok p (List.mem_cons_self ..))
    obtain ⟨h3, h4⟩ := ih _ h2 (fun q hq => hok q (List.mem_cons_of_mem _ hq))
    exact ⟨Int.le_trans h1 h3, h4⟩

/-- a solvent start stays solvent up to the allowance: slack ≥ −spent -/
theorem solvent_up_to_allowance (ops : List (Int × SOp)) (s : Sys) (hi : Mfi.Props.C02.Inv s.L)
    (hok : ∀ p ∈ ops, opOk p.2) (h0 : 0 ≤ slack s.vault s.L.bank) (hs : s.spent = 0) :
    -(runOps s ops).spent ≤ slack (runOps s ops).vault (runOps s ops).L.bank := by
  have := (solvency_history ops s hi hok).1
  unfold potential at this
  omega

/-- the token-denominated accounting this file is about is the only accounting the standard instructions can reach:
    they are constrained to the program's own banks (constraint table regenerated from the source; Mfi.TagL) -/
theorem standard_instructions_only_on_own_banks : Mfi.TagL.OwnBanks :=
  Mfi.TagL.standard_instructions_only_on_own_banks

/-- a deposit / repayment credited with `post` tokens brings at least `post` tokens into the vault whatever the mint (classic, Token-2022 with or without a transfer fee) and whatever the epoch, also the one in which a scheduled fee change activates (C03 mint_prefee_covers; tf.mint lines of the tokenfee family run here too) -/
theorem deposits_arrive_in_every_epoch {m : Mfi.Token.Mint} {epoch post pre f : Int} (hp : 0 ≤ post)
    (hm : ∀ c, m = .t22fee c → Mfi.Props.C03.FeeCfgOk c)
    (h : Mfi.Token.mintPre m epoch post = some pre) (hf : Mfi.Token.mintFee m epoch pre = some f) : post ≤ pre - f :=
  Mfi.Props.C03.mint_prefee_covers hp hm h hf

/-! ### solvency over every history of WHOLE instructions (Mfi/Model/World.lean; lemmas in Mfi/Lemmas/WorldSolv*.lean)

The single-bank history above speaks about wrapper operations with the vault movements given as arguments. Here the operations are
the whole instructions of the world state machine — account checks interpreted from the regenerated table, gates, accrual, slot
search, the bank-and-position core, fee booking, sunset cases, risk engine — on any number of accounts and banks, and the
vault movement of each step is READ OFF the instruction's own outcome (`tokens`, `insuranceTokens`; the `world` family diffs
both against the real token movements through real dispatch). -/

section whole_instructions
open Mfi.World

/-- the ghost-instrumented step is the state machine's step: the ledgers ride along, they do not steer -/
theorem world_ghost_step_is_the_step (w : WState) (op : WOp) : (w.stepE op).1 = w.step op := stepE_fst w op

theorem world_ghost_run_is_the_run (w : WState) (g : Ghost) (ops : List WOp) : (w.runE g ops).1 = w.run ops := runE_fst ops w g

/-- **world_instruction_keeps_solvency**: one whole instruction — deposit, withdraw (partial / complete / completed-deleverage
    pay-out), borrow (with origination fee split between group and program), repay (partial / complete / token-less), balance
    closure, bankruptcy settlement, classic liquidation, the accrual crank, fee collection, by any signer on any accounts and banks with any unsigned arguments,
    accepted or refused — keeps the invariant and, for EVERY bank of the world,

        vault·2^96 − (deposits − loans + uncollected fees) + allowance consumed + sanctioned write-offs

    does not fall, where the vault moves by exactly the tokens the instruction's outcome announces (deposits and repayments
    net of the mint's transfer fee; the insurance pay-in of a settlement; the whole-token insurance fee of a liquidation and the three transfers of a fee collection out),
    the allowance grows by the accrual allowance (one ulp of rate on the debt, one ulp per debt share, the per-period lending
    rate) plus asv + lsv + 1 per withdrawal / borrow / liquidation leg and 2^48 per complete repayment (all at 2^-96 token),
    and the write-offs are the two sanctioned exceptions: the risk admin's token-less repayment on a sunset bank, and the bad
    debt of a settlement that wipes the bank out (which then is killed). The debt share value of no bank falls. -/
theorem world_instruction_keeps_solvency (w : WState) (g : Ghost) (op : WOp) (hi : SInv w) (hop : op.Ok) :
    SInv (w.stepE op).1 ∧ ∀ (j : Nat) (x x' : WBank), w.banks[j]? = some x → (w.stepE op).1.banks[j]? = some x' →
      pot g x ≤ pot (g.apply (w.stepE op).2) x' ∧ x.v.books.lsv ≤ x'.v.books.lsv :=
  stepE_sound w g op hi hop

/-- **world_solvency_history**: over EVERY history of whole instructions, every bank keeps its place and key, its potential at
    the end is at least its potential at the start, and its debt share value has not fallen. -/
theorem world_solvency_history (ops : List WOp) (w : WState) (g : Ghost) (hi : SInv w) (hok : ∀ op ∈ ops, op.Ok) :
    SInv (w.runE g ops).1 ∧ ∀ (j : Nat) (x : WBank), w.banks[j]? = some x →
      ∃ x', (w.runE g ops).1.banks[j]? = some x' ∧ x'.v.key = x.v.key ∧ pot g x ≤ pot (w.runE g ops).2 x' ∧
        x.v.books.lsv ≤ x'.v.books.lsv :=
  runE_sound ops w g hi hok

/-- a bank that starts solvent stays solvent up to the allowance consumed and the sanctioned write-offs:
    vault·2^96 − claims ≥ −(allowance + write-offs) at the end of every history -/
theorem world_solvent_up_to_allowance (ops : List WOp) (w : WState) (g : Ghost) (hi : SInv w) (hok : ∀ op ∈ ops, op.Ok)
    (j : Nat) (x : WBank) (hx : w.banks[j]? = some x) (h0 : 0 ≤ slack (g.vault x.v.key) x.v.books)
    (hs : g.spent x.v.key = 0) (hw : g.written x.v.key = 0) :
    ∃ x', (w.runE g ops).1.banks[j]? = some x' ∧
      -((w.runE g ops).2.spent x'.v.key + (w.runE g ops).2.written x'.v.key) ≤ slack ((w.runE g ops).2.vault x'.v.key) x'.v.books := by
  obtain ⟨x', hx', _, hp, _⟩ := (runE_sound ops w g hi hok).2 j x hx
  refine ⟨x', hx', ?_⟩
  unfold pot at hp
  omega

/-- every validated seven-point curve gives a non-negative base rate: the `BaseOk` premise of the invariant holds for every
    configuration the program accepts (C18 `curve_defined_bounded`) -/
theorem base_ok_of_validated (c : IrCalc) (hw : Mfi.Props.C18.WF c) (hct : c.curveType = 1) (hv : validateSevenPoint c = true) :
    BaseOk c := by
  intro ur r h
  obtain ⟨_, _, _, _, hb, _⟩ := Mfi.Props.C18.calc_spec h
  unfold baseRate at hb
  have h0 : ¬ c.curveType = 0 := by omega
  rw [if_neg h0, if_pos hct] at hb
  obtain ⟨r', hr', hlo, _⟩ := Mfi.Props.C18.curve_defined_bounded c hw hv ur
  rw [hb] at hr'
  injection hr' with hr'
  have hz : 0 ≤ rateFromU32 c.zeroRate := by
    rw [Mfi.Props.C18.rateFromU32_eq hw.zero_nonneg]
    have : 0 ≤ c.zeroRate * ONE / U32MAX := Int.ediv_nonneg (Int.mul_nonneg hw.zero_nonneg (le_of_lt ONE_pos)) (by decide)
    omega
  omega

/-- an empty world of any number of accounts and of banks with distinct keys, fresh books (no shares, share values and fee
    buckets in range) and an accepted configuration satisfies the invariant — and so does every world reached from it
    (non-vacuity of the history theorem) -/
theorem world_solvency_initial (now : Int) (g : GroupV) (banks : List WBank) (n : Nat)
    (hk : ∀ (i j : Nat) (bi bj : WBank), banks[i]? = some bi → banks[j]? = some bj → i ≠ j → bi.v.key ≠ bj.v.key)
    (h0 : ∀ b ∈ banks, b.v.books.sa = 0 ∧ b.v.books.sl = 0)
    (hb : ∀ b ∈ banks, SvFee b.v.books ∧ CfgOk b.v g.progFeeRate ∧ (b.v.opState ≠ 3 → 0 < b.v.books.asv))
    (group authority : Nat) :
    SInv { now, g, banks, dustA := fun _ => 0, dustL := fun _ => 0,
           accts := List.replicate n { key := 0, group, authority, flags := 0, slots := List.replicate 16 Account.emptySlot } } := by
  refine ⟨Mfi.Props.C02.world_ledger_initial now g banks n hk h0 group authority, ?_, fun _ => ⟨Int.le_refl _, Int.le_refl _⟩, ?_⟩
  · intro i a ha
    have hm := List.mem_of_getElem? ha
    rw [List.mem_replicate] at hm
    rw [hm.2]
    intro s hs
    rw [List.mem_replicate] at hs
    rw [hs.2]
    exact ⟨Int.le_refl _, Int.le_refl _⟩
  · intro j b hj
    exact hb b (List.mem_of_getElem? hj)

/-- **world_solvency_over_transactions**: over EVERY sequence of TRANSACTIONS of the world state machine — lists of whole
    instructions, flash-loan starts / ends and liquidation starts / ends, executed atomically, a refused instruction rolling its
    whole transaction back with all its ledger movements — the invariant holds throughout, every bank keeps its place and key,
    no bank's potential (vault·2^96 − claims + allowance consumed + sanctioned write-offs) falls, no debt share value falls.
    Inside a flash loan or a receivership the health checks are deferred; the books and the vault are not. -/
theorem world_solvency_over_transactions (txs : List (List TOp)) (w : WState) (g : Ghost) (hi : SInv w)
    (hok : ∀ tx ∈ txs, ∀ t ∈ tx, t.Ok) :
    SInv (w.runTxsE g txs).1 ∧ ∀ (j : Nat) (x : WBank), w.banks[j]? = some x →
      ∃ x', (w.runTxsE g txs).1.banks[j]? = some x' ∧ x'.v.key = x.v.key ∧ pot g x ≤ pot (w.runTxsE g txs).2 x' ∧
        x.v.books.lsv ≤ x'.v.books.lsv :=
  runTxsE_good txs w g hi hok

/-- the ledger-instrumented transaction is the transaction (`WorldTx.runTx`; rolled back = the state as it was) -/
theorem world_ghost_tx_is_the_tx (w : WState) (g : Ghost) (tx : List TOp) : (w.runTxE g tx).1 = (w.runTx tx).getD w :=
  runTxE_fst w g tx

def demoIr : IrCalc :=
  { optimal := 0, plateau := 0, maxIr := 0, insFixed := 0, insRate := 0, grpFixed := 0, grpRate := 0,
    progFixed := 0, progRate := 0, addProgramFees := false, zeroRate := 100, hundredRate := 1000,
    points := List.replicate 5 ⟨0, 0⟩, curveType := 1 }

def demoBooks : Bank :=
  { asv := ONE, lsv := ONE, sa := 0, sl := 0, feeI := 0, feeG := 0, feeP := 0, depositLimit := U64MAX,
    borrowLimit := U64MAX, flags := 0, assetTag := 0, mintDecimals := 6, emissionsRate := 0, emissionsRemaining := 0,
    lendCnt := 0, borrowCnt := 0, lastUpdate := 0, cacheAccum := 0, cacheFor := 0 }

def demoBankV : BankV :=
  { key := 1, group := 1, liquidityVault := 2, books := demoBooks, ir := demoIr, opState := 1, origFee := 0, tfBps := 0, tfMax := 0,
    weightInitZero := false }

/-- the premises on a bank are satisfiable: fresh books at share value 1 with a flat validated seven-point curve, no
    transfer fee, no origination fee -/
example : SvFee demoBankV.books ∧ CfgOk demoBankV 0 ∧ (demoBankV.opState ≠ 3 → 0 < demoBankV.books.asv) ∧
    demoBankV.books.sa = 0 ∧ demoBankV.books.sl = 0 := by
  refine ⟨⟨by decide, by decide, by decide, by decide, by decide⟩, ?_, fun _ => by decide, rfl, rfl⟩
  refine ⟨⟨by decide, by decide, by decide, by decide, by decide, by decide⟩, ?_, ⟨by decide, by decide, by decide⟩, by decide, ⟨by decide, by decide⟩⟩
  exact base_ok_of_validated demoIr ⟨by decide, by decide, by decide⟩ rfl (by decide)

end whole_instructions

end Mfi.Props.C01
