/-
  C06 — Interest accrual conserves value, is monotone, and is always applied first.
  Theorems about Mfi/Model/Bank.lean `accrueInterest` and Mfi/Model/Interest.lean, diffed against
  the real Bank::accrue_interest / calc_interest_rate_accrual_state_changes by the `bank` and `curve`
  families. The "applied first" part is a theorem over the generated handler skeletons (Mfi/Gen/Skeletons).
-/
import Mfi.Model.Bank
import Mfi.Model.Ix
import Mfi.Lemmas.BankL
import Mfi.Lemmas.FreeL
import Mfi.Lemmas.FxL
import Mfi.Lemmas.ResL
import Mfi.Props.C18
import Mfi.Lemmas.SkelL
import Mfi.Lemmas.AccrualL
import Mfi.Lemmas.WorldL

import Mfi.Lemmas.WorldTxL
namespace Mfi.Props.C06
open Mfi Mfi.Fx Mfi.Bank Mfi.Interest Mfi.Gen

theorem YEAR_pos : 0 < SECONDS_PER_YEAR := by decide

/-- **accrue_idempotent**: accruing at the time of the last accrual is a no-op. -/
theorem accrue_idempotent (b : Bank) (ir : IrCalc) : accrueInterest b ir b.lastUpdate = .ok b := by
  unfold accrueInterest
  simp

/-- value of `calc_accrued_interest_payment_per_period` on success with a non-negative rate:
    the new share value is ⌊v·(1 + ⌊apr·dt/year⌋)⌋ ≥ v -/
theorem accrued_ge {apr dt v v' : Int} (hapr : 0 ≤ apr) (hdt : 0 ≤ dt) (hv : 0 ≤ v)
    (h : accruedPerPeriod apr dt v = some v') : v ≤ v' := by
  unfold accruedPerPeriod at h
  obtain ⟨a, h1, h⟩ := Mfi.opt_bind_some h
  obtain ⟨irp, h2, h⟩ := Mfi.opt_bind_some h
  obtain ⟨f, h3, h⟩ := Mfi.opt_bind_some h
  obtain ⟨ea, _, _⟩ := mul?_some h1
  obtain ⟨_, ei, _, _⟩ := div?_some h2
  obtain ⟨ef, _, _⟩ := add?_some h3
  obtain ⟨ev, _, _⟩ := mul?_some h
  have ha0 : 0 ≤ a := by
    rw [ea]; exact Int.ediv_nonneg (mul_nonneg hapr (by unfold ofInt; have := ONE_pos; positivity)) (le_of_lt ONE_pos)
  have hi0 : 0 ≤ irp := by
    rw [ei, tdiv_nonneg (by have := ONE_pos; positivity)]
    exact Int.ediv_nonneg (by have := ONE_pos; positivity) (le_of_lt YEAR_pos)
  rw [ev, ef]
  have : v * ONE ≤ v * (ONE + irp) := mul_le_mul_of_nonneg_left (by omega) hv
  have := Int.ediv_le_ediv ONE_pos this
  rw [Int.mul_ediv_cancel _ (by decide)] at this
  exact this

/-- a fee payment is never negative when its rate is not -/
theorem payment_nonneg {apr dt v p : Int} (hapr : 0 ≤ apr) (hdt : 0 ≤ dt) (hv : 0 ≤ v)
    (h : paymentForPeriod apr dt v = some p) : 0 ≤ p := by
  unfold paymentForPeriod at h
  split at h
  · injection h with h; omega
  · obtain ⟨a, h1, h⟩ := Mfi.opt_bind_some h
    obtain ⟨c, h2, h⟩ := Mfi.opt_bind_some h
    obtain ⟨ea, _, _⟩ := mul?_some h1
    obtain ⟨ec, _, _⟩ := mul?_some h2
    obtain ⟨_, ep, _, _⟩ := div?_some h
    have ha0 : 0 ≤ a := by rw [ea]; exact Int.ediv_nonneg (mul_nonneg hv hapr) (le_of_lt ONE_pos)
    have hc0 : 0 ≤ c := by
      rw [ec]; exact Int.ediv_nonneg (mul_nonneg ha0 (by unfold ofInt; have := ONE_pos; positivity)) (le_of_lt ONE_pos)
    rw [ep, tdiv_nonneg (by have := ONE_pos; positivity)]
    exact Int.ediv_nonneg (by have := ONE_pos; positivity) (le_of_lt YEAR_pos)

theorem payment_zero_rate (dt v : Int) : paymentForPeriod 0 dt v = some 0 := by simp [paymentForPeriod]

/-- what a successful `calc_interest_rate_accrual_state_changes` guarantees -/
theorem state_changes_spec {dt ta tl asv lsv : Int} {c : IrCalc} {ch : StateChanges}
    (h : accrualStateChanges dt ta tl c asv lsv = .ok ch)
    (hdt : 0 ≤ dt) (htl : 0 ≤ tl) (hasv : 0 ≤ asv) (hlsv : 0 ≤ lsv) :
    asv ≤ ch.newAsv ∧ lsv ≤ ch.newLsv ∧ 0 ≤ ch.insuranceFees ∧ 0 ≤ ch.groupFees ∧ 0 ≤ ch.protocolFees ∧
    (c.addProgramFees = false → ch.protocolFees = 0) := by
  unfold accrualStateChanges at h
  obtain ⟨ur, _, h⟩ := Res.bind_ok h
  obtain ⟨r, hr, h⟩ := Res.bind_ok h
  obtain ⟨na, hna, h⟩ := Res.bind_ok h
  obtain ⟨nl, hnl, h⟩ := Res.bind_ok h
  obtain ⟨ins, hins, h⟩ := Res.bind_ok h
  obtain ⟨grp, hgrp, h⟩ := Res.bind_ok h
  obtain ⟨prot, hprot, h⟩ := Res.bind_ok h
  injection h with h
  subst h
  obtain ⟨_, _, _, _, _, _, _, _, _, _, _, _, _, hpf, l0, b0, g0, i0, p0⟩ := Mfi.Props.C18.calc_spec hr
  refine ⟨accrued_ge l0 hdt hasv (Res.ofOpt_ok hna), accrued_ge b0 hdt hlsv (Res.ofOpt_ok hnl),
    payment_nonneg i0 hdt htl (Res.ofOpt_ok hins), payment_nonneg g0 hdt htl (Res.ofOpt_ok hgrp),
    payment_nonneg p0 hdt htl (Res.ofOpt_ok hprot), ?_⟩
  intro hoff
  simp only [hoff, Bool.false_eq_true, ↓reduceIte, calcFeeRate] at hpf
  injection hpf with hpf
  have := Res.ofOpt_ok hprot
  rw [← hpf, payment_zero_rate] at this
  injection this with this
  exact this.symm


theorem map_ok {α β : Type} {r : Res α} {f : α → β} {y : β} (h : r.map f = .ok y) : ∃ a, r = .ok a ∧ f a = y := by
  cases r with
  | error e => cases h
  | ok a => exact ⟨a, rfl, by injection h⟩

theorem bumpFee_spec {cur add r : Int} (h : bumpFee cur add = .ok r) (h0 : 0 ≤ add) : r = cur + add := by
  unfold bumpFee at h
  split at h
  · have := (add?_some (math_ok h)).1
    omega
  · injection h with h
    omega

/-- `applyFees` only ever adds the (non-negative) collected fees to the three buckets -/
theorem applyFees_spec {b b' : Bank} {ch : StateChanges} (h : applyFees b ch = .ok b')
    (hi : 0 ≤ ch.insuranceFees) (hg : 0 ≤ ch.groupFees) (hp : 0 ≤ ch.protocolFees) :
    b' = { b with feeG := b.feeG + ch.groupFees, feeI := b.feeI + ch.insuranceFees,
                  feeP := b.feeP + ch.protocolFees } := by
  unfold applyFees at h
  obtain ⟨g, h1, h⟩ := Res.bind_ok h
  obtain ⟨i, h2, h⟩ := Res.bind_ok h
  obtain ⟨p, h3, h⟩ := Res.bind_ok h
  injection h with h
  rw [← h, bumpFee_spec h1 hg, bumpFee_spec h2 hi, bumpFee_spec h3 hp]

/-- Invariants the accrual needs from the bank (established by C02 / C07): non-negative totals and
    share values. -/
def BankOk (b : Bank) : Prop := 0 ≤ b.asv ∧ 0 ≤ b.lsv ∧ 0 ≤ b.sa ∧ 0 ≤ b.sl

/-- **accrue_spec**: everything a successful `accrue_interest` does. -/
theorem accrue_spec {b b' : Bank} {ir : IrCalc} {now : Int} (h : accrueInterest b ir now = .ok b') (hb : BankOk b) :
    -- monotone share values, shares untouched
    b.asv ≤ b'.asv ∧ b.lsv ≤ b'.lsv ∧ b'.sa = b.sa ∧ b'.sl = b.sl ∧
    -- fees never negative
    b.feeI ≤ b'.feeI ∧ b.feeG ≤ b'.feeG ∧ b.feeP ≤ b'.feeP ∧
    -- program fees are zero when disabled for the group
    (ir.addProgramFees = false → b'.feeP = b.feeP) ∧
    -- interest is brought up to `now`
    (b'.lastUpdate = now) ∧
    -- limits / flags / tag untouched
    b'.depositLimit = b.depositLimit ∧ b'.borrowLimit = b.borrowLimit ∧ b'.flags = b.flags := by
  obtain ⟨hasv, hlsv, hsa, hsl⟩ := hb
  unfold accrueInterest at h
  dsimp only at h
  split at h
  · cases h
  · split at h
    · rename_i hd0
      injection h with h
      subst h
      refine ⟨le_refl _, le_refl _, rfl, rfl, le_refl _, le_refl _, le_refl _, fun _ => rfl, by omega, rfl, rfl, rfl⟩
    · rename_i hrange hd0
      obtain ⟨ta, hta, h⟩ := Res.bind_ok h
      obtain ⟨tl, htl, h⟩ := Res.bind_ok h
      split at h
      · injection h with h
        subst h
        exact ⟨le_refl _, le_refl _, rfl, rfl, le_refl _, le_refl _, le_refl _, fun _ => rfl, rfl, rfl, rfl, rfl⟩
      · unfold accrueCore at h
        obtain ⟨ch, hch, h⟩ := Res.bind_ok h
        obtain ⟨d, _, h⟩ := Res.bind_ok h
        obtain ⟨acc, _, h⟩ := Res.bind_ok h
        have hch' : accrualStateChanges (now - b.lastUpdate) ta tl ir b.asv b.lsv = .ok ch := by
          unfold stateChangesOrErr at hch
          cases hx : accrualStateChanges (now - b.lastUpdate) ta tl ir b.asv b.lsv with
          | ok c => rw [hx] at hch; injection hch with hch; rw [hch]
          | error e => rw [hx] at hch; cases e <;> cases hch
        have etl := (mul?_some (math_ok htl)).1
        have htl0 : 0 ≤ tl := by rw [etl]; exact Int.ediv_nonneg (mul_nonneg hsl hlsv) (le_of_lt ONE_pos)
        obtain ⟨m1, m2, f1, f2, f3, f4⟩ := state_changes_spec hch' (by omega) htl0 hasv hlsv
        have e := applyFees_spec h f1 f2 f3
        rw [e]
        simp only
        exact ⟨m1, m2, trivial, trivial, by omega, by omega, by omega, fun ho => by rw [f4 ho]; omega, trivial, trivial, trivial, trivial⟩

/-- **accrue_monotone** -/
theorem accrue_monotone {b b' : Bank} {ir : IrCalc} {now : Int} (h : accrueInterest b ir now = .ok b') (hb : BankOk b) :
    b.asv ≤ b'.asv ∧ b.lsv ≤ b'.lsv := ⟨(accrue_spec h hb).1, (accrue_spec h hb).2.1⟩

/-- **fees_nonneg** and **program_fee_zero_when_disabled** -/
theorem accrue_fees {b b' : Bank} {ir : IrCalc} {now : Int} (h : accrueInterest b ir now = .ok b') (hb : BankOk b) :
    b.feeI ≤ b'.feeI ∧ b.feeG ≤ b'.feeG ∧ b.feeP ≤ b'.feeP ∧ (ir.addProgramFees = false → b'.feeP = b.feeP) := by
  have := accrue_spec h hb
  exact ⟨this.2.2.2.2.1, this.2.2.2.2.2.1, this.2.2.2.2.2.2.1, this.2.2.2.2.2.2.2.1⟩

/-- **accrue twice is a no-op**: after a successful accrual at `now`, accruing again at `now`
    changes nothing. -/
theorem accrue_twice {b b' : Bank} {ir : IrCalc} {now : Int} (h : accrueInterest b ir now = .ok b') (hb : BankOk b) :
    accrueInterest b' ir now = .ok b' := by
  have := (accrue_spec h hb).2.2.2.2.2.2.2.2.1
  rw [← this]
  exact accrue_idempotent b' ir

/-- **accrue_empty_side**: with no deposits or no debt (and the other total computable) only
    `last_update` moves. -/
theorem accrue_empty_side {b : Bank} {ir : IrCalc} {now ta tl : Int} (hnow : b.lastUpdate < now)
    (hrange : now - b.lastUpdate ≤ 9223372036854775807)
    (hta : assetAmount b b.sa = .ok ta) (htl : liabAmount b b.sl = .ok tl) (h : ta = 0 ∨ tl = 0) :
    accrueInterest b ir now = .ok { b with lastUpdate := now } := by
  unfold accrueInterest
  dsimp only
  have h1 : ¬ (now - b.lastUpdate < 0 ∨ now - b.lastUpdate > 9223372036854775807) := by omega
  have h2 : ¬ (now - b.lastUpdate = 0) := by omega
  simp only [h1, h2, ↓reduceIte, hta, htl, bind, Except.bind, h]


/-! ### "always applied first": theorems over the handler skeletons regenerated from the source -/
/-! ### instruction level: nobody transacts against stale share values

`Mfi/Model/Ix.lean` models the four user instructions (handler glue around accrual, wrapper operation, token amount);
the `ixf` family diffs it bit for bit against the REAL instructions through dispatch. -/

section ix
open Mfi.Ix

theorem wdall_sv {b b' : Bank} {x x' : Balance} {now amt : Int} (h : withdrawAll b x now = .ok (b', x', amt)) :
    b'.asv = b.asv ∧ b'.lsv = b.lsv := by
  unfold withdrawAll at h
  obtain ⟨⟨b1, x1⟩, hc, h⟩ := Res.bind_ok h
  dsimp only at h
  obtain ⟨_, _, h⟩ := Res.bind_ok h
  obtain ⟨_, _, h⟩ := Res.bind_ok h
  obtain ⟨_, _, h⟩ := Res.bind_ok h
  obtain ⟨_, _, h⟩ := Res.bind_ok h
  obtain ⟨_, _, h⟩ := Res.bind_ok h
  obtain ⟨b2, hb2, h⟩ := Res.bind_ok h
  obtain ⟨_, _, h⟩ := Res.bind_ok h
  obtain ⟨_, _, h⟩ := Res.bind_ok h
  obtain ⟨_, _, h⟩ := Res.bind_ok h
  obtain ⟨_, _, h⟩ := Res.bind_ok h
  injection h with h
  injection h with hb _
  obtain ⟨⟨r, hb1⟩, _⟩ := claim_frame hc
  obtain ⟨e2, _, _⟩ := changeAsset_frame hb2
  subst hb
  exact ⟨by rw [e2, hb1], by rw [e2, hb1]⟩

theorem repall_sv {b b' : Bank} {x x' : Balance} {now amt : Int} (h : repayAll b x now = .ok (b', x', amt)) :
    b'.asv = b.asv ∧ b'.lsv = b.lsv := by
  unfold repayAll at h
  obtain ⟨⟨b1, x1⟩, hc, h⟩ := Res.bind_ok h
  dsimp only at h
  obtain ⟨_, _, h⟩ := Res.bind_ok h
  obtain ⟨_, _, h⟩ := Res.bind_ok h
  obtain ⟨_, _, h⟩ := Res.bind_ok h
  obtain ⟨_, _, h⟩ := Res.bind_ok h
  obtain ⟨_, _, h⟩ := Res.bind_ok h
  obtain ⟨b2, hb2, h⟩ := Res.bind_ok h
  obtain ⟨_, _, h⟩ := Res.bind_ok h
  obtain ⟨_, _, h⟩ := Res.bind_ok h
  obtain ⟨_, _, h⟩ := Res.bind_ok h
  obtain ⟨_, _, h⟩ := Res.bind_ok h
  injection h with h
  injection h with hb _
  obtain ⟨⟨r, hb1⟩, _⟩ := claim_frame hc
  obtain ⟨e2, _, _⟩ := changeLiab_frame hb2
  subst hb
  exact ⟨by rw [e2, hb1], by rw [e2, hb1]⟩

/-- what "applied first" buys: the bank an instruction leaves behind carries exactly the share values of an accrual
    of the pre-state to the current time -/
def AtAccrued (e : Env) (b b' : Bank) : Prop :=
  ∃ b1, accrueInterest b e.ir e.now = .ok b1 ∧ b'.asv = b1.asv ∧ b'.lsv = b1.lsv

theorem ix_deposit_at_accrued {e : Env} {b b' : Bank} {bal x' : Option Balance} {amount t : Int} {up : Bool}
    (h : Ix.deposit e b bal amount up = .ok (b', x', t)) : AtAccrued e b b' := by
  unfold Ix.deposit at h
  obtain ⟨b1, hb1, h⟩ := Res.bind_ok h
  obtain ⟨amt, _, h⟩ := Res.bind_ok h
  refine ⟨b1, hb1, ?_⟩
  split at h
  · injection h with h; injection h with hb _; subst hb; exact ⟨rfl, rfl⟩
  · unfold depositCore at h
    obtain ⟨r, hi, h⟩ := Res.bind_ok h
    obtain ⟨_, _, h⟩ := Res.bind_ok h
    injection h with h; injection h with hb _; subst hb
    exact Mfi.FreeL.inc_sv (x' := r.2) (b' := r.1) hi

theorem ix_withdraw_at_accrued {e : Env} {b b' : Bank} {bal x' : Option Balance} {amount t : Int} {all : Bool}
    (h : Ix.withdraw e b bal amount all = .ok (b', x', t)) : AtAccrued e b b' := by
  unfold Ix.withdraw at h
  obtain ⟨b1, hb1, h⟩ := Res.bind_ok h
  refine ⟨b1, hb1, ?_⟩
  cases bal with
  | none => cases h
  | some x =>
    dsimp only at h
    split at h
    · obtain ⟨⟨b2, x2, amt⟩, hw, h⟩ := Res.bind_ok h
      injection h with h; injection h with hb _; subst hb
      exact wdall_sv hw
    · obtain ⟨_, _, h⟩ := Res.bind_ok h
      obtain ⟨⟨b2, x2⟩, hd, h⟩ := Res.bind_ok h
      injection h with h; injection h with hb _; subst hb
      exact Mfi.FreeL.dec_sv hd

theorem ix_repay_at_accrued {e : Env} {b b' : Bank} {bal x' : Option Balance} {amount t : Int} {all : Bool}
    (h : Ix.repay e b bal amount all = .ok (b', x', t)) : AtAccrued e b b' := by
  unfold Ix.repay at h
  obtain ⟨b1, hb1, h⟩ := Res.bind_ok h
  refine ⟨b1, hb1, ?_⟩
  cases bal with
  | none => cases h
  | some x =>
    dsimp only at h
    split at h
    · obtain ⟨⟨b2, x2, amt⟩, hw, h⟩ := Res.bind_ok h
      dsimp only at h
      obtain ⟨_, _, h⟩ := Res.bind_ok h
      injection h with h; injection h with hb _; subst hb
      exact repall_sv hw
    · obtain ⟨⟨b2, x2⟩, hd, h⟩ := Res.bind_ok h
      dsimp only at h
      obtain ⟨_, _, h⟩ := Res.bind_ok h
      injection h with h; injection h with hb _; subst hb
      exact Mfi.FreeL.inc_sv hd

theorem ix_borrow_at_accrued {e : Env} {b b' : Bank} {bal x' : Option Balance} {amount t : Int}
    (h : Ix.borrow e b bal amount = .ok (b', x', t)) : AtAccrued e b b' := by
  unfold Ix.borrow at h
  obtain ⟨b1, hb1, h⟩ := Res.bind_ok h
  refine ⟨b1, hb1, ?_⟩
  dsimp only at h
  obtain ⟨pre, _, h⟩ := Res.bind_ok h
  split at h
  · obtain ⟨fee, _, h⟩ := Res.bind_ok h
    obtain ⟨_, _, h⟩ := Res.bind_ok h
    obtain ⟨tot, _, h⟩ := Res.bind_ok h
    obtain ⟨⟨b2, x2⟩, hd, h⟩ := Res.bind_ok h
    dsimp only at h
    have hs := Mfi.FreeL.dec_sv hd
    split at h
    · injection h with h; injection h with hb _; subst hb; exact hs
    · split at h
      · obtain ⟨pf, _, h⟩ := Res.bind_ok h
        injection h with h; injection h with hb _; subst hb; exact hs
      · injection h with h; injection h with hb _; subst hb; exact hs
  · obtain ⟨⟨b2, x2⟩, hd, h⟩ := Res.bind_ok h
    injection h with h; injection h with hb _; subst hb
    exact Mfi.FreeL.dec_sv hd

end ix

/-! ### applied first (handler skeletons regenerated from the source) -/

open Mfi.Gen.Skel in
/-- **accrue_first**: in the handlers of deposit, withdraw, borrow, repay, close-balance and
    bankruptcy settlement the bank's `accrue_interest` call occurs, and occurs before the first
    share-moving call (wrapper operation, loss socialisation, capacity query). -/
theorem accrue_first :
    ∀ h ∈ [deposit, withdraw, borrow, repay, close_balance, handle_bankruptcy],
      occursBefore h (isAccrue .bank) isShareMove = true := by decide

open Mfi.Gen.Skel in
/-- liquidation accrues BOTH banks before touching any position -/
theorem accrue_first_liquidate :
    occursBefore liquidate (isAccrue .assetBank) isShareMove = true ∧
    occursBefore liquidate (isAccrue .liabBank) isShareMove = true := by decide

open Mfi.Gen.Skel in
/-- … and on EVERY path: each accrual sits at conditional depth 0 of its handler (never behind a flag, a kind of bank
    or an argument) -/
theorem accrue_unconditional :
    (∀ h ∈ [(deposit, deposit_cond), (withdraw, withdraw_cond), (borrow, borrow_cond), (repay, repay_cond),
            (close_balance, close_balance_cond), (handle_bankruptcy, handle_bankruptcy_cond)],
      unconditionally h.1 h.2 (isAccrue .bank) = true) ∧
    unconditionally liquidate liquidate_cond (isAccrue .assetBank) = true ∧
    unconditionally liquidate liquidate_cond (isAccrue .liabBank) = true := by decide

open Mfi.Gen.Skel in
/-- Known nuance kept visible: in `handle_bankruptcy` the eligibility test (`check_account_bankrupt`)
    runs on stored share values BEFORE the accrual; the debt written off is computed after it. -/
theorem bankruptcy_eligibility_before_accrual :
    occursBefore handle_bankruptcy (· == .checkBankrupt) (isAccrue .bank) = true := by decide

/-- a balance closure judges "dust" at the accrued share values, and leaves them behind -/
theorem ix_close_at_accrued {e : Ix.Env} {b b' : Bank} {bal x' : Option Balance} {t : Int}
    (h : Ix.closeBalance e b bal = .ok (b', x', t)) :
    ∃ b1 x, accrueInterest b e.ir e.now = .ok b1 ∧ bal = some x ∧
      ∃ r, closeBalanceOp b1 x e.now = .ok r ∧ b' = r.1 ∧ x' = some r.2 := by
  unfold Ix.closeBalance at h
  obtain ⟨b1, hb1, h⟩ := Res.bind_ok h
  cases bal with
  | none => simp [merr] at h
  | some x =>
    simp only at h
    obtain ⟨r, hr, h⟩ := Res.bind_ok h
    injection h with h; injection h with hb h; injection h with hx _
    exact ⟨b1, x, hb1, rfl, r, hr, hb.symm, hx.symm⟩

/-- **bankruptcy settles at the accrued share values**: whatever `lending_pool_handle_bankruptcy` books — the bad
    debt it sizes, the insurance it draws, the loss it socialises, the debt it clears — is the settlement of the bank
    ACCRUED to the current time; no part of it is computed from the share values of the last update. -/
theorem ix_bankruptcy_at_accrued {ir : Interest.IrCalc} {now avail : Int} {b0 : Bank} {bal : Balance} {o : BankruptcyOut}
    (h : Ix.bankruptcy ir now b0 bal avail = .ok o) :
    ∃ b1, accrueInterest b0 ir now = .ok b1 ∧ settleBankruptcy b1 bal avail now = .ok o ∧
      liabAmount b1 bal.l = .ok o.badDebt := by
  unfold Ix.bankruptcy at h
  obtain ⟨b1, hb1, h⟩ := Res.bind_ok h
  refine ⟨b1, hb1, h, ?_⟩
  unfold settleBankruptcy at h
  obtain ⟨bd, hbd, h⟩ := Res.bind_ok h
  obtain ⟨_, _, h⟩ := Res.bind_ok h
  obtain ⟨_, _, h⟩ := Res.bind_ok h
  obtain ⟨_, _, h⟩ := Res.bind_ok h
  obtain ⟨_, _, h⟩ := Res.bind_ok h
  obtain ⟨_, _, h⟩ := Res.bind_ok h
  obtain ⟨_, _, h⟩ := Res.bind_ok h
  injection h with h
  subst h
  exact hbd

/-! ### conservation across an accrual -/

/-- **accrual_conserves** — "over any accrual the increase in total debt covers the increase in total deposits plus the
    insurance, group and program fees booked, within the fixed-point allowance": with `sa`/`sl` the share totals and
    `asv`/`lsv` the share values before, what the accrual credits to depositors plus what it books into the three fee
    buckets is LESS than what it adds to the debt plus (per-period lending rate + one ulp of rate on the total debt + one
    ulp of share value per debt share), in units of 2^-96 token. Proved in Mfi/Lemmas/AccrualL.lean through every floor
    of `calc_interest_rate_accrual_state_changes`. (The other direction — nothing is charged that is not credited or
    booked, beyond rounding — is monitored with exact big integers after every real instruction; a shortfall on that
    side costs borrowers rounding dust and cannot take value from depositors.) -/
theorem accrual_conserves {dt sa sl asv lsv : Int} {c : IrCalc} {ch : StateChanges}
    (hsa : 0 ≤ sa) (hsl : 0 ≤ sl) (hasv : 0 ≤ asv) (hlsv : 0 ≤ lsv) (hdt : 0 ≤ dt)
    (hta : 0 < sa * asv / ONE) (htl : 0 < sl * lsv / ONE) (hfees : Mfi.AccrualL.FeesOk c)
    (hbase : ∀ r, calcInterestRate c (sl * lsv / ONE * ONE / (sa * asv / ONE)) = .ok r → 0 ≤ r.base)
    (h : accrualStateChanges dt (sa * asv / ONE) (sl * lsv / ONE) c asv lsv = .ok ch) :
    ∃ r, calcInterestRate c (sl * lsv / ONE * ONE / (sa * asv / ONE)) = .ok r ∧
      sa * (ch.newAsv - asv) + (ch.insuranceFees + ch.groupFees + ch.protocolFees) * ONE <
        sl * (ch.newLsv - lsv) + r.lending * dt / Mfi.AccrualL.YEAR + sl * lsv / ONE + sl :=
  Mfi.AccrualL.accrual_conserves hsa hsl hasv hlsv hdt hta htl hfees hbase h

/-- the fees an accrual books are never negative and never exceed the borrowers' spread (closed forms in AccrualL) -/
theorem fees_within_spread {c : IrCalc} {ur : Int} {r : Rates} (h : calcInterestRate c ur = .ok r) (hb : 0 ≤ r.base) :
    r.groupFee + r.insuranceFee + r.protocolFee + r.base ≤ r.borrowing :=
  Mfi.AccrualL.fees_le_spread h hb


open Mfi.Gen.Skel in
/-- **The accrual clock only moves by accruing.** A bank's `last_update` is what `accrue_interest` measures the elapsed time
    from, so whatever stamps it without accruing makes the interest of that period vanish. Besides `accrue_interest` itself the
    only writers are `update_bank_cache` (which stamps the clock when the bank has both deposits and debt) and direct
    assignments; the translator lists every such site in the whole program (`clockMovers`, regenerated on every run). Every
    site is preceded, in the same function, by a call of `accrue_interest`, except the six venue handlers, whose banks carry a
    venue asset tag and can never be borrowed from (C17 `standard_instructions_only_on_own_banks`): with no debt
    `update_bank_cache` returns before the stamp. A new site without accrual, or an existing one that loses it, breaks this. -/
theorem clock_moves_only_after_accrual :
    clockMovers.all (fun e => e.2 || ["kamino_deposit", "kamino_withdraw", "drift_deposit", "drift_withdraw",
                                      "solend_deposit", "solend_withdraw"].contains e.1) = true
    ∧ clockMovers.length = 15 := by decide

section whole_instructions
open Mfi Mfi.World Mfi.Gen Mfi.Gen.Acc Mfi.Bank

/-! ### whole instructions (Mfi/Model/World.lean) -/

/-- the books an instruction leaves carry exactly the share values of an accrual of the pre-state to the current time -/
def WorldAtAccrued (c : Ctx) (o : Out) : Prop :=
  ∃ b1, accrueInterest c.b.books c.b.ir c.now = .ok b1 ∧ o.books.asv = b1.asv ∧ o.books.lsv = b1.lsv

theorem borrowCore_sv {e : Ix.Env} {b b' : Bank} {x x' : Balance} {amount t : Int}
    (h : borrowCore e b x amount = .ok (b', x', t)) : b'.asv = b.asv ∧ b'.lsv = b.lsv := by
  unfold borrowCore at h
  obtain ⟨pre, _, h⟩ := Res.bind_ok h
  split at h
  · obtain ⟨fee, _, h⟩ := Res.bind_ok h
    obtain ⟨_, _, h⟩ := Res.bind_ok h
    obtain ⟨tot, _, h⟩ := Res.bind_ok h
    obtain ⟨⟨b2, x2⟩, hd, h⟩ := Res.bind_ok h
    dsimp only at h
    have hs := Mfi.FreeL.dec_sv hd
    split at h
    · injection h with h; injection h with hb _; subst hb; exact hs
    · split at h
      · obtain ⟨pf, _, h⟩ := Res.bind_ok h
        injection h with h; injection h with hb _; subst hb; exact hs
      · injection h with h; injection h with hb _; subst hb; exact hs
  · obtain ⟨⟨b2, x2⟩, hd, h⟩ := Res.bind_ok h
    injection h with h; injection h with hb _; subst hb
    exact Mfi.FreeL.dec_sv hd

/-- **world_instructions_run_at_accrued_values**: each of the five whole instructions, whenever it succeeds, has accrued
    the bank to the current time first, and every share it books, every token it moves and the health check at its end
    are computed at those accrued share values -/
theorem world_instructions_run_at_accrued_values (c : Ctx) :
    (∀ amt up o, World.deposit c amt up = .ok o → WorldAtAccrued c o) ∧
    (∀ amt o, World.borrow c amt = .ok o → WorldAtAccrued c o) ∧
    (∀ amt all o, World.withdraw c amt all = .ok o → WorldAtAccrued c o) ∧
    (∀ amt all o, World.repay c amt all = .ok o → WorldAtAccrued c o) ∧
    (∀ o, World.closeBalance c = .ok o → ∃ b1, accrueInterest c.b.books c.b.ir c.now = .ok b1) := by
  refine ⟨?_, ?_, ?_, ?_, ?_⟩
  · intro amt up o h
    obtain ⟨b, a, hb, _, hcore⟩ := (deposit_ok h).core
    refine ⟨b, hb, ?_⟩
    split at hcore
    · obtain ⟨_, hbk, _⟩ := hcore; rw [hbk]; exact ⟨rfl, rfl⟩
    · obtain ⟨slots, i, s, x', _, _, hd, _⟩ := hcore
      unfold Ix.depositCore at hd
      obtain ⟨r, hr, hd⟩ := Res.bind_ok hd
      obtain ⟨pre, _, hd⟩ := Res.bind_ok hd
      injection hd with hd; injection hd with hb' _
      rw [← hb']
      exact Mfi.FreeL.inc_sv (by simpa using hr)
  · intro amt o h
    obtain ⟨b, slots, i, x, x', hb, _, _, _, _, hcore, _⟩ := (borrow_ok h).core
    exact ⟨b, hb, borrowCore_sv hcore⟩
  · intro amt all o h
    obtain ⟨price, b, i, s, x', pre, _, hb, _, hcore, _⟩ := (withdraw_ok h).core
    refine ⟨b, hb, ?_⟩
    unfold withdrawCore at hcore
    cases all with
    | true => exact wdall_sv (by simpa using hcore)
    | false =>
      simp only [Bool.false_eq_true, if_false] at hcore
      obtain ⟨p, _, hcore⟩ := Res.bind_ok hcore
      obtain ⟨⟨b2, x2⟩, hd, hcore⟩ := Res.bind_ok hcore
      injection hcore with hcore; injection hcore with hb' _; subst hb'
      exact Mfi.FreeL.dec_sv hd
  · intro amt all o h
    obtain ⟨b, i, s, b', x', post, hb, _, hcore, _, hbooks, _⟩ := (repay_ok h).core
    refine ⟨b, hb, ?_⟩
    rw [hbooks]
    show b'.asv = b.asv ∧ b'.lsv = b.lsv
    unfold repayCore at hcore
    cases all with
    | true => exact repall_sv (by simpa using hcore)
    | false =>
      simp only [Bool.false_eq_true, if_false] at hcore
      obtain ⟨⟨b2, x2⟩, hd, hcore⟩ := Res.bind_ok hcore
      injection hcore with hcore; injection hcore with hb' _; subst hb'
      exact Mfi.FreeL.inc_sv hd
  · intro o h
    obtain ⟨b, i, s, x', hb, _⟩ := (close_ok h).core
    exact ⟨b, hb⟩

/-- **world_accrue_crank_spec**: the permissionless `lending_pool_accrue_bank_interest` is `accrue_interest` on a bank of the group
    passed and nothing else: anyone can bring any bank up to date at any time, and doing so changes the books exactly as the
    accrual inside any other instruction would (so the theorems about `accrue_interest` — monotone, conserving, idempotent at one
    timestamp — speak about the crank too) -/
theorem world_accrue_crank_spec {c : Ctx} {b : Bank} (h : World.accrueIx c = .ok b) :
    c.b.group = c.g.key ∧ accrueInterest c.b.books c.b.ir c.now = .ok b := by
  unfold World.accrueIx at h
  obtain ⟨_, hc, h⟩ := Res.bind_ok h
  have hc' := runChecks_ok hc
  simp only [checks, List.forall_mem_cons, List.not_mem_nil, false_imp_iff, implies_true, and_true] at hc'
  simp [evalChk, Ctx.env] at hc'
  exact ⟨hc', h⟩

/-- **world_tx_instructions_run_at_accrued_values**: and so in every COMMITTED transaction of the world machine: each deposit,
    borrow, withdrawal and repayment in it — wherever it sits, inside a flash-loan or receivership bracket or not — ran on a
    reached state with its bank accrued to the current time first, every share and token computed at those values -/
theorem world_tx_instructions_run_at_accrued_values {w w' : WState} {tx : List TOp} (h : w.runTx tx = some w') (i : Nat) :
    (∀ ai bi signer amount upTo, tx[i]? = some (.ix (.deposit ai bi signer amount upTo)) →
      ∃ (wi : WState) (a : AcctV) (b : WBank) (o : Out), w.before tx i = some wi ∧ wi.accts[ai]? = some a ∧ wi.banks[bi]? = some b ∧
        World.deposit (wi.ctx a b signer b.v.liquidityVault 0) amount upTo = .ok o ∧ WorldAtAccrued (wi.ctx a b signer b.v.liquidityVault 0) o) ∧
    (∀ ai bi signer amount, tx[i]? = some (.ix (.borrow ai bi signer amount)) →
      ∃ (wi : WState) (a : AcctV) (b : WBank) (o : Out), w.before tx i = some wi ∧ wi.accts[ai]? = some a ∧ wi.banks[bi]? = some b ∧
        World.borrow (wi.ctx a b signer b.v.liquidityVault 0) amount = .ok o ∧ WorldAtAccrued (wi.ctx a b signer b.v.liquidityVault 0) o) ∧
    (∀ ai bi signer amount all vault, tx[i]? = some (.ix (.withdraw ai bi signer amount all vault)) →
      ∃ (wi : WState) (a : AcctV) (b : WBank) (o : Out), w.before tx i = some wi ∧ wi.accts[ai]? = some a ∧ wi.banks[bi]? = some b ∧
        World.withdraw (wi.ctx a b signer b.v.liquidityVault vault) amount all = .ok o ∧ WorldAtAccrued (wi.ctx a b signer b.v.liquidityVault vault) o) ∧
    (∀ ai bi signer amount all, tx[i]? = some (.ix (.repay ai bi signer amount all)) →
      ∃ (wi : WState) (a : AcctV) (b : WBank) (o : Out), w.before tx i = some wi ∧ wi.accts[ai]? = some a ∧ wi.banks[bi]? = some b ∧
        World.repay (wi.ctx a b signer b.v.liquidityVault 0) amount all = .ok o ∧ WorldAtAccrued (wi.ctx a b signer b.v.liquidityVault 0) o) := by
  refine ⟨?_, ?_, ?_, ?_⟩
  · intro ai bi signer amount upTo hi
    obtain ⟨wi, a, b, o, hbef, ha, hb, ho⟩ := tx_deposit_ran h hi
    exact ⟨wi, a, b, o, hbef, ha, hb, ho, (world_instructions_run_at_accrued_values _).1 amount upTo o ho⟩
  · intro ai bi signer amount hi
    obtain ⟨wi, a, b, o, hbef, ha, hb, ho⟩ := tx_borrow_ran h hi
    exact ⟨wi, a, b, o, hbef, ha, hb, ho, (world_instructions_run_at_accrued_values _).2.1 amount o ho⟩
  · intro ai bi signer amount all vault hi
    obtain ⟨wi, a, b, o, hbef, ha, hb, ho⟩ := tx_withdraw_ran h hi
    exact ⟨wi, a, b, o, hbef, ha, hb, ho, (world_instructions_run_at_accrued_values _).2.2.1 amount all o ho⟩
  · intro ai bi signer amount all hi
    obtain ⟨wi, a, b, o, hbef, ha, hb, ho⟩ := tx_repay_ran h hi
    exact ⟨wi, a, b, o, hbef, ha, hb, ho, (world_instructions_run_at_accrued_values _).2.2.2.1 amount all o ho⟩

/-- **world_accrue_crank_twice_is_a_no_op**: the permissionless crank run again at the same time on the books it left — by anybody,
    any number of times — leaves them exactly as they are (accruing twice at the same time is a no-op, as a whole instruction) -/
theorem world_accrue_crank_twice_is_a_no_op {c : Ctx} {b : Bank} (h : World.accrueIx c = .ok b) (hb : BankOk c.b.books) :
    World.accrueIx { c with b := { c.b with books := b } } = .ok b := by
  unfold World.accrueIx at h ⊢
  obtain ⟨u, hc, h⟩ := Res.bind_ok h
  have hc2 : runChecks ({ c with b := { c.b with books := b } } : Ctx).env (checks .LendingPoolAccrueBankInterest) = .ok u := by
    have hc' := runChecks_ok hc
    simp only [checks, List.forall_mem_cons, List.not_mem_nil, false_imp_iff, implies_true, and_true] at hc'
    simp [evalChk, Ctx.env] at hc'
    cases u
    simp [checks, runChecks, evalChk, Ctx.env, hc']
  rw [hc2]
  exact accrue_twice h hb

end whole_instructions

end Mfi.Props.C06
