/-
  C04 — Risk gate: a successful borrow or withdraw leaves the account initially healthy.

  Theorems about Mfi/Model/Risk.lean (diffed against the REAL risk engine through the real
  `lending_account_pulse_health` instruction by the `health` family) and about the handler skeletons
  regenerated from the source.
-/
import Mfi.Model.Risk
import Mfi.Lemmas.FxL
import Mfi.Lemmas.ResL
import Mfi.Lemmas.SkelL
import Mfi.Lemmas.AccL
import Mfi.Props.C09
import Mathlib.Tactic.Ring

namespace Mfi.Props.C04
open Mfi Mfi.Fx Mfi.Risk Mfi.Gen Mfi.Props.C09

/-! ### the valuation is the exact product, rounded down by a bounded amount -/

theorem exp10fx_pos {d e : Int} (h : exp10fx d = .ok e) : 0 < e := by
  unfold exp10fx at h
  split at h
  · cases hg : EXP_10_I80F48[d.toNat]? with
    | none => rw [hg] at h; cases h
    | some x =>
      rw [hg] at h
      injection h with h
      subst h
      have : ∀ y ∈ EXP_10_I80F48, 0 < y := by decide
      exact this x (List.mem_of_getElem? hg)
  · cases h

/-- **value_bounds**: `calc_value(amount, price, decimals, weight)` never exceeds the exact product
    amount·weight·price/10^decimals and falls short of it by less than
    1 + 2^48/10^d + price/10^d ulps (all roundings are downwards, each loses less than one ulp). -/
theorem value_bounds {amount price d w v scale : Int} (hs : exp10fx d = .ok scale)
    (ha : 0 ≤ amount) (hp : 0 ≤ price) (hw : 0 ≤ w) (h : calcValue amount price d (some w) = .ok v) :
    0 ≤ v ∧ v * scale * ONE ≤ amount * w * price ∧
    amount * w * price < (v + 1) * scale * ONE + ONE * ONE + ONE * price := by
  have hsc := exp10fx_pos hs
  have hONE := ONE_pos
  unfold calcValue at h
  split at h
  · rename_i h0
    injection h with h
    subst h; subst h0
    refine ⟨by omega, by simp, ?_⟩
    have : 0 ≤ ONE * price := Int.mul_nonneg (by omega) hp
    have : 0 < scale * ONE := Int.mul_pos hsc hONE
    simp only [Int.zero_mul, Int.zero_add, Int.one_mul]
    have : 0 < ONE * ONE := Int.mul_pos hONE hONE
    omega
  · rw [hs] at h
    obtain ⟨sc, hsc', h⟩ := Res.bind_ok h
    injection hsc' with hsc'
    subst hsc'
    obtain ⟨x1, hx1, h⟩ := Res.bind_ok h
    obtain ⟨x2, hx2, h⟩ := Res.bind_ok h
    have e1 : x1 = amount * w / ONE := by
      cases hm : mul? amount w with
      | none => rw [hm] at hx1; cases hx1
      | some y => rw [hm] at hx1; injection hx1 with hx1; subst hx1; exact (mul?_some hm).1
    obtain ⟨e2, _, _⟩ := mul?_some (rmath_ok hx2)
    obtain ⟨_, e3, _, _⟩ := div?_some (rmath_ok h)
    have n1 : 0 ≤ amount * w := Int.mul_nonneg ha hw
    have x1n : 0 ≤ x1 := by rw [e1]; exact Int.ediv_nonneg n1 (by omega)
    have n2 : 0 ≤ x1 * price := Int.mul_nonneg x1n hp
    have x2n : 0 ≤ x2 := by rw [e2]; exact Int.ediv_nonneg n2 (by omega)
    rw [tdiv_nonneg (Int.mul_nonneg x2n (by omega))] at e3
    -- floor inequalities
    have f1a : x1 * ONE ≤ amount * w := by rw [e1]; exact Int.ediv_mul_le _ (by omega)
    have f1b : amount * w < (x1 + 1) * ONE := by rw [e1]; exact Int.lt_ediv_add_one_mul_self _ hONE
    have f2a : x2 * ONE ≤ x1 * price := by rw [e2]; exact Int.ediv_mul_le _ (by omega)
    have f2b : x1 * price < (x2 + 1) * ONE := by rw [e2]; exact Int.lt_ediv_add_one_mul_self _ hONE
    have f3a : v * scale ≤ x2 * ONE := by rw [e3]; exact Int.ediv_mul_le _ (by omega)
    have f3b : x2 * ONE < (v + 1) * scale := by rw [e3]; exact Int.lt_ediv_add_one_mul_self _ hsc
    have vn : 0 ≤ v := by rw [e3]; exact Int.ediv_nonneg (Int.mul_nonneg x2n (by omega)) (by omega)
    refine ⟨vn, ?_, ?_⟩
    · -- v·sc·ONE ≤ x2·ONE·ONE ≤ x1·price·ONE ≤ amount·w·price
      calc v * scale * ONE ≤ x2 * ONE * ONE := Int.mul_le_mul_of_nonneg_right f3a (by omega)
        _ ≤ x1 * price * ONE := Int.mul_le_mul_of_nonneg_right f2a (by omega)
        _ = x1 * ONE * price := by rw [Int.mul_assoc, Int.mul_comm price ONE, ← Int.mul_assoc]
        _ ≤ amount * w * price := Int.mul_le_mul_of_nonneg_right f1a hp
    · -- amount·w·price < (x1+1)·ONE·price = x1·price·ONE + ONE·price < (x2+1)·ONE·ONE + ONE·price …
      have s1 : amount * w * price ≤ ((x1 + 1) * ONE - 1) * price := Int.mul_le_mul_of_nonneg_right (by omega) hp
      have s2 : x1 * price * ONE ≤ ((x2 + 1) * ONE - 1) * ONE := Int.mul_le_mul_of_nonneg_right (by omega) (by omega)
      have s3 : x2 * ONE * ONE ≤ ((v + 1) * scale - 1) * ONE := Int.mul_le_mul_of_nonneg_right (by omega) (by omega)
      have r1 : ((x1 + 1) * ONE - 1) * price = x1 * price * ONE + ONE * price - price := by ring
      have r2 : ((x2 + 1) * ONE - 1) * ONE = x2 * ONE * ONE + ONE * ONE - ONE := by ring
      have r3 : ((v + 1) * scale - 1) * ONE = (v + 1) * scale * ONE - ONE := by ring
      omega

/-! ### the gate itself -/

/-- **gate_iff**: the initial-margin check passes exactly when the three requirement sums are computable,
    weighted assets cover weighted liabilities, and the risk-tier rule holds. -/
theorem gate_iff (ps : List Pos) :
    checkInitHealth ps = .ok () ↔ ∃ c, components ps .initial = .ok c ∧ c.liabs ≤ c.assets ∧ riskTiers ps = .ok () := by
  unfold checkInitHealth
  cases hc : components ps .initial with
  | error e => simp [bind, Except.bind]
  | ok c =>
    simp only [bind, Except.bind]
    by_cases hh : c.assets ≥ c.liabs
    · simp only [hh, ↓reduceIte]
      constructor
      · intro h; exact ⟨c, rfl, hh, h⟩
      · intro ⟨c', e, _, h⟩; exact h
    · simp only [hh, ↓reduceIte]
      constructor
      · intro h; cases h
      · intro ⟨c', e, h1, _⟩
        injection e with e
        subst e
        exact absurd h1 hh

/-- an isolated-tier debt must be the account's only debt -/
theorem riskTiers_iff (ps : List Pos) :
    riskTiers ps = .ok () ↔
      (((ps.filter fun p => !liabEmpty p).filter fun p => p.bank.tier == .isolated).length = 0 ∨
       (ps.filter fun p => !liabEmpty p).length = 1) := by
  unfold riskTiers
  simp only
  split
  · rename_i h
    exact ⟨fun _ => h, fun _ => rfl⟩
  · rename_i h
    constructor
    · intro hh; cases hh
    · intro hh; exact absurd hh h

/-- positions holding less than one native unit on both sides count as empty: they add nothing -/
theorem dust_counts_as_empty (p : Pos) (r : Req) (em : List Entry)
    (ha : p.a < EMPTY_BALANCE_THRESHOLD) (hl : p.l < EMPTY_BALANCE_THRESHOLD) :
    weightedValue p r em = .ok (0, 0, 0, 0) := by
  unfold weightedValue getSide
  have h1 : ¬ (p.l ≥ EMPTY_BALANCE_THRESHOLD) := by omega
  have h2 : ¬ (p.a ≥ EMPTY_BALANCE_THRESHOLD) := by omega
  simp [ha, hl, h1, h2, bind, Except.bind]

/-- collateral is valued at the LOW-biased, debt at the HIGH-biased price of the requirement's price type
    (time-weighted for the initial and equity requirements, real-time for maintenance), with the bank's
    weight for that requirement -/
theorem debt_valued_high (p : Pos) (r : Req) (v pr : Int) (h : weightedLiab p r = .ok (v, pr)) :
    ∃ amt, priceOfType p.feed r.ptype (some .high) p.bank.maxConf = .ok pr ∧ liabAmount p.bank p.l = .ok amt ∧
      calcValue amt pr p.bank.decimals (some (bankWeight p.bank r .liabs)) = .ok v := by
  unfold weightedLiab at h
  simp only at h
  cases hf : p.feed with
  | failed c => rw [hf] at h; simp [Risk.err] at h
  | fixed x =>
    rw [hf] at h
    simp only [bind, Except.bind] at h
    revert h
    cases priceOfType (Feed.fixed x) r.ptype (some Bias.high) p.bank.maxConf with
    | error e => intro h; cases h
    | ok hi =>
      simp only
      cases liabAmount p.bank p.l with
      | error e => intro h; cases h
      | ok amt =>
        simp only
        cases hcv : calcValue amt hi p.bank.decimals (some (bankWeight p.bank r Side.liabs)) with
        | error e => intro h; cases h
        | ok vv => intro h; injection h with h; injection h with h1 h2; subst h1; subst h2; exact ⟨amt, rfl, rfl, hcv⟩
  | pyth x =>
    rw [hf] at h
    simp only [bind, Except.bind] at h
    revert h
    cases priceOfType (Feed.pyth x) r.ptype (some Bias.high) p.bank.maxConf with
    | error e => intro h; cases h
    | ok hi =>
      simp only
      cases liabAmount p.bank p.l with
      | error e => intro h; cases h
      | ok amt =>
        simp only
        cases hcv : calcValue amt hi p.bank.decimals (some (bankWeight p.bank r Side.liabs)) with
        | error e => intro h; cases h
        | ok vv => intro h; injection h with h; injection h with h1 h2; subst h1; subst h2; exact ⟨amt, rfl, rfl, hcv⟩
  | swb x y =>
    rw [hf] at h
    simp only [bind, Except.bind] at h
    revert h
    cases priceOfType (Feed.swb x y) r.ptype (some Bias.high) p.bank.maxConf with
    | error e => intro h; cases h
    | ok hi =>
      simp only
      cases liabAmount p.bank p.l with
      | error e => intro h; cases h
      | ok amt =>
        simp only
        cases hcv : calcValue amt hi p.bank.decimals (some (bankWeight p.bank r Side.liabs)) with
        | error e => intro h; cases h
        | ok vv => intro h; injection h with h; injection h with h1 h2; subst h1; subst h2; exact ⟨amt, rfl, rfl, hcv⟩

/-! ### where the gate sits (handler skeletons regenerated from the source) -/

section tables
open Mfi.Gen.Skel

/-- borrow and every withdraw handler run the initial-margin check AFTER their last balance operation and
    after the re-sort; nothing that moves balances follows it -/
theorem health_check_after_last_operation :
    ∀ l ∈ [borrow, withdraw, kamino_withdraw, drift_withdraw, solend_withdraw],
      (match lastIdx l isOp, lastIdx l (· == .healthInit), lastIdx l (· == .sort) with
       | some o, some h, some s => decide (o < h ∧ s < h)
       | _, _, _ => false) = true := by decide

/-- the check is skipped only behind a test of the receivership flag (withdraw side) — borrow refuses
    accounts in receivership outright — and inside `check_account_init_health` on the flash-loan flag -/
theorem only_receivership_and_flashloan_skip :
    (∀ l ∈ [withdraw, kamino_withdraw, drift_withdraw, solend_withdraw],
      occursBefore l (· == .acctFlag .inReceivership) (· == .healthInit) = true) ∧
    occursBefore borrow (· == .acctFlag .inReceivership) isOp = true ∧
    re_check_init_health = [.acctFlag .inFlashloan] := by decide

/-- the check is unconditional in borrow, flash-loan end and liquidation, and sits under exactly one
    condition (the receivership test) in the four withdraw handlers -/
theorem health_check_conditions :
    condAt borrow borrow_cond (· == .healthInit) = some 0 ∧
    condAt end_flashloan end_flashloan_cond (· == .healthInit) = some 0 ∧
    condAt liquidate liquidate_cond (· == .healthInit) = some 0 ∧
    condAt withdraw withdraw_cond (· == .healthInit) = some 1 ∧
    condAt kamino_withdraw kamino_withdraw_cond (· == .healthInit) = some 1 ∧
    condAt drift_withdraw drift_withdraw_cond (· == .healthInit) = some 1 ∧
    condAt solend_withdraw solend_withdraw_cond (· == .healthInit) = some 1 := by decide

/-- flash loans end with the same check (C11) and liquidation checks the liquidator -/
theorem liquidator_and_flashloan_checked :
    end_flashloan.getLast? = some .healthInit ∧ liquidate.getLast? = some .healthInit := by decide

end tables

/-! ### non-vacuity -/

def demoBank : BankR :=
  { asv := ONE, lsv := ONE, sa := 1000 * ONE, decimals := 6, aInit := ONE / 2, aMaint := ONE / 2, lInit := ONE, lMaint := ONE,
    tier := .collateral, reduceOnly := false, emodeTag := 0, emode := [], initLimit := 0, maxConf := 0 }

example : checkInitHealth [ { bank := demoBank, a := 2000000 * ONE, l := 0, feed := .fixed ONE },
                            { bank := demoBank, a := 0, l := 900000 * ONE, feed := .fixed ONE } ] = .ok () := by rfl
example : checkInitHealth [ { bank := demoBank, a := 2000000 * ONE, l := 0, feed := .fixed ONE },
                            { bank := demoBank, a := 0, l := 1100000 * ONE, feed := .fixed ONE } ] = .error (.err E.RiskEngineInitRejected) := by rfl

end Mfi.Props.C04
