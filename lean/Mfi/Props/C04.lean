/-
  C04 — Risk gate: a successful borrow or withdraw leaves the account initially healthy.

  Theorems about Mfi/Model/Risk.lean (diffed against the REAL risk engine through the real
  `lending_account_pulse_health` instruction by the `health` family) and about the handler skeletons
  regenerated from the source.
-/
import Mfi.Model.Risk
import Mfi.Lemmas.FxL
import Mfi.Lemmas.ResL
import Mfi.Lemmas.SkelL
import Mfi.Lemmas.AccL
import Mfi.Props.C09
import Mathlib.Tactic.Ring
import Mfi.Lemmas.ConstL
import Mfi.Lemmas.WorldL

namespace Mfi.Props.C04
open Mfi Mfi.Fx Mfi.Risk Mfi.Gen Mfi.Props.C09

/-! ### the valuation is the exact product, rounded down by a bounded amount -/

theorem exp10fx_pos {d e : Int} (h : exp10fx d = .ok e) : 0 < e := by
  unfold exp10fx at h
  split at h
  · cases hg : POW10FX[d.toNat]? with
    | none => rw [hg] at h; cases h
    | some x =>
      rw [hg] at h
      injection h with h
      subst h
      have : ∀ y ∈ POW10FX, 0 < y := by decide
      exact this x (List.mem_of_getElem? hg)
  · cases h

/-- **value_bounds**: `calc_value(amount, price, decimals, weight)` never exceeds the exact product
    amount·weight·price/10^decimals and falls short of it by less than
    1 + 2^48/10^d + price/10^d ulps (all roundings are downwards, each loses less than one ulp). -/
theorem value_bounds {amount price d w v scale : Int} (hs : exp10fx d = .ok scale)
    (ha : 0 ≤ amount) (hp : 0 ≤ price) (hw : 0 ≤ w) (h : calcValue amount price d (some w) = .ok v) :
    0 ≤ v ∧ v * scale * ONE ≤ amount * w * price ∧
    amount * w * price < (v + 1) * scale * ONE + ONE * ONE + ONE * price := by
  have hsc := exp10fx_pos hs
  have hONE := ONE_pos
  unfold calcValue at h
  split at h
  · rename_i h0
    injection h with h
    subst h; subst h0
    refine ⟨by omega, by simp, ?_⟩
    have : 0 ≤ ONE * price := Int.mul_nonneg (by omega) hp
    have : 0 < scale * ONE := Int.mul_pos hsc hONE
    simp only [Int.zero_mul, Int.zero_add, Int.one_mul]
    have : 0 < ONE * ONE := Int.mul_pos hONE hONE
    omega
  · rw [hs] at h
    obtain ⟨sc, hsc', h⟩ := Res.bind_ok h
    injection hsc' with hsc'
    subst hsc'
    obtain ⟨x1, hx1, h⟩ := Res.bind_ok h
    obtain ⟨x2, hx2, h⟩ := Res.bind_ok h
    have e1 : x1 = amount * w / ONE := by
      cases hm : mul? amount w with
      | none => rw [hm] at hx1; cases hx1
      | some y => rw [hm] at hx1; injection hx1 with hx1; subst hx1; exact (mul?_some hm).1
    obtain ⟨e2, _, _⟩ := mul?_some (rmath_ok hx2)
    obtain ⟨_, e3, _, _⟩ := div?_some (rmath_ok h)
    have n1 : 0 ≤ amount * w := Int.mul_nonneg ha hw
    have x1n : 0 ≤ x1 := by rw [e1]; exact Int.ediv_nonneg n1 (by omega)
    have n2 : 0 ≤ x1 * price := Int.mul_nonneg x1n hp
    have x2n : 0 ≤ x2 := by rw [e2]; exact Int.ediv_nonneg n2 (by omega)
    rw [tdiv_nonneg (Int.mul_nonneg x2n (by omega))] at e3
    -- floor inequalities
    have f1a : x1 * ONE ≤ amount * w := by rw [e1]; exact Int.ediv_mul_le _ (by omega)
    have f1b : amount * w < (x1 + 1) * ONE := by rw [e1]; exact Int.lt_ediv_add_one_mul_self _ hONE
    have f2a : x2 * ONE ≤ x1 * price := by rw [e2]; exact Int.ediv_mul_le _ (by omega)
    have f2b : x1 * price < (x2 + 1) * ONE := by rw [e2]; exact Int.lt_ediv_add_one_mul_self _ hONE
    have f3a : v * scale ≤ x2 * ONE := by rw [e3]; exact Int.ediv_mul_le _ (by omega)
    have f3b : x2 * ONE < (v + 1) * scale := by rw [e3]; exact Int.lt_ediv_add_one_mul_self _ hsc
    have vn : 0 ≤ v := by rw [e3]; exact Int.ediv_nonneg (Int.mul_nonneg x2n (by omega)) (by omega)
    refine ⟨vn, ?_, ?_⟩
    · -- v·sc·ONE ≤ x2·ONE·ONE ≤ x1·price·ONE ≤ amount·w·price
      calc v * scale * ONE ≤ x2 * ONE * ONE := Int.mul_le_mul_of_nonneg_right f3a (by omega)
        _ ≤ x1 * price * ONE := Int.mul_le_mul_of_nonneg_right f2a (by omega)
        _ = x1 * ONE * price := by rw [Int.mul_assoc, Int.mul_comm price ONE, ← Int.mul_assoc]
        _ ≤ amount * w * price := Int.mul_le_mul_of_nonneg_right f1a hp
    · -- amount·w·price < (x1+1)·ONE·price = x1·price·ONE + ONE·price < (x2+1)·ONE·ONE + ONE·price …
      have s1 : amount * w * price ≤ ((x1 + 1) * ONE - 1) * price := Int.mul_le_mul_of_nonneg_right (by omega) hp
      have s2 : x1 * price * ONE ≤ ((x2 + 1) * ONE - 1) * ONE := Int.mul_le_mul_of_nonneg_right (by omega) (by omega)
      have s3 : x2 * ONE * ONE ≤ ((v + 1) * scale - 1) * ONE := Int.mul_le_mul_of_nonneg_right (by omega) (by omega)
      have r1 : ((x1 + 1) * ONE - 1) * price = x1 * price * ONE + ONE * price - price := by ring
      have r2 : ((x2 + 1) * ONE - 1) * ONE = x2 * ONE * ONE + ONE * ONE - ONE := by ring
      have r3 : ((v + 1) * scale - 1) * ONE = (v + 1) * scale * ONE - ONE := by ring
      omega

/-! ### the gate itself -/

/-- **gate_iff**: the initial-margin check passes exactly when the three requirement sums are computable,
    weighted assets cover weighted liabilities, and the risk-tier rule holds. -/
theorem gate_iff (ps : List Pos) :
    checkInitHealth ps = .ok () ↔ ∃ c, components ps .initial = .ok c ∧ c.liabs ≤ c.assets ∧ riskTiers ps = .ok () := by
  unfold checkInitHealth
  cases hc : components ps .initial with
  | error e => simp [bind, Except.bind]
  | ok c =>
    simp only [bind, Except.bind]
    by_cases hh : c.assets ≥ c.liabs
    · simp only [hh, ↓reduceIte]
      constructor
      · intro h; exact ⟨c, rfl, hh, h⟩
      · intro ⟨c', e, _, h⟩; exact h
    · simp only [hh, ↓reduceIte]
      constructor
      · intro h; cases h
      · intro ⟨c', e, h1, _⟩
        injection e with e
        subst e
        exact absurd h1 hh

/-- an isolated-tier debt must be the account's only debt -/
theorem riskTiers_iff (ps : List Pos) :
    riskTiers ps = .ok () ↔
      (((ps.filter fun p => !liabEmpty p).filter fun p => p.bank.tier == .isolated).length = 0 ∨
       (ps.filter fun p => !liabEmpty p).length = 1) := by
  unfold riskTiers
  simp only
  split
  · rename_i h
    exact ⟨fun _ => h, fun _ => rfl⟩
  · rename_i h
    constructor
    · intro hh; cases hh
    · intro hh; exact absurd hh h

/-- positions holding less than one native unit on both sides count as empty: they add nothing -/
theorem dust_counts_as_empty (p : Pos) (r : Req) (em : List Entry)
    (ha : p.a < EMPTY_BALANCE_THRESHOLD) (hl : p.l < EMPTY_BALANCE_THRESHOLD) :
    weightedValue p r em = .ok (0, 0, 0, 0) := by
  unfold weightedValue getSide
  have h1 : ¬ (p.l ≥ EMPTY_BALANCE_THRESHOLD) := by omega
  have h2 : ¬ (p.a ≥ EMPTY_BALANCE_THRESHOLD) := by omega
  simp [ha, hl, h1, h2, bind, Except.bind]

/-- collateral is valued at the LOW-biased, debt at the HIGH-biased price of the requirement's price type
    (time-weighted for the initial and equity requirements, real-time for maintenance), with the bank's
    weight for that requirement -/
theorem debt_valued_high (p : Pos) (r : Req) (v pr : Int) (h : weightedLiab p r = .ok (v, pr)) :
    ∃ amt, priceOfType p.feed r.ptype (some .high) p.bank.maxConf = .ok pr ∧ liabAmount p.bank p.l = .ok amt ∧
      calcValue amt pr p.bank.decimals (some (bankWeight p.bank r .liabs)) = .ok v := by
  unfold weightedLiab at h
  simp only at h
  cases hf : p.feed with
  | failed c => rw [hf] at h; simp [Risk.err] at h
  | fixed x =>
    rw [hf] at h
    simp only [bind, Except.bind] at h
    revert h
    cases priceOfType (Feed.fixed x) r.ptype (some Bias.high) p.bank.maxConf with
    | error e => intro h; cases h
    | ok hi =>
      simp only
      cases liabAmount p.bank p.l with
      | error e => intro h; cases h
      | ok amt =>
        simp only
        cases hcv : calcValue amt hi p.bank.decimals (some (bankWeight p.bank r Side.liabs)) with
        | error e => intro h; cases h
        | ok vv => intro h; injection h with h; injection h with h1 h2; subst h1; subst h2; exact ⟨amt, rfl, rfl, hcv⟩
  | pyth x =>
    rw [hf] at h
    simp only [bind, Except.bind] at h
    revert h
    cases priceOfType (Feed.pyth x) r.ptype (some Bias.high) p.bank.maxConf with
    | error e => intro h; cases h
    | ok hi =>
      simp only
      cases liabAmount p.bank p.l with
      | error e => intro h; cases h
      | ok amt =>
        simp only
        cases hcv : calcValue amt hi p.bank.decimals (some (bankWeight p.bank r Side.liabs)) with
        | error e => intro h; cases h
        | ok vv => intro h; injection h with h; injection h with h1 h2; subst h1; subst h2; exact ⟨amt, rfl, rfl, hcv⟩
  | swb x y =>
    rw [hf] at h
    simp only [bind, Except.bind] at h
    revert h
    cases priceOfType (Feed.swb x y) r.ptype (some Bias.high) p.bank.maxConf with
    | error e => intro h; cases h
    | ok hi =>
      simp only
      cases liabAmount p.bank p.l with
      | error e => intro h; cases h
      | ok amt =>
        simp only
        cases hcv : calcValue amt hi p.bank.decimals (some (bankWeight p.bank r Side.liabs)) with
        | error e => intro h; cases h
        | ok vv => intro h; injection h with h; injection h with h1 h2; subst h1; subst h2; exact ⟨amt, rfl, rfl, hcv⟩

/-! ### a liquidation buffer: at equal prices, initially healthy ⇒ healthy at maintenance level (C13's consequence) -/

/-- what C13 establishes for every accepted bank configuration, as far as the valuation reads it -/
def Coherent (b : BankR) : Prop :=
  0 ≤ b.aInit ∧ b.aInit ≤ b.aMaint ∧ 0 ≤ b.lMaint ∧ b.lMaint ≤ b.lInit ∧ 0 ≤ b.asv ∧ 0 ≤ b.lsv

def EntriesOk (em : List Entry) : Prop := ∀ e ∈ em, e.tag ≠ 0 → 0 ≤ e.wInit ∧ e.wInit ≤ e.wMaint

theorem calcValue_mono_weight {amt price d w1 w2 v1 v2 : Int} (ha : 0 ≤ amt) (hp : 0 ≤ price) (hw1 : 0 ≤ w1) (hw : w1 ≤ w2)
    (h1 : calcValue amt price d (some w1) = .ok v1) (h2 : calcValue amt price d (some w2) = .ok v2) : 0 ≤ v1 ∧ v1 ≤ v2 := by
  have hONE := ONE_pos
  unfold calcValue at h1 h2
  split at h1
  · rename_i h0
    simp only [h0, ↓reduceIte] at h2
    injection h1 with h1; injection h2 with h2; omega
  · rename_i h0
    simp only [h0, ↓reduceIte] at h2
    obtain ⟨sc, hs, h1⟩ := Res.bind_ok h1
    obtain ⟨sc2, hs2, h2⟩ := Res.bind_ok h2
    rw [hs] at hs2
    injection hs2 with hs2
    subst hs2
    have hsc := exp10fx_pos hs
    obtain ⟨x1, hx1, h1⟩ := Res.bind_ok h1
    obtain ⟨y1, hy1, h1⟩ := Res.bind_ok h1
    obtain ⟨x2, hx2, h2⟩ := Res.bind_ok h2
    obtain ⟨y2, hy2, h2⟩ := Res.bind_ok h2
    have ex1 : x1 = amt * w1 / ONE := by
      cases hm : mul? amt w1 with
      | none => rw [hm] at hx1; cases hx1
      | some y => rw [hm] at hx1; injection hx1 with hx1; subst hx1; exact (mul?_some hm).1
    have ex2 : x2 = amt * w2 / ONE := by
      cases hm : mul? amt w2 with
      | none => rw [hm] at hx2; cases hx2
      | some y => rw [hm] at hx2; injection hx2 with hx2; subst hx2; exact (mul?_some hm).1
    have ey1 := (mul?_some (rmath_ok hy1)).1
    have ey2 := (mul?_some (rmath_ok hy2)).1
    obtain ⟨_, ev1, _, _⟩ := div?_some (rmath_ok h1)
    obtain ⟨_, ev2, _, _⟩ := div?_some (rmath_ok h2)
    have hx : x1 ≤ x2 := by
      rw [ex1, ex2]; exact Int.ediv_le_ediv hONE (Int.mul_le_mul_of_nonneg_left hw ha)
    have x1n : 0 ≤ x1 := by rw [ex1]; exact Int.ediv_nonneg (Int.mul_nonneg ha hw1) (by omega)
    have hy : y1 ≤ y2 := by
      rw [ey1, ey2]; exact Int.ediv_le_ediv hONE (Int.mul_le_mul_of_nonneg_right hx hp)
    have y1n : 0 ≤ y1 := by rw [ey1]; exact Int.ediv_nonneg (Int.mul_nonneg x1n hp) (by omega)
    rw [tdiv_nonneg (Int.mul_nonneg y1n (by omega))] at ev1
    rw [tdiv_nonneg (Int.mul_nonneg (by omega) (by omega))] at ev2
    rw [ev1, ev2]
    exact ⟨Int.ediv_nonneg (Int.mul_nonneg y1n (by omega)) (by omega),
      Int.ediv_le_ediv hsc (Int.mul_le_mul_of_nonneg_right hy (by omega))⟩

theorem weight0_mono {b : BankR} {em : List Entry} (hc : Coherent b) (hem : EntriesOk em) :
    0 ≤ assetWeight0 b .initial em ∧ assetWeight0 b .initial em ≤ assetWeight0 b .maint em := by
  obtain ⟨c1, c2, _⟩ := hc
  unfold assetWeight0
  cases hfe : findWithTag em b.emodeTag with
  | none => simp only [bankWeight]; exact ⟨c1, c2⟩
  | some e =>
    simp only [bankWeight]
    have hmem : e ∈ em ∧ e.tag ≠ 0 := by
      unfold findWithTag at hfe
      split at hfe
      · cases hfe
      · rename_i hne
        have := List.find?_some hfe
        simp only [beq_iff_eq] at this
        exact ⟨List.mem_of_find?_eq_some hfe, by omega⟩
    have := (hem e hmem.1 hmem.2).2
    exact ⟨Int.le_trans c1 (Int.le_max_left _ _),
      Int.max_le.mpr ⟨Int.le_trans c2 (Int.le_max_left _ _), Int.le_trans this (Int.le_max_right _ _)⟩⟩

/-- the init-limit discount is a factor in [0, 1] -/
theorem discount_le_one {b : BankR} {price d : Int} (h : initDiscount b price = .ok (some d)) (hl : 0 ≤ b.initLimit) :
    0 ≤ d ∧ d ≤ ONE := by
  have hONE := ONE_pos
  unfold initDiscount at h
  split at h
  · cases h
  · obtain ⟨ta, _, h⟩ := Res.bind_ok h
    obtain ⟨tot, _, h⟩ := Res.bind_ok h
    dsimp only at h
    split at h
    · rename_i hgt
      cases hq : Risk.math (div? (ofInt b.initLimit) tot) with
      | error e => rw [hq] at h; cases h
      | ok q =>
        rw [hq] at h
        injection h with h
        injection h with h
        subst h
        obtain ⟨_, eq, _, _⟩ := div?_some (rmath_ok hq)
        have hlim0 : 0 ≤ ofInt b.initLimit := Int.mul_nonneg hl (by omega)
        have htot : 0 < tot := by omega
        rw [tdiv_nonneg (Int.mul_nonneg hlim0 (by omega))] at eq
        rw [eq]
        refine ⟨Int.ediv_nonneg (Int.mul_nonneg hlim0 (by omega)) (by omega), ?_⟩
        have h1 : ofInt b.initLimit * ONE ≤ tot * ONE := Int.mul_le_mul_of_nonneg_right (by omega) (by omega)
        have h2 := Int.ediv_le_ediv htot h1
        rw [Int.mul_comm tot ONE, Int.mul_ediv_cancel _ (by omega : tot ≠ 0)] at h2
        exact h2
    · injection h with h; cases h

theorem weight_init_le {b : BankR} {em : List Entry} {price w : Int} (hc : Coherent b) (hem : EntriesOk em) (hl : 0 ≤ b.initLimit)
    (h : assetWeight b .initial em price = .ok w) : 0 ≤ w ∧ w ≤ assetWeight0 b .maint em := by
  obtain ⟨w0n, w0m⟩ := weight0_mono hc hem
  have hONE := ONE_pos
  unfold assetWeight at h
  simp only [↓reduceIte] at h
  obtain ⟨d, hd, h⟩ := Res.bind_ok h
  cases d with
  | none => injection h with h; subst h; exact ⟨w0n, w0m⟩
  | some dd =>
    simp only at h
    obtain ⟨d0, d1⟩ := discount_le_one hd hl
    have e := (mul?_some (rmath_ok h)).1
    have h1 : assetWeight0 b .initial em * dd ≤ assetWeight0 b .initial em * ONE := Int.mul_le_mul_of_nonneg_left d1 w0n
    have h2 := Int.ediv_le_ediv hONE h1
    rw [Int.mul_ediv_cancel _ (by omega : ONE ≠ 0)] at h2
    rw [e]
    exact ⟨Int.ediv_nonneg (Int.mul_nonneg w0n d0) (by omega), by omega⟩

/-- one position, priced by a type- and bias-independent (fixed) price: its initial asset value is at most its
    maintenance asset value, and its initial debt value at least its maintenance debt value -/
theorem position_init_vs_maint {p : Pos} {em : List Entry} {price ai li am lm pi pm : Int} {ci cm : Nat}
    (hf : p.feed = .fixed price) (hp : 0 ≤ price) (hc : Coherent p.bank) (hlim : 0 ≤ p.bank.initLimit)
    (ha : 0 ≤ p.a) (hl : 0 ≤ p.l) (hem : EntriesOk em)
    (hi : weightedValue p .initial em = .ok (ai, li, pi, ci)) (hm : weightedValue p .maint em = .ok (am, lm, pm, cm)) :
    0 ≤ ai ∧ ai ≤ am ∧ 0 ≤ lm ∧ lm ≤ li := by
  obtain ⟨c1, c2, c3, c4, c5, c6⟩ := hc
  have hONE := ONE_pos
  unfold weightedValue at hi hm
  cases hs : getSide p with
  | error e => rw [hs] at hi; cases hi
  | ok side =>
    rw [hs] at hi hm
    simp only [bind, Except.bind] at hi hm
    cases side with
    | none =>
      injection hi with hi; injection hm with hm
      injection hi with e1 hi; injection hi with e2 _
      injection hm with f1 hm; injection hm with f2 _
      omega
    | some sd =>
      cases sd with
      | liabs =>
        simp only at hi hm
        cases hwi : weightedLiab p .initial with
        | error e => rw [hwi] at hi; cases hi
        | ok ri =>
          cases hwm : weightedLiab p .maint with
          | error e => rw [hwm] at hm; cases hm
          | ok rm =>
            rw [hwi] at hi; rw [hwm] at hm
            obtain ⟨vi, pri⟩ := ri
            obtain ⟨vm, prm⟩ := rm
            simp only at hi hm
            injection hi with hi; injection hm with hm
            injection hi with e1 hi; injection hi with e2 _
            injection hm with f1 hm; injection hm with f2 _
            subst e1; subst e2; subst f1; subst f2
            obtain ⟨amt1, hp1, ha1, hv1⟩ := debt_valued_high p .initial _ _ hwi
            obtain ⟨amt2, hp2, ha2, hv2⟩ := debt_valued_high p .maint _ _ hwm
            rw [ha1] at ha2
            injection ha2 with ha2
            subst ha2
            rw [hf] at hp1 hp2
            simp only [priceOfType] at hp1 hp2
            injection hp1 with hp1; injection hp2 with hp2
            subst hp1; subst hp2
            have hamt : 0 ≤ amt1 := by
              unfold liabAmount at ha1
              rw [(mul?_some (rmath_ok ha1)).1]
              exact Int.ediv_nonneg (Int.mul_nonneg hl c6) (by omega)
            have := calcValue_mono_weight hamt hp c3 c4 hv2 hv1
            exact ⟨by omega, by omega, this.1, this.2⟩
      | assets =>
        simp only at hi hm
        cases hwi : weightedAsset p .initial em with
        | error e => rw [hwi] at hi; cases hi
        | ok ri =>
          cases hwm : weightedAsset p .maint em with
          | error e => rw [hwm] at hm; cases hm
          | ok rm =>
            rw [hwi] at hi; rw [hwm] at hm
            obtain ⟨vi, pri, eci⟩ := ri
            obtain ⟨vm, prm, ecm⟩ := rm
            simp only at hi hm
            injection hi with hi; injection hm with hm
            injection hi with e1 hi; injection hi with e2 _
            injection hm with f1 hm; injection hm with f2 _
            subst e1; subst e2; subst f1; subst f2
            unfold weightedAsset at hwi hwm
            cases ht : p.bank.tier with
            | isolated =>
              simp only [ht] at hwi hwm
              injection hwi with hwi; injection hwm with hwm
              injection hwi with g1 _; injection hwm with g2 _
              omega
            | collateral =>
              simp only [ht, hf] at hwi hwm
              -- maintenance side
              have hnm : ¬ (p.bank.reduceOnly = true ∧ Req.maint = Req.initial) := by simp
              simp only [hnm, ↓reduceIte, priceOfType, bind, Except.bind] at hwm
              have ewm : assetWeight p.bank .maint em price = .ok (assetWeight0 p.bank .maint em) := by
                unfold assetWeight; simp
              rw [ewm] at hwm
              simp only at hwm
              cases hamt : assetAmount p.bank p.a with
              | error e => rw [hamt] at hwm; cases hwm
              | ok amt =>
                rw [hamt] at hwm
                simp only at hwm
                have hamt0 : 0 ≤ amt := by
                  unfold assetAmount at hamt
                  rw [(mul?_some (rmath_ok hamt)).1]
                  exact Int.ediv_nonneg (Int.mul_nonneg ha c5) (by omega)
                cases hvm : calcValue amt price p.bank.decimals (some (assetWeight0 p.bank .maint em)) with
                | error e => rw [hvm] at hwm; cases hwm
                | ok vm' =>
                  rw [hvm] at hwm
                  injection hwm with hwm
                  injection hwm with g2 _
                  subst g2
                  obtain ⟨w0n, w0m⟩ := weight0_mono ⟨c1, c2, c3, c4, c5, c6⟩ hem
                  have vm0 := (calcValue_mono_weight hamt0 hp (Int.le_trans w0n w0m) (Int.le_refl _) hvm hvm).1
                  -- initial side
                  by_cases hro : p.bank.reduceOnly = true
                  · simp only [hro, and_self, ↓reduceIte] at hwi
                    injection hwi with hwi
                    injection hwi with g1 _
                    subst g1
                    exact ⟨by omega, vm0, by omega, by omega⟩
                  · simp only [hro, false_and, and_true, and_self, ↓reduceIte, priceOfType, bind, Except.bind] at hwi
                    cases hw : assetWeight p.bank .initial em price with
                    | error e => rw [hw] at hwi; cases hwi
                    | ok w =>
                      rw [hw] at hwi
                      simp only at hwi
                      rw [hamt] at hwi
                      simp only at hwi
                      cases hvi : calcValue amt price p.bank.decimals (some w) with
                      | error e => rw [hvi] at hwi; cases hwi
                      | ok vi' =>
                        rw [hvi] at hwi
                        injection hwi with hwi
                        injection hwi with g1 _
                        subst g1
                        obtain ⟨wn, wle⟩ := weight_init_le ⟨c1, c2, c3, c4, c5, c6⟩ hem hlim hw
                        have := calcValue_mono_weight hamt0 hp wn wle hvi hvm
                        exact ⟨this.1, this.2, by omega, by omega⟩

theorem loop_init_vs_maint {em : List Entry} :
    ∀ (ps : List Pos) (i : Nat) (ai am : Comps) (ci cm : Comps),
      (∀ p ∈ ps, (∃ price, p.feed = .fixed price ∧ 0 ≤ price) ∧ Coherent p.bank ∧ 0 ≤ p.bank.initLimit ∧ 0 ≤ p.a ∧ 0 ≤ p.l) →
      EntriesOk em → ai.assets ≤ am.assets → am.liabs ≤ ai.liabs →
      compsLoop .initial em ps i ai = (ci, none) → compsLoop .maint em ps i am = (cm, none) →
      ci.assets ≤ cm.assets ∧ cm.liabs ≤ ci.liabs := by
  intro ps
  induction ps with
  | nil =>
    intro i ai am ci cm _ _ h1 h2 hi hm
    unfold compsLoop at hi hm
    injection hi with hi _; injection hm with hm _
    subst hi; subst hm
    exact ⟨h1, h2⟩
  | cons p rest ih =>
    intro i ai am ci cm hall hem h1 h2 hi hm
    unfold compsLoop at hi hm
    cases hwi : weightedValue p .initial em with
    | error e => rw [hwi] at hi; injection hi with _ hi; cases hi
    | ok ri =>
      cases hwm : weightedValue p .maint em with
      | error e => rw [hwm] at hm; injection hm with _ hm; cases hm
      | ok rm =>
        rw [hwi] at hi; rw [hwm] at hm
        obtain ⟨avi, lvi, pri, eci⟩ := ri
        obtain ⟨avm, lvm, prm, ecm⟩ := rm
        simp only at hi hm
        obtain ⟨⟨price, hf, hp⟩, hc, hlim, ha, hl⟩ := hall p (List.mem_cons_self ..)
        obtain ⟨q1, q2, q3, q4⟩ := position_init_vs_maint hf hp hc hlim ha hl hem hwi hwm
        cases hai : add? (if eci ≠ 0 ∧ ai.errIdx.isNone = true then { ai with errIdx := some i, errCode := eci } else ai).assets avi with
        | none => rw [hai] at hi; simp at hi
        | some a1 =>
          cases hli : add? (if eci ≠ 0 ∧ ai.errIdx.isNone = true then { ai with errIdx := some i, errCode := eci } else ai).liabs lvi with
          | none => rw [hai, hli] at hi; simp at hi
          | some l1 =>
            cases ham : add? (if ecm ≠ 0 ∧ am.errIdx.isNone = true then { am with errIdx := some i, errCode := ecm } else am).assets avm with
            | none => rw [ham] at hm; simp at hm
            | some a2 =>
              cases hlm : add? (if ecm ≠ 0 ∧ am.errIdx.isNone = true then { am with errIdx := some i, errCode := ecm } else am).liabs lvm with
              | none => rw [ham, hlm] at hm; simp at hm
              | some l2 =>
                rw [hai, hli] at hi
                rw [ham, hlm] at hm
                simp only at hi hm
                have e1 := (add?_some hai).1
                have e2 := (add?_some hli).1
                have e3 := (add?_some ham).1
                have e4 := (add?_some hlm).1
                have x1 : (if eci ≠ 0 ∧ ai.errIdx.isNone = true then { ai with errIdx := some i, errCode := eci } else ai).assets = ai.assets := by split <;> rfl
                have x2 : (if eci ≠ 0 ∧ ai.errIdx.isNone = true then { ai with errIdx := some i, errCode := eci } else ai).liabs = ai.liabs := by split <;> rfl
                have x3 : (if ecm ≠ 0 ∧ am.errIdx.isNone = true then { am with errIdx := some i, errCode := ecm } else am).assets = am.assets := by split <;> rfl
                have x4 : (if ecm ≠ 0 ∧ am.errIdx.isNone = true then { am with errIdx := some i, errCode := ecm } else am).liabs = am.liabs := by split <;> rfl
                rw [x1] at e1; rw [x2] at e2; rw [x3] at e3; rw [x4] at e4
                exact ih (i + 1) _ _ ci cm (fun q hq => hall q (List.mem_cons_of_mem _ hq)) hem (by simp only; omega) (by simp only; omega) hi hm

/-! e-mode reconciliation takes minima per column, so it preserves `0 ≤ init ≤ maint` -/
def AccOk (acc : List (Entry × Nat)) : Prop := ∀ x ∈ acc, 0 ≤ x.1.wInit ∧ x.1.wInit ≤ x.1.wMaint

theorem mergeEntry_ok {acc : List (Entry × Nat)} {e : Entry} (ha : AccOk acc) (he : e.tag ≠ 0 → 0 ≤ e.wInit ∧ e.wInit ≤ e.wMaint) :
    AccOk (mergeEntry acc e) := by
  unfold mergeEntry
  split
  · exact ha
  · rename_i hne
    replace he := he hne
    split
    · intro x hx
      rcases List.mem_append.1 hx with h | h
      · exact ha x h
      · simp only [List.mem_cons, List.mem_nil_iff, or_false] at h; subst h; exact he
    · intro x hx
      obtain ⟨y, hy, rfl⟩ := List.mem_map.1 hx
      have := ha y hy
      split
      · dsimp only
        split <;> split <;> omega
      · exact this

theorem foldMerge_ok : ∀ (cfg : List Entry) (acc : List (Entry × Nat)), AccOk acc → EntriesOk cfg →
    AccOk (cfg.foldl mergeEntry acc) := by
  intro cfg
  induction cfg with
  | nil => intro acc ha _; exact ha
  | cons e rest ih =>
    intro acc ha hc
    exact ih _ (mergeEntry_ok ha (hc e (List.mem_cons_self ..))) (fun q hq => hc q (List.mem_cons_of_mem _ hq))

theorem foldConfigs_ok : ∀ (configs : List (List Entry)) (acc : List (Entry × Nat)), AccOk acc →
    (∀ cfg ∈ configs, EntriesOk cfg) → AccOk (configs.foldl (fun acc cfg => cfg.foldl mergeEntry acc) acc) := by
  intro configs
  induction configs with
  | nil => intro acc ha _; exact ha
  | cons c rest ih =>
    intro acc ha hc
    exact ih _ (foldMerge_ok c acc ha (hc c (List.mem_cons_self ..))) (fun q hq => hc q (List.mem_cons_of_mem _ hq))

/-- **reconcile_ok**: whatever set of bank e-mode configurations is reconciled, if each is coherent
    (C13 `emode_config_coherent`) the account's effective e-mode is coherent -/
theorem reconcile_ok (configs : List (List Entry)) (h : ∀ cfg ∈ configs, EntriesOk cfg) : EntriesOk (reconcile configs) := by
  unfold reconcile
  split
  · intro e he; cases he
  · intro e he
    obtain ⟨x, hx, rfl⟩ := List.mem_map.1 he
    intro _
    exact foldConfigs_ok _ [] (fun _ h => by cases h) h x (List.mem_filter.1 hx).1

theorem accountEmode_ok (ps : List Pos) (h : ∀ p ∈ ps, EntriesOk p.bank.emode) : EntriesOk (accountEmode ps) := by
  unfold accountEmode
  apply reconcile_ok
  intro cfg hc
  obtain ⟨p, hp, rfl⟩ := List.mem_map.1 hc
  exact h p (List.mem_filter.1 hp).1

/-- **init_implies_maint** (the consequence clause of C13): at equal (type- and bias-independent) prices, under
    coherent bank configurations and coherent e-mode entries, an account that passes the initial-margin
    check also has non-negative maintenance health — with or without e-mode, with or without the init-limit
    discount and reduce-only banks: borrowing to the limit never makes an account immediately liquidatable. -/
theorem init_implies_maint (ps : List Pos) (ci cm : Comps)
    (hall : ∀ p ∈ ps, (∃ price, p.feed = .fixed price ∧ 0 ≤ price) ∧ Coherent p.bank ∧ 0 ≤ p.bank.initLimit ∧ 0 ≤ p.a ∧ 0 ≤ p.l)
    (hem : ∀ p ∈ ps, EntriesOk p.bank.emode)
    (hi : components ps .initial = .ok ci) (hm : components ps .maint = .ok cm) (hok : ci.liabs ≤ ci.assets) :
    ci.assets ≤ cm.assets ∧ cm.liabs ≤ ci.liabs ∧ cm.liabs ≤ cm.assets := by
  unfold components componentsP at hi hm
  cases h1 : compsLoop .initial (accountEmode ps) ps 0 { assets := 0, liabs := 0, errIdx := none, errCode := 0 } with
  | mk c1 f1 =>
    cases h2 : compsLoop .maint (accountEmode ps) ps 0 { assets := 0, liabs := 0, errIdx := none, errCode := 0 } with
    | mk c2 f2 =>
      rw [h1] at hi; rw [h2] at hm
      cases f1 with
      | some f => simp at hi
      | none =>
        cases f2 with
        | some f => simp at hm
        | none =>
          simp only at hi hm
          injection hi with hi; injection hm with hm
          subst hi; subst hm
          obtain ⟨r1, r2⟩ := loop_init_vs_maint ps 0 _ _ c1 c2 hall (accountEmode_ok ps hem) (Int.le_refl _) (Int.le_refl _) h1 h2
          exact ⟨r1, r2, by omega⟩

/-! ### where the gate sits (handler skeletons regenerated from the source) -/

section tables
open Mfi.Gen.Skel

/-- borrow and every withdraw handler run the initial-margin check AFTER their last balance operation and
    after the re-sort; nothing that moves balances follows it -/
theorem health_check_after_last_operation :
    ∀ l ∈ [borrow, withdraw, kamino_withdraw, drift_withdraw, solend_withdraw],
      (match lastIdx l isOp, lastIdx l (· == .healthInit), lastIdx l (· == .sort) with
       | some o, some h, some s => decide (o < h ∧ s < h)
       | _, _, _ => false) = true := by decide

/-- the check is skipped only behind a test of the receivership flag (withdraw side) — borrow refuses
    accounts in receivership outright — and inside `check_account_init_health` on the flash-loan flag -/
theorem only_receivership_and_flashloan_skip :
    (∀ l ∈ [withdraw, kamino_withdraw, drift_withdraw, solend_withdraw],
      occursBefore l (· == .acctFlag .inReceivership) (· == .healthInit) = true) ∧
    occursBefore borrow (· == .acctFlag .inReceivership) isOp = true ∧
    re_check_init_health = [.acctFlag .inFlashloan] := by decide

/-- the check is unconditional in borrow, flash-loan end and liquidation, and sits under exactly one
    condition (the receivership test) in the four withdraw handlers -/
theorem health_check_conditions :
    condAt borrow borrow_cond (· == .healthInit) = some 0 ∧
    condAt end_flashloan end_flashloan_cond (· == .healthInit) = some 0 ∧
    condAt liquidate liquidate_cond (· == .healthInit) = some 0 ∧
    condAt withdraw withdraw_cond (· == .healthInit) = some 1 ∧
    condAt kamino_withdraw kamino_withdraw_cond (· == .healthInit) = some 1 ∧
    condAt drift_withdraw drift_withdraw_cond (· == .healthInit) = some 1 ∧
    condAt solend_withdraw solend_withdraw_cond (· == .healthInit) = some 1 := by decide

/-- flash loans end with the same check (C11) and liquidation checks the liquidator -/
theorem liquidator_and_flashloan_checked :
    end_flashloan.getLast? = some .healthInit ∧ liquidate.getLast? = some .healthInit := by decide

end tables

/-! ### non-vacuity -/

def demoBank : BankR :=
  { asv := ONE, lsv := ONE, sa := 1000 * ONE, decimals := 6, aInit := ONE / 2, aMaint := ONE / 2, lInit := ONE, lMaint := ONE,
    tier := .collateral, reduceOnly := false, emodeTag := 0, emode := [], initLimit := 0, maxConf := 0 }

def demoBank2 : BankR := { demoBank with aMaint := ONE * 3 / 4, lInit := ONE * 5 / 4, lMaint := ONE * 9 / 8 }
def demoAcct : List Pos := [ { bank := demoBank2, a := 2000000 * ONE, l := 0, feed := .fixed ONE },
                            { bank := demoBank2, a := 0, l := 700000 * ONE, feed := .fixed ONE } ]

example : checkInitHealth [ { bank := demoBank, a := 2000000 * ONE, l := 0, feed := .fixed ONE },
                            { bank := demoBank, a := 0, l := 900000 * ONE, feed := .fixed ONE } ] = .ok () := by rfl
example : checkInitHealth [ { bank := demoBank, a := 2000000 * ONE, l := 0, feed := .fixed ONE },
                            { bank := demoBank, a := 0, l := 1100000 * ONE, feed := .fixed ONE } ] = .error (.err E.RiskEngineInitRejected) := by rfl

/-- non-vacuity of `init_implies_maint`: a borrower at the initial limit meets every hypothesis and both
    valuations succeed -/
example : ∃ ci cm, components demoAcct .initial = .ok ci ∧ components demoAcct .maint = .ok cm ∧ ci.liabs ≤ ci.assets ∧
    cm.liabs ≤ cm.assets ∧ cm.liabs < ci.liabs ∧ ci.assets < cm.assets :=
  ⟨_, _, rfl, rfl, by decide, by decide, by decide, by decide⟩
example : ∀ p ∈ demoAcct, (∃ price, p.feed = .fixed price ∧ 0 ≤ price) ∧ Coherent p.bank ∧ 0 ≤ p.bank.initLimit ∧ 0 ≤ p.a ∧ 0 ≤ p.l := by
  intro p hp
  simp only [demoAcct, List.mem_cons, List.mem_nil_iff, or_false] at hp
  rcases hp with rfl | rfl <;> exact ⟨⟨_, rfl, by decide⟩, by unfold Coherent; decide, by decide, by decide, by decide⟩

/-- every valuation (calc_value) divides by the row of the scaling table chosen by the bank's balance decimals: that table is exactly the powers of ten 10^0 .. 10^23 as I80F48 (regenerated from the real
    constants on every run; the model computes its own powers of ten and is diffed against the real functions across
    ALL 24 decimals) -/
theorem scaling_table_is_powers_of_ten : Mfi.Gen.EXP_10_I80F48 = Mfi.Fx.POW10FX := Mfi.ConstL.exp10_table_exact

/-- "positions of less than one native unit count as empty": the threshold is exactly one unit -/
theorem one_native_unit : Mfi.Gen.EMPTY_BALANCE_THRESHOLD = Mfi.Fx.ONE := by decide

section whole_instructions
open Mfi Mfi.World Mfi.Gen Mfi.Gen.Acc

/-! ### whole instructions (Mfi/Model/World.lean) -/

/-- the slot array and the books an instruction leaves behind pass the initial-margin check: the portfolio the engine sees
    is built from EXACTLY that post-state (every active slot, in slot order, the operated bank with its new books) -/
def LeavesHealthy (c : Ctx) (o : Out) : Prop :=
  ∃ ps, portfolio c o.slots o.books = .ok ps ∧ Risk.checkInitHealth ps = .ok ()

theorem initHealth_ok {c : Ctx} {slots : List Account.Slot} {b : Bank.Bank} (hf : flag c ACCOUNT_IN_FLASHLOAN = false)
    (h : initHealth c slots b = .ok ()) : ∃ ps, portfolio c slots b = .ok ps ∧ Risk.checkInitHealth ps = .ok () := by
  unfold initHealth at h
  rw [hf] at h
  simp only [Bool.false_eq_true, if_false] at h
  obtain ⟨ps, hps, h⟩ := Res.bind_ok h
  exact ⟨ps, hps, h⟩

/-- **world_borrow_leaves_healthy**: a successful borrow outside a flash loan leaves a post-state that passes the initial
    check (borrow is refused in receivership altogether) -/
theorem world_borrow_leaves_healthy {c : Ctx} {amt : Int} {o : Out} (h : World.borrow c amt = .ok o)
    (hf : flag c ACCOUNT_IN_FLASHLOAN = false) : LeavesHealthy c o ∧ flag c ACCOUNT_IN_RECEIVERSHIP = false :=
  ⟨initHealth_ok hf (borrow_ok h).health, (borrow_ok h).flags.2⟩

/-- **world_withdraw_leaves_healthy**: a successful withdrawal outside a flash loan and outside receivership leaves a
    post-state that passes the initial check -/
theorem world_withdraw_leaves_healthy {c : Ctx} {amt : Int} {all : Bool} {o : Out} (h : World.withdraw c amt all = .ok o)
    (hf : flag c ACCOUNT_IN_FLASHLOAN = false) (hr : flag c ACCOUNT_IN_RECEIVERSHIP = false) : LeavesHealthy c o := by
  have hh := (withdraw_ok h).health
  unfold withdrawHealth at hh
  rw [hr] at hh
  exact initHealth_ok hf (by simpa using hh)

/-- … and what passing means (`gate_iff`): weighted assets cover weighted liabilities at the initial requirement and an
    isolated-tier debt is the only debt -/
theorem world_gate_meaning {c : Ctx} {o : Out} (h : LeavesHealthy c o) :
    ∃ ps comps, portfolio c o.slots o.books = .ok ps ∧ Risk.components ps .initial = .ok comps ∧
      comps.liabs ≤ comps.assets ∧ Risk.riskTiers ps = .ok () := by
  obtain ⟨ps, hps, hc⟩ := h
  obtain ⟨comps, h1, h2, h3⟩ := (gate_iff ps).1 hc
  exact ⟨ps, comps, hps, h1, h2, h3⟩

end whole_instructions

end Mfi.Props.C04
