/-
  C20 — Integration exchange-rate math never overstates value and fails closed.
  Theorems about Mfi/Model/Integr.lean (diffed against type-crate price.rs and the three venue
  mocks by the `integr` family).
-/
import Mfi.Model.Integr
import Mfi.Lemmas.FxL
import Mfi.Gen.Oracles
import Mfi.Lemmas.ConstL
import Mfi.Lemmas.AccL
import Mfi.Props.C08
import Mfi.Props.C02
import Mfi.Model.Venue
import Mfi.Lemmas.ResL

namespace Mfi.Props.C20
open Mfi Mfi.Fx Mfi.Integr

theorem toU64?_some {a n : Int} (h : toU64? a = some n) : n = a / ONE ∧ 0 ≤ n ∧ n ≤ U64MAX := by
  unfold toU64? at h
  simp only at h
  split at h
  · rename_i hr
    injection h with h
    subst h
    exact ⟨rfl, hr.1, hr.2⟩
  · cases h

theorem toI64?_some {a n : Int} (h : toI64? a = some n) : n = a / ONE := by
  unfold toI64? at h
  simp only at h
  split at h
  · injection h with h; exact h.symm
  · cases h

theorem opt_bind_some {α β : Type} {x : Option α} {f : α → Option β} {b : β} (h : (x >>= f) = some b) :
    ∃ a, x = some a ∧ f a = some b := by
  cases x with
  | none => cases h
  | some a => exact ⟨a, rfl, h⟩

/-! ### adjust_* : floor of price × ratio, monotone, fail-closed -/

/-- what `adjust_u64` returns when it returns: exactly ⌊p·r⌋ (r as the rational bits/2^48), in range -/
theorem adjustU64_some {p r q : Int} (h : adjustU64 p r = some q) :
    q = p * r / ONE ∧ 0 ≤ q ∧ q ≤ U64MAX := by
  unfold adjustU64 at h
  obtain ⟨adj, h1, h2⟩ := opt_bind_some h
  obtain ⟨e, _, _⟩ := mul?_some h1
  obtain ⟨e2, b0, b1⟩ := toU64?_some h2
  have : p * ONE * r / ONE = p * r := by
    rw [mul_assoc, mul_comm ONE r, ← mul_assoc]; exact Int.mul_ediv_cancel _ (by decide)
  rw [this] at e
  subst e
  exact ⟨e2, b0, b1⟩

theorem adjustI64_some {p r q : Int} (h : adjustI64 p r = some q) : q = p * r / ONE := by
  unfold adjustI64 at h
  obtain ⟨adj, h1, h2⟩ := opt_bind_some h
  obtain ⟨e, _, _⟩ := mul?_some h1
  have e2 := toI64?_some h2
  have : p * ONE * r / ONE = p * r := by
    rw [mul_assoc, mul_comm ONE r, ← mul_assoc]; exact Int.mul_ediv_cancel _ (by decide)
  rw [this] at e
  subst e
  exact e2

theorem adjustI128_some {p r q : Int} (h : adjustI128 p r = some q) : q = p * r / ONE := by
  unfold adjustI128 at h
  obtain ⟨fx, h0, h⟩ := opt_bind_some h
  obtain ⟨adj, h1, h2⟩ := opt_bind_some h
  unfold i80FromI128 at h0
  split at h0
  · injection h0 with h0
    subst h0
    obtain ⟨e, _, _⟩ := mul?_some h1
    have : p * ONE * r / ONE = p * r := by
      rw [mul_assoc, mul_comm ONE r, ← mul_assoc]; exact Int.mul_ediv_cancel _ (by decide)
    rw [this] at e
    subst e
    injection h2 with h2
    exact h2.symm
  · cases h0

/-- **adjust_floor**: the adjusted value never exceeds price × rate and is within one unit of it -/
theorem adjust_floor_bounds (p r : Int) : (p * r / ONE) * ONE ≤ p * r ∧ p * r < (p * r / ONE + 1) * ONE :=
  ⟨mulfloor_le _, mulfloor_gt _⟩

/-- **adjust_monotone_price** -/
theorem adjust_mono_price {p p' r : Int} (hr : 0 ≤ r) (h : p ≤ p') : p * r / ONE ≤ p' * r / ONE :=
  Int.ediv_le_ediv ONE_pos (mul_le_mul_of_nonneg_right h hr)

/-- **adjust_monotone_rate** -/
theorem adjust_mono_rate {p r r' : Int} (hp : 0 ≤ p) (h : r ≤ r') : p * r / ONE ≤ p * r' / ONE :=
  Int.ediv_le_ediv ONE_pos (mul_le_mul_of_nonneg_left h hp)

/-- **fail_closed (adjust_u64)**: a value is returned iff the fixed-point product fits I80F48 and
    its floor fits u64 — never a wrapped value. -/
theorem adjustU64_iff (p r q : Int) :
    adjustU64 p r = some q ↔
      (MIN ≤ p * r ∧ p * r ≤ MAX ∧ q = p * r / ONE ∧ 0 ≤ q ∧ q ≤ U64MAX) := by
  have hc : p * ONE * r / ONE = p * r := by
    rw [mul_assoc, mul_comm ONE r, ← mul_assoc]; exact Int.mul_ediv_cancel _ (by decide)
  constructor
  · intro h
    have hs := adjustU64_some h
    unfold adjustU64 at h
    obtain ⟨adj, h1, _⟩ := opt_bind_some h
    obtain ⟨e, b0, b1⟩ := mul?_some h1
    rw [hc] at e
    subst e
    exact ⟨b0, b1, hs⟩
  · rintro ⟨h0, h1, rfl, h2, h3⟩
    unfold adjustU64
    have : mul? (p * ONE) r = some (p * r) := by
      have := mul?_eq (a := p * ONE) (b := r) (by rw [hc]; exact h0) (by rw [hc]; exact h1)
      rw [hc] at this; exact this
    simp only [this, Option.bind_eq_bind, Option.bind_some, toU64?]
    simp [h2, h3]


/-! ### Kamino / Solend: collateral ⇄ liquidity conversions round down -/

theorem mulone_cancel (x c : Int) : x * ONE * c / ONE = x * c := by
  rw [mul_assoc, mul_comm ONE c, ← mul_assoc]; exact Int.mul_ediv_cancel _ (by decide)

/-- value of `liquidity_to_collateral_from_scaled` when it succeeds (supplies positive) -/
theorem l2c_some {x L C y : Int} (hx : 0 ≤ x) (hL : 0 < L) (hC : 0 < C)
    (h : liquidityToCollateral x L C = some y) : y = x * C * ONE / L / ONE ∧ 0 ≤ y ∧ y ≤ U64MAX := by
  unfold liquidityToCollateral at h
  have : ¬ L = 0 := by omega
  simp only [this, ↓reduceIte] at h
  obtain ⟨a, h1, h⟩ := opt_bind_some h
  obtain ⟨b, h2, h3⟩ := opt_bind_some h
  obtain ⟨e1, _, _⟩ := mul?_some h1
  rw [mulone_cancel] at e1
  obtain ⟨_, e2, _, _⟩ := div?_some h2
  rw [tdiv_nonneg (by subst e1; have := ONE_pos; positivity)] at e2
  obtain ⟨e3, b0, b1⟩ := toU64?_some h3
  subst e1; subst e2
  exact ⟨e3, b0, b1⟩

theorem c2l_some {c L C z : Int} (hc : 0 ≤ c) (hL : 0 < L) (hC : 0 < C)
    (h : collateralToLiquidity c L C = some z) : z = c * L * ONE / C / ONE ∧ 0 ≤ z ∧ z ≤ U64MAX := by
  unfold collateralToLiquidity at h
  have : ¬ C = 0 := by omega
  simp only [this, ↓reduceIte] at h
  obtain ⟨a, h1, h⟩ := opt_bind_some h
  obtain ⟨b, h2, h3⟩ := opt_bind_some h
  obtain ⟨e1, _, _⟩ := mul?_some h1
  rw [mulone_cancel] at e1
  obtain ⟨_, e2, _, _⟩ := div?_some h2
  rw [tdiv_nonneg (by subst e1; have := ONE_pos; positivity)] at e2
  obtain ⟨e3, b0, b1⟩ := toU64?_some h3
  subst e1; subst e2
  exact ⟨e3, b0, b1⟩

/-- ⌊⌊a·b·2^48 / c⌋ / 2^48⌋ · c ≤ a·b   (the conversion result times the divisor never exceeds the dividend) -/
theorem conv_floor_le {a b c : Int} (ha : 0 ≤ a) (hb : 0 ≤ b) (hc : 0 < c) :
    (a * b * ONE / c / ONE) * c ≤ a * b := by
  have h1 : (a * b * ONE / c / ONE) * ONE ≤ a * b * ONE / c := mulfloor_le _
  have h2 : (a * b * ONE / c) * c ≤ a * b * ONE := Int.ediv_mul_le _ (by omega)
  have h3 : 0 ≤ a * b * ONE / c / ONE :=
    Int.ediv_nonneg (Int.ediv_nonneg (by have := ONE_pos; positivity) (le_of_lt hc)) (le_of_lt ONE_pos)
  have : (a * b * ONE / c / ONE) * ONE * c ≤ a * b * ONE := by
    calc (a * b * ONE / c / ONE) * ONE * c ≤ (a * b * ONE / c) * c := mul_le_mul_of_nonneg_right h1 (le_of_lt hc)
      _ ≤ a * b * ONE := h2
  have hO := ONE_pos
  nlinarith

/-- **kamino_solend_round_trip (deposit then withdraw)**: converting liquidity to collateral and
    back never yields more liquidity than was put in — for ALL supplies and amounts. -/
theorem round_trip_liquidity {x L C y z : Int} (hx : 0 ≤ x) (hL : 0 < L) (hC : 0 < C)
    (h1 : liquidityToCollateral x L C = some y) (h2 : collateralToLiquidity y L C = some z) : z ≤ x := by
  obtain ⟨ey, y0, _⟩ := l2c_some hx hL hC h1
  obtain ⟨ez, _, _⟩ := c2l_some y0 hL hC h2
  have hyL : y * L ≤ x * C := by rw [ey]; exact conv_floor_le hx (le_of_lt hC) hL
  -- z·C ≤ y·L ≤ x·C
  have hzC : z * C ≤ y * L := by rw [ez]; exact conv_floor_le y0 (le_of_lt hL) hC
  have : z * C ≤ x * C := le_trans hzC hyL
  exact le_of_mul_le_mul_right this hC

/-- **round trip the other way** (collateral → liquidity → collateral) never yields more collateral -/
theorem round_trip_collateral {c L C y z : Int} (hc : 0 ≤ c) (hL : 0 < L) (hC : 0 < C)
    (h1 : collateralToLiquidity c L C = some y) (h2 : liquidityToCollateral y L C = some z) : z ≤ c := by
  obtain ⟨ey, y0, _⟩ := c2l_some hc hL hC h1
  obtain ⟨ez, _, _⟩ := l2c_some y0 hL hC h2
  have h1' : y * C ≤ c * L := by rw [ey]; exact conv_floor_le hc (le_of_lt hL) hC
  have h2' : z * L ≤ y * C := by rw [ez]; exact conv_floor_le y0 (le_of_lt hC) hL
  have : z * L ≤ c * L := le_trans h2' h1'
  exact le_of_mul_le_mul_right this hL

/-- **fail_closed (conversions)**: zero collateral supply / zero liquidity supply is an error -/
theorem c2l_zero_supply (c L : Int) : collateralToLiquidity c L 0 = none := by simp [collateralToLiquidity]
theorem l2c_zero_supply (x C : Int) : liquidityToCollateral x 0 C = none := by simp [liquidityToCollateral]

/-! ### Drift -/

theorem chkU64_some {x y : Int} (h : chkU64 x = some y) : y = x ∧ 0 ≤ x ∧ x ≤ U64MAX := by
  unfold chkU64 at h
  split at h
  · rename_i hr; injection h with h; exact ⟨h.symm, hr.1, hr.2⟩
  · cases h

theorem chkU128_some {x y : Int} (h : chkU128 x = some y) : y = x ∧ 0 ≤ x ∧ x ≤ U128MAX := by
  unfold chkU128 at h
  split at h
  · rename_i hr; injection h with h; exact ⟨h.symm, hr.1, hr.2⟩
  · cases h

theorem precision_pos {d p : Int} (h : precisionIncrease d = some p) : 0 < p := by
  unfold precisionIncrease at h
  split at h
  · cases h
  · unfold exp10Int at h
    split at h
    · injection h with h; subst h; positivity
    · cases h

/-- value of `get_scaled_balance_increment` when it succeeds (`cum` is a u128: non-negative) -/
theorem inc_some {d cum a s : Int} (hcum : 0 ≤ cum) (h : scaledBalanceIncrement d cum a = some s) :
    ∃ p, precisionIncrease d = some p ∧ 0 < cum ∧ s = a * p / cum ∧ 0 ≤ a * p := by
  unfold scaledBalanceIncrement scaledBalance at h
  obtain ⟨p, hp, h⟩ := opt_bind_some h
  obtain ⟨m, hm, h⟩ := opt_bind_some h
  obtain ⟨em, m0, _⟩ := chkU128_some hm
  split at h
  · cases h
  · rename_i hcz
    obtain ⟨b, hb, h⟩ := opt_bind_some h
    obtain ⟨eb, _, _⟩ := chkU64_some hb
    simp only [Bool.false_and, Bool.false_eq_true, ↓reduceIte] at h
    injection h with h
    exact ⟨p, hp, by omega, by rw [← h, eb, em], m0⟩

theorem dec_some {d cum a s : Int} (hcum : 0 ≤ cum) (h : scaledBalanceDecrement d cum a = some s) :
    ∃ p, precisionIncrease d = some p ∧ 0 < cum ∧
      s = (if a * p / cum = 0 then 0 else a * p / cum + 1) := by
  unfold scaledBalanceDecrement scaledBalance at h
  obtain ⟨p, hp, h⟩ := opt_bind_some h
  obtain ⟨m, hm, h⟩ := opt_bind_some h
  obtain ⟨em, m0, _⟩ := chkU128_some hm
  split at h
  · cases h
  · rename_i hcz
    obtain ⟨b, hb, h⟩ := opt_bind_some h
    obtain ⟨eb, _, _⟩ := chkU64_some hb
    subst em; subst eb
    refine ⟨p, hp, by omega, ?_⟩
    by_cases hz : a * p / cum = 0
    · simp [hz] at h ⊢; exact h.symm
    · simp only [Bool.true_and, bne_iff_ne, ne_eq, hz, not_false_eq_true, ↓reduceIte] at h ⊢
      exact ((chkU64_some h).1)

theorem wd_some {d cum sb t : Int} (h : withdrawTokenAmount d cum sb = some t) :
    ∃ p, precisionIncrease d = some p ∧ t = sb * cum / p := by
  unfold withdrawTokenAmount at h
  obtain ⟨p, hp, h⟩ := opt_bind_some h
  obtain ⟨m, hm, h⟩ := opt_bind_some h
  obtain ⟨em, _, _⟩ := chkU128_some hm
  split at h
  · cases h
  · obtain ⟨e, _, _⟩ := chkU64_some h
    exact ⟨p, hp, by rw [e, em]⟩

/-- **drift_round_trip**: withdrawing the scaled balance that a deposit of `a` minted returns at
    most `a` tokens — for all decimals ≤ 19, all cumulative-interest values, all amounts. -/
theorem drift_round_trip {d cum a s t : Int} (hcum : 0 ≤ cum)
    (h1 : scaledBalanceIncrement d cum a = some s) (h2 : withdrawTokenAmount d cum s = some t) : t ≤ a := by
  obtain ⟨p, hp, hc, es, hap⟩ := inc_some hcum h1
  obtain ⟨p', hp', et⟩ := wd_some h2
  rw [hp] at hp'; injection hp' with hp'; subst hp'
  have hp0 := precision_pos hp
  have h3 : s * cum ≤ a * p := by rw [es]; exact Int.ediv_mul_le _ (by omega)
  have : s * cum / p ≤ a * p / p := Int.ediv_le_ediv hp0 h3
  rw [Int.mul_ediv_cancel _ (by omega)] at this
  omega

/-- **drift_decrement_ge_increment**: a withdrawal of an amount burns at least the scaled balance
    a deposit of the same amount mints. -/
theorem drift_decrement_ge_increment {d cum a s s' : Int} (hcum : 0 ≤ cum)
    (h1 : scaledBalanceIncrement d cum a = some s) (h2 : scaledBalanceDecrement d cum a = some s') : s ≤ s' := by
  obtain ⟨p, hp, _, es, _⟩ := inc_some hcum h1
  obtain ⟨p', hp', _, es'⟩ := dec_some hcum h2
  rw [hp] at hp'; injection hp' with hp'; subst hp'
  rw [es, es']
  split <;> omega

/-- Drift price adjustment is exactly ⌊p·cum / 10^10⌋ — never above price × exact rate, monotone. -/
theorem drift_adjust_exact {cum p q : Int} (h : driftAdjustU64 cum p = some q) :
    q = p * cum / SPOT_CUM_PRECISION ∧ q * SPOT_CUM_PRECISION ≤ p * cum := by
  unfold driftAdjustU64 driftAdjustU128 at h
  obtain ⟨a, ha, h⟩ := opt_bind_some h
  obtain ⟨m, hm, ha⟩ := opt_bind_some ha
  obtain ⟨em, _, _⟩ := chkU128_some hm
  injection ha with ha
  obtain ⟨e, _, _⟩ := chkU64_some h
  subst em; subst ha; subst e
  exact ⟨rfl, Int.ediv_mul_le _ (by decide)⟩

theorem drift_adjust_i64_fail_closed {cum p : Int} (hp : p < 0) : driftAdjustI64 cum p = none := by
  simp [driftAdjustI64, hp]

/-! ### staleness -/

/-- **stale_iff**: a venue reserve / market not refreshed in the current slot (second) is stale -/
theorem kamino_stale_iff (s c : Int) : kaminoStale s c = true ↔ s < c := by simp [kaminoStale]
theorem solend_stale_iff (s c : Int) : solendStale s c = true ↔ s < c := by simp [solendStale]
theorem drift_stale_iff (s c : Int) : driftStale s c = true ↔ s < c := by simp [driftStale]

section arms
open Mfi.Gen.Ora

/-- **stale_wired**: where prices are made (the adapter arms of state/price.rs, regenerated on every run) each of the
    six venue-backed arms applies the staleness test, to the venue account it has just key- and owner-checked, BEFORE
    loading a price, and against the right clock — Kamino: the slot, Drift: the unix time, Solend: the Clock sysvar -/
theorem stale_wired :
    (arms.filterMap fun a =>
        match a.2.findIdx? (fun | .venueStaleCheck _ => true | _ => false), a.2.findIdx? (fun | .loadPyth _ | .loadSwb _ => true | _ => false),
              a.2.findIdx? (· == .venueLoader 1), a.2.findSome? (fun | .venueStaleCheck c => some c | _ => none) with
        | some s, some l, some v, some c => if v < s ∧ s < l then some (a.1, c) else none
        | _, _, _, _ => none) =
      [(.sDriftPythPull, .unixTs), (.sDriftSwitchboardPull, .unixTs), (.sKaminoPythPush, .slot), (.sKaminoSwitchboardPull, .slot),
       (.sSolendPythPull, .sysvar), (.sSolendSwitchboardPull, .sysvar)] := by decide

end arms

/-! ### exchange-rate-adjusted oracle price (Kamino / Solend) -/

/-- the adjusted price is the floor of price × the ratio the program computed (partial statement:
    relative to the *used* ratio) -/
theorem adjusted_le_price_times_used_ratio {p r q : Int} (h : adjustI64 p r = some q) :
    q * ONE ≤ p * r := by
  rw [adjustI64_some h]; exact mulfloor_le _

/-- The full property "adjusted price ≤ price × EXACT exchange rate" is FALSE of model and code:
    the program divides both supplies by 10^decimals (truncating) before taking the ratio, and
    truncating the denominator makes the used ratio exceed the exact one. Witness: a reserve with
    6 raw liquidity units, 3 raw collateral units, 9 decimals (exact rate 2): a Switchboard-scale
    price 10^12 is adjusted to 2 000 001 184 239 > 2·10^12, and a Pyth price 10^10 to
    20 000 011 842 > 2·10^10. (Replayed on the real functions by the C20 monitor; known finding C20-F1.) -/
theorem adjusted_price_can_exceed_exact :
    (match scaleSupplies (6 * ONE) 3 9 with
     | some (l, c) => (usedRatio l c).bind (adjustI128 1000000000000)
     | none => none) = some 2000001184239 ∧
    (match scaleSupplies (6 * ONE) 3 9 with
     | some (l, c) => (usedRatio l c).bind (adjustI64 10000000000)
     | none => none) = some 20000011842 := by decide

/-- The same truncation shows in the conversion itself: "collateral to liquidity never exceeds the exact value" is FALSE of model
    and code by one native unit when the exact value lies just below a whole number. Witness (found by the venue monitor on a
    multi-seed sweep; known finding C20-F2): a Solend reserve with 6 188 002 000 001 raw liquidity, 2 062 747 777 319 raw collateral,
    9 decimals; 2 062 747 110 626 collateral is worth 6 187 999 999 999.99999… tokens, the program announces 6 188 000 000 000. -/
theorem conversion_can_exceed_exact :
    (match scaleSupplies (6188002000001 * ONE) 2062747777319 9 with
     | some (l, c) => collateralToLiquidity 2062747110626 l c
     | none => none) = some 6188000000000 ∧
    2062747110626 * 6188002000001 / 2062747777319 = (6187999999999 : Int) := by decide

/-- scale_supplies / convert_decimals divide and multiply by rows of the table: that table is exactly the powers of ten 10^0 .. 10^23 as I80F48 (regenerated from the real
    constants on every run; the model computes its own powers of ten and is diffed against the real functions across
    ALL 24 decimals) -/
theorem scaling_table_is_powers_of_ten : Mfi.Gen.EXP_10_I80F48 = Mfi.Fx.POW10FX := Mfi.ConstL.exp10_table_exact

/-- **a Solend reserve that was not refreshed in the current slot is refused at the door**: both Solend instructions carry
    the constraint `!reserve.is_stale()?` (the slot comparison of `solendStale`, diffed by the integr family) on the
    reserve account — regenerated constraint table; the Kamino and Drift instructions refresh through the venue's own
    CPI, their oracle arms test freshness themselves (C09.venue_fresh) -/
theorem solend_reserve_fresh_at_the_door :
    Mfi.Gen.Acc.hasCons .SolendDeposit .f_integration_acc_1 (.venueFresh .f_integration_acc_1) = true ∧
    Mfi.Gen.Acc.hasCons .SolendWithdraw .f_integration_acc_1 (.venueFresh .f_integration_acc_1) = true := by decide

/-- the venue bindings of the Kamino / Solend / Drift instructions (reserve / market mint = bank mint, obligation and spot-position checks, venue program ownership) have no recognised kind in the generated constraint table; their text is pinned by fingerprint
    (C08.unclassified_constraints_pinned), so an edit of any of them breaks an obligation of this property too -/
theorem unclassified_constraints_pinned :
    Mfi.Gen.Acc.otherFingerprints =
      [(.LendingPoolAddBankKamino, .f_integration_acc_1, 1294895318964715725), (.KaminoDeposit, .f_integration_acc_2, 102789841884831255),
       (.KaminoDeposit, .f_integration_acc_2, 2232305478470895852), (.KaminoWithdraw, .f_integration_acc_2, 2232305478470895852),
       (.KaminoWithdraw, .f_integration_acc_2, 102789841884831255), (.LendingAccountSettleEmissions, .f_marginfi_account, 1925430640847475726),
       (.LendingPoolAddBankSolend, .f_integration_acc_1, 1481642461694787521),
       (.SolendDeposit, .f_integration_acc_2, 1332785733999453949), (.SolendWithdraw, .f_integration_acc_2, 1332785733999453949),
       (.LendingPoolUpdateFeesDestinationAccount, .f_destination_account, 2287509815940661847), (.LendingPoolWithdrawFeesPermissionless, .f_fees_destination_account, 442390752958412362),
       (.PropagateStakedSettings, .f_bank, 192467567798966075), (.LendingPoolAddBankDrift, .f_integration_acc_1, 778144333709451630),
       (.DriftDeposit, .f_integration_acc_2, 3003145849582993), (.DriftDeposit, .f_integration_acc_1, 1555694171009604275),
       (.DriftHarvestReward, .f_integration_acc_2, 522844572761367543), (.DriftHarvestReward, .f_harvest_drift_spot_market, 1082706562961323273),
       (.DriftHarvestReward, .f_harvest_drift_spot_market, 2159362736921184234), (.DriftWithdraw, .f_integration_acc_2, 3003145849582993),
       (.DriftWithdraw, .f_integration_acc_2, 471323873936025127), (.DriftWithdraw, .f_integration_acc_2, 1377500195096470279),
       (.DriftWithdraw, .f_integration_acc_1, 1555694171009604275)] :=
  Mfi.Props.C08.unclassified_constraints_pinned

/-- **fails closed on a venue that answers something else than announced** (instruction level, model Mfi/Model/Venue.lean
    diffed through the real kamino_deposit by the `venue` family): when the collateral in the bank's obligation moved by two
    units or more away from marginfi's own conversion of the deposit, the deposit is refused and nothing is booked -/
theorem kamino_deposit_rejects_misreport {now expected pre post : Int} {b : Mfi.Bank.Bank} {bal : Option Mfi.Bank.Balance}
    (hm : 1 < (post - pre) - expected ∨ 1 < expected - (post - pre)) :
    ∀ o, Mfi.Venue.kaminoDeposit now b bal expected pre post ≠ .ok o :=
  Mfi.Props.C02.kamino_deposit_rejects_misreport hm

/-- an accepted Kamino withdrawal took exactly the collateral asked for out of the obligation and paid out what arrived,
    which is within one unit of marginfi's own conversion of that collateral -/
theorem kamino_withdraw_checked {now amount obPre obPost vPre vPost : Int} {all : Bool} {expectedOf : Int → Int}
    {b : Mfi.Bank.Bank} {x : Mfi.Bank.Balance} {o : Mfi.Venue.WOut}
    (h : Mfi.Venue.kaminoWithdraw now b (some x) amount all expectedOf obPre obPost vPre vPost = .ok o) :
    obPre - obPost = o.collateral ∧ o.paid = vPost - vPre ∧
    o.paid - expectedOf o.collateral ≤ 1 ∧ expectedOf o.collateral - o.paid ≤ 1 := by
  obtain ⟨h1, h2, _, h4, h5, _⟩ := Mfi.Props.C02.kamino_withdraw_spec h
  exact ⟨h1, h2, h4, h5⟩

section whole_instructions
open Mfi Mfi.Venue Mfi.Integr Mfi.Bank

/-! ### Drift at instruction level (Mfi/Model/Venue.lean: `driftDeposit`, `driftWithdrawPlan`, `driftWithdraw`) -/

/-- a withdrawal's scaled decrement, when it is not zero, is worth STRICTLY MORE than the amount -/
theorem decrement_covers {dec cum a e P : Int} (h : scaledBalanceDecrement dec cum a = some e)
    (hP : precisionIncrease dec = some P) (hc : 0 ≤ cum) (he : e ≠ 0) : a * P < e * cum := by
  obtain ⟨p, hp, hcp, es⟩ := dec_some hc h
  rw [hP] at hp; injection hp with hp; subst hp
  by_cases hz : a * P / cum = 0
  · simp [hz] at es; exact absurd es he
  · simp only [hz, if_false] at es
    rw [es]
    exact Int.lt_ediv_add_one_mul_self _ hcp

theorem all_amounts_decrement {dec cum sb t e : Int} (h : driftAllAmounts dec cum sb = some (t, e)) :
    scaledBalanceDecrement dec cum t = some e := by
  unfold driftAllAmounts at h
  split at h
  · cases h
  · rename_i t0 _
    split at h
    · cases h
    · rename_i e0 he0
      split at h
      · split at h
        · cases h
        · rename_i e1 he1
          injection h with h; injection h with h1 h2; subst h1; subst h2; exact he1
      · injection h with h; injection h with h1 h2; subst h1; subst h2; exact he0

theorem partial_amounts_decrement {dec cum amount shares t d : Int} (h : driftPartialAmounts dec cum amount shares = .ok (some (t, d))) :
    scaledBalanceDecrement dec cum t = some d := by
  unfold driftPartialAmounts at h
  split at h
  · cases h
  · rename_i d0 hd0
    split at h
    · cases h
    · split at h
      · split at h
        · cases h
        · rename_i t1 _
          split at h
          · cases h
          · rename_i d1 hd1
            injection h with h; injection h with h; injection h with h1 h2; subst h1; subst h2; exact hd1
      · injection h with h; injection h with h; injection h with h1 h2; subst h1; subst h2; exact hd0

/-- **drift_plan_announces_the_decrement_of_what_it_asks_for**: whatever branch `drift_withdraw` takes — partial, partial on the
    one-unit boundary (amount recomputed from the position's shares), complete, complete with the one-base-unit reduction —
    the scaled-balance change it debits and announces is Drift's own decrement of exactly the token amount it asks for -/
theorem drift_plan_announces_the_decrement_of_what_it_asks_for {now amount dec cum : Int} {b : Bank} {x : Balance} {all : Bool} {p : DPlan}
    (h : driftWithdrawPlan now b x amount all dec cum = .ok p) :
    scaledBalanceDecrement dec cum p.tokens = some p.scaled := by
  unfold driftWithdrawPlan at h
  cases all with
  | true =>
    simp only [if_true] at h
    obtain ⟨⟨b', x', sb⟩, _, h⟩ := Res.bind_ok h
    dsimp only at h
    split at h
    · cases h
    · rename_i t e hsel
      split at h
      · cases h
      · injection h with h; subst h; exact all_amounts_decrement hsel
  | false =>
    simp only [Bool.false_eq_true, if_false] at h
    obtain ⟨sel, hsel, h⟩ := Res.bind_ok h
    split at h
    · cases h
    · rename_i t d
      obtain ⟨⟨b', x'⟩, _, h⟩ := Res.bind_ok h
      injection h with h; subst h
      exact partial_amounts_decrement hsel

/-- **drift_withdraw_never_overpays**: the tokens a Drift withdrawal asks the venue for (and forwards to the user) are worth
    STRICTLY LESS than the scaled balance it debits, at the market's exchange rate — in every branch. (The one exception is the
    venue's own: a request worth less than one scaled unit costs no scaled balance at all, `scaled = 0`.) -/
theorem drift_withdraw_never_overpays {now amount dec cum P : Int} {b : Bank} {x : Balance} {all : Bool} {p : DPlan}
    (h : driftWithdrawPlan now b x amount all dec cum = .ok p) (hP : precisionIncrease dec = some P) (hc : 0 ≤ cum)
    (hs : p.scaled ≠ 0) : p.tokens * P < p.scaled * cum :=
  decrement_covers (drift_plan_announces_the_decrement_of_what_it_asks_for h) hP hc hs

/-- **drift_deposit_never_overcredits**: an accepted Drift deposit credits exactly the scaled balance the venue credited, and
    that is at most amount x precision / cumulative interest -/
theorem drift_deposit_never_overcredits {now amount dec cum pre post P credited : Int} {b b' : Bank} {bal x' : Option Balance}
    (h : driftDeposit now b bal amount dec cum pre post = .ok (b', x', credited)) (hP : precisionIncrease dec = some P) (hc : 0 ≤ cum) :
    credited = post - pre ∧ credited * cum ≤ amount * P := by
  unfold driftDeposit at h
  split at h
  · cases h
  · rename_i expected hexp
    split at h
    · cases h
    · split at h
      · cases h
      · rename_i _ heq
        obtain ⟨r, _, h⟩ := Res.bind_ok h
        injection h with h
        injection h with _ h
        injection h with _ h
        have heq' : post - pre = expected := by
          by_contra hne; exact heq hne
        refine ⟨h.symm, ?_⟩
        obtain ⟨p, hp, hcp, es, _⟩ := inc_some hc hexp
        rw [hP] at hp; injection hp with hp; subst hp
        rw [← h, heq', es]
        exact Int.ediv_mul_le _ (by omega)

end whole_instructions

end Mfi.Props.C20
